package gs

import (
	"fmt"
	"sync"
)

// epochState lets a sync object that outlives one execution (a package level
// variable of the target) start every controlled execution from the state it
// had when the program entered controlled mode.
type epochState struct {
	epoch uint64 // 0: last touched in free mode
}

// WaitGroup replaces sync.WaitGroup in instrumented code.
type WaitGroup struct {
	real sync.WaitGroup
	mu   sync.Mutex
	es   epochState
	n    int // mirror of the counter
	base int // counter value when controlled mode was first entered
}

func (w *WaitGroup) enter(s *sched) {
	if w.es.epoch == s.epoch {
		return
	}
	if w.es.epoch == 0 {
		w.base = w.n
	} else {
		w.n = w.base
	}
	w.es.epoch = s.epoch
}

// Add is sync.WaitGroup.Add.
func (w *WaitGroup) Add(delta int) {
	if !controlled.Load() {
		w.mu.Lock()
		w.n += delta
		w.es.epoch = 0
		w.mu.Unlock()
		w.real.Add(delta)
		return
	}
	s := cur
	g := s.me()
	o := &op{kind: kAtomic, code: 10}
	o.desc = func() string { return fmt.Sprintf("wg.Add(%d)", delta) }
	o.do = func() string {
		w.enter(s)
		w.n += delta
		if w.n < 0 {
			return "sync: negative WaitGroup counter"
		}
		return ""
	}
	s.announce(g, o)
}

// Done is sync.WaitGroup.Done.
func (w *WaitGroup) Done() { w.Add(-1) }

// Wait is sync.WaitGroup.Wait.
func (w *WaitGroup) Wait() {
	if !controlled.Load() {
		w.real.Wait()
		return
	}
	s := cur
	g := s.me()
	o := &op{kind: kAtomic, code: 11}
	o.desc = func() string { w.enter(s); return fmt.Sprintf("wg.Wait(counter=%d)", w.n) }
	o.enabled = func() bool { w.enter(s); return w.n == 0 }
	s.announce(g, o)
}

// Mutex replaces sync.Mutex in instrumented code.
type Mutex struct {
	real   sync.Mutex
	es     epochState
	locked bool
}

func (m *Mutex) enter(s *sched) {
	if m.es.epoch != s.epoch {
		m.es.epoch = s.epoch
		m.locked = false
	}
}

// Lock is sync.Mutex.Lock.
func (m *Mutex) Lock() {
	if !controlled.Load() {
		m.real.Lock()
		return
	}
	s := cur
	g := s.me()
	o := &op{kind: kAtomic, code: 20}
	o.desc = func() string { return "mutex.Lock" }
	o.enabled = func() bool { m.enter(s); return !m.locked }
	o.do = func() string { m.locked = true; return "" }
	s.announce(g, o)
}

// TryLock is sync.Mutex.TryLock.
func (m *Mutex) TryLock() bool {
	if !controlled.Load() {
		return m.real.TryLock()
	}
	s := cur
	g := s.me()
	ok := false
	o := &op{kind: kAtomic, code: 21}
	o.desc = func() string { return "mutex.TryLock" }
	o.do = func() string {
		m.enter(s)
		if !m.locked {
			m.locked, ok = true, true
		}
		return ""
	}
	s.announce(g, o)
	return ok
}

// Unlock is sync.Mutex.Unlock.
func (m *Mutex) Unlock() {
	if !controlled.Load() {
		m.real.Unlock()
		return
	}
	s := cur
	g := s.me()
	o := &op{kind: kAtomic, code: 22}
	o.desc = func() string { return "mutex.Unlock" }
	o.do = func() string {
		m.enter(s)
		if !m.locked {
			return "sync: unlock of unlocked mutex"
		}
		m.locked = false
		return ""
	}
	s.announce(g, o)
}

// RWMutex replaces sync.RWMutex in instrumented code.
type RWMutex struct {
	real    sync.RWMutex
	es      epochState
	writer  bool
	readers int
}

func (m *RWMutex) enter(s *sched) {
	if m.es.epoch != s.epoch {
		m.es.epoch = s.epoch
		m.writer, m.readers = false, 0
	}
}

func (m *RWMutex) atomic(code uint32, desc string, enabled func() bool, do func() string) {
	s := cur
	g := s.me()
	o := &op{kind: kAtomic, code: code}
	o.desc = func() string { return desc }
	if enabled != nil {
		o.enabled = func() bool { m.enter(s); return enabled() }
	}
	o.do = func() string { m.enter(s); return do() }
	s.announce(g, o)
}

// Lock is sync.RWMutex.Lock.
func (m *RWMutex) Lock() {
	if !controlled.Load() {
		m.real.Lock()
		return
	}
	m.atomic(30, "rwmutex.Lock", func() bool { return !m.writer && m.readers == 0 }, func() string { m.writer = true; return "" })
}

// Unlock is sync.RWMutex.Unlock.
func (m *RWMutex) Unlock() {
	if !controlled.Load() {
		m.real.Unlock()
		return
	}
	m.atomic(31, "rwmutex.Unlock", nil, func() string {
		if !m.writer {
			return "sync: Unlock of unlocked RWMutex"
		}
		m.writer = false
		return ""
	})
}

// RLock is sync.RWMutex.RLock.
func (m *RWMutex) RLock() {
	if !controlled.Load() {
		m.real.RLock()
		return
	}
	m.atomic(32, "rwmutex.RLock", func() bool { return !m.writer }, func() string { m.readers++; return "" })
}

// RUnlock is sync.RWMutex.RUnlock.
func (m *RWMutex) RUnlock() {
	if !controlled.Load() {
		m.real.RUnlock()
		return
	}
	m.atomic(33, "rwmutex.RUnlock", nil, func() string {
		if m.readers == 0 {
			return "sync: RUnlock of unlocked RWMutex"
		}
		m.readers--
		return ""
	})
}

// RLocker mirrors sync.RWMutex.RLocker.
func (m *RWMutex) RLocker() sync.Locker { return rlocker{m} }

type rlocker struct{ m *RWMutex }

func (r rlocker) Lock()   { r.m.RLock() }
func (r rlocker) Unlock() { r.m.RUnlock() }
