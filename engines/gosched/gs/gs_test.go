package gs

import (
	"context"
	"fmt"
	"reflect"
	"runtime"
	"sort"
	"strings"
	"testing"
	"time"
)

type unit = struct{}

// (a) ping-pong between two goroutines, main waits for both.
func pingPong() {
	ping := make(chan int)
	pong := make(chan int)
	done := make(chan string)
	Go("t.go:1", "pinger", func() {
		sum := 0
		for i := 0; i < 2; i++ {
			Send(ping, i)
			sum += Recv(pong)
		}
		Send(done, fmt.Sprint("pinger ", sum))
	})
	Go("t.go:2", "ponger", func() {
		for i := 0; i < 2; i++ {
			v := Recv(ping)
			Send(pong, v+10)
		}
		Send(done, "ponger")
	})
	a := Recv(done)
	b := Recv(done)
	Observe(a + "," + b)
}

func TestPingPongCounts(t *testing.T) {
	var counts [2][3]int
	for round := 0; round < 2; round++ {
		for b := 0; b <= 2; b++ {
			r := Explore(Options{MaxPreemptions: b}, pingPong)
			if !r.Exhaustive || r.DeadlockCount != 0 || r.PanicCount != 0 || r.Nondeterministic != 0 {
				t.Fatalf("bound %d: %s", b, r.Summary())
			}
			counts[round][b] = r.Schedules
		}
	}
	t.Logf("ping-pong schedules for bounds 0,1,2: %v", counts[0])
	if counts[0] != counts[1] {
		t.Fatalf("unstable schedule counts: %v vs %v", counts[0], counts[1])
	}
	// exact numbers are pinned so that any change of the canonical order shows up:
	// two choice points (who starts first, whose "done" is received first); the
	// second one costs a preemption for one of its alternatives.
	if want := [3]int{2, 4, 4}; counts[0] != want {
		t.Fatalf("schedule counts %v, want %v", counts[0], want)
	}
	r := Explore(Options{MaxPreemptions: 2}, pingPong)
	if len(r.Outcomes) != 2 {
		t.Fatalf("expected the two orders of done messages, got %v", r.Outcomes)
	}
}

// (b) lost wake-up: needs one preemption.
func lostMessage() {
	ready := make(chan unit)
	wake := make(chan unit)
	done := make(chan unit)
	Go("t.go:10", "consumer", func() {
		Send(ready, unit{})
		Yield()
		Recv(wake)
		Send(done, unit{})
	})
	Recv(ready)
	if Select(true, SendCase(wake, unit{})) == -1 {
		Observe("lost")
	} else {
		Observe("delivered")
	}
	Recv(done)
}

func TestLostMessage(t *testing.T) {
	r0 := Explore(Options{MaxPreemptions: 0}, lostMessage)
	if r0.DeadlockCount != 0 || !r0.Exhaustive {
		t.Fatalf("bound 0 must not deadlock: %s", r0.Summary())
	}
	r1 := Explore(Options{MaxPreemptions: 1}, lostMessage)
	if r1.DeadlockCount == 0 {
		t.Fatalf("bound 1 must find the deadlock: %s", r1.Summary())
	}
	d := r1.Deadlocks[0]
	if d.Preemptions != 1 || len(d.Blocked) != 2 {
		t.Fatalf("unexpected deadlock %+v", d)
	}
	a := Replay(d.Choices, lostMessage)
	b := Replay(d.Choices, lostMessage)
	if !a.Deadlock || !reflect.DeepEqual(a, b) || !reflect.DeepEqual(a, d) {
		t.Fatalf("replay mismatch:\n%+v\n%+v\n%+v", d, a, b)
	}
	t.Logf("deadlock schedule %v: %v", d.Choices, d.Blocked)
}

// (c) leaks.
func TestLeak(t *testing.T) {
	r := Explore(Options{MaxPreemptions: 2}, func() {
		c := make(chan int)
		Go("leak.go:7", "orphan", func() { Recv(c) })
		x := make(chan int)
		Go("leak.go:9", "a", func() { Send(x, 1) })
		Go("leak.go:10", "b", func() { Recv(x) })
	})
	if r.LeakedMax != 3 || r.LeakedMin != 3 {
		t.Fatalf("leak count: %s", r.Summary())
	}
	for _, o := range r.FirstOfEachOutcome {
		for _, g := range o.Leaked {
			wantBF := g.Func == "orphan"
			if g.BlockedForever != wantBF {
				t.Fatalf("goroutine %+v: BlockedForever=%v want %v", g, g.BlockedForever, wantBF)
			}
			if g.Func == "orphan" && (g.CreatedAt != "leak.go:7" || !strings.Contains(g.Pending, "recv")) {
				t.Fatalf("bad info %+v", g)
			}
		}
	}
}

// (d) select with two ready arms explores both.
func TestSelectBothArms(t *testing.T) {
	r := Explore(Options{MaxPreemptions: 0}, func() {
		a := make(chan string, 1)
		b := make(chan string, 1)
		Send(a, "a")
		Send(b, "b")
		ra, rb := RecvCase(a), RecvCase(b)
		switch Select(false, ra, rb) {
		case 0:
			Observe(ra.V)
		case 1:
			Observe(rb.V)
		}
	})
	if r.Outcomes["a"] != 1 || r.Outcomes["b"] != 1 || !r.FullyExplored {
		t.Fatalf("%s", r.Summary())
	}
}

// (e) buffered channel, close, range, WaitGroup, Mutex.
func TestBufferedCloseRangeWG(t *testing.T) {
	r := Explore(Options{MaxPreemptions: 2}, func() {
		c := make(chan int, 2)
		var wg WaitGroup
		var mu Mutex
		total := 0
		wg.Add(2)
		Go("e.go:1", "producer", func() {
			for i := 0; i < 3; i++ {
				Send(c, i)
			}
			Close(c)
			mu.Lock()
			total += 100
			mu.Unlock()
			wg.Done()
		})
		Go("e.go:2", "consumer", func() {
			sum := 0
			for v := range RangeChan(c) {
				sum += v
			}
			_, ok := Recv2(c)
			mu.Lock()
			total += sum
			mu.Unlock()
			Observe(fmt.Sprint("sum=", sum, " ok=", ok))
			wg.Done()
		})
		wg.Wait()
		Observe(fmt.Sprint("total=", total))
	})
	if !r.Exhaustive || r.DeadlockCount != 0 || r.PanicCount != 0 || r.LeakedMax != 0 {
		t.Fatalf("%s", r.Summary())
	}
	if len(r.Outcomes) != 1 || r.Outcomes["sum=3 ok=false\ntotal=103"] == 0 {
		t.Fatalf("%s", r.Summary())
	}
	t.Logf("schedules=%d executions=%d", r.Schedules, r.Executions)
}

func TestClosedChannelPanics(t *testing.T) {
	o := Replay(nil, func() {
		c := make(chan int, 1)
		Close(c)
		Send(c, 1)
	})
	if o.Panic == nil || !strings.Contains(fmt.Sprint(o.Panic), "send on closed channel") {
		t.Fatalf("%+v", o)
	}
	o = Replay(nil, func() {
		c := make(chan int)
		Close(c)
		Close(c)
	})
	if o.Panic == nil || !strings.Contains(fmt.Sprint(o.Panic), "close of closed channel") {
		t.Fatalf("%+v", o)
	}
	o = Replay(nil, func() {
		var c chan int
		Go("n.go:1", "x", func() { panic("boom") })
		Recv(c) // nil channel: blocks forever
	})
	if o.Panic == nil || !strings.Contains(fmt.Sprint(o.Panic), "boom") {
		t.Fatalf("%+v", o)
	}
}

func TestNilChannelDeadlock(t *testing.T) {
	o := Replay(nil, func() {
		var c chan int
		Recv(c)
	})
	if !o.Deadlock || len(o.Blocked) != 1 {
		t.Fatalf("%+v", o)
	}
}

// (f) many executions must not accumulate goroutines.
func TestNoGoroutineGrowth(t *testing.T) {
	body := func() {
		c := make(chan int)
		for i := 0; i < 3; i++ {
			Go("f.go:1", "w", func() {
				defer func() { Yield() }() // a deferred wrapped op must not keep a killed goroutine alive
				Yield()
				Yield()
				Recv(c) // leaks
			})
		}
		Yield()
	}
	Explore(Options{MaxPreemptions: 0}, body) // starts the watchdog
	before := runtime.NumGoroutine()
	r := Explore(Options{MaxPreemptions: 6, MaxExecutions: 2000}, body)
	time.Sleep(10 * time.Millisecond)
	after := runtime.NumGoroutine()
	if r.Executions < 2000 {
		t.Fatalf("only %d executions", r.Executions)
	}
	if r.CapHit != "executions" || r.Exhaustive {
		t.Fatalf("cap not reported: %s", r.Summary())
	}
	if after > before+2 {
		t.Fatalf("goroutines grew from %d to %d", before, after)
	}
	t.Logf("%d executions, goroutines %d -> %d, %.0f exec/s", r.Executions, before, after, float64(r.Executions)/r.Elapsed.Seconds())
}

func TestContextCancel(t *testing.T) {
	r := Explore(Options{MaxPreemptions: 2}, func() {
		ctx, cancel := WithCancel(context.Background())
		ask := make(chan int)
		ans := make(chan int)
		Go("c.go:1", "server", func() {
			for {
				rd, ra := RecvCase(ctx.Done()), RecvCase(ask)
				switch Select(false, rd, ra) {
				case 0:
					return
				case 1:
					Send(ans, ra.V*2)
				}
			}
		})
		Send(ask, 21)
		v := Recv(ans)
		cancel()
		Observe(fmt.Sprint(v, ctx.Err() != nil))
	})
	if !r.Exhaustive || r.DeadlockCount != 0 || len(r.Outcomes) != 1 || r.Outcomes["42 true"] == 0 {
		t.Fatalf("%s", r.Summary())
	}
	// the server is either gone or about to see Done: never blocked forever
	for _, o := range r.FirstOfEachOutcome {
		for _, g := range o.Leaked {
			if g.BlockedForever {
				t.Fatalf("server blocked forever: %+v", g)
			}
		}
	}
	if r.LeakedMax != 1 {
		t.Fatalf("expected the server to be still alive in some schedule: %s", r.Summary())
	}
}

func TestFreeModeDegrades(t *testing.T) {
	c := make(chan int, 1)
	Send(c, 5)
	if v, ok := Recv2(c); v != 5 || !ok {
		t.Fatal("recv")
	}
	d := make(chan string)
	Go("x", "y", func() { SendTo(d).Send("hi") })
	rc := RecvCase(d)
	if Select(false, rc) != 0 || rc.V != "hi" || !rc.OK {
		t.Fatal("select")
	}
	if Select(true, RecvCase(d), SendCase(d, "x")) != -1 {
		t.Fatal("default")
	}
	Close(c)
	n := 0
	for range RangeChan(c) {
		n++
	}
	var wg WaitGroup
	var mu Mutex
	var rw RWMutex
	wg.Add(1)
	Go("x", "y", func() {
		mu.Lock()
		rw.RLock()
		n++
		rw.RUnlock()
		mu.Unlock()
		wg.Done()
	})
	wg.Wait()
	ctx, cancel := WithCancel(context.Background())
	cancel()
	<-ctx.Done()
	if n != 1 {
		t.Fatal(n)
	}
	Observe("ignored")
}

func TestReplayNondeterminism(t *testing.T) {
	calls := 0
	body := func() {
		calls++
		c := make(chan int)
		n := 2
		if calls > 1 {
			n = 1 // the body behaves differently on the second call
		}
		for i := 0; i < n; i++ {
			Go("nd.go:1", "w", func() { Send(c, 1) })
		}
		for i := 0; i < n; i++ {
			Recv(c)
		}
	}
	a := Replay([]int{1}, body)
	if a.Nondeterminism != "" {
		t.Fatalf("first replay should be fine: %+v", a)
	}
	b := Replay([]int{1}, body)
	if b.Nondeterminism == "" {
		t.Fatalf("divergence not reported: %+v", b)
	}
}

func TestSharding(t *testing.T) {
	for _, body := range []func(){pingPong, benchBody} {
		full := Explore(Options{MaxPreemptions: 2}, body)
		for depth := 1; depth <= 3; depth++ {
			for _, n := range []int{2, 4, 7} {
				var reps []Report
				for k := 0; k < n; k++ {
					reps = append(reps, Explore(Options{MaxPreemptions: 2, ShardK: k, ShardN: n, ShardDepth: depth}, body))
				}
				m := Merge(reps...)
				if m.Schedules != full.Schedules || !reflect.DeepEqual(m.Outcomes, full.Outcomes) || m.BoundCompleted != 2 {
					t.Fatalf("depth %d, %d shards: %s\nfull %s", depth, n, m.Summary(), full.Summary())
				}
			}
		}
	}
}

// Three workers handing results to main over one channel: all orders appear.
func TestAllOrders(t *testing.T) {
	r := Explore(Options{MaxPreemptions: 0}, func() {
		c := make(chan int)
		for i := 0; i < 3; i++ {
			Go("o.go:1", "w", func() { Send(c, i) })
		}
		s := ""
		for i := 0; i < 3; i++ {
			s += fmt.Sprint(Recv(c))
		}
		Observe(s)
	})
	var keys []string
	for k := range r.Outcomes {
		keys = append(keys, k)
	}
	sort.Strings(keys)
	if strings.Join(keys, ",") != "012,021,102,120,201,210" {
		t.Fatalf("orders %v", keys)
	}
}

func TestStepLimit(t *testing.T) {
	r := Explore(Options{MaxPreemptions: 0, MaxSteps: 50}, func() {
		for {
			Yield()
		}
	})
	if r.Outcomes[" [STEPLIMIT]"] != 1 {
		t.Fatalf("%s", r.Summary())
	}
}

func TestOnScheduleAndTotals(t *testing.T) {
	n, pts, steps := 0, 0, 0
	blocked := 0
	r := Explore(Options{MaxPreemptions: 2, OnSchedule: func(o *Outcome, points int) {
		n++
		pts += points
		steps += o.Steps
		if len(o.Choices) != points {
			t.Errorf("points %d vs choices %v", points, o.Choices)
		}
		for _, g := range o.Leaked {
			if g.BlockedForever {
				blocked++
			}
		}
	}}, func() {
		c := make(chan int)
		Go("l.go:1", "orphan", func() { Recv(c) })
		pingPong()
	})
	if n != r.Schedules || n == 0 || blocked != n {
		t.Fatalf("callback %d times, schedules %d, blocked %d", n, r.Schedules, blocked)
	}
	if r.TotalSteps < int64(steps) || r.TotalPoints < int64(pts) || r.TotalSteps == 0 {
		t.Fatalf("totals %d/%d vs per-schedule sums %d/%d", r.TotalSteps, r.TotalPoints, steps, pts)
	}
	m := Merge(r, r)
	if m.TotalSteps != 2*r.TotalSteps || m.TotalPoints != 2*r.TotalPoints {
		t.Fatal("merge totals")
	}
}
