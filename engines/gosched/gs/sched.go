package gs

import (
	"bytes"
	"fmt"
	"os"
	"runtime"
	"runtime/debug"
	"strconv"
	"strings"
	"sync"
	"sync/atomic"
	"time"
)

// G is one controlled goroutine.
type G struct {
	id      int
	site    string // file:line of the go statement
	fn      string // printed function expression
	parent  int
	wake    chan struct{}
	pending *op
	done    bool
	dying   bool
	gid     uint64 // runtime goroutine id (only with VERIF_GS_CHECK=1)
}

// GInfo describes a goroutine in a report.
type GInfo struct {
	ID             int
	CreatedAt      string // file:line of the go statement ("" for the main body)
	Func           string
	Pending        string // operation the goroutine is parked on
	BlockedForever bool   // no sequence of steps of the remaining goroutines can ever enable it
}

func (g GInfo) String() string {
	bf := ""
	if g.BlockedForever {
		bf = " BLOCKED-FOREVER"
	}
	return fmt.Sprintf("g%d %s (go at %s): %s%s", g.ID, g.Func, g.CreatedAt, g.Pending, bf)
}

// Outcome is the result of one execution (one schedule).
type Outcome struct {
	Choices        []int   // choice taken at every choice point (points with a single enabled transition are not recorded)
	Deadlock       bool    // no enabled transition while the main body had not returned
	Blocked        []GInfo // on deadlock: every parked goroutine
	Leaked         []GInfo // goroutines still alive when the main body returned
	Panic          any     // nil, or "gN: <panic value>" (string) of the first panicking goroutine
	Observation    string  // set by the body through Observe
	Steps          int     // transitions fired
	Preemptions    int     // preemptive switches in Choices
	Goroutines     int     // goroutines created, including the main body
	StepLimit      bool    // execution aborted: more than MaxSteps transitions
	Nondeterminism string  // non-empty: the replayed prefix did not match the program (not a bug of the target's concurrency)
}

// Key is the string under which the outcome is counted in Report.Outcomes.
func (o Outcome) Key() string {
	k := o.Observation
	if o.Deadlock {
		k += " [DEADLOCK]"
	}
	if o.Panic != nil {
		k += fmt.Sprintf(" [PANIC %v]", o.Panic)
	}
	if o.StepLimit {
		k += " [STEPLIMIT]"
	}
	if o.Nondeterminism != "" {
		k += " [NONDETERMINISM]"
	}
	return k
}

// point is one recorded choice point.
type point struct {
	n      int32  // enabled transitions
	free   int32  // alternatives [0,free) cost no preemption, [free,n) cost one
	chosen int32  // alternative taken
	sig    uint32 // hash of the enabled set, used to detect nondeterminism
}

type trans struct {
	g  *G
	a  int // arm index, -1 = default clause
	p  *G  // rendezvous partner or nil
	pa int
}

type sched struct {
	gs       []*G
	running  *G // the goroutine allowed to run right now
	curG     *G // "current" goroutine for preemption accounting
	yield    chan struct{}
	chans    map[uintptr]*chanState
	epoch    uint64
	mainDone bool
	panicked bool
	panicVal string
	panicStk string
	obs      strings.Builder
	steps    int
	maxSteps int
	drainMax int

	prefix []int
	expect []uint32
	points []point
	nondet string

	ts     []trans
	pos    []int
	sink   func(pt point)
	tracef func(line string) // when set, receives one line per fired transition
	sites  bool              // record the source position of every operation (costs ~35%)
}

var epochCounter atomic.Uint64

// progress is bumped at every resume; the watchdog uses it to detect a
// goroutine that never comes back to the scheduler.
var progress atomic.Uint64
var watchOnce sync.Once
var watchActive atomic.Bool

// StallTimeout is how long one goroutine may run between two scheduling points
// before the process is aborted with a goroutine dump (a target goroutine in an
// infinite loop without channel operations would otherwise hang Explore).
var StallTimeout = 60 * time.Second

func init() {
	if v, err := strconv.Atoi(os.Getenv("VERIF_GS_STALL")); err == nil && v > 0 {
		StallTimeout = time.Duration(v) * time.Second
	}
}

func startWatchdog() {
	watchOnce.Do(func() {
		go func() {
			last := progress.Load()
			lastChange := time.Now()
			for {
				time.Sleep(500 * time.Millisecond)
				now := progress.Load()
				if now != last || !watchActive.Load() {
					last, lastChange = now, time.Now()
					continue
				}
				if time.Since(lastChange) > StallTimeout {
					buf := make([]byte, 1<<20)
					buf = buf[:runtime.Stack(buf, true)]
					fmt.Fprintf(os.Stderr, "gs: STALL: a controlled goroutine ran for more than %v without reaching a scheduling point\n%s\n", StallTimeout, buf)
					os.Exit(7)
				}
			}
		}()
	})
}

var checkGID = os.Getenv("VERIF_GS_CHECK") == "1"

func goid() uint64 {
	var buf [64]byte
	b := buf[:runtime.Stack(buf[:], false)]
	b = bytes.TrimPrefix(b, []byte("goroutine "))
	i := bytes.IndexByte(b, ' ')
	n, _ := strconv.ParseUint(string(b[:i]), 10, 64)
	return n
}

func newSched(prefix []int, expect []uint32, maxSteps, drainMax int) *sched {
	if maxSteps <= 0 {
		maxSteps = 1000000
	}
	if drainMax <= 0 {
		drainMax = 2000
	}
	return &sched{
		yield:    make(chan struct{}),
		chans:    make(map[uintptr]*chanState),
		epoch:    epochCounter.Add(1),
		prefix:   prefix,
		expect:   expect,
		maxSteps: maxSteps,
		drainMax: drainMax,
	}
}

func (s *sched) chanOf(key uintptr, ref any, capacity int) *chanState {
	if c, ok := s.chans[key]; ok {
		return c
	}
	c := &chanState{id: len(s.chans) + 1, key: key, ref: ref, cap: capacity}
	s.chans[key] = c
	return c
}

// me returns the calling goroutine's G.  Exactly one controlled goroutine runs
// at a time, so it is simply s.running.
func (s *sched) me() *G {
	g := s.running
	if g == nil {
		panic("gs: wrapped operation executed by a goroutine the scheduler does not know (started by a non-instrumented go statement?)")
	}
	if checkGID && g.gid != goid() {
		panic(fmt.Sprintf("gs: wrapped operation executed by runtime goroutine %d but g%d (runtime %d) is scheduled", goid(), g.id, g.gid))
	}
	if g.dying {
		runtime.Goexit()
	}
	return g
}

func (s *sched) spawn(parent *G, site, fn string, f func()) *G {
	g := &G{id: len(s.gs), site: site, fn: fn, wake: make(chan struct{}), pending: &op{kind: kStart}}
	if parent != nil {
		g.parent = parent.id
	} else {
		g.parent = -1
	}
	s.gs = append(s.gs, g)
	go s.body(g, f)
	return g
}

func (s *sched) body(g *G, f func()) {
	<-g.wake
	if g.dying {
		g.done = true
		s.yield <- struct{}{}
		return
	}
	if checkGID {
		g.gid = goid()
	}
	normal := false
	defer func() {
		if !normal {
			if r := recover(); r != nil && !g.dying && !s.panicked {
				s.panicked = true
				s.panicVal = fmt.Sprintf("g%d: %v", g.id, r)
				s.panicStk = string(debug.Stack())
			}
		}
		g.done = true
		g.pending = nil
		if g.id == 0 && !g.dying {
			s.mainDone = true
		}
		s.yield <- struct{}{}
	}()
	f()
	normal = true
}

// announce parks the calling goroutine on operation o until the scheduler
// fires a transition involving it.
func (s *sched) announce(g *G, o *op) {
	if s.sites {
		runtime.Callers(3, o.pcs[:])
	}
	g.pending = o
	s.yield <- struct{}{}
	<-g.wake
	if g.dying {
		runtime.Goexit()
	}
	if o.panicMsg != "" {
		panic(runtimeError(o.panicMsg))
	}
}

// resume lets g run until it parks again, finishes or panics.
func (s *sched) resume(g *G) {
	s.running = g
	progress.Add(1)
	g.wake <- struct{}{}
	<-s.yield
	s.running = nil
}

func parked(g *G) bool { return !g.done && g.pending != nil }

// computeEnabled lists the enabled transitions in canonical order: transitions
// of the current goroutine first, then by ascending goroutine id, then by arm
// index, then by partner id / partner arm.  A rendezvous is listed once, from
// the point of view of the party that comes first in that order.
func (s *sched) computeEnabled() (ts []trans, free int, sig uint32) {
	ts = s.ts[:0]
	if cap(s.pos) < len(s.gs) {
		s.pos = make([]int, len(s.gs)*2)
	}
	pos := s.pos[:len(s.gs)]
	for i := range pos {
		pos[i] = -1
	}
	h := uint32(2166136261)
	mix := func(v int) {
		h ^= uint32(v) & 0xffff
		h *= 16777619
	}
	free = -1
	nord := 0
	visit := func(g *G) {
		pos[g.id] = nord
		nord++
		o := g.pending
		switch o.kind {
		case kStart:
			ts = append(ts, trans{g: g})
			mix(g.id)
			mix(1000)
		case kAtomic:
			if o.enabled == nil || o.enabled() {
				ts = append(ts, trans{g: g})
				mix(g.id)
				mix(2000 + int(o.code))
			}
		case kChan:
			anyArm := false
			for a := range o.arms {
				am := &o.arms[a]
				c := am.ch
				if c == nil {
					continue
				}
				single := false
				needPartner := false
				if am.d == dSend {
					switch {
					case c.closed:
						single = true
					case c.cap > 0:
						single = len(c.buf) < c.cap
					default:
						needPartner = true
					}
				} else {
					switch {
					case len(c.buf) > 0:
						single = true
					case c.closed:
						single = true
					case c.cap > 0:
					default:
						needPartner = true
					}
				}
				if single {
					anyArm = true
					ts = append(ts, trans{g: g, a: a})
					mix(g.id)
					mix(a)
					mix(3000 + c.id)
					continue
				}
				if !needPartner {
					continue
				}
				want := dRecv
				if am.d == dRecv {
					want = dSend
				}
				for _, p := range s.gs {
					if p == g || !parked(p) || p.pending.kind != kChan {
						continue
					}
					for pa := range p.pending.arms {
						pm := &p.pending.arms[pa]
						if pm.ch != c || pm.d != want {
							continue
						}
						anyArm = true
						if pos[p.id] >= 0 {
							continue // already listed from p's point of view
						}
						ts = append(ts, trans{g: g, a: a, p: p, pa: pa})
						mix(g.id)
						mix(a)
						mix(p.id)
						mix(pa)
						mix(4000 + c.id)
					}
				}
			}
			if o.hasDefault && !anyArm {
				ts = append(ts, trans{g: g, a: -1})
				mix(g.id)
				mix(5000)
			}
		}
	}
	if c := s.curG; c != nil && parked(c) {
		visit(c)
		if len(ts) > 0 {
			free = len(ts)
		}
	}
	for _, g := range s.gs {
		if g == s.curG || !parked(g) {
			continue
		}
		visit(g)
	}
	if free < 0 {
		free = len(ts)
	}
	s.ts = ts
	return ts, free, h
}

// fire executes transition t: moves the data, then lets the parties run, one
// after the other, up to their next scheduling point.
func (s *sched) fire(t trans) {
	s.steps++
	g, p := t.g, t.p
	o := g.pending
	if s.tracef != nil && !s.mainDone {
		s.tracef(s.describeTrans(t))
	}
	switch o.kind {
	case kStart:
	case kAtomic:
		if o.do != nil {
			o.panicMsg = o.do()
		}
	case kChan:
		o.fired = t.a
		if t.a >= 0 {
			am := &o.arms[t.a]
			c := am.ch
			if am.d == dSend {
				switch {
				case c.closed:
					o.panicMsg = "send on closed channel"
				case p != nil:
					po := p.pending
					po.fired, po.rv, po.rok = t.pa, am.val, true
				default:
					c.buf = append(c.buf, am.val)
				}
			} else {
				switch {
				case p != nil:
					po := p.pending
					po.fired = t.pa
					o.rv, o.rok = po.arms[t.pa].val, true
				case len(c.buf) > 0:
					o.rv, o.rok = c.buf[0], true
					c.buf[0] = nil
					c.buf = c.buf[1:]
				default: // closed and drained
					o.rv, o.rok = nil, false
				}
			}
		}
	}
	first, second := g, p
	if p != nil && s.curG == p {
		first, second = p, g
	}
	if s.curG != g && s.curG != p {
		s.curG = g
	}
	g.pending = nil
	if p != nil {
		p.pending = nil
	}
	s.resume(first)
	if second != nil && !s.panicked {
		s.resume(second)
	}
}

// describeTrans renders a transition for traces.
func (s *sched) describeTrans(t trans) string {
	g, o := t.g, t.g.pending
	who := fmt.Sprintf("step %d [choices used %d]: g%d(%s) ", s.steps, len(s.points), g.id, g.fn)
	switch o.kind {
	case kStart:
		return who + "starts (go at " + g.site + ")"
	case kAtomic:
		return who + o.describe()
	}
	if t.a < 0 {
		return who + o.describe() + " takes default"
	}
	am := o.arms[t.a]
	verb := "send "
	if am.d == dRecv {
		verb = "recv "
	}
	str := who + verb + am.ch.String()
	if o.isSelect {
		str += fmt.Sprintf(" (select arm %d)", t.a)
	}
	if t.p != nil {
		pv := "recv"
		if am.d == dRecv {
			pv = "send"
		}
		str += fmt.Sprintf("  <=>  g%d(%s) %s", t.p.id, t.p.fn, pv)
		if t.p.pending.isSelect {
			str += fmt.Sprintf(" (select arm %d)", t.pa)
		}
	} else if am.ch.closed {
		str += " [closed]"
	} else {
		str += " [buffer]"
	}
	return str
}

func (s *sched) ginfo(g *G) GInfo {
	gi := GInfo{ID: g.id, CreatedAt: g.site, Func: g.fn}
	if g.pending != nil {
		gi.Pending = g.pending.describe()
	}
	return gi
}

// execute runs body under the scheduler, following s.prefix and then choice 0.
// kill tells whether parked goroutines must be released at the end (in-process
// mode) or may simply be abandoned (the process is about to exit).
func (s *sched) execute(body func(), kill bool) Outcome {
	startWatchdog()
	cur = s
	controlled.Store(true)
	watchActive.Store(true)
	defer func() {
		watchActive.Store(false)
		controlled.Store(false)
		cur = nil
	}()

	var out Outcome
	g0 := s.spawn(nil, "", "main", body)
	s.curG = g0
	g0.pending = nil
	s.resume(g0)

	preempt := 0
	for !s.mainDone && !s.panicked {
		if s.steps >= s.maxSteps {
			out.StepLimit = true
			break
		}
		ts, free, sig := s.computeEnabled()
		if len(ts) == 0 {
			out.Deadlock = true
			for _, g := range s.gs {
				if parked(g) {
					gi := s.ginfo(g)
					gi.BlockedForever = true
					out.Blocked = append(out.Blocked, gi)
				}
			}
			break
		}
		k := 0
		if len(ts) > 1 {
			idx := len(s.points)
			if idx < len(s.prefix) {
				k = s.prefix[idx]
				if k < 0 || k >= len(ts) {
					s.nondet = fmt.Sprintf("choice point %d: prefix asks for alternative %d but only %d transitions are enabled", idx, k, len(ts))
					break
				}
				if idx < len(s.expect) && s.expect[idx] != sig {
					s.nondet = fmt.Sprintf("choice point %d: the set of enabled transitions differs from the one recorded when the prefix was generated", idx)
					break
				}
			}
			pt := point{n: int32(len(ts)), free: int32(free), chosen: int32(k), sig: sig}
			s.points = append(s.points, pt)
			if k >= free {
				preempt++
			}
			if s.sink != nil {
				s.sink(pt)
			}
		}
		s.fire(ts[k])
	}
	if s.nondet == "" && len(s.points) < len(s.prefix) && !out.Deadlock && !s.panicked && !out.StepLimit {
		s.nondet = fmt.Sprintf("execution ended after %d choice points but the prefix has %d", len(s.points), len(s.prefix))
	}

	out.Steps = s.steps
	out.Preemptions = preempt
	out.Goroutines = len(s.gs)
	out.Observation = s.obs.String()
	out.Nondeterminism = s.nondet
	out.Choices = make([]int, len(s.points))
	for i, p := range s.points {
		out.Choices[i] = int(p.chosen)
	}
	if s.panicked {
		out.Panic = s.panicVal
		LastPanicStack = s.panicStk
	}

	if s.mainDone && !s.panicked {
		// Leak analysis.  The goroutines alive now are leaked.  To decide
		// whether they are blocked forever, let them run (first enabled
		// transition, no branching) until nothing is enabled.
		var leaked []*G
		for _, g := range s.gs {
			if parked(g) {
				leaked = append(leaked, g)
				out.Leaked = append(out.Leaked, s.ginfo(g))
			}
		}
		if len(leaked) > 0 {
			quiescent := false
			for n := 0; n < s.drainMax && !s.panicked; n++ {
				ts, _, _ := s.computeEnabled()
				if len(ts) == 0 {
					quiescent = true
					break
				}
				s.fire(ts[0])
			}
			if quiescent {
				for i, g := range leaked {
					if parked(g) {
						out.Leaked[i].BlockedForever = true
						if d := g.pending.describe(); d != out.Leaked[i].Pending {
							out.Leaked[i].Pending += " -> blocked forever on " + d
						}
					}
				}
			}
		}
	}

	if kill {
		for _, g := range s.gs {
			if g.done {
				continue
			}
			g.dying = true
			s.resume(g)
		}
	}
	return out
}
