// Package gs is the runtime shim of the gosched stateless model checker.
//
// Instrumented code calls the wrappers in this file instead of using the
// native channel / go / select / sync / context constructs.  When no
// scheduler is active (the default) every wrapper degrades to the plain Go
// operation.  Under Explore / Replay / Main (controlled mode) exactly one
// goroutine runs at a time: a goroutine reaching a wrapped operation announces
// it and parks, the scheduler computes which transitions are enabled and fires
// one of them.
//
// The package uses package-level state on purpose: the wrappers have no way to
// find "their" scheduler other than a global.  Parallel exploration is
// therefore done with processes (Options.ShardK/ShardN, ExploreProcess).
//
// Only the Go standard library is used.
package gs

import (
	"fmt"
	"reflect"
	"runtime"
	"strings"
	"sync/atomic"
	"unsafe"
)

// controlled is true while an execution is being scheduled.
var controlled atomic.Bool

// cur is the scheduler of the execution in progress (valid iff controlled).
var cur *sched

// Controlled reports whether a scheduler is currently driving the program.
func Controlled() bool { return controlled.Load() }

type dir int8

const (
	dSend dir = 1
	dRecv dir = 2
)

// chanState is the scheduler-side model of one channel.  In controlled mode
// the real channel is never used for data: buffer content and the closed flag
// live here.
type chanState struct {
	id     int     // ordinal in order of first use (deterministic)
	key    uintptr // address of the runtime channel
	ref    any     // keeps the channel alive so the address is not reused
	cap    int
	buf    []any
	closed bool
	site   string // creation site, if known (MakeChan)
}

func (c *chanState) String() string {
	if c == nil {
		return "nil-chan"
	}
	s := fmt.Sprintf("chan#%d", c.id)
	if c.ref != nil {
		s += "(" + reflect.TypeOf(c.ref).String()
		if c.cap > 0 {
			s += fmt.Sprintf(",cap=%d", c.cap)
		}
		if c.site != "" {
			s += " made at " + c.site
		}
		s += ")"
	}
	return s
}

type arm struct {
	d   dir
	ch  *chanState // nil for a nil channel: never enabled
	val any        // value to send
}

type opKind uint8

const (
	kStart  opKind = iota // first step of a new goroutine
	kChan                 // send / recv / select
	kAtomic               // single party operation (close, wg, mutex, cancel)
)

// op is the pending operation of a parked goroutine.
type op struct {
	kind       opKind
	arms       []arm
	arm1       [1]arm
	hasDefault bool
	isSelect   bool

	// kAtomic
	code    uint32        // small code mixed into the signature hash
	desc    func() string // description for reports
	enabled func() bool   // nil = always enabled
	do      func() string // executed by the scheduler; returns a panic message or ""

	pcs [5]uintptr // call stack of the operation (resolved lazily for reports)

	// results, written by the scheduler when the transition fires
	fired    int // arm index, -1 = default
	rv       any
	rok      bool
	panicMsg string
}

// where returns the file:line of the first caller outside the shim.
func (o *op) where() string {
	if o.pcs[0] == 0 {
		return ""
	}
	n := 0
	for n < len(o.pcs) && o.pcs[n] != 0 {
		n++
	}
	frames := runtime.CallersFrames(o.pcs[:n])
	for {
		f, more := frames.Next()
		if f.Function != "" && !strings.HasPrefix(f.Function, "runtime.") && !strings.Contains(f.Function, "/pkg/zzgs.") && !strings.Contains(f.Function, "gosched/gs.") {
			file := f.File
			for _, root := range []string{"/repo/", "/verif/"} {
				file = strings.TrimPrefix(file, root)
			}
			return fmt.Sprintf(" at %s:%d", file, f.Line)
		}
		if !more {
			return ""
		}
	}
}

func (o *op) describe() string { return o.describe0() + o.where() }

func (o *op) describe0() string {
	switch o.kind {
	case kStart:
		return "start"
	case kAtomic:
		if o.desc != nil {
			return o.desc()
		}
		return "atomic"
	}
	one := func(a arm) string {
		if a.d == dSend {
			return "send " + a.ch.String()
		}
		return "recv " + a.ch.String()
	}
	if !o.isSelect {
		return one(o.arms[0])
	}
	s := "select{"
	for i, a := range o.arms {
		if i > 0 {
			s += ", "
		}
		s += one(a)
	}
	if o.hasDefault {
		if len(o.arms) > 0 {
			s += ", "
		}
		s += "default"
	}
	return s + "}"
}

// runtimeError mimics the runtime's channel errors.
type runtimeError string

func (e runtimeError) Error() string { return string(e) }
func (e runtimeError) RuntimeError() {}

func keySend[T any](ch chan<- T) uintptr { return *(*uintptr)(unsafe.Pointer(&ch)) }
func keyRecv[T any](ch <-chan T) uintptr { return *(*uintptr)(unsafe.Pointer(&ch)) }

func unbox[T any](v any) T {
	if v == nil {
		var z T
		return z
	}
	return v.(T)
}

// ---------------------------------------------------------------- channels

// MakeChan records the creation site of a channel (identity function).
func MakeChan[C any](site string, c C) C {
	if controlled.Load() {
		rv := reflect.ValueOf(c)
		if rv.Kind() == reflect.Chan && !rv.IsNil() {
			s := cur
			cs := s.chanOf(rv.Pointer(), c, rv.Cap())
			cs.site = site
		}
	}
	return c
}

// Send is ch <- v.
func Send[T any](ch chan<- T, v T) {
	if !controlled.Load() {
		ch <- v
		return
	}
	s := cur
	g := s.me()
	o := &op{kind: kChan}
	o.arm1[0] = arm{d: dSend, val: v}
	if ch != nil {
		o.arm1[0].ch = s.chanOf(keySend(ch), ch, cap(ch))
	}
	o.arms = o.arm1[:]
	s.announce(g, o)
}

// Sender is the method form of Send used by the instrumenter: the value only
// has to be assignable to the element type (Send's type inference is stricter
// for interface element types).
type Sender[T any] struct{ ch chan<- T }

// SendTo wraps the channel of a send statement: ch <- v  ==>  SendTo(ch).Send(v)
func SendTo[T any](ch chan<- T) Sender[T] { return Sender[T]{ch} }

// Send performs the send.
func (s Sender[T]) Send(v T) { Send(s.ch, v) }

// Case builds the select arm  case ch <- v.
func (s Sender[T]) Case(v T) *SCase[T] { return &SCase[T]{ch: s.ch, v: v} }

// Recv is <-ch.
func Recv[T any](ch <-chan T) T {
	v, _ := Recv2(ch)
	return v
}

// Recv2 is v, ok := <-ch.
func Recv2[T any](ch <-chan T) (T, bool) {
	if !controlled.Load() {
		v, ok := <-ch
		return v, ok
	}
	s := cur
	g := s.me()
	o := &op{kind: kChan}
	o.arm1[0] = arm{d: dRecv}
	if ch != nil {
		o.arm1[0].ch = s.chanOf(keyRecv(ch), ch, cap(ch))
	}
	o.arms = o.arm1[:]
	s.announce(g, o)
	return unbox[T](o.rv), o.rok
}

// Close is close(ch).
func Close[T any](ch chan<- T) {
	if !controlled.Load() {
		close(ch)
		return
	}
	s := cur
	g := s.me()
	var cs *chanState
	if ch != nil {
		cs = s.chanOf(keySend(ch), ch, cap(ch))
	}
	o := &op{kind: kAtomic, code: 1}
	o.desc = func() string { return "close " + cs.String() }
	o.do = func() string {
		if cs == nil {
			return "close of nil channel"
		}
		if cs.closed {
			return "close of closed channel"
		}
		cs.closed = true
		return ""
	}
	s.announce(g, o)
}

// RangeChan is  for v := range ch  as a range-over-func iterator.
func RangeChan[T any](ch <-chan T) func(yield func(T) bool) {
	return func(yield func(T) bool) {
		for {
			v, ok := Recv2(ch)
			if !ok || !yield(v) {
				return
			}
		}
	}
}

// ------------------------------------------------------------------ select

// SelCase is one communication clause of a select.
type SelCase interface {
	selArm(s *sched) arm
	selSet(v any, ok bool)
	selReflect() reflect.SelectCase
}

// RCase is  case V, OK = <-ch.
type RCase[T any] struct {
	ch <-chan T
	V  T
	OK bool
}

// SCase is  case ch <- v.
type SCase[T any] struct {
	ch chan<- T
	v  T
}

// RecvCase builds a receive arm.
func RecvCase[T any](ch <-chan T) *RCase[T] { return &RCase[T]{ch: ch} }

// SendCase builds a send arm (see also Sender.Case).
func SendCase[T any](ch chan<- T, v T) *SCase[T] { return &SCase[T]{ch: ch, v: v} }

func (c *RCase[T]) selArm(s *sched) arm {
	a := arm{d: dRecv}
	if c.ch != nil {
		a.ch = s.chanOf(keyRecv(c.ch), c.ch, cap(c.ch))
	}
	return a
}
func (c *RCase[T]) selSet(v any, ok bool) { c.V, c.OK = unbox[T](v), ok }
func (c *RCase[T]) selReflect() reflect.SelectCase {
	return reflect.SelectCase{Dir: reflect.SelectRecv, Chan: reflect.ValueOf(c.ch)}
}

func (c *SCase[T]) selArm(s *sched) arm {
	a := arm{d: dSend, val: c.v}
	if c.ch != nil {
		a.ch = s.chanOf(keySend(c.ch), c.ch, cap(c.ch))
	}
	return a
}
func (c *SCase[T]) selSet(any, bool) {}
func (c *SCase[T]) selReflect() reflect.SelectCase {
	return reflect.SelectCase{Dir: reflect.SelectSend, Chan: reflect.ValueOf(c.ch), Send: reflect.ValueOf(&c.v).Elem()}
}

// Select performs a select statement over cases and returns the index of the
// clause that fired, or -1 for the default clause.
func Select(hasDefault bool, cases ...SelCase) int {
	if !controlled.Load() {
		rc := make([]reflect.SelectCase, 0, len(cases)+1)
		for _, c := range cases {
			rc = append(rc, c.selReflect())
		}
		if hasDefault {
			rc = append(rc, reflect.SelectCase{Dir: reflect.SelectDefault})
		}
		i, v, ok := reflect.Select(rc)
		if i == len(cases) {
			return -1
		}
		if rc[i].Dir == reflect.SelectRecv {
			if ok {
				cases[i].selSet(v.Interface(), true)
			} else {
				cases[i].selSet(nil, false)
			}
		}
		return i
	}
	s := cur
	g := s.me()
	o := &op{kind: kChan, isSelect: true, hasDefault: hasDefault}
	o.arms = make([]arm, len(cases))
	for i, c := range cases {
		o.arms[i] = c.selArm(s)
	}
	s.announce(g, o)
	if o.fired >= 0 && o.arms[o.fired].d == dRecv {
		cases[o.fired].selSet(o.rv, o.rok)
	}
	return o.fired
}

// ---------------------------------------------------------------------- go

// Go is the go statement.  site is the file:line of the statement and fn the
// printed function expression; both only feed the reports.
func Go(site, fn string, f func()) {
	if !controlled.Load() {
		go f()
		return
	}
	s := cur
	parent := s.me()
	s.spawn(parent, site, fn, f)
}

// Observe appends s to the observation of the current execution.  Outside
// controlled mode it is a no-op.
func Observe(s string) {
	if !controlled.Load() {
		return
	}
	sc := cur
	if sc.mainDone {
		return
	}
	if sc.obs.Len() > 0 {
		sc.obs.WriteByte('\n')
	}
	sc.obs.WriteString(s)
}

// Yield is an explicit scheduling point (always enabled).
func Yield() {
	if !controlled.Load() {
		return
	}
	s := cur
	g := s.me()
	o := &op{kind: kAtomic, code: 2}
	o.desc = func() string { return "yield" }
	s.announce(g, o)
}
