package gs

import (
	"bufio"
	"bytes"
	"context"
	"crypto/sha256"
	"encoding/json"
	"fmt"
	"io/fs"
	"os"
	"os/exec"
	"path/filepath"
	"runtime"
	"sort"
	"strconv"
	"strings"
	"sync/atomic"
	"time"
)

// ProcOptions controls ExploreProcess.
type ProcOptions struct {
	Options
	Workers       int           // concurrent child processes (default runtime.NumCPU())
	Timeout       time.Duration // per child (default 60s); a child exceeding it is killed and reported as outcome "[TIMEOUT]"
	Dir           string        // working directory of the children; "" = a fresh temporary directory per child
	ObserveFiles  bool          // add a hash of every file left in the per-child directory to the observation
	ObserveStdout bool          // add a hash of the child's stdout to the observation
	KeepStderr    int           // bytes of stderr kept in the observation of failing children (default 0)
}

// ExploreProcess explores the schedules of a whole instrumented program (built
// by gsinstr, whose main is wrapped by Main) by running it once per schedule.
// cmd is the command line, env extra environment entries ("K=V").
func ExploreProcess(cmd []string, env []string, opts ProcOptions) Report {
	if opts.Workers <= 0 {
		opts.Workers = runtime.NumCPU()
	}
	if opts.Timeout <= 0 {
		opts.Timeout = 60 * time.Second
	}
	scratch, err := os.MkdirTemp("", "gsproc")
	if err != nil {
		panic(err)
	}
	defer os.RemoveAll(scratch)
	var seq atomic.Int64
	run := func(prefix []int, expect []uint32) trace {
		n := seq.Add(1)
		dir := filepath.Join(scratch, fmt.Sprintf("r%d", n))
		os.MkdirAll(dir, 0o755)
		defer os.RemoveAll(dir)
		return runChild(cmd, env, opts, dir, prefix, expect)
	}
	return newEngine(opts.Options, run, opts.Workers).explore()
}

// ReplayProcess runs the program once with the given choice prefix.
func ReplayProcess(cmd []string, env []string, opts ProcOptions, choices []int) Outcome {
	if opts.Timeout <= 0 {
		opts.Timeout = 60 * time.Second
	}
	dir, err := os.MkdirTemp("", "gsreplay")
	if err != nil {
		panic(err)
	}
	defer os.RemoveAll(dir)
	return runChild(cmd, env, opts, dir, choices, nil).out
}

func runChild(cmd []string, env []string, opts ProcOptions, dir string, prefix []int, expect []uint32) trace {
	outFile := filepath.Join(dir, ".gs-sched-out")
	var sb strings.Builder
	for i, c := range prefix {
		if i > 0 {
			sb.WriteByte(',')
		}
		sb.WriteString(strconv.Itoa(c))
	}
	ctx, cancel := context.WithTimeout(context.Background(), opts.Timeout)
	defer cancel()
	c := exec.CommandContext(ctx, cmd[0], cmd[1:]...)
	c.Env = append(append(os.Environ(), env...), "VERIF_SCHED="+sb.String(), "VERIF_SCHED_OUT="+outFile)
	if opts.Dir != "" {
		c.Dir = opts.Dir
	} else {
		c.Dir = dir
	}
	var stdout, stderr bytes.Buffer
	c.Stdout = &stdout
	c.Stderr = &stderr
	c.WaitDelay = time.Second
	err := c.Run()
	exit := 0
	if err != nil {
		if ee, ok := err.(*exec.ExitError); ok {
			exit = ee.ExitCode()
		} else {
			exit = -2
		}
	}
	timedOut := ctx.Err() != nil

	var tr trace
	var end *ProcEnd
	if f, err := os.Open(outFile); err == nil {
		sc := bufio.NewScanner(f)
		sc.Buffer(make([]byte, 1<<20), 1<<28)
		for sc.Scan() {
			line := sc.Text()
			switch {
			case strings.HasPrefix(line, "p "):
				var n, free, chosen int
				var sig uint64
				if _, err := fmt.Sscanf(line, "p %d %d %d %d", &n, &free, &chosen, &sig); err == nil {
					tr.points = append(tr.points, point{n: int32(n), free: int32(free), chosen: int32(chosen), sig: uint32(sig)})
				}
			case strings.HasPrefix(line, "end "):
				var e ProcEnd
				if json.Unmarshal([]byte(line[4:]), &e) == nil {
					end = &e
				}
			}
		}
		f.Close()
		os.Remove(outFile)
	}
	o := &tr.out
	o.Choices = make([]int, len(tr.points))
	for i, p := range tr.points {
		o.Choices[i] = int(p.chosen)
		if int(p.chosen) >= int(p.free) {
			o.Preemptions++
		}
	}
	var obs []string
	if end != nil {
		o.Deadlock, o.Blocked, o.Leaked = end.Deadlock, end.Blocked, end.Leaked
		o.Steps, o.Goroutines, o.StepLimit = end.Steps, end.Goroutines, end.StepLimit
		o.Nondeterminism = end.Nondeterminism
		if end.Panic != "" {
			o.Panic = end.Panic
		}
		if end.Observation != "" {
			obs = append(obs, end.Observation)
		}
	} else if !timedOut {
		// os.Exit / log.Fatal / runtime crash inside the program
		obs = append(obs, "[NO-END-RECORD]")
	}
	if timedOut {
		obs = append(obs, "[TIMEOUT]")
	}
	obs = append(obs, fmt.Sprintf("exit=%d", exit))
	// divergence check against the trace that generated the prefix
	if o.Nondeterminism == "" {
		for i := 0; i < len(expect) && i < len(tr.points); i++ {
			if tr.points[i].sig != expect[i] {
				o.Nondeterminism = fmt.Sprintf("choice point %d: enabled set differs from the one recorded when the prefix was generated", i)
				break
			}
		}
		if o.Nondeterminism == "" && len(tr.points) < len(prefix) && end != nil && !end.Deadlock && end.Panic == "" {
			o.Nondeterminism = fmt.Sprintf("execution ended after %d choice points but the prefix has %d", len(tr.points), len(prefix))
		}
	}
	if opts.ObserveStdout {
		obs = append(obs, fmt.Sprintf("stdout=%x", sha256.Sum256(stdout.Bytes()))[:23])
	}
	if opts.ObserveFiles && opts.Dir == "" {
		var names []string
		filepath.WalkDir(dir, func(p string, d fs.DirEntry, err error) error {
			if err == nil && !d.IsDir() {
				names = append(names, p)
			}
			return nil
		})
		sort.Strings(names)
		for _, p := range names {
			b, _ := os.ReadFile(p)
			rel, _ := filepath.Rel(dir, p)
			obs = append(obs, fmt.Sprintf("%s=%x", rel, sha256.Sum256(b))[:len(rel)+17])
		}
	}
	if opts.KeepStderr > 0 && exit != 0 {
		s := stderr.String()
		if len(s) > opts.KeepStderr {
			s = s[:opts.KeepStderr]
		}
		obs = append(obs, "stderr="+s)
	}
	o.Observation = strings.Join(obs, " ")
	return tr
}
