package gs

import "testing"

func benchBody() {
	c := make(chan int)
	d := make(chan int)
	for i := 0; i < 3; i++ {
		Go("b.go:1", "w", func() {
			for k := 0; k < 3; k++ {
				Send(c, k)
			}
			Send(d, 1)
		})
	}
	for i := 0; i < 9; i++ {
		Recv(c)
	}
	for i := 0; i < 3; i++ {
		Recv(d)
	}
}

func BenchmarkExplore(b *testing.B) {
	r := Explore(Options{MaxPreemptions: 8, MaxExecutions: b.N}, benchBody)
	b.ReportMetric(float64(r.Executions)/r.Elapsed.Seconds(), "exec/s")
	b.ReportMetric(float64(r.MaxPoints), "points")
}
