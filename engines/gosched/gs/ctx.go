package gs

import (
	"context"
	"sync"
)

// cctx is a cancellable context whose Done channel is a channel the scheduler
// knows about: cancel is a visible operation that closes it.
type cctx struct {
	context.Context // parent
	done            chan struct{}

	mu       sync.Mutex
	err      error
	children []*cctx
}

type cctxKeyT struct{}

var cctxKey cctxKeyT

func (c *cctx) Done() <-chan struct{} { return c.done }

func (c *cctx) Err() error {
	c.mu.Lock()
	defer c.mu.Unlock()
	return c.err
}

func (c *cctx) Value(key any) any {
	if key == &cctxKey {
		return c
	}
	return c.Context.Value(key)
}

func (c *cctx) String() string { return "gs.WithCancel" }

// cancelNow marks c and its descendants cancelled.  s is the scheduler to
// update, or nil when called outside controlled mode.
func (c *cctx) cancelNow(s *sched, err error) {
	c.mu.Lock()
	if c.err != nil {
		c.mu.Unlock()
		return
	}
	c.err = err
	children := c.children
	c.children = nil
	c.mu.Unlock()
	if s != nil {
		s.chanOf(keySend[struct{}](c.done), c.done, 0).closed = true
	}
	close(c.done) // for non-instrumented code selecting on Done natively
	for _, ch := range children {
		ch.cancelNow(s, err)
	}
}

// WithCancel replaces context.WithCancel in instrumented code.
func WithCancel(parent context.Context) (context.Context, context.CancelFunc) {
	if !controlled.Load() {
		return context.WithCancel(parent)
	}
	s := cur
	c := &cctx{Context: parent, done: make(chan struct{})}
	cs := s.chanOf(keySend[struct{}](c.done), c.done, 0)
	cs.site = "ctx.Done()"
	if p, ok := parent.Value(&cctxKey).(*cctx); ok {
		p.mu.Lock()
		if p.err != nil {
			p.mu.Unlock()
			c.cancelNow(s, p.err)
		} else {
			p.children = append(p.children, c)
			p.mu.Unlock()
		}
	} else if pd := parent.Done(); pd != nil {
		// Foreign cancellable parent (timeout, signal...): outside the
		// scheduler's control; propagate natively.
		go func() {
			select {
			case <-pd:
				c.cancelNow(nil, parent.Err())
			case <-c.done:
			}
		}()
	}
	cancel := func() {
		if !controlled.Load() || cur != s {
			c.cancelNow(nil, context.Canceled)
			return
		}
		g := s.me()
		o := &op{kind: kAtomic, code: 40}
		o.desc = func() string { return "cancel context" }
		o.do = func() string { c.cancelNow(s, context.Canceled); return "" }
		s.announce(g, o)
	}
	return c, cancel
}
