package gs

import (
	"encoding/json"
	"fmt"
	"os"
	"runtime"
	"strconv"
	"strings"
)

// Process-per-schedule mode, child side.
//
// The instrumenter renames func main of an instrumented command to zzgsMain
// and adds  func main() { zzgs.Main(zzgsMain) }.
//
// Environment:
//   VERIF_SCHED      comma separated choice prefix (may be empty).  When the
//                    variable is absent the program runs free.
//   VERIF_SCHED_OUT  file name, or a decimal file descriptor number, receiving
//                    the trace.  One line "p <n> <free> <chosen> <sig>" is
//                    appended per choice point as soon as it is taken (so the
//                    parent can continue the DFS even if the program calls
//                    os.Exit), and one final line "end <json>" (ProcEnd).
//   VERIF_SCHED_MAXSTEPS  optional per execution step limit.
//   VERIF_SCHED_TRACE     if non-empty, every fired transition is printed to stderr.
//
// Exit status: 0 main returned, 2 panic, 3 deadlock, 4 nondeterminism (the
// prefix could not be followed), 5 step limit.  The program never hangs on a
// deadlock: the scheduler detects it.

// Exit codes of an instrumented command running under VERIF_SCHED.
const (
	ExitPanic          = 2
	ExitDeadlock       = 3
	ExitNondeterminism = 4
	ExitStepLimit      = 5
)

// ProcEnd is the JSON document of the final line written to VERIF_SCHED_OUT.
type ProcEnd struct {
	Choices        []int   `json:"choices"`
	Enabled        []int   `json:"enabled"` // enabled transitions at each choice point
	Free           []int   `json:"free"`    // at each point alternatives >= free cost one preemption, the others none
	Deadlock       bool    `json:"deadlock"`
	Blocked        []GInfo `json:"blocked,omitempty"`
	Leaked         []GInfo `json:"leaked,omitempty"`
	Panic          string  `json:"panic,omitempty"`
	Observation    string  `json:"observation,omitempty"`
	Steps          int     `json:"steps"`
	Preemptions    int     `json:"preemptions"`
	Goroutines     int     `json:"goroutines"`
	StepLimit      bool    `json:"steplimit,omitempty"`
	Nondeterminism string  `json:"nondeterminism,omitempty"`
}

// Main runs realMain, under the scheduler if VERIF_SCHED is set.
func Main(realMain func()) {
	spec, ok := os.LookupEnv("VERIF_SCHED")
	if !ok {
		realMain()
		return
	}
	var prefix []int
	for _, f := range strings.Split(spec, ",") {
		f = strings.TrimSpace(f)
		if f == "" {
			continue
		}
		n, err := strconv.Atoi(f)
		if err != nil {
			fmt.Fprintf(os.Stderr, "gs: bad VERIF_SCHED %q: %v\n", spec, err)
			os.Exit(ExitNondeterminism)
		}
		prefix = append(prefix, n)
	}
	var out *os.File
	if name := os.Getenv("VERIF_SCHED_OUT"); name != "" {
		if fd, err := strconv.Atoi(name); err == nil {
			out = os.NewFile(uintptr(fd), "VERIF_SCHED_OUT")
		} else {
			f, err := os.OpenFile(name, os.O_WRONLY|os.O_CREATE|os.O_APPEND, 0o644)
			if err != nil {
				fmt.Fprintf(os.Stderr, "gs: cannot open VERIF_SCHED_OUT: %v\n", err)
				os.Exit(ExitNondeterminism)
			}
			out = f
		}
	}
	if os.Getenv("GOMAXPROCS") == "" {
		runtime.GOMAXPROCS(1) // one controlled goroutine runs at a time; a single P makes hand-offs cheap
	}
	maxSteps, _ := strconv.Atoi(os.Getenv("VERIF_SCHED_MAXSTEPS"))
	s := newSched(prefix, nil, maxSteps, 500)
	s.sites = true
	if out != nil {
		var line []byte
		s.sink = func(pt point) {
			line = line[:0]
			line = append(line, "p "...)
			line = strconv.AppendInt(line, int64(pt.n), 10)
			line = append(line, ' ')
			line = strconv.AppendInt(line, int64(pt.free), 10)
			line = append(line, ' ')
			line = strconv.AppendInt(line, int64(pt.chosen), 10)
			line = append(line, ' ')
			line = strconv.AppendUint(line, uint64(pt.sig), 10)
			line = append(line, '\n')
			out.Write(line)
		}
	}
	if os.Getenv("VERIF_SCHED_TRACE") != "" {
		s.tracef = func(l string) { fmt.Fprintln(os.Stderr, "gs: "+l) }
	}
	o := s.execute(realMain, false)
	end := ProcEnd{
		Choices: o.Choices, Deadlock: o.Deadlock, Blocked: o.Blocked, Leaked: o.Leaked,
		Observation: o.Observation, Steps: o.Steps, Preemptions: o.Preemptions,
		Goroutines: o.Goroutines, StepLimit: o.StepLimit, Nondeterminism: o.Nondeterminism,
	}
	if o.Panic != nil {
		end.Panic = fmt.Sprint(o.Panic)
	}
	for _, p := range s.points {
		end.Enabled = append(end.Enabled, int(p.n))
		end.Free = append(end.Free, int(p.free))
	}
	if out != nil {
		js, _ := json.Marshal(end)
		out.Write(append(append([]byte("end "), js...), '\n'))
		out.Close()
	}
	code := 0
	switch {
	case o.Nondeterminism != "":
		fmt.Fprintf(os.Stderr, "gs: nondeterminism: %s\n", o.Nondeterminism)
		code = ExitNondeterminism
	case o.Panic != nil:
		fmt.Fprintf(os.Stderr, "panic: %v\n\n%s\n", o.Panic, s.panicStk)
		code = ExitPanic
	case o.Deadlock:
		fmt.Fprintf(os.Stderr, "gs: DEADLOCK after schedule %v\n", o.Choices)
		for _, g := range o.Blocked {
			fmt.Fprintf(os.Stderr, "  %s\n", g)
		}
		code = ExitDeadlock
	case o.StepLimit:
		code = ExitStepLimit
	}
	os.Exit(code)
}
