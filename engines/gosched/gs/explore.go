package gs

import (
	"fmt"
	"runtime"
	"sort"
	"strings"
	"sync"
	"time"
)

// Options controls an exploration.
type Options struct {
	MaxPreemptions int                          // bounds 0..MaxPreemptions are explored in turn
	MaxExecutions  int                          // cap on the number of runs (0 = none)
	Deadline       time.Duration                // wall clock cap for the whole exploration (0 = none)
	ShardK, ShardN int                          // explore only the subtrees i with i%ShardN == ShardK (ShardN<=1: everything); see ShardDepth
	ShardDepth     int                          // DFS depth whose subtrees are dealt out to the shards: 1 = first-level subtrees, default 3 (better balance; the few nodes above that depth are re-run by every shard and reported by one)
	MaxSteps       int                          // per execution cap on fired transitions (default 1e6); exceeding it gives Outcome.StepLimit
	DrainSteps     int                          // cap on the steps used by the leak analysis after the main body returned (default 2000)
	MaxExamples    int                          // how many deadlock / panic examples to keep (default 10)
	Sites          bool                         // record the source position of every pending operation (" at file:line" in GInfo.Pending); Replay and process mode always do, Explore only on request because it costs about a third of the throughput
	OnSchedule     func(o *Outcome, points int) `json:"-"` // called once for every COUNTED schedule (each distinct schedule exactly once, at the bound equal to its preemption count; not for re-runs), with the full Outcome and the number of choice points of that execution. Called from the exploring goroutine (ExploreProcess: under the engine lock, one call at a time); must not call Explore/Replay
	KeepGOMAXPROCS bool                         // by default Explore runs with GOMAXPROCS(1): only one controlled goroutine runs at a time anyway, and hand-offs between goroutines are several times cheaper on a single P (essential when several shards share the machine)
}

// BoundStat summarises one iteration of the preemption bound.
type BoundStat struct {
	Bound     int
	Runs      int  // executions performed in this iteration (includes re-runs of cheaper schedules)
	Schedules int  // new schedules: exactly Bound preemptions
	Completed bool // false if a cap stopped the iteration
	Pruned    bool // some alternative was skipped because it would exceed the bound
}

// Report is the result of Explore / ExploreProcess.
type Report struct {
	Executions         int            // runs performed, all bounds together
	TotalSteps         int64          // sum of Outcome.Steps over ALL executions (re-runs included)
	TotalPoints        int64          // sum of the number of choice points over ALL executions (re-runs included)
	Schedules          int            // distinct schedules explored (each counted once, at the bound equal to its preemption count)
	BoundCompleted     int            // highest bound fully explored, -1 if none
	Exhaustive         bool           // no cap was hit: every schedule with at most MaxPreemptions preemptions was run
	FullyExplored      bool           // additionally no alternative was pruned by the bound: every interleaving (at operation granularity) was run
	CapHit             string         // "", "executions" or "deadline"
	MaxPoints          int            // maximum number of choice points in one execution
	Outcomes           map[string]int // Outcome.Key() -> number of schedules
	Deadlocks          []Outcome      // first few, minimal preemptions first
	DeadlockCount      int
	Panics             []Outcome
	PanicCount         int
	Nondeterministic   int // runs whose prefix did not replay; such runs are reported, never treated as bugs
	NondeterminismSeen string
	FirstOfEachOutcome map[string]Outcome
	LeakedMax          int
	LeakedMin          int
	PerBound           []BoundStat
	Elapsed            time.Duration
}

// Summary renders the report as text.
func (r Report) Summary() string {
	var b strings.Builder
	fmt.Fprintf(&b, "executions=%d schedules=%d boundCompleted=%d exhaustive=%v fullyExplored=%v capHit=%q maxPoints=%d elapsed=%v\n",
		r.Executions, r.Schedules, r.BoundCompleted, r.Exhaustive, r.FullyExplored, r.CapHit, r.MaxPoints, r.Elapsed.Round(time.Millisecond))
	for _, p := range r.PerBound {
		fmt.Fprintf(&b, "  bound %d: runs=%d newSchedules=%d completed=%v pruned=%v\n", p.Bound, p.Runs, p.Schedules, p.Completed, p.Pruned)
	}
	fmt.Fprintf(&b, "deadlocks=%d panics=%d nondeterministic=%d leaked(min..max)=%d..%d\n", r.DeadlockCount, r.PanicCount, r.Nondeterministic, r.LeakedMin, r.LeakedMax)
	keys := make([]string, 0, len(r.Outcomes))
	for k := range r.Outcomes {
		keys = append(keys, k)
	}
	sort.Strings(keys)
	fmt.Fprintf(&b, "distinct outcomes=%d\n", len(keys))
	for _, k := range keys {
		o := r.FirstOfEachOutcome[k]
		ks := k
		if len(ks) > 200 {
			ks = ks[:200] + "..."
		}
		fmt.Fprintf(&b, "  x%-7d %q first schedule %v (preemptions=%d)\n", r.Outcomes[k], ks, o.Choices, o.Preemptions)
	}
	for i, d := range r.Deadlocks {
		fmt.Fprintf(&b, "deadlock #%d: schedule %v preemptions=%d steps=%d\n", i, d.Choices, d.Preemptions, d.Steps)
		for _, g := range d.Blocked {
			fmt.Fprintf(&b, "    %s\n", g)
		}
	}
	for i, d := range r.Panics {
		fmt.Fprintf(&b, "panic #%d: %v schedule %v\n", i, d.Panic, d.Choices)
	}
	if r.NondeterminismSeen != "" {
		fmt.Fprintf(&b, "nondeterminism: %s\n", r.NondeterminismSeen)
	}
	return b.String()
}

// Merge combines the reports of the shards of one exploration.
func Merge(reps ...Report) Report {
	var m Report
	m.Outcomes = map[string]int{}
	m.FirstOfEachOutcome = map[string]Outcome{}
	m.LeakedMin = -1
	m.BoundCompleted = -2
	m.Exhaustive, m.FullyExplored = true, true
	for _, r := range reps {
		m.Executions += r.Executions
		m.TotalSteps += r.TotalSteps
		m.TotalPoints += r.TotalPoints
		m.Schedules += r.Schedules
		if m.BoundCompleted == -2 || r.BoundCompleted < m.BoundCompleted {
			m.BoundCompleted = r.BoundCompleted
		}
		m.Exhaustive = m.Exhaustive && r.Exhaustive
		m.FullyExplored = m.FullyExplored && r.FullyExplored
		if r.CapHit != "" {
			m.CapHit = r.CapHit
		}
		if r.MaxPoints > m.MaxPoints {
			m.MaxPoints = r.MaxPoints
		}
		for k, v := range r.Outcomes {
			m.Outcomes[k] += v
		}
		for k, v := range r.FirstOfEachOutcome {
			if old, ok := m.FirstOfEachOutcome[k]; !ok || v.Preemptions < old.Preemptions {
				m.FirstOfEachOutcome[k] = v
			}
		}
		m.Deadlocks = append(m.Deadlocks, r.Deadlocks...)
		m.DeadlockCount += r.DeadlockCount
		m.Panics = append(m.Panics, r.Panics...)
		m.PanicCount += r.PanicCount
		m.Nondeterministic += r.Nondeterministic
		if m.NondeterminismSeen == "" {
			m.NondeterminismSeen = r.NondeterminismSeen
		}
		if r.LeakedMax > m.LeakedMax {
			m.LeakedMax = r.LeakedMax
		}
		if r.LeakedMin >= 0 && (m.LeakedMin < 0 || r.LeakedMin < m.LeakedMin) {
			m.LeakedMin = r.LeakedMin
		}
		for i, p := range r.PerBound {
			if i >= len(m.PerBound) {
				m.PerBound = append(m.PerBound, BoundStat{Bound: p.Bound, Completed: true})
			}
			m.PerBound[i].Runs += p.Runs
			m.PerBound[i].Schedules += p.Schedules
			m.PerBound[i].Completed = m.PerBound[i].Completed && p.Completed
			m.PerBound[i].Pruned = m.PerBound[i].Pruned || p.Pruned
		}
		if r.Elapsed > m.Elapsed {
			m.Elapsed = r.Elapsed
		}
	}
	if m.BoundCompleted == -2 {
		m.BoundCompleted = -1
	}
	sort.SliceStable(m.Deadlocks, func(i, j int) bool { return m.Deadlocks[i].Preemptions < m.Deadlocks[j].Preemptions })
	sort.SliceStable(m.Panics, func(i, j int) bool { return m.Panics[i].Preemptions < m.Panics[j].Preemptions })
	return m
}

// ------------------------------------------------------------------ engine

// trace is what the DFS needs to know about one execution.
type trace struct {
	points []point
	out    Outcome
}

// runner executes the program once, replaying prefix (expect holds the
// signatures of the enabled sets recorded for the prefix, for divergence
// detection) and taking choice 0 afterwards.
type runner func(prefix []int, expect []uint32) trace

type task struct {
	parent *trace // nil for the root
	i      int    // deviation point
	alt    int    // alternative taken at point i
	cost   int    // preemptions of the resulting prefix
	depth  int
	mute   bool // sharding: the node is run for its children only, another shard reports it
}

type engine struct {
	opts    Options
	run     runner
	workers int

	mu       sync.Mutex
	cond     *sync.Cond
	stack    []task
	inflight int
	stop     bool

	rep   Report
	start time.Time
	bound int
	stat  *BoundStat
	dealt []int // sharding: number of nodes created so far at each depth
}

func newEngine(opts Options, run runner, workers int) *engine {
	if opts.MaxExamples <= 0 {
		opts.MaxExamples = 10
	}
	if workers < 1 {
		workers = 1
	}
	if opts.ShardDepth <= 0 {
		opts.ShardDepth = 3
	}
	if workers > 1 {
		opts.ShardN = 0 // sharding relies on the deterministic order of the sequential DFS
	}
	e := &engine{opts: opts, run: run, workers: workers}
	e.cond = sync.NewCond(&e.mu)
	e.rep.Outcomes = map[string]int{}
	e.rep.FirstOfEachOutcome = map[string]Outcome{}
	e.rep.LeakedMin = -1
	e.rep.BoundCompleted = -1
	return e
}

func (e *engine) explore() Report {
	e.start = time.Now()
	for b := 0; b <= e.opts.MaxPreemptions; b++ {
		e.bound = b
		e.rep.PerBound = append(e.rep.PerBound, BoundStat{Bound: b})
		e.stat = &e.rep.PerBound[len(e.rep.PerBound)-1]
		e.stack = append(e.stack[:0], task{mute: e.opts.ShardN > 1 && e.opts.ShardK != 0})
		e.dealt = make([]int, e.opts.ShardDepth+1)
		e.stop = false
		e.inflight = 0
		if e.workers == 1 {
			e.worker()
		} else {
			var wg sync.WaitGroup
			for w := 0; w < e.workers; w++ {
				wg.Add(1)
				go func() { defer wg.Done(); e.worker() }()
			}
			wg.Wait()
		}
		if e.rep.CapHit != "" {
			break
		}
		e.stat.Completed = true
		e.rep.BoundCompleted = b
		if !e.stat.Pruned {
			// nothing was cut by the bound: higher bounds add no schedule
			e.rep.FullyExplored = true
			e.rep.BoundCompleted = e.opts.MaxPreemptions
			break
		}
	}
	e.rep.Exhaustive = e.rep.CapHit == ""
	e.rep.Elapsed = time.Since(e.start)
	return e.rep
}

func (e *engine) capped() bool {
	if e.opts.MaxExecutions > 0 && e.rep.Executions+e.inflight >= e.opts.MaxExecutions {
		e.rep.CapHit = "executions"
		return true
	}
	if e.opts.Deadline > 0 && time.Since(e.start) > e.opts.Deadline {
		e.rep.CapHit = "deadline"
		return true
	}
	return false
}

func (e *engine) worker() {
	e.mu.Lock()
	defer e.mu.Unlock()
	for {
		for len(e.stack) == 0 && e.inflight > 0 && !e.stop {
			e.cond.Wait()
		}
		if e.stop || len(e.stack) == 0 {
			e.cond.Broadcast()
			return
		}
		if e.capped() {
			e.stop = true
			e.cond.Broadcast()
			return
		}
		t := e.stack[len(e.stack)-1]
		e.stack = e.stack[:len(e.stack)-1]
		e.inflight++
		e.mu.Unlock()

		var prefix []int
		var expect []uint32
		if t.parent != nil {
			prefix = make([]int, t.i+1)
			expect = make([]uint32, t.i+1)
			for j := 0; j < t.i; j++ {
				prefix[j] = int(t.parent.points[j].chosen)
			}
			for j := 0; j <= t.i; j++ {
				expect[j] = t.parent.points[j].sig
			}
			prefix[t.i] = t.alt
		}
		tr := e.run(prefix, expect)

		e.mu.Lock()
		e.inflight--
		e.finish(t, &tr, len(prefix))
		e.cond.Broadcast()
	}
}

// finish records the execution and pushes its in-bound children.
func (e *engine) finish(t task, tr *trace, plen int) {
	e.rep.Executions++
	e.rep.TotalSteps += int64(tr.out.Steps)
	e.rep.TotalPoints += int64(len(tr.points))
	e.stat.Runs++
	sharded := e.opts.ShardN > 1
	isNew := t.cost == e.bound && !t.mute
	if tr.out.Nondeterminism != "" {
		if isNew {
			e.rep.Nondeterministic++
			if e.rep.NondeterminismSeen == "" {
				e.rep.NondeterminismSeen = fmt.Sprintf("prefix %v: %s", tr.out.Choices, tr.out.Nondeterminism)
			}
			e.record(tr)
		}
		return
	}
	if isNew {
		e.record(tr)
	}
	// children, pushed in reverse so that they are popped in ascending order
	first := len(e.stack)
	cd := t.depth + 1 // depth of the children
	for i := plen; i < len(tr.points); i++ {
		pt := tr.points[i]
		for alt := 1; alt < int(pt.n); alt++ {
			c := t.cost
			if alt >= int(pt.free) {
				c++
			}
			if c > e.bound {
				e.stat.Pruned = true
				continue
			}
			mute := false
			if sharded && cd <= e.opts.ShardDepth {
				mine := e.dealt[cd]%e.opts.ShardN == e.opts.ShardK
				e.dealt[cd]++
				if !mine {
					if cd == e.opts.ShardDepth {
						continue // somebody else's subtree
					}
					mute = true // needed to reach my subtrees below
				}
			}
			e.stack = append(e.stack, task{parent: tr, i: i, alt: alt, cost: c, depth: cd, mute: mute})
		}
	}
	for l, r := first, len(e.stack)-1; l < r; l, r = l+1, r-1 {
		e.stack[l], e.stack[r] = e.stack[r], e.stack[l]
	}
}

func (e *engine) record(tr *trace) {
	o := tr.out
	r := &e.rep
	if e.opts.OnSchedule != nil {
		oc := tr.out
		e.opts.OnSchedule(&oc, len(tr.points))
	}
	r.Schedules++
	e.stat.Schedules++
	if len(tr.points) > r.MaxPoints {
		r.MaxPoints = len(tr.points)
	}
	k := o.Key()
	r.Outcomes[k]++
	if _, ok := r.FirstOfEachOutcome[k]; !ok {
		r.FirstOfEachOutcome[k] = o
	}
	if o.Deadlock {
		r.DeadlockCount++
		if len(r.Deadlocks) < e.opts.MaxExamples {
			r.Deadlocks = append(r.Deadlocks, o)
		}
	}
	if o.Panic != nil {
		r.PanicCount++
		if len(r.Panics) < e.opts.MaxExamples {
			r.Panics = append(r.Panics, o)
		}
	}
	if o.Nondeterminism == "" && !o.Deadlock && o.Panic == nil && !o.StepLimit {
		n := len(o.Leaked)
		if n > r.LeakedMax {
			r.LeakedMax = n
		}
		if r.LeakedMin < 0 || n < r.LeakedMin {
			r.LeakedMin = n
		}
	}
}

// -------------------------------------------------------------------- API

var exploreMu sync.Mutex

// Explore runs body once per schedule, for every schedule with at most
// opts.MaxPreemptions preemptions (iteratively: bound 0, 1, 2...).  body must
// construct every object it uses, so that each run starts from the same state.
func Explore(opts Options, body func()) Report {
	exploreMu.Lock()
	defer exploreMu.Unlock()
	if !opts.KeepGOMAXPROCS {
		defer runtime.GOMAXPROCS(runtime.GOMAXPROCS(1))
	}
	run := func(prefix []int, expect []uint32) trace {
		s := newSched(prefix, expect, opts.MaxSteps, opts.DrainSteps)
		s.sites = opts.Sites
		out := s.execute(body, true)
		return trace{points: s.points, out: out}
	}
	return newEngine(opts, run, 1).explore()
}

// Replay runs body once following choices (then choice 0).  It is
// deterministic: two replays of the same choices give identical Outcomes,
// unless the body itself is nondeterministic, which is reported in
// Outcome.Nondeterminism when it makes the choices impossible to follow.
func Replay(choices []int, body func()) Outcome {
	exploreMu.Lock()
	defer exploreMu.Unlock()
	s := newSched(choices, nil, 0, 0)
	s.sites = true
	return s.execute(body, true)
}

// ReplayTrace is Replay that additionally returns one line per fired
// transition (who did what with whom), for reading a counterexample.
func ReplayTrace(choices []int, body func()) (Outcome, []string) {
	exploreMu.Lock()
	defer exploreMu.Unlock()
	var lines []string
	s := newSched(choices, nil, 0, 0)
	s.sites = true
	s.tracef = func(l string) { lines = append(lines, l) }
	return s.execute(body, true), lines
}

// LastPanicStack is a debugging aid: stack of the last panic caught in a
// controlled goroutine ("" if none).
var LastPanicStack string
