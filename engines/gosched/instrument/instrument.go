// Package instrument rewrites Go source files so that every channel
// operation, go statement, select, close, sync.WaitGroup/Mutex/RWMutex use and
// context.WithCancel goes through the gs shim (see ../gs).
//
// The rewrite is purely syntactic (go/parser + text edits, no type checking)
// and keeps line numbers stable: replaced text never changes the number of
// newlines without a compensating /*line file:L:C*/ directive, so positions in
// compiler errors, panics and stack traces still refer to the original file.
package instrument

import (
	"encoding/json"
	"fmt"
	"go/ast"
	"go/parser"
	"go/token"
	"os"
	"path/filepath"
	"sort"
	"strconv"
	"strings"
)

// Config is the input of Run.
type Config struct {
	Repo    string   // root of the target module (its working tree is read on every run)
	Dirs    []string // repo relative package directories to instrument
	Out     string   // scratch directory receiving the rewritten files and overlay.json
	GsDir   string   // directory holding the gs shim sources
	ShimRel string   // repo relative directory at which the shim is injected (default pkg/zzgs)
	Alias   string   // import alias used in rewritten files (default zzgs)
}

// Result summarises one run.
type Result struct {
	Overlay   string         // path of the overlay JSON
	Module    string         // module path of the target
	ShimPath  string         // import path of the injected shim
	Parsed    int            // files parsed
	Rewritten int            // files written
	Counts    map[string]int // construct -> number of rewrites
	Warnings  []string       // constructs that are not modelled or could not be decided
}

type edit struct {
	start, end int
	text       string
}

// pkgInfo is the little package-wide knowledge the syntactic rewrite needs.
type pkgInfo struct {
	names      map[string]bool       // package level identifiers
	consts     map[string]bool       // package level constants
	chanVars   map[string]bool       // package level variables of channel type
	fieldChan  map[string]int        // struct field name -> number of declarations with channel type
	fieldOther map[string]int        // struct field name -> number of declarations with another type
	types      map[string]ast.Expr   // package level type name -> its definition
	fieldTypes map[string][]ast.Expr // struct field name -> declared types
	funcRes    map[string][]ast.Expr // function or method name -> declared single result types (nil entry: no or several results)
}

type rewriter struct {
	cfg      *Config
	res      *Result
	fset     *token.FileSet
	tf       *token.File
	file     *ast.File
	src      []byte
	rel      string // repo relative file name
	orig     string // absolute original file name
	pkg      *pkgInfo
	alias    string
	imports  map[string]string // local name -> import path
	edits    []edit
	skip     map[ast.Node]bool    // communication statements handled by their select
	recv2    map[ast.Node]bool    // receive expressions in  v, ok = <-ch  position
	funcs    []string             // enclosing function names
	keep     map[string]bool      // import names that must stay referenced
	indexed  map[*ast.Object]bool // variables used as x[i]: certainly not channels
	wrapMain bool
}

func (rw *rewriter) off(p token.Pos) int { return rw.tf.Offset(p) }

func (rw *rewriter) site(p token.Pos) string {
	return rw.rel + ":" + strconv.Itoa(rw.fset.Position(p).Line)
}

func (rw *rewriter) warn(p token.Pos, format string, a ...any) {
	rw.res.Warnings = append(rw.res.Warnings, rw.site(p)+": "+fmt.Sprintf(format, a...))
}

// render returns the source text of [start,end) with the edits registered so
// far applied.
func (rw *rewriter) render(start, end int) string {
	var b strings.Builder
	pos := start
	for _, e := range rw.edits {
		if e.end <= start && !(e.start == e.end && e.start == start) {
			continue
		}
		if e.start >= end {
			break
		}
		if e.start < start {
			continue
		}
		b.Write(rw.src[pos:e.start])
		b.WriteString(e.text)
		pos = e.end
	}
	if pos < end {
		b.Write(rw.src[pos:end])
	}
	return b.String()
}

func (rw *rewriter) r(n ast.Node) string { return rw.render(rw.off(n.Pos()), rw.off(n.End())) }

// add registers the replacement of [start,end) by text.  Edits nested inside
// the range are dropped: the caller has already rendered them into text.
func (rw *rewriter) add(start, end int, text string) {
	removed := strings.Count(string(rw.src[start:end]), "\n")
	added := strings.Count(text, "\n")
	if removed != added && end < len(rw.src) {
		p := rw.fset.Position(rw.tf.Pos(end))
		text += fmt.Sprintf("/*line %s:%d:%d*/", rw.orig, p.Line, p.Column)
	}
	out := rw.edits[:0]
	for _, e := range rw.edits {
		if e.start >= start && e.end <= end && !(start == end) {
			continue
		}
		out = append(out, e)
	}
	out = append(out, edit{start, end, text})
	sort.SliceStable(out, func(i, j int) bool {
		if out[i].start != out[j].start {
			return out[i].start < out[j].start
		}
		return out[i].end < out[j].end
	})
	rw.edits = out
}

func (rw *rewriter) count(k string) { rw.res.Counts[k]++ }

func unparen(e ast.Expr) ast.Expr {
	for {
		p, ok := e.(*ast.ParenExpr)
		if !ok {
			return e
		}
		e = p.X
	}
}

func isRecv(e ast.Expr) (*ast.UnaryExpr, bool) {
	u, ok := unparen(e).(*ast.UnaryExpr)
	if ok && u.Op == token.ARROW {
		return u, true
	}
	return nil, false
}

// isBuiltin reports whether id denotes the universe-scope builtin of that name.
func (rw *rewriter) isBuiltin(e ast.Expr, name string) bool {
	id, ok := unparen(e).(*ast.Ident)
	return ok && id.Name == name && id.Obj == nil && !rw.pkg.names[name]
}

// importName reports whether e is the identifier under which path is imported.
func (rw *rewriter) importName(e ast.Expr, path string) bool {
	id, ok := e.(*ast.Ident)
	return ok && id.Obj == nil && !rw.pkg.names[id.Name] && rw.imports[id.Name] == path
}

func isMakeChan(e ast.Expr) bool {
	c, ok := unparen(e).(*ast.CallExpr)
	if !ok || len(c.Args) == 0 {
		return false
	}
	id, ok := c.Fun.(*ast.Ident)
	if !ok || id.Name != "make" {
		return false
	}
	_, ok = unparen(c.Args[0]).(*ast.ChanType)
	return ok
}

func isChanType(e ast.Expr) bool {
	if e == nil {
		return false
	}
	_, ok := unparen(e).(*ast.ChanType)
	return ok
}

// chanExpr decides, conservatively, whether e has channel type:
// +1 yes, -1 no, 0 unknown.
func (rw *rewriter) chanExpr(e ast.Expr) int {
	switch x := unparen(e).(type) {
	case *ast.Ident:
		if x.Obj == nil {
			if rw.pkg.chanVars[x.Name] {
				return 1
			}
			if rw.pkg.names[x.Name] {
				return -1
			}
			return 0
		}
		if rw.indexed[x.Obj] {
			return -1
		}
		switch d := x.Obj.Decl.(type) {
		case *ast.Field:
			return rw.typeShape(d.Type)
		case *ast.ValueSpec:
			if isChanType(d.Type) {
				return 1
			}
			for i, n := range d.Names {
				if n.Name == x.Name && i < len(d.Values) && len(d.Values) == len(d.Names) {
					if isMakeChan(d.Values[i]) {
						return 1
					}
					return rw.shape(d.Values[i])
				}
			}
			if d.Type != nil {
				return rw.typeShape(d.Type)
			}
			return 0
		case *ast.AssignStmt:
			if len(d.Lhs) == len(d.Rhs) {
				for i, l := range d.Lhs {
					if id, ok := l.(*ast.Ident); ok && id.Name == x.Name {
						if isMakeChan(d.Rhs[i]) {
							return 1
						}
						return rw.shape(d.Rhs[i])
					}
				}
			}
			return 0
		}
		return 0
	case *ast.SelectorExpr:
		c, o := rw.pkg.fieldChan[x.Sel.Name], rw.pkg.fieldOther[x.Sel.Name]
		if c > 0 && o == 0 {
			return 1
		}
		if c == 0 && o > 0 {
			return -1
		}
		return 0
	case *ast.CallExpr:
		if isMakeChan(x) {
			return 1
		}
		// f(...) or recv.m(...) declared in this package: look at the declared result type
		name := ""
		switch f := unparen(x.Fun).(type) {
		case *ast.Ident:
			if f.Obj == nil || f.Obj.Kind == ast.Fun {
				name = f.Name
			}
		case *ast.SelectorExpr:
			if id, ok := f.X.(*ast.Ident); !ok || id.Obj != nil || rw.imports[id.Name] == "" {
				name = f.Sel.Name
			}
		}
		if rs, ok := rw.pkg.funcRes[name]; ok && name != "" {
			verdict := 2
			for _, r := range rs {
				v := 0
				if r != nil {
					v = rw.typeShape(r)
				} else {
					v = -1
				}
				if verdict == 2 {
					verdict = v
				} else if verdict != v {
					verdict = 0
				}
			}
			if verdict != 2 && verdict != 0 {
				return verdict
			}
		}
		return rw.shape(x)
	default:
		return rw.shape(e)
	}
}

// shape recognises expressions that are certainly not channels.
func (rw *rewriter) shape(e ast.Expr) int {
	switch x := unparen(e).(type) {
	case *ast.BasicLit, *ast.CompositeLit, *ast.SliceExpr, *ast.BinaryExpr, *ast.FuncLit:
		return -1
	case *ast.CallExpr:
		for _, b := range []string{"len", "cap", "append", "new", "copy", "min", "max"} {
			if rw.isBuiltin(x.Fun, b) {
				return -1
			}
		}
		if rw.isBuiltin(x.Fun, "make") && len(x.Args) > 0 {
			return rw.typeShape(x.Args[0])
		}
	case *ast.UnaryExpr:
		if x.Op != token.ARROW {
			return -1
		}
	case *ast.IndexExpr:
		// s.f[k] where every field f of the package is a map/slice/array of non-channels
		if sel, ok := unparen(x.X).(*ast.SelectorExpr); ok {
			ts := rw.pkg.fieldTypes[sel.Sel.Name]
			if len(ts) == 0 {
				return 0
			}
			for _, t := range ts {
				var elem ast.Expr
				switch c := unparen(t).(type) {
				case *ast.MapType:
					elem = c.Value
				case *ast.ArrayType:
					elem = c.Elt
				default:
					return 0
				}
				if rw.typeShape(elem) != -1 {
					return 0
				}
			}
			return -1
		}
	}
	return 0
}

func (rw *rewriter) typeShape(t ast.Expr) int {
	for depth := 0; depth < 10 && t != nil; depth++ {
		switch x := unparen(t).(type) {
		case *ast.ChanType:
			return 1
		case *ast.ArrayType, *ast.MapType, *ast.StructType, *ast.FuncType, *ast.StarExpr, *ast.InterfaceType, *ast.Ellipsis:
			return -1
		case *ast.Ident:
			if x.Obj != nil {
				if ts, ok := x.Obj.Decl.(*ast.TypeSpec); ok {
					t = ts.Type
					continue
				}
				return 0
			}
			if def, ok := rw.pkg.types[x.Name]; ok {
				t = def
				continue
			}
			if !rw.pkg.names[x.Name] {
				switch x.Name {
				case "int", "int8", "int16", "int32", "int64", "uint", "uint8", "uint16", "uint32", "uint64", "uintptr",
					"string", "bool", "byte", "rune", "float32", "float64", "complex64", "complex128", "error", "any":
					return -1
				}
			}
			return 0
		default:
			return 0
		}
	}
	return 0
}

// constLike reports whether e is (probably) a constant expression, which must
// not be hoisted into a variable because that would fix its type.
func (rw *rewriter) constLike(e ast.Expr) bool {
	switch x := unparen(e).(type) {
	case *ast.BasicLit:
		return true
	case *ast.Ident:
		if x.Obj != nil {
			return x.Obj.Kind == ast.Con
		}
		if rw.pkg.consts[x.Name] {
			return true
		}
		if rw.pkg.names[x.Name] {
			return false
		}
		switch x.Name {
		case "nil", "true", "false", "iota":
			return true
		}
		return false
	case *ast.SelectorExpr:
		if id, ok := x.X.(*ast.Ident); ok && id.Obj == nil && !rw.pkg.names[id.Name] {
			_, imported := rw.imports[id.Name]
			return imported // pkg.Name: a constant or a package level object; evaluating it late is harmless
		}
		return false
	case *ast.UnaryExpr:
		return x.Op != token.ARROW && x.Op != token.AND && rw.constLike(x.X)
	case *ast.BinaryExpr:
		return rw.constLike(x.X) && rw.constLike(x.Y)
	}
	return false
}

func (rw *rewriter) funcName() string {
	if len(rw.funcs) == 0 {
		return "<package>"
	}
	return rw.funcs[len(rw.funcs)-1]
}

func oneLine(s string) string {
	s = strings.Join(strings.Fields(s), " ")
	if len(s) > 80 {
		s = s[:77] + "..."
	}
	return s
}

func (rw *rewriter) pre(n ast.Node) {
	switch x := n.(type) {
	case *ast.FuncDecl:
		name := x.Name.Name
		if x.Recv != nil && len(x.Recv.List) > 0 {
			name = "(" + oneLine(string(rw.src[rw.off(x.Recv.List[0].Type.Pos()):rw.off(x.Recv.List[0].Type.End())])) + ")." + name
		}
		rw.funcs = append(rw.funcs, name)
	case *ast.SelectStmt:
		for _, c := range x.Body.List {
			cc := c.(*ast.CommClause)
			switch s := cc.Comm.(type) {
			case *ast.SendStmt:
				rw.skip[s] = true
			case *ast.ExprStmt:
				if u, ok := isRecv(s.X); ok {
					rw.skip[u] = true
				}
			case *ast.AssignStmt:
				if u, ok := isRecv(s.Rhs[0]); ok {
					rw.skip[u] = true
				}
			}
		}
	case *ast.AssignStmt:
		if len(x.Lhs) == 2 && len(x.Rhs) == 1 {
			if u, ok := isRecv(x.Rhs[0]); ok {
				rw.recv2[u] = true
			}
		}
	case *ast.ValueSpec:
		if len(x.Names) == 2 && len(x.Values) == 1 {
			if u, ok := isRecv(x.Values[0]); ok {
				rw.recv2[u] = true
			}
		}
	}
}

func (rw *rewriter) post(n ast.Node) {
	a := rw.alias
	switch x := n.(type) {
	case *ast.FuncDecl:
		rw.funcs = rw.funcs[:len(rw.funcs)-1]
		if rw.file.Name.Name == "main" && x.Recv == nil && x.Name.Name == "main" && x.Body != nil {
			rw.add(rw.off(x.Name.Pos()), rw.off(x.Name.End()), a+"Main")
			rw.wrapMain = true
			rw.count("main")
		}

	case *ast.SendStmt:
		if rw.skip[x] {
			return
		}
		rw.add(rw.off(x.Pos()), rw.off(x.End()), a+".SendTo("+rw.r(x.Chan)+").Send("+rw.r(x.Value)+")")
		rw.count("send")

	case *ast.UnaryExpr:
		if x.Op != token.ARROW || rw.skip[x] {
			return
		}
		fn := ".Recv("
		if rw.recv2[x] {
			fn = ".Recv2("
		}
		rw.add(rw.off(x.Pos()), rw.off(x.End()), a+fn+rw.r(x.X)+")")
		rw.count("recv")

	case *ast.CallExpr:
		switch {
		case rw.isBuiltin(x.Fun, "close") && len(x.Args) == 1:
			rw.add(rw.off(x.Fun.Pos()), rw.off(x.Fun.End()), a+".Close")
			rw.count("close")
		case rw.isBuiltin(x.Fun, "make") && len(x.Args) >= 1 && isChanType(x.Args[0]):
			rw.add(rw.off(x.Pos()), rw.off(x.End()), a+".MakeChan("+strconv.Quote(rw.site(x.Pos()))+", "+rw.r(x)+")")
			rw.count("make(chan)")
		default:
			if sel, ok := x.Fun.(*ast.SelectorExpr); ok {
				rw.callSelector(x, sel)
			}
		}

	case *ast.SelectorExpr:
		if rw.importName(x.X, "sync") {
			switch x.Sel.Name {
			case "WaitGroup", "Mutex", "RWMutex":
				rw.keep[x.X.(*ast.Ident).Name] = true
				rw.add(rw.off(x.Pos()), rw.off(x.End()), a+"."+x.Sel.Name)
				rw.count("sync." + x.Sel.Name)
			case "Once", "Cond", "Map":
				rw.warn(x.Pos(), "sync.%s is not modelled by the scheduler", x.Sel.Name)
			}
		}

	case *ast.GoStmt:
		rw.goStmt(x)

	case *ast.SelectStmt:
		rw.selectStmt(x)

	case *ast.RangeStmt:
		rw.rangeStmt(x)
	}
}

func (rw *rewriter) callSelector(call *ast.CallExpr, sel *ast.SelectorExpr) {
	switch {
	case rw.importName(sel.X, "context"):
		switch sel.Sel.Name {
		case "WithCancel":
			rw.keep[sel.X.(*ast.Ident).Name] = true
			rw.add(rw.off(sel.Pos()), rw.off(sel.End()), rw.alias+".WithCancel")
			rw.count("context.WithCancel")
		case "WithTimeout", "WithDeadline", "WithCancelCause", "WithTimeoutCause", "WithDeadlineCause", "AfterFunc":
			rw.warn(call.Pos(), "context.%s is not modelled: its Done channel is invisible to the scheduler", sel.Sel.Name)
		}
	case rw.importName(sel.X, "time"):
		switch sel.Sel.Name {
		case "After", "Tick", "NewTimer", "NewTicker", "AfterFunc":
			rw.warn(call.Pos(), "time.%s is not modelled: timer channels are invisible to the scheduler", sel.Sel.Name)
		}
	case rw.importName(sel.X, "os/signal"):
		rw.warn(call.Pos(), "signal.%s is not modelled", sel.Sel.Name)
	}
}

func (rw *rewriter) goStmt(g *ast.GoStmt) {
	a := rw.alias
	call := g.Call
	fun := unparen(call.Fun)
	site := strconv.Quote(rw.site(g.Pos()))
	var name string
	if _, ok := fun.(*ast.FuncLit); ok {
		name = rw.funcName() + ".func"
	} else {
		name = oneLine(string(rw.src[rw.off(call.Fun.Pos()):rw.off(call.Fun.End())]))
	}
	head := a + ".Go(" + site + ", " + strconv.Quote(name) + ", "
	start, end := rw.off(g.Pos()), rw.off(g.End())
	rw.count("go")

	if lit, ok := fun.(*ast.FuncLit); ok && len(call.Args) == 0 && lit.Type.Results == nil {
		rw.add(start, end, head+rw.r(lit)+")")
		return
	}
	if id, ok := fun.(*ast.Ident); ok && id.Obj == nil && !rw.pkg.names[id.Name] {
		switch id.Name {
		case "close", "panic", "print", "println", "delete", "copy", "clear", "recover":
			rw.add(start, end, head+"func() { "+rw.r(call)+" })")
			return
		}
	}
	// general form: evaluate the function value and the arguments now, call later
	var b strings.Builder
	b.WriteString(head + "func() func() { _gsf := " + rw.r(call.Fun))
	args := make([]string, len(call.Args))
	for i, arg := range call.Args {
		if rw.constLike(arg) {
			args[i] = rw.r(arg)
			continue
		}
		v := "_gsa" + strconv.Itoa(i)
		b.WriteString("; " + v + " := " + rw.r(arg))
		args[i] = v
	}
	if call.Ellipsis.IsValid() && len(args) > 0 {
		args[len(args)-1] += "..."
	}
	b.WriteString("; return func() { _gsf(" + strings.Join(args, ", ") + ") } }())")
	rw.add(start, end, b.String())
}

func (rw *rewriter) selectStmt(s *ast.SelectStmt) {
	a := rw.alias
	var names, inits []string
	hasDefault := false
	type hdr struct {
		start, end int
		text       string
	}
	var hdrs []hdr
	k := 0
	for _, c := range s.Body.List {
		cc := c.(*ast.CommClause)
		hs, he := rw.off(cc.Pos()), rw.off(cc.Colon)+1
		if cc.Comm == nil {
			hasDefault = true
			continue
		}
		v := "_gs" + strconv.Itoa(k)
		text := "case " + strconv.Itoa(k) + ":"
		switch st := cc.Comm.(type) {
		case *ast.SendStmt:
			inits = append(inits, a+".SendTo("+rw.r(st.Chan)+").Case("+rw.r(st.Value)+")")
		case *ast.ExprStmt:
			u, ok := isRecv(st.X)
			if !ok {
				rw.warn(cc.Pos(), "unsupported select communication clause")
				return
			}
			inits = append(inits, a+".RecvCase("+rw.r(u.X)+")")
		case *ast.AssignStmt:
			u, ok := isRecv(st.Rhs[0])
			if !ok {
				rw.warn(cc.Pos(), "unsupported select communication clause")
				return
			}
			inits = append(inits, a+".RecvCase("+rw.r(u.X)+")")
			lhs := rw.r(st.Lhs[0])
			rhs := v + ".V"
			if len(st.Lhs) == 2 {
				lhs += ", " + rw.r(st.Lhs[1])
				rhs += ", " + v + ".OK"
			}
			text += " " + lhs + " " + st.Tok.String() + " " + rhs + ";"
		default:
			rw.warn(cc.Pos(), "unsupported select communication clause")
			return
		}
		names = append(names, v)
		hdrs = append(hdrs, hdr{hs, he, text})
		k++
	}
	head := "switch "
	if len(names) > 0 {
		head += strings.Join(names, ", ") + " := " + strings.Join(inits, ", ") + "; "
	}
	head += a + ".Select(" + strconv.FormatBool(hasDefault)
	for _, n := range names {
		head += ", " + n
	}
	head += ") {"
	for _, h := range hdrs {
		rw.add(h.start, h.end, h.text)
	}
	rw.add(rw.off(s.Pos()), rw.off(s.Body.Lbrace)+1, head)
	rw.count("select")
}

func (rw *rewriter) rangeStmt(r *ast.RangeStmt) {
	if r.Value != nil {
		return // two iteration variables: not a channel
	}
	switch rw.chanExpr(r.X) {
	case -1:
		return
	case 0:
		rw.warn(r.Pos(), "cannot decide syntactically whether the range operand %q is a channel; left untouched", oneLine(rw.r(r.X)))
		return
	}
	a := rw.alias
	head := "for _gsc := " + rw.r(r.X) + "; ; { "
	blank := false
	if id, ok := r.Key.(*ast.Ident); ok && id.Name == "_" {
		blank = true
	}
	if r.Key == nil || blank {
		head += "_, _gsok := " + a + ".Recv2(_gsc); if !_gsok { break };"
	} else {
		// the loop variable is only assigned when a value was received
		head += "_gsv, _gsok := " + a + ".Recv2(_gsc); if !_gsok { break }; " + rw.r(r.Key) + " " + r.Tok.String() + " _gsv;"
	}
	rw.add(rw.off(r.Pos()), rw.off(r.Body.Lbrace)+1, head)
	rw.count("range chan")
}

// collect gathers the package-wide facts used by the rewrite.
func collect(files []*ast.File) *pkgInfo {
	pi := &pkgInfo{names: map[string]bool{}, consts: map[string]bool{}, chanVars: map[string]bool{}, fieldChan: map[string]int{}, fieldOther: map[string]int{}, types: map[string]ast.Expr{}, funcRes: map[string][]ast.Expr{}, fieldTypes: map[string][]ast.Expr{}}
	for _, f := range files {
		for _, d := range f.Decls {
			switch x := d.(type) {
			case *ast.FuncDecl:
				if x.Recv == nil {
					pi.names[x.Name.Name] = true
				}
				var res ast.Expr
				if r := x.Type.Results; r != nil && len(r.List) == 1 && len(r.List[0].Names) <= 1 {
					res = r.List[0].Type
				}
				pi.funcRes[x.Name.Name] = append(pi.funcRes[x.Name.Name], res)
			case *ast.GenDecl:
				for _, sp := range x.Specs {
					switch s := sp.(type) {
					case *ast.TypeSpec:
						pi.names[s.Name.Name] = true
						pi.types[s.Name.Name] = s.Type
					case *ast.ValueSpec:
						for i, n := range s.Names {
							pi.names[n.Name] = true
							if x.Tok == token.CONST {
								pi.consts[n.Name] = true
							} else if isChanType(s.Type) || (len(s.Values) == len(s.Names) && isMakeChan(s.Values[i])) {
								pi.chanVars[n.Name] = true
							}
						}
					}
				}
			}
		}
		ast.Inspect(f, func(n ast.Node) bool {
			st, ok := n.(*ast.StructType)
			if !ok || st.Fields == nil {
				return true
			}
			for _, fl := range st.Fields.List {
				for _, nm := range fl.Names {
					pi.fieldTypes[nm.Name] = append(pi.fieldTypes[nm.Name], fl.Type)
					if isChanType(fl.Type) {
						pi.fieldChan[nm.Name]++
					} else {
						pi.fieldOther[nm.Name]++
					}
				}
			}
			return true
		})
	}
	return pi
}

func (rw *rewriter) run() (string, bool, error) {
	rw.indexed = map[*ast.Object]bool{}
	ast.Inspect(rw.file, func(n ast.Node) bool {
		if ix, ok := n.(*ast.IndexExpr); ok {
			if id, ok := unparen(ix.X).(*ast.Ident); ok && id.Obj != nil {
				rw.indexed[id.Obj] = true
			}
		}
		return true
	})
	var stack []ast.Node
	ast.Inspect(rw.file, func(n ast.Node) bool {
		if n == nil {
			top := stack[len(stack)-1]
			stack = stack[:len(stack)-1]
			rw.post(top)
			return true
		}
		stack = append(stack, n)
		rw.pre(n)
		return true
	})
	if len(rw.edits) == 0 {
		return "", false, nil
	}
	imp := fmt.Sprintf("; import %s %q", rw.alias, rw.res.ShimPath)
	e := rw.off(rw.file.Name.End())
	rw.add(e, e, imp)
	out := rw.render(0, len(rw.src))
	var tail strings.Builder
	tail.WriteString("\n")
	var keep []string
	for k := range rw.keep {
		keep = append(keep, k)
	}
	sort.Strings(keep)
	for _, k := range keep {
		switch rw.imports[k] {
		case "sync":
			tail.WriteString("var _ " + k + ".Locker\n")
		case "context":
			tail.WriteString("var _ " + k + ".Context\n")
		}
	}
	if rw.wrapMain {
		tail.WriteString("func main() { " + rw.alias + ".Main(" + rw.alias + "Main) }\n")
	}
	out += tail.String()
	if _, err := parser.ParseFile(token.NewFileSet(), rw.orig, out, parser.SkipObjectResolution); err != nil {
		return out, true, fmt.Errorf("rewritten %s does not parse: %v", rw.rel, err)
	}
	return out, true, nil
}

func moduleOf(repo string) (string, error) {
	b, err := os.ReadFile(filepath.Join(repo, "go.mod"))
	if err != nil {
		return "", err
	}
	for _, l := range strings.Split(string(b), "\n") {
		l = strings.TrimSpace(l)
		if strings.HasPrefix(l, "module ") {
			return strings.Trim(strings.TrimSpace(strings.TrimPrefix(l, "module ")), `"`), nil
		}
	}
	return "", fmt.Errorf("no module line in %s/go.mod", repo)
}

// Run instruments cfg.Dirs and writes the overlay.
func Run(cfg Config) (*Result, error) {
	if cfg.ShimRel == "" {
		cfg.ShimRel = "pkg/zzgs"
	}
	if cfg.Alias == "" {
		cfg.Alias = "zzgs"
	}
	mod, err := moduleOf(cfg.Repo)
	if err != nil {
		return nil, err
	}
	res := &Result{Module: mod, ShimPath: mod + "/" + filepath.ToSlash(cfg.ShimRel), Counts: map[string]int{}}
	if err := os.MkdirAll(cfg.Out, 0o755); err != nil {
		return nil, err
	}
	replace := map[string]string{}

	for _, dir := range cfg.Dirs {
		dir = filepath.Clean(dir)
		abs := filepath.Join(cfg.Repo, dir)
		ents, err := os.ReadDir(abs)
		if err != nil {
			return nil, err
		}
		fset := token.NewFileSet()
		type parsed struct {
			name string
			src  []byte
			f    *ast.File
		}
		byPkg := map[string][]parsed{}
		for _, e := range ents {
			n := e.Name()
			if e.IsDir() || !strings.HasSuffix(n, ".go") || strings.HasSuffix(n, "_test.go") {
				continue
			}
			p := filepath.Join(abs, n)
			src, err := os.ReadFile(p)
			if err != nil {
				return nil, err
			}
			f, err := parser.ParseFile(fset, p, src, parser.ParseComments)
			if err != nil {
				return nil, fmt.Errorf("parse %s: %v", p, err)
			}
			res.Parsed++
			byPkg[f.Name.Name] = append(byPkg[f.Name.Name], parsed{n, src, f})
		}
		for _, files := range byPkg {
			var asts []*ast.File
			for _, p := range files {
				asts = append(asts, p.f)
			}
			pi := collect(asts)
			for _, p := range files {
				rw := &rewriter{
					cfg: &cfg, res: res, fset: fset, tf: fset.File(p.f.Pos()), file: p.f, src: p.src,
					rel: filepath.ToSlash(filepath.Join(dir, p.name)), orig: filepath.Join(abs, p.name),
					pkg: pi, alias: cfg.Alias, imports: map[string]string{},
					skip: map[ast.Node]bool{}, recv2: map[ast.Node]bool{}, keep: map[string]bool{},
				}
				cgo := false
				for _, im := range p.f.Imports {
					path, _ := strconv.Unquote(im.Path.Value)
					name := path[strings.LastIndex(path, "/")+1:]
					if im.Name != nil {
						name = im.Name.Name
					}
					if path == "C" {
						cgo = true
					}
					rw.imports[name] = path
				}
				if cgo {
					rw.warn(p.f.Pos(), "cgo file left untouched")
					continue
				}
				out, changed, err := rw.run()
				if err != nil {
					os.WriteFile(filepath.Join(cfg.Out, "FAILED_"+p.name), []byte(out), 0o644)
					return res, err
				}
				if !changed {
					continue
				}
				dst := filepath.Join(cfg.Out, dir, p.name)
				if err := os.MkdirAll(filepath.Dir(dst), 0o755); err != nil {
					return nil, err
				}
				if err := os.WriteFile(dst, []byte(out), 0o644); err != nil {
					return nil, err
				}
				replace[rw.orig] = dst
				res.Rewritten++
			}
		}
	}

	// the shim, injected as a virtual package
	ents, err := os.ReadDir(cfg.GsDir)
	if err != nil {
		return nil, err
	}
	for _, e := range ents {
		n := e.Name()
		if e.IsDir() || !strings.HasSuffix(n, ".go") || strings.HasSuffix(n, "_test.go") {
			continue
		}
		replace[filepath.Join(cfg.Repo, cfg.ShimRel, n)] = filepath.Join(cfg.GsDir, n)
	}
	js, _ := json.MarshalIndent(map[string]any{"Replace": replace}, "", "  ")
	res.Overlay = filepath.Join(cfg.Out, "overlay.json")
	if err := os.WriteFile(res.Overlay, js, 0o644); err != nil {
		return nil, err
	}
	sort.Strings(res.Warnings)
	return res, nil
}
