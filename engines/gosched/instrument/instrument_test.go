package instrument

import (
	"os"
	"os/exec"
	"path/filepath"
	"strings"
	"testing"
)

// A synthetic module exercising every construct the rewriter knows, including
// the ones that do not occur in the BondMachine repository.
const libSrc = `package p

import (
	"context"
	"fmt"
	"sync"
)

type Msg interface{ M() string }
type A int

func (a A) M() string { return fmt.Sprint("A", int(a)) }

type Box struct {
	in   chan Msg
	mu   sync.Mutex
	rw   sync.RWMutex
	wg   sync.WaitGroup
	n    int
	done chan struct{}
}

const K = 3

func work(id uint8, out chan<- int, scale float64, extra ...int) {
	s := int(float64(id) * scale)
	for _, e := range extra {
		s += e
	}
	out <- s
}

func Sum() int {
	out := make(chan int, 8)
	go work(1, out, 2)          // untyped constants must keep their type
	go work(K, out, 1.5, 1, 2)  // constant identifier + variadic
	xs := []int{10, 20}
	go work(2, out, 1, xs...)   // ellipsis
	t := 0
	for i := 0; i < 3; i++ {
		t += <-out
	}
	return t
}

func Producer(n int) <-chan int {
	c := make(chan int)
	go func() {
		defer close(c)
		for i := 0; i < n; i++ {
			c <- i
		}
	}()
	return c
}

func RangeSum(n int) int {
	s := 0
	c := make(chan int)
	go func(m int) {
		for i := 0; i < m; i++ {
			c <- i
		}
		close(c)
	}(n)
	for v := range c {
		if v == 1 {
			continue
		}
		s += v
	}
	var last int
	d := make(chan int, 2)
	d <- 7
	d <- 8
	close(d)
	for last = range d {
	}
	for range Producer(2) { // call of a function of this package declared to return a channel
	}
	return s*100 + last
}

func (b *Box) Run(ctx context.Context, res chan<- string) {
	count := 0
loop:
	for {
		select {
		case m, ok := <-b.in:
			if !ok {
				break loop
			}
			b.mu.Lock()
			b.n++
			b.mu.Unlock()
			count++
			res <- m.M()
		case <-ctx.Done():
			res <- "cancelled"
			break loop
		}
	}
	b.rw.RLock()
	_ = b.n
	b.rw.RUnlock()
	b.wg.Done()
}

func UseBox() string {
	b := &Box{in: make(chan Msg)}
	ctx, cancel := context.WithCancel(context.Background())
	defer cancel()
	res := make(chan string, 4)
	b.wg.Add(1)
	go b.Run(ctx, res)
	b.in <- A(1) // concrete value into an interface channel
	b.in <- A(2)
	var out []string
	out = append(out, <-res, <-res)
	cancel()
	b.wg.Wait()
	out = append(out, <-res)
	select {
	case x := <-res:
		out = append(out, x)
	default:
		out = append(out, "empty")
	}
	var nilc chan int
	select {
	case nilc <- 1:
		out = append(out, "impossible")
	case v, ok := <-Producer(0):
		out = append(out, fmt.Sprint(v, ok))
	}
	return strings(out)
}

func strings(s []string) string { return fmt.Sprint(s) }
`

const mainSrc = `package main

import (
	"fmt"

	"example.com/t/p"
)

func main() {
	done := make(chan bool)
	go func() {
		fmt.Println("sum", p.Sum())
		fmt.Println("range", p.RangeSum(4))
		fmt.Println("box", p.UseBox())
		done <- true
	}()
	if v, ok := <-done; !ok || !v {
		panic("bad")
	}
	fmt.Println("end")
}
`

func run(t *testing.T, dir string, env []string, args ...string) string {
	t.Helper()
	c := exec.Command("go", args...)
	c.Dir = dir
	c.Env = append(os.Environ(), "GOFLAGS=-mod=mod", "GOPROXY=off", "GOSUMDB=off", "GOTOOLCHAIN=local")
	c.Env = append(c.Env, env...)
	out, err := c.CombinedOutput()
	if err != nil {
		t.Fatalf("go %v: %v\n%s", args, err, out)
	}
	return string(out)
}

func TestRewriteSyntheticModule(t *testing.T) {
	if testing.Short() {
		t.Skip("runs the go tool")
	}
	root := t.TempDir()
	write := func(rel, src string) {
		p := filepath.Join(root, rel)
		os.MkdirAll(filepath.Dir(p), 0o755)
		if err := os.WriteFile(p, []byte(src), 0o644); err != nil {
			t.Fatal(err)
		}
	}
	write("go.mod", "module example.com/t\n\ngo 1.23\n")
	write("p/p.go", libSrc)
	write("cmd/m/main.go", mainSrc)
	gsdir, _ := filepath.Abs("../gs")
	res, err := Run(Config{Repo: root, Dirs: []string{"p", "cmd/m"}, Out: filepath.Join(root, ".ov"), GsDir: gsdir})
	if err != nil {
		t.Fatal(err)
	}
	t.Logf("counts %v", res.Counts)
	for _, w := range res.Warnings {
		t.Logf("warning: %s", w)
	}
	for _, k := range []string{"send", "recv", "select", "go", "close", "range chan", "make(chan)", "sync.WaitGroup", "sync.Mutex", "sync.RWMutex", "context.WithCancel", "main"} {
		if res.Counts[k] == 0 {
			t.Errorf("construct %q was never rewritten", k)
		}
	}
	want := run(t, root, nil, "run", "./cmd/m")
	bin := filepath.Join(root, "m.bin")
	run(t, root, nil, "build", "-overlay", res.Overlay, "-o", bin, "./cmd/m")
	free, err := exec.Command(bin).CombinedOutput()
	if err != nil || string(free) != want {
		t.Fatalf("instrumented binary, free mode: %v\n%s\nwant\n%s", err, free, want)
	}
	c := exec.Command(bin)
	c.Env = append(os.Environ(), "VERIF_GS_STALL=10", "VERIF_SCHED=", "VERIF_SCHED_OUT="+filepath.Join(root, "sched.out"))
	ctl, err := c.CombinedOutput()
	if err != nil || string(ctl) != want {
		t.Fatalf("instrumented binary, controlled mode: %v\n%s\nwant\n%s", err, ctl, want)
	}
	tr, _ := os.ReadFile(filepath.Join(root, "sched.out"))
	if !strings.Contains(string(tr), "\nend {") && !strings.HasPrefix(string(tr), "end {") {
		t.Fatalf("no end record:\n%s", tr)
	}
	// line numbers must be preserved: a panic position in the rewritten file maps to the original line
	src, _ := os.ReadFile(filepath.Join(root, ".ov", "p", "p.go"))
	if strings.Count(string(src), "\n") < strings.Count(libSrc, "\n") {
		t.Errorf("rewritten file lost lines")
	}
}
