//go:build gosched

// bmreqs example.
//
//	-mode basic    NewReqRoot + two Requirement calls + Close (the required end-to-end case)
//	-mode clients  two client goroutines issue one Requirement each, then Close
//	-mode clone    OpClone (which spawns `go rg.Clone`) racing with an OpGet of the
//	               clone destination and with Close
package main

import (
	"flag"
	"fmt"
	"reflect"

	"github.com/BondMachineHQ/BondMachine/pkg/bmreqs"
	gs "github.com/BondMachineHQ/BondMachine/pkg/zzgs"

	"verif/engines/gosched/examples/cli"
)

var mode = flag.String("mode", "basic", "basic | clients | clone")

func show(r bmreqs.ReqResponse) string { return fmt.Sprintf("%q/%v", r.Value, r.Error) }

func basic() {
	rg := bmreqs.NewReqRoot()
	r1 := rg.Requirement(bmreqs.ReqRequest{Node: "/", T: bmreqs.ObjectSet, Name: "processors", Value: "cp0", Op: bmreqs.OpAdd})
	r2 := rg.Requirement(bmreqs.ReqRequest{Node: "/", Name: "processors", Op: bmreqs.OpGet})
	rg.Close()
	gs.Observe("add=" + show(r1) + " get=" + show(r2))
}

func clients() {
	rg := bmreqs.NewReqRoot()
	done := make(chan string)
	gs.Go("examples/bmreqs/main.go:client-add", "client add", func() {
		gs.Send(done, "add="+show(rg.Requirement(bmreqs.ReqRequest{Node: "/", T: bmreqs.ObjectSet, Name: "processors", Value: "cp0", Op: bmreqs.OpAdd})))
	})
	gs.Go("examples/bmreqs/main.go:client-get", "client get", func() {
		gs.Send(done, "get="+show(rg.Requirement(bmreqs.ReqRequest{Node: "/", Name: "processors", Op: bmreqs.OpGet})))
	})
	a, b := gs.Recv(done), gs.Recv(done)
	if a > b {
		a, b = b, a
	}
	rg.Close()
	gs.Observe(a + " " + b)
}

func clone() {
	rg := bmreqs.NewReqRoot()
	rg.Requirement(bmreqs.ReqRequest{Node: "/", T: bmreqs.ObjectSet, Name: "processors", Value: "cp0", Op: bmreqs.OpAdd})
	rg.Requirement(bmreqs.ReqRequest{Node: "/", T: bmreqs.ObjectSet, Name: "processors", Value: "cp1", Op: bmreqs.OpAdd})
	rg.Requirement(bmreqs.ReqRequest{Node: "/processors:cp0", T: bmreqs.ObjectSet, Name: "opcodes", Value: "rset", Op: bmreqs.OpAdd})
	c := rg.Requirement(bmreqs.ReqRequest{Node: "/processors:cp0", Name: "/processors:cp1", Op: bmreqs.OpClone})
	g := rg.Requirement(bmreqs.ReqRequest{Node: "/processors:cp1", Name: "opcodes", Op: bmreqs.OpGet})
	rg.Close()
	gs.Observe("clone=" + show(c) + " get=" + show(g))
}

func main() {
	opts := cli.Options()
	body := map[string]func(){"basic": basic, "clients": clients, "clone": clone}[*mode]
	if body == nil {
		panic("unknown -mode")
	}
	if *cli.Replay != "" {
		a, b := gs.Replay(cli.Choices(), body), gs.Replay(cli.Choices(), body)
		fmt.Printf("%+v\nidentical on second replay: %v\n", a, reflect.DeepEqual(a, b))
		return
	}
	r := gs.Explore(opts, body)
	cli.Print(r)
	cli.PrintLeaks(r)
}
