//go:build gosched

// vmstep example: a 2-processor BondMachine, VM.Init + Launch_processors + N x
// VM.Step under every schedule up to the preemption bound.
package main

import (
	"flag"
	"fmt"
	"reflect"
	"strings"

	"github.com/BondMachineHQ/BondMachine/pkg/bondmachine"
	"github.com/BondMachineHQ/BondMachine/pkg/procbuilder"
	"github.com/BondMachineHQ/BondMachine/pkg/simbox"
	gs "github.com/BondMachineHQ/BondMachine/pkg/zzgs"

	"verif/engines/gosched/examples/cli"
	"verif/lib/bmgen"
)

var (
	steps  = flag.Int("steps", 2, "number of VM.Step calls")
	procs  = flag.Int("procs", 2, "number of processors")
	free   = flag.Int("free", 0, "run the body N times WITHOUT the scheduler (instrumented code degrades to plain Go); use with a -race build")
	hoist  = flag.Bool("hoist", false, "build the (read-only) Bondmachine once instead of once per execution; only the VM is rebuilt per execution")
	showPC = flag.Bool("showpc", true, "enable the show_pc simbox rule, so that every processor returns a non-empty report")
)

func machine(prog string) *procbuilder.Machine {
	m, err := bmgen.NewMachine(bmgen.ArchSpec{Rsize: 8, R: 1, N: 0, M: 1, L: 1, O: 3, Ops: []string{"inc", "r2o", "j"}})
	if err != nil {
		panic(err)
	}
	p, err := m.Arch.Assembler([]byte(prog))
	if err != nil {
		panic(err)
	}
	m.Program = p
	return m
}

func build() *bondmachine.Bondmachine {
	b := new(bondmachine.Bondmachine)
	b.Rsize = 8
	b.Init()
	for i := 0; i < *procs; i++ {
		b.Domains = append(b.Domains, machine("inc r0\nr2o r0 o0\nj 0\n"))
		b.Add_processor(i)
		b.Add_output()
		b.Add_bond([]string{fmt.Sprintf("o%d", i), fmt.Sprintf("p%do0", i)})
	}
	return b
}

var hoisted *bondmachine.Bondmachine

func body() {
	bm := hoisted
	if bm == nil {
		bm = build()
	}
	sbox := new(simbox.Simbox)
	if *showPC {
		if err := sbox.Add("config:show_pc"); err != nil {
			panic(err)
		}
	}
	vm := &bondmachine.VM{Bmach: bm}
	if err := vm.Init(); err != nil {
		panic(err)
	}
	if err := vm.Launch_processors(sbox); err != nil {
		panic(err)
	}
	var reports []string
	for s := 0; s < *steps; s++ {
		r, err := vm.Step(nil)
		if err != nil {
			panic(err)
		}
		reports = append(reports, strings.Join(strings.Fields(r), " "))
	}
	state := ""
	for i, p := range vm.Processors {
		state += fmt.Sprintf(" p%d:pc=%d,r0=%v,o0=%v", i, p.Pc, p.Registers[0], p.Outputs[0])
	}
	gs.Observe("state:" + state + " | step reports: " + strings.Join(reports, " / "))
}

func main() {
	opts := cli.Options()
	if *hoist {
		hoisted = build()
	}
	if *free > 0 {
		for i := 0; i < *free; i++ {
			body()
		}
		fmt.Printf("%d free runs done\n", *free)
		return
	}
	if *cli.Replay != "" {
		a, b := gs.Replay(cli.Choices(), body), gs.Replay(cli.Choices(), body)
		fmt.Printf("%+v\nidentical on second replay: %v\n", a, reflect.DeepEqual(a, b))
		return
	}
	r := gs.Explore(opts, body)
	cli.Print(r)
	cli.PrintLeaks(r)
}
