// bondgoproc example: the whole cmd/bondgo compiler, one process per schedule.
//
// The harness instruments pkg/bondgo + cmd/bondgo from the current /repo
// working tree, builds the instrumented compiler, and explores the schedules of
// its three goroutines (AST visitor = main, Var_assigner, Usage_Monitor) while
// it compiles a tiny program.
package main

import (
	"flag"
	"fmt"
	"os"
	"path/filepath"
	"reflect"
	"runtime"
	"time"

	"verif/engines/gosched/explore"
	"verif/engines/gosched/gs"
)

const defaultSrc = `package main

import (
	"bondgo"
)

func main() {
	var outgoing bondgo.Output
	var reg_aa uint8
	outgoing = bondgo.Make(bondgo.Output, 3)
	reg_aa = 1
	bondgo.IOWrite(outgoing, reg_aa)
}
`

func main() {
	bound := flag.Int("bound", 1, "maximum number of preemptions")
	workers := flag.Int("workers", runtime.NumCPU(), "parallel child processes")
	maxExec := flag.Int("maxexec", 0, "cap on executions")
	deadline := flag.Duration("deadline", 10*time.Minute, "wall clock cap")
	src := flag.String("src", "", "bondgo source file to compile (default: a built-in 5 line program)")
	keep := flag.Bool("keep", false, "keep the scratch directory")
	flag.Parse()

	scratch := explore.TempDir("gs-bondgo")
	if !*keep {
		defer os.RemoveAll(scratch)
	}
	t0 := time.Now()
	res, err := explore.Instrument(filepath.Join(scratch, "ov"), "pkg/bondgo", "cmd/bondgo")
	if err != nil {
		fmt.Println(err)
		os.Exit(1)
	}
	tInstr := time.Since(t0)
	bin := filepath.Join(scratch, "bondgo")
	if err := explore.BuildRepoCmd(res.Overlay, "cmd/bondgo", bin); err != nil {
		fmt.Println(err)
		os.Exit(1)
	}
	fmt.Printf("instrumented in %v, built in %v (scratch %s)\n", tInstr.Round(time.Millisecond), time.Since(t0).Round(time.Millisecond), scratch)
	input := *src
	if input == "" {
		input = filepath.Join(scratch, "prog.go")
		os.WriteFile(input, []byte(defaultSrc), 0o644)
	} else {
		input, _ = filepath.Abs(input)
	}
	cmd := []string{bin, "-input-file", input, "-save-assembly", "out.asm", "-show-requirements"}
	opts := gs.ProcOptions{
		Options:       gs.Options{MaxPreemptions: *bound, MaxExecutions: *maxExec, Deadline: *deadline},
		Workers:       *workers,
		Timeout:       30 * time.Second,
		ObserveFiles:  true, // each child runs in its own directory: out.asm is hashed into the observation
		ObserveStdout: true,
	}
	r := explore.ExploreProcess(cmd, nil, opts)
	fmt.Print(r.Summary())
	fmt.Printf("rate: %.0f executions/s with %d workers\n", float64(r.Executions)/r.Elapsed.Seconds(), *workers)
	if len(r.Deadlocks) > 0 {
		d := r.Deadlocks[0]
		fmt.Printf("\nminimal deadlock: schedule %v (%d preemptions).  Replaying it twice:\n", d.Choices, d.Preemptions)
		a := gs.ReplayProcess(cmd, nil, opts, d.Choices)
		b := gs.ReplayProcess(cmd, nil, opts, d.Choices)
		fmt.Printf("  replay 1: deadlock=%v blocked=%v\n  replay 2 identical: %v\n", a.Deadlock, a.Blocked, reflect.DeepEqual(a, b))
		fmt.Printf("  reproduce by hand: VERIF_SCHED=%s VERIF_SCHED_OUT=/dev/stderr %s -input-file %s\n", join(d.Choices), bin, input)
	}
}

func join(c []int) string {
	s := ""
	for i, v := range c {
		if i > 0 {
			s += ","
		}
		s += fmt.Sprint(v)
	}
	return s
}
