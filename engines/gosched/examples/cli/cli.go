//go:build gosched

// Package cli holds the flag handling shared by the example harnesses.
// The examples import the gs shim through its overlay path, so they only build
// with  -tags gosched -overlay <overlay.json>.
package cli

import (
	"encoding/json"
	"flag"
	"fmt"
	"os"
	"time"

	gs "github.com/BondMachineHQ/BondMachine/pkg/zzgs"
)

var (
	bound    = flag.Int("bound", 2, "maximum number of preemptions")
	maxExec  = flag.Int("maxexec", 0, "cap on executions (0 = none)")
	deadline = flag.Duration("deadline", 5*time.Minute, "wall clock cap")
	shard    = flag.String("shard", "", "k/n: explore only first-level subtrees i with i%n==k")
	shardD   = flag.Int("sharddepth", 0, "DFS depth at which subtrees are dealt to shards (0 = default)")
	sites    = flag.Bool("sites", false, "record the source position of every pending operation (slower)")
	asJSON   = flag.Bool("json", false, "print the report as JSON (for gs.Merge by a parent process)")
	Replay   = flag.String("replay", "", "comma separated choices: replay one schedule twice instead of exploring")
)

// Options parses the flags.
func Options() gs.Options {
	flag.Parse()
	o := gs.Options{MaxPreemptions: *bound, MaxExecutions: *maxExec, Deadline: *deadline, ShardDepth: *shardD, Sites: *sites}
	if *shard != "" {
		if _, err := fmt.Sscanf(*shard, "%d/%d", &o.ShardK, &o.ShardN); err != nil {
			fmt.Fprintln(os.Stderr, "bad -shard:", err)
			os.Exit(2)
		}
	}
	return o
}

// Choices parses -replay.
func Choices() []int {
	var c []int
	n, have := 0, false
	for _, r := range *Replay + "," {
		if r >= '0' && r <= '9' {
			n, have = n*10+int(r-'0'), true
		} else if have {
			c = append(c, n)
			n, have = 0, false
		}
	}
	return c
}

// Print prints the report.
func Print(r gs.Report) {
	if *asJSON {
		json.NewEncoder(os.Stdout).Encode(r)
		return
	}
	fmt.Print(r.Summary())
	if r.Elapsed > 0 {
		fmt.Printf("rate: %.0f executions/s\n", float64(r.Executions)/r.Elapsed.Seconds())
	}
}

// PrintLeaks prints the leaked goroutines of the first schedule of every outcome.
func PrintLeaks(r gs.Report) {
	if *asJSON {
		return
	}
	for k, o := range r.FirstOfEachOutcome {
		if len(o.Leaked) == 0 {
			continue
		}
		if len(k) > 60 {
			k = k[:60] + "..."
		}
		fmt.Printf("leaked goroutines in schedule %v (outcome %q):\n", o.Choices, k)
		for _, g := range o.Leaked {
			fmt.Printf("    %s\n", g)
		}
	}
}
