#!/bin/sh
# End-to-end examples of the gosched model checker on the real repository code.
# Usage: sh /verif/engines/gosched/run-examples.sh [scratch-dir]
# Every step re-reads /repo's working tree, so edits to /repo are picked up.
cd /verif && . /verif/env.sh
set -e
OV=${1:-/tmp/gs.ov}
rm -rf "$OV"
TARGETS="pkg/bondmachine pkg/procbuilder pkg/bondgo pkg/bmreqs pkg/simbox pkg/basm cmd/bondgo cmd/simfinetune"

echo "### 1. instrument ($TARGETS)"
go run ./engines/gosched/cmd/gsinstr -out "$OV" $TARGETS

echo "### 2. the instrumented target packages compile"
(cd /repo && go build -overlay "$OV/overlay.json" ./pkg/bondmachine ./pkg/procbuilder ./pkg/bondgo ./pkg/bmreqs ./pkg/simbox ./pkg/basm ./cmd/bondgo ./cmd/simfinetune ./pkg/zzgs)

echo "### 3. build the harnesses (module verif, same overlay, tag gosched)"
go build -tags gosched -overlay "$OV/overlay.json" -o "$OV/bmreqs" ./engines/gosched/examples/bmreqs
go build -tags gosched -overlay "$OV/overlay.json" -o "$OV/vmstep" ./engines/gosched/examples/vmstep
go build -o "$OV/bondgoproc" ./engines/gosched/examples/bondgoproc
go build -o "$OV/gsshards" ./engines/gosched/cmd/gsshards

echo "### (i) pkg/bmreqs: NewReqRoot + 2 Requirement + Close, bound 2"
timeout 600 "$OV/bmreqs" -mode basic -bound 2
echo "### (i-b) pkg/bmreqs: two concurrent clients, bound 2"
timeout 600 "$OV/bmreqs" -mode clients -bound 2
echo "### (i-c) pkg/bmreqs: OpClone racing with OpGet and Close, bound 2"
timeout 600 "$OV/bmreqs" -mode clone -bound 2

echo "### (ii) pkg/bondmachine: 2 processors, 2 x VM.Step, bound 2"
timeout 600 "$OV/vmstep" -procs 2 -steps 2 -bound 2
echo "### (ii-b) same, 3 processors, 3 steps, bound 4, 16 shard processes"
timeout 900 "$OV/gsshards" -n 16 -- "$OV/vmstep" -hoist -procs 3 -steps 3 -bound 4 | grep -v '^  x'

echo "### (iii) cmd/bondgo: one process per schedule, bound 1"
timeout 900 "$OV/bondgoproc" -bound 1
