// Package explore is the parent-side convenience layer of gosched: it
// instruments and builds target packages and drives whole-program (process per
// schedule) and sharded (process per subtree) explorations.
//
// It is built WITHOUT the overlay and uses the gs package under its real
// import path verif/engines/gosched/gs (the types are the same source as the
// overlay copy github.com/BondMachineHQ/BondMachine/pkg/zzgs).
package explore

import (
	"bytes"
	"encoding/json"
	"fmt"
	"os"
	"os/exec"
	"path/filepath"
	"sync"

	"verif/engines/gosched/gs"
	"verif/engines/gosched/instrument"
)

// Repo is the target module root; GsDir the shim sources.
var (
	Repo  = "/repo"
	GsDir = "/verif/engines/gosched/gs"
)

// goEnv is the offline Go environment of /verif/env.sh.
func goEnv() []string {
	env := os.Environ()
	set := func(k, v string) {
		if os.Getenv(k) == "" {
			env = append(env, k+"="+v)
		}
	}
	set("GOFLAGS", "-mod=mod")
	set("GOPROXY", "off")
	set("GOSUMDB", "off")
	set("GOTOOLCHAIN", "local")
	set("GOCACHE", "/verif/.cache/go-build")
	return env
}

// Instrument rewrites the given repo relative package directories into outDir
// and returns the overlay description.
func Instrument(outDir string, dirs ...string) (*instrument.Result, error) {
	return instrument.Run(instrument.Config{Repo: Repo, Dirs: dirs, Out: outDir, GsDir: GsDir})
}

// BuildRepoCmd builds the command in repo relative directory pkgDir (for
// instance "cmd/bondgo") with the overlay into outBin.
func BuildRepoCmd(overlay, pkgDir, outBin string) error {
	c := exec.Command("go", "build", "-overlay", overlay, "-o", outBin, "./"+pkgDir)
	c.Dir = Repo
	c.Env = goEnv()
	if out, err := c.CombinedOutput(); err != nil {
		return fmt.Errorf("go build %s: %v\n%s", pkgDir, err, out)
	}
	return nil
}

// BuildHarness builds a harness package of module verif (for instance
// "./engines/gosched/examples/vmstep") with the overlay and the gosched tag.
func BuildHarness(overlay, pkg, outBin string) error {
	c := exec.Command("go", "build", "-tags", "gosched", "-overlay", overlay, "-o", outBin, pkg)
	c.Dir = "/verif"
	c.Env = goEnv()
	if out, err := c.CombinedOutput(); err != nil {
		return fmt.Errorf("go build %s: %v\n%s", pkg, err, out)
	}
	return nil
}

// ExploreProcess is gs.ExploreProcess.
func ExploreProcess(cmd []string, env []string, opts gs.ProcOptions) gs.Report {
	return gs.ExploreProcess(cmd, env, opts)
}

// RunShards runs n copies of an in-process harness in parallel.  Copy k gets
// the extra arguments  -shard k/n -json  and must print its gs.Report as JSON
// on stdout (see examples/cli).  The merged report is returned.
func RunShards(cmd []string, n int) (gs.Report, error) {
	reps := make([]gs.Report, n)
	errs := make([]error, n)
	var wg sync.WaitGroup
	for k := 0; k < n; k++ {
		wg.Add(1)
		go func(k int) {
			defer wg.Done()
			args := append(append([]string{}, cmd[1:]...), "-shard", fmt.Sprintf("%d/%d", k, n), "-json")
			c := exec.Command(cmd[0], args...)
			var out, errb bytes.Buffer
			c.Stdout, c.Stderr = &out, &errb
			if err := c.Run(); err != nil {
				errs[k] = fmt.Errorf("shard %d: %v\n%s", k, err, errb.String())
				return
			}
			errs[k] = json.Unmarshal(out.Bytes(), &reps[k])
		}(k)
	}
	wg.Wait()
	for _, e := range errs {
		if e != nil {
			return gs.Report{}, e
		}
	}
	return gs.Merge(reps...), nil
}

// TempDir creates a scratch directory under /tmp.
func TempDir(prefix string) string {
	d, err := os.MkdirTemp("", prefix)
	if err != nil {
		panic(err)
	}
	return filepath.Clean(d)
}
