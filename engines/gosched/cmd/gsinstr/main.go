// gsinstr instruments packages of the target repository for the gosched model
// checker and writes a go build overlay.
//
//	gsinstr -out /tmp/gs.ov pkg/bmreqs pkg/bondmachine cmd/bondgo ...
//	cd /verif && go build -overlay /tmp/gs.ov/overlay.json ...
package main

import (
	"flag"
	"fmt"
	"os"
	"sort"
	"time"

	"verif/engines/gosched/instrument"
)

func main() {
	repo := flag.String("repo", "/repo", "root of the target module")
	out := flag.String("out", "", "scratch directory for the rewritten files and overlay.json (required)")
	gsdir := flag.String("gs", "/verif/engines/gosched/gs", "directory of the gs shim sources")
	shim := flag.String("shim", "pkg/zzgs", "repo relative directory at which the shim is injected")
	quiet := flag.Bool("q", false, "print only the overlay path")
	flag.Parse()
	if *out == "" || flag.NArg() == 0 {
		fmt.Fprintln(os.Stderr, "usage: gsinstr -out DIR [-repo /repo] pkgdir...")
		os.Exit(2)
	}
	t0 := time.Now()
	res, err := instrument.Run(instrument.Config{Repo: *repo, Dirs: flag.Args(), Out: *out, GsDir: *gsdir, ShimRel: *shim})
	if err != nil {
		fmt.Fprintln(os.Stderr, "gsinstr:", err)
		os.Exit(1)
	}
	if *quiet {
		fmt.Println(res.Overlay)
		return
	}
	fmt.Printf("overlay: %s\nshim import path: %s\nparsed %d files, rewrote %d, in %v\n", res.Overlay, res.ShimPath, res.Parsed, res.Rewritten, time.Since(t0).Round(time.Millisecond))
	var ks []string
	for k := range res.Counts {
		ks = append(ks, k)
	}
	sort.Strings(ks)
	for _, k := range ks {
		fmt.Printf("  %-22s %d\n", k, res.Counts[k])
	}
	for _, w := range res.Warnings {
		fmt.Println("warning:", w)
	}
}
