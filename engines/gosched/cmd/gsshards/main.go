// gsshards runs an in-process harness as N parallel OS processes, each
// exploring the first-level DFS subtrees i with i%N == k, and merges the
// reports.  The harness must accept  -shard k/n -json  (see examples/cli).
//
//	gsshards -n 16 -- /tmp/gs.ov/vmstep -bound 3 -procs 3 -hoist
package main

import (
	"flag"
	"fmt"
	"os"
	"runtime"
	"time"

	"verif/engines/gosched/explore"
)

func main() {
	n := flag.Int("n", runtime.NumCPU(), "number of shards / processes")
	flag.Parse()
	if flag.NArg() == 0 {
		fmt.Fprintln(os.Stderr, "usage: gsshards [-n N] -- harness args...")
		os.Exit(2)
	}
	t0 := time.Now()
	r, err := explore.RunShards(flag.Args(), *n)
	if err != nil {
		fmt.Fprintln(os.Stderr, err)
		os.Exit(1)
	}
	wall := time.Since(t0)
	fmt.Print(r.Summary())
	fmt.Printf("shards=%d wall=%v aggregate rate: %.0f executions/s\n", *n, wall.Round(time.Millisecond), float64(r.Executions)/wall.Seconds())
}
