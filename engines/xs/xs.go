// Package xs is a small explicit-state explorer: level-synchronous parallel BFS with a visited
// set keyed by canonical state strings, parent pointers (shortest counterexamples), depth and
// state caps that are reported (never silently treated as exhaustive).
package xs

import (
	"crypto/sha256"
	"runtime"
	"sync"
	"time"
)

type Edge[S any] struct {
	Label string
	Next  S
}

type Explorer[S any] struct {
	// Key returns the canonical form of a state (states with equal keys must have equal futures).
	Key func(S) string
	// Succ enumerates all successors of s. id is the state's number (use Path(id) for its history).
	// It is called concurrently from several goroutines on different states.
	Succ func(id int, s S) []Edge[S]
	// OnState, if set, is called once per distinct state (sequentially).
	OnState func(id int, s S)

	MaxDepth  int           // 0 = unbounded
	MaxStates int           // 0 = unbounded
	Deadline  time.Duration // 0 = none
	Workers   int
	KeepGraph bool // store edges (for post-pass graph analyses)

	// results
	States      int
	Transitions int
	Depth       int
	CapHit      string // "" when the reachable space (within MaxDepth) was fully explored
	DepthBound  bool   // true when MaxDepth cut off successors that were still new

	parent []int32
	plabel []string
	index  map[[16]byte]int32 // 128-bit hash compaction of the canonical key
	Graph  [][]GEdge          // when KeepGraph: per state, outgoing edges
	states []S                // kept only when KeepGraph
}

type GEdge struct {
	Label string
	To    int32
}

func (e *Explorer[S]) Path(id int) []string {
	var rev []string
	for id > 0 {
		rev = append(rev, e.plabel[id])
		id = int(e.parent[id])
	}
	for i, j := 0, len(rev)-1; i < j; i, j = i+1, j-1 {
		rev[i], rev[j] = rev[j], rev[i]
	}
	return rev
}

func (e *Explorer[S]) StateOf(id int) S { return e.states[id] }

func hk(key string) [16]byte {
	h := sha256.Sum256([]byte(key))
	var o [16]byte
	copy(o[:], h[:16])
	return o
}

func (e *Explorer[S]) Lookup(key string) (int, bool) {
	v, ok := e.index[hk(key)]
	return int(v), ok
}

type item[S any] struct {
	id int
	s  S
}

func (e *Explorer[S]) Run(inits ...S) {
	start := time.Now()
	if e.Workers <= 0 {
		e.Workers = runtime.NumCPU()
	}
	e.index = map[[16]byte]int32{}
	var frontier []item[S]
	add := func(s S, key string, parent int, label string) (int, bool) {
		h := hk(key)
		if id, ok := e.index[h]; ok {
			return int(id), false
		}
		id := len(e.parent)
		e.index[h] = int32(id)
		e.parent = append(e.parent, int32(parent))
		e.plabel = append(e.plabel, label)
		if e.KeepGraph {
			e.Graph = append(e.Graph, nil)
			e.states = append(e.states, s)
		}
		e.States++
		if e.OnState != nil {
			e.OnState(id, s)
		}
		return id, true
	}
	for _, s := range inits {
		if id, fresh := add(s, e.Key(s), 0, "init"); fresh {
			frontier = append(frontier, item[S]{id, s})
		}
	}
	depth := 0
	for len(frontier) > 0 {
		if e.MaxDepth > 0 && depth >= e.MaxDepth {
			e.DepthBound = true
			break
		}
		type res struct {
			from  int
			edges []Edge[S]
			keys  []string
		}
		var next []item[S]
		stop := false
		// the deadline and the state cap are looked at between batches: a small batch keeps a cut close to its budget
		// (state numbering does not depend on the batch size: batches are merged in frontier order)
		const batch = 1024
		for b0 := 0; b0 < len(frontier) && !stop; b0 += batch {
			b1 := b0 + batch
			if b1 > len(frontier) {
				b1 = len(frontier)
			}
			fr := frontier[b0:b1]
			results := make([]res, len(fr))
			var wg sync.WaitGroup
			chunk := (len(fr) + e.Workers - 1) / e.Workers
			for w := 0; w < e.Workers; w++ {
				lo, hi := w*chunk, (w+1)*chunk
				if lo >= len(fr) {
					break
				}
				if hi > len(fr) {
					hi = len(fr)
				}
				wg.Add(1)
				go func(lo, hi int) {
					defer wg.Done()
					for i := lo; i < hi; i++ {
						ed := e.Succ(fr[i].id, fr[i].s)
						keys := make([]string, len(ed))
						for k := range ed {
							keys[k] = e.Key(ed[k].Next)
						}
						results[i] = res{fr[i].id, ed, keys}
					}
				}(lo, hi)
			}
			wg.Wait()
			for _, r := range results {
				for k, ed := range r.edges {
					e.Transitions++
					id, fresh := add(ed.Next, r.keys[k], r.from, ed.Label)
					if e.KeepGraph {
						e.Graph[r.from] = append(e.Graph[r.from], GEdge{ed.Label, int32(id)})
					}
					if fresh {
						next = append(next, item[S]{id, ed.Next})
					}
				}
				if e.MaxStates > 0 && e.States >= e.MaxStates {
					e.CapHit = "max_states"
					stop = true
					break
				}
			}
			if e.Deadline > 0 && time.Since(start) > e.Deadline && b1 < len(frontier) {
				e.CapHit = "deadline"
				stop = true
			}
		}
		depth++
		e.Depth = depth
		if stop {
			break
		}
		if e.Deadline > 0 && time.Since(start) > e.Deadline {
			if len(next) > 0 {
				e.CapHit = "deadline"
			}
			break
		}
		frontier = next
	}
	if e.DepthBound && e.CapHit == "" {
		// depth bound reached with a non-empty frontier: complete up to MaxDepth only
		e.CapHit = ""
	}
}

// Exhaustive reports whether the exploration was complete within its declared depth bound.
func (e *Explorer[S]) Exhaustive() bool { return e.CapHit == "" }

// Closed reports whether the full reachable state space was covered (no bound cut anything).
func (e *Explorer[S]) Closed() bool { return e.CapHit == "" && !e.DepthBound }
