#!/usr/bin/env python3
"""Generate the mapctl runtime overlay: patched copies of runtime/map.go and runtime/alg.go (+ an
added file runtime/verifmap.go) that make every map-iteration start point and every map hash seed
a function of the environment variable VERIF_MAP, and log the range-over-map sites to the fd in
VERIF_MAPDUMP.   usage: gen.py <outdir>   -> writes <outdir>/overlay.json
"""
import json, os, subprocess, sys
out = sys.argv[1]
os.makedirs(out, exist_ok=True)
goroot = subprocess.check_output(['go', 'env', 'GOROOT'], text=True).strip()
rt = os.path.join(goroot, 'src', 'runtime')
m = open(os.path.join(rt, 'map.go')).read()
old = "\tr := uintptr(rand())\n\tit.startBucket = r & bucketMask(h.B)"
assert m.count(old) == 1, "mapiterinit start point not found"
m = m.replace(old, "\tr := verifMapStart(getcallerpc(), h)\n\tit.startBucket = r & bucketMask(h.B)")
n = m.count("hash0 = uint32(rand())")
assert n >= 3, n
m = m.replace("hash0 = uint32(rand())", "hash0 = verifHash0()")
a = open(os.path.join(rt, 'alg.go')).read()
assert a.count("key[i] = bootstrapRand()") == 1 and a.count("hashkey[i] = uintptr(bootstrapRand())") == 1
a = a.replace("key[i] = bootstrapRand()", "key[i] = uint64(i)*0x9e3779b97f4a7c15 + 0x1234567")
a = a.replace("hashkey[i] = uintptr(bootstrapRand())", "hashkey[i] = uintptr(i)*0x9e3779b9 + 0x1234567")
hook = r'''
package runtime

// mapctl (verification overlay): map iteration order and hash seeds owned by the harness.
//
// VERIF_MAP="pc=<hex>,ev=<n>,rot=<r>[;pc=...,ev=...,rot=...][;h=<seed>]"
//   default: every range over a map starts at bucket 0 / offset 0 and every map has hash seed 0.
//   pc/ev/rot: the ev-th range (ev=0: every range) executed at return address pc starts at r.
// VERIF_MAPDUMP=<fd>: the first 8 range events of every site are logged as "S <pc> <n> <B> <entries>\n".

type verifRule struct {
	pc  uintptr
	ev  uint32
	rot uintptr
}

var (
	verifLock   mutex
	verifInited bool
	verifRules  [4]verifRule
	verifNRules int
	verifSeed   uint32
	verifDumpFd int32 = -1
	verifSites  [4096]struct {
		pc uintptr
		n  uint32
	}
)

func verifParseUint(s string, base uintptr) (uintptr, bool) {
	if len(s) == 0 {
		return 0, false
	}
	var v uintptr
	for i := 0; i < len(s); i++ {
		c := s[i]
		var d uintptr
		switch {
		case c >= '0' && c <= '9':
			d = uintptr(c - '0')
		case c >= 'a' && c <= 'f' && base == 16:
			d = uintptr(c-'a') + 10
		default:
			return 0, false
		}
		v = v*base + d
	}
	return v, true
}

func verifInit() {
	verifInited = true
	s := gogetenv("VERIF_MAP")
	if d := gogetenv("VERIF_MAPDUMP"); d != "" {
		if v, ok := verifParseUint(d, 10); ok {
			verifDumpFd = int32(v)
		}
	}
	start := 0
	var cur verifRule
	have := false
	flush := func() {
		if have && verifNRules < len(verifRules) {
			verifRules[verifNRules] = cur
			verifNRules++
		}
		cur = verifRule{}
		have = false
	}
	for i := 0; i <= len(s); i++ {
		if i == len(s) || s[i] == ',' || s[i] == ';' {
			f := s[start:i]
			start = i + 1
			if len(f) > 3 && f[:3] == "pc=" {
				if v, ok := verifParseUint(f[3:], 16); ok {
					cur.pc = v
					have = true
				}
			} else if len(f) > 3 && f[:3] == "ev=" {
				if v, ok := verifParseUint(f[3:], 10); ok {
					cur.ev = uint32(v)
				}
			} else if len(f) > 4 && f[:4] == "rot=" {
				if v, ok := verifParseUint(f[4:], 10); ok {
					cur.rot = v
				}
			} else if len(f) > 2 && f[:2] == "h=" {
				if v, ok := verifParseUint(f[2:], 10); ok {
					verifSeed = uint32(v)
				}
			}
			if i == len(s) || s[i] == ';' {
				flush()
			}
		}
	}
}

func verifHash0() uint32 {
	if !verifInited {
		return 0
	}
	return verifSeed
}

func verifPutHex(buf []byte, v uintptr) []byte {
	var tmp [20]byte
	i := len(tmp)
	for {
		i--
		tmp[i] = "0123456789abcdef"[v&15]
		v >>= 4
		if v == 0 {
			break
		}
	}
	return append(buf, tmp[i:]...)
}

func verifMapStart(pc uintptr, h *hmap) uintptr {
	if h.count == 0 {
		return 0 // ranging over an empty map has no observable order
	}
	lock(&verifLock)
	if !verifInited {
		if gogetenv("VERIF_MAP") == "" && gogetenv("VERIF_MAPDUMP") == "" && len(envs) == 0 {
			unlock(&verifLock)
			return 0 // environment not available yet (early runtime init)
		}
		verifInit()
	}
	// site table (open addressing)
	idx := (pc >> 2) % uintptr(len(verifSites))
	var n uint32
	for probe := 0; probe < len(verifSites); probe++ {
		e := &verifSites[idx]
		if e.pc == pc || e.pc == 0 {
			e.pc = pc
			e.n++
			n = e.n
			break
		}
		idx = (idx + 1) % uintptr(len(verifSites))
	}
	var r uintptr
	for i := 0; i < verifNRules; i++ {
		ru := &verifRules[i]
		if ru.pc == pc && (ru.ev == 0 || ru.ev == n) {
			r = ru.rot
		}
	}
	fd := verifDumpFd
	unlock(&verifLock)
	if fd >= 0 && n <= 8 && n > 0 {
		var arr [64]byte
		buf := arr[:0]
		buf = append(buf, 'S', ' ')
		buf = verifPutHex(buf, pc)
		buf = append(buf, ' ')
		buf = verifPutHex(buf, uintptr(n))
		buf = append(buf, ' ')
		buf = verifPutHex(buf, uintptr(h.B))
		buf = append(buf, ' ')
		buf = verifPutHex(buf, uintptr(h.count))
		buf = append(buf, '\n')
		write(uintptr(fd), unsafe.Pointer(&buf[0]), int32(len(buf)))
	}
	return r
}
'''
extra = {}
for fn in ['map_fast32.go', 'map_fast64.go', 'map_faststr.go']:
    t = open(os.path.join(rt, fn)).read()
    assert t.count("hash0 = uint32(rand())") >= 1, fn
    extra[fn] = t.replace("hash0 = uint32(rand())", "hash0 = verifHash0()")
r = open(os.path.join(rt, 'rand.go')).read()
oldr = "func rand32() uint32 {\n\treturn uint32(rand())\n}"
assert r.count(oldr) == 1, "rand32 not found"
extra['rand.go'] = r.replace(oldr, "func rand32() uint32 {\n\treturn verifHash0() // only used by compiler-generated code to seed stack-allocated maps\n}")
hook = hook.replace("package runtime\n", "package runtime\n\nimport \"unsafe\"\n", 1)
open(os.path.join(out, 'map.go'), 'w').write(m)
open(os.path.join(out, 'alg.go'), 'w').write(a)
open(os.path.join(out, 'verifmap.go'), 'w').write(hook)
ov = {"Replace": {os.path.join(rt, 'map.go'): os.path.join(out, 'map.go'),
                  os.path.join(rt, 'alg.go'): os.path.join(out, 'alg.go'),
                  os.path.join(rt, 'verifmap.go'): os.path.join(out, 'verifmap.go')}}
for fn, text in extra.items():
    open(os.path.join(out, fn), 'w').write(text)
    ov["Replace"][os.path.join(rt, fn)] = os.path.join(out, fn)
# ---- owned wall clock ---------------------------------------------------------------------------
# VERIF_CLOCK=<unix seconds>: time.Now() reports that instant at process start and advances with the real
# clock from there (the monotonic reading is untouched). Unset: the real clock.
td = os.path.join(goroot, 'src', 'time')
t = open(os.path.join(td, 'time.go')).read()
oldn = "func Now() Time {\n\tsec, nsec, mono := now()\n"
assert t.count(oldn) == 1, "time.Now not found"
t = t.replace(oldn, "func Now() Time {\n\tsec, nsec, mono := now()\n\tsec += verifClockDelta\n")
open(os.path.join(out, 'time.go'), 'w').write(t)
open(os.path.join(out, 'verifclock.go'), 'w').write('''package time

import "syscall"

// verification overlay: wall clock owned by the harness (see /verif/engines/mapctl/gen.py)
var verifClockDelta int64

func init() {
	s, ok := syscall.Getenv("VERIF_CLOCK")
	if !ok || s == "" {
		return
	}
	var base int64
	for i := 0; i < len(s); i++ {
		if s[i] < '0' || s[i] > '9' {
			return
		}
		base = base*10 + int64(s[i]-'0')
	}
	sec, _, _ := now()
	verifClockDelta = base - sec
}
''')
ov["Replace"][os.path.join(td, 'time.go')] = os.path.join(out, 'time.go')
ov["Replace"][os.path.join(td, 'verifclock.go')] = os.path.join(out, 'verifclock.go')
json.dump(ov, open(os.path.join(out, 'overlay.json'), 'w'), indent=1)
print(os.path.join(out, 'overlay.json'))
