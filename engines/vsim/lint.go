package vsim

import (
	"fmt"
	"sort"
)

// ---- lint symbol tables ----

type lsym struct {
	name     string
	pos      Pos
	dir      string // input output inout
	dirCount int
	dirANSI  bool
	dirTyped bool     // the port declaration carried wire/reg/integer
	types    []string // wire reg integer time (separate declarations)
	isParam  bool
	isGenvar bool
	isFunc   bool
	implicit bool
	local    bool // function / named-block local
	isArray  bool
	hasRange bool
	msb, lsb int
	rangeOK  bool
}

func (s *lsym) isVar() bool {
	for _, t := range s.types {
		if t == "reg" || t == "integer" || t == "time" {
			return true
		}
	}
	return false
}

type lscope struct {
	parent *lscope
	syms   map[string]*lsym
	csc    *scope // constant-evaluation scope (parameters, genvars)
}

func (ls *lscope) lookup(n string) *lsym {
	for s := ls; s != nil; s = s.parent {
		if x, ok := s.syms[n]; ok {
			return x
		}
	}
	return nil
}

type drvRange struct {
	whole   bool
	lo, hi  int
	hasWord bool // array element with a constant (after genvar substitution) word index
	word    int
}

func (a drvRange) overlaps(b drvRange) bool {
	if a.hasWord && b.hasWord && a.word != b.word {
		return false
	}
	if a.whole || b.whole {
		return true
	}
	return a.lo <= b.hi && b.lo <= a.hi
}

type driver struct {
	block int // id of the always block / continuous driver
	r     drvRange
	pos   Pos
}

type linter struct {
	d        *Design
	ext      map[string]bool
	m        *Module
	e        *elab
	diags    []Diag
	seen     map[string]bool
	procDrv  map[*lsym][]driver
	contDrv  map[*lsym][]driver
	nextBlk  int
	curBlk   int
	inProc   bool
	inInit   bool
	inFunc   bool
	loopHead bool
}

func (l *linter) report(class string, pos Pos, ident, format string, a ...interface{}) {
	key := class + "\x00" + l.m.Name + "\x00" + ident
	if l.seen[key] {
		return
	}
	l.seen[key] = true
	l.diags = append(l.diags, Diag{Class: class, File: pos.File, Line: pos.Line, Module: l.m.Name, Ident: ident, Msg: fmt.Sprintf(format, a...)})
}

// Lint checks the whole file set. externalIP names modules that are allowed to be instantiated without a definition.
// Classes reported: undeclared, undefined-module, port-count, assign-kind, multi-driver, duplicate-decl, and "syntax"
// for semantic errors a Verilog-2001 elaborator rejects (e.g. unsized constants in concatenations, reversed part-selects).
func (d *Design) Lint(externalIP map[string]bool) []Diag {
	var out []Diag
	for _, name := range d.order {
		m := d.mods[name]
		if m.Broken != nil {
			continue
		}
		l := &linter{d: d, ext: externalIP, m: m, seen: map[string]bool{}, procDrv: map[*lsym][]driver{}, contDrv: map[*lsym][]driver{}}
		l.run()
		out = append(out, l.diags...)
	}
	sort.SliceStable(out, func(i, j int) bool {
		if out[i].File != out[j].File {
			return out[i].File < out[j].File
		}
		return out[i].Line < out[j].Line
	})
	return out
}

func (l *linter) constInt(ls *lscope, x Expr) (v int, ok bool) {
	if x == nil || ls.csc == nil {
		return 0, false
	}
	defer func() {
		if r := recover(); r != nil {
			if _, isE := r.(elabError); !isE {
				panic(r)
			}
			v, ok = 0, false
		}
	}()
	return l.e.evalConst(ls.csc, x).int(), true
}

func (l *linter) run() {
	m := l.m
	l.e = newElab(l.d)
	csc := &scope{syms: map[string]*symbol{}, mod: m, isMod: true, funcs: map[string]*Function{}, fnInst: map[string]*fnInst{}, fnInstConst: map[string]*fnInst{}}
	for _, it := range m.Items {
		if f, ok := it.(*Function); ok {
			csc.funcs[f.Name] = f
		}
	}
	top := &lscope{syms: map[string]*lsym{}, csc: csc}
	l.declareLevel(top, m.Items, true)
	// ports in the port list must have a direction
	for _, pn := range m.PortNames {
		if s := top.syms[pn]; s == nil || s.dir == "" {
			l.report("undeclared", m.Pos, pn, "port %s of module %s has no input/output/inout declaration", pn, m.Name)
			if s == nil {
				top.syms[pn] = &lsym{name: pn, pos: m.Pos, implicit: true}
			}
		}
	}
	if !m.ANSI {
		inList := map[string]bool{}
		for _, pn := range m.PortNames {
			inList[pn] = true
		}
		for _, s := range top.syms {
			if s.dir != "" && !inList[s.name] {
				l.report("undeclared", s.pos, s.name, "%s %s is not in the port list of module %s", s.dir, s.name, m.Name)
			}
		}
	}
	l.implicitLevel(top, top, m.Items)
	l.checkLevel(top, m.Items)
	l.multiDrivers()
	l.trialElab()
}

// declareLevel enters the declarations of one scope level and reports duplicate declarations.
func (l *linter) declareLevel(ls *lscope, items []Item, isMod bool) {
	for _, it := range items {
		switch x := it.(type) {
		case *Decl:
			l.declare(ls, x)
		case *Function:
			if old := ls.syms[x.Name]; old != nil {
				l.report("duplicate-decl", x.Pos, x.Name, "function %s conflicts with the declaration at line %d", x.Name, old.pos.Line)
			} else {
				ls.syms[x.Name] = &lsym{name: x.Name, pos: x.Pos, isFunc: true}
			}
		}
	}
}

func (l *linter) declare(ls *lscope, d *Decl) {
	for _, dn := range d.Names {
		old := ls.syms[dn.Name]
		s := old
		if s == nil {
			s = &lsym{name: dn.Name, pos: dn.Pos}
			ls.syms[dn.Name] = s
		}
		conflict := func(why string) {
			l.report("duplicate-decl", dn.Pos, dn.Name, "%s: %s (previous declaration at line %d)", dn.Name, why, s.pos.Line)
		}
		switch d.Kind {
		case "parameter", "localparam":
			if old != nil {
				conflict("parameter redeclares an existing identifier")
			}
			s.isParam = true
			// make the value available for constant evaluation
			func() {
				defer func() {
					if r := recover(); r != nil {
						if _, ok := r.(elabError); !ok {
							panic(r)
						}
					}
				}()
				if ls.csc != nil && ls.csc.syms[dn.Name] == nil {
					one := *d
					one.Names = []DeclName{dn}
					l.e.declareParams(ls.csc, &one, nil, nil)
				}
			}()
			continue
		case "genvar":
			if old != nil {
				conflict("genvar redeclares an existing identifier")
			}
			s.isGenvar = true
			if ls.csc != nil {
				ls.csc.syms[dn.Name] = &symbol{kind: symGenvar, name: dn.Name}
			}
			continue
		case "input", "output", "inout":
			if old != nil && (old.isParam || old.isGenvar || old.isFunc) {
				conflict("port redeclares an existing identifier")
				continue
			}
			if s.dirCount > 0 {
				conflict("port direction declared twice")
			}
			if len(s.types) > 0 && d.ANSI {
				conflict("ANSI port redeclares an existing net/variable")
			}
			if len(s.types) > 0 && d.NetType != "" {
				conflict("port declaration with a type redeclares an existing net/variable")
			}
			s.dir = d.Kind
			s.dirCount++
			s.dirANSI = d.ANSI
			if d.NetType != "" {
				s.dirTyped = true
				s.types = append(s.types, d.NetType)
			}
		default: // wire reg integer time
			if old != nil && (old.isParam || old.isGenvar || old.isFunc) {
				conflict("declaration redeclares an existing identifier")
				continue
			}
			switch {
			case s.dirCount > 0 && s.dirANSI:
				conflict("ANSI-style port redeclared as " + d.Kind)
			case s.dirCount > 0 && s.dirTyped:
				conflict("port already completely declared, redeclared as " + d.Kind)
			case s.dirCount > 0 && len(s.types) > 0:
				conflict("port redeclared more than once (" + s.types[0] + ", " + d.Kind + ")")
			case s.dirCount == 0 && len(s.types) > 0:
				conflict("declared as " + s.types[0] + " and again as " + d.Kind)
			}
			if s.dir == "input" && d.Kind != "wire" {
				l.report("assign-kind", dn.Pos, dn.Name, "input port %s declared as %s (an input must be a net)", dn.Name, d.Kind)
			}
			s.types = append(s.types, d.Kind)
		}
		if dn.ArrA != nil {
			s.isArray = true
		}
		if d.MSB != nil {
			s.hasRange = true
			a, ok1 := l.constInt(ls, d.MSB)
			b, ok2 := l.constInt(ls, d.LSB)
			if ok1 && ok2 {
				s.msb, s.lsb, s.rangeOK = a, b, true
			}
		} else if !s.hasRange {
			s.rangeOK = true
			if d.Kind == "integer" || d.NetType == "integer" {
				s.msb = 31
			}
			if d.Kind == "time" || d.NetType == "time" {
				s.msb = 63
			}
		}
	}
}

// implicitLevel creates implicit nets for identifiers used as instance actuals or continuous-assign targets.
func (l *linter) implicitLevel(top, ls *lscope, items []Item) {
	mk := func(x Expr) {
		walkExpr(x, func(n Expr) {
			if id, ok := n.(*Ident); ok && ls.lookup(id.Name) == nil && !l.m.NettypeNone {
				top.syms[id.Name] = &lsym{name: id.Name, pos: id.Pos, implicit: true, types: []string{"wire"}, rangeOK: true}
			}
		})
	}
	for _, it := range items {
		switch x := it.(type) {
		case *ContAssign:
			mk(lvalBase(x.LHS))
		case *Instance:
			for _, cn := range x.Conns {
				if id, ok := cn.X.(*Ident); ok {
					mk(id)
				}
			}
		case *GenFor:
			l.implicitLevel(top, ls, x.Items)
		case *GenIf:
			l.implicitLevel(top, ls, x.Then)
			l.implicitLevel(top, ls, x.Else)
		case *GenBlock:
			l.implicitLevel(top, ls, x.Items)
		}
	}
}

func (l *linter) subScope(ls *lscope) *lscope {
	sub := &lscope{parent: ls, syms: map[string]*lsym{}}
	if ls.csc != nil {
		sub.csc = &scope{parent: ls.csc, syms: map[string]*symbol{}}
	}
	return sub
}

func (l *linter) checkLevel(ls *lscope, items []Item) {
	for _, it := range items {
		switch x := it.(type) {
		case *Decl:
			for _, e := range []Expr{x.MSB, x.LSB} {
				l.useExpr(ls, e)
			}
			for _, dn := range x.Names {
				l.useExpr(ls, dn.ArrA)
				l.useExpr(ls, dn.ArrB)
				l.useExpr(ls, dn.Init)
				if dn.Init != nil && x.Kind == "wire" {
					l.nextBlk++
					l.contDrive(ls, &Ident{Pos: dn.Pos, Name: dn.Name}, l.nextBlk)
				}
			}
		case *ContAssign:
			l.nextBlk++
			l.useLHSIndices(ls, x.LHS)
			l.contDrive(ls, x.LHS, l.nextBlk)
			l.useExpr(ls, x.RHS)
		case *Always:
			for _, ev := range x.Events {
				l.useExpr(ls, ev.X)
			}
			l.nextBlk++
			l.curBlk = l.nextBlk
			l.inProc, l.inInit = true, false
			l.stmt(ls, x.Body)
			l.inProc = false
		case *Initial:
			l.inProc, l.inInit = true, true
			l.stmt(ls, x.Body)
			l.inProc, l.inInit = false, false
		case *Function:
			fs := l.subScope(ls)
			fs.syms[x.Name] = &lsym{name: x.Name, pos: x.Pos, types: []string{"reg"}, local: true, rangeOK: false}
			for _, d := range x.Decls {
				dd := *d
				if d.Kind == "input" {
					dd.Kind = "reg"
					if d.NetType == "integer" || d.NetType == "time" {
						dd.Kind = d.NetType
					}
					dd.NetType = ""
				}
				l.declare(fs, &dd)
				for _, dn := range dd.Names {
					if s := fs.syms[dn.Name]; s != nil {
						s.local = true
					}
				}
				l.useExpr(ls, d.MSB)
				l.useExpr(ls, d.LSB)
			}
			l.useExpr(ls, x.MSB)
			l.useExpr(ls, x.LSB)
			l.inProc, l.inFunc, l.inInit = true, true, true
			l.stmt(fs, x.Body)
			l.inProc, l.inFunc, l.inInit = false, false, false
		case *Instance:
			l.instance(ls, x)
		case *GenFor:
			l.genFor(ls, x)
		case *GenIf:
			l.useExpr(ls, x.Cond)
			for _, body := range [][]Item{x.Then, x.Else} {
				if body == nil {
					continue
				}
				sub := l.subScope(ls)
				l.declareLevel(sub, body, false)
				l.checkLevel(sub, body)
			}
		case *GenBlock:
			sub := l.subScope(ls)
			l.declareLevel(sub, x.Items, false)
			l.checkLevel(sub, x.Items)
		}
	}
}

func (l *linter) genFor(ls *lscope, g *GenFor) {
	gv := ls.lookup(g.Var)
	if gv == nil || !gv.isGenvar {
		l.report("undeclared", g.Pos, g.Var, "genvar %s is not declared", g.Var)
	}
	// try to unroll with default parameter values
	unrolled := false
	if ls.csc != nil {
		func() {
			defer func() {
				if r := recover(); r != nil {
					if _, ok := r.(elabError); !ok {
						panic(r)
					}
				}
			}()
			cur := castConst(l.e.evalConst(ls.csc, g.Init), 32, true)
			type iter struct{ v constVal }
			var iters []iter
			for n := 0; n <= 256; n++ {
				sub := &scope{parent: ls.csc, syms: map[string]*symbol{}}
				cv := cur
				sub.syms[g.Var] = &symbol{kind: symParam, name: g.Var, val: &cv, width: 32, signed: true, msb: 31}
				if wisZero(l.e.evalConst(sub, g.Cond).v) {
					for _, it := range iters {
						s := l.subScope(ls)
						v := it.v
						s.csc.syms[g.Var] = &symbol{kind: symParam, name: g.Var, val: &v, width: 32, signed: true, msb: 31}
						s.syms[g.Var] = &lsym{name: g.Var, isParam: true}
						l.declareLevel(s, g.Items, false)
						l.checkLevel(s, g.Items)
					}
					unrolled = true
					return
				}
				iters = append(iters, iter{cur})
				cur = castConst(l.e.evalConst(sub, g.Step), 32, true)
			}
		}()
	}
	if !unrolled {
		s := l.subScope(ls)
		s.csc = nil
		s.syms[g.Var] = &lsym{name: g.Var, isParam: true}
		l.declareLevel(s, g.Items, false)
		l.checkLevel(s, g.Items)
	}
	l.useExpr(ls, g.Init)
}

func (l *linter) instance(ls *lscope, x *Instance) {
	for _, p := range x.Params {
		l.useExpr(ls, p.X)
	}
	for _, cn := range x.Conns {
		l.useExpr(ls, cn.X)
	}
	m := l.d.mods[x.Mod]
	if m == nil {
		if !l.ext[x.Mod] {
			l.report("undefined-module", x.Pos, x.Mod, "module %s (instance %s) is not defined in the file set", x.Mod, x.Name)
		}
		return
	}
	if m.Broken != nil {
		return
	}
	dirs := map[string]string{}
	for _, it := range m.Items {
		if d, ok := it.(*Decl); ok && (d.Kind == "input" || d.Kind == "output" || d.Kind == "inout") {
			for _, dn := range d.Names {
				dirs[dn.Name] = d.Kind
			}
		}
	}
	l.nextBlk++
	blk := l.nextBlk
	connect := func(port string, cn Conn) {
		if cn.X == nil {
			return
		}
		if dr := dirs[port]; dr == "output" {
			l.contDriveFrom(ls, cn.X, blk, fmt.Sprintf("output port %s of instance %s", port, x.Name))
		}
	}
	if x.NamedConns {
		seen := map[string]bool{}
		for _, cn := range x.Conns {
			found := false
			for _, pn := range m.PortNames {
				if pn == cn.Name {
					found = true
				}
			}
			if !found {
				l.report("port-count", cn.Pos, x.Name, "instance %s: module %s has no port named %s", x.Name, m.Name, cn.Name)
				continue
			}
			if seen[cn.Name] {
				l.report("port-count", cn.Pos, x.Name, "instance %s: port %s connected more than once", x.Name, cn.Name)
			}
			seen[cn.Name] = true
			connect(cn.Name, cn)
		}
	} else {
		if len(x.Conns) != len(m.PortNames) && len(x.Conns) != 0 {
			l.report("port-count", x.Pos, x.Name, "instance %s of %s has %d positional connections but the module has %d ports",
				x.Name, m.Name, len(x.Conns), len(m.PortNames))
		}
		for i, cn := range x.Conns {
			if i < len(m.PortNames) {
				connect(m.PortNames[i], cn)
			}
		}
	}
	// parameter overrides
	var pnames []string
	for _, it := range m.Items {
		if d, ok := it.(*Decl); ok && d.Kind == "parameter" {
			for _, dn := range d.Names {
				pnames = append(pnames, dn.Name)
			}
		}
	}
	if x.NamedParams {
		for _, p := range x.Params {
			found := false
			for _, n := range pnames {
				if n == p.Name {
					found = true
				}
			}
			if !found {
				l.report("port-count", p.Pos, x.Name, "instance %s: module %s has no parameter named %s", x.Name, m.Name, p.Name)
			}
		}
	} else if len(x.Params) > len(pnames) {
		l.report("port-count", x.Pos, x.Name, "instance %s: %d positional parameter overrides but module %s has %d parameters",
			x.Name, len(x.Params), m.Name, len(pnames))
	}
}

// useExpr checks every identifier read in an expression.
func (l *linter) useExpr(ls *lscope, x Expr) {
	walkExpr(x, func(n Expr) {
		switch v := n.(type) {
		case *Ident:
			if ls.lookup(v.Name) == nil {
				l.report("undeclared", v.Pos, v.Name, "identifier %s is not declared in module %s", v.Name, l.m.Name)
			}
		case *Call:
			if !v.Sys {
				if s := ls.lookup(v.Name); s == nil || !s.isFunc {
					l.report("undeclared", v.Pos, v.Name, "function %s is not declared in module %s", v.Name, l.m.Name)
				}
			}
		case *Concat:
			for _, p := range v.Parts {
				if num, ok := p.(*Num); ok && num.Width == 0 {
					l.report("syntax", num.Pos, "", "unsized constant in concatenation")
				}
			}
		}
	})
}

// useLHSIndices checks the index expressions of an assignment target (they are reads).
func (l *linter) useLHSIndices(ls *lscope, x Expr) {
	switch v := x.(type) {
	case *Index:
		l.useLHSIndices(ls, v.X)
		l.useExpr(ls, v.I)
	case *RangeSel:
		l.useLHSIndices(ls, v.X)
		l.useExpr(ls, v.A)
		l.useExpr(ls, v.B)
	case *Concat:
		for _, p := range v.Parts {
			l.useLHSIndices(ls, p)
		}
	}
}

// target decomposes an lvalue piece into its symbol and the driven range.
func (l *linter) target(ls *lscope, x Expr) (name string, pos Pos, r drvRange, ok bool) {
	switch v := x.(type) {
	case *Ident:
		return v.Name, v.Pos, drvRange{whole: true}, true
	case *Index:
		id, isID := v.X.(*Ident)
		if !isID {
			// mem[i][b]
			if in, ok2 := v.X.(*Index); ok2 {
				if id2, ok3 := in.X.(*Ident); ok3 {
					return id2.Name, id2.Pos, l.wordRange(ls, in.I), true
				}
			}
			return "", Pos{}, drvRange{}, false
		}
		s := ls.lookup(id.Name)
		if s != nil && s.isArray {
			return id.Name, id.Pos, l.wordRange(ls, v.I), true
		}
		if i, okc := l.constInt(ls, v.I); okc {
			return id.Name, id.Pos, drvRange{lo: i, hi: i}, true
		}
		return id.Name, id.Pos, drvRange{whole: true}, true
	case *RangeSel:
		id, isID := v.X.(*Ident)
		if !isID {
			if in, ok2 := v.X.(*Index); ok2 {
				if id2, ok3 := in.X.(*Ident); ok3 {
					return id2.Name, id2.Pos, l.wordRange(ls, in.I), true
				}
			}
			return "", Pos{}, drvRange{}, false
		}
		a, ok1 := l.constInt(ls, v.A)
		b, ok2 := l.constInt(ls, v.B)
		if ok1 && ok2 {
			switch v.Kind {
			case 0:
				if a < b {
					a, b = b, a
				}
				return id.Name, id.Pos, drvRange{lo: b, hi: a}, true
			case 1, 2:
				s := ls.lookup(id.Name)
				if s != nil && s.rangeOK && b > 0 {
					desc := s.msb >= s.lsb
					var lo, hi int
					if (v.Kind == 1) == desc {
						lo, hi = a, a+b-1
					} else {
						lo, hi = a-b+1, a
					}
					return id.Name, id.Pos, drvRange{lo: lo, hi: hi}, true
				}
			}
		}
		return id.Name, id.Pos, drvRange{whole: true}, true
	}
	return "", Pos{}, drvRange{}, false
}

// wordRange is the driven range of an array element write: all bits of one word when the word index is a
// constant (after genvar substitution), the whole array otherwise.
func (l *linter) wordRange(ls *lscope, idx Expr) drvRange {
	if w, ok := l.constInt(ls, idx); ok {
		return drvRange{whole: true, hasWord: true, word: w}
	}
	return drvRange{whole: true}
}

func (l *linter) eachTarget(x Expr, f func(Expr)) {
	if c, ok := x.(*Concat); ok {
		for _, p := range c.Parts {
			l.eachTarget(p, f)
		}
		return
	}
	f(x)
}

func (l *linter) contDrive(ls *lscope, lhs Expr, blk int) {
	l.contDriveFrom(ls, lhs, blk, "continuous assignment")
}

func (l *linter) contDriveFrom(ls *lscope, lhs Expr, blk int, what string) {
	l.eachTarget(lhs, func(t Expr) {
		name, pos, r, ok := l.target(ls, t)
		if !ok {
			return
		}
		s := ls.lookup(name)
		if s == nil {
			l.report("undeclared", pos, name, "identifier %s is not declared in module %s", name, l.m.Name)
			return
		}
		if s.isParam || s.isGenvar || s.isFunc {
			l.report("assign-kind", pos, name, "%s drives %s, which is not a net", what, name)
			return
		}
		if s.isVar() {
			l.report("assign-kind", pos, name, "%s drives %s, which is a variable (reg/integer); only procedural assignments may assign it", what, name)
			return
		}
		if s.dir == "input" {
			l.report("assign-kind", pos, name, "%s drives input port %s", what, name)
		}
		l.contDrv[s] = append(l.contDrv[s], driver{block: blk, r: r, pos: pos})
	})
}

func (l *linter) procAssign(ls *lscope, lhs Expr) {
	l.useLHSIndices(ls, lhs)
	l.eachTarget(lhs, func(t Expr) {
		name, pos, r, ok := l.target(ls, t)
		if !ok {
			return
		}
		s := ls.lookup(name)
		if s == nil {
			l.report("undeclared", pos, name, "identifier %s is not declared in module %s", name, l.m.Name)
			return
		}
		if s.isParam || s.isGenvar || (s.isFunc && !l.inFunc) {
			l.report("assign-kind", pos, name, "procedural assignment to %s, which is not a variable", name)
			return
		}
		if !s.isVar() && !s.isFunc {
			kind := "net"
			if s.implicit {
				kind = "implicit net"
			} else if s.dir != "" {
				kind = s.dir + " port without reg"
			}
			l.report("assign-kind", pos, name, "procedural assignment to %s, which is a %s", name, kind)
			return
		}
		if l.inInit || l.inFunc || s.local || l.loopHead {
			return
		}
		l.procDrv[s] = append(l.procDrv[s], driver{block: l.curBlk, r: r, pos: pos})
	})
}

func (l *linter) stmt(ls *lscope, st Stmt) {
	switch x := st.(type) {
	case *Block:
		sc := ls
		if len(x.Decls) > 0 {
			sc = l.subScope(ls)
			for _, d := range x.Decls {
				l.declare(sc, d)
				for _, dn := range d.Names {
					if s := sc.syms[dn.Name]; s != nil {
						s.local = true
					}
				}
			}
		}
		for _, s := range x.Stmts {
			l.stmt(sc, s)
		}
	case *If:
		l.useExpr(ls, x.C)
		l.stmt(ls, x.Then)
		l.stmt(ls, x.Else)
	case *Case:
		l.useExpr(ls, x.X)
		for _, it := range x.Items {
			for _, lb := range it.Labels {
				l.useExpr(ls, lb)
			}
			l.stmt(ls, it.Body)
		}
	case *For:
		l.loopHead = true
		l.stmt(ls, x.Init)
		l.stmt(ls, x.Step)
		l.loopHead = false
		l.useExpr(ls, x.Cond)
		l.stmt(ls, x.Body)
	case *While:
		l.useExpr(ls, x.Cond)
		l.stmt(ls, x.Body)
	case *RepeatStmt:
		l.useExpr(ls, x.Count)
		l.stmt(ls, x.Body)
	case *AssignStmt:
		l.procAssign(ls, x.LHS)
		l.useExpr(ls, x.RHS)
	case *SysTask:
		for _, a := range x.Args {
			if _, isStr := a.(*Str); !isStr {
				l.useExpr(ls, a)
			}
		}
	}
}

func (l *linter) multiDrivers() {
	check := func(m map[*lsym][]driver, what string) {
		var syms []*lsym
		for s := range m {
			syms = append(syms, s)
		}
		sort.Slice(syms, func(i, j int) bool { return syms[i].name < syms[j].name })
		for _, s := range syms {
			ds := m[s]
		outer:
			for i := 0; i < len(ds); i++ {
				for j := i + 1; j < len(ds); j++ {
					if ds[i].block != ds[j].block && ds[i].r.overlaps(ds[j].r) {
						l.report("multi-driver", ds[j].pos, s.name, "%s is %s (line %d and line %d)", s.name, what, ds[i].pos.Line, ds[j].pos.Line)
						break outer
					}
				}
			}
		}
	}
	check(l.procDrv, "assigned in more than one always block")
	check(l.contDrv, "driven by more than one continuous assignment / instance output")
}

// trialElab elaborates the module alone (default parameters, instances not descended into) to catch
// semantic errors that the grammar cannot express.
func (l *linter) trialElab() {
	if len(l.m.Unsupported) > 0 {
		return
	}
	defer func() {
		if r := recover(); r != nil {
			ee, ok := r.(elabError)
			if !ok {
				panic(r)
			}
			d := ee.d
			switch d.Class {
			case "syntax", "undeclared", "duplicate-decl":
				if d.Module == "" {
					d.Module = l.m.Name
				}
				if d.Module == l.m.Name {
					l.report(d.Class, Pos{d.File, d.Line}, d.Ident, "%s", d.Msg)
				}
			}
		}
	}()
	e := newElab(l.d)
	e.shallow = true
	e.elabModule(l.m, "", nil, nil, true)
}
