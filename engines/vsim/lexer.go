package vsim

import (
	"math/big"
	"strings"
)

// Pos is a source position.
type Pos struct {
	File string
	Line int
}

type tokKind int

const (
	tEOF tokKind = iota
	tIdent
	tKeyword
	tSysIdent // $display ...
	tNumber
	tReal
	tString
	tOp
	tDirective // `default_nettype value (text holds value)
)

type token struct {
	kind tokKind
	text string
	pos  Pos
	num  *Num // for tNumber
}

// keywords of Verilog-2001 (IEEE 1364-2001 Annex B).
var keywords = map[string]bool{}

func init() {
	for _, k := range strings.Fields(`always and assign automatic begin buf bufif0 bufif1 case casex casez cell cmos config
deassign default defparam design disable edge else end endcase endconfig endfunction endgenerate endmodule endprimitive
endspecify endtable endtask event for force forever fork function generate genvar highz0 highz1 if ifnone incdir include
initial inout input instance integer join large liblist library localparam macromodule medium module nand negedge nmos nor
noshowcancelled not notif0 notif1 or output parameter pmos posedge primitive pull0 pull1 pulldown pullup pulsestyle_onevent
pulsestyle_ondetect rcmos real realtime reg release repeat rnmos rpmos rtran rtranif0 rtranif1 scalared showcancelled
signed small specify specparam strong0 strong1 supply0 supply1 table task time tran tranif0 tranif1 tri tri0 tri1 triand
trior trireg unsigned use vectored wait wand weak0 weak1 while wire wor xnor xor`) {
		keywords[k] = true
	}
}

type macro struct {
	body string
	pos  Pos
}

type lexer struct {
	file   string
	src    string
	i      int
	line   int
	toks   []token
	diags  []Diag
	macros map[string]macro
	depth  int // macro expansion depth
	// conditional compilation
	condStack []condState
}

type condState struct {
	active, taken, parentActive bool
}

func isIdentStart(c byte) bool {
	return c == '_' || (c >= 'a' && c <= 'z') || (c >= 'A' && c <= 'Z')
}
func isIdentChar(c byte) bool {
	return isIdentStart(c) || (c >= '0' && c <= '9') || c == '$'
}
func isDigit(c byte) bool { return c >= '0' && c <= '9' }
func isSpace(c byte) bool { return c == ' ' || c == '\t' || c == '\r' || c == '\n' || c == '\f' }

func (lx *lexer) diag(class string, line int, msg string) {
	lx.diags = append(lx.diags, Diag{Class: class, File: lx.file, Line: line, Msg: msg})
}

// lexFile tokenises one file. macros is shared between files.
func lexFile(file, src string, macros map[string]macro) ([]token, []Diag) {
	lx := &lexer{file: file, src: src, line: 1, macros: macros}
	lx.run()
	lx.toks = append(lx.toks, token{kind: tEOF, pos: Pos{file, lx.line}})
	return lx.toks, lx.diags
}

func isTranslatePragma(comment string) (off, on bool) {
	f := strings.Fields(comment)
	if len(f) < 2 {
		return
	}
	switch f[0] {
	case "synthesis", "synopsys", "pragma":
	default:
		return
	}
	switch f[1] {
	case "translate_off":
		off = true
	case "translate_on":
		on = true
	}
	return
}

// skipTranslateOff skips raw text until a translate_on pragma comment.
func (lx *lexer) skipTranslateOff() {
	for lx.i < len(lx.src) {
		c := lx.src[lx.i]
		if c == '\n' {
			lx.line++
			lx.i++
			continue
		}
		if c == '/' && lx.i+1 < len(lx.src) && lx.src[lx.i+1] == '/' {
			j := strings.IndexByte(lx.src[lx.i:], '\n')
			var body string
			if j < 0 {
				body = lx.src[lx.i+2:]
				lx.i = len(lx.src)
			} else {
				body = lx.src[lx.i+2 : lx.i+j]
				lx.i += j
			}
			if _, on := isTranslatePragma(body); on {
				return
			}
			continue
		}
		if c == '/' && lx.i+1 < len(lx.src) && lx.src[lx.i+1] == '*' {
			j := strings.Index(lx.src[lx.i+2:], "*/")
			var body string
			if j < 0 {
				body = lx.src[lx.i+2:]
				lx.i = len(lx.src)
			} else {
				body = lx.src[lx.i+2 : lx.i+2+j]
				lx.i += j + 4
			}
			lx.line += strings.Count(body, "\n")
			if _, on := isTranslatePragma(body); on {
				return
			}
			continue
		}
		lx.i++
	}
}

func (lx *lexer) restOfLine() string {
	// returns text to end of line honouring backslash-newline continuation; leaves i at the newline
	var sb strings.Builder
	for lx.i < len(lx.src) {
		c := lx.src[lx.i]
		if c == '\\' && lx.i+1 < len(lx.src) && (lx.src[lx.i+1] == '\n' || (lx.src[lx.i+1] == '\r' && lx.i+2 < len(lx.src) && lx.src[lx.i+2] == '\n')) {
			if lx.src[lx.i+1] == '\r' {
				lx.i++
			}
			lx.i += 2
			lx.line++
			sb.WriteByte(' ')
			continue
		}
		if c == '\n' {
			break
		}
		if c == '/' && lx.i+1 < len(lx.src) && lx.src[lx.i+1] == '/' {
			// comment terminates the directive text
			for lx.i < len(lx.src) && lx.src[lx.i] != '\n' {
				lx.i++
			}
			break
		}
		sb.WriteByte(c)
		lx.i++
	}
	return sb.String()
}

func (lx *lexer) readIdent() string {
	st := lx.i
	for lx.i < len(lx.src) && isIdentChar(lx.src[lx.i]) {
		lx.i++
	}
	return lx.src[st:lx.i]
}

func (lx *lexer) skipSpacesInLine() {
	for lx.i < len(lx.src) && (lx.src[lx.i] == ' ' || lx.src[lx.i] == '\t') {
		lx.i++
	}
}

// skipInactive skips text of an inactive `ifdef branch up to the matching `else/`elsif/`endif.
func (lx *lexer) skipInactive() {
	depth := 0
	for lx.i < len(lx.src) {
		c := lx.src[lx.i]
		switch {
		case c == '\n':
			lx.line++
			lx.i++
		case c == '/' && lx.i+1 < len(lx.src) && lx.src[lx.i+1] == '/':
			for lx.i < len(lx.src) && lx.src[lx.i] != '\n' {
				lx.i++
			}
		case c == '/' && lx.i+1 < len(lx.src) && lx.src[lx.i+1] == '*':
			j := strings.Index(lx.src[lx.i+2:], "*/")
			if j < 0 {
				lx.i = len(lx.src)
			} else {
				lx.line += strings.Count(lx.src[lx.i:lx.i+2+j], "\n")
				lx.i += j + 4
			}
		case c == '"':
			lx.i++
			for lx.i < len(lx.src) && lx.src[lx.i] != '"' && lx.src[lx.i] != '\n' {
				if lx.src[lx.i] == '\\' {
					lx.i++
				}
				lx.i++
			}
			lx.i++
		case c == '`':
			save := lx.i
			lx.i++
			name := lx.readIdent()
			switch name {
			case "ifdef", "ifndef":
				depth++
			case "endif":
				if depth == 0 {
					lx.i = save
					return
				}
				depth--
			case "else", "elsif":
				if depth == 0 {
					lx.i = save
					return
				}
			}
		default:
			lx.i++
		}
	}
}

func (lx *lexer) directive() {
	line := lx.line
	lx.i++ // `
	name := lx.readIdent()
	switch name {
	case "timescale", "line", "unconnected_drive", "pragma", "begin_keywords":
		lx.restOfLine()
	case "celldefine", "endcelldefine", "resetall", "nounconnected_drive", "end_keywords":
	case "default_nettype":
		v := strings.TrimSpace(lx.restOfLine())
		lx.toks = append(lx.toks, token{kind: tDirective, text: v, pos: Pos{lx.file, line}})
	case "include":
		lx.restOfLine()
		lx.diag("unsupported", line, "`include is not supported")
	case "define":
		lx.skipSpacesInLine()
		mname := lx.readIdent()
		if mname == "" {
			lx.restOfLine()
			lx.diag("syntax", line, "`define without a macro name")
			return
		}
		if lx.i < len(lx.src) && lx.src[lx.i] == '(' {
			lx.restOfLine()
			lx.diag("unsupported", line, "`define with arguments (macro "+mname+") is not supported")
			lx.macros[mname] = macro{body: "", pos: Pos{lx.file, line}}
			return
		}
		body := strings.TrimSpace(lx.restOfLine())
		lx.macros[mname] = macro{body: body, pos: Pos{lx.file, line}}
	case "undef":
		lx.skipSpacesInLine()
		delete(lx.macros, lx.readIdent())
	case "ifdef", "ifndef":
		lx.skipSpacesInLine()
		m := lx.readIdent()
		_, def := lx.macros[m]
		if name == "ifndef" {
			def = !def
		}
		lx.condStack = append(lx.condStack, condState{active: def, taken: def, parentActive: true})
		if !def {
			lx.skipInactive()
		}
	case "elsif":
		lx.skipSpacesInLine()
		m := lx.readIdent()
		if len(lx.condStack) == 0 {
			lx.diag("syntax", line, "`elsif without `ifdef")
			return
		}
		top := &lx.condStack[len(lx.condStack)-1]
		_, def := lx.macros[m]
		if top.taken || !def {
			top.active = false
			lx.skipInactive()
		} else {
			top.active, top.taken = true, true
		}
	case "else":
		if len(lx.condStack) == 0 {
			lx.diag("syntax", line, "`else without `ifdef")
			return
		}
		top := &lx.condStack[len(lx.condStack)-1]
		if top.taken {
			top.active = false
			lx.skipInactive()
		} else {
			top.active, top.taken = true, true
		}
	case "endif":
		if len(lx.condStack) == 0 {
			lx.diag("syntax", line, "`endif without `ifdef")
			return
		}
		lx.condStack = lx.condStack[:len(lx.condStack)-1]
	case "":
		lx.diag("syntax", line, "stray ` character")
	default:
		m, ok := lx.macros[name]
		if !ok {
			lx.diag("syntax", line, "undefined macro `"+name)
			return
		}
		if lx.depth > 32 {
			lx.diag("syntax", line, "recursive macro `"+name)
			return
		}
		sub := &lexer{file: lx.file, src: m.body, line: line, macros: lx.macros, depth: lx.depth + 1}
		sub.run()
		for _, t := range sub.toks {
			t.pos = Pos{lx.file, line}
			lx.toks = append(lx.toks, t)
		}
		lx.diags = append(lx.diags, sub.diags...)
	}
}

var ops3 = []string{"<<<", ">>>", "===", "!=="}
var ops2 = []string{"<<", ">>", "==", "!=", "<=", ">=", "&&", "||", "**", "~&", "~|", "~^", "^~", "+:", "-:", "->"}

func (lx *lexer) run() {
	for lx.i < len(lx.src) {
		c := lx.src[lx.i]
		switch {
		case c == '\n':
			lx.line++
			lx.i++
		case isSpace(c):
			lx.i++
		case c == '/' && lx.i+1 < len(lx.src) && lx.src[lx.i+1] == '/':
			j := strings.IndexByte(lx.src[lx.i:], '\n')
			var body string
			if j < 0 {
				body = lx.src[lx.i+2:]
				lx.i = len(lx.src)
			} else {
				body = lx.src[lx.i+2 : lx.i+j]
				lx.i += j
			}
			if off, _ := isTranslatePragma(body); off {
				lx.skipTranslateOff()
			}
		case c == '/' && lx.i+1 < len(lx.src) && lx.src[lx.i+1] == '*':
			j := strings.Index(lx.src[lx.i+2:], "*/")
			if j < 0 {
				lx.diag("syntax", lx.line, "unterminated /* comment")
				lx.i = len(lx.src)
				break
			}
			body := lx.src[lx.i+2 : lx.i+2+j]
			lx.line += strings.Count(body, "\n")
			lx.i += j + 4
			if off, _ := isTranslatePragma(body); off {
				lx.skipTranslateOff()
			}
		case c == '`':
			lx.directive()
		case c == '(' && lx.i+1 < len(lx.src) && lx.src[lx.i+1] == '*':
			// attribute instance (* ... *) unless it is "(*)" of an event control
			k := lx.i + 2
			for k < len(lx.src) && isSpace(lx.src[k]) {
				k++
			}
			if k < len(lx.src) && lx.src[k] == ')' {
				lx.toks = append(lx.toks, token{kind: tOp, text: "(", pos: Pos{lx.file, lx.line}})
				lx.i++
				break
			}
			j := strings.Index(lx.src[lx.i+2:], "*)")
			if j < 0 {
				lx.diag("syntax", lx.line, "unterminated (* attribute")
				lx.i = len(lx.src)
				break
			}
			lx.line += strings.Count(lx.src[lx.i:lx.i+2+j], "\n")
			lx.i += j + 4
		case c == '"':
			st := lx.i + 1
			line := lx.line
			lx.i++
			for lx.i < len(lx.src) && lx.src[lx.i] != '"' && lx.src[lx.i] != '\n' {
				if lx.src[lx.i] == '\\' {
					lx.i++
				}
				lx.i++
			}
			if lx.i >= len(lx.src) || lx.src[lx.i] != '"' {
				lx.diag("syntax", line, "unterminated string literal")
				break
			}
			lx.toks = append(lx.toks, token{kind: tString, text: lx.src[st:lx.i], pos: Pos{lx.file, line}})
			lx.i++
		case c == '\\':
			// escaped identifier
			st := lx.i + 1
			lx.i++
			for lx.i < len(lx.src) && !isSpace(lx.src[lx.i]) {
				lx.i++
			}
			lx.toks = append(lx.toks, token{kind: tIdent, text: lx.src[st:lx.i], pos: Pos{lx.file, lx.line}})
		case c == '$':
			st := lx.i
			lx.i++
			lx.readIdent()
			lx.toks = append(lx.toks, token{kind: tSysIdent, text: lx.src[st:lx.i], pos: Pos{lx.file, lx.line}})
		case isIdentStart(c):
			id := lx.readIdent()
			k := tIdent
			if keywords[id] {
				k = tKeyword
			}
			lx.toks = append(lx.toks, token{kind: k, text: id, pos: Pos{lx.file, lx.line}})
		case isDigit(c) || c == '\'':
			lx.number()
		default:
			rest := lx.src[lx.i:]
			matched := false
			for _, o := range ops3 {
				if strings.HasPrefix(rest, o) {
					lx.toks = append(lx.toks, token{kind: tOp, text: o, pos: Pos{lx.file, lx.line}})
					lx.i += 3
					matched = true
					break
				}
			}
			if matched {
				break
			}
			for _, o := range ops2 {
				if strings.HasPrefix(rest, o) {
					lx.toks = append(lx.toks, token{kind: tOp, text: o, pos: Pos{lx.file, lx.line}})
					lx.i += 2
					matched = true
					break
				}
			}
			if matched {
				break
			}
			if strings.IndexByte("()[]{};:,.=+-*/%<>!~&|^?@#", c) >= 0 {
				lx.toks = append(lx.toks, token{kind: tOp, text: string(c), pos: Pos{lx.file, lx.line}})
				lx.i++
				break
			}
			lx.diag("syntax", lx.line, "illegal character "+string(rune(c)))
			lx.i++
		}
	}
	if len(lx.condStack) != 0 && lx.depth == 0 {
		lx.diag("syntax", lx.line, "missing `endif")
	}
}

func (lx *lexer) skipWS() {
	for lx.i < len(lx.src) && isSpace(lx.src[lx.i]) {
		if lx.src[lx.i] == '\n' {
			lx.line++
		}
		lx.i++
	}
}

// number lexes [size] ['[s]base digits] | decimal | real.
func (lx *lexer) number() {
	line := lx.line
	pos := Pos{lx.file, line}
	size := ""
	if isDigit(lx.src[lx.i]) {
		st := lx.i
		for lx.i < len(lx.src) && (isDigit(lx.src[lx.i]) || lx.src[lx.i] == '_') {
			lx.i++
		}
		size = strings.ReplaceAll(lx.src[st:lx.i], "_", "")
		// real number?
		if lx.i+1 < len(lx.src) && lx.src[lx.i] == '.' && isDigit(lx.src[lx.i+1]) {
			lx.i++
			for lx.i < len(lx.src) && (isDigit(lx.src[lx.i]) || lx.src[lx.i] == '_') {
				lx.i++
			}
			lx.exponent()
			lx.toks = append(lx.toks, token{kind: tReal, text: lx.src[st:lx.i], pos: pos})
			return
		}
		if lx.i < len(lx.src) && (lx.src[lx.i] == 'e' || lx.src[lx.i] == 'E') {
			save := lx.i
			if lx.exponent() {
				lx.toks = append(lx.toks, token{kind: tReal, text: lx.src[st:lx.i], pos: pos})
				return
			}
			lx.i = save
		}
		// look ahead for 'base. After '#' the decimal is a delay value and is never the size of a following
		// based literal ("x <= #1 'b0;" is delay 1 followed by 'b0, as yacc-based front ends parse it).
		save, saveLine := lx.i, lx.line
		lx.skipWS()
		afterHash := len(lx.toks) > 0 && lx.toks[len(lx.toks)-1].kind == tOp && lx.toks[len(lx.toks)-1].text == "#"
		if afterHash || !(lx.i < len(lx.src) && lx.src[lx.i] == '\'') {
			lx.i, lx.line = save, saveLine
			// plain decimal: unsized signed
			n := &Num{Pos: pos, Width: 0, Signed: true, Based: false}
			bi, _ := new(big.Int).SetString(size, 10)
			n.Val = bigToLimbs(bi)
			lx.toks = append(lx.toks, token{kind: tNumber, text: size, pos: pos, num: n})
			return
		}
	}
	// at '
	lx.i++
	signed := false
	if lx.i < len(lx.src) && (lx.src[lx.i] == 's' || lx.src[lx.i] == 'S') {
		signed = true
		lx.i++
	}
	if lx.i >= len(lx.src) {
		lx.diag("syntax", line, "malformed number")
		return
	}
	base := 0
	switch lx.src[lx.i] {
	case 'b', 'B':
		base = 2
	case 'o', 'O':
		base = 8
	case 'd', 'D':
		base = 10
	case 'h', 'H':
		base = 16
	default:
		lx.diag("syntax", line, "malformed number: bad base '"+string(rune(lx.src[lx.i]))+"'")
		return
	}
	lx.i++
	lx.skipWS()
	st := lx.i
	for lx.i < len(lx.src) {
		c := lx.src[lx.i]
		ok := false
		switch {
		case c == '_' && lx.i > st:
			ok = true
		case c == '?' || c == 'x' || c == 'X' || c == 'z' || c == 'Z':
			// in a decimal literal x/z/? may only stand alone
			ok = base != 10 || lx.i == st
		case base == 10 && lx.i > st && (lx.src[st] == 'x' || lx.src[st] == 'X' || lx.src[st] == 'z' || lx.src[st] == 'Z' || lx.src[st] == '?'):
			ok = false
		case base == 2:
			ok = c == '0' || c == '1'
		case base == 8:
			ok = c >= '0' && c <= '7'
		case base == 10:
			ok = isDigit(c)
		default:
			ok = isDigit(c) || (c >= 'a' && c <= 'f') || (c >= 'A' && c <= 'F')
		}
		if !ok {
			break
		}
		lx.i++
	}
	digits := strings.ReplaceAll(lx.src[st:lx.i], "_", "")
	if digits == "" {
		lx.diag("syntax", line, "malformed number: no digits")
		return
	}
	n := &Num{Pos: pos, Signed: signed, Based: true}
	if size != "" {
		w := 0
		for _, ch := range size {
			w = w*10 + int(ch-'0')
			if w > 1<<20 {
				break
			}
		}
		if w == 0 {
			lx.diag("syntax", line, "zero-width literal")
			return
		}
		if w > 1<<16 {
			lx.diag("unsupported", line, "literal wider than 65536 bits")
			return
		}
		n.Width = w
	}
	val := new(big.Int)
	xz := new(big.Int)
	bitsPer := map[int]uint{2: 1, 8: 3, 16: 4}[base]
	firstXZ := false
	if base == 10 {
		lower := strings.ToLower(digits)
		if lower == "x" || lower == "z" || lower == "?" {
			// all x / z
			firstXZ = true
			w := n.Width
			if w == 0 {
				w = 32
			}
			xz.Sub(new(big.Int).Lsh(big.NewInt(1), uint(w)), big.NewInt(1))
		} else {
			if _, ok := val.SetString(digits, 10); !ok {
				lx.diag("syntax", line, "malformed decimal literal "+digits)
				return
			}
		}
	} else {
		for k := 0; k < len(digits); k++ {
			c := digits[k]
			val.Lsh(val, bitsPer)
			xz.Lsh(xz, bitsPer)
			var d int
			switch {
			case c == 'x' || c == 'X' || c == 'z' || c == 'Z' || c == '?':
				xz.Or(xz, big.NewInt(int64(1)<<bitsPer-1))
				if k == 0 {
					firstXZ = true
				}
				continue
			case isDigit(c):
				d = int(c - '0')
			case c >= 'a' && c <= 'f':
				d = int(c-'a') + 10
			case c >= 'A' && c <= 'F':
				d = int(c-'A') + 10
			}
			if d >= base {
				lx.diag("syntax", line, "digit '"+string(rune(c))+"' illegal in base "+map[int]string{2: "2", 8: "8", 16: "16"}[base])
				return
			}
			val.Or(val, big.NewInt(int64(d)))
		}
		// x/z extension to the left when the leftmost digit is x/z
		if firstXZ {
			w := n.Width
			if w == 0 {
				w = 32
			}
			have := uint(len(digits)) * bitsPer
			if uint(w) > have {
				ext := new(big.Int).Sub(new(big.Int).Lsh(big.NewInt(1), uint(w)), new(big.Int).Lsh(big.NewInt(1), have))
				xz.Or(xz, ext)
			}
		}
	}
	w := n.Width
	if w == 0 {
		w = 32
		if val.BitLen() > 32 {
			w = val.BitLen()
		}
		n.unsizedW = w
	}
	m := new(big.Int).Sub(new(big.Int).Lsh(big.NewInt(1), uint(w)), big.NewInt(1))
	val.And(val, m)
	xz.And(xz, m)
	val.AndNot(val, xz) // x/z -> 0
	n.Val = bigToLimbs(val)
	if xz.Sign() != 0 {
		n.XZ = bigToLimbs(xz)
	}
	lx.toks = append(lx.toks, token{kind: tNumber, text: lx.src[st:lx.i], pos: pos, num: n})
}

func (lx *lexer) exponent() bool {
	if lx.i < len(lx.src) && (lx.src[lx.i] == 'e' || lx.src[lx.i] == 'E') {
		j := lx.i + 1
		if j < len(lx.src) && (lx.src[j] == '+' || lx.src[j] == '-') {
			j++
		}
		if j < len(lx.src) && isDigit(lx.src[j]) {
			for j < len(lx.src) && (isDigit(lx.src[j]) || lx.src[j] == '_') {
				j++
			}
			lx.i = j
			return true
		}
	}
	return false
}

func bigToLimbs(b *big.Int) []uint64 {
	if b == nil || b.Sign() == 0 {
		return []uint64{0}
	}
	bytes := b.Bytes() // big endian
	n := (len(bytes) + 7) / 8
	out := make([]uint64, n)
	for i, by := range bytes {
		pos := len(bytes) - 1 - i
		out[pos/8] |= uint64(by) << (8 * uint(pos%8))
	}
	return out
}
