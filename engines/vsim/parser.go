package vsim

import (
	"fmt"
	"sort"
)

type parseError struct {
	class string
	pos   Pos
	msg   string
}

type parser struct {
	toks    []token
	i       int
	diags   []Diag
	cur     *Module
	nettype string // current `default_nettype
}

func (p *parser) peek() token { return p.toks[p.i] }
func (p *parser) peekN(n int) token {
	if p.i+n < len(p.toks) {
		return p.toks[p.i+n]
	}
	return p.toks[len(p.toks)-1]
}
func (p *parser) next() token {
	t := p.toks[p.i]
	if t.kind != tEOF {
		p.i++
	}
	return t
}
func (p *parser) isOp(s string) bool {
	t := p.peek()
	return t.kind == tOp && t.text == s
}
func (p *parser) isKw(s string) bool {
	t := p.peek()
	return t.kind == tKeyword && t.text == s
}
func (p *parser) acceptOp(s string) bool {
	if p.isOp(s) {
		p.i++
		return true
	}
	return false
}
func (p *parser) acceptKw(s string) bool {
	if p.isKw(s) {
		p.i++
		return true
	}
	return false
}
func tokDesc(t token) string {
	switch t.kind {
	case tEOF:
		return "end of file"
	case tString:
		return "string \"" + t.text + "\""
	}
	return "'" + t.text + "'"
}
func (p *parser) fail(class string, pos Pos, format string, a ...interface{}) {
	panic(parseError{class, pos, fmt.Sprintf(format, a...)})
}
func (p *parser) syntax(format string, a ...interface{}) {
	p.fail("syntax", p.peek().pos, format, a...)
}
func (p *parser) expectOp(s string) token {
	if !p.isOp(s) {
		p.syntax("expected '%s' but found %s", s, tokDesc(p.peek()))
	}
	return p.next()
}
func (p *parser) expectKw(s string) token {
	if !p.isKw(s) {
		p.syntax("expected '%s' but found %s", s, tokDesc(p.peek()))
	}
	return p.next()
}
func (p *parser) expectIdent() token {
	t := p.peek()
	if t.kind != tIdent {
		p.syntax("expected identifier but found %s", tokDesc(t))
	}
	return p.next()
}

// unsupported records an unsupported-construct diagnostic against the current module.
func (p *parser) unsupported(pos Pos, format string, a ...interface{}) {
	d := Diag{Class: "unsupported", File: pos.File, Line: pos.Line, Msg: fmt.Sprintf(format, a...)}
	if p.cur != nil {
		d.Module = p.cur.Name
		p.cur.Unsupported = append(p.cur.Unsupported, d)
	}
	p.diags = append(p.diags, d)
}

func (p *parser) skipTo(stop func(token) bool) {
	for {
		t := p.peek()
		if t.kind == tEOF || stop(t) {
			return
		}
		p.i++
	}
}
func (p *parser) skipPastSemi() {
	p.skipTo(func(t token) bool { return t.kind == tOp && t.text == ";" })
	p.acceptOp(";")
}
func (p *parser) skipPastKw(kw string) {
	p.skipTo(func(t token) bool { return t.kind == tKeyword && (t.text == kw || t.text == "endmodule") })
	p.acceptKw(kw)
}

// Parse parses a set of files (name -> text). Syntax and unsupported-construct
// diagnostics are returned; modules that parsed are present in the Design.
func Parse(files map[string]string) (*Design, []Diag) {
	d := &Design{mods: map[string]*Module{}}
	names := make([]string, 0, len(files))
	for n := range files {
		names = append(names, n)
	}
	sort.Strings(names)
	macros := map[string]macro{}
	var diags []Diag
	for _, fn := range names {
		toks, ld := lexFile(fn, files[fn], macros)
		diags = append(diags, ld...)
		p := &parser{toks: toks}
		before := len(d.order)
		p.parseFile(d)
		diags = append(diags, p.diags...)
		// file-level unsupported preprocessor constructs taint every module of the file
		for _, dg := range ld {
			if dg.Class == "unsupported" {
				for _, mn := range d.order[before:] {
					d.mods[mn].Unsupported = append(d.mods[mn].Unsupported, dg)
				}
			}
		}
	}
	sort.SliceStable(diags, func(i, j int) bool {
		if diags[i].File != diags[j].File {
			return diags[i].File < diags[j].File
		}
		return diags[i].Line < diags[j].Line
	})
	return d, diags
}

func (p *parser) parseFile(d *Design) {
	for {
		t := p.peek()
		switch {
		case t.kind == tEOF:
			return
		case t.kind == tDirective:
			p.nettype = t.text
			p.i++
		case t.kind == tKeyword && (t.text == "module" || t.text == "macromodule"):
			m := p.parseModule()
			if m != nil {
				if old, dup := d.mods[m.Name]; dup {
					p.diags = append(p.diags, Diag{Class: "duplicate-decl", File: m.File, Line: m.Line, Module: m.Name, Ident: m.Name,
						Msg: fmt.Sprintf("module %s already defined at %s:%d", m.Name, old.File, old.Line)})
				} else {
					d.mods[m.Name] = m
					d.order = append(d.order, m.Name)
				}
			}
		case t.kind == tKeyword && (t.text == "primitive" || t.text == "config"):
			p.diags = append(p.diags, Diag{Class: "unsupported", File: t.pos.File, Line: t.pos.Line, Msg: t.text + " definitions are not supported"})
			p.skipPastKw("end" + t.text)
		default:
			p.diags = append(p.diags, Diag{Class: "syntax", File: t.pos.File, Line: t.pos.Line, Msg: "expected 'module' but found " + tokDesc(t)})
			p.skipTo(func(t token) bool {
				return t.kind == tKeyword && (t.text == "module" || t.text == "macromodule")
			})
		}
	}
}

func (p *parser) parseModule() (m *Module) {
	start := p.next() // module
	m = &Module{Pos: start.pos, NettypeNone: p.nettype == "none"}
	p.cur = m
	defer func() {
		p.cur = nil
		if r := recover(); r != nil {
			pe, ok := r.(parseError)
			if !ok {
				panic(r)
			}
			d := Diag{Class: pe.class, File: pe.pos.File, Line: pe.pos.Line, Module: m.Name, Msg: pe.msg}
			p.diags = append(p.diags, d)
			m.Broken = &d
			// resynchronise
			p.skipTo(func(t token) bool { return t.kind == tKeyword && t.text == "endmodule" })
			p.acceptKw("endmodule")
			if m.Name == "" {
				m = nil
			}
		}
	}()
	m.Name = p.expectIdent().text
	if p.isOp("#") {
		p.next()
		p.expectOp("(")
		if !p.isOp(")") {
			var last *Decl
			for {
				if p.isKw("parameter") {
					pos := p.next().pos
					last = &Decl{Pos: pos, Kind: "parameter", ANSI: true}
					p.parseParamType(last)
					m.Items = append(m.Items, last)
				} else if last == nil {
					p.syntax("expected 'parameter' in module parameter port list, found %s", tokDesc(p.peek()))
				}
				nm := p.expectIdent()
				p.expectOp("=")
				e := p.parseExpr()
				last.Names = append(last.Names, DeclName{Pos: nm.pos, Name: nm.text, Init: e})
				if !p.acceptOp(",") {
					break
				}
			}
		}
		p.expectOp(")")
	}
	if p.acceptOp("(") {
		p.parsePortList(m)
	}
	p.expectOp(";")
	m.Items = append(m.Items, p.parseItems(func() bool { return p.isKw("endmodule") }, false)...)
	p.expectKw("endmodule")
	return m
}

func isDirKw(t token) bool {
	return t.kind == tKeyword && (t.text == "input" || t.text == "output" || t.text == "inout")
}

func (p *parser) parsePortList(m *Module) {
	if p.acceptOp(")") {
		return
	}
	if isDirKw(p.peek()) {
		m.ANSI = true
		var cur *Decl
		for {
			if isDirKw(p.peek()) {
				t := p.next()
				cur = &Decl{Pos: t.pos, Kind: t.text, ANSI: true}
				p.parsePortType(cur)
				m.Items = append(m.Items, cur)
			}
			nm := p.expectIdent()
			dn := DeclName{Pos: nm.pos, Name: nm.text}
			if p.isOp("[") {
				p.unsupported(nm.pos, "array port %s", nm.text)
				p.skipTo(func(t token) bool { return t.kind == tOp && (t.text == "," || t.text == ")") })
			}
			if p.acceptOp("=") {
				dn.Init = p.parseExpr()
			}
			cur.Names = append(cur.Names, dn)
			m.PortNames = append(m.PortNames, nm.text)
			if !p.acceptOp(",") {
				break
			}
		}
		p.expectOp(")")
		return
	}
	for {
		t := p.peek()
		switch {
		case t.kind == tIdent:
			p.next()
			if p.isOp("[") {
				p.unsupported(t.pos, "port expression with select on %s", t.text)
				p.skipTo(func(t token) bool { return t.kind == tOp && (t.text == "," || t.text == ")") })
			}
			m.PortNames = append(m.PortNames, t.text)
		case t.kind == tOp && (t.text == "." || t.text == "{"):
			p.unsupported(t.pos, "port expressions in module port list")
			depth := 0
			p.skipTo(func(t token) bool {
				if t.kind == tOp {
					switch t.text {
					case "(", "{":
						depth++
					case ")", "}":
						if depth == 0 {
							return true
						}
						depth--
					case ",":
						return depth == 0
					}
				}
				return false
			})
		default:
			p.syntax("expected port name but found %s", tokDesc(t))
		}
		if !p.acceptOp(",") {
			break
		}
	}
	p.expectOp(")")
}

// parsePortType parses [wire|reg|integer] [signed] [range] after a direction keyword.
func (p *parser) parsePortType(d *Decl) {
	t := p.peek()
	if t.kind == tKeyword {
		switch t.text {
		case "wire", "reg", "integer", "tri", "time":
			d.NetType = t.text
			if t.text == "tri" {
				d.NetType = "wire"
			}
			p.next()
		case "wand", "wor", "tri0", "tri1", "triand", "trior", "trireg", "supply0", "supply1", "real", "realtime":
			p.unsupported(t.pos, "port of type %s", t.text)
			p.next()
		}
	}
	if p.acceptKw("signed") {
		d.Signed = true
	} else {
		p.acceptKw("unsigned")
	}
	if p.isOp("[") {
		d.MSB, d.LSB = p.parseRange()
	}
}

func (p *parser) parseRange() (Expr, Expr) {
	p.expectOp("[")
	a := p.parseExpr()
	p.expectOp(":")
	b := p.parseExpr()
	p.expectOp("]")
	return a, b
}

func (p *parser) parseParamType(d *Decl) {
	if p.acceptKw("signed") {
		d.Signed = true
	}
	t := p.peek()
	if t.kind == tKeyword {
		switch t.text {
		case "integer", "time":
			d.NetType = t.text
			p.next()
		case "real", "realtime":
			p.unsupported(t.pos, "%s parameter", t.text)
			p.next()
		}
	}
	if p.acceptKw("signed") {
		d.Signed = true
	}
	if p.isOp("[") {
		d.MSB, d.LSB = p.parseRange()
	}
}

var gateKw = map[string]bool{"and": true, "nand": true, "or": true, "nor": true, "xor": true, "xnor": true, "buf": true, "not": true,
	"bufif0": true, "bufif1": true, "notif0": true, "notif1": true, "nmos": true, "pmos": true, "cmos": true, "rnmos": true, "rpmos": true,
	"rcmos": true, "tran": true, "tranif0": true, "tranif1": true, "rtran": true, "rtranif0": true, "rtranif1": true, "pullup": true, "pulldown": true}

var unsupNetKw = map[string]bool{"wand": true, "wor": true, "tri0": true, "tri1": true, "triand": true, "trior": true, "trireg": true,
	"supply0": true, "supply1": true, "real": true, "realtime": true, "event": true, "specparam": true, "defparam": true}

// parseItems parses module items until stop() is true. inGen is true inside a generate region.
func (p *parser) parseItems(stop func() bool, inGen bool) []Item {
	var items []Item
	for !stop() {
		t := p.peek()
		if t.kind == tEOF {
			p.syntax("unexpected end of file inside module")
		}
		if t.kind == tDirective {
			p.nettype = t.text
			p.next()
			continue
		}
		if it := p.parseItem(inGen); it != nil {
			items = append(items, it...)
		}
	}
	return items
}

func (p *parser) parseItem(inGen bool) []Item {
	t := p.peek()
	if t.kind == tOp && t.text == ";" {
		p.next()
		return nil
	}
	if t.kind == tIdent {
		return p.parseInstances()
	}
	if t.kind != tKeyword {
		p.syntax("unexpected %s at module item level", tokDesc(t))
	}
	switch t.text {
	case "input", "output", "inout":
		p.next()
		d := &Decl{Pos: t.pos, Kind: t.text}
		p.parsePortType(d)
		p.parseDeclNames(d, false)
		return []Item{d}
	case "wire", "tri", "reg", "integer", "time", "genvar":
		p.next()
		d := &Decl{Pos: t.pos, Kind: t.text}
		if t.text == "tri" {
			d.Kind = "wire"
		}
		for p.isKw("vectored") || p.isKw("scalared") {
			p.next()
		}
		if p.acceptKw("signed") {
			d.Signed = true
		} else {
			p.acceptKw("unsigned")
		}
		if (d.Kind == "wire") && p.isOp("(") {
			p.unsupported(t.pos, "drive strength on net declaration")
			p.skipBalancedParens()
		}
		if p.isOp("[") {
			d.MSB, d.LSB = p.parseRange()
		}
		if p.isOp("#") {
			p.skipDelay()
		}
		p.parseDeclNames(d, true)
		return []Item{d}
	case "parameter", "localparam":
		p.next()
		d := &Decl{Pos: t.pos, Kind: t.text}
		p.parseParamType(d)
		for {
			nm := p.expectIdent()
			p.expectOp("=")
			e := p.parseExpr()
			d.Names = append(d.Names, DeclName{Pos: nm.pos, Name: nm.text, Init: e})
			if !p.acceptOp(",") {
				break
			}
		}
		p.expectOp(";")
		return []Item{d}
	case "assign":
		p.next()
		if p.isOp("(") {
			p.unsupported(t.pos, "drive strength on continuous assignment")
			p.skipBalancedParens()
		}
		if p.isOp("#") {
			p.skipDelay()
		}
		var out []Item
		for {
			lhs := p.parseLValue()
			p.expectOp("=")
			rhs := p.parseExpr()
			out = append(out, &ContAssign{Pos: lhs.exprPos(), LHS: lhs, RHS: rhs})
			if !p.acceptOp(",") {
				break
			}
		}
		p.expectOp(";")
		return out
	case "always":
		p.next()
		a := &Always{Pos: t.pos}
		if p.acceptOp("@") {
			p.parseEventControl(a)
		} else {
			p.unsupported(t.pos, "always block without event control")
		}
		a.Body = p.parseStmt()
		return []Item{a}
	case "initial":
		p.next()
		return []Item{&Initial{Pos: t.pos, Body: p.parseStmt()}}
	case "generate":
		p.next()
		its := p.parseItems(func() bool { return p.isKw("endgenerate") }, true)
		p.expectKw("endgenerate")
		return its
	case "for":
		return []Item{p.parseGenFor()}
	case "if":
		return []Item{p.parseGenIf()}
	case "begin":
		if !inGen {
			p.syntax("unexpected 'begin' at module item level")
		}
		p.next()
		gb := &GenBlock{Pos: t.pos}
		if p.acceptOp(":") {
			gb.Label = p.expectIdent().text
		}
		gb.Items = p.parseItems(func() bool { return p.isKw("end") }, true)
		p.expectKw("end")
		return []Item{gb}
	case "case":
		p.fail("unsupported", t.pos, "generate case")
	case "function":
		return []Item{p.parseFunction()}
	case "task":
		p.unsupported(t.pos, "task declarations")
		p.skipPastKw("endtask")
		return nil
	case "specify":
		p.unsupported(t.pos, "specify blocks")
		p.skipPastKw("endspecify")
		return nil
	}
	if gateKw[t.text] {
		p.unsupported(t.pos, "gate primitive instance (%s)", t.text)
		p.skipPastSemi()
		return nil
	}
	if unsupNetKw[t.text] {
		p.unsupported(t.pos, "%s declarations", t.text)
		p.skipPastSemi()
		return nil
	}
	p.syntax("unexpected %s at module item level", tokDesc(t))
	return nil
}

func (p *parser) skipBalancedParens() {
	p.expectOp("(")
	depth := 1
	for depth > 0 {
		t := p.next()
		if t.kind == tEOF {
			p.syntax("unbalanced parentheses")
		}
		if t.kind == tOp {
			if t.text == "(" {
				depth++
			} else if t.text == ")" {
				depth--
			}
		}
	}
}

// skipDelay skips '#' delay_value | '#(' mintypmax {, ...} ')'.
func (p *parser) skipDelay() {
	p.expectOp("#")
	t := p.peek()
	switch {
	case t.kind == tNumber || t.kind == tReal || t.kind == tIdent:
		p.next()
	case t.kind == tOp && t.text == "(":
		p.skipBalancedParens()
	default:
		p.syntax("malformed delay: unexpected %s", tokDesc(t))
	}
}

func (p *parser) parseDeclNames(d *Decl, allowArr bool) {
	for {
		nm := p.expectIdent()
		dn := DeclName{Pos: nm.pos, Name: nm.text}
		if p.isOp("[") {
			dn.ArrA, dn.ArrB = p.parseRange()
			if p.isOp("[") {
				p.unsupported(nm.pos, "multi-dimensional array %s", nm.text)
				for p.isOp("[") {
					p.parseRange()
				}
			}
			if !allowArr {
				p.unsupported(nm.pos, "array port %s", nm.text)
			}
		}
		if p.acceptOp("=") {
			dn.Init = p.parseExpr()
		}
		d.Names = append(d.Names, dn)
		if !p.acceptOp(",") {
			break
		}
	}
	p.expectOp(";")
}

func (p *parser) parseEventControl(a *Always) {
	if p.acceptOp("*") {
		a.Star = true
		return
	}
	if p.peek().kind == tIdent {
		// @ident
		t := p.next()
		a.Events = append(a.Events, EventExpr{X: &Ident{Pos: t.pos, Name: t.text}})
		return
	}
	p.expectOp("(")
	if p.acceptOp("*") {
		p.expectOp(")")
		a.Star = true
		return
	}
	for {
		ev := EventExpr{}
		if p.acceptKw("posedge") {
			ev.Edge = "posedge"
		} else if p.acceptKw("negedge") {
			ev.Edge = "negedge"
		}
		ev.X = p.parseExpr()
		a.Events = append(a.Events, ev)
		if p.acceptOp(",") || p.acceptKw("or") {
			continue
		}
		break
	}
	p.expectOp(")")
}

func (p *parser) parseGenFor() Item {
	t := p.expectKw("for")
	g := &GenFor{Pos: t.pos}
	p.expectOp("(")
	if p.isKw("genvar") {
		// SystemVerilog: for (genvar i = 0; ...)
		p.syntax("'genvar' declaration inside for-generate header is SystemVerilog, not Verilog-2001")
	}
	g.Var = p.expectIdent().text
	p.expectOp("=")
	g.Init = p.parseExpr()
	p.expectOp(";")
	g.Cond = p.parseExpr()
	p.expectOp(";")
	g.StepVar = p.expectIdent().text
	p.expectOp("=")
	g.Step = p.parseExpr()
	p.expectOp(")")
	g.Items, g.Label = p.parseGenBody()
	return g
}

func (p *parser) parseGenBody() ([]Item, string) {
	if p.isKw("begin") {
		p.next()
		label := ""
		if p.acceptOp(":") {
			label = p.expectIdent().text
		}
		its := p.parseItems(func() bool { return p.isKw("end") }, true)
		p.expectKw("end")
		return its, label
	}
	return p.parseItem(true), ""
}

func (p *parser) parseGenIf() Item {
	t := p.expectKw("if")
	g := &GenIf{Pos: t.pos}
	p.expectOp("(")
	g.Cond = p.parseExpr()
	p.expectOp(")")
	g.Then, g.ThenLabel = p.parseGenBody()
	if p.acceptKw("else") {
		g.Else, g.ElseLabel = p.parseGenBody()
	}
	return g
}

func (p *parser) parseFunction() Item {
	t := p.expectKw("function")
	f := &Function{Pos: t.pos}
	if p.isKw("automatic") {
		p.unsupported(t.pos, "automatic function")
		p.next()
	}
	if p.acceptKw("signed") {
		f.Signed = true
	}
	if p.isKw("integer") || p.isKw("time") {
		f.RetKind = p.next().text
	} else if p.isKw("real") || p.isKw("realtime") {
		p.unsupported(t.pos, "real function")
		p.next()
	}
	if p.isOp("[") {
		f.MSB, f.LSB = p.parseRange()
	}
	f.Name = p.expectIdent().text
	if p.acceptOp("(") {
		// ANSI argument list
		var cur *Decl
		for {
			if isDirKw(p.peek()) {
				dt := p.next()
				if dt.text != "input" {
					p.unsupported(dt.pos, "function %s argument", dt.text)
				}
				cur = &Decl{Pos: dt.pos, Kind: "input", ANSI: true}
				p.parsePortType(cur)
				f.Decls = append(f.Decls, cur)
			} else if cur == nil {
				p.syntax("expected 'input' in function argument list, found %s", tokDesc(p.peek()))
			}
			nm := p.expectIdent()
			cur.Names = append(cur.Names, DeclName{Pos: nm.pos, Name: nm.text})
			if !p.acceptOp(",") {
				break
			}
		}
		p.expectOp(")")
	}
	p.expectOp(";")
	// declarations
	for {
		dt := p.peek()
		if dt.kind != tKeyword {
			break
		}
		switch dt.text {
		case "input":
			p.next()
			d := &Decl{Pos: dt.pos, Kind: "input"}
			p.parsePortType(d)
			p.parseDeclNames(d, false)
			f.Decls = append(f.Decls, d)
			continue
		case "output", "inout":
			p.unsupported(dt.pos, "function %s argument", dt.text)
			p.skipPastSemi()
			continue
		case "reg", "integer", "time":
			f.Decls = append(f.Decls, p.parseLocalDecl())
			continue
		case "parameter", "localparam":
			its := p.parseItem(false)
			for _, it := range its {
				f.Decls = append(f.Decls, it.(*Decl))
			}
			continue
		case "real", "realtime", "event":
			p.unsupported(dt.pos, "%s declaration in function", dt.text)
			p.skipPastSemi()
			continue
		}
		break
	}
	f.Body = p.parseStmt()
	p.expectKw("endfunction")
	return f
}

func (p *parser) parseLocalDecl() *Decl {
	t := p.next()
	d := &Decl{Pos: t.pos, Kind: t.text}
	if p.acceptKw("signed") {
		d.Signed = true
	}
	if p.isOp("[") {
		d.MSB, d.LSB = p.parseRange()
	}
	p.parseDeclNames(d, true)
	return d
}

func (p *parser) parseInstances() []Item {
	mod := p.expectIdent()
	if p.isOp(".") {
		p.unsupported(mod.pos, "hierarchical name %s.…", mod.text)
		p.skipPastSemi()
		return nil
	}
	var params []Conn
	namedParams := false
	if p.isOp("#") {
		p.next()
		if p.isOp("(") {
			p.next()
			params, namedParams = p.parseConns()
			p.expectOp(")")
		} else {
			// #delay on a (gate/UDP) instance
			t := p.peek()
			if t.kind == tNumber || t.kind == tReal || t.kind == tIdent {
				p.next()
				p.unsupported(mod.pos, "delay on instance of %s (UDP/gate instance?)", mod.text)
			} else {
				p.syntax("malformed parameter assignment after '#'")
			}
		}
	}
	var out []Item
	for {
		if p.isOp("(") {
			p.syntax("instance of %s has no instance name", mod.text)
		}
		nm := p.peek()
		if nm.kind != tIdent {
			p.syntax("expected instance name after module name %s but found %s", mod.text, tokDesc(nm))
		}
		p.next()
		inst := &Instance{Pos: mod.pos, Mod: mod.text, Name: nm.text, Params: params, NamedParams: namedParams}
		if p.isOp("[") {
			p.unsupported(nm.pos, "array of instances %s", nm.text)
			p.parseRange()
		}
		p.expectOp("(")
		inst.Conns, inst.NamedConns = p.parseConns()
		p.expectOp(")")
		out = append(out, inst)
		if !p.acceptOp(",") {
			break
		}
	}
	p.expectOp(";")
	return out
}

// parseConns parses a (possibly empty) connection list up to but not including ')'.
func (p *parser) parseConns() ([]Conn, bool) {
	var conns []Conn
	named := false
	if p.isOp(")") {
		return nil, false
	}
	for {
		t := p.peek()
		if p.acceptOp(".") {
			named = true
			nm := p.expectIdent()
			p.expectOp("(")
			var e Expr
			if !p.isOp(")") {
				e = p.parseExpr()
			}
			p.expectOp(")")
			conns = append(conns, Conn{Pos: nm.pos, Name: nm.text, X: e})
		} else if p.isOp(",") || p.isOp(")") {
			conns = append(conns, Conn{Pos: t.pos})
		} else {
			e := p.parseExpr()
			conns = append(conns, Conn{Pos: t.pos, X: e})
		}
		if !p.acceptOp(",") {
			break
		}
	}
	if named {
		for _, c := range conns {
			if c.Name == "" {
				p.fail("syntax", c.Pos, "mixed named and positional connections")
			}
		}
	}
	return conns, named
}

// ---------------- statements ----------------

func (p *parser) parseStmtOrNull() Stmt {
	if p.isOp(";") {
		t := p.next()
		return &Null{t.pos}
	}
	return p.parseStmt()
}

func (p *parser) unsupStmt(pos Pos, what string) Stmt {
	p.unsupported(pos, "%s", what)
	return &UnsupStmt{Pos: pos, What: what}
}

func (p *parser) parseStmt() Stmt {
	t := p.peek()
	switch t.kind {
	case tOp:
		switch t.text {
		case ";":
			p.next()
			return &Null{t.pos}
		case "#":
			p.skipDelay()
			return p.parseStmtOrNull()
		case "@":
			p.next()
			var a Always
			p.parseEventControl(&a)
			p.unsupported(t.pos, "event control inside a procedural block")
			p.parseStmtOrNull()
			return &UnsupStmt{Pos: t.pos, What: "event control"}
		case "{":
			return p.parseAssignStmt(true)
		case "->":
			p.next()
			p.skipPastSemi()
			return p.unsupStmt(t.pos, "event trigger")
		}
	case tSysIdent:
		p.next()
		st := &SysTask{Pos: t.pos, Name: t.text}
		if p.acceptOp("(") {
			if !p.isOp(")") {
				for {
					if p.isOp(",") {
						st.Args = append(st.Args, nil)
					} else {
						st.Args = append(st.Args, p.parseExpr())
					}
					if !p.acceptOp(",") {
						break
					}
				}
			}
			p.expectOp(")")
		}
		p.expectOp(";")
		return st
	case tIdent:
		// assignment or task enable
		n := p.peekN(1)
		if n.kind == tOp && (n.text == ";" || n.text == "(") {
			p.next()
			if n.text == "(" {
				p.skipBalancedParens()
			}
			p.expectOp(";")
			return p.unsupStmt(t.pos, "task enable "+t.text)
		}
		if n.kind == tOp && n.text == "." {
			p.skipPastSemi()
			return p.unsupStmt(t.pos, "hierarchical reference "+t.text+".…")
		}
		return p.parseAssignStmt(true)
	case tKeyword:
		switch t.text {
		case "begin":
			p.next()
			b := &Block{Pos: t.pos}
			if p.acceptOp(":") {
				b.Name = p.expectIdent().text
			}
			for {
				dt := p.peek()
				if dt.kind == tKeyword && (dt.text == "reg" || dt.text == "integer" || dt.text == "time") {
					if b.Name == "" {
						p.syntax("declaration in unnamed block (SystemVerilog, not Verilog-2001)")
					}
					b.Decls = append(b.Decls, p.parseLocalDecl())
					continue
				}
				if dt.kind == tKeyword && (dt.text == "parameter" || dt.text == "localparam") {
					for _, it := range p.parseItem(false) {
						b.Decls = append(b.Decls, it.(*Decl))
					}
					continue
				}
				if dt.kind == tKeyword && (dt.text == "real" || dt.text == "realtime" || dt.text == "event") {
					p.unsupported(dt.pos, "%s declaration", dt.text)
					p.skipPastSemi()
					continue
				}
				break
			}
			for !p.isKw("end") {
				if p.peek().kind == tEOF {
					p.syntax("missing 'end'")
				}
				b.Stmts = append(b.Stmts, p.parseStmt())
			}
			p.next()
			return b
		case "if":
			p.next()
			p.expectOp("(")
			c := p.parseExpr()
			p.expectOp(")")
			s := &If{Pos: t.pos, C: c}
			s.Then = p.parseStmtOrNull()
			if p.acceptKw("else") {
				s.Else = p.parseStmtOrNull()
			}
			return s
		case "case", "casez", "casex":
			p.next()
			p.expectOp("(")
			c := &Case{Pos: t.pos, Kind: t.text}
			c.X = p.parseExpr()
			p.expectOp(")")
			for !p.isKw("endcase") {
				if p.peek().kind == tEOF {
					p.syntax("missing 'endcase'")
				}
				var it CaseItem
				if p.acceptKw("default") {
					it.Default = true
					p.acceptOp(":")
				} else {
					for {
						it.Labels = append(it.Labels, p.parseExpr())
						if !p.acceptOp(",") {
							break
						}
					}
					p.expectOp(":")
				}
				it.Body = p.parseStmtOrNull()
				c.Items = append(c.Items, it)
			}
			p.next()
			return c
		case "for":
			p.next()
			p.expectOp("(")
			f := &For{Pos: t.pos}
			if p.peek().kind == tKeyword && (p.peek().text == "integer" || p.peek().text == "reg") {
				p.syntax("declaration in for-loop header is SystemVerilog, not Verilog-2001")
			}
			f.Init = p.parseAssignStmt(false).(*AssignStmt)
			p.expectOp(";")
			f.Cond = p.parseExpr()
			p.expectOp(";")
			f.Step = p.parseAssignStmt(false).(*AssignStmt)
			p.expectOp(")")
			f.Body = p.parseStmtOrNull()
			return f
		case "while":
			p.next()
			p.expectOp("(")
			c := p.parseExpr()
			p.expectOp(")")
			return &While{Pos: t.pos, Cond: c, Body: p.parseStmtOrNull()}
		case "repeat":
			p.next()
			p.expectOp("(")
			c := p.parseExpr()
			p.expectOp(")")
			return &RepeatStmt{Pos: t.pos, Count: c, Body: p.parseStmtOrNull()}
		case "disable":
			p.next()
			nm := p.expectIdent()
			if p.isOp(".") {
				p.skipPastSemi()
				return p.unsupStmt(t.pos, "disable of hierarchical name")
			}
			p.expectOp(";")
			return &Disable{Pos: t.pos, Name: nm.text}
		case "forever":
			p.next()
			p.unsupported(t.pos, "forever loop")
			p.parseStmtOrNull()
			return &UnsupStmt{Pos: t.pos, What: "forever"}
		case "wait":
			p.next()
			p.skipBalancedParens()
			p.unsupported(t.pos, "wait statement")
			p.parseStmtOrNull()
			return &UnsupStmt{Pos: t.pos, What: "wait"}
		case "fork":
			p.next()
			depth := 1
			for depth > 0 {
				x := p.next()
				if x.kind == tEOF {
					p.syntax("missing 'join'")
				}
				if x.kind == tKeyword && x.text == "fork" {
					depth++
				}
				if x.kind == tKeyword && x.text == "join" {
					depth--
				}
			}
			return p.unsupStmt(t.pos, "fork/join")
		case "assign", "deassign", "force", "release":
			p.next()
			p.skipPastSemi()
			return p.unsupStmt(t.pos, "procedural "+t.text)
		}
	}
	p.syntax("unexpected %s at start of statement", tokDesc(t))
	return nil
}

// parseAssignStmt parses lvalue (=|<=) [delay] expr [;]
func (p *parser) parseAssignStmt(semi bool) Stmt {
	pos := p.peek().pos
	lhs := p.parseLValue()
	a := &AssignStmt{Pos: pos, LHS: lhs}
	if p.acceptOp("<=") {
		a.NB = true
	} else if !p.acceptOp("=") {
		p.syntax("expected '=' or '<=' in assignment but found %s", tokDesc(p.peek()))
	}
	if p.isOp("#") {
		p.skipDelay()
	} else if p.isOp("@") || p.isKw("repeat") {
		t := p.peek()
		p.unsupported(t.pos, "intra-assignment event control")
		if p.acceptKw("repeat") {
			p.skipBalancedParens()
		}
		p.expectOp("@")
		var al Always
		p.parseEventControl(&al)
	}
	a.RHS = p.parseExpr()
	if semi {
		p.expectOp(";")
	}
	return a
}

func (p *parser) parseLValue() Expr {
	t := p.peek()
	if t.kind == tOp && t.text == "{" {
		p.next()
		c := &Concat{Pos: t.pos}
		for {
			c.Parts = append(c.Parts, p.parseLValue())
			if !p.acceptOp(",") {
				break
			}
		}
		p.expectOp("}")
		return c
	}
	if t.kind != tIdent {
		p.syntax("expected assignment target but found %s", tokDesc(t))
	}
	p.next()
	if p.isOp(".") {
		p.fail("unsupported", t.pos, "hierarchical reference %s.…", t.text)
	}
	return p.parseSelects(&Ident{Pos: t.pos, Name: t.text})
}

func (p *parser) parseSelects(e Expr) Expr {
	for p.isOp("[") {
		lb := p.next()
		a := p.parseExpr()
		switch {
		case p.acceptOp("]"):
			e = &Index{Pos: lb.pos, X: e, I: a}
		case p.acceptOp(":"):
			b := p.parseExpr()
			p.expectOp("]")
			e = &RangeSel{Pos: lb.pos, X: e, Kind: 0, A: a, B: b}
		case p.acceptOp("+:"):
			b := p.parseExpr()
			p.expectOp("]")
			e = &RangeSel{Pos: lb.pos, X: e, Kind: 1, A: a, B: b}
		case p.acceptOp("-:"):
			b := p.parseExpr()
			p.expectOp("]")
			e = &RangeSel{Pos: lb.pos, X: e, Kind: 2, A: a, B: b}
		default:
			p.syntax("expected ']' or ':' in select but found %s", tokDesc(p.peek()))
		}
	}
	return e
}

// ---------------- expressions ----------------

var binPrec = map[string]int{
	"||": 1, "&&": 2, "|": 3, "^": 4, "^~": 4, "~^": 4, "&": 5,
	"==": 6, "!=": 6, "===": 6, "!==": 6,
	"<": 7, "<=": 7, ">": 7, ">=": 7,
	"<<": 8, ">>": 8, "<<<": 8, ">>>": 8,
	"+": 9, "-": 9, "*": 10, "/": 10, "%": 10, "**": 11,
}

func (p *parser) parseExpr() Expr {
	c := p.parseBinary(1)
	if p.isOp("?") {
		q := p.next()
		t := p.parseExpr()
		p.expectOp(":")
		f := p.parseExpr()
		return &Cond{Pos: q.pos, C: c, T: t, F: f}
	}
	return c
}

func (p *parser) parseBinary(minPrec int) Expr {
	l := p.parseUnary()
	for {
		t := p.peek()
		if t.kind != tOp {
			return l
		}
		pr, ok := binPrec[t.text]
		if !ok || pr < minPrec {
			return l
		}
		p.next()
		var r Expr
		if t.text == "**" {
			r = p.parseBinary(pr + 1) // treat as left-assoc like the other operators (1364-2001)
		} else {
			r = p.parseBinary(pr + 1)
		}
		l = &Binary{Pos: t.pos, Op: t.text, L: l, R: r}
	}
}

func (p *parser) parseUnary() Expr {
	t := p.peek()
	if t.kind == tOp {
		switch t.text {
		case "+", "-", "!", "~", "&", "|", "^", "~&", "~|", "~^", "^~":
			p.next()
			x := p.parseUnary()
			return &Unary{Pos: t.pos, Op: t.text, X: x}
		}
	}
	return p.parsePrimary()
}

func (p *parser) parsePrimary() Expr {
	t := p.peek()
	switch t.kind {
	case tNumber:
		p.next()
		return t.num
	case tReal:
		p.fail("unsupported", t.pos, "real literal %s", t.text)
	case tString:
		p.next()
		return &Str{Pos: t.pos, S: t.text}
	case tSysIdent:
		p.next()
		c := &Call{Pos: t.pos, Name: t.text, Sys: true}
		if p.acceptOp("(") {
			if !p.isOp(")") {
				for {
					c.Args = append(c.Args, p.parseExpr())
					if !p.acceptOp(",") {
						break
					}
				}
			}
			p.expectOp(")")
		}
		return c
	case tIdent:
		p.next()
		if p.isOp(".") {
			p.fail("unsupported", t.pos, "hierarchical reference %s.…", t.text)
		}
		if p.isOp("(") {
			p.next()
			c := &Call{Pos: t.pos, Name: t.text}
			if p.isOp(")") {
				p.syntax("function call %s() needs at least one argument", t.text)
			}
			for {
				c.Args = append(c.Args, p.parseExpr())
				if !p.acceptOp(",") {
					break
				}
			}
			p.expectOp(")")
			return c
		}
		return p.parseSelects(&Ident{Pos: t.pos, Name: t.text})
	case tOp:
		switch t.text {
		case "(":
			p.next()
			e := p.parseExpr()
			if p.isOp(":") {
				p.fail("unsupported", t.pos, "min:typ:max expression")
			}
			p.expectOp(")")
			return e
		case "{":
			p.next()
			if p.isOp("}") {
				p.syntax("empty concatenation")
			}
			first := p.parseExpr()
			if p.isOp("{") {
				// replication {n{...}}
				p.next()
				r := &Repl{Pos: t.pos, Count: first}
				for {
					r.Parts = append(r.Parts, p.parseExpr())
					if !p.acceptOp(",") {
						break
					}
				}
				p.expectOp("}")
				p.expectOp("}")
				return p.parseSelectsOnConcat(r)
			}
			c := &Concat{Pos: t.pos, Parts: []Expr{first}}
			for p.acceptOp(",") {
				c.Parts = append(c.Parts, p.parseExpr())
			}
			p.expectOp("}")
			return p.parseSelectsOnConcat(c)
		}
	case tKeyword:
		if t.text == "signed" || t.text == "unsigned" {
			break
		}
	}
	p.syntax("unexpected %s in expression", tokDesc(t))
	return nil
}

func (p *parser) parseSelectsOnConcat(e Expr) Expr {
	if p.isOp("[") {
		p.syntax("select applied to a concatenation (SystemVerilog, not Verilog-2001)")
	}
	return e
}
