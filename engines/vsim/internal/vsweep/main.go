// Command vsweep parses, lints, elaborates and briefly simulates every configuration
// directory produced by rendercorpus and prints a one-line summary per configuration.
//
//	go run ./engines/vsim/internal/vsweep <corpusdir> [-v]
package main

import (
	"errors"
	"fmt"
	"os"
	"path/filepath"
	"sort"
	"strings"

	"verif/engines/vsim"
)

func main() {
	root := os.Args[1]
	verbose := len(os.Args) > 2 && os.Args[2] == "-v"
	ents, _ := os.ReadDir(root)
	var names []string
	for _, e := range ents {
		if e.IsDir() {
			names = append(names, e.Name())
		}
	}
	sort.Strings(names)
	stats := map[string]int{}
	for _, n := range names {
		files := map[string]string{}
		vs, _ := filepath.Glob(filepath.Join(root, n, "*.v"))
		for _, f := range vs {
			b, _ := os.ReadFile(f)
			files[filepath.Base(f)] = string(b)
		}
		d, diags := vsim.Parse(files)
		status := "ok"
		var notes []string
		for _, dg := range diags {
			notes = append(notes, "PARSE "+dg.String())
			if dg.Class == "syntax" {
				status = "SYNTAX"
			} else if status == "ok" {
				status = "parse-unsupported"
			}
		}
		lint := d.Lint(nil)
		for _, dg := range lint {
			notes = append(notes, "LINT "+dg.String())
		}
		top := "bondmachine"
		if strings.HasPrefix(n, "bmstack") {
			top = "bmstack"
		}
		sim, err := d.Elaborate(top, nil)
		simStatus := "sim-ok"
		if err != nil {
			if errors.Is(err, vsim.ErrUnsupported) {
				simStatus = "sim-unsupported"
			} else {
				simStatus = "SIM-ERROR"
			}
			notes = append(notes, "ELAB "+err.Error())
		} else {
			if err := sim.Init(); err != nil {
				simStatus = "INIT-ERROR"
				notes = append(notes, "INIT "+err.Error())
			} else {
				clk, ok := sim.Lookup("clk")
				rst, ok2 := sim.Lookup("reset")
				if ok && ok2 {
					sim.Set(rst, 1)
					e1 := sim.Posedge(rst)
					e2 := sim.Posedge(clk)
					sim.Set(rst, 0)
					var e3 error
					for i := 0; i < 50 && e3 == nil; i++ {
						e3 = sim.Posedge(clk)
					}
					for _, e := range []error{e1, e2, e3} {
						if e != nil {
							simStatus = "RUN-ERROR"
							notes = append(notes, "RUN "+e.Error())
						}
					}
				}
			}
		}
		key := fmt.Sprintf("%s/%s/lint=%d", status, simStatus, len(lint))
		stats[key]++
		fmt.Printf("%-40s %-18s %-16s lint=%d\n", n, status, simStatus, len(lint))
		if verbose || status == "SYNTAX" || strings.ToUpper(simStatus) == simStatus {
			for _, x := range notes {
				fmt.Println("    " + x)
			}
		}
	}
	fmt.Println("---- summary")
	var ks []string
	for k := range stats {
		ks = append(ks, k)
	}
	sort.Strings(ks)
	for _, k := range ks {
		fmt.Printf("%5d %s\n", stats[k], k)
	}
}
