// Command rendercorpus renders a large corpus of BondMachine generator outputs
// (every opcode alone, shared objects, bmstack) into a directory, one
// sub-directory per configuration. Used to exercise the vsim front end.
//
//	go run ./engines/vsim/internal/rendercorpus <outdir>
package main

import (
	"fmt"
	"os"
	"path/filepath"
	"strconv"

	"verif/lib/bmgen"

	"github.com/BondMachineHQ/BondMachine/pkg/bmstack"
	"github.com/BondMachineHQ/BondMachine/pkg/bondmachine"
	"github.com/BondMachineHQ/BondMachine/pkg/procbuilder"
)

func write(dir string, files map[string]string) {
	os.MkdirAll(dir, 0o755)
	for k, v := range files {
		os.WriteFile(filepath.Join(dir, k), []byte(v), 0o644)
	}
}

func render(out, name string, spec bmgen.ArchSpec, sos []string) {
	defer func() {
		if p := recover(); p != nil {
			fmt.Printf("PANIC %s: %v\n", name, p)
		}
	}()
	mc, err := bmgen.NewMachine(spec)
	if err != nil {
		fmt.Printf("ERR %s: %v\n", name, err)
		return
	}
	b := bmgen.SingleBM(mc)
	if len(sos) > 0 {
		b.Add_shared_objects(sos)
		for i := range sos {
			b.Connect_processor_shared_object([]string{"0", strconv.Itoa(i)})
		}
	}
	// render inside the configuration directory: some generators (uart) drop extra files into the CWD
	dir := filepath.Join(out, name)
	os.MkdirAll(dir, 0o755)
	wd, _ := os.Getwd()
	os.Chdir(dir)
	files, err := bmgen.RenderFiles(b, new(bondmachine.Config), "iverilog")
	os.Chdir(wd)
	if err != nil {
		fmt.Printf("ERR %s: %v\n", name, err)
		return
	}
	write(dir, files)
}

func main() {
	out, _ := filepath.Abs(os.Args[1])
	var names []string
	for _, op := range procbuilder.Allopcodes {
		names = append(names, op.Op_get_name())
	}
	for _, n := range names {
		for _, r := range []uint8{1, 2} {
			for _, l := range []uint8{0, 2} {
				for _, mode := range []string{"ha"} {
					cfg := fmt.Sprintf("op_%s_R%d_L%d_%s", n, r, l, mode)
					render(out, cfg, bmgen.ArchSpec{Rsize: 8, R: r, N: 1, M: 1, L: l, O: 3, Ops: []string{n}, Modes: []string{mode}}, nil)
				}
			}
		}
	}
	// every opcode together with one input and one output opcode (so that the I/O plumbing regs exist)
	for _, n := range names {
		for _, r := range []uint8{1, 2} {
			for _, l := range []uint8{0, 2} {
				cfg := fmt.Sprintf("ctx_%s_R%d_L%d_ha", n, r, l)
				render(out, cfg, bmgen.ArchSpec{Rsize: 8, R: r, N: 1, M: 1, L: l, O: 3, Ops: []string{n, "i2rw", "r2owa"}, Modes: []string{"ha"}}, nil)
			}
		}
	}
	// other modes for a mix
	for _, mode := range []string{"hy", "vn"} {
		render(out, "mix_"+mode, bmgen.ArchSpec{Rsize: 8, R: 2, N: 1, M: 1, L: 3, O: 3,
			Ops: []string{"rset", "inc", "add", "j", "r2owa", "i2rw", "nop", "r2m", "m2r"}, Modes: []string{mode}}, nil)
	}
	// a 16 and 32 bit mix
	for _, rs := range []uint8{16, 32} {
		render(out, "mix_rs"+strconv.Itoa(int(rs)), bmgen.ArchSpec{Rsize: rs, R: 2, N: 2, M: 2, L: 3, O: 4,
			Ops: []string{"rset", "inc", "dec", "add", "sub", "and", "or", "xor", "not", "cpy", "clr", "nop", "j", "jz", "r2o", "i2r", "r2owa", "r2owaa", "i2rw", "sicv3", "sic", "r2m", "m2r", "mult", "addi", "cil", "cir"}}, nil)
	}
	// shared objects
	so := []struct {
		name string
		so   string
		ops  []string
	}{
		{"channel", "channel:", []string{"chc", "chw", "wrd", "wwr", "nop", "i2rw", "r2owa"}},
		{"barrier", "barrier:10", []string{"hit", "nop", "i2rw", "r2owa"}},
		{"lfsr8", "lfsr8:7", []string{"lfsr82r", "nop", "i2rw", "r2owa"}},
		{"queue", "queue:4", []string{"r2q", "q2r", "nop", "i2rw", "r2owa"}},
		{"stack", "stack:4", []string{"r2t", "t2r", "nop", "i2rw", "r2owa"}},
		{"sharedmem", "sharedmem:4", []string{"r2s", "s2r", "nop", "i2rw", "r2owa"}},
		{"uart", "uart:9600:4", []string{"r2u", "u2r", "nop", "i2rw", "r2owa"}},
		{"kbd", "kbd:4", []string{"k2r", "nop", "i2rw", "r2owa"}},
		{"vtextmem", "vtextmem:0:0:0:8:4", []string{"r2v", "r2vri", "nop", "i2rw", "r2owa"}},
	}
	for _, s := range so {
		render(out, "so_"+s.name, bmgen.ArchSpec{Rsize: 8, R: 2, N: 1, M: 1, L: 0, O: 3, Ops: s.ops}, []string{s.so})
	}
	// dynamic opcodes (best effort)
	for _, n := range []string{"rsets8", "call8", "push8", "addfxp_s8f4", "multfxp_s8f4", "stk_push", "flpaddw5e8"} {
		render(out, "dyn_"+n, bmgen.ArchSpec{Rsize: 16, R: 2, N: 1, M: 1, L: 0, O: 3, Ops: []string{n, "nop"}}, nil)
	}
	// bmstack
	for _, mt := range []string{"LIFO", "FIFO"} {
		for _, depth := range []int{1, 2, 4, 5} {
			for ns := 1; ns <= 3; ns++ {
				s := bmstack.CreateBasicStack()
				s.ModuleName = "bmstack"
				s.DataSize = 8
				s.Depth = depth
				s.MemType = mt
				for i := 0; i < ns; i++ {
					s.Senders = append(s.Senders, "s"+strconv.Itoa(i))
					s.Receivers = append(s.Receivers, "r"+strconv.Itoa(i))
				}
				v, err := s.WriteHDL()
				if err != nil {
					fmt.Println("ERR bmstack", err)
					continue
				}
				write(filepath.Join(out, fmt.Sprintf("bmstack_%s_d%d_n%d", mt, depth, ns)), map[string]string{"bmstack.v": v})
			}
		}
	}
}
