package vsim

import (
	"fmt"
	"sort"
	"strconv"
)

// Design is a set of parsed modules.
type Design struct {
	mods  map[string]*Module
	order []string
}

// PortInfo describes one port of a module (Width evaluated with default parameter values; 0 if unknown).
type PortInfo struct {
	Name  string
	Dir   string
	Width int
}

// Modules lists the module names in parse order.
func (d *Design) Modules() []string { return append([]string(nil), d.order...) }

// Module returns the AST of a module (nil if absent).
func (d *Design) Module(name string) *Module { return d.mods[name] }

type symKind int

const (
	symSig symKind = iota
	symParam
	symGenvar
)

type symbol struct {
	kind     symKind
	name     string
	sig      *signal
	msb, lsb int
	width    int
	signed   bool
	isArray  bool
	amin     int
	isNet    bool
	dir      string
	val      *constVal
	pos      Pos
}

type scope struct {
	parent      *scope
	syms        map[string]*symbol
	prefix      string // hierarchical prefix for signals declared here ("" or "a.b.")
	mod         *Module
	isMod       bool
	isFunc      bool
	funcs       map[string]*Function
	fnInst      map[string]*fnInst
	fnInstConst map[string]*fnInst
	blocks      map[*Block]*scope
	genCount    int
}

func (sc *scope) lookup(name string) *symbol {
	for s := sc; s != nil; s = s.parent {
		if sym, ok := s.syms[name]; ok {
			return sym
		}
		if s.isMod {
			break
		}
	}
	return nil
}

func (sc *scope) moduleScope() *scope {
	s := sc
	for !s.isMod {
		s = s.parent
	}
	return s
}

func (sc *scope) lookupFunc(name string) *Function { return sc.moduleScope().funcs[name] }

func (sc *scope) modName() string {
	for s := sc; s != nil; s = s.parent {
		if s.isMod && s.mod != nil {
			return s.mod.Name
		}
	}
	return ""
}

type procDef struct {
	kind   procKind
	cont   bool // continuous assignment (re-evaluates when its own target feeds back)
	run    func(*Sim) int
	pos    Pos
	where  string
	reads  map[*signal]struct{}
	writes map[*signal]struct{}
	posOn  []*signal
	negOn  []*signal
}

type elab struct {
	d       *Design
	sigs    []*signal
	names   map[string]SigID
	procs   []*procDef
	tmp     *Sim
	nwords  int
	depth   int
	top     bool
	shallow bool // lint trial elaboration: do not descend into instances
}

func newElab(d *Design) *elab {
	e := &elab{d: d, names: map[string]SigID{}}
	e.tmp = &Sim{p: &program{}, scratch: make([]uint64, 1024)}
	return e
}

func (e *elab) fail(class string, pos Pos, mod, ident, format string, a ...interface{}) {
	panic(elabError{Diag{Class: class, File: pos.File, Line: pos.Line, Module: mod, Ident: ident, Msg: fmt.Sprintf(format, a...)}})
}

// newSignal allocates storage. tmp signals live in the constant-evaluation scratch Sim.
func (e *elab) newSignal(name string, width, depth int, isReg, local, tmp bool) *signal {
	if width <= 0 {
		width = 1
	}
	sg := &signal{name: name, width: width, nw: nwords(width), depth: depth, isReg: isReg, local: local || tmp, tmp: tmp}
	n := sg.nw * sg.elems()
	if tmp {
		sg.off = len(e.tmp.w)
		e.tmp.w = append(e.tmp.w, make([]uint64, n)...)
		sg.id = -1
		return sg
	}
	if e.nwords+n > 1<<26 {
		e.fail("unsupported", Pos{}, "", name, "design state exceeds 512 MiB")
	}
	sg.off = e.nwords
	e.nwords += n
	sg.id = SigID(len(e.sigs))
	e.sigs = append(e.sigs, sg)
	if _, dup := e.names[name]; !dup {
		e.names[name] = sg.id
	}
	return sg
}

// evalConstIn evaluates a constant expression using the scope of an existing context.
func (e *elab) evalConstIn(c *cc, x Expr) constVal {
	cc2 := &cc{e: e, sc: c.sc, constOnly: true, reads: map[*signal]struct{}{}, writes: map[*signal]struct{}{}, loopVars: map[*signal]struct{}{}}
	return cc2.evalConst(x)
}

func (e *elab) evalConst(sc *scope, x Expr) constVal {
	c := &cc{e: e, sc: sc, constOnly: true, reads: map[*signal]struct{}{}, writes: map[*signal]struct{}{}, loopVars: map[*signal]struct{}{}}
	return c.evalConst(x)
}

func (c *cc) evalConst(x Expr) constVal {
	t := c.typeOf(x)
	ce := c.compileCtx(x, t.w, t.signed)
	if ce.isConst {
		return constVal{w: t.w, signed: t.signed, v: ce.cv}
	}
	s := c.e.tmp
	s.sp = 0
	s.err = nil
	var v []uint64
	if ce.w <= 64 {
		v = []uint64{ce.n(s)}
	} else {
		v = append([]uint64(nil), ce.wf(s)...)
	}
	if s.err != nil {
		err := s.err
		s.err = nil
		panic(elabError{err.(*DiagError).Diag})
	}
	return constVal{w: t.w, signed: t.signed, v: v}
}

// castConst converts a constant to the given type (assignment semantics).
func castConst(v constVal, w int, signed bool) constVal {
	out := make([]uint64, nwords(w))
	copy(out, v.v)
	if w > v.w && v.signed {
		wsext(out, v.w, w)
	}
	wmask(out, w)
	return constVal{w: w, signed: signed, v: out}
}

type declInfo struct {
	name     string
	pos      Pos
	dir      string
	kind     string // wire reg integer time genvar
	isReg    bool
	signed   bool
	hasRange bool
	msb, lsb int
	isArray  bool
	a, b     int
	init     Expr
	initNet  bool
}

// gatherDecls merges the declarations of a scope level (port + net/reg redeclarations).
func (e *elab) gatherDecls(sc *scope, items []Item) (order []string, infos map[string]*declInfo) {
	infos = map[string]*declInfo{}
	for _, it := range items {
		d, ok := it.(*Decl)
		if !ok || d.Kind == "parameter" || d.Kind == "localparam" {
			continue
		}
		for _, dn := range d.Names {
			in := infos[dn.Name]
			if in == nil {
				in = &declInfo{name: dn.Name, pos: dn.Pos}
				infos[dn.Name] = in
				order = append(order, dn.Name)
			}
			switch d.Kind {
			case "input", "output", "inout":
				in.dir = d.Kind
				switch d.NetType {
				case "reg":
					in.isReg = true
				case "integer":
					in.isReg, in.kind = true, "integer"
				case "time":
					in.isReg, in.kind = true, "time"
				}
			case "reg":
				in.isReg = true
				in.kind = "reg"
			case "integer", "time":
				in.isReg = true
				in.kind = d.Kind
			case "genvar":
				in.kind = "genvar"
			case "wire":
				if in.kind == "" {
					in.kind = "wire"
				}
			}
			if d.Signed {
				in.signed = true
			}
			if d.MSB != nil {
				in.hasRange = true
				in.msb = e.evalConst(sc, d.MSB).int()
				in.lsb = e.evalConst(sc, d.LSB).int()
			}
			if dn.ArrA != nil {
				in.isArray = true
				in.a = e.evalConst(sc, dn.ArrA).int()
				in.b = e.evalConst(sc, dn.ArrB).int()
			}
			if dn.Init != nil {
				in.init = dn.Init
				in.initNet = d.Kind == "wire"
			}
		}
	}
	return
}

func absInt(a int) int {
	if a < 0 {
		return -a
	}
	return a
}

func (in *declInfo) shape(e *elab, mod string) (width, depth, amin int, signed bool) {
	switch in.kind {
	case "integer":
		width, signed = 32, true
		in.msb, in.lsb = 31, 0
	case "time":
		width = 64
		in.msb, in.lsb = 63, 0
	default:
		width = 1
		if in.hasRange {
			width = absInt(in.msb-in.lsb) + 1
		}
		signed = in.signed
	}
	if width > 1<<16 {
		e.fail("unsupported", in.pos, mod, in.name, "vector %s wider than 65536 bits", in.name)
	}
	if in.isArray {
		depth = absInt(in.a-in.b) + 1
		amin = in.a
		if in.b < amin {
			amin = in.b
		}
		if depth > 1<<22 {
			e.fail("unsupported", in.pos, mod, in.name, "array %s deeper than 4M elements", in.name)
		}
	}
	return
}

type portConn struct {
	actual  Expr
	sc      *scope
	pos     Pos
	aliased bool
	sym     *symbol // child-side symbol (set when the port is declared)
}

type paramOverrides struct {
	named map[string]constVal
	pos   []constVal
}

type behav struct {
	sc   *scope
	item Item
}

// declareSignals creates symbols/signals for the gathered declarations of one scope level.
func (e *elab) declareSignals(sc *scope, order []string, infos map[string]*declInfo, conns map[string]*portConn, top bool, beh *[]behav) {
	mod := sc.modName()
	for _, name := range order {
		in := infos[name]
		if in.kind == "genvar" {
			sc.syms[name] = &symbol{kind: symGenvar, name: name, pos: in.pos}
			continue
		}
		if old, dup := sc.syms[name]; dup && old.kind == symParam {
			e.fail("duplicate-decl", in.pos, mod, name, "%s is already declared as a parameter", name)
		}
		width, depth, amin, signed := in.shape(e, mod)
		sym := &symbol{kind: symSig, name: name, msb: in.msb, lsb: in.lsb, width: width, signed: signed,
			isArray: in.isArray, amin: amin, isNet: !in.isReg, dir: in.dir, pos: in.pos}
		full := sc.prefix + name
		if in.dir != "" && conns != nil {
			if pc := conns[name]; pc != nil {
				pc.sym = sym
				if id, ok := pc.actual.(*Ident); ok && !in.isArray {
					if ps := pc.sc.lookup(id.Name); ps != nil && ps.kind == symSig && !ps.isArray && ps.width == width {
						sym.sig = ps.sig
						pc.aliased = true
						if in.isReg {
							ps.sig.isReg = true
						}
						ps.sig.aliases = append(ps.sig.aliases, full)
						if _, dup := e.names[full]; !dup {
							e.names[full] = ps.sig.id
						}
					}
				}
				if !pc.aliased && in.dir == "inout" && pc.actual != nil {
					e.fail("unsupported", pc.pos, mod, name, "inout port %s connected to an expression or a net of different width", name)
				}
			}
		}
		if sym.sig == nil {
			sym.sig = e.newSignal(full, width, depth, in.isReg, false, false)
			if top && (in.dir == "input" || in.dir == "inout") {
				sym.sig.isInput = true
			}
		}
		sc.syms[name] = sym
		if in.init != nil {
			id := &Ident{Pos: in.pos, Name: name}
			if in.initNet {
				*beh = append(*beh, behav{sc, &ContAssign{Pos: in.pos, LHS: id, RHS: in.init}})
			} else {
				*beh = append(*beh, behav{sc, &Initial{Pos: in.pos, Body: &AssignStmt{Pos: in.pos, LHS: id, RHS: in.init}}})
			}
		}
	}
}

// declareLocal declares reg/integer/time/parameter locals of functions and named blocks.
func (e *elab) declareLocal(c *cc, sc *scope, d *Decl, tmp bool) {
	if d.Kind == "parameter" || d.Kind == "localparam" {
		e.declareParams(sc, d, nil, nil)
		return
	}
	order, infos := e.gatherDecls(sc, []Item{d})
	mod := sc.modName()
	for _, name := range order {
		in := infos[name]
		if _, dup := sc.syms[name]; dup {
			e.fail("duplicate-decl", in.pos, mod, name, "%s declared twice", name)
		}
		width, depth, amin, signed := in.shape(e, mod)
		sym := &symbol{kind: symSig, name: name, msb: in.msb, lsb: in.lsb, width: width, signed: signed, isArray: in.isArray, amin: amin, pos: in.pos}
		sym.sig = e.newSignal(sc.prefix+name, width, depth, true, sc.isFunc, tmp)
		sc.syms[name] = sym
	}
}

func (e *elab) blockScope(c *cc, b *Block) *scope {
	parent := c.sc
	if parent.blocks == nil {
		parent.blocks = map[*Block]*scope{}
	}
	if s, ok := parent.blocks[b]; ok {
		return s
	}
	s := &scope{parent: parent, syms: map[string]*symbol{}, prefix: parent.prefix + b.Name + ".", isFunc: parent.isFunc}
	parent.blocks[b] = s
	for _, d := range b.Decls {
		e.declareLocal(c, s, d, c.constOnly)
	}
	return s
}

func (e *elab) declareParams(sc *scope, d *Decl, ov *paramOverrides, posIdx *int) {
	mod := sc.modName()
	for _, dn := range d.Names {
		if _, dup := sc.syms[dn.Name]; dup {
			e.fail("duplicate-decl", dn.Pos, mod, dn.Name, "parameter %s declared twice", dn.Name)
		}
		var v constVal
		overridden := false
		if ov != nil && d.Kind == "parameter" {
			if nv, ok := ov.named[dn.Name]; ok {
				v, overridden = nv, true
			} else if posIdx != nil && *posIdx < len(ov.pos) {
				v, overridden = ov.pos[*posIdx], true
			}
			if posIdx != nil {
				*posIdx++
			}
		}
		if !overridden {
			v = e.evalConst(sc, dn.Init)
		}
		// typed parameter
		switch {
		case d.NetType == "integer":
			v = castConst(v, 32, true)
		case d.NetType == "time":
			v = castConst(v, 64, false)
		case d.MSB != nil:
			m, l := e.evalConst(sc, d.MSB).int(), e.evalConst(sc, d.LSB).int()
			v = castConst(v, absInt(m-l)+1, d.Signed)
		case d.Signed:
			v = castConst(v, v.w, true)
		}
		vv := v
		sc.syms[dn.Name] = &symbol{kind: symParam, name: dn.Name, val: &vv, width: v.w, signed: v.signed, msb: v.w - 1, pos: dn.Pos}
	}
}

// collectImplicit declares implicit 1-bit nets for undeclared identifiers used as port actuals or assign targets.
func (e *elab) collectImplicit(sc *scope, items []Item) {
	msc := sc.moduleScope()
	declare := func(x Expr) {
		walkExpr(x, func(n Expr) {
			if id, ok := n.(*Ident); ok && sc.lookup(id.Name) == nil {
				if msc.mod != nil && msc.mod.NettypeNone {
					e.fail("undeclared", id.Pos, msc.mod.Name, id.Name, "identifier %s is not declared (`default_nettype none)", id.Name)
				}
				sg := e.newSignal(msc.prefix+id.Name, 1, 0, false, false, false)
				msc.syms[id.Name] = &symbol{kind: symSig, name: id.Name, width: 1, sig: sg, isNet: true, pos: id.Pos}
			}
		})
	}
	for _, it := range items {
		switch x := it.(type) {
		case *ContAssign:
			declare(lvalBase(x.LHS))
		case *Instance:
			for _, cn := range x.Conns {
				if cn.X != nil {
					if id, ok := cn.X.(*Ident); ok {
						declare(id)
					}
				}
			}
		}
	}
}

// lvalBase strips selects so that only the target identifiers remain (index expressions are not targets).
func lvalBase(x Expr) Expr {
	switch v := x.(type) {
	case *Index:
		return lvalBase(v.X)
	case *RangeSel:
		return lvalBase(v.X)
	case *Concat:
		c := &Concat{Pos: v.Pos}
		for _, p := range v.Parts {
			c.Parts = append(c.Parts, lvalBase(p))
		}
		return c
	}
	return x
}

func walkExpr(x Expr, f func(Expr)) {
	if x == nil {
		return
	}
	f(x)
	switch v := x.(type) {
	case *Index:
		walkExpr(v.X, f)
		walkExpr(v.I, f)
	case *RangeSel:
		walkExpr(v.X, f)
		walkExpr(v.A, f)
		walkExpr(v.B, f)
	case *Concat:
		for _, p := range v.Parts {
			walkExpr(p, f)
		}
	case *Repl:
		walkExpr(v.Count, f)
		for _, p := range v.Parts {
			walkExpr(p, f)
		}
	case *Unary:
		walkExpr(v.X, f)
	case *Binary:
		walkExpr(v.L, f)
		walkExpr(v.R, f)
	case *Cond:
		walkExpr(v.C, f)
		walkExpr(v.T, f)
		walkExpr(v.F, f)
	case *Call:
		for _, a := range v.Args {
			walkExpr(a, f)
		}
	}
}

const genCap = 1 << 16

// elabLevel processes one scope level of module items (module body or generate block body).
func (e *elab) elabLevel(sc *scope, items []Item, conns map[string]*portConn, top bool, ov *paramOverrides, beh *[]behav) {
	// 0. functions (constant functions may be used by parameters)
	for _, it := range items {
		if f, ok := it.(*Function); ok {
			msc := sc.moduleScope()
			msc.funcs[f.Name] = f
		}
	}
	// 1. parameters in order
	posIdx := 0
	for _, it := range items {
		if d, ok := it.(*Decl); ok && (d.Kind == "parameter" || d.Kind == "localparam") {
			if sc.isMod {
				e.declareParams(sc, d, ov, &posIdx)
			} else {
				e.declareParams(sc, d, nil, nil)
			}
		}
	}
	if sc.isMod && ov != nil {
		for name := range ov.named {
			if s, ok := sc.syms[name]; !ok || s.kind != symParam {
				e.fail("port-count", sc.mod.Pos, sc.mod.Name, name, "module %s has no parameter %s", sc.mod.Name, name)
			}
		}
		if len(ov.pos) > posIdx {
			e.fail("port-count", sc.mod.Pos, sc.mod.Name, "", "too many positional parameter overrides for module %s", sc.mod.Name)
		}
	}
	// 3. signals
	order, infos := e.gatherDecls(sc, items)
	e.declareSignals(sc, order, infos, conns, top, beh)
	// 4. behaviour, generate expansion (in source order)
	for _, it := range items {
		switch x := it.(type) {
		case *Decl, *Function:
		case *GenFor:
			e.expandGenFor(sc, x, beh)
		case *GenIf:
			cv := e.evalConst(sc, x.Cond)
			body, label := x.Then, x.ThenLabel
			if wisZero(cv.v) {
				body, label = x.Else, x.ElseLabel
			}
			if body != nil {
				sub := e.genScope(sc, label, -1)
				e.elabLevel(sub, body, nil, false, nil, beh)
			}
		case *GenBlock:
			sub := e.genScope(sc, x.Label, -1)
			e.elabLevel(sub, x.Items, nil, false, nil, beh)
		default:
			*beh = append(*beh, behav{sc, it})
		}
	}
}

func (e *elab) genLabel(parent *scope, label string) string {
	if label == "" {
		msc := parent.moduleScope()
		msc.genCount++
		label = "genblk" + strconv.Itoa(msc.genCount)
	}
	return label
}

func (e *elab) genScope(parent *scope, label string, idx int) *scope {
	p := parent.prefix + e.genLabel(parent, label)
	if idx >= 0 {
		p += "[" + strconv.Itoa(idx) + "]"
	}
	return &scope{parent: parent, syms: map[string]*symbol{}, prefix: p + "."}
}

func (e *elab) expandGenFor(sc *scope, g *GenFor, beh *[]behav) {
	mod := sc.modName()
	gv := sc.lookupGenvar(g.Var)
	if gv == nil {
		e.fail("undeclared", g.Pos, mod, g.Var, "genvar %s is not declared", g.Var)
	}
	if g.StepVar != g.Var {
		e.fail("syntax", g.Pos, mod, g.Var, "generate loop must step its own genvar %s", g.Var)
	}
	label := e.genLabel(sc, g.Label)
	cur := castConst(e.evalConst(sc, g.Init), 32, true)
	for n := 0; ; n++ {
		if n > genCap {
			e.fail("unsupported", g.Pos, mod, g.Var, "generate loop exceeds %d iterations", genCap)
		}
		sub := &scope{parent: sc, syms: map[string]*symbol{}, prefix: sc.prefix + label + "[" + strconv.Itoa(cur.int()) + "]."}
		cv := cur
		sub.syms[g.Var] = &symbol{kind: symParam, name: g.Var, val: &cv, width: 32, signed: true, msb: 31}
		if wisZero(e.evalConst(sub, g.Cond).v) {
			break
		}
		e.elabLevel(sub, g.Items, nil, false, nil, beh)
		cur = castConst(e.evalConst(sub, g.Step), 32, true)
	}
}

func (sc *scope) lookupGenvar(name string) *symbol {
	for s := sc; s != nil; s = s.parent {
		if sym, ok := s.syms[name]; ok && sym.kind == symGenvar {
			return sym
		}
		if s.isMod {
			break
		}
	}
	return nil
}

func (e *elab) elabModule(m *Module, prefix string, ov *paramOverrides, conns map[string]*portConn, top bool) {
	if m.Broken != nil {
		panic(elabError{*m.Broken})
	}
	if len(m.Unsupported) > 0 {
		panic(elabError{m.Unsupported[0]})
	}
	e.depth++
	defer func() { e.depth-- }()
	if e.depth > 64 {
		e.fail("unsupported", m.Pos, m.Name, "", "instantiation depth exceeds 64 (recursive instantiation?)")
	}
	sc := &scope{syms: map[string]*symbol{}, prefix: prefix, mod: m, isMod: true, funcs: map[string]*Function{},
		fnInst: map[string]*fnInst{}, fnInstConst: map[string]*fnInst{}}
	var beh []behav
	e.elabLevel(sc, m.Items, conns, top, ov, &beh)
	// ports must be declared
	for _, pn := range m.PortNames {
		sym := sc.syms[pn]
		if sym == nil || sym.dir == "" {
			e.fail("undeclared", m.Pos, m.Name, pn, "port %s of module %s has no direction declaration", pn, m.Name)
		}
	}
	// implicit nets per scope
	byScope := map[*scope][]Item{}
	var scopes []*scope
	for _, b := range beh {
		if _, ok := byScope[b.sc]; !ok {
			scopes = append(scopes, b.sc)
		}
		byScope[b.sc] = append(byScope[b.sc], b.item)
	}
	for _, s := range scopes {
		e.collectImplicit(s, byScope[s])
	}
	path := prefix
	if path == "" {
		path = m.Name + "."
	}
	for _, b := range beh {
		e.elabBehav(b.sc, b.item, path)
	}
}

func (e *elab) addProc(c *cc, kind procKind, run func(*Sim) int, pos Pos, path string) *procDef {
	for sg := range c.loopVars {
		delete(c.reads, sg)
	}
	pd := &procDef{kind: kind, run: run, pos: pos, where: fmt.Sprintf("%s%s:%d", path, pos.File, pos.Line), reads: c.reads, writes: c.writes}
	e.procs = append(e.procs, pd)
	return pd
}

func (e *elab) elabBehav(sc *scope, it Item, path string) {
	switch x := it.(type) {
	case *ContAssign:
		c := e.newCC(sc)
		lv := c.compileLval(x.LHS)
		run := c.compileAssignTo(lv, x.RHS, false)
		e.addProc(c, pComb, run, x.Pos, path).cont = true
	case *Initial:
		c := e.newCC(sc)
		c.inInit = true
		run := c.compileStmt(x.Body)
		e.addProc(c, pInit, run, x.Pos, path)
	case *Always:
		c := e.newCC(sc)
		edges, levels := 0, 0
		for _, ev := range x.Events {
			if ev.Edge != "" {
				edges++
			} else {
				levels++
			}
		}
		if !x.Star && edges+levels == 0 {
			c.unsup(x.Pos, "always block without event control")
		}
		if edges > 0 && levels > 0 {
			c.unsup(x.Pos, "always block mixing edge and level sensitivity")
		}
		if edges == 0 {
			// combinational: explicit lists are treated as @*; identifiers must still resolve
			for _, ev := range x.Events {
				walkExpr(ev.X, func(n Expr) {
					if id, ok := n.(*Ident); ok {
						c.lookup(id)
					}
				})
			}
			run := c.compileStmt(x.Body)
			e.addProc(c, pComb, run, x.Pos, path)
			return
		}
		var posOn, negOn []*signal
		for _, ev := range x.Events {
			id, ok := ev.X.(*Ident)
			if !ok {
				c.unsup(x.Pos, "edge event on an expression (only plain identifiers are supported)")
			}
			sym := c.lookup(id)
			if sym.kind != symSig || sym.isArray {
				c.errf("syntax", id.Pos, "%s cannot be used in an edge event", id.Name)
			}
			if sym.width > 1 && sym.msb < sym.lsb {
				c.unsup(x.Pos, "edge event on ascending-range vector %s", id.Name)
			}
			if ev.Edge == "posedge" {
				posOn = append(posOn, sym.sig)
			} else {
				negOn = append(negOn, sym.sig)
			}
		}
		run := c.compileStmt(x.Body)
		pd := e.addProc(c, pEdge, run, x.Pos, path)
		pd.posOn, pd.negOn = posOn, negOn
	case *Instance:
		e.elabInstance(sc, x, path)
	default:
		e.fail("unsupported", it.itemPos(), sc.modName(), "", "module item not supported")
	}
}

func (e *elab) elabInstance(sc *scope, inst *Instance, path string) {
	if e.shallow {
		return
	}
	mod := sc.modName()
	m := e.d.mods[inst.Mod]
	if m == nil {
		e.fail("undefined-module", inst.Pos, mod, inst.Mod, "module %s (instance %s) is not defined in the file set", inst.Mod, inst.Name)
	}
	ov := &paramOverrides{named: map[string]constVal{}}
	for _, p := range inst.Params {
		if p.X == nil {
			continue
		}
		v := e.evalConst(sc, p.X)
		if inst.NamedParams {
			ov.named[p.Name] = v
		} else {
			ov.pos = append(ov.pos, v)
		}
	}
	conns := map[string]*portConn{}
	if inst.NamedConns {
		for _, cn := range inst.Conns {
			found := false
			for _, pn := range m.PortNames {
				if pn == cn.Name {
					found = true
				}
			}
			if !found {
				e.fail("port-count", cn.Pos, mod, inst.Name, "module %s has no port %s (instance %s)", m.Name, cn.Name, inst.Name)
			}
			if _, dup := conns[cn.Name]; dup {
				e.fail("port-count", cn.Pos, mod, inst.Name, "port %s connected twice (instance %s)", cn.Name, inst.Name)
			}
			conns[cn.Name] = &portConn{actual: cn.X, sc: sc, pos: cn.Pos}
		}
	} else {
		if len(inst.Conns) != len(m.PortNames) && !(len(inst.Conns) == 0) {
			e.fail("port-count", inst.Pos, mod, inst.Name, "instance %s of %s has %d connections but the module has %d ports",
				inst.Name, m.Name, len(inst.Conns), len(m.PortNames))
		}
		for i, cn := range inst.Conns {
			conns[m.PortNames[i]] = &portConn{actual: cn.X, sc: sc, pos: cn.Pos}
		}
	}
	for _, pc := range conns {
		if pc.actual == nil {
			continue
		}
	}
	childPrefix := sc.prefix + inst.Name + "."
	mark := len(e.procs)
	e.elabModule(m, childPrefix, ov, conns, false)
	_ = mark
	// port assignments for connections that could not be collapsed
	names := make([]string, 0, len(conns))
	for n := range conns {
		names = append(names, n)
	}
	sort.Strings(names)
	for _, n := range names {
		pc := conns[n]
		if pc.aliased || pc.actual == nil || pc.sym == nil {
			continue
		}
		c := e.newCC(sc)
		switch pc.sym.dir {
		case "input":
			run := c.compileAssignTo(lvalWhole(pc.sym.sig), pc.actual, false)
			c.wrote(pc.sym.sig)
			e.addProc(c, pComb, run, pc.pos, path)
		case "output":
			lv := c.compileLval(pc.actual)
			sg := pc.sym.sig
			c.read(sg)
			off, nw := sg.off, sg.nw
			var src cexpr
			if nw == 1 {
				src = cexpr{w: sg.width, n: func(s *Sim) uint64 { return s.w[off] }}
			} else {
				src = cexpr{w: sg.width, wf: func(s *Sim) []uint64 { return s.w[off : off+nw] }}
			}
			W := max(lv.w, sg.width)
			src = c.extend(src, typ{sg.width, pc.sym.signed}, W, pc.sym.signed)
			src = c.trunc(src, lv.w)
			e.addProc(c, pComb, assignFn(lv, src, false), pc.pos, path)
		default:
			e.fail("unsupported", pc.pos, mod, inst.Name, "inout port %s of instance %s is not connected to a plain net", n, inst.Name)
		}
	}
}

// Ports returns the ports of a module in port-list order.
func (d *Design) Ports(module string) []PortInfo {
	m := d.mods[module]
	if m == nil {
		return nil
	}
	info := map[string]*PortInfo{}
	e := newElab(d)
	sc := &scope{syms: map[string]*symbol{}, mod: m, isMod: true, funcs: map[string]*Function{}, fnInst: map[string]*fnInst{}, fnInstConst: map[string]*fnInst{}}
	func() {
		defer func() { recover() }()
		for _, it := range m.Items {
			if dd, ok := it.(*Decl); ok && (dd.Kind == "parameter" || dd.Kind == "localparam") {
				func() {
					defer func() { recover() }()
					e.declareParams(sc, dd, nil, nil)
				}()
			}
		}
	}()
	for _, it := range m.Items {
		dd, ok := it.(*Decl)
		if !ok {
			continue
		}
		for _, dn := range dd.Names {
			pi := info[dn.Name]
			isDir := dd.Kind == "input" || dd.Kind == "output" || dd.Kind == "inout"
			if pi == nil {
				if !isDir {
					// a net/reg declaration that precedes the direction declaration still matters for width
					pi = &PortInfo{Name: dn.Name}
					info[dn.Name] = pi
				} else {
					pi = &PortInfo{Name: dn.Name, Width: 1}
					info[dn.Name] = pi
				}
			}
			if isDir {
				pi.Dir = dd.Kind
				if pi.Width == 0 {
					pi.Width = 1
				}
			}
			if dd.Kind == "integer" || dd.NetType == "integer" {
				pi.Width = 32
			}
			if dd.MSB != nil {
				func() {
					defer func() {
						if recover() != nil {
							pi.Width = 0
						}
					}()
					pi.Width = absInt(e.evalConst(sc, dd.MSB).int()-e.evalConst(sc, dd.LSB).int()) + 1
				}()
			}
		}
	}
	var out []PortInfo
	for _, pn := range m.PortNames {
		if pi := info[pn]; pi != nil && pi.Dir != "" {
			out = append(out, *pi)
		} else {
			out = append(out, PortInfo{Name: pn})
		}
	}
	return out
}

// Elaborate flattens the hierarchy under top and compiles it. params overrides parameters of the top module.
func (d *Design) Elaborate(top string, params map[string]uint64) (sim *Sim, err error) {
	m := d.mods[top]
	if m == nil {
		return nil, &DiagError{Diag{Class: "undefined-module", Module: top, Ident: top, Msg: "top module " + top + " not found"}}
	}
	e := newElab(d)
	defer func() {
		if r := recover(); r != nil {
			ee, ok := r.(elabError)
			if !ok {
				panic(r)
			}
			sim, err = nil, &DiagError{ee.d}
		}
	}()
	ov := &paramOverrides{named: map[string]constVal{}}
	for k, v := range params {
		w := 32
		if v>>31 != 0 {
			w = 64
		}
		ov.named[k] = constVal{w: w, signed: w == 32, v: []uint64{v}}
	}
	e.elabModule(m, "", ov, nil, true)
	p := e.finish(top)
	return newSim(p), nil
}

// finish orders processes, builds fanout tables and the immutable program.
func (e *elab) finish(top string) *program {
	p := &program{sigs: e.sigs, names: e.names, nwords: e.nwords, top: top}
	p.asgWords = (len(e.sigs) + 63) / 64
	var combs []*procDef
	written := map[*signal]bool{}
	for _, pd := range e.procs {
		switch pd.kind {
		case pComb:
			combs = append(combs, pd)
		case pEdge:
			pr := &proc{kind: pEdge, run: pd.run, where: pd.where, pos: pd.pos, idx: len(p.edge)}
			for _, sg := range pd.posOn {
				sg.pos = append(sg.pos, int32(pr.idx))
				sg.watched = true
			}
			for _, sg := range pd.negOn {
				sg.neg = append(sg.neg, int32(pr.idx))
				sg.watched = true
			}
			p.edge = append(p.edge, pr)
		case pInit:
			p.inits = append(p.inits, &proc{kind: pInit, run: pd.run, where: pd.where, pos: pd.pos})
		}
		if pd.kind != pInit {
			for sg := range pd.writes {
				written[sg] = true
			}
		}
	}
	// topological order of combinational processes (Kahn, stable)
	n := len(combs)
	writers := map[*signal][]int{}
	for i, pd := range combs {
		for sg := range pd.writes {
			writers[sg] = append(writers[sg], i)
		}
	}
	succ := make([][]int, n)
	indeg := make([]int, n)
	for j, pd := range combs {
		seen := map[int]bool{}
		for sg := range pd.reads {
			for _, i := range writers[sg] {
				if i != j && !seen[i] {
					seen[i] = true
					succ[i] = append(succ[i], j)
					indeg[j]++
				}
			}
		}
	}
	orderIdx := make([]int, 0, n)
	done := make([]bool, n)
	ready := []int{}
	for i := 0; i < n; i++ {
		if indeg[i] == 0 {
			ready = append(ready, i)
		}
	}
	for len(orderIdx) < n {
		if len(ready) == 0 {
			// cycle: release the lowest-numbered remaining process
			for i := 0; i < n; i++ {
				if !done[i] {
					ready = append(ready, i)
					indeg[i] = 0
					break
				}
			}
		}
		sort.Ints(ready)
		i := ready[0]
		ready = ready[1:]
		if done[i] {
			continue
		}
		done[i] = true
		orderIdx = append(orderIdx, i)
		for _, j := range succ[i] {
			if done[j] {
				continue
			}
			indeg[j]--
			if indeg[j] == 0 {
				ready = append(ready, j)
			}
		}
	}
	for k, i := range orderIdx {
		pd := combs[i]
		p.comb = append(p.comb, &proc{kind: pComb, run: pd.run, where: pd.where, pos: pd.pos, idx: k, cont: pd.cont})
		for sg := range pd.reads {
			w, m := int32(k>>6), uint64(1)<<uint(k&63)
			merged := false
			for fi := range sg.fan {
				if sg.fan[fi].w == w {
					sg.fan[fi].m |= m
					merged = true
					break
				}
			}
			if !merged {
				sg.fan = append(sg.fan, fanEnt{w, m})
			}
		}
	}
	for _, sg := range e.sigs {
		if sg.depth != 0 {
			sg.watched = false
		}
		sg.isConst = !written[sg] && !sg.isInput
		if (sg.isReg || sg.isInput) && !sg.isConst {
			p.keySigs = append(p.keySigs, sg)
		}
	}
	return p
}
