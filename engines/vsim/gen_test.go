package vsim

import (
	"errors"
	"fmt"
	"math/rand"
	"os"
	"path/filepath"
	"strconv"
	"strings"
	"testing"

	"verif/lib/bmgen"

	"github.com/BondMachineHQ/BondMachine/pkg/bmstack"
	"github.com/BondMachineHQ/BondMachine/pkg/bondmachine"
)

// renderProcessor renders the file set of a single-processor BondMachine with the real generator.
func renderProcessor(tb testing.TB, spec bmgen.ArchSpec, asm string, sos ...string) map[string]string {
	tb.Helper()
	mc, err := bmgen.NewMachine(spec)
	if err != nil {
		tb.Fatal(err)
	}
	if asm != "" {
		prog, err := mc.Arch.Assembler([]byte(strings.ReplaceAll(asm, ";", "\n") + "\n"))
		if err != nil {
			tb.Fatal(err)
		}
		mc.Program = prog
	}
	b := bmgen.SingleBM(mc)
	if len(sos) > 0 {
		b.Add_shared_objects(sos)
		for i := range sos {
			b.Connect_processor_shared_object([]string{"0", strconv.Itoa(i)})
		}
	}
	// some generators (uart) write extra files into the current directory as a side effect:
	// render inside a scratch directory and pick those files up as part of the file set
	wd, err := os.Getwd()
	if err != nil {
		tb.Fatal(err)
	}
	tmp := tb.TempDir()
	if err := os.Chdir(tmp); err != nil {
		tb.Fatal(err)
	}
	defer os.Chdir(wd)
	files, err := bmgen.RenderFiles(b, new(bondmachine.Config), "iverilog")
	if err != nil {
		tb.Fatal(err)
	}
	extra, _ := filepath.Glob(filepath.Join(tmp, "*.v"))
	for _, f := range extra {
		if txt, err := os.ReadFile(f); err == nil {
			files[filepath.Base(f)] = string(txt)
		}
	}
	return files
}

func renderStack(tb testing.TB, memType string, depth, senders, receivers int) string {
	tb.Helper()
	s := bmstack.CreateBasicStack()
	s.ModuleName = "bmstack"
	s.DataSize = 8
	s.Depth = depth
	s.MemType = memType
	for i := 0; i < senders; i++ {
		s.Senders = append(s.Senders, "s"+strconv.Itoa(i))
	}
	for i := 0; i < receivers; i++ {
		s.Receivers = append(s.Receivers, "r"+strconv.Itoa(i))
	}
	v, err := s.WriteHDL()
	if err != nil {
		tb.Fatal(err)
	}
	return v
}

type gsim struct {
	tb testing.TB
	*Sim
}

func (g gsim) id(n string) SigID {
	g.tb.Helper()
	id, ok := g.Lookup(n)
	if !ok {
		g.tb.Fatalf("no signal %s", n)
	}
	return id
}
func (g gsim) get(n string) uint64 { g.tb.Helper(); return g.Get(g.id(n)) }
func (g gsim) set(n string, v uint64) {
	g.tb.Helper()
	g.Set(g.id(n), v)
}
func (g gsim) clk(n string) {
	g.tb.Helper()
	if err := g.Posedge(g.id(n)); err != nil {
		g.tb.Fatal(err)
	}
}

func buildSim(tb testing.TB, files map[string]string, top string, wantLintClean bool) gsim {
	tb.Helper()
	d, diags := Parse(files)
	if len(diags) != 0 {
		tb.Fatalf("parse diagnostics: %v", diags)
	}
	if l := d.Lint(nil); wantLintClean && len(l) != 0 {
		tb.Fatalf("lint diagnostics: %v", l)
	}
	s, err := d.Elaborate(top, nil)
	if err != nil {
		tb.Fatal(err)
	}
	if err := s.Init(); err != nil {
		tb.Fatal(err)
	}
	return gsim{tb, s}
}

const exampleProgram = "rset r0 5;inc r0;i2rw r1 i0;add r0 r1;r2owa r0 o0;j 1"

var exampleSpec = bmgen.ArchSpec{Rsize: 8, R: 2, N: 1, M: 1, L: 0, O: 3, Ops: []string{"rset", "inc", "add", "j", "r2owa", "i2rw", "nop"}}

func resetProcessor(g gsim) {
	g.set("reset", 0)
	if err := g.Posedge(g.id("reset")); err != nil { // asynchronous reset edge
		g.tb.Fatal(err)
	}
	g.clk("clk") // reset still high: reset branch
	g.set("reset", 0)
}

// TestGeneratedProcessor runs the example program on the real generated hierarchy bondmachine -> a0 -> p0 + p0rom.
func TestGeneratedProcessor(t *testing.T) {
	files := renderProcessor(t, exampleSpec, exampleProgram)
	for _, f := range []string{"bondmachine.v", "arch_0.v", "p0.v", "p0rom.v"} {
		if files[f] == "" {
			t.Fatalf("generator did not produce %s", f)
		}
	}
	g := buildSim(t, files, "bondmachine", true)
	const P = "a0_inst.p0_instance."
	if !g.Uninitialised(g.id(P + "_r0")) {
		t.Fatal("_r0 should be uninitialised before reset")
	}
	// ROM contents after Init
	if got := g.GetMem(g.id("a0_inst.p0rom_instance._rom"), 0); got != 0b1100000000101 {
		t.Fatalf("rom[0]=%b", got)
	}
	resetProcessor(g)
	if g.Uninitialised(g.id(P + "_r0")) {
		t.Fatal("_r0 should be initialised by reset")
	}
	exp := func(step string, pc, r0, r1 uint64) {
		t.Helper()
		if g.get(P+"_pc") != pc || g.get(P+"_r0") != r0 || g.get(P+"_r1") != r1 {
			t.Fatalf("%s: pc=%d r0=%d r1=%d, want pc=%d r0=%d r1=%d", step, g.get(P+"_pc"), g.get(P+"_r0"), g.get(P+"_r1"), pc, r0, r1)
		}
	}
	exp("reset", 0, 0, 0)
	g.clk("clk")
	exp("rset r0 5", 1, 5, 0)
	g.clk("clk")
	exp("inc r0", 2, 6, 0)
	// i2rw r1 i0 blocks until i0_valid
	g.clk("clk")
	g.clk("clk")
	exp("i2rw waiting", 2, 6, 0)
	if g.get("i0_received") != 0 {
		t.Fatal("i0_received high without valid")
	}
	g.set("i0", 7)
	g.set("i0_valid", 1)
	g.clk("clk")
	exp("i2rw r1 i0", 3, 6, 7)
	if g.get("i0_received") != 1 {
		t.Fatal("i0_received should acknowledge")
	}
	g.set("i0_valid", 0)
	g.clk("clk")
	exp("add r0 r1", 4, 13, 7)
	if g.get("i0_received") != 0 {
		t.Fatal("i0_received should drop after valid drops")
	}
	// r2owa r0 o0: first cycle arms the wait state machine, then data+valid, then waits for o0_received
	g.clk("clk")
	exp("r2owa arm", 4, 13, 7)
	g.clk("clk")
	if g.get("o0") != 13 || g.get("o0_valid") != 1 {
		t.Fatalf("o0=%d valid=%d", g.get("o0"), g.get("o0_valid"))
	}
	g.clk("clk")
	exp("r2owa waiting", 4, 13, 7)
	g.set("o0_received", 1)
	g.clk("clk")
	exp("r2owa done", 5, 13, 7)
	g.clk("clk") // j 1; valid drops because received is seen
	exp("j 1", 1, 13, 7)
	if g.get("o0_valid") != 0 {
		t.Fatal("o0_valid should drop after o0_received")
	}
	g.set("o0_received", 0)
	g.clk("clk")
	exp("inc r0 (2nd)", 2, 14, 7)
	// aliases of collapsed ports resolve to the same storage
	a, _ := g.Lookup("clk")
	b, ok := g.Lookup(P + "clock_signal")
	if !ok || a != b {
		t.Fatalf("clock alias: %d %d %v", a, b, ok)
	}
	// asynchronous reset in the middle of the run
	if err := g.Posedge(g.id("reset")); err != nil {
		t.Fatal(err)
	}
	exp("async reset", 0, 0, 0)
}

// TestGeneratedProcessorWithRAM exercises r2m/m2r and the pNram module.
func TestGeneratedProcessorWithRAM(t *testing.T) {
	spec := bmgen.ArchSpec{Rsize: 8, R: 2, N: 1, M: 1, L: 2, O: 4, Ops: []string{"rset", "r2m", "m2r", "inc", "j", "i2rw", "r2owa", "nop"}}
	files := renderProcessor(t, spec, "rset r0 9;r2m r0 2;rset r0 0;m2r r1 2;inc r1;j 5")
	if files["p0ram.v"] == "" {
		t.Fatal("no RAM file")
	}
	g := buildSim(t, files, "bondmachine", true)
	resetProcessor(g)
	const P = "a0_inst.p0_instance."
	for i := 0; i < 40 && g.get(P+"_pc") != 5; i++ {
		g.clk("clk")
	}
	if g.get(P+"_pc") != 5 {
		t.Fatalf("program did not reach pc 5 (pc=%d)", g.get(P+"_pc"))
	}
	if g.get(P+"_r1") != 10 || g.get(P+"_r0") != 0 {
		t.Fatalf("r0=%d r1=%d, want r0=0 r1=10", g.get(P+"_r0"), g.get(P+"_r1"))
	}
	ram, ok := g.Lookup("a0_inst.p0ram_instance.mem")
	if !ok {
		for _, si := range g.Signals() {
			if si.Depth > 0 {
				t.Logf("memory %s", si.Name)
			}
		}
		t.Fatal("RAM memory not found")
	}
	if g.GetMem(ram, 2) != 9 {
		t.Fatalf("ram[2]=%d", g.GetMem(ram, 2))
	}
}

// every required opcode template simulates in a processor that also has i2rw/r2owa
func TestRequiredOpcodesSimulate(t *testing.T) {
	ops := []string{"rset", "inc", "dec", "add", "sub", "and", "or", "xor", "not", "cpy", "clr", "nop", "j", "jz", "r2o", "i2r",
		"r2owa", "r2owaa", "i2rw", "sicv3", "sic", "r2m", "m2r", "mult", "addi", "cil", "cir"}
	for _, rs := range []uint8{8, 16, 32} {
		spec := bmgen.ArchSpec{Rsize: rs, R: 2, N: 2, M: 2, L: 3, O: 5, Ops: ops}
		files := renderProcessor(t, spec, "rset r0 3;rset r1 4;add r0 r1;mult r0 r1;dec r0;cpy r2 r0;not r2 r2;xor r2 r0;clr r1;jz r1 11;nop;sub r0 r2;cil r0;cir r0;and r0 r2;or r0 r2;j 16")
		d, diags := Parse(files)
		if len(diags) != 0 {
			t.Fatalf("rs%d: %v", rs, diags)
		}
		s, err := d.Elaborate("bondmachine", nil)
		if err != nil {
			t.Fatalf("rs%d: %v", rs, err)
		}
		if err := s.Init(); err != nil {
			t.Fatal(err)
		}
		g := gsim{t, s}
		resetProcessor(g)
		const P = "a0_inst.p0_instance."
		type st struct{ pc, r0, r1, r2 uint64 }
		m := uint64(1)<<rs - 1
		want := []st{
			{1, 3, 0, 0}, {2, 3, 4, 0}, {3, 7, 4, 0}, {4, 28, 4, 0}, {5, 27, 4, 0}, {6, 27, 4, 27}, {7, 27, 4, ^uint64(27) & m},
			{8, 27, 4, m}, {9, 27, 0, m}, {11, 27, 0, m}, {12, 28, 0, m}, {13, 56, 0, m}, {14, 28, 0, m}, {15, 28, 0, m}, {16, m, 0, m}, {16, m, 0, m},
		}
		for i, w := range want {
			g.clk("clk")
			got := st{g.get(P + "_pc"), g.get(P + "_r0"), g.get(P + "_r1"), g.get(P + "_r2")}
			if got != w {
				t.Fatalf("rs%d step %d: got %+v want %+v", rs, i, got, w)
			}
		}
	}
}

// stack agents drive the bmstack handshake
func stackPush(g gsim, agent string, v uint64) {
	g.tb.Helper()
	g.set(agent+"Data", v)
	g.set(agent+"Write", 1)
	for i := 0; ; i++ {
		g.clk("clk")
		if g.get(agent+"Ack") == 1 {
			break
		}
		if i > 20 {
			g.tb.Fatalf("push %s %d: no ack", agent, v)
		}
	}
	g.set(agent+"Write", 0)
	g.clk("clk")
	if g.get(agent+"Ack") != 0 {
		g.tb.Fatalf("push %s: ack did not drop", agent)
	}
}

func stackPop(g gsim, agent string) uint64 {
	g.tb.Helper()
	g.set(agent+"Read", 1)
	for i := 0; ; i++ {
		g.clk("clk")
		if g.get(agent+"Ack") == 1 {
			break
		}
		if i > 20 {
			g.tb.Fatalf("pop %s: no ack", agent)
		}
	}
	v := g.get(agent + "Data")
	g.set(agent+"Read", 0)
	g.clk("clk")
	return v
}

func TestGeneratedStack(t *testing.T) {
	for _, mt := range []string{"LIFO", "FIFO"} {
		g := buildSim(t, map[string]string{"bmstack.v": renderStack(t, mt, 4, 2, 2)}, "bmstack", true)
		g.set("reset", 1)
		g.clk("clk")
		g.set("reset", 0)
		if g.get("empty") != 1 || g.get("full") != 0 {
			t.Fatalf("%s: after reset empty=%d full=%d", mt, g.get("empty"), g.get("full"))
		}
		stackPush(g, "s0", 11)
		stackPush(g, "s1", 22)
		stackPush(g, "s0", 33)
		if g.get("sp") != 3 || g.get("empty") != 0 {
			t.Fatalf("%s: sp=%d empty=%d", mt, g.get("sp"), g.get("empty"))
		}
		stackPush(g, "s1", 44)
		if g.get("full") != 1 {
			t.Fatalf("%s: not full after 4 pushes (sp=%d)", mt, g.get("sp"))
		}
		var got []uint64
		got = append(got, stackPop(g, "r0"), stackPop(g, "r1"), stackPop(g, "r0"), stackPop(g, "r1"))
		want := "[44 33 22 11]"
		if mt == "FIFO" {
			want = "[11 22 33 44]"
		}
		if fmt.Sprint(got) != want {
			t.Fatalf("%s: popped %v, want %s", mt, got, want)
		}
		if g.get("empty") != 1 {
			t.Fatalf("%s: not empty at the end (sp=%d)", mt, g.get("sp"))
		}
	}
}

// The barrier shared object uses `clock` although its port is called `clk`: the linter must say so.
func TestBarrierDefectIsFlagged(t *testing.T) {
	spec := bmgen.ArchSpec{Rsize: 8, R: 2, N: 1, M: 1, L: 0, O: 3, Ops: []string{"hit", "nop", "i2rw", "r2owa"}}
	files := renderProcessor(t, spec, "", "barrier:10")
	if files["br0.v"] == "" {
		t.Fatalf("no barrier file: %v", len(files))
	}
	d, _ := Parse(map[string]string{"br0.v": files["br0.v"]})
	keys := lintKeys(d.Lint(nil))
	if !keys["undeclared:br0:clock"] {
		t.Fatalf("barrier `clock` not flagged: %v", keys)
	}
	if _, err := d.Elaborate("br0", nil); err == nil {
		t.Fatal("barrier module should not elaborate")
	}
}

// Shared objects that are complete in the rendered file set simulate; incomplete ones are `unsupported`.
func TestSharedObjectsElaborate(t *testing.T) {
	for _, c := range []struct {
		so   string
		ops  []string
		want string // "ok", "unsupported", "error"
	}{
		{"channel:", []string{"chc", "chw", "wrd", "wwr"}, "ok"},
		{"lfsr8:7", []string{"lfsr82r"}, "ok"},
		{"queue:4", []string{"r2q", "q2r"}, "ok"},
		{"stack:4", []string{"r2t", "t2r"}, "ok"},
		{"sharedmem:4", []string{"r2s", "s2r"}, "ok"},
		{"vtextmem:0:0:0:8:4", []string{"r2v", "r2vri"}, "ok"},
		{"uart:9600:4", []string{"r2u", "u2r"}, "ok"},
		{"uart:9600:4 without the side-effect files", []string{"r2u", "u2r"}, "unsupported"},
	} {
		spec := bmgen.ArchSpec{Rsize: 8, R: 2, N: 1, M: 1, L: 0, O: 3, Ops: append([]string{"nop", "i2rw", "r2owa"}, c.ops...)}
		files := renderProcessor(t, spec, "", strings.Fields(c.so)[0])
		if strings.Contains(c.so, "without") {
			// the uart core is written to the current directory by the generator, not returned: without it the
			// top level instantiates an undefined module, which must be reported as unsupported (external IP)
			delete(files, "u0uart.v")
			delete(files, "u0uartso.v")
		}
		d, diags := Parse(files)
		for _, dg := range diags {
			if dg.Class == "syntax" {
				t.Errorf("%s: %v", c.so, dg)
			}
		}
		s, err := d.Elaborate("bondmachine", nil)
		got := "ok"
		switch {
		case errors.Is(err, ErrUnsupported):
			got = "unsupported"
		case err != nil:
			got = "error"
		}
		if got != c.want {
			t.Errorf("%s: %s (%v), want %s", c.so, got, err, c.want)
			continue
		}
		if err == nil {
			if err := s.Init(); err != nil {
				t.Errorf("%s: init: %v", c.so, err)
				continue
			}
			g := gsim{t, s}
			resetProcessor(g)
			for i := 0; i < 20; i++ {
				g.clk("clk")
			}
		}
	}
}

// ---------------------------------------------------------------------------------------------
// Benchmarks: Restore + Set + Posedge + Snapshot, as a state-space explorer would call them.
// ---------------------------------------------------------------------------------------------

func BenchmarkStackCycle(b *testing.B) {
	g := buildSim(b, map[string]string{"bmstack.v": renderStack(b, "LIFO", 4, 2, 2)}, "bmstack", true)
	g.set("reset", 1)
	g.clk("clk")
	g.set("reset", 0)
	clk := g.id("clk")
	ins := []SigID{g.id("s0Write"), g.id("s1Write"), g.id("r0Read"), g.id("r1Read")}
	data := []SigID{g.id("s0Data"), g.id("s1Data")}
	rng := rand.New(rand.NewSource(1))
	snap := g.Snapshot()
	buf := make([]byte, 0, len(snap))
	b.ReportAllocs()
	b.ResetTimer()
	for i := 0; i < b.N; i++ {
		g.Restore(snap)
		r := rng.Uint64()
		for k, id := range ins {
			g.Set(id, (r>>uint(k))&1)
		}
		g.Set(data[0], (r>>8)&0xFF)
		g.Set(data[1], (r>>16)&0xFF)
		if err := g.Posedge(clk); err != nil {
			b.Fatal(err)
		}
		buf = g.SnapshotInto(buf)
		if i&7 != 7 { // follow the trajectory for a while, then restart from the saved state
			snap, buf = buf, snap
		}
	}
	b.ReportMetric(float64(b.N)/b.Elapsed().Seconds(), "cycles/s")
}

func BenchmarkProcessorCycle(b *testing.B) {
	g := buildSim(b, renderProcessor(b, exampleSpec, exampleProgram), "bondmachine", true)
	resetProcessor(g)
	clk := g.id("clk")
	iv, i0, orcv := g.id("i0_valid"), g.id("i0"), g.id("o0_received")
	rng := rand.New(rand.NewSource(1))
	snap := g.Snapshot()
	buf := make([]byte, 0, len(snap))
	b.ReportAllocs()
	b.ResetTimer()
	for i := 0; i < b.N; i++ {
		g.Restore(snap)
		r := rng.Uint64()
		g.Set(iv, r&1)
		g.Set(orcv, (r>>1)&1)
		g.Set(i0, (r>>8)&0xFF)
		if err := g.Posedge(clk); err != nil {
			b.Fatal(err)
		}
		buf = g.SnapshotInto(buf)
		snap, buf = buf, snap
	}
	b.ReportMetric(float64(b.N)/b.Elapsed().Seconds(), "cycles/s")
}

func BenchmarkProcessorCycleNoSnapshot(b *testing.B) {
	g := buildSim(b, renderProcessor(b, exampleSpec, exampleProgram), "bondmachine", true)
	resetProcessor(g)
	clk := g.id("clk")
	g.set("i0_valid", 1)
	g.set("o0_received", 1)
	b.ResetTimer()
	for i := 0; i < b.N; i++ {
		if err := g.Posedge(clk); err != nil {
			b.Fatal(err)
		}
	}
	b.ReportMetric(float64(b.N)/b.Elapsed().Seconds(), "cycles/s")
}
