package vsim

import (
	"bytes"
	"sync"
	"testing"
)

// Second batch of conformance cases (same script language as vsim_test.go).
var confCases2 = []confCase{
	{name: "wire_arrays", src: `
module t(input [7:0] a, input [7:0] b, input s);
  wire [7:0] bus [0:1]; wire [1:0] pair [0:0];
  assign bus[0] = a;
  assign bus[1] = b;
  assign pair[0] = {a[0], b[0]};
  wire [7:0] y = bus[s];
  wire [1:0] p = pair[0];
  wire oob = |bus[2'd2];
endmodule`, script: "init; set a 3; set b 9; exp y 3; set s 1; exp y 9; exp p 3; exp oob 0"},

	{name: "inout_alias_passthrough", top: "t", src: `
module pad(inout io, input o, output i); assign i = io; endmodule
module t(inout pin, output seen);
  pad p (.io(pin), .o(1'b0), .i(seen));
endmodule`, script: "init; set pin 1; exp seen 1; exp p.io 1; set pin 0; exp seen 0"},

	{name: "nested_generate_with_localparam", src: `
module t(input [3:0] a);
  wire [15:0] m;
  genvar i, j;
  generate
    for (i = 0; i < 4; i = i + 1) begin : row
      for (j = 0; j < 4; j = j + 1) begin : col
        localparam IDX = i * 4 + j;
        assign m[IDX] = a[i] & a[j];
      end
    end
  endgenerate
endmodule`, script: "init; set a 0b0101; exp m 0x0505; set a 0b1000; exp m 0x8000"},

	{name: "function_with_case_called_from_clocked_block", src: `
module t(input clk, input [1:0] op, input [7:0] x);
  reg [7:0] acc;
  function [7:0] alu; input [1:0] o; input [7:0] a, b; reg [8:0] wide;
    begin
      case (o)
        2'd0: alu = a + b;
        2'd1: alu = a - b;
        2'd2: begin wide = {a, 1'b0}; alu = wide[8:1] ^ b; end
        default: alu = 8'hEE;
      endcase
    end
  endfunction
  initial acc = 1;
  always @(posedge clk) acc <= alu(op, acc, x);
endmodule`, script: "init; set x 5; pos clk; exp acc 6; set op 1; pos clk; exp acc 1; set op 2; pos clk; exp acc 4; set op 3; pos clk; exp acc 0xEE"},

	{name: "signed_case_and_equality_extension", src: `
module t;
  wire e1 = (4'sb1111 == 8'sb11111111);
  wire e2 = (4'sb1111 == 8'b11111111);
  wire signed [3:0] s = -1;
  wire [7:0] y = s[3:0];
  wire [7:0] z = s;
  wire [7:0] r = {2{s}};
  reg [1:0] k;
  always @* case (s) -4'sd1: k = 1; 4'sd1: k = 2; default: k = 0; endcase
endmodule`, script: "init; exp e1 1; exp e2 0; exp y 0x0F; exp z 0xFF; exp r 0xFF; exp k 1"},

	{name: "time_and_wide_localparam", src: `
module t(input clk);
  time tt; localparam [79:0] BIG = 80'hFFFF_0000_0000_0000_0001; reg [79:0] acc;
  wire [15:0] top = BIG[79:64];
  initial begin tt = 64'hFFFFFFFFFFFFFFFF; acc = 0; end
  always @(posedge clk) begin tt <= tt + 2; acc <= acc + BIG; end
endmodule`, script: "init; exp top 0xFFFF; pos clk; exp tt 1; expw acc FFFF0000000000000001; pos clk; expw acc FFFE0000000000000002"},

	{name: "wide_concat_lhs", src: `
module t(input clk, input [63:0] a, input [63:0] b);
  reg [63:0] hi, lo; reg c; reg [64:0] mid; reg [9:0] sml;
  always @(posedge clk) begin {hi, lo} <= a * b; {c, mid, sml} <= {a, b}; end
endmodule`, script: "init; setw a 100000001; setw b 100000001; pos clk; expw lo 200000001; expw hi 1; exp sml 1; expw mid 40000000400000; exp c 0"},

	{name: "two_instances_independent_state", top: "t", src: `
module c(input clk, input en, output reg [3:0] q);
  initial q = 0;
  always @(posedge clk) if (en) q <= q + 1;
endmodule
module t(input clk, input e1, input e2);
  wire [3:0] q1, q2;
  c u1 (clk, e1, q1);
  c u2 (clk, e2, q2);
endmodule`, script: "init; set e1 1; pos clk; pos clk; set e2 1; pos clk; exp q1 3; exp q2 1; exp u1.q 3; exp u2.q 1"},

	{name: "memory_element_bit_and_part_reads", src: `
module t(input [1:0] a, input [2:0] b);
  reg [7:0] m [0:3];
  initial begin m[0] = 8'h81; m[1] = 8'h7E; m[2] = 8'hA5; m[3] = 8'h0F; end
  wire bit_ = m[a][b];
  wire [3:0] hi = m[a][7:4];
  wire [3:0] var_ = m[a][b +: 4];
endmodule`, script: "init; exp bit_ 1; exp hi 8; set a 2; set b 2; exp bit_ 1; exp hi 10; exp var_ 9; set b 1; exp bit_ 0; set b 6; exp var_ 2"},

	{name: "disable_as_continue", src: `
module t(input [7:0] a);
  reg [3:0] n; integer i;
  always @* begin
    n = 0;
    for (i = 0; i < 8; i = i + 1) begin : body
      if (!a[i]) disable body;
      n = n + 1;
    end
  end
endmodule`, script: "init; set a 0xF1; exp n 5; set a 0; exp n 0"},

	{name: "arith_shift_beyond_width", src: `
module t(input [7:0] n);
  reg signed [7:0] s; wire signed [7:0] a = s >>> n; wire [7:0] l = s << n;
  initial s = -100;
endmodule`, script: "init; set n 8; exp a 0xFF; exp l 0; set n 200; exp a 0xFF; set n 2; exp a 0xE7"},

	{name: "if_else_chain_and_null_statements", src: `
module t(input [1:0] s);
  reg [3:0] y;
  always @* begin
    y = 0;
    if (s == 0) ; else if (s == 1) y = 1; else if (s == 2) begin end else y = 3;
  end
endmodule`, script: "init; exp y 0; set s 1; exp y 1; set s 2; exp y 0; set s 3; exp y 3"},

	{name: "positional_param_defaults_and_localparam_not_overridable", top: "t", src: `
module s #(parameter A = 1, B = 2) (output [7:0] y);
  localparam C = A * 10 + B;
  assign y = C;
endmodule
module t;
  wire [7:0] y1, y2, y3;
  s u1 (y1);
  s #(4) u2 (y2);
  s #(.B(7)) u3 (y3);
endmodule`, script: "init; exp y1 12; exp y2 42; exp y3 17"},

	{name: "reg_connected_to_child_input_and_output_to_reg_target_expression", top: "t", src: `
module buf2(input [3:0] i, output [3:0] o); assign o = i; endmodule
module t(input clk);
  reg [3:0] r; wire [7:0] w;
  initial r = 5;
  buf2 b1 (.i(r), .o(w[3:0]));
  buf2 b2 (.i(~r), .o(w[7:4]));
  always @(posedge clk) r <= r + 1;
endmodule`, script: "init; exp w 0xA5; pos clk; exp w 0x96"},

	{name: "clocked_block_reads_pre_edge_net", src: `
module t(input clk);
  reg [3:0] a; wire [3:0] n = a + 1; reg [3:0] b, c;
  initial begin a = 0; b = 0; c = 0; end
  always @(posedge clk) a <= n;
  always @(posedge clk) b <= n;
  always @(posedge clk) c <= b;
endmodule`, script: "init; pos clk; exp a 1; exp b 1; exp c 0; exp n 2; pos clk; exp a 2; exp b 2; exp c 1"},
}

func TestConformance2(t *testing.T) {
	for _, c := range confCases2 {
		c := c
		t.Run(c.name, func(t *testing.T) {
			s := elabSrc(t, c.src, c.top, c.params)
			runScript(t, s, c.script)
		})
	}
	if n := len(confCases) + len(confCases2); n < 100 {
		t.Logf("conformance corpus: %d cases", n)
	}
}

// Snapshot / Restore / StateKey / Clone behave as an explicit-state explorer needs.
func TestStateAPI(t *testing.T) {
	src := `
module t(input clk, input [3:0] d, output [3:0] o);
  reg [3:0] q, qq; reg [7:0] rom [0:1]; wire [3:0] n = q + d;
  initial begin rom[0] = 8'h12; rom[1] = 8'h34; q = 0; qq = 0; end
  assign o = qq ^ rom[q[0]][3:0];
  always @(posedge clk) begin q <= n; qq <= q; end
endmodule`
	s := elabSrc(t, src, "t", nil)
	if err := s.Init(); err != nil {
		t.Fatal(err)
	}
	id := func(n string) SigID {
		i, ok := s.Lookup(n)
		if !ok {
			t.Fatal(n)
		}
		return i
	}
	clk, d := id("clk"), id("d")
	s0 := s.Snapshot()
	if len(s0) != s.SnapshotLen() {
		t.Fatal("snapshot length")
	}
	k0 := append([]byte(nil), s.StateKey(nil)...)
	s.Set(d, 3)
	if err := s.Posedge(clk); err != nil {
		t.Fatal(err)
	}
	s1 := s.Snapshot()
	k1 := append([]byte(nil), s.StateKey(nil)...)
	if bytes.Equal(s0, s1) || bytes.Equal(k0, k1) {
		t.Fatal("state did not change")
	}
	if len(k1) >= len(s1) {
		t.Fatalf("StateKey (%d) should be more compact than Snapshot (%d)", len(k1), len(s1))
	}
	// determinism: same inputs from the same state give the same successor
	s.Restore(s0)
	if !bytes.Equal(s.Snapshot(), s0) {
		t.Fatal("restore")
	}
	s.Set(d, 3)
	s.Posedge(clk)
	if !bytes.Equal(s.Snapshot(), s1) || !bytes.Equal(s.StateKey(nil), k1) {
		t.Fatal("successor not reproducible")
	}
	// pending Set is settled by Snapshot (nets are part of the snapshot)
	s.Restore(s0)
	s.Set(d, 9)
	snap := s.Snapshot()
	if s.Get(id("n")) != 9 {
		t.Fatalf("n=%d after Snapshot, want settled 9", s.Get(id("n")))
	}
	s.Restore(s0)
	s.Restore(snap)
	if s.Get(id("n")) != 9 || s.Get(d) != 9 {
		t.Fatal("restore of settled snapshot")
	}
	// clones are independent and usable concurrently
	s.Restore(s0)
	var wg sync.WaitGroup
	results := make([][]byte, 8)
	for g := 0; g < 8; g++ {
		wg.Add(1)
		c := s.Clone()
		go func(g int, c *Sim) {
			defer wg.Done()
			for i := 0; i < 2000; i++ {
				c.Set(d, uint64((i*7+g)&15))
				if err := c.Posedge(clk); err != nil {
					t.Error(err)
					return
				}
			}
			results[g] = c.Snapshot()
		}(g, c)
	}
	wg.Wait()
	if !bytes.Equal(s.Snapshot(), s0) {
		t.Fatal("clones disturbed the original")
	}
	// replay goroutine 3 sequentially and compare
	c := s.Clone()
	for i := 0; i < 2000; i++ {
		c.Set(d, uint64((i*7+3)&15))
		c.Posedge(clk)
	}
	if !bytes.Equal(c.Snapshot(), results[3]) {
		t.Fatal("concurrent run differs from sequential replay")
	}
	// StateKey / RestoreKey round trip reproduces every signal value
	s.Restore(s1)
	key := append([]byte(nil), s.StateKey(nil)...)
	c2 := s.Clone()
	c2.Restore(s0)
	if err := c2.RestoreKey(key); err != nil {
		t.Fatal(err)
	}
	for i := range s.Signals() {
		if s.Get(SigID(i)) != c2.Get(SigID(i)) {
			t.Fatalf("RestoreKey: signal %s differs", s.Signals()[i].Name)
		}
	}
	s.Restore(s0)
	// signal table
	sig := s.Signals()
	for i, si := range sig {
		if j, ok := s.Lookup(si.Name); !ok || int(j) != i {
			t.Fatalf("Lookup(%s) = %d,%v want %d", si.Name, j, ok, i)
		}
	}
	inf := sig[id("rom")]
	if inf.Depth != 2 || inf.Width != 8 || !inf.IsReg || inf.IsInput {
		t.Fatalf("rom info %+v", inf)
	}
	if !sig[clk].IsInput || sig[clk].IsReg || sig[id("o")].IsInput {
		t.Fatal("input flags")
	}
	// memory access and wide access
	s.SetMem(id("rom"), 1, 0x1FF)
	if s.GetMem(id("rom"), 1) != 0xFF || s.GetMem(id("rom"), 5) != 0 {
		t.Fatal("SetMem/GetMem")
	}
	s.SetWide(d, []uint64{0x123})
	if got := s.GetWide(d); len(got) != 1 || got[0] != 3 {
		t.Fatalf("SetWide/GetWide %v", got)
	}
}
