package vsim

type stmtFn func(*Sim) int

// lval is a compiled assignment target of width w.
type lval struct {
	w      int
	store  func(s *Sim, v uint64, nb bool)   // w <= 64
	storeW func(s *Sim, v []uint64, nb bool) // w > 64
}

func (c *cc) compileLval(e Expr) lval {
	if cat, ok := e.(*Concat); ok {
		parts := make([]lval, len(cat.Parts))
		los := make([]int, len(cat.Parts))
		w := 0
		for i := len(cat.Parts) - 1; i >= 0; i-- {
			parts[i] = c.compileLval(cat.Parts[i])
			los[i] = w
			w += parts[i].w
		}
		lv := lval{w: w}
		if w <= 64 {
			lv.store = func(s *Sim, v uint64, nb bool) {
				for i := len(parts) - 1; i >= 0; i-- {
					parts[i].store(s, (v>>uint(los[i]))&mask64(parts[i].w), nb)
				}
			}
		} else {
			lv.storeW = func(s *Sim, v []uint64, nb bool) {
				for i := len(parts) - 1; i >= 0; i-- {
					p := parts[i]
					if p.w <= 64 {
						p.store(s, wget(v, los[i], p.w), nb)
					} else {
						d := make([]uint64, nwords(p.w))
						wgetW(d, v, los[i], p.w)
						p.storeW(s, d, nb)
					}
				}
			}
		}
		return lv
	}
	switch e.(type) {
	case *Ident, *Index, *RangeSel:
	default:
		c.errf("syntax", e.exprPos(), "illegal assignment target")
	}
	si := c.resolveSel(e)
	if si.sym.kind != symSig {
		c.errf("syntax", e.exprPos(), "%s is not assignable", si.sym.name)
	}
	L := c.compileLoc(si, e.exprPos())
	sg := L.sg
	c.wrote(sg)
	// index expressions of the target are reads (already recorded by compileInt)
	n := L.n
	lv := lval{w: n}
	el := L.elem.f
	lo := L.lo.f
	hasElem := L.hasElem
	if n <= 64 {
		switch {
		case !hasElem && L.lo.isConst:
			l0 := L.lo.c
			lv.store = func(s *Sim, v uint64, nb bool) {
				if nb {
					s.nba = append(s.nba, nbaEnt{sg: sg, lo: l0, n: n, v: v})
				} else {
					s.writeBits(sg, 0, l0, n, v)
				}
			}
		default:
			lv.store = func(s *Sim, v uint64, nb bool) {
				k := 0
				if hasElem {
					k = el(s)
					if k < 0 {
						return
					}
				}
				l0 := lo(s)
				if nb {
					s.nba = append(s.nba, nbaEnt{sg: sg, elem: k, lo: l0, n: n, v: v})
				} else {
					s.writeBits(sg, k, l0, n, v)
				}
			}
		}
	} else {
		lv.storeW = func(s *Sim, v []uint64, nb bool) {
			k := 0
			if hasElem {
				k = el(s)
				if k < 0 {
					return
				}
			}
			l0 := lo(s)
			if nb {
				s.nba = append(s.nba, nbaEnt{sg: sg, elem: k, lo: l0, n: n, wv: append([]uint64(nil), v...), hasWide: true})
			} else {
				s.writeBitsW(sg, k, l0, n, v)
			}
		}
	}
	return lv
}

// lvalWhole is an lval writing an entire (non-array) signal.
func lvalWhole(sg *signal) lval {
	lv := lval{w: sg.width}
	n := sg.width
	if n <= 64 {
		lv.store = func(s *Sim, v uint64, nb bool) { s.writeBits(sg, 0, 0, n, v) }
	} else {
		lv.storeW = func(s *Sim, v []uint64, nb bool) { s.writeBitsW(sg, 0, 0, n, v) }
	}
	return lv
}

// compileAssignTo compiles "lv = rhs" with standard assignment sizing.
func (c *cc) compileAssignTo(lv lval, rhs Expr, nb bool) stmtFn {
	rt := c.typeOf(rhs)
	W := max(lv.w, rt.w)
	ce := c.compileCtx(rhs, W, rt.signed)
	ce = c.trunc(ce, lv.w)
	return assignFn(lv, ce, nb)
}

func assignFn(lv lval, ce cexpr, nb bool) stmtFn {
	if lv.w <= 64 {
		st, n := lv.store, ce.n
		if ce.isConst {
			k := ce.cv[0]
			return func(s *Sim) int { st(s, k, nb); return 0 }
		}
		return func(s *Sim) int { st(s, n(s), nb); return 0 }
	}
	st, wf := lv.storeW, ce.wf
	return func(s *Sim) int { st(s, wf(s), nb); return 0 }
}

func (c *cc) blockID(name string) int {
	for i := len(c.blocks) - 1; i >= 0; i-- {
		if c.blocks[i] == name {
			return i + 1
		}
	}
	return 0
}

const loopCap = 1 << 22

func (c *cc) compileStmt(st Stmt) stmtFn {
	switch x := st.(type) {
	case nil:
		return func(*Sim) int { return 0 }
	case *Null:
		return func(*Sim) int { return 0 }
	case *SysTask:
		switch x.Name {
		case "$display", "$write", "$strobe", "$monitor", "$finish", "$stop", "$displayb", "$displayh", "$displayo",
			"$writeb", "$writeh", "$writeo", "$monitoron", "$monitoroff", "$dumpfile", "$dumpvars", "$dumpon", "$dumpoff",
			"$dumpall", "$dumpflush", "$dumplimit", "$timeformat", "$printtimescale", "$fflush", "$fdisplay", "$fwrite", "$fclose",
			"$strobeb", "$strobeh", "$strobeo", "$monitorb", "$monitorh", "$monitoro", "$fstrobe", "$fmonitor":
			return func(*Sim) int { return 0 }
		}
		c.unsup(x.Pos, "system task %s", x.Name)
	case *UnsupStmt:
		c.unsup(x.Pos, "%s", x.What)
	case *Block:
		return c.compileBlock(x)
	case *AssignStmt:
		lv := c.compileLval(x.LHS)
		return c.compileAssignTo(lv, x.RHS, x.NB)
	case *If:
		cb, cconst := c.compileBool(x.C)
		th := c.compileStmt(x.Then)
		var el stmtFn
		if x.Else != nil {
			el = c.compileStmt(x.Else)
		}
		if cconst != nil {
			if *cconst {
				return th
			}
			if el != nil {
				return el
			}
			return func(*Sim) int { return 0 }
		}
		if el == nil {
			return func(s *Sim) int {
				if cb(s) {
					return th(s)
				}
				return 0
			}
		}
		return func(s *Sim) int {
			if cb(s) {
				return th(s)
			}
			return el(s)
		}
	case *Case:
		return c.compileCase(x)
	case *For:
		init := c.compileStmt(x.Init)
		if id, ok := x.Init.LHS.(*Ident); ok {
			if sym := c.sc.lookup(id.Name); sym != nil && sym.kind == symSig {
				c.loopVars[sym.sig] = struct{}{}
			}
		}
		cond, _ := c.compileBool(x.Cond)
		step := c.compileStmt(x.Step)
		body := c.compileStmt(x.Body)
		pos := x.Pos
		return func(s *Sim) int {
			init(s)
			for n := 0; cond(s); n++ {
				if r := body(s); r != 0 {
					return r
				}
				step(s)
				if n > loopCap {
					s.fail("unsupported", pos, "for loop exceeded the iteration cap")
					break
				}
			}
			return 0
		}
	case *While:
		cond, _ := c.compileBool(x.Cond)
		body := c.compileStmt(x.Body)
		pos := x.Pos
		return func(s *Sim) int {
			for n := 0; cond(s); n++ {
				if r := body(s); r != 0 {
					return r
				}
				if n > loopCap {
					s.fail("unsupported", pos, "while loop exceeded the iteration cap")
					break
				}
			}
			return 0
		}
	case *RepeatStmt:
		cnt := c.compileInt(x.Count)
		body := c.compileStmt(x.Body)
		pos := x.Pos
		return func(s *Sim) int {
			k := cnt.f(s)
			if k > loopCap {
				s.fail("unsupported", pos, "repeat count exceeds the iteration cap")
				return 0
			}
			for i := 0; i < k; i++ {
				if r := body(s); r != 0 {
					return r
				}
			}
			return 0
		}
	case *Disable:
		id := c.blockID(x.Name)
		if id == 0 {
			c.unsup(x.Pos, "disable of %s, which is not an enclosing named block", x.Name)
		}
		return func(*Sim) int { return id }
	}
	c.unsup(st.stmtPos(), "statement form not supported")
	return nil
}

func (c *cc) compileBlock(b *Block) stmtFn {
	saved := c.sc
	id := 0
	if b.Name != "" {
		c.blocks = append(c.blocks, b.Name)
		id = len(c.blocks)
		defer func() { c.blocks = c.blocks[:len(c.blocks)-1] }()
		if len(b.Decls) > 0 {
			c.sc = c.e.blockScope(c, b)
			defer func() { c.sc = saved }()
		}
	}
	fns := make([]stmtFn, 0, len(b.Stmts))
	for _, st := range b.Stmts {
		fns = append(fns, c.compileStmt(st))
	}
	switch {
	case len(fns) == 1 && id == 0:
		return fns[0]
	case len(fns) == 2 && id == 0:
		a, bb := fns[0], fns[1]
		return func(s *Sim) int {
			if r := a(s); r != 0 {
				return r
			}
			return bb(s)
		}
	}
	return func(s *Sim) int {
		for _, f := range fns {
			if r := f(s); r != 0 {
				if r == id {
					return 0
				}
				return r
			}
		}
		return 0
	}
}

func (c *cc) compileCase(x *Case) stmtFn {
	// sizing: selector and all labels are context-determined together
	t := c.typeOf(x.X)
	W, S := t.w, t.signed
	for _, it := range x.Items {
		for _, l := range it.Labels {
			lt := c.typeOf(l)
			W = max(W, lt.w)
			S = S && lt.signed
		}
	}
	sel := c.compileCtx(x.X, W, S)
	type label struct {
		ce    cexpr
		dc    uint64 // don't-care mask (narrow only)
		item  int
		never bool
	}
	var labels []label
	bodies := make([]stmtFn, len(x.Items))
	def := -1
	allC := true
	anyDC := false
	for i, it := range x.Items {
		bodies[i] = c.compileStmt(it.Body)
		if it.Default {
			if def >= 0 {
				c.errf("syntax", x.Pos, "more than one default in case statement")
			}
			def = i
			continue
		}
		for _, l := range it.Labels {
			lb := label{ce: c.compileCtx(l, W, S), item: i}
			if n, ok := l.(*Num); ok && n.XZ != nil {
				if x.Kind == "case" {
					lb.never = true // x/z never equals a 2-state value
				} else {
					if W > 64 {
						c.unsup(x.Pos, "casez/casex wider than 64 bits with wildcards")
					}
					lb.dc = n.XZ[0]
					anyDC = true
				}
			}
			if !lb.ce.isConst {
				allC = false
			}
			labels = append(labels, lb)
		}
	}
	run := func(s *Sim, k int) int {
		if k >= 0 {
			return bodies[k](s)
		}
		return 0
	}
	if W <= 64 && allC {
		match := func(v uint64) int {
			for _, lb := range labels {
				if lb.never {
					continue
				}
				if (v^lb.ce.cv[0])&^lb.dc == 0 {
					return lb.item
				}
			}
			return def
		}
		sn := sel.n
		if sel.isConst {
			k := match(sel.cv[0])
			if k < 0 {
				return func(*Sim) int { return 0 }
			}
			return bodies[k]
		}
		// effective selector range: the selector itself may be narrower than W
		if W <= 12 {
			tab := make([]int16, 1<<uint(W))
			for v := range tab {
				tab[v] = int16(match(uint64(v)))
			}
			return func(s *Sim) int {
				k := tab[sn(s)]
				if k >= 0 {
					return bodies[k](s)
				}
				return 0
			}
		}
		if !anyDC {
			m := map[uint64]int{}
			for _, lb := range labels {
				if lb.never {
					continue
				}
				if _, dup := m[lb.ce.cv[0]]; !dup {
					m[lb.ce.cv[0]] = lb.item
				}
			}
			return func(s *Sim) int {
				if k, ok := m[sn(s)]; ok {
					return bodies[k](s)
				}
				return run(s, def)
			}
		}
		return func(s *Sim) int { return run(s, match(sn(s))) }
	}
	if W <= 64 {
		sn := sel.n
		return func(s *Sim) int {
			v := sn(s)
			for i := range labels {
				lb := &labels[i]
				if lb.never {
					continue
				}
				if (v^lb.ce.n(s))&^lb.dc == 0 {
					return bodies[lb.item](s)
				}
			}
			return run(s, def)
		}
	}
	sw := sel.wf
	return func(s *Sim) int {
		v := sw(s)
		for i := range labels {
			lb := &labels[i]
			if lb.never {
				continue
			}
			if wcmpU(v, lb.ce.wf(s)) == 0 {
				return bodies[lb.item](s)
			}
		}
		return run(s, def)
	}
}

// ---------- functions ----------

type fnInst struct {
	fn   *Function
	sc   *scope
	ret  *symbol
	args []*symbol
}

// funcInst returns (creating on first use) the static storage of function fn in the module instance scope.
func (c *cc) funcInst(fn *Function, pos Pos) *fnInst {
	msc := c.sc.moduleScope()
	cache := msc.fnInst
	if c.constOnly {
		cache = msc.fnInstConst
	}
	if fi, ok := cache[fn.Name]; ok {
		return fi
	}
	fsc := &scope{parent: msc, syms: map[string]*symbol{}, prefix: msc.prefix + fn.Name + ".", isFunc: true}
	fi := &fnInst{fn: fn, sc: fsc}
	cache[fn.Name] = fi
	// return variable
	dc := &cc{e: c.e, sc: msc, constOnly: true, reads: map[*signal]struct{}{}, writes: map[*signal]struct{}{}, loopVars: map[*signal]struct{}{}}
	rd := &Decl{Pos: fn.Pos, Kind: "reg", Signed: fn.Signed, MSB: fn.MSB, LSB: fn.LSB, Names: []DeclName{{Pos: fn.Pos, Name: fn.Name}}}
	if fn.RetKind != "" {
		rd.Kind = fn.RetKind
	}
	c.e.declareLocal(dc, fsc, rd, c.constOnly)
	fi.ret = fsc.syms[fn.Name]
	for _, d := range fn.Decls {
		dd := *d
		isArg := d.Kind == "input"
		if isArg {
			dd.Kind = "reg"
			if d.NetType == "integer" || d.NetType == "time" {
				dd.Kind = d.NetType
			}
		}
		c.e.declareLocal(dc, fsc, &dd, c.constOnly)
		if isArg {
			for _, n := range d.Names {
				fi.args = append(fi.args, fsc.syms[n.Name])
			}
		}
	}
	return fi
}

func (c *cc) compileCall(x *Call) cexpr {
	fn := c.sc.lookupFunc(x.Name)
	fi := c.funcInst(fn, x.Pos)
	for _, n := range c.fnStack {
		if n == fn.Name {
			c.unsup(x.Pos, "recursive function %s", fn.Name)
		}
	}
	if len(x.Args) != len(fi.args) {
		c.errf("syntax", x.Pos, "function %s expects %d arguments, got %d", fn.Name, len(fi.args), len(x.Args))
	}
	// arguments are evaluated in the caller's scope
	argSt := make([]stmtFn, len(x.Args))
	for i, a := range x.Args {
		argSt[i] = c.compileAssignTo(lvalWhole(fi.args[i].sig), a, false)
	}
	saveSc, saveBlocks := c.sc, c.blocks
	c.sc = fi.sc
	c.blocks = []string{fn.Name}
	c.fnStack = append(c.fnStack, fn.Name)
	body := c.compileStmt(fn.Body)
	c.fnStack = c.fnStack[:len(c.fnStack)-1]
	c.sc, c.blocks = saveSc, saveBlocks
	ret := fi.ret.sig
	off, nw := ret.off, ret.nw
	w := ret.width
	if w <= 64 {
		return cexpr{w: w, n: func(s *Sim) uint64 {
			for _, a := range argSt {
				a(s)
			}
			body(s)
			return s.w[off]
		}}
	}
	return cexpr{w: w, wf: func(s *Sim) []uint64 {
		for _, a := range argSt {
			a(s)
		}
		body(s)
		d := s.alloc(nw)
		copy(d, s.w[off:off+nw])
		return d
	}}
}
