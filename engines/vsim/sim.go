package vsim

import (
	"encoding/binary"
	"errors"
	"fmt"
	"math/bits"
)

// Diag is a diagnostic produced by the parser, the linter or the simulator.
type Diag struct {
	Class, File   string
	Line          int
	Module, Ident string
	Msg           string
}

func (d Diag) String() string {
	s := fmt.Sprintf("%s:%d: %s", d.File, d.Line, d.Class)
	if d.Module != "" {
		s += " [" + d.Module
		if d.Ident != "" {
			s += "." + d.Ident
		}
		s += "]"
	}
	return s + ": " + d.Msg
}

// Error makes *Diag usable as an error.
type DiagError struct{ Diag }

func (e *DiagError) Error() string { return e.Diag.String() }
func (e *DiagError) Is(target error) bool {
	return (target == ErrUnsupported && (e.Class == "unsupported" || e.Class == "undefined-module")) ||
		(target == ErrCombLoop && e.Class == "comb-loop")
}

var (
	// ErrUnsupported is matched (errors.Is) by every error that means "outside the simulable subset".
	ErrUnsupported = errors.New("vsim: unsupported construct")
	// ErrCombLoop is matched by errors reporting that the combinational logic did not reach a fixpoint.
	ErrCombLoop = errors.New("vsim: combinational loop")
)

type SigID int

type SigInfo struct {
	Name    string
	Width   int
	Depth   int // 0 unless memory
	IsReg   bool
	IsInput bool // top-level input
}

type fanEnt struct {
	w int32
	m uint64
}

type signal struct {
	id      SigID
	name    string
	width   int
	nw      int // words per element
	depth   int // 0 unless array
	off     int
	isReg   bool
	isInput bool
	local   bool // function-local / constant-evaluation temp: no sensitivity, no init tracking
	tmp     bool // lives in the constant-evaluation scratch Sim
	isConst bool // never written outside initial blocks (set after elaboration)
	watched bool
	fan     []fanEnt
	pos     []int32 // edge processes triggered by posedge
	neg     []int32
	aliases []string
}

func (sg *signal) elems() int {
	if sg.depth == 0 {
		return 1
	}
	return sg.depth
}

type procKind int

const (
	pComb procKind = iota
	pEdge
	pInit
)

type proc struct {
	kind   procKind
	run    func(*Sim) int
	where  string // module path and source line, for diagnostics
	pos    Pos
	reads  []*signal
	writes []*signal
	idx    int
	cont   bool
}

type program struct {
	sigs     []*signal
	names    map[string]SigID
	nwords   int
	comb     []*proc
	edge     []*proc
	inits    []*proc
	asgWords int
	keySigs  []*signal
	top      string
}

type nbaEnt struct {
	sg      *signal
	elem    int
	lo, n   int
	v       uint64
	wv      []uint64
	hasWide bool
}

// Sim is one simulation state over a compiled (immutable, shareable) program.
type Sim struct {
	p        *program
	w        []uint64
	asg      []uint64
	dirty    []uint64
	trig     []uint64
	trigTmp  []uint64
	nba      []nbaEnt
	scratch  []uint64
	sp       int
	anyDirty bool
	anyTrig  bool
	noEdge   bool
	err      error
}

func newSim(p *program) *Sim {
	s := &Sim{p: p}
	s.w = make([]uint64, p.nwords)
	s.asg = make([]uint64, p.asgWords)
	s.dirty = make([]uint64, (len(p.comb)+63)/64)
	s.trig = make([]uint64, (len(p.edge)+63)/64)
	s.trigTmp = make([]uint64, len(s.trig))
	s.scratch = make([]uint64, 256)
	return s
}

// alloc returns n zeroed-or-dirty scratch limbs valid until the current process finishes.
func (s *Sim) alloc(n int) []uint64 {
	if s.sp+n > len(s.scratch) {
		return make([]uint64, n)
	}
	r := s.scratch[s.sp : s.sp+n : s.sp+n]
	s.sp += n
	return r
}

func (s *Sim) fail(class string, pos Pos, msg string) {
	if s.err == nil {
		s.err = &DiagError{Diag{Class: class, File: pos.File, Line: pos.Line, Msg: msg}}
	}
}

// ---------- low-level writes ----------

func (s *Sim) markChanged(sg *signal) {
	if len(sg.fan) != 0 {
		for _, f := range sg.fan {
			s.dirty[f.w] |= f.m
		}
		s.anyDirty = true
	}
}

func (s *Sim) edgeEvent(sg *signal, newBit uint64) {
	if s.noEdge {
		return
	}
	var l []int32
	if newBit != 0 {
		l = sg.pos
	} else {
		l = sg.neg
	}
	for _, i := range l {
		s.trig[i>>6] |= 1 << uint(i&63)
		s.anyTrig = true
	}
}

// writeBits writes the low n (<=64) bits of v into element elem of sg at bit offset lo.
// Out-of-range parts are ignored.
func (s *Sim) writeBits(sg *signal, elem, lo, n int, v uint64) {
	if uint(elem) >= uint(sg.elems()) {
		return
	}
	if lo < 0 {
		if lo+n <= 0 {
			return
		}
		v >>= uint(-lo)
		n += lo
		lo = 0
	}
	if lo+n > sg.width {
		n = sg.width - lo
		if n <= 0 {
			return
		}
	}
	if !sg.local {
		s.asg[sg.id>>6] |= 1 << uint(sg.id&63)
	}
	if sg.nw == 1 {
		p := &s.w[sg.off+elem]
		old := *p
		m := mask64(n) << uint(lo)
		nv := (old &^ m) | ((v << uint(lo)) & m)
		if nv != old {
			*p = nv
			s.markChanged(sg)
			if sg.watched && (old^nv)&1 != 0 {
				s.edgeEvent(sg, nv&1)
			}
		}
		return
	}
	base := sg.off + elem*sg.nw
	st := s.w[base : base+sg.nw]
	old0 := st[0]
	if wset(st, lo, n, v) {
		s.markChanged(sg)
		if sg.watched && (old0^st[0])&1 != 0 {
			s.edgeEvent(sg, st[0]&1)
		}
	}
}

// writeBitsW writes n bits from limbs v (n may exceed 64).
func (s *Sim) writeBitsW(sg *signal, elem, lo, n int, v []uint64) {
	for i := 0; i*64 < n; i++ {
		k := n - i*64
		if k > 64 {
			k = 64
		}
		var x uint64
		if i < len(v) {
			x = v[i]
		}
		s.writeBits(sg, elem, lo+i*64, k, x)
	}
}

func (s *Sim) commitNBA() {
	// entries may be appended while committing only through edge events -> never; safe to range by index
	for i := 0; i < len(s.nba); i++ {
		e := &s.nba[i]
		if e.hasWide {
			s.writeBitsW(e.sg, e.elem, e.lo, e.n, e.wv)
			e.wv = nil
		} else {
			s.writeBits(e.sg, e.elem, e.lo, e.n, e.v)
		}
	}
	s.nba = s.nba[:0]
}

// ---------- scheduling ----------

func (s *Sim) settle() error {
	if !s.anyDirty {
		return nil
	}
	limit := 1000 + 200*len(s.p.comb)
	count := 0
	for {
		found := false
		for wi, d := range s.dirty {
			if d == 0 {
				continue
			}
			b := uint(bits.TrailingZeros64(d))
			idx := wi*64 + int(b)
			pr := s.p.comb[idx]
			s.dirty[wi] &^= 1 << b
			s.sp = 0
			pr.run(s)
			if !pr.cont {
				s.dirty[wi] &^= 1 << b // a procedural block does not retrigger itself by its own writes
			}
			if len(s.nba) != 0 {
				s.commitNBA()
			}
			found = true
			count++
			if count > limit {
				for i := range s.dirty {
					s.dirty[i] = 0
				}
				s.anyDirty = false
				return &DiagError{Diag{Class: "comb-loop", File: pr.pos.File, Line: pr.pos.Line, Module: pr.where,
					Msg: fmt.Sprintf("combinational logic did not settle after %d evaluations (last process: %s)", count, pr.where)}}
			}
			break
		}
		if !found {
			break
		}
	}
	s.anyDirty = false
	return s.takeErr()
}

func (s *Sim) takeErr() error {
	e := s.err
	s.err = nil
	return e
}

func (s *Sim) runDeltas() error {
	for iter := 0; ; iter++ {
		if err := s.settle(); err != nil {
			return err
		}
		if !s.anyTrig {
			return nil
		}
		if iter > 1000 {
			for i := range s.trig {
				s.trig[i] = 0
			}
			s.anyTrig = false
			return &DiagError{Diag{Class: "comb-loop", Msg: "edge events did not settle after 1000 delta cycles (oscillating derived clock?)"}}
		}
		s.anyTrig = false
		copy(s.trigTmp, s.trig)
		for i := range s.trig {
			s.trig[i] = 0
		}
		for wi, d := range s.trigTmp {
			for d != 0 {
				b := uint(bits.TrailingZeros64(d))
				d &^= 1 << b
				s.sp = 0
				s.p.edge[wi*64+int(b)].run(s)
			}
		}
		s.commitNBA()
		if s.err != nil {
			return s.takeErr()
		}
	}
}

// Init zeroes the state, runs every initial block once (in source order) and settles.
func (s *Sim) Init() error {
	for i := range s.w {
		s.w[i] = 0
	}
	for i := range s.asg {
		s.asg[i] = 0
	}
	for i := range s.trig {
		s.trig[i] = 0
	}
	s.nba = s.nba[:0]
	s.anyTrig = false
	s.err = nil
	for _, pr := range s.p.inits {
		s.sp = 0
		pr.run(s)
	}
	s.commitNBA()
	for i := range s.p.comb {
		s.dirty[i>>6] |= 1 << uint(i&63)
	}
	s.anyDirty = len(s.p.comb) != 0
	if s.err != nil {
		return s.takeErr()
	}
	return s.runDeltas()
}

// Settle evaluates continuous assigns and combinational blocks to a fixpoint (and any derived edge events).
func (s *Sim) Settle() error { return s.runDeltas() }

func (s *Sim) edgeTo(id SigID, v uint64) error {
	if err := s.runDeltas(); err != nil {
		return err
	}
	sg := s.p.sigs[id]
	if sg.depth != 0 {
		return fmt.Errorf("vsim: %s is a memory, not a clock", sg.name)
	}
	if s.w[sg.off]&1 == v {
		// implicit opposite edge first so that the requested transition really happens
		s.writeBits(sg, 0, 0, 1, v^1)
		if err := s.runDeltas(); err != nil {
			return err
		}
	}
	s.writeBits(sg, 0, 0, 1, v)
	return s.runDeltas()
}

// Posedge performs a 0->1 transition of the signal and runs the resulting events to completion.
// If the signal is already 1 it is first taken to 0 (with full negedge semantics).
func (s *Sim) Posedge(id SigID) error { return s.edgeTo(id, 1) }

// Negedge performs a 1->0 transition likewise.
func (s *Sim) Negedge(id SigID) error { return s.edgeTo(id, 0) }

// ---------- access ----------

func (s *Sim) Signals() []SigInfo {
	out := make([]SigInfo, len(s.p.sigs))
	for i, sg := range s.p.sigs {
		out[i] = SigInfo{Name: sg.name, Width: sg.width, Depth: sg.depth, IsReg: sg.isReg, IsInput: sg.isInput}
	}
	return out
}

// Lookup finds a signal by hierarchical name (any alias created by port connections is accepted).
func (s *Sim) Lookup(name string) (SigID, bool) {
	id, ok := s.p.names[name]
	return id, ok
}

// Aliases lists the other hierarchical names that share storage with the signal (collapsed ports).
func (s *Sim) Aliases(id SigID) []string { return append([]string(nil), s.p.sigs[id].aliases...) }

// Set pokes a value (truncated to the signal width). It does not fire edge events on the signal itself;
// dependent combinational logic is re-evaluated by the next Settle/Posedge/Negedge/Snapshot.
func (s *Sim) Set(id SigID, v uint64) {
	sg := s.p.sigs[id]
	s.noEdge = true
	if sg.nw == 1 {
		s.writeBits(sg, 0, 0, sg.width, v)
	} else {
		s.writeBitsW(sg, 0, 0, sg.width, []uint64{v})
	}
	s.noEdge = false
}

func (s *Sim) Get(id SigID) uint64 { return s.w[s.p.sigs[id].off] }

func (s *Sim) SetWide(id SigID, v []uint64) {
	sg := s.p.sigs[id]
	s.noEdge = true
	s.writeBitsW(sg, 0, 0, sg.width, v)
	s.noEdge = false
}

func (s *Sim) GetWide(id SigID) []uint64 {
	sg := s.p.sigs[id]
	return append([]uint64(nil), s.w[sg.off:sg.off+sg.nw]...)
}

func (s *Sim) GetMem(id SigID, idx int) uint64 {
	sg := s.p.sigs[id]
	if uint(idx) >= uint(sg.elems()) {
		return 0
	}
	return s.w[sg.off+idx*sg.nw]
}

func (s *Sim) SetMem(id SigID, idx int, v uint64) {
	sg := s.p.sigs[id]
	s.noEdge = true
	if sg.nw == 1 {
		s.writeBits(sg, idx, 0, sg.width, v)
	} else {
		s.writeBitsW(sg, idx, 0, sg.width, []uint64{v})
	}
	s.noEdge = false
}

func (s *Sim) GetMemWide(id SigID, idx int) []uint64 {
	sg := s.p.sigs[id]
	if uint(idx) >= uint(sg.elems()) {
		return make([]uint64, sg.nw)
	}
	b := sg.off + idx*sg.nw
	return append([]uint64(nil), s.w[b:b+sg.nw]...)
}

func (s *Sim) SetMemWide(id SigID, idx int, v []uint64) {
	sg := s.p.sigs[id]
	s.noEdge = true
	s.writeBitsW(sg, idx, 0, sg.width, v)
	s.noEdge = false
}

// Uninitialised reports whether the reg has never been assigned (by an initial block, a declaration
// initialiser, a procedural assignment or Set) in the history of the current state. Nets report false.
func (s *Sim) Uninitialised(id SigID) bool {
	sg := s.p.sigs[id]
	if !sg.isReg {
		return false
	}
	return s.asg[id>>6]&(1<<uint(id&63)) == 0
}

// SnapshotLen is the length in bytes of a snapshot.
func (s *Sim) SnapshotLen() int { return 8 * (len(s.w) + len(s.asg)) }

// Snapshot returns the canonical encoding of all state: every signal word (regs, memories, inputs, nets)
// followed by the "has been assigned" marks. Pending combinational updates are settled first.
func (s *Sim) Snapshot() []byte {
	return s.SnapshotInto(make([]byte, 0, s.SnapshotLen()))
}

// SnapshotInto appends the snapshot to buf[:0] (reusing its capacity) and returns it.
func (s *Sim) SnapshotInto(buf []byte) []byte {
	if s.anyDirty || s.anyTrig {
		if err := s.runDeltas(); err != nil && s.err == nil {
			s.err = err
		}
	}
	n := s.SnapshotLen()
	if cap(buf) < n {
		buf = make([]byte, n)
	}
	buf = buf[:n]
	o := 0
	for _, x := range s.w {
		binary.LittleEndian.PutUint64(buf[o:], x)
		o += 8
	}
	for _, x := range s.asg {
		binary.LittleEndian.PutUint64(buf[o:], x)
		o += 8
	}
	return buf
}

// Err returns (and clears) an error recorded by Snapshot's implicit settle.
func (s *Sim) Err() error { return s.takeErr() }

// Restore loads a state produced by Snapshot of a Sim of the same program.
func (s *Sim) Restore(b []byte) {
	o := 0
	for i := range s.w {
		s.w[i] = binary.LittleEndian.Uint64(b[o:])
		o += 8
	}
	for i := range s.asg {
		s.asg[i] = binary.LittleEndian.Uint64(b[o:])
		o += 8
	}
	if s.anyDirty {
		for i := range s.dirty {
			s.dirty[i] = 0
		}
		s.anyDirty = false
	}
	if s.anyTrig {
		for i := range s.trig {
			s.trig[i] = 0
		}
		s.anyTrig = false
	}
	s.nba = s.nba[:0]
	s.err = nil
}

// StateKey returns a compact canonical encoding of the state-holding elements only: every reg / memory
// that is written by some process after initialisation and every top-level input, packed to whole bytes.
// Nets, constant memories (ROMs written only by initial blocks) and the assigned-marks are left out.
// Two states with equal keys (of the same program, same constants) have equal Snapshots up to assigned-marks.
func (s *Sim) StateKey(buf []byte) []byte {
	if s.anyDirty || s.anyTrig {
		if err := s.runDeltas(); err != nil && s.err == nil {
			s.err = err
		}
	}
	buf = buf[:0]
	for _, sg := range s.p.keySigs {
		nb := (sg.width + 7) >> 3
		for e := 0; e < sg.elems(); e++ {
			base := sg.off + e*sg.nw
			rem := nb
			for k := 0; k < sg.nw && rem > 0; k++ {
				x := s.w[base+k]
				for j := 0; j < 8 && rem > 0; j++ {
					buf = append(buf, byte(x))
					x >>= 8
					rem--
				}
			}
		}
	}
	return buf
}

// RestoreKey loads a state from a StateKey of the same program: the state-holding elements are written and
// every net is recomputed by a full Settle (no edge events are generated while doing so). Constant memories
// keep their current contents. All restored regs count as assigned afterwards. Slower than Restore but the
// stored representation is several times smaller.
func (s *Sim) RestoreKey(b []byte) error {
	o := 0
	for _, sg := range s.p.keySigs {
		nb := (sg.width + 7) >> 3
		for e := 0; e < sg.elems(); e++ {
			base := sg.off + e*sg.nw
			rem := nb
			for k := 0; k < sg.nw; k++ {
				var x uint64
				for j := 0; j < 8 && rem > 0; j++ {
					x |= uint64(b[o]) << (8 * uint(j))
					o++
					rem--
				}
				s.w[base+k] = x
			}
		}
		s.asg[sg.id>>6] |= 1 << uint(sg.id&63)
	}
	for i := range s.p.comb {
		s.dirty[i>>6] |= 1 << uint(i&63)
	}
	s.anyDirty = len(s.p.comb) != 0
	s.nba = s.nba[:0]
	s.err = nil
	s.noEdge = true
	err := s.settle()
	s.noEdge = false
	for i := range s.trig {
		s.trig[i] = 0
	}
	s.anyTrig = false
	return err
}

// Clone returns an independent state over the same compiled program; safe to use from another goroutine.
func (s *Sim) Clone() *Sim {
	c := &Sim{p: s.p}
	c.w = append([]uint64(nil), s.w...)
	c.asg = append([]uint64(nil), s.asg...)
	c.dirty = append([]uint64(nil), s.dirty...)
	c.trig = append([]uint64(nil), s.trig...)
	c.trigTmp = make([]uint64, len(s.trigTmp))
	c.scratch = make([]uint64, len(s.scratch))
	c.anyDirty, c.anyTrig = s.anyDirty, s.anyTrig
	return c
}
