package vsim

import (
	"bytes"
	"errors"
	"fmt"
	"math/big"
	"math/rand"
	"strconv"
	"strings"
	"testing"
)

// ---------------------------------------------------------------------------------------------
// Conformance corpus: tiny hand-written modules with hand-derived expected traces.
//
// Script language (commands separated by ';'):
//   init                 run Init()
//   set  <sig> <val>     poke
//   setw <sig> <hex>     poke wide (hex, any length)
//   settle               Settle()
//   pos <sig> / neg <sig>
//   exp  <sig> <val>     expect Get(sig) == val      (val decimal, 0x hex or 0b binary)
//   expw <sig> <hex>     expect GetWide(sig) == hex
//   expm <mem> <i> <val> expect GetMem
//   uninit <sig> <0|1>   expect Uninitialised
//   err <class>          the NEXT command must fail with that Diag class
// ---------------------------------------------------------------------------------------------

type confCase struct {
	name   string
	src    string
	top    string
	params map[string]uint64
	script string
}

func parseVal(t *testing.T, s string) uint64 {
	t.Helper()
	s = strings.ReplaceAll(s, "_", "")
	var v uint64
	var err error
	switch {
	case strings.HasPrefix(s, "0x"):
		v, err = strconv.ParseUint(s[2:], 16, 64)
	case strings.HasPrefix(s, "0b"):
		v, err = strconv.ParseUint(s[2:], 2, 64)
	default:
		v, err = strconv.ParseUint(s, 10, 64)
	}
	if err != nil {
		t.Fatalf("bad value %q: %v", s, err)
	}
	return v
}

func hexToLimbs(t *testing.T, h string) []uint64 {
	t.Helper()
	b, ok := new(big.Int).SetString(strings.ReplaceAll(h, "_", ""), 16)
	if !ok {
		t.Fatalf("bad hex %q", h)
	}
	return bigToLimbs(b)
}

func limbsToHex(v []uint64) string {
	b := new(big.Int)
	for i := len(v) - 1; i >= 0; i-- {
		b.Lsh(b, 64)
		b.Or(b, new(big.Int).SetUint64(v[i]))
	}
	return b.Text(16)
}

func elabSrc(t *testing.T, src, top string, params map[string]uint64) *Sim {
	t.Helper()
	d, diags := Parse(map[string]string{"t.v": src})
	for _, dg := range diags {
		t.Fatalf("parse: %s", dg)
	}
	if top == "" {
		top = "t"
	}
	s, err := d.Elaborate(top, params)
	if err != nil {
		t.Fatalf("elaborate: %v", err)
	}
	return s
}

func runScript(t *testing.T, s *Sim, script string) {
	t.Helper()
	wantErr := ""
	check := func(cmd string, err error) {
		t.Helper()
		if wantErr != "" {
			var de *DiagError
			if err == nil || !errors.As(err, &de) || de.Class != wantErr {
				t.Fatalf("%q: expected %s error, got %v", cmd, wantErr, err)
			}
			wantErr = ""
			return
		}
		if err != nil {
			t.Fatalf("%q: %v", cmd, err)
		}
	}
	look := func(n string) SigID {
		t.Helper()
		id, ok := s.Lookup(n)
		if !ok {
			t.Fatalf("no signal %q", n)
		}
		return id
	}
	for _, cmd := range strings.Split(script, ";") {
		f := strings.Fields(cmd)
		if len(f) == 0 {
			continue
		}
		switch f[0] {
		case "init":
			check(cmd, s.Init())
		case "settle":
			check(cmd, s.Settle())
		case "pos":
			check(cmd, s.Posedge(look(f[1])))
		case "neg":
			check(cmd, s.Negedge(look(f[1])))
		case "set":
			s.Set(look(f[1]), parseVal(t, f[2]))
		case "setw":
			s.SetWide(look(f[1]), hexToLimbs(t, f[2]))
		case "err":
			wantErr = f[1]
		case "exp":
			if err := s.Settle(); err != nil {
				t.Fatalf("%q: settle: %v", cmd, err)
			}
			if got, want := s.Get(look(f[1])), parseVal(t, f[2]); got != want {
				t.Fatalf("%q: got %d (0x%x), want %d (0x%x)", strings.TrimSpace(cmd), got, got, want, want)
			}
		case "expw":
			if err := s.Settle(); err != nil {
				t.Fatalf("%q: settle: %v", cmd, err)
			}
			got := limbsToHex(s.GetWide(look(f[1])))
			want := limbsToHex(hexToLimbs(t, f[2]))
			if got != want {
				t.Fatalf("%q: got %s, want %s", strings.TrimSpace(cmd), got, want)
			}
		case "expm":
			i, _ := strconv.Atoi(f[2])
			if got, want := s.GetMem(look(f[1]), i), parseVal(t, f[3]); got != want {
				t.Fatalf("%q: got %d (0x%x), want %d", strings.TrimSpace(cmd), got, got, want)
			}
		case "uninit":
			if got, want := s.Uninitialised(look(f[1])), f[2] == "1"; got != want {
				t.Fatalf("%q: got %v", strings.TrimSpace(cmd), got)
			}
		default:
			t.Fatalf("bad script command %q", cmd)
		}
	}
	// generic invariants: snapshot/restore/clone round trip
	snap := s.Snapshot()
	c := s.Clone()
	if !bytes.Equal(c.Snapshot(), snap) {
		t.Fatalf("clone snapshot differs")
	}
	c.Restore(snap)
	if !bytes.Equal(c.Snapshot(), snap) {
		t.Fatalf("restore snapshot differs")
	}
}

var confCases = []confCase{
	// ---------------- scheduling ----------------
	{name: "nba_swap", src: `
module t(input clk);
  reg [3:0] a, b;
  initial begin a = 1; b = 2; end
  always @(posedge clk) begin a <= b; b <= a; end
endmodule`, script: "init; exp a 1; exp b 2; pos clk; exp a 2; exp b 1; pos clk; exp a 1; exp b 2"},

	{name: "blocking_sequence", src: `
module t(input clk);
  reg [3:0] a, b;
  initial begin a = 1; b = 2; end
  always @(posedge clk) begin a = b; b = a; end
endmodule`, script: "init; pos clk; exp a 2; exp b 2"},

	{name: "blocking_nba_mix", src: `
module t(input clk);
  reg [7:0] a, b, tmp;
  initial begin a = 0; b = 0; tmp = 0; end
  always @(posedge clk) begin tmp = a + 1; b <= tmp; a <= tmp + 1; end
endmodule`, script: "init; pos clk; exp tmp 1; exp b 1; exp a 2; pos clk; exp tmp 3; exp b 3; exp a 4"},

	{name: "nba_last_wins", src: `
module t(input clk);
  reg [3:0] q;
  always @(posedge clk) begin q <= 1; q <= 2; end
endmodule`, script: "init; pos clk; exp q 2"},

	{name: "nba_pre_edge_across_blocks", src: `
module t(input clk);
  reg [7:0] x, y;
  initial begin x = 0; y = 5; end
  always @(posedge clk) x <= y;
  always @(posedge clk) y <= x + 1;
endmodule`, script: "init; pos clk; exp x 5; exp y 1; pos clk; exp x 1; exp y 6"},

	{name: "blocking_visible_to_later_block", src: `
module t(input clk);
  reg [7:0] p, q;
  initial begin p = 0; q = 0; end
  always @(posedge clk) p = p + 1;
  always @(posedge clk) q <= p;
endmodule`, script: "init; pos clk; exp p 1; exp q 1; pos clk; exp p 2; exp q 2"},

	{name: "nba_rhs_evaluated_at_schedule_time", src: `
module t(input clk);
  reg [7:0] a, b;
  initial begin a = 3; b = 0; end
  always @(posedge clk) begin b <= a; a = a + 10; end
endmodule`, script: "init; pos clk; exp b 3; exp a 13"},

	{name: "nba_index_evaluated_at_schedule_time", src: `
module t(input clk);
  reg [7:0] r; reg [2:0] i;
  initial begin r = 0; i = 2; end
  always @(posedge clk) begin r[i] <= 1'b1; i = i + 1; end
endmodule`, script: "init; pos clk; exp r 4; exp i 3; pos clk; exp r 12"},

	// ---------------- selects ----------------
	{name: "part_select_write", src: `
module t(input clk);
  reg [7:0] r;
  initial r = 0;
  always @(posedge clk) begin r[7:4] <= 4'hA; r[1:0] <= 2'b11; end
endmodule`, script: "init; pos clk; exp r 0xA3"},

	{name: "bit_select_write_const", src: `
module t(input clk);
  reg [7:0] r;
  initial r = 8'h01;
  always @(posedge clk) r[3] <= 1'b1;
endmodule`, script: "init; pos clk; exp r 9"},

	{name: "variable_bit_write", src: `
module t(input clk);
  reg [7:0] r; reg [2:0] i;
  initial begin r = 0; i = 0; end
  always @(posedge clk) begin r[i] <= 1'b1; i <= i + 1; end
endmodule`, script: "init; pos clk; exp r 1; pos clk; exp r 3; pos clk; exp r 7; exp i 3"},

	{name: "variable_bit_read", src: `
module t(input [7:0] r, input [2:0] i, output y);
  assign y = r[i];
endmodule`, script: "init; set r 0x24; set i 2; exp y 1; set i 3; exp y 0; set i 5; exp y 1"},

	{name: "indexed_part_select", src: `
module t(input clk, input [1:0] i);
  reg [15:0] r; wire [3:0] up, dn;
  initial r = 16'h4321;
  assign up = r[i*4 +: 4];
  assign dn = r[i*4+3 -: 4];
  always @(posedge clk) r[i*4 +: 4] <= 4'hF;
endmodule`, script: "init; set i 1; exp up 2; exp dn 2; set i 3; exp up 4; pos clk; exp r 0xF321; set i 0; pos clk; exp r 0xF32F"},

	{name: "out_of_range_select", src: `
module t(input clk, input [3:0] i);
  reg [7:0] r; wire y; wire [3:0] p;
  initial r = 8'hFF;
  assign y = r[i];
  assign p = r[i +: 4];
  always @(posedge clk) r[i] <= 1'b0;
endmodule`, script: "init; set i 9; exp y 0; exp p 0; pos clk; exp r 0xFF; set i 6; exp p 3; set i 7; pos clk; exp r 0x7F"},

	{name: "ascending_range", src: `
module t(input clk);
  reg [0:7] v; wire msb; wire [3:0] hi; wire [0:3] lo;
  initial v = 8'h81;
  assign msb = v[0];
  assign hi = v[0:3];
  assign lo = v[4:7];
  always @(posedge clk) begin v[1] <= 1'b1; v[6:7] <= 2'b10; end
endmodule`, script: "init; exp msb 1; exp hi 8; exp lo 1; pos clk; exp v 0xC2"},

	{name: "nonzero_lsb_range", src: `
module t(input clk);
  reg [8:1] w; wire b1, b8; wire [3:0] mid;
  initial w = 8'h81;
  assign b1 = w[1];
  assign b8 = w[8];
  assign mid = w[5:2];
  always @(posedge clk) w[4:3] <= 2'b11;
endmodule`, script: "init; exp b1 1; exp b8 1; exp mid 0; pos clk; exp w 0x8D; exp mid 6"},

	{name: "concat_lhs", src: `
module t(input clk);
  reg [7:0] a; reg [3:0] b;
  initial begin a = 0; b = 0; end
  always @(posedge clk) {a[3:0], b} <= 12'hABC;
endmodule`, script: "init; pos clk; exp a 0x0B; exp b 0xC"},

	// ---------------- widths and signedness ----------------
	{name: "truncate_and_extend", src: `
module t;
  reg [3:0] a; reg [7:0] b, c;
  initial begin a = 8'hAB; b = 4'hF; c = 4'shF; end
endmodule`, script: "init; exp a 0xB; exp b 0x0F; exp c 0xFF"},

	{name: "carry_by_concat", src: `
module t(input clk, input [7:0] a, input [7:0] b);
  reg c, c2; reg [7:0] s, s2, s3;
  always @(posedge clk) begin
    {c, s} <= a + b;
    s2 <= a + b;
    {c2, s3} <= {1'b0, a} + {1'b0, b};
  end
endmodule`, script: "init; set a 200; set b 100; pos clk; exp c 1; exp s 0x2C; exp s2 0x2C; exp c2 1; exp s3 0x2C; set a 1; set b 2; pos clk; exp c 0; exp s 3"},

	{name: "context_width_of_intermediate", src: `
module t(input [7:0] a, input [7:0] b);
  wire [7:0] y8 = (a + b) >> 1;
  wire [8:0] y9 = (a + b) >> 1;
  wire [7:0] z1 = (8'd255 + 1) >> 1;
  wire [7:0] z2 = (8'd255 + 8'd1) >> 1;
  wire [7:0] z3 = {a + b} >> 1;
endmodule`, script: "init; set a 200; set b 100; exp y8 22; exp y9 150; exp z1 128; exp z2 0; exp z3 22"},

	{name: "arith_shift_signedness", src: `
module t;
  reg signed [7:0] s; reg [7:0] u;
  wire [7:0] a = s >>> 1;
  wire [7:0] b = u >>> 1;
  wire [7:0] c = $signed(u) >>> 2;
  wire [7:0] d = (s >>> 1) + 8'd0;
  wire [7:0] e = s >> 1;
  wire [7:0] f = (s >>> 1) + 8'sd0;
  wire [7:0] g = $unsigned(s) >>> 1;
  wire [7:0] h = s <<< 1;
  initial begin s = -8; u = 8'hF8; end
endmodule`, script: "init; exp a 0xFC; exp b 0x7C; exp c 0xFE; exp d 0x7C; exp e 0x7C; exp f 0xFC; exp g 0x7C; exp h 0xF0"},

	{name: "signed_comparison", src: `
module t;
  reg signed [7:0] s; reg [7:0] u;
  wire a = s < 0;
  wire b = u < 0;
  wire c = s < 8'd1;
  wire d = $signed(u) < 0;
  wire e = s < 8'sd1;
  wire f = s > -2;
  wire g = (s == -1);
  wire h = (u == -1);
  wire i = $signed(u) >= $signed(8'h7F);
  initial begin s = -1; u = 8'h80; end
endmodule`, script: "init; exp a 1; exp b 0; exp c 0; exp d 1; exp e 1; exp f 1; exp g 1; exp h 0; exp i 0"},

	{name: "sign_extension_on_assignment", src: `
module t;
  reg signed [3:0] n; reg [7:0] w1, w2, w3; reg signed [7:0] w4;
  initial begin
    n = -3;
    w1 = n;
    w2 = n + 4'd1;
    w3 = n + 4'sd1;
    w4 = n;
  end
endmodule`, script: "init; exp n 13; exp w1 0xFD; exp w2 0x0E; exp w3 0xFE; exp w4 0xFD"},

	{name: "unsized_constants_are_32_bit", src: `
module t;
  reg [63:0] q1, q2, q3, q4, q5;
  reg [7:0] z;
  initial begin
    q1 = ~0;
    q2 = 'hFFFFFFFF + 1;
    q3 = {32'hFFFFFFFF + 32'd1};
    q4 = 1 << 40;
    q5 = -1;
    z = 'b0;
  end
endmodule`, script: "init; exp q1 0xFFFFFFFFFFFFFFFF; exp q2 0x100000000; exp q3 0; exp q4 0x10000000000; exp q5 0xFFFFFFFFFFFFFFFF; exp z 0"},

	{name: "unsized_based_is_unsigned", src: `
module t;
  reg [63:0] q1, q2;
  initial begin q1 = 'hFFFFFFFF; q2 = -'d1; end
endmodule`, script: "init; exp q1 0xFFFFFFFF; exp q2 0xFFFFFFFFFFFFFFFF"},

	{name: "unsigned_underflow_compare", src: `
module t(input [7:0] a, input [7:0] b);
  wire y = (a - b) > 0;
  wire z = (a - b) == 8'hFF;
  wire z2 = (a - b) == 'hFF;
  wire [7:0] d = a - b;
endmodule`, script: "init; set a 1; set b 2; exp y 1; exp z 1; exp z2 0; exp d 0xFF"},

	{name: "signed_arithmetic", src: `
module t;
  reg signed [7:0] a, b; reg [7:0] ua;
  wire signed [7:0] q = a / b;
  wire signed [7:0] r = a % b;
  wire signed [15:0] p = a * b;
  wire [15:0] pu = ua * 8'd3;
  wire [15:0] ps = $signed(ua) * $signed(8'd3);
  wire [7:0] dz = a / 8'sd0;
  wire [7:0] uq = ua / 8'd7;
  initial begin a = -7; b = 2; ua = 8'hFE; end
endmodule`, script: "init; exp q 0xFD; exp r 0xFF; exp p 0xFFF2; exp pu 0x02FA; exp ps 0xFFFA; exp dz 0; exp uq 36"},

	{name: "integer_is_signed_32", src: `
module t;
  integer i; reg [7:0] y1, y2; reg [39:0] y3; reg lt;
  initial begin
    i = -5;
    y1 = i / 2;
    y2 = i >>> 1;
    y3 = i;
    lt = i < 0;
  end
endmodule`, script: "init; exp y1 0xFE; exp y2 0xFD; exp y3 0xFFFFFFFFFB; exp lt 1; exp i 0xFFFFFFFB"},

	{name: "operator_precedence", src: `
module t;
  wire [7:0] a = 2 + 3 * 4;
  wire [7:0] b = 1 | 2 & 4;
  wire [7:0] c = 1 << 2 + 1;
  wire d = 5 > 3 == 1;
  wire [7:0] e = -2 ** 2;
  wire [7:0] f = 8'hF0 ^ 8'h3C & 8'h0F;
  wire [7:0] g = ~8'h0F & 8'h3C;
  wire h = 1 || 0 && 0;
  wire [7:0] i = 10 - 4 - 3;
  wire [7:0] j = 100 / 10 / 5;
  wire [7:0] k = 1 ? 2 : 0 ? 3 : 4;
endmodule`, script: "init; exp a 14; exp b 1; exp c 8; exp d 1; exp e 4; exp f 0xFC; exp g 0x30; exp h 1; exp i 3; exp j 2; exp k 2"},

	{name: "reductions", src: `
module t(input [3:0] v);
  wire a = &v, o = |v, x = ^v, na = ~&v, no = ~|v, nx = ~^v, nx2 = ^~v;
endmodule`, script: "init; set v 0xF; exp a 1; exp o 1; exp x 0; exp na 0; exp no 0; exp nx 1; exp nx2 1;" +
		"set v 7; exp a 0; exp o 1; exp x 1; exp na 1; exp nx 0; set v 0; exp o 0; exp no 1; exp x 0; exp na 1"},

	{name: "logical_operators", src: `
module t(input [3:0] a, input [3:0] b);
  wire n = !a, la = a && b, lo = a || b;
  wire [3:0] bn = ~a;
  wire [3:0] m = !a + 4'd2;
endmodule`, script: "init; set a 4; set b 0; exp n 0; exp la 0; exp lo 1; exp bn 11; exp m 2; set a 0; exp n 1; exp lo 0; exp m 3; set b 8; set a 2; exp la 1"},

	{name: "ternary", src: `
module t(input s, input [1:0] k);
  wire [7:0] y = s ? 4'hF : 8'h01;
  wire [7:0] z = (k == 0) ? 8'd10 : (k == 1) ? 8'd20 : (k == 2) ? 8'd30 : 8'd40;
  wire signed [3:0] n4 = -1;
  wire [7:0] w = s ? n4 : 8'sd1;
  wire [7:0] u = s ? n4 : 8'd1;
  wire [7:0] v = s ? -4'sd1 : 8'd1;
endmodule`, script: "init; set s 1; exp y 0x0F; exp w 0xFF; exp u 0x0F; exp v 0xFF; set s 0; exp y 1; exp w 1; set k 0; exp z 10; set k 1; exp z 20; set k 2; exp z 30; set k 3; exp z 40"},

	{name: "concat_and_replication", src: `
module t(input [3:0] a, input [3:0] b);
  wire [7:0] r2 = {2{a}};
  wire [5:0] m = {a, b[1:0]};
  wire [2:0] ones = {3{1'b1}};
  wire [11:0] n = {a, {2{b[3:2]}}, 4'h5};
  wire [7:0] sx = {{4{a[3]}}, a};
  wire [15:0] w = {a, b} + 1;
endmodule`, script: "init; set a 0xA; set b 0x6; exp r2 0xAA; exp m 0x2A; exp ones 7; exp n 0xA55; exp sx 0xFA; exp w 0xA7"},

	{name: "shifts", src: `
module t(input [7:0] a, input [3:0] n);
  wire [7:0] l = a << n;
  wire [7:0] r = a >> n;
  wire [15:0] l16 = a << n;
  wire [7:0] big = a << 8'd200;
  wire [7:0] sh1 = 8'd1 << n;
endmodule`, script: "init; set a 0x81; set n 1; exp l 2; exp r 0x40; exp l16 0x102; exp big 0; exp sh1 2; set n 9; exp l 0; exp r 0; exp l16 0x200; exp sh1 0"},

	{name: "power", src: `
module t(input [3:0] i);
  wire [15:0] p = 2 ** i;
  wire [7:0] q = 3 ** 2;
  localparam K = 2 ** 5;
  wire [7:0] k = K;
endmodule`, script: "init; set i 0; exp p 1; set i 10; exp p 1024; exp q 9; exp k 32"},

	{name: "xz_literals_are_zero", src: `
module t;
  wire [3:0] a = 4'b1x0z;
  wire [7:0] b = 8'hzF;
  wire [7:0] c = 8'bx;
  wire e = (4'b1010 === 4'b1010);
  wire f = (4'b1010 !== 4'b1010);
endmodule`, script: "init; exp a 8; exp b 0x0F; exp c 0; exp e 1; exp f 0"},

	// ---------------- case ----------------
	{name: "case_default", src: `
module t(input [1:0] s);
  reg [7:0] y;
  always @* begin
    case (s)
      2'd0: y = 10;
      2'd1, 2'd2: y = 20;
      default: y = 99;
    endcase
  end
endmodule`, script: "init; exp y 10; set s 1; exp y 20; set s 2; exp y 20; set s 3; exp y 99"},

	{name: "case_no_match_keeps_value", src: `
module t(input clk, input [1:0] s);
  reg [7:0] y;
  initial y = 5;
  always @(posedge clk) case (s) 2'd1: y <= 7; endcase
endmodule`, script: "init; pos clk; exp y 5; set s 1; pos clk; exp y 7; set s 2; pos clk; exp y 7"},

	{name: "case_first_match_wins", src: `
module t(input [1:0] s);
  reg [7:0] y;
  always @* case (s) 2'd1: y = 1; 2'd1: y = 2; default: y = 0; endcase
endmodule`, script: "init; set s 1; exp y 1"},

	{name: "casez_priority", src: `
module t(input [3:0] r);
  reg [2:0] y;
  always @* casez (r)
    4'b1???: y = 3;
    4'b01??: y = 2;
    4'b001?: y = 1;
    4'b0001: y = 0;
    default: y = 7;
  endcase
endmodule`, script: "init; exp y 7; set r 1; exp y 0; set r 3; exp y 1; set r 5; exp y 2; set r 0xC; exp y 3; set r 8; exp y 3"},

	{name: "casex_and_case_with_x", src: `
module t(input [3:0] r);
  reg [2:0] y, w;
  always @* casex (r) 4'b1xx0: y = 1; 4'bz1z1: y = 2; default: y = 0; endcase
  always @* case (r) 4'b1xx0: w = 1; 4'b1000: w = 2; default: w = 0; endcase
endmodule`, script: "init; set r 0xA; exp y 1; set r 5; exp y 2; set r 0xF; exp y 2; set r 1; exp y 0; set r 8; exp y 1; exp w 2; set r 0xA; exp w 0"},

	{name: "case_wide_selector_and_sizing", src: `
module t(input [15:0] s);
  reg [3:0] y;
  localparam A = 16'h1234, B = 16'hFFFF;
  always @* case (s) A: y = 1; B: y = 2; 3: y = 3; default: y = 0; endcase
endmodule`, script: "init; set s 0x1234; exp y 1; set s 0xFFFF; exp y 2; set s 3; exp y 3; set s 4; exp y 0"},

	{name: "case_variable_labels", src: `
module t(input [3:0] s, input [3:0] a, input [3:0] b);
  reg [1:0] y;
  always @* case (s) a: y = 1; b: y = 2; default: y = 0; endcase
  reg [1:0] z;
  always @* case (1'b1) s[0]: z = 1; s[1]: z = 2; default: z = 3; endcase
endmodule`, script: "init; set a 3; set b 5; set s 5; exp y 2; exp z 1; set s 3; exp y 1; set a 4; exp y 0; set s 2; exp z 2; set s 4; exp z 3"},

	// ---------------- memories ----------------
	{name: "memory_rw", src: `
module t(input clk, input we, input [1:0] wa, input [7:0] wd, input [1:0] ra, output [7:0] rd);
  reg [7:0] m [0:3];
  assign rd = m[ra];
  always @(posedge clk) if (we) m[wa] <= wd;
endmodule`, script: "init; set we 1; set wa 2; set wd 0x55; pos clk; expm m 2 0x55; set ra 2; exp rd 0x55; set ra 1; exp rd 0; set we 0; set wd 9; pos clk; expm m 2 0x55"},

	{name: "memory_nonzero_base_and_oob", src: `
module t(input clk, input [3:0] a, input [7:0] d, output [7:0] q);
  reg [7:0] m [4:7];
  assign q = m[a];
  always @(posedge clk) m[a] <= d;
endmodule`, script: "init; set a 4; set d 1; pos clk; set a 7; set d 2; pos clk; set a 3; set d 9; pos clk; set a 8; pos clk;" +
		"expm m 0 1; expm m 3 2; expm m 1 0; set a 4; exp q 1; set a 7; exp q 2; set a 3; exp q 0; set a 9; exp q 0"},

	{name: "rom_initial_and_comb_read", src: `
module t(input [1:0] a, output [7:0] d, output b5);
  reg [7:0] rom [0:3];
  initial begin rom[0] = 8'h11; rom[1] = 8'h22; rom[2] = 8'h33; end
  assign d = rom[a];
  assign b5 = rom[a][5];
endmodule`, script: "init; exp d 0x11; set a 1; exp d 0x22; exp b5 1; set a 2; exp d 0x33; set a 3; exp d 0; uninit rom 0"},

	{name: "memory_for_reset_and_part_write", src: `
module t(input clk, input rst);
  reg [7:0] m [3:0]; integer i;
  always @(posedge clk) begin
    if (rst) for (i = 0; i < 4; i = i + 1) m[i] <= i + 1;
    else begin m[1][7:4] <= 4'hA; m[2][0] <= 1'b0; end
  end
endmodule`, script: "init; set rst 1; pos clk; expm m 0 1; expm m 3 4; set rst 0; pos clk; expm m 1 0xA2; expm m 2 2; exp i 4"},

	// ---------------- reset, edges, clocks ----------------
	{name: "async_reset", src: `
module t(input clk, input rst);
  reg [7:0] q;
  always @(posedge clk or posedge rst) if (rst) q <= 0; else q <= q + 1;
endmodule`, script: "init; uninit q 1; pos clk; exp q 1; uninit q 0; pos clk; exp q 2; pos rst; exp q 0; pos clk; exp q 0; set rst 0; pos clk; exp q 1"},

	{name: "sync_reset_active_low_negedge_async", src: `
module t(input clk, input rst_n);
  reg [7:0] q;
  always @(posedge clk, negedge rst_n) if (!rst_n) q <= 8'hAA; else q <= q + 1;
endmodule`, script: "init; set rst_n 1; pos clk; exp q 1; neg rst_n; exp q 0xAA; pos clk; exp q 0xAA; set rst_n 1; pos clk; exp q 0xAB"},

	{name: "negedge_block_and_implicit_falling_edge", src: `
module t(input clk);
  reg [7:0] p, n;
  initial begin p = 0; n = 0; end
  always @(posedge clk) p <= p + 1;
  always @(negedge clk) n <= n + 1;
endmodule`, script: "init; pos clk; exp p 1; exp n 0; neg clk; exp n 1; exp p 1; pos clk; pos clk; exp p 3; exp n 2; exp clk 1"},

	{name: "derived_clock_divider", src: `
module t(input clk);
  reg div; reg [7:0] cnt;
  initial begin div = 0; cnt = 0; end
  always @(posedge clk) div <= ~div;
  always @(posedge div) cnt <= cnt + 1;
endmodule`, script: "init; pos clk; exp div 1; exp cnt 1; pos clk; exp div 0; exp cnt 1; pos clk; exp cnt 2"},

	{name: "gated_clock_through_assign", src: `
module t(input clk, input en);
  wire g = clk & en; reg [7:0] c;
  initial c = 0;
  always @(posedge g) c <= c + 1;
endmodule`, script: "init; pos clk; exp c 0; neg clk; set en 1; pos clk; exp c 1; pos clk; exp c 2; set en 0; pos clk; exp c 2;" +
		"set en 1; exp c 3"}, // raising en while clk is high is a rising edge of the gated clock

	{name: "set_input_then_posedge_sees_settled_nets", src: `
module t(input clk, input [7:0] a);
  wire [7:0] n = a + 1; reg [7:0] q;
  always @(posedge clk) q <= n;
endmodule`, script: "init; set a 4; pos clk; exp q 5; set a 9; pos clk; exp q 10"},

	// ---------------- combinational ----------------
	{name: "comb_chain_reverse_order", src: `
module t(input [7:0] a);
  wire [7:0] b, c, d; reg [7:0] e, f;
  assign d = c + 1;
  always @* f = e + 1;
  always @(*) e = d + 1;
  assign c = b + 1;
  assign b = a + 1;
endmodule`, script: "init; exp f 5; set a 10; exp b 11; exp c 12; exp d 13; exp e 14; exp f 15"},

	{name: "comb_temp_variable", src: `
module t(input a, input b, input c);
  reg tmp, y;
  always @* begin tmp = a & b; y = tmp | c; end
endmodule`, script: "init; exp y 0; set a 1; set b 1; exp y 1; set b 0; exp y 0; set c 1; exp y 1"},

	{name: "comb_explicit_sensitivity_list", src: `
module t(input [3:0] a, input [3:0] b);
  reg [3:0] y;
  always @(a or b) y = a ^ b;
  reg lt;
  always @(a, b) if (a <= b) lt <= 1'b1; else if (a > b) lt <= 1'b0;
endmodule`, script: "init; set a 5; set b 3; exp y 6; exp lt 0; set b 9; exp lt 1"},

	{name: "nba_in_comb_block", src: `
module t(input [1:0] sel, input [7:0] v);
  reg [7:0] o [0:1]; integer i;
  always @(*) begin
    for (i = 0; i < 2; i = i + 1) begin
      o[i] <= 'b0;
      if (sel == i) o[i] <= v;
    end
  end
endmodule`, script: "init; set v 7; set sel 1; settle; expm o 0 0; expm o 1 7; set sel 0; settle; expm o 0 7; expm o 1 0; set sel 3; settle; expm o 0 0"},

	{name: "latch", src: `
module t(input en, input [3:0] d);
  reg [3:0] q;
  always @* if (en) q = d;
endmodule`, script: "init; set d 5; exp q 0; set en 1; exp q 5; set d 6; exp q 6; set en 0; set d 7; exp q 6"},

	{name: "comb_loop_detected", src: `
module t(input en);
  wire a;
  assign a = en ? ~a : 1'b0;
endmodule`, script: "init; exp a 0; set en 1; err comb-loop; settle"},

	{name: "comb_loop_at_init", src: `
module t;
  wire [3:0] a; assign a = a + 1;
endmodule`, script: "err comb-loop; init"},

	{name: "structural_cycle_that_converges", src: `
module t(input e1, input e2);
  wire [3:0] x, y;
  assign x = e1 ? y : 4'd0;
  assign y = e2 ? x : 4'd1;
endmodule`, script: "init; exp x 0; exp y 1; set e1 1; exp x 1; set e2 1; exp x 1; exp y 1; set e1 0; exp x 0; exp y 0"},

	{name: "bitwise_chain_within_vector", src: `
module t(input a);
  wire [3:0] v;
  assign v[0] = a;
  assign v[1] = v[0];
  assign v[2] = v[1];
  assign v[3] = v[2];
endmodule`, script: "init; exp v 0; set a 1; exp v 15; set a 0; exp v 0"},

	// ---------------- loops, functions, blocks ----------------
	{name: "for_loop_bit_reverse_and_popcount", src: `
module t(input [7:0] a);
  reg [7:0] r; reg [3:0] pc; integer i;
  always @* begin
    pc = 0;
    for (i = 0; i < 8; i = i + 1) begin r[i] = a[7 - i]; pc = pc + a[i]; end
  end
endmodule`, script: "init; set a 0xB1; exp r 0x8D; exp pc 4"},

	{name: "while_and_repeat", src: `
module t(input [7:0] n);
  reg [7:0] lg, tmp, rp;
  always @* begin
    lg = 0; tmp = n;
    while (tmp > 1) begin tmp = tmp >> 1; lg = lg + 1; end
    rp = 1;
    repeat (3) rp = rp * 2;
  end
endmodule`, script: "init; set n 64; exp lg 6; exp rp 8; set n 5; exp lg 2"},

	{name: "disable_named_block", src: `
module t(input [7:0] a);
  reg [3:0] first; integer i;
  always @* begin : search
    first = 15;
    for (i = 0; i < 8; i = i + 1)
      if (a[i]) begin first = i; disable search; end
  end
endmodule`, script: "init; exp first 15; set a 0x28; exp first 3; set a 0x80; exp first 7"},

	{name: "named_block_local_variable", src: `
module t(input clk);
  reg [7:0] acc;
  initial acc = 0;
  always @(posedge clk) begin : blk
    integer k;
    for (k = 1; k <= 3; k = k + 1) acc = acc + k;
  end
endmodule`, script: "init; pos clk; exp acc 6; exp blk.k 4; pos clk; exp acc 12"},

	{name: "function_parity_and_max", src: `
module t(input [7:0] a, input [7:0] b);
  function par; input [7:0] v; integer i; begin par = 0; for (i = 0; i < 8; i = i + 1) par = par ^ v[i]; end endfunction
  function [7:0] max2; input [7:0] x, y; begin if (x > y) max2 = x; else max2 = y; end endfunction
  function signed [7:0] neg(input signed [7:0] x); neg = -x; endfunction
  wire p = par(a);
  wire [7:0] m = max2(a, max2(b, 8'd9));
  wire [15:0] ng = neg(a);
endmodule`, script: "init; set a 7; set b 3; exp p 1; exp m 9; exp ng 0xFFF9; set b 200; exp m 200; set a 3; exp p 0"},

	{name: "constant_function_in_parameter", src: `
module t(input clk);
  parameter DEPTH = 20;
  function integer log2(input integer M); integer i; begin log2 = 1; for (i = 0; 2**i <= M; i = i + 1) log2 = i + 1; end endfunction
  localparam W = log2(DEPTH);
  reg [W-1:0] c;
  wire [7:0] w = W;
  initial c = 0;
  always @(posedge clk) c <= c - 1;
endmodule`, script: "init; exp w 5; pos clk; exp c 31"},

	{name: "initial_blocks", src: `
module t;
  reg [7:0] a, b, c, d; reg [7:0] e = 8'd9;
  initial begin a = 1; b <= a + 1; end
  initial begin c = a + 10; a = 2; end
  initial d <= a;
endmodule`, script: "init; exp a 2; exp b 2; exp c 11; exp d 2; exp e 9; uninit e 0"},

	{name: "uninitialised_marks", src: `
module t(input clk, input d);
  reg a, b, c; reg [3:0] m [0:1]; wire w = a;
  initial b = 0;
  always @(posedge clk) begin a <= d; if (d) m[0] <= 1; end
endmodule`, script: "init; uninit a 1; uninit b 0; uninit c 1; uninit m 1; uninit w 0; uninit d 0; pos clk; uninit a 0; uninit m 1; uninit c 1; set d 1; pos clk; uninit m 0; set c 1; uninit c 0"},

	// ---------------- hierarchy ----------------
	{name: "hierarchy_positional_named_param", top: "t", src: `
module add #(parameter W = 4, parameter INC = 1) (input [W-1:0] a, output [W-1:0] y);
  assign y = a + INC;
endmodule
module t(input [7:0] x);
  wire [7:0] y1, y2; wire [3:0] y3; wire [7:0] y4;
  add #(8) u1 (x, y1);
  add #(.W(8), .INC(3)) u2 (.y(y2), .a(x));
  add u3 (.a(x[3:0]), .y(y3));
  add #(8, 100) u4 (x, y4);
endmodule`, script: "init; set x 0xFF; exp y1 0; exp y2 2; exp y3 0; exp y4 99; exp u2.a 0xFF; exp u3.a 0xF; set x 5; exp y1 6; exp y3 6"},

	{name: "hierarchy_width_adaptation_and_expressions", top: "t", src: `
module sub(input [3:0] a, input [7:0] b, input c, output [7:0] y, output [3:0] z, output u);
  assign y = {a, a} ^ b;
  assign z = a;
  assign u = c;
endmodule
module t(input [7:0] p, input [7:0] q);
  wire [7:0] y; wire [7:0] zwide; wire [1:0] ynarrow; wire u;
  sub s1 (.a(p), .b(p + q), .c(), .y(y), .z(zwide), .u(u));
  sub s2 (.a(4'd3), .b(8'h0F), .c(1'b1), .y(ynarrow), .z(), .u());
endmodule`, script: "init; set p 0xA5; set q 1; exp s1.a 5; exp s1.b 0xA6; exp y 0xF3; exp zwide 5; exp u 0; exp s2.y 0x3C; exp ynarrow 0; exp s2.u 1"},

	{name: "hierarchy_output_reg_alias_and_clock", top: "t", src: `
module cnt(input clk, input rst, output reg [3:0] q);
  always @(posedge clk) if (rst) q <= 0; else q <= q + 1;
endmodule
module mid(input c, input r, output [3:0] o);
  cnt u (c, r, o);
endmodule
module t(input clk, input rst, output [3:0] out, output [3:0] out2);
  mid m1 (clk, rst, out);
  mid m2 (.c(clk), .r(1'b0), .o(out2));
endmodule`, script: "init; set rst 1; pos clk; exp out 0; exp out2 1; set rst 0; pos clk; exp out 1; exp m1.u.q 1; exp m1.o 1; exp out2 2; uninit out 0"},

	{name: "implicit_net_between_instances", top: "t", src: `
module inv(input a, output y); assign y = ~a; endmodule
module t(input x, output z);
  inv i1 (x, mid);
  inv i2 (mid, z);
endmodule`, script: "init; exp z 0; exp mid 1; set x 1; exp z 1; exp mid 0"},

	{name: "top_parameter_override", params: map[string]uint64{"W": 12, "INIT": 5}, src: `
module t(input clk);
  parameter W = 4; parameter INIT = 0; localparam TOP = (1 << W) - 1;
  reg [W-1:0] c;
  initial c = INIT;
  always @(posedge clk) c <= c + TOP;
endmodule`, script: "init; exp c 5; pos clk; exp c 4; pos clk; exp c 3"},

	{name: "generate_for_ripple_adder", top: "t", src: `
module fa(input a, input b, input ci, output s, output co);
  assign s = a ^ b ^ ci;
  assign co = (a & b) | (ci & (a ^ b));
endmodule
module t(input [7:0] a, input [7:0] b, output [7:0] s, output cout);
  wire [8:0] c; assign c[0] = 1'b0;
  genvar i;
  generate
    for (i = 0; i < 8; i = i + 1) begin : stage
      fa u (.a(a[i]), .b(b[i]), .ci(c[i]), .s(s[i]), .co(c[i+1]));
    end
  endgenerate
  assign cout = c[8];
endmodule`, script: "init; set a 200; set b 100; exp s 44; exp cout 1; set a 15; set b 1; exp s 16; exp cout 0; exp stage[3].u.co 1"},

	{name: "generate_for_always_and_if", src: `
module t(input clk, input [3:0] d);
  parameter MODE = 1;
  reg [3:0] q; wire [3:0] rev;
  genvar g;
  generate
    for (g = 0; g < 4; g = g + 1) begin
      always @(posedge clk) q[g] <= d[3 - g];
      assign rev[g] = q[3 - g];
    end
    if (MODE == 1) begin : m1
      wire [3:0] w = rev + 1;
    end else begin : m0
      wire [3:0] w = rev - 1;
    end
  endgenerate
endmodule`, script: "init; set d 0b0011; pos clk; exp q 0b1100; exp rev 0b0011; exp m1.w 4"},

	// ---------------- wide values ----------------
	{name: "wide_register_selects", src: `
module t(input clk);
  reg [79:0] iw; wire [3:0] op = iw[79:76]; wire [7:0] mid = iw[67:60]; wire [71:0] low = iw[71:0]; wire b64 = iw[64];
  initial iw = 80'hA123_4567_89AB_CDEF_0123;
  always @(posedge clk) begin iw[67:60] <= 8'hFF; iw[79:76] <= 4'h5; end
endmodule`, script: "init; exp op 0xA; exp mid 0x34; expw low 23456789ABCDEF0123; exp b64 1; pos clk; expw iw 512FF56789ABCDEF0123; exp mid 0xFF"},

	{name: "wide_arithmetic", src: `
module t(input [63:0] a, input [63:0] b);
  wire [127:0] p = a * b;
  wire [127:0] pp = {64'd0, a} * {64'd0, b};
  wire [64:0] s = a + b;
  wire [127:0] sh = {64'd0, a} << 68;
  wire [127:0] neg = -{64'd0, a};
  wire [127:0] sr = {a, b} >> 60;
  wire gt = {a, b} > {b, a};
  wire [127:0] d = {a, b} / 128'd3;
  wire [127:0] m = {a, b} % 128'd1000;
  wire signed [127:0] sa = $signed({a, b}) >>> 4;
endmodule`, script: "init; setw a FFFFFFFFFFFFFFFF; setw b FFFFFFFFFFFFFFFF;" +
		"expw p FFFFFFFFFFFFFFFE0000000000000001; expw pp FFFFFFFFFFFFFFFE0000000000000001; expw s 1FFFFFFFFFFFFFFFE;" +
		"expw sh FFFFFFFFFFFFFFF00000000000000000; expw neg FFFFFFFFFFFFFFFF0000000000000001; expw sr FFFFFFFFFFFFFFFFF; exp gt 0;" +
		"expw d 55555555555555555555555555555555; exp m 455; expw sa FFFFFFFFFFFFFFFFFFFFFFFFFFFFFFFF;" +
		"setw a 1; setw b 2; exp gt 0; expw sr 10; setw a 3; exp gt 1; expw p 6; expw sa 3000000000000000"},

	{name: "wide_rom_and_nba", src: `
module t(input clk, input [1:0] pc);
  reg [99:0] rom [0:3]; wire [99:0] cur = rom[pc]; reg [99:0] ir; wire [9:0] f = cur[99:90];
  initial begin rom[0] = 100'h1; rom[1] = {10'h3FF, 90'd7}; rom[2] = ~100'd0; end
  always @(posedge clk) ir <= cur;
endmodule`, script: "init; expw cur 1; exp f 0; set pc 1; exp f 0x3FF; pos clk; expw ir FFC0000000000000000000007; set pc 2; pos clk; expw ir FFFFFFFFFFFFFFFFFFFFFFFFF; set pc 3; pos clk; expw ir 0"},

	// ---------------- preprocessor and pragmas ----------------
	{name: "define_and_ifdef", src: "`define WIDTH 8\n`define INIT 8'h3C\n`timescale 1ns/1ps\n" + `
module t;
  reg [` + "`WIDTH" + `-1:0] r;
` + "`ifdef WIDTH\n  initial r = `INIT;\n`else\n  initial r = 1;\n`endif\n`ifndef WIDTH\n  garbage here\n`endif" + `
endmodule`, script: "init; exp r 0x3C"},

	{name: "translate_off_region_and_attributes", src: `
(* top *) module t(input clk);
  (* KEEP = "TRUE" *) reg [3:0] q;
  initial q = 1;
  always @(posedge clk) q <= #1 q + 'b1;
  // synthesis translate_off
  generate for (genvar j = 0; j < 1; j++) begin : chk
    a1: assert property (@(posedge clk) disable iff(q) $rose(q[j]) |-> ##1 q[j]);
  end endgenerate
  // synthesis translate_on
  /* pragma translate_off */ this is not verilog /* pragma translate_on */
endmodule`, script: "init; pos clk; exp q 2"},

	{name: "delays_are_ignored", src: `
module t(input clk);
  reg [3:0] a, b; wire [3:0] w;
  assign #2 w = a + 1;
  initial begin #10 a = 1; #5; b = 2; end
  always @(posedge clk) begin #1 a <= #3 b; b = #(2) a; end
endmodule`, script: "init; exp a 1; exp b 2; exp w 2; pos clk; exp a 2; exp b 1"},

	{name: "system_tasks_are_noops", src: `
module t(input clk);
  reg [3:0] q;
  initial begin q = 0; $display("hello %d", q); $monitor(q); end
  always @(posedge clk) begin $display("q=%d", q); q <= q + 1; if (q == 3) $finish; end
endmodule`, script: "init; pos clk; pos clk; exp q 2"},

	{name: "ansi_and_nonansi_ports", top: "t", src: `
module a1(input wire clk, input wire [3:0] d, output reg [3:0] q, output wire [3:0] n);
  assign n = ~q;
  always @(posedge clk) q <= d;
endmodule
module a2(clk, d, q, n);
  input clk; input [3:0] d; output [3:0] q, n;
  wire clk; wire [3:0] d; reg [3:0] q;
  assign n = ~q;
  always @(posedge clk) q <= d;
endmodule
module t(input clk, input [3:0] d);
  wire [3:0] q1, n1, q2, n2;
  a1 u1 (clk, d, q1, n1);
  a2 u2 (clk, d, q2, n2);
endmodule`, script: "init; set d 6; pos clk; exp q1 6; exp n1 9; exp q2 6; exp n2 9"},

	{name: "parameter_selects_and_localparam_case_labels", src: `
module t(input [2:0] op);
  localparam ADD = 3'b000, SUB = 3'b001; parameter [7:0] K = 8'hA5;
  wire k0 = K[0], k1 = K[1]; wire [3:0] kh = K[7:4];
  reg [1:0] y;
  always @* case (op) ADD: y = 1; SUB: y = 2; default: y = 0; endcase
endmodule`, script: "init; exp k0 1; exp k1 0; exp kh 10; exp y 1; set op 1; exp y 2; set op 2; exp y 0"},
}

func TestConformance(t *testing.T) {
	if len(confCases) < 60 {
		t.Fatalf("conformance corpus has only %d cases", len(confCases))
	}
	for _, c := range confCases {
		c := c
		t.Run(c.name, func(t *testing.T) {
			s := elabSrc(t, c.src, c.top, c.params)
			runScript(t, s, c.script)
		})
	}
}

// ---------------------------------------------------------------------------------------------
// Differential test of the wide-value helpers and of compiled expressions against math/big.
// ---------------------------------------------------------------------------------------------

func bigFromLimbs(v []uint64) *big.Int {
	b := new(big.Int)
	for i := len(v) - 1; i >= 0; i-- {
		b.Lsh(b, 64)
		b.Or(b, new(big.Int).SetUint64(v[i]))
	}
	return b
}

func TestWideAgainstBig(t *testing.T) {
	rng := rand.New(rand.NewSource(1))
	src := `
module t(input [199:0] a, input [199:0] b, input [7:0] n);
  wire [199:0] add = a + b, sub = a - b, mul = a * b, an = a & b, orr = a | b, xr = a ^ b, nt = ~a, ng = -a;
  wire [199:0] shl = a << n, shr = a >> n, div = a / b, mod = a % b;
  wire signed [199:0] sar = $signed(a) >>> n;
  wire lt = a < b, slt = $signed(a) < $signed(b), eq = a == b;
  wire [99:0] part = a[150:51];
  wire [399:0] cat = {a, b};
  wire [199:0] tern = n[0] ? a : b;
  wire ra = &a, ro = |a, rx = ^a;
  wire [71:0] idx = a[n +: 72];
endmodule`
	s := elabSrc(t, src, "t", nil)
	if err := s.Init(); err != nil {
		t.Fatal(err)
	}
	id := func(n string) SigID { i, _ := s.Lookup(n); return i }
	mod := new(big.Int).Lsh(big.NewInt(1), 200)
	mask := new(big.Int).Sub(mod, big.NewInt(1))
	signed := func(x *big.Int) *big.Int {
		if x.Bit(199) == 1 {
			return new(big.Int).Sub(x, mod)
		}
		return x
	}
	chk := func(name string, want *big.Int, w uint) {
		t.Helper()
		m := new(big.Int).Sub(new(big.Int).Lsh(big.NewInt(1), w), big.NewInt(1))
		want = new(big.Int).And(want, m)
		got := bigFromLimbs(s.GetWide(id(name)))
		if got.Cmp(want) != 0 {
			t.Fatalf("%s: got %x want %x", name, got, want)
		}
	}
	b2i := func(b bool) *big.Int {
		if b {
			return big.NewInt(1)
		}
		return big.NewInt(0)
	}
	for iter := 0; iter < 300; iter++ {
		ra := make([]uint64, 4)
		rb := make([]uint64, 4)
		for i := range ra {
			ra[i], rb[i] = rng.Uint64(), rng.Uint64()
			switch rng.Intn(6) {
			case 0:
				ra[i] = 0
			case 1:
				rb[i] = ^uint64(0)
			case 2:
				rb[i] = 0
			}
		}
		n := uint64(rng.Intn(256))
		s.SetWide(id("a"), ra)
		s.SetWide(id("b"), rb)
		s.Set(id("n"), n)
		if err := s.Settle(); err != nil {
			t.Fatal(err)
		}
		a := new(big.Int).And(bigFromLimbs(ra), mask)
		b := new(big.Int).And(bigFromLimbs(rb), mask)
		chk("add", new(big.Int).Add(a, b), 200)
		chk("sub", new(big.Int).Add(new(big.Int).Sub(a, b), mod), 200)
		chk("mul", new(big.Int).Mul(a, b), 200)
		chk("an", new(big.Int).And(a, b), 200)
		chk("orr", new(big.Int).Or(a, b), 200)
		chk("xr", new(big.Int).Xor(a, b), 200)
		chk("nt", new(big.Int).Xor(a, mask), 200)
		chk("ng", new(big.Int).Sub(mod, a), 200)
		chk("shl", new(big.Int).Lsh(a, uint(n)), 200)
		chk("shr", new(big.Int).Rsh(a, uint(n)), 200)
		if b.Sign() != 0 {
			chk("div", new(big.Int).Div(a, b), 200)
			chk("mod", new(big.Int).Mod(a, b), 200)
		} else {
			chk("div", big.NewInt(0), 200)
			chk("mod", big.NewInt(0), 200)
		}
		sar := new(big.Int).Rsh(signed(a), uint(n)) // big.Int Rsh is arithmetic for negatives
		chk("sar", new(big.Int).Add(sar, mod), 200)
		chk("lt", b2i(a.Cmp(b) < 0), 1)
		chk("slt", b2i(signed(a).Cmp(signed(b)) < 0), 1)
		chk("eq", b2i(a.Cmp(b) == 0), 1)
		chk("part", new(big.Int).Rsh(a, 51), 100)
		chk("cat", new(big.Int).Or(new(big.Int).Lsh(a, 200), b), 400)
		if n&1 == 1 {
			chk("tern", a, 200)
		} else {
			chk("tern", b, 200)
		}
		chk("ra", b2i(a.Cmp(mask) == 0), 1)
		chk("ro", b2i(a.Sign() != 0), 1)
		pop := 0
		for _, w := range a.Bits() {
			for x := uint64(w); x != 0; x &= x - 1 {
				pop++
			}
		}
		chk("rx", big.NewInt(int64(pop&1)), 1)
		chk("idx", new(big.Int).Rsh(a, uint(n)), 72)
	}
}

// Randomised 64-bit-and-below expression check against a reference evaluation in Go.
func TestNarrowAgainstGo(t *testing.T) {
	src := `
module t(input [12:0] a, input [12:0] b, input signed [12:0] sa, input signed [12:0] sb, input [3:0] n);
  wire [12:0] add = a + b, sub = a - b, mul = a * b, div = a / b, mod = a % b;
  wire signed [12:0] sdiv = sa / sb, smod = sa % sb, sar = sa >>> n;
  wire [25:0] wmul = a * b;
  wire signed [25:0] swmul = sa * sb;
  wire [12:0] shl = a << n, shr = a >> n;
  wire slt = sa < sb, ult = a < b, sge = sa >= sb;
  wire [12:0] neg = -a;
  wire [15:0] sx = sa;
  wire [15:0] mix = sa + a;
endmodule`
	s := elabSrc(t, src, "t", nil)
	if err := s.Init(); err != nil {
		t.Fatal(err)
	}
	id := func(n string) SigID { i, _ := s.Lookup(n); return i }
	rng := rand.New(rand.NewSource(2))
	const W = 13
	m := uint64(1)<<W - 1
	sx := func(v uint64) int64 { return int64(v<<(64-W)) >> (64 - W) }
	chk := func(name string, want uint64, w uint) {
		t.Helper()
		want &= uint64(1)<<w - 1
		if got := s.Get(id(name)); got != want {
			t.Fatalf("%s: got %#x want %#x (a=%d b=%d sa=%d sb=%d n=%d)", name, got, want,
				s.Get(id("a")), s.Get(id("b")), sx(s.Get(id("sa"))), sx(s.Get(id("sb"))), s.Get(id("n")))
		}
	}
	for iter := 0; iter < 3000; iter++ {
		a, b, sa, sb, n := rng.Uint64()&m, rng.Uint64()&m, rng.Uint64()&m, rng.Uint64()&m, uint64(rng.Intn(16))
		if rng.Intn(10) == 0 {
			b, sb = 0, 0
		}
		if rng.Intn(10) == 0 {
			sa, sb = 1<<(W-1), m // most negative / -1
		}
		s.Set(id("a"), a)
		s.Set(id("b"), b)
		s.Set(id("sa"), sa)
		s.Set(id("sb"), sb)
		s.Set(id("n"), n)
		if err := s.Settle(); err != nil {
			t.Fatal(err)
		}
		chk("add", a+b, W)
		chk("sub", a-b, W)
		chk("mul", a*b, W)
		if b != 0 {
			chk("div", a/b, W)
			chk("mod", a%b, W)
		} else {
			chk("div", 0, W)
			chk("mod", 0, W)
		}
		if sb != 0 {
			chk("sdiv", uint64(sx(sa)/sx(sb)), W)
			chk("smod", uint64(sx(sa)%sx(sb)), W)
		} else {
			chk("sdiv", 0, W)
			chk("smod", 0, W)
		}
		chk("sar", uint64(sx(sa)>>n), W)
		chk("wmul", a*b, 26)
		chk("swmul", uint64(sx(sa)*sx(sb)), 26)
		chk("shl", a<<n, W)
		chk("shr", a>>n, W)
		chk("slt", boolU(sx(sa) < sx(sb)), 1)
		chk("ult", boolU(a < b), 1)
		chk("sge", boolU(sx(sa) >= sx(sb)), 1)
		chk("neg", -a, W)
		chk("sx", uint64(sx(sa)), 16)
		chk("mix", sa+a, 16) // mixed signedness -> unsigned, zero extension
	}
}

var _ = fmt.Sprintf

// ---------------------------------------------------------------------------------------------
// Parser classification: syntax vs unsupported
// ---------------------------------------------------------------------------------------------

func TestParseDiagClasses(t *testing.T) {
	cases := []struct {
		name, src, class string // class "" = clean
	}{
		{"clean", "module m(input a, output b); assign b = a; endmodule", ""},
		{"missing_semicolon", "module m(input a, output b) assign b = a; endmodule", "syntax"},
		{"bad_expr", "module m; wire a; assign a = ; endmodule", "syntax"},
		{"unbalanced_case", "module m; reg a; always @* case (a) 1'b0: a = 1; endmodule", "syntax"},
		{"sv_increment", "module m; integer i; reg [3:0] r; always @* for (i = 0; i < 4; i++) r[i] = 0; endmodule", "syntax"},
		{"sv_genvar_in_for", "module m; generate for (genvar j = 0; j < 1; j = j + 1) begin : g end endgenerate endmodule", "syntax"},
		{"empty_localparam", "module m; localparam\n always @* ; endmodule", "syntax"},
		{"task", "module m; task tk; input a; begin end endtask endmodule", "unsupported"},
		{"forever", "module m; reg c; initial forever #5 c = ~c; endmodule", "unsupported"},
		{"wait", "module m; reg c; initial wait (c) c = 0; endmodule", "unsupported"},
		{"fork", "module m; reg c; initial fork c = 0; join endmodule", "unsupported"},
		{"gate", "module m(input a, input b, output y); and g1 (y, a, b); endmodule", "unsupported"},
		{"specify", "module m(input a, output y); assign y = a; specify (a => y) = 1; endspecify endmodule", "unsupported"},
		{"real", "module m; real r; endmodule", "unsupported"},
		{"defparam", "module m; defparam x.y = 1; endmodule", "unsupported"},
		{"hier_ref", "module m; wire a; assign a = top.sub.sig; endmodule", "unsupported"},
		{"event_control_in_proc", "module m(input clk); reg a; initial begin @(posedge clk) a = 1; end endmodule", "unsupported"},
		{"always_no_event", "module m; reg c; always #5 c = ~c; endmodule", "unsupported"},
		{"include", "`include \"x.vh\"\nmodule m; endmodule", "unsupported"},
		{"macro_args", "`define F(x) x+1\nmodule m; endmodule", "unsupported"},
		{"undefined_macro", "module m; wire [`W:0] a; endmodule", "syntax"},
		{"tri_is_wire", "module m(input a, output y); tri t; assign t = a; assign y = t; endmodule", ""},
		{"strings_in_display_ok", "module m; initial $display(\"a;b // not a comment\", 1); endmodule", ""},
		{"escaped_identifier", "module m; wire \\a+b ; assign \\a+b = 1'b1; endmodule", ""},
		{"star_event_forms", "module m(input a); reg b, c, d; always @* b = a; always @(*) c = a; always @ ( * ) d = a; endmodule", ""},
		{"delay_then_based_literal", "module m(input clk); reg [3:0] r; always @(posedge clk) r <= #1 'b0; endmodule", ""},
		{"sized_literal_with_space", "module m; wire [7:0] a = 8 'h 1F; endmodule", ""},
	}
	for _, c := range cases {
		d, diags := Parse(map[string]string{"f.v": c.src})
		got := ""
		for _, dg := range diags {
			if dg.File != "f.v" || dg.Line <= 0 {
				t.Errorf("%s: diag without position: %+v", c.name, dg)
			}
			if got == "" || dg.Class == "syntax" {
				got = dg.Class
			}
		}
		if got != c.class {
			t.Errorf("%s: got class %q want %q (%v)", c.name, got, c.class, diags)
		}
		if c.class == "unsupported" {
			// the module must still be known (for port-count checks of its users) but must not elaborate
			if len(d.Modules()) != 1 {
				t.Errorf("%s: module lost", c.name)
				continue
			}
			if _, err := d.Elaborate("m", nil); !errors.Is(err, ErrUnsupported) {
				t.Errorf("%s: Elaborate error = %v, want ErrUnsupported", c.name, err)
			}
		}
	}
	// a broken module does not hide the good ones
	d, diags := Parse(map[string]string{"a.v": "module bad(input a) endmodule\nmodule good(input a, output b); assign b = ~a; endmodule"})
	if len(diags) != 1 || diags[0].Class != "syntax" || diags[0].Module != "bad" {
		t.Fatalf("diags: %v", diags)
	}
	if s, err := d.Elaborate("good", nil); err != nil || s == nil {
		t.Fatalf("good module: %v", err)
	}
	if _, err := d.Elaborate("bad", nil); err == nil || errors.Is(err, ErrUnsupported) {
		t.Fatalf("bad module: %v", err)
	}
	// elaboration-time unsupported constructs
	for _, src := range []string{
		"module m(input clk, input a); reg q; always @(posedge clk or a) q <= a; endmodule",
		"module m; reg [7:0] q; initial q = $random; endmodule",
		"module m; x u(); endmodule",
	} {
		d, diags := Parse(map[string]string{"f.v": src})
		if len(diags) != 0 {
			t.Fatalf("%s: %v", src, diags)
		}
		if _, err := d.Elaborate("m", nil); !errors.Is(err, ErrUnsupported) {
			t.Errorf("%s: got %v, want ErrUnsupported", src, err)
		}
	}
}

func TestPortsAndModules(t *testing.T) {
	d, diags := Parse(map[string]string{"p.v": `
module a #(parameter W = 8) (input clk, input [W-1:0] d, output reg [2*W-1:0] q, inout z); endmodule
module b(x, y, k); input [3:0] x; output y; input k; wire [3:0] x; reg y; integer k; endmodule`})
	if len(diags) != 0 {
		t.Fatal(diags)
	}
	if got := fmt.Sprint(d.Modules()); got != "[a b]" {
		t.Fatal(got)
	}
	if got := fmt.Sprint(d.Ports("a")); got != "[{clk input 1} {d input 8} {q output 16} {z inout 1}]" {
		t.Fatal(got)
	}
	if got := fmt.Sprint(d.Ports("b")); got != "[{x input 4} {y output 1} {k input 32}]" {
		t.Fatal(got)
	}
}

// ---------------------------------------------------------------------------------------------
// Lint
// ---------------------------------------------------------------------------------------------

func lintKeys(ds []Diag) map[string]bool {
	m := map[string]bool{}
	for _, d := range ds {
		m[d.Class+":"+d.Module+":"+d.Ident] = true
	}
	return m
}

func TestLint(t *testing.T) {
	cases := []struct {
		name  string
		src   string
		ext   map[string]bool
		want  []string // class:module:ident that must be reported
		exact bool     // no other diagnostics allowed
	}{
		{name: "clean_nonansi_redeclaration", exact: true, src: `
module m(clk, d, q, n); input clk; input [3:0] d; output [3:0] q; output n;
  wire clk; reg [3:0] q; wire n;
  assign n = ^q;
  always @(posedge clk) q <= d;
endmodule`},
		{name: "undeclared_in_event", exact: true, want: []string{"undeclared:m:clock"}, src: `
module m(input clk, input d, output reg q);
  always @(posedge clock) q <= d;
endmodule`},
		{name: "undeclared_rhs_and_always", exact: true, want: []string{"undeclared:m:nope", "undeclared:m:zz", "undeclared:m:idx"}, src: `
module m(input a, output y, output reg [3:0] r);
  assign y = a & nope;
  always @* r[idx] = zz;
endmodule`},
		{name: "implicit_nets_are_legal", exact: true, src: `
module inv(input a, output y); assign y = ~a; endmodule
module m(input a, output y);
  inv i1 (a, mid);
  inv i2 (.a(mid), .y(mid2));
  assign impl = mid2;
  assign y = impl;
endmodule`},
		{name: "implicit_nets_with_default_nettype_none", want: []string{"undeclared:m:mid"}, src: "`default_nettype none\n" + `
module inv(input wire a, output wire y); assign y = ~a; endmodule
module m(input wire a, output wire y);
  inv i1 (a, mid);
  inv i2 (mid, y);
endmodule`},
		{name: "undeclared_function_and_task_arg", exact: true, want: []string{"undeclared:m:f", "undeclared:m:ghost"}, src: `
module m(input [3:0] a, output [3:0] y);
  assign y = f(a);
  initial $display("%d", ghost);
endmodule`},
		{name: "undefined_module_and_external_ip", exact: true, want: []string{"undefined-module:m:mystery"}, ext: map[string]bool{"vendor_ip": true}, src: `
module m(input a, output y, output z);
  vendor_ip u1 (.i(a), .o(y));
  mystery u2 (a, z);
endmodule`},
		{name: "port_count", exact: true, want: []string{"port-count:m:u1", "port-count:m:u3", "port-count:m:u4"}, src: `
module sub #(parameter P = 1) (input a, input b, output y); assign y = a & b; endmodule
module m(input a, input b, output y1, output y2, output y3, output y4, output y5);
  sub u1 (a, y1);
  sub u2 (a, b, y2);
  sub u3 (.a(a), .b(b), .q(y3));
  sub #(.NOPE(2)) u4 (.a(a), .b(b), .y(y4));
  sub u5 (.a(a), .y(y5));
endmodule`},
		{name: "assign_kind", want: []string{"assign-kind:m:r", "assign-kind:m:w", "assign-kind:m:o", "assign-kind:m:r2", "assign-kind:m:a"}, src: `
module sub(input a, output y); assign y = a; endmodule
module m(input a, output o, output reg ok);
  reg r, r2; wire w;
  assign r = a;
  sub u (a, r2);
  always @* begin w = a; o = a; ok = a; end
  initial a = 0;
endmodule`},
		{name: "assign_kind_negative", exact: true, src: `
module sub(input a, output y); assign y = a; endmodule
module m(input a, output o, output reg ok);
  wire w; integer i; reg [3:0] v;
  function [3:0] f; input [3:0] x; reg [3:0] tmp; begin tmp = x; f = tmp + 1; end endfunction
  sub u (a, w);
  assign o = w;
  always @* begin ok = w; for (i = 0; i < 4; i = i + 1) v[i] = a; v = f(v); end
endmodule`},
		{name: "multi_driver_regs", exact: true, want: []string{"multi-driver:m:q", "multi-driver:m:mem", "multi-driver:m:v"}, src: `
module m(input clk, input d);
  reg q, once; reg [7:0] mem [0:3]; reg [7:0] v, split; integer i, j;
  initial begin q = 0; once = 0; end
  always @(posedge clk) q <= d;
  always @(posedge clk) if (d) q <= 0;
  always @(posedge clk) mem[0] <= 1;
  always @(posedge clk) mem[1] <= 2;
  always @(posedge clk) if (d) mem[0] <= 3;
  always @(posedge clk) v[3:0] <= 1;
  always @(posedge clk) v[4:3] <= 1;
  always @(posedge clk) split[3:0] <= 1;
  always @(posedge clk) split[7:4] <= 1;
  always @(posedge clk) once <= d;
  always @(posedge clk) for (i = 0; i < 2; i = i + 1) j = i;
  always @(posedge clk) for (i = 0; i < 2; i = i + 1) ;
endmodule`},
		{name: "multi_driver_nets_and_generate", exact: true, want: []string{"multi-driver:m:w", "multi-driver:m:x"}, src: `
module sub(input a, output y); assign y = a; endmodule
module m(input a, input b, input clk);
  wire w, x; wire [3:0] ok; reg [3:0] g;
  assign w = a;
  assign w = b;
  sub u1 (a, x);
  sub u2 (b, x);
  assign ok[1:0] = 2'b0;
  assign ok[3:2] = 2'b1;
  genvar k;
  generate for (k = 0; k < 4; k = k + 1) begin : gl
    always @(posedge clk) g[k] <= a;
  end endgenerate
endmodule`},
		{name: "multi_driver_array_words", exact: true, want: []string{"multi-driver:m:same", "multi-driver:m:dyn"}, src: `
module m(input clk, input [1:0] a, input [0:0] k);
  wire [1:0] TAG [1:0]; reg [7:0] ptr [0:1]; reg [7:0] same [0:1]; reg [7:0] dyn [0:1]; wire [1:0] ok2 [0:1];
  assign TAG[0] = a;
  assign TAG[1] = ~a;
  assign ok2[0][0] = a[0];
  assign ok2[1][1:0] = a;
  genvar i;
  generate for (i = 0; i < 2; i = i + 1) begin
    always @(posedge clk) ptr[i] <= a;
  end endgenerate
  always @(posedge clk) same[1] <= 1;
  always @(posedge clk) same[1][3:0] <= 2;
  always @(posedge clk) dyn[0] <= 1;
  always @(posedge clk) dyn[k] <= 2;
endmodule`},
		{name: "duplicate_decl", exact: true, want: []string{"duplicate-decl:m:x", "duplicate-decl:m:y", "duplicate-decl:m:q", "duplicate-decl:m:P", "duplicate-decl:m:d"}, src: `
module m(input clk, input d, output reg q);
  reg x; reg x;
  wire y; reg y;
  reg q;
  parameter P = 1; wire P;
  wire d;
  wire fine;
endmodule`},
		{name: "duplicate_decl_negative", exact: true, src: `
module m(clk, d, q, r); input clk; wire clk; input d; output q; reg q; output [3:0] r; wire [3:0] r;
  assign r = 0;
  always @(posedge clk) q <= d;
endmodule`},
		{name: "port_without_direction", want: []string{"undeclared:m:ghost"}, src: `
module m(a, ghost); input a; endmodule`},
		{name: "semantic_errors_via_trial_elaboration", want: []string{"syntax:m:"}, src: `
module m(input [7:0] a, output [8:0] y); assign y = {0, a} << 1; endmodule`},
	}
	for _, c := range cases {
		d, diags := Parse(map[string]string{c.name + ".v": c.src})
		if len(diags) != 0 {
			t.Errorf("%s: parse: %v", c.name, diags)
			continue
		}
		got := d.Lint(c.ext)
		keys := lintKeys(got)
		for _, w := range c.want {
			if !keys[w] {
				t.Errorf("%s: missing %s in %v", c.name, w, got)
			}
			delete(keys, w)
		}
		if c.exact && len(keys) != 0 {
			t.Errorf("%s: unexpected diagnostics %v\n%v", c.name, keys, got)
		}
		for _, g := range got {
			if g.Module == "" || g.File == "" || g.Line == 0 {
				t.Errorf("%s: incomplete diag %+v", c.name, g)
			}
		}
	}
}
