package vsim

import (
	"fmt"
	"math/bits"
)

type typ struct {
	w      int
	signed bool
}

type constVal struct {
	w      int
	signed bool
	v      []uint64
}

func (cv constVal) u64() uint64 { return cv.v[0] }

// int returns the value as a Go int (sign-aware), clamped.
func (cv constVal) int() int {
	const big = 1 << 40
	if cv.signed && wbit(cv.v, cv.w-1) != 0 {
		// negative
		if cv.w <= 64 {
			x := int64(cv.v[0]<<uint(64-cv.w)) >> uint(64-cv.w)
			if x < -big {
				return -big
			}
			return int(x)
		}
		return -big
	}
	for i := 1; i < len(cv.v); i++ {
		if cv.v[i] != 0 {
			return big
		}
	}
	if cv.v[0] > big {
		return big
	}
	return int(cv.v[0])
}

// cexpr is a compiled expression of width w. Exactly one of n (w<=64) / wf (w>64) is set.
// Values are always masked to w bits. Slices returned by wf must not be modified by consumers.
type cexpr struct {
	w       int
	n       func(*Sim) uint64
	wf      func(*Sim) []uint64
	isConst bool
	cv      []uint64
}

func constExpr(w int, v []uint64) cexpr {
	nl := nwords(w)
	cv := make([]uint64, nl)
	copy(cv, v)
	wmask(cv, w)
	if w <= 64 {
		x := cv[0]
		return cexpr{w: w, isConst: true, cv: cv, n: func(*Sim) uint64 { return x }}
	}
	return cexpr{w: w, isConst: true, cv: cv, wf: func(*Sim) []uint64 { return cv }}
}

func constU(w int, x uint64) cexpr { return constExpr(w, []uint64{x}) }

type elabError struct{ d Diag }

// cc is the compilation context of one process (or one constant expression).
type cc struct {
	e         *elab
	sc        *scope
	reads     map[*signal]struct{}
	writes    map[*signal]struct{}
	loopVars  map[*signal]struct{}
	constOnly bool
	blocks    []string // enclosing named blocks (for disable)
	fnStack   []string
	inInit    bool
}

func (e *elab) newCC(sc *scope) *cc {
	return &cc{e: e, sc: sc, reads: map[*signal]struct{}{}, writes: map[*signal]struct{}{}, loopVars: map[*signal]struct{}{}}
}

func (c *cc) errf(class string, pos Pos, format string, a ...interface{}) {
	panic(elabError{Diag{Class: class, File: pos.File, Line: pos.Line, Module: c.sc.modName(), Msg: fmt.Sprintf(format, a...)}})
}

func (c *cc) unsup(pos Pos, format string, a ...interface{}) {
	c.errf("unsupported", pos, format, a...)
}

func (c *cc) read(sg *signal) {
	if !sg.local {
		c.reads[sg] = struct{}{}
	}
}
func (c *cc) wrote(sg *signal) {
	if !sg.local {
		c.writes[sg] = struct{}{}
	}
}

func (c *cc) lookup(id *Ident) *symbol {
	sym := c.sc.lookup(id.Name)
	if sym == nil {
		panic(elabError{Diag{Class: "undeclared", File: id.File, Line: id.Line, Module: c.sc.modName(), Ident: id.Name,
			Msg: "identifier " + id.Name + " is not declared"}})
	}
	if sym.kind == symGenvar {
		c.errf("syntax", id.Pos, "genvar %s used outside a generate loop", id.Name)
	}
	if c.constOnly && sym.kind == symSig && !sym.sig.tmp {
		c.errf("syntax", id.Pos, "%s is not a constant", id.Name)
	}
	return sym
}

// fold evaluates an expression whose operands are all constant.
func (c *cc) fold(ce cexpr) cexpr {
	s := c.e.tmp
	s.sp = 0
	if ce.w <= 64 {
		return constU(ce.w, ce.n(s))
	}
	return constExpr(ce.w, ce.wf(s))
}

// ---------- selects ----------

type selInfo struct {
	sym  *symbol
	id   *Ident
	elem Expr
	bit  Expr
	rng  *RangeSel
}

func (c *cc) resolveSel(e Expr) selInfo {
	switch x := e.(type) {
	case *Ident:
		return selInfo{sym: c.lookup(x), id: x}
	case *Index:
		switch b := x.X.(type) {
		case *Ident:
			sym := c.lookup(b)
			if sym.isArray {
				return selInfo{sym: sym, id: b, elem: x.I}
			}
			return selInfo{sym: sym, id: b, bit: x.I}
		case *Index:
			if id, ok := b.X.(*Ident); ok {
				sym := c.lookup(id)
				if sym.isArray {
					return selInfo{sym: sym, id: id, elem: b.I, bit: x.I}
				}
				c.errf("syntax", x.Pos, "bit-select of a bit-select on %s", id.Name)
			}
		}
	case *RangeSel:
		switch b := x.X.(type) {
		case *Ident:
			sym := c.lookup(b)
			if sym.isArray {
				c.errf("syntax", x.Pos, "part-select applied directly to array %s", b.Name)
			}
			return selInfo{sym: sym, id: b, rng: x}
		case *Index:
			if id, ok := b.X.(*Ident); ok {
				sym := c.lookup(id)
				if sym.isArray {
					return selInfo{sym: sym, id: id, elem: b.I, rng: x}
				}
				c.errf("syntax", x.Pos, "part-select of a bit-select on %s", id.Name)
			}
		}
	}
	c.unsup(e.exprPos(), "select form not supported")
	return selInfo{}
}

func (c *cc) constInt(e Expr, what string) int {
	cv := c.e.evalConstIn(c, e)
	_ = what
	return cv.int()
}

// selWidth returns the number of bits selected by a RangeSel.
func (c *cc) selWidth(r *RangeSel) int {
	if r.Kind == 0 {
		a, b := c.constInt(r.A, "part-select bound"), c.constInt(r.B, "part-select bound")
		if a >= b {
			return a - b + 1
		}
		return b - a + 1
	}
	n := c.constInt(r.B, "part-select width")
	if n <= 0 {
		c.errf("syntax", r.Pos, "indexed part-select width must be a positive constant")
	}
	return n
}

// intFn is an integer-valued compiled expression (used for indices).
type intFn struct {
	f       func(*Sim) int
	isConst bool
	c       int
}

const bigIdx = 1 << 40

func (c *cc) compileInt(e Expr) intFn {
	t := c.typeOf(e)
	ce := c.compileCtx(e, t.w, t.signed)
	if ce.isConst {
		cv := constVal{w: t.w, signed: t.signed, v: ce.cv}
		k := cv.int()
		return intFn{isConst: true, c: k, f: func(*Sim) int { return k }}
	}
	if ce.w <= 64 {
		n := ce.n
		if t.signed {
			sh := uint(64 - ce.w)
			return intFn{f: func(s *Sim) int {
				x := int64(n(s)<<sh) >> sh
				if x > bigIdx {
					return bigIdx
				}
				if x < -bigIdx {
					return -bigIdx
				}
				return int(x)
			}}
		}
		if ce.w <= 32 {
			return intFn{f: func(s *Sim) int { return int(n(s)) }}
		}
		return intFn{f: func(s *Sim) int {
			x := n(s)
			if x > bigIdx {
				return bigIdx
			}
			return int(x)
		}}
	}
	wf := ce.wf
	w := ce.w
	sg := t.signed
	return intFn{f: func(s *Sim) int {
		v := wf(s)
		if sg && wbit(v, w-1) != 0 {
			return -bigIdx
		}
		for i := 1; i < len(v); i++ {
			if v[i] != 0 {
				return bigIdx
			}
		}
		if v[0] > bigIdx {
			return bigIdx
		}
		return int(v[0])
	}}
}

// selLoc is the compiled location of a select: element and low bit (physical), with n bits.
type selLoc struct {
	sg       *signal
	n        int
	elem     intFn // valid if hasElem; yields physical element index or -1
	hasElem  bool
	lo       intFn
	whole    bool // entire element selected
	resTyp   typ
	fromPar  bool
	parConst cexpr
}

func (c *cc) compileLoc(si selInfo, pos Pos) selLoc {
	sym := si.sym
	var L selLoc
	switch sym.kind {
	case symSig:
		L.sg = sym.sig
	case symParam:
		if si.elem != nil {
			c.errf("syntax", pos, "parameter %s indexed as an array", sym.name)
		}
		L.fromPar = true
		L.parConst = constExpr(sym.val.w, sym.val.v)
	default:
		c.errf("syntax", pos, "%s cannot be used in an expression", sym.name)
	}
	if sym.isArray {
		if si.elem == nil {
			c.errf("syntax", pos, "array %s used without an index", sym.name)
		}
		ix := c.compileInt(si.elem)
		amin, depth := sym.amin, sym.sig.elems()
		L.hasElem = true
		if ix.isConst {
			k := ix.c - amin
			if k < 0 || k >= depth {
				k = -1
			}
			L.elem = intFn{isConst: true, c: k, f: func(*Sim) int { return k }}
		} else {
			f := ix.f
			L.elem = intFn{f: func(s *Sim) int {
				k := f(s) - amin
				if uint(k) >= uint(depth) {
					return -1
				}
				return k
			}}
		}
	}
	desc := sym.msb >= sym.lsb
	lsb := sym.lsb
	switch {
	case si.bit != nil:
		ix := c.compileInt(si.bit)
		L.n = 1
		L.resTyp = typ{1, false}
		if ix.isConst {
			p := ix.c - lsb
			if !desc {
				p = lsb - ix.c
			}
			L.lo = intFn{isConst: true, c: p, f: func(*Sim) int { return p }}
		} else {
			f := ix.f
			if desc {
				L.lo = intFn{f: func(s *Sim) int { return f(s) - lsb }}
			} else {
				L.lo = intFn{f: func(s *Sim) int { return lsb - f(s) }}
			}
		}
	case si.rng != nil:
		r := si.rng
		n := c.selWidth(r)
		L.n = n
		L.resTyp = typ{n, false}
		switch r.Kind {
		case 0:
			a, b := c.constInt(r.A, ""), c.constInt(r.B, "")
			var p int
			if desc {
				if a < b {
					if sym.msb == sym.lsb {
						a, b = b, a
					} else {
						c.errf("syntax", r.Pos, "part-select [%d:%d] of %s is reversed with respect to its declaration [%d:%d]", a, b, sym.name, sym.msb, sym.lsb)
					}
				}
				p = b - lsb
			} else {
				if a > b {
					c.errf("syntax", r.Pos, "part-select [%d:%d] of %s is reversed with respect to its declaration [%d:%d]", a, b, sym.name, sym.msb, sym.lsb)
				}
				p = lsb - b
			}
			L.lo = intFn{isConst: true, c: p, f: func(*Sim) int { return p }}
		case 1, 2:
			ix := c.compileInt(r.A)
			var adj func(int) int
			switch {
			case r.Kind == 1 && desc:
				adj = func(a int) int { return a - lsb }
			case r.Kind == 1 && !desc:
				adj = func(a int) int { return lsb - (a + n - 1) }
			case r.Kind == 2 && desc:
				adj = func(a int) int { return a - n + 1 - lsb }
			default:
				adj = func(a int) int { return lsb - a }
			}
			if ix.isConst {
				p := adj(ix.c)
				L.lo = intFn{isConst: true, c: p, f: func(*Sim) int { return p }}
			} else {
				f := ix.f
				L.lo = intFn{f: func(s *Sim) int { return adj(f(s)) }}
			}
		}
	default:
		L.whole = true
		L.n = sym.width
		L.resTyp = typ{sym.width, sym.signed}
		L.lo = intFn{isConst: true, c: 0, f: func(*Sim) int { return 0 }}
	}
	return L
}

// compileSelRead compiles an identifier / select read at its self-determined width.
func (c *cc) compileSelRead(e Expr) (cexpr, typ) {
	si := c.resolveSel(e)
	L := c.compileLoc(si, e.exprPos())
	t := L.resTyp
	if L.fromPar {
		base := L.parConst
		if L.whole {
			return base, t
		}
		cvv := base.cv
		n := L.n
		if L.lo.isConst {
			if n <= 64 {
				return constU(n, wget(cvv, L.lo.c, n)), t
			}
			d := make([]uint64, nwords(n))
			wgetW(d, cvv, L.lo.c, n)
			return constExpr(n, d), t
		}
		lo := L.lo.f
		if n <= 64 {
			return cexpr{w: n, n: func(s *Sim) uint64 { return wget(cvv, lo(s), n) }}, t
		}
		nl := nwords(n)
		return cexpr{w: n, wf: func(s *Sim) []uint64 {
			d := s.alloc(nl)
			wgetW(d, cvv, lo(s), n)
			return d
		}}, t
	}
	sg := L.sg
	c.read(sg)
	off, nw, n := sg.off, sg.nw, L.n
	// fast paths
	if !L.hasElem {
		if L.whole {
			if nw == 1 {
				return cexpr{w: n, n: func(s *Sim) uint64 { return s.w[off] }}, t
			}
			return cexpr{w: n, wf: func(s *Sim) []uint64 { return s.w[off : off+nw] }}, t
		}
		if L.lo.isConst && nw == 1 {
			lo := L.lo.c
			if lo < 0 || lo+n > sg.width {
				// partially / fully out of range: generic path below
			} else {
				m := mask64(n)
				sh := uint(lo)
				return cexpr{w: n, n: func(s *Sim) uint64 { return (s.w[off] >> sh) & m }}, t
			}
		}
		if L.lo.isConst && n <= 64 && L.lo.c >= 0 && L.lo.c+n <= sg.width {
			lo := L.lo.c
			return cexpr{w: n, n: func(s *Sim) uint64 { return wget(s.w[off:off+nw], lo, n) }}, t
		}
		lo := L.lo.f
		if n <= 64 {
			return cexpr{w: n, n: func(s *Sim) uint64 { return wget(s.w[off:off+nw], lo(s), n) }}, t
		}
		nl := nwords(n)
		return cexpr{w: n, wf: func(s *Sim) []uint64 {
			d := s.alloc(nl)
			wgetW(d, s.w[off:off+nw], lo(s), n)
			return d
		}}, t
	}
	el := L.elem.f
	if L.whole {
		if nw == 1 {
			if L.elem.isConst {
				k := L.elem.c
				if k < 0 {
					return constU(n, 0), t
				}
				return cexpr{w: n, n: func(s *Sim) uint64 { return s.w[off+k] }}, t
			}
			return cexpr{w: n, n: func(s *Sim) uint64 {
				k := el(s)
				if k < 0 {
					return 0
				}
				return s.w[off+k]
			}}, t
		}
		zero := make([]uint64, nw)
		return cexpr{w: n, wf: func(s *Sim) []uint64 {
			k := el(s)
			if k < 0 {
				return zero
			}
			b := off + k*nw
			return s.w[b : b+nw]
		}}, t
	}
	lo := L.lo.f
	if n <= 64 {
		return cexpr{w: n, n: func(s *Sim) uint64 {
			k := el(s)
			if k < 0 {
				return 0
			}
			b := off + k*nw
			return wget(s.w[b:b+nw], lo(s), n)
		}}, t
	}
	nl := nwords(n)
	return cexpr{w: n, wf: func(s *Sim) []uint64 {
		d := s.alloc(nl)
		k := el(s)
		if k < 0 {
			wzero(d)
			return d
		}
		b := off + k*nw
		wgetW(d, s.w[b:b+nw], lo(s), n)
		return d
	}}, t
}

// ---------- typing ----------

func max(a, b int) int {
	if a > b {
		return a
	}
	return b
}

func (c *cc) typeOf(e Expr) typ {
	switch x := e.(type) {
	case *Num:
		return typ{x.width(), x.Signed}
	case *Str:
		c.unsup(x.Pos, "string literal in expression")
	case *Ident:
		sym := c.lookup(x)
		switch sym.kind {
		case symSig:
			if sym.isArray {
				c.errf("syntax", x.Pos, "array %s used without an index", x.Name)
			}
			return typ{sym.width, sym.signed}
		case symParam:
			return typ{sym.val.w, sym.val.signed}
		}
		c.errf("syntax", x.Pos, "%s cannot be used in an expression", x.Name)
	case *Index:
		si := c.resolveSel(x)
		if si.bit != nil {
			return typ{1, false}
		}
		return typ{si.sym.width, si.sym.signed}
	case *RangeSel:
		c.resolveSel(x)
		return typ{c.selWidth(x), false}
	case *Concat:
		w := 0
		for _, p := range x.Parts {
			if n, ok := p.(*Num); ok && n.Width == 0 {
				c.errf("syntax", n.Pos, "unsized constant in concatenation")
			}
			w += c.typeOf(p).w
		}
		return typ{w, false}
	case *Repl:
		k := c.constInt(x.Count, "replication count")
		if k < 0 {
			c.errf("syntax", x.Pos, "negative replication count")
		}
		w := 0
		for _, p := range x.Parts {
			w += c.typeOf(p).w
		}
		if k*w == 0 {
			c.unsup(x.Pos, "zero replication")
		}
		if k*w > 1<<16 {
			c.unsup(x.Pos, "replication wider than 65536 bits")
		}
		return typ{k * w, false}
	case *Unary:
		switch x.Op {
		case "+", "-", "~":
			return c.typeOf(x.X)
		}
		c.typeOf(x.X)
		return typ{1, false}
	case *Binary:
		switch x.Op {
		case "+", "-", "*", "/", "%", "&", "|", "^", "^~", "~^":
			l, r := c.typeOf(x.L), c.typeOf(x.R)
			return typ{max(l.w, r.w), l.signed && r.signed}
		case "<<", ">>", "<<<", ">>>", "**":
			l := c.typeOf(x.L)
			r := c.typeOf(x.R)
			if x.Op == "**" {
				return typ{l.w, l.signed && r.signed}
			}
			return l
		default:
			c.typeOf(x.L)
			c.typeOf(x.R)
			return typ{1, false}
		}
	case *Cond:
		c.typeOf(x.C)
		t, f := c.typeOf(x.T), c.typeOf(x.F)
		return typ{max(t.w, f.w), t.signed && f.signed}
	case *Call:
		if x.Sys {
			switch x.Name {
			case "$signed", "$unsigned":
				if len(x.Args) != 1 {
					c.errf("syntax", x.Pos, "%s needs exactly one argument", x.Name)
				}
				return typ{c.typeOf(x.Args[0]).w, x.Name == "$signed"}
			case "$clog2":
				if len(x.Args) != 1 {
					c.errf("syntax", x.Pos, "$clog2 needs exactly one argument")
				}
				return typ{32, true}
			}
			c.unsup(x.Pos, "system function %s", x.Name)
		}
		fn := c.sc.lookupFunc(x.Name)
		if fn == nil {
			panic(elabError{Diag{Class: "undeclared", File: x.File, Line: x.Line, Module: c.sc.modName(), Ident: x.Name,
				Msg: "function " + x.Name + " is not declared"}})
		}
		fi := c.funcInst(fn, x.Pos)
		return typ{fi.ret.width, fi.ret.signed}
	}
	c.unsup(e.exprPos(), "expression form not supported")
	return typ{}
}

// ---------- extension / truncation ----------

func sext64(x uint64, from int) uint64 {
	sh := uint(64 - from)
	return uint64(int64(x<<sh) >> sh)
}

// extend widens ce (of type from) to width W; sign-extends when S and from.signed.
func (c *cc) extend(ce cexpr, from typ, W int, S bool) cexpr {
	if W == from.w {
		return ce
	}
	if W < from.w {
		return c.trunc(ce, W)
	}
	sx := S && from.signed
	var out cexpr
	out.w = W
	fw := from.w
	switch {
	case W <= 64:
		if !sx {
			out.n = ce.n
		} else {
			n := ce.n
			m := mask64(W)
			sh := uint(64 - fw)
			out.n = func(s *Sim) uint64 { return uint64(int64(n(s)<<sh)>>sh) & m }
		}
	case fw <= 64:
		n := ce.n
		nl := nwords(W)
		out.wf = func(s *Sim) []uint64 {
			d := s.alloc(nl)
			wzero(d)
			d[0] = n(s)
			if sx {
				wsext(d, fw, W)
			}
			return d
		}
	default:
		wf := ce.wf
		nl := nwords(W)
		out.wf = func(s *Sim) []uint64 {
			d := s.alloc(nl)
			wcopy(d, wf(s))
			if sx {
				wsext(d, fw, W)
			}
			return d
		}
	}
	if ce.isConst {
		return c.fold(out)
	}
	return out
}

// trunc narrows ce to width W (W <= ce.w).
func (c *cc) trunc(ce cexpr, W int) cexpr {
	if W >= ce.w {
		return ce
	}
	var out cexpr
	out.w = W
	switch {
	case ce.w <= 64:
		n := ce.n
		m := mask64(W)
		out.n = func(s *Sim) uint64 { return n(s) & m }
	case W <= 64:
		wf := ce.wf
		m := mask64(W)
		out.n = func(s *Sim) uint64 { return wf(s)[0] & m }
	default:
		wf := ce.wf
		nl := nwords(W)
		out.wf = func(s *Sim) []uint64 {
			d := s.alloc(nl)
			copy(d, wf(s)[:nl])
			wmask(d, W)
			return d
		}
	}
	if ce.isConst {
		return c.fold(out)
	}
	return out
}

// compileSelf compiles at the self-determined type.
func (c *cc) compileSelf(e Expr) (cexpr, typ) {
	t := c.typeOf(e)
	return c.compileCtx(e, t.w, t.signed), t
}

// compileBool compiles a self-determined truth value.
func (c *cc) compileBool(e Expr) (func(*Sim) bool, *bool) {
	ce, _ := c.compileSelf(e)
	if ce.isConst {
		b := !wisZero(ce.cv)
		return func(*Sim) bool { return b }, &b
	}
	if ce.w <= 64 {
		n := ce.n
		return func(s *Sim) bool { return n(s) != 0 }, nil
	}
	wf := ce.wf
	return func(s *Sim) bool { return !wisZero(wf(s)) }, nil
}

func boolU(b bool) uint64 {
	if b {
		return 1
	}
	return 0
}

// compileCtx compiles e in a context of width W (>= self width) and signedness S. The result has width W.
func (c *cc) compileCtx(e Expr, W int, S bool) cexpr {
	switch x := e.(type) {
	case *Num:
		t := typ{x.width(), x.Signed}
		return c.extend(constExpr(t.w, x.Val), t, W, S)
	case *Ident, *Index, *RangeSel:
		ce, t := c.compileSelRead(e)
		return c.extend(ce, t, W, S)
	case *Concat:
		return c.extend(c.compileConcat(x.Parts, 1), typ{c.typeOf(x).w, false}, W, S)
	case *Repl:
		k := c.constInt(x.Count, "replication count")
		return c.extend(c.compileConcat(x.Parts, k), typ{c.typeOf(x).w, false}, W, S)
	case *Unary:
		switch x.Op {
		case "+":
			return c.compileCtx(x.X, W, S)
		case "-", "~":
			a := c.compileCtx(x.X, W, S)
			return c.unaryArith(x.Op, a, W)
		}
		return c.extend(c.compileReduce(x), typ{1, false}, W, S)
	case *Binary:
		switch x.Op {
		case "+", "-", "*", "/", "%", "&", "|", "^", "^~", "~^":
			l := c.compileCtx(x.L, W, S)
			r := c.compileCtx(x.R, W, S)
			return c.binaryArith(x, l, r, W, S)
		case "<<", ">>", "<<<", ">>>":
			l := c.compileCtx(x.L, W, S)
			r, _ := c.compileSelf(x.R)
			return c.shift(x.Op, l, r, W, S)
		case "**":
			l := c.compileCtx(x.L, W, S)
			r, rt := c.compileSelf(x.R)
			return c.power(x, l, r, rt, W, S)
		case "&&", "||":
			lb, lc := c.compileBool(x.L)
			rb, rc := c.compileBool(x.R)
			var out cexpr
			out.w = 1
			if x.Op == "&&" {
				out.n = func(s *Sim) uint64 { return boolU(lb(s) && rb(s)) }
			} else {
				out.n = func(s *Sim) uint64 { return boolU(lb(s) || rb(s)) }
			}
			if lc != nil && rc != nil {
				out = c.fold(out)
			}
			return c.extend(out, typ{1, false}, W, S)
		default: // comparisons
			return c.extend(c.compileCompare(x), typ{1, false}, W, S)
		}
	case *Cond:
		cb, cconst := c.compileBool(x.C)
		t := c.compileCtx(x.T, W, S)
		f := c.compileCtx(x.F, W, S)
		if cconst != nil {
			if *cconst {
				return t
			}
			return f
		}
		if W <= 64 {
			tn, fn := t.n, f.n
			return cexpr{w: W, n: func(s *Sim) uint64 {
				if cb(s) {
					return tn(s)
				}
				return fn(s)
			}}
		}
		tw, fw := t.wf, f.wf
		return cexpr{w: W, wf: func(s *Sim) []uint64 {
			if cb(s) {
				return tw(s)
			}
			return fw(s)
		}}
	case *Call:
		t := c.typeOf(x)
		if x.Sys {
			switch x.Name {
			case "$signed", "$unsigned":
				a, _ := c.compileSelf(x.Args[0])
				return c.extend(a, t, W, S)
			case "$clog2":
				a, _ := c.compileSelf(x.Args[0])
				var out cexpr
				out.w = 32
				if a.w <= 64 {
					n := a.n
					out.n = func(s *Sim) uint64 {
						v := n(s)
						if v <= 1 {
							return 0
						}
						return uint64(bits.Len64(v - 1))
					}
				} else {
					wf := a.wf
					nl := nwords(a.w)
					out.n = func(s *Sim) uint64 {
						v := wf(s)
						if limbsBitLen(v) <= 1 {
							return 0
						}
						d := make([]uint64, nl)
						one := make([]uint64, nl)
						one[0] = 1
						wsub(d, v, one)
						return uint64(limbsBitLen(d))
					}
				}
				if a.isConst {
					out = c.fold(out)
				}
				return c.extend(out, t, W, S)
			}
		}
		return c.extend(c.compileCall(x), t, W, S)
	case *Str:
		c.unsup(x.Pos, "string literal in expression")
	}
	c.unsup(e.exprPos(), "expression form not supported")
	return cexpr{}
}

func allConst(es ...cexpr) bool {
	for _, e := range es {
		if !e.isConst {
			return false
		}
	}
	return true
}

func (c *cc) unaryArith(op string, a cexpr, W int) cexpr {
	var out cexpr
	out.w = W
	if W <= 64 {
		n := a.n
		m := mask64(W)
		if op == "-" {
			out.n = func(s *Sim) uint64 { return (-n(s)) & m }
		} else {
			out.n = func(s *Sim) uint64 { return (^n(s)) & m }
		}
	} else {
		wf := a.wf
		nl := nwords(W)
		if op == "-" {
			out.wf = func(s *Sim) []uint64 {
				d := s.alloc(nl)
				wneg(d, wf(s))
				wmask(d, W)
				return d
			}
		} else {
			out.wf = func(s *Sim) []uint64 {
				d := s.alloc(nl)
				v := wf(s)
				for i := range d {
					d[i] = ^v[i]
				}
				wmask(d, W)
				return d
			}
		}
	}
	if a.isConst {
		return c.fold(out)
	}
	return out
}

func (c *cc) binaryArith(x *Binary, l, r cexpr, W int, S bool) cexpr {
	var out cexpr
	out.w = W
	op := x.Op
	if op == "~^" {
		op = "^~"
	}
	if W <= 64 {
		ln, rn := l.n, r.n
		m := mask64(W)
		sh := uint(64 - W)
		switch op {
		case "+":
			if r.isConst {
				k := r.cv[0]
				out.n = func(s *Sim) uint64 { return (ln(s) + k) & m }
			} else {
				out.n = func(s *Sim) uint64 { return (ln(s) + rn(s)) & m }
			}
		case "-":
			if r.isConst {
				k := r.cv[0]
				out.n = func(s *Sim) uint64 { return (ln(s) - k) & m }
			} else {
				out.n = func(s *Sim) uint64 { return (ln(s) - rn(s)) & m }
			}
		case "*":
			out.n = func(s *Sim) uint64 { return (ln(s) * rn(s)) & m }
		case "&":
			out.n = func(s *Sim) uint64 { return ln(s) & rn(s) }
		case "|":
			out.n = func(s *Sim) uint64 { return ln(s) | rn(s) }
		case "^":
			out.n = func(s *Sim) uint64 { return ln(s) ^ rn(s) }
		case "^~":
			out.n = func(s *Sim) uint64 { return ^(ln(s) ^ rn(s)) & m }
		case "/":
			if S {
				out.n = func(s *Sim) uint64 {
					a, b := int64(ln(s)<<sh)>>sh, int64(rn(s)<<sh)>>sh
					if b == 0 {
						return 0
					}
					if b == -1 {
						return uint64(-a) & m
					}
					return uint64(a/b) & m
				}
			} else {
				out.n = func(s *Sim) uint64 {
					b := rn(s)
					if b == 0 {
						return 0
					}
					return ln(s) / b
				}
			}
		case "%":
			if S {
				out.n = func(s *Sim) uint64 {
					a, b := int64(ln(s)<<sh)>>sh, int64(rn(s)<<sh)>>sh
					if b == 0 || b == -1 {
						return 0
					}
					return uint64(a%b) & m
				}
			} else {
				out.n = func(s *Sim) uint64 {
					b := rn(s)
					if b == 0 {
						return 0
					}
					return ln(s) % b
				}
			}
		}
	} else {
		lw, rw := l.wf, r.wf
		nl := nwords(W)
		switch op {
		case "+":
			out.wf = func(s *Sim) []uint64 {
				d := s.alloc(nl)
				wadd(d, lw(s), rw(s))
				wmask(d, W)
				return d
			}
		case "-":
			out.wf = func(s *Sim) []uint64 {
				d := s.alloc(nl)
				wsub(d, lw(s), rw(s))
				wmask(d, W)
				return d
			}
		case "*":
			out.wf = func(s *Sim) []uint64 {
				d := s.alloc(nl)
				wmul(d, lw(s), rw(s))
				wmask(d, W)
				return d
			}
		case "&", "|", "^", "^~":
			out.wf = func(s *Sim) []uint64 {
				d := s.alloc(nl)
				a, b := lw(s), rw(s)
				switch op {
				case "&":
					for i := range d {
						d[i] = a[i] & b[i]
					}
				case "|":
					for i := range d {
						d[i] = a[i] | b[i]
					}
				case "^":
					for i := range d {
						d[i] = a[i] ^ b[i]
					}
				default:
					for i := range d {
						d[i] = ^(a[i] ^ b[i])
					}
					wmask(d, W)
				}
				return d
			}
		case "/", "%":
			isDiv := op == "/"
			out.wf = func(s *Sim) []uint64 {
				a, b := lw(s), rw(s)
				d := s.alloc(nl)
				if wisZero(b) {
					wzero(d)
					return d
				}
				na, nb := false, false
				if S {
					if wbit(a, W-1) != 0 {
						t := s.alloc(nl)
						wneg(t, a)
						wmask(t, W)
						a, na = t, true
					}
					if wbit(b, W-1) != 0 {
						t := s.alloc(nl)
						wneg(t, b)
						wmask(t, W)
						b, nb = t, true
					}
				}
				q, rr := s.alloc(nl), s.alloc(nl)
				wdivmod(q, rr, a, b)
				if isDiv {
					if na != nb {
						wneg(d, q)
					} else {
						copy(d, q)
					}
				} else {
					if na {
						wneg(d, rr)
					} else {
						copy(d, rr)
					}
				}
				wmask(d, W)
				return d
			}
		}
	}
	if out.n == nil && out.wf == nil {
		c.unsup(x.Pos, "operator %s", x.Op)
	}
	if allConst(l, r) {
		return c.fold(out)
	}
	return out
}

// shiftAmount returns a closure giving the shift count (saturated).
func shiftAmount(r cexpr) func(*Sim) uint64 {
	if r.w <= 64 {
		return r.n
	}
	wf := r.wf
	return func(s *Sim) uint64 {
		v := wf(s)
		for i := 1; i < len(v); i++ {
			if v[i] != 0 {
				return ^uint64(0)
			}
		}
		return v[0]
	}
}

func (c *cc) shift(op string, l, r cexpr, W int, S bool) cexpr {
	var out cexpr
	out.w = W
	amt := shiftAmount(r)
	arith := op == ">>>" && S
	if W <= 64 {
		ln := l.n
		m := mask64(W)
		shx := uint(64 - W)
		switch {
		case op == "<<" || op == "<<<":
			out.n = func(s *Sim) uint64 {
				k := amt(s)
				if k >= 64 {
					return 0
				}
				return (ln(s) << k) & m
			}
		case arith:
			out.n = func(s *Sim) uint64 {
				k := amt(s)
				if k > 63 {
					k = 63
				}
				return uint64((int64(ln(s)<<shx)>>shx)>>k) & m
			}
		default:
			out.n = func(s *Sim) uint64 {
				k := amt(s)
				if k >= 64 {
					return 0
				}
				return ln(s) >> k
			}
		}
	} else {
		lw := l.wf
		nl := nwords(W)
		switch {
		case op == "<<" || op == "<<<":
			out.wf = func(s *Sim) []uint64 {
				d := s.alloc(nl)
				wshl(d, lw(s), amt(s))
				wmask(d, W)
				return d
			}
		case arith:
			out.wf = func(s *Sim) []uint64 {
				d := s.alloc(nl)
				wsar(d, lw(s), amt(s), W)
				return d
			}
		default:
			out.wf = func(s *Sim) []uint64 {
				d := s.alloc(nl)
				wshr(d, lw(s), amt(s))
				return d
			}
		}
	}
	if allConst(l, r) {
		return c.fold(out)
	}
	return out
}

func (c *cc) power(x *Binary, l, r cexpr, rt typ, W int, S bool) cexpr {
	if W > 64 || r.w > 64 {
		c.unsup(x.Pos, "power operator wider than 64 bits")
	}
	ln, rn := l.n, r.n
	m := mask64(W)
	shx := uint(64 - W)
	rsh := uint(64 - r.w)
	rsigned := rt.signed
	out := cexpr{w: W, n: func(s *Sim) uint64 {
		b := ln(s)
		e := rn(s)
		if rsigned && int64(e<<rsh)>>rsh < 0 {
			// negative exponent: 1 if base is 1, (-1)^e if base is -1, else 0 (division by zero for base 0 -> 0)
			bs := b
			if S {
				bs = uint64(int64(b<<shx) >> shx)
			}
			if bs == 1 {
				return 1
			}
			if S && bs == ^uint64(0) {
				if e&1 == 0 {
					return 1
				}
				return m
			}
			return 0
		}
		res := uint64(1)
		for e != 0 {
			if e&1 != 0 {
				res *= b
			}
			b *= b
			e >>= 1
		}
		return res & m
	}}
	if allConst(l, r) {
		return c.fold(out)
	}
	return out
}

func (c *cc) compileReduce(x *Unary) cexpr {
	a, _ := c.compileSelf(x.X)
	w := a.w
	var f func(v []uint64) uint64
	var fn func(v uint64) uint64
	full := mask64(w)
	switch x.Op {
	case "!":
		fn = func(v uint64) uint64 { return boolU(v == 0) }
		f = func(v []uint64) uint64 { return boolU(wisZero(v)) }
	case "|":
		fn = func(v uint64) uint64 { return boolU(v != 0) }
		f = func(v []uint64) uint64 { return boolU(!wisZero(v)) }
	case "~|":
		fn = func(v uint64) uint64 { return boolU(v == 0) }
		f = func(v []uint64) uint64 { return boolU(wisZero(v)) }
	case "&", "~&":
		inv := uint64(0)
		if x.Op == "~&" {
			inv = 1
		}
		fn = func(v uint64) uint64 { return boolU(v == full) ^ inv }
		f = func(v []uint64) uint64 {
			pop := 0
			for _, l := range v {
				pop += bits.OnesCount64(l)
			}
			return boolU(pop == w) ^ inv
		}
	case "^", "~^", "^~":
		inv := uint64(0)
		if x.Op != "^" {
			inv = 1
		}
		fn = func(v uint64) uint64 { return uint64(bits.OnesCount64(v)&1) ^ inv }
		f = func(v []uint64) uint64 {
			pop := 0
			for _, l := range v {
				pop += bits.OnesCount64(l)
			}
			return uint64(pop&1) ^ inv
		}
	default:
		c.unsup(x.Pos, "unary operator %s", x.Op)
	}
	var out cexpr
	out.w = 1
	if w <= 64 {
		n := a.n
		out.n = func(s *Sim) uint64 { return fn(n(s)) }
	} else {
		wf := a.wf
		out.n = func(s *Sim) uint64 { return f(wf(s)) }
	}
	if a.isConst {
		return c.fold(out)
	}
	return out
}

func (c *cc) compileCompare(x *Binary) cexpr {
	lt, rt := c.typeOf(x.L), c.typeOf(x.R)
	W := max(lt.w, rt.w)
	S := lt.signed && rt.signed
	l := c.compileCtx(x.L, W, S)
	r := c.compileCtx(x.R, W, S)
	op := x.Op
	switch op {
	case "===":
		op = "=="
	case "!==":
		op = "!="
	}
	var out cexpr
	out.w = 1
	if W <= 64 {
		ln, rn := l.n, r.n
		sh := uint(64 - W)
		switch op {
		case "==":
			if r.isConst {
				k := r.cv[0]
				out.n = func(s *Sim) uint64 { return boolU(ln(s) == k) }
			} else {
				out.n = func(s *Sim) uint64 { return boolU(ln(s) == rn(s)) }
			}
		case "!=":
			out.n = func(s *Sim) uint64 { return boolU(ln(s) != rn(s)) }
		default:
			if S {
				switch op {
				case "<":
					out.n = func(s *Sim) uint64 { return boolU(int64(ln(s)<<sh) < int64(rn(s)<<sh)) }
				case "<=":
					out.n = func(s *Sim) uint64 { return boolU(int64(ln(s)<<sh) <= int64(rn(s)<<sh)) }
				case ">":
					out.n = func(s *Sim) uint64 { return boolU(int64(ln(s)<<sh) > int64(rn(s)<<sh)) }
				case ">=":
					out.n = func(s *Sim) uint64 { return boolU(int64(ln(s)<<sh) >= int64(rn(s)<<sh)) }
				}
			} else {
				switch op {
				case "<":
					out.n = func(s *Sim) uint64 { return boolU(ln(s) < rn(s)) }
				case "<=":
					out.n = func(s *Sim) uint64 { return boolU(ln(s) <= rn(s)) }
				case ">":
					out.n = func(s *Sim) uint64 { return boolU(ln(s) > rn(s)) }
				case ">=":
					out.n = func(s *Sim) uint64 { return boolU(ln(s) >= rn(s)) }
				}
			}
		}
	} else {
		lw, rw := l.wf, r.wf
		cmp := func(s *Sim) int {
			if S {
				return wcmpS(lw(s), rw(s), W)
			}
			return wcmpU(lw(s), rw(s))
		}
		switch op {
		case "==":
			out.n = func(s *Sim) uint64 { return boolU(wcmpU(lw(s), rw(s)) == 0) }
		case "!=":
			out.n = func(s *Sim) uint64 { return boolU(wcmpU(lw(s), rw(s)) != 0) }
		case "<":
			out.n = func(s *Sim) uint64 { return boolU(cmp(s) < 0) }
		case "<=":
			out.n = func(s *Sim) uint64 { return boolU(cmp(s) <= 0) }
		case ">":
			out.n = func(s *Sim) uint64 { return boolU(cmp(s) > 0) }
		case ">=":
			out.n = func(s *Sim) uint64 { return boolU(cmp(s) >= 0) }
		}
	}
	if out.n == nil {
		c.unsup(x.Pos, "operator %s", x.Op)
	}
	if allConst(l, r) {
		return c.fold(out)
	}
	return out
}

// compileConcat compiles {parts} replicated k times; parts are self-determined.
func (c *cc) compileConcat(parts []Expr, k int) cexpr {
	type piece struct {
		ce cexpr
		lo int
	}
	var ps []piece
	w := 0
	all := true
	ces := make([]cexpr, len(parts))
	for i, p := range parts {
		ces[i], _ = c.compileSelf(p)
		if !ces[i].isConst {
			all = false
		}
	}
	for rep := 0; rep < k; rep++ {
		for i := len(parts) - 1; i >= 0; i-- {
			ps = append(ps, piece{ces[i], w})
			w += ces[i].w
		}
	}
	var out cexpr
	out.w = w
	if w <= 64 {
		if len(ps) == 1 {
			return ps[0].ce
		}
		if len(ps) == 2 {
			a, b := ps[0].ce.n, ps[1].ce.n
			sh := uint(ps[1].lo)
			out.n = func(s *Sim) uint64 { return a(s) | b(s)<<sh }
		} else {
			fs := make([]func(*Sim) uint64, len(ps))
			shs := make([]uint, len(ps))
			for i, p := range ps {
				fs[i], shs[i] = p.ce.n, uint(p.lo)
			}
			out.n = func(s *Sim) uint64 {
				var v uint64
				for i, f := range fs {
					v |= f(s) << shs[i]
				}
				return v
			}
		}
	} else {
		nl := nwords(w)
		out.wf = func(s *Sim) []uint64 {
			d := s.alloc(nl)
			wzero(d)
			for _, p := range ps {
				if p.ce.w <= 64 {
					wsetOr(d, p.lo, p.ce.w, p.ce.n(s))
				} else {
					v := p.ce.wf(s)
					for i := 0; i*64 < p.ce.w; i++ {
						n := p.ce.w - i*64
						if n > 64 {
							n = 64
						}
						wsetOr(d, p.lo+i*64, n, v[i])
					}
				}
			}
			return d
		}
	}
	if all {
		return c.fold(out)
	}
	return out
}

// wsetOr ORs the n-bit value x into d at bit lo (d zero there beforehand).
func wsetOr(d []uint64, lo, n int, x uint64) {
	wi := lo >> 6
	bo := uint(lo & 63)
	d[wi] |= x << bo
	if int(bo)+n > 64 {
		d[wi+1] |= x >> (64 - bo)
	}
}
