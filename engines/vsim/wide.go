package vsim

import "math/bits"

// Wide values are little-endian []uint64 limbs, always kept masked to their width.

func nwords(w int) int { return (w + 63) >> 6 }

func mask64(w int) uint64 {
	if w >= 64 {
		return ^uint64(0)
	}
	return (uint64(1) << uint(w)) - 1
}

func limbsBitLen(v []uint64) int {
	for i := len(v) - 1; i >= 0; i-- {
		if v[i] != 0 {
			return i*64 + bits.Len64(v[i])
		}
	}
	return 0
}

// wmask clears bits at and above w.
func wmask(v []uint64, w int) {
	n := nwords(w)
	for i := n; i < len(v); i++ {
		v[i] = 0
	}
	if r := w & 63; r != 0 && n-1 < len(v) {
		v[n-1] &= mask64(r)
	}
}

func wzero(v []uint64) {
	for i := range v {
		v[i] = 0
	}
}

func wisZero(v []uint64) bool {
	for _, x := range v {
		if x != 0 {
			return false
		}
	}
	return true
}

// wcopy copies src into dst (len(dst) limbs), zero extending.
func wcopy(dst, src []uint64) {
	n := copy(dst, src)
	for i := n; i < len(dst); i++ {
		dst[i] = 0
	}
}

// wsignBit returns bit w-1 of v.
func wbit(v []uint64, i int) uint64 {
	if i < 0 || i>>6 >= len(v) {
		return 0
	}
	return (v[i>>6] >> uint(i&63)) & 1
}

// wsext sign-extends v (valid width from) in place to width to (len(v) >= nwords(to)).
func wsext(v []uint64, from, to int) {
	if from >= to || from == 0 || wbit(v, from-1) == 0 {
		return
	}
	// set bits from..to-1
	for i := from; i < to; {
		wi := i >> 6
		bo := uint(i & 63)
		n := 64 - int(bo)
		if i+n > to {
			n = to - i
		}
		v[wi] |= mask64(n) << bo
		i += n
	}
}

func wadd(dst, a, b []uint64) {
	var c uint64
	for i := range dst {
		dst[i], c = bits.Add64(a[i], b[i], c)
	}
}
func wsub(dst, a, b []uint64) {
	var c uint64
	for i := range dst {
		dst[i], c = bits.Sub64(a[i], b[i], c)
	}
}
func wneg(dst, a []uint64) {
	var c uint64 = 1
	for i := range dst {
		dst[i], c = bits.Add64(^a[i], 0, c)
	}
}

// wmul computes the low len(dst) limbs of a*b. dst must not alias a or b.
func wmul(dst, a, b []uint64) {
	wzero(dst)
	n := len(dst)
	for i := 0; i < n; i++ {
		if a[i] == 0 {
			continue
		}
		var carry uint64
		for j := 0; i+j < n; j++ {
			hi, lo := bits.Mul64(a[i], b[j])
			var c1, c2 uint64
			lo, c1 = bits.Add64(lo, dst[i+j], 0)
			lo, c2 = bits.Add64(lo, carry, 0)
			dst[i+j] = lo
			carry = hi + c1 + c2
		}
	}
}

// wshl: dst = a << sh (len(dst)==len(a)); dst may alias a only if sh==0.
func wshl(dst, a []uint64, sh uint64) {
	n := len(dst)
	if sh >= uint64(n)*64 {
		wzero(dst)
		return
	}
	ws := int(sh >> 6)
	bs := uint(sh & 63)
	for i := n - 1; i >= 0; i-- {
		var v uint64
		if i-ws >= 0 {
			v = a[i-ws] << bs
			if bs != 0 && i-ws-1 >= 0 {
				v |= a[i-ws-1] >> (64 - bs)
			}
		}
		dst[i] = v
	}
}

// wshr: logical right shift.
func wshr(dst, a []uint64, sh uint64) {
	n := len(dst)
	if sh >= uint64(n)*64 {
		wzero(dst)
		return
	}
	ws := int(sh >> 6)
	bs := uint(sh & 63)
	for i := 0; i < n; i++ {
		var v uint64
		if i+ws < n {
			v = a[i+ws] >> bs
			if bs != 0 && i+ws+1 < n {
				v |= a[i+ws+1] << (64 - bs)
			}
		}
		dst[i] = v
	}
}

// wsar: arithmetic right shift of a w-bit value.
func wsar(dst, a []uint64, sh uint64, w int) {
	neg := wbit(a, w-1) != 0
	if sh >= uint64(w) {
		if neg {
			for i := range dst {
				dst[i] = ^uint64(0)
			}
			wmask(dst, w)
		} else {
			wzero(dst)
		}
		return
	}
	wshr(dst, a, sh)
	if neg {
		from := w - int(sh)
		wsext2(dst, from, w)
	}
}

// wsext2 sets bits from..to-1 unconditionally.
func wsext2(v []uint64, from, to int) {
	for i := from; i < to; {
		wi := i >> 6
		bo := uint(i & 63)
		n := 64 - int(bo)
		if i+n > to {
			n = to - i
		}
		v[wi] |= mask64(n) << bo
		i += n
	}
}

// wcmpU compares unsigned values of equal limb count.
func wcmpU(a, b []uint64) int {
	for i := len(a) - 1; i >= 0; i-- {
		if a[i] != b[i] {
			if a[i] < b[i] {
				return -1
			}
			return 1
		}
	}
	return 0
}

// wcmpS compares w-bit two's complement values.
func wcmpS(a, b []uint64, w int) int {
	sa, sb := wbit(a, w-1), wbit(b, w-1)
	if sa != sb {
		if sa == 1 {
			return -1
		}
		return 1
	}
	return wcmpU(a, b)
}

// wdivmod: unsigned q = a / b, r = a % b (b != 0). All slices same length; q, r distinct from a, b.
func wdivmod(q, r, a, b []uint64) {
	wzero(q)
	wzero(r)
	n := limbsBitLen(a)
	for i := n - 1; i >= 0; i-- {
		// r = (r << 1) | bit i of a
		var c uint64 = wbit(a, i)
		for k := range r {
			nc := r[k] >> 63
			r[k] = r[k]<<1 | c
			c = nc
		}
		if wcmpU(r, b) >= 0 {
			wsub(r, r, b)
			q[i>>6] |= 1 << uint(i&63)
		}
	}
}

// wget extracts n (<=64) bits starting at bit lo (lo may be negative or beyond the end; missing bits read 0).
func wget(v []uint64, lo, n int) uint64 {
	if n <= 0 {
		return 0
	}
	if lo < 0 {
		if lo+n <= 0 {
			return 0
		}
		return (wget(v, 0, n+lo) << uint(-lo)) & mask64(n)
	}
	wi := lo >> 6
	if wi >= len(v) {
		return 0
	}
	bo := uint(lo & 63)
	x := v[wi] >> bo
	if bo != 0 && wi+1 < len(v) {
		x |= v[wi+1] << (64 - bo)
	}
	return x & mask64(n)
}

// wgetW extracts n bits starting at lo into dst (len nwords(n)).
func wgetW(dst, v []uint64, lo, n int) {
	for i := range dst {
		k := n - i*64
		if k > 64 {
			k = 64
		}
		dst[i] = wget(v, lo+i*64, k)
	}
}

// wset writes the low n (<=64) bits of x at bit lo of v (must be in range). Returns true if v changed.
func wset(v []uint64, lo, n int, x uint64) bool {
	wi := lo >> 6
	bo := uint(lo & 63)
	m := mask64(n)
	x &= m
	ch := false
	old := v[wi]
	nv := (old &^ (m << bo)) | (x << bo)
	if nv != old {
		v[wi] = nv
		ch = true
	}
	if int(bo)+n > 64 {
		sh := 64 - bo
		old = v[wi+1]
		nv = (old &^ (m >> sh)) | (x >> sh)
		if nv != old {
			v[wi+1] = nv
			ch = true
		}
	}
	return ch
}
