package vsim

// ---------- expressions ----------

type Expr interface{ exprPos() Pos }

// Num is a literal. Width 0 means unsized (32 bits or more, see unsizedW).
type Num struct {
	Pos
	Width    int
	unsizedW int // effective width of an unsized literal (>= 32)
	Signed   bool
	Based    bool
	Val      []uint64 // little-endian limbs, x/z bits cleared
	XZ       []uint64 // mask of x/z/? bits (nil if none)
}

func (n *Num) width() int {
	if n.Width != 0 {
		return n.Width
	}
	if n.unsizedW != 0 {
		return n.unsizedW
	}
	// plain decimal
	w := 32
	if bl := limbsBitLen(n.Val); bl+1 > w {
		w = bl + 1
	}
	return w
}

type Ident struct {
	Pos
	Name string
}
type Index struct {
	Pos
	X, I Expr
}

// RangeSel: Kind 0 = [A:B], 1 = [A +: B], 2 = [A -: B]
type RangeSel struct {
	Pos
	X    Expr
	Kind int
	A, B Expr
}
type Concat struct {
	Pos
	Parts []Expr
}
type Repl struct {
	Pos
	Count Expr
	Parts []Expr
}
type Unary struct {
	Pos
	Op string
	X  Expr
}
type Binary struct {
	Pos
	Op   string
	L, R Expr
}
type Cond struct {
	Pos
	C, T, F Expr
}
type Call struct {
	Pos
	Name string
	Args []Expr
	Sys  bool
}
type Str struct {
	Pos
	S string
}

func (p Pos) exprPos() Pos { return p }

// ---------- statements ----------

type Stmt interface{ stmtPos() Pos }

func (p Pos) stmtPos() Pos { return p }

type Block struct {
	Pos
	Name  string
	Decls []*Decl
	Stmts []Stmt
}
type If struct {
	Pos
	C          Expr
	Then, Else Stmt
}
type CaseItem struct {
	Labels  []Expr
	Default bool
	Body    Stmt
}
type Case struct {
	Pos
	Kind  string // case casez casex
	X     Expr
	Items []CaseItem
}
type For struct {
	Pos
	Init, Step *AssignStmt
	Cond       Expr
	Body       Stmt
}
type While struct {
	Pos
	Cond Expr
	Body Stmt
}
type RepeatStmt struct {
	Pos
	Count Expr
	Body  Stmt
}
type AssignStmt struct {
	Pos
	LHS, RHS Expr
	NB       bool
}
type SysTask struct {
	Pos
	Name string
	Args []Expr
}
type Disable struct {
	Pos
	Name string
}
type Null struct{ Pos }

// UnsupStmt marks a construct outside the subset (a Diag has been recorded).
type UnsupStmt struct {
	Pos
	What string
}

// ---------- module items ----------

type Item interface{ itemPos() Pos }

func (p Pos) itemPos() Pos { return p }

type DeclName struct {
	Pos
	Name       string
	ArrA, ArrB Expr // array dimension (memories / net arrays)
	Init       Expr
}

// Decl is any declaration. Kind: wire reg integer time genvar parameter localparam input output inout
type Decl struct {
	Pos
	Kind    string
	NetType string // for ports: "", "wire", "reg", "integer"
	Signed  bool
	MSB     Expr
	LSB     Expr
	Names   []DeclName
	ANSI    bool // declared in an ANSI port list / #() header
}
type ContAssign struct {
	Pos
	LHS, RHS Expr
}
type EventExpr struct {
	Edge string // posedge negedge ""
	X    Expr
}
type Always struct {
	Pos
	Star   bool
	Events []EventExpr
	Body   Stmt
}
type Initial struct {
	Pos
	Body Stmt
}
type Conn struct {
	Pos
	Name string // "" if positional
	X    Expr   // nil if unconnected
}
type Instance struct {
	Pos
	Mod, Name   string
	Params      []Conn
	Conns       []Conn
	NamedParams bool
	NamedConns  bool
}
type GenFor struct {
	Pos
	Var     string
	Init    Expr
	Cond    Expr
	StepVar string
	Step    Expr
	Label   string
	Items   []Item
}
type GenIf struct {
	Pos
	Cond       Expr
	Then, Else []Item
	ThenLabel  string
	ElseLabel  string
}

// GenBlock is a bare begin..end inside a generate region.
type GenBlock struct {
	Pos
	Label string
	Items []Item
}
type Function struct {
	Pos
	Name     string
	Signed   bool
	RetKind  string // "", "integer", "time"
	MSB, LSB Expr
	Decls    []*Decl // inputs (in order) and locals
	Body     Stmt
}

type Module struct {
	Pos
	Name        string
	PortNames   []string // order of the port list
	ANSI        bool
	Items       []Item
	NettypeNone bool   // `default_nettype none in effect
	Broken      *Diag  // syntax error inside: body unusable
	Unsupported []Diag // unsupported constructs inside
}
