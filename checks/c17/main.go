//go:build gosched

// C17 — "Finished simulations leave no workers behind".
//
// Deciding engine: engines/gosched.  Under the controlled scheduler the set of live goroutines is
// known exactly.  Every call history of checks/c17/hist (1..N single-shot calls of the real
// Bondmachine.SinglePipelineSimulate / Bondmachine.Fitness_default / a basm assembly, made
// sequentially or by two concurrent callers, on two machines) is executed under EVERY schedule
// with at most B preemptions.  At quiescence after the main body returned, the goroutines that
// are parked with no live goroutine able to wake them (gosched: BlockedForever) are the leak of
// that schedule, grouped by creation site (file:function of the `go` statement).
//
// Oracle (growth, no hand-written expectation): for every history h with >= 2 calls and its
// predecessor p (h without its last call): for no creation site may some schedule of h leave
// more parked-forever goroutines than every schedule of p does — the last call must add 0.
// (A constant left behind by the first call only would be accepted, as the property allows.)
//
// Supplementary, non-deciding: checks/c17/freerun on the uninstrumented code —
// runtime.NumGoroutine() and live heap before/after batches of 1, 10, 100 calls.
//
// Built and run by checks/c17/run.sh.
package main

import (
	"bytes"
	"encoding/json"
	"flag"
	"fmt"
	"go/ast"
	"go/parser"
	"go/token"
	"os"
	"os/exec"
	"path/filepath"
	"reflect"
	"regexp"
	"sort"
	"strconv"
	"strings"
	"sync"
	"time"

	gs "github.com/BondMachineHQ/BondMachine/pkg/zzgs"

	"verif/checks/c17/hist"
	"verif/lib/vlib"
)

var (
	fChild   = flag.Bool("child", false, "internal: explore the histories i with i%n==k and print the results as JSON")
	fPart    = flag.String("part", "", "internal: k/n")
	fParts   = flag.Int("parts", 16, "worker processes")
	fSrc     = flag.String("src", "", "directory holding the instrumented source tree (resolves the function enclosing a `go func(){}` literal)")
	fFreeBin = flag.String("freebin", "", "path of the checks/c17/freerun binary (empty: skip the free-running measurement)")
	fBound   = flag.Int("bound", -1, "override the preemption bound")
	fMaxN    = flag.Int("maxn", 0, "override the maximum number of calls per history")
	fEndBy   = flag.Int64("endby", 0, "internal: unix time at which the exploration budget ends")
	fVerbose = flag.Bool("v", false, "print every history")
)

var stdout = os.Stdout // the code under test prints warnings: its stdout is discarded, ours is kept

func silenceTarget() {
	if f, err := os.OpenFile(os.DevNull, os.O_WRONLY, 0); err == nil {
		os.Stdout = f
	}
}

func tierParams(thorough bool) (maxN, bound int, budget time.Duration) {
	maxN, bound, budget = 3, 1, 60*time.Second
	if thorough {
		maxN, bound, budget = 4, 2, 14*time.Minute
	}
	if *fMaxN > 0 {
		maxN = *fMaxN
	}
	if *fBound >= 0 {
		bound = *fBound
	}
	return
}

// boundFor is the preemption bound of one history.  quick: 1 everywhere.  thorough: 2 for the
// small histories (sequential with <= 3 calls and at most one call on the two-processor machine,
// sequential on the one-processor machine only, two callers with <= 2 calls on the one-processor
// machine), 1 for the others.  The bound never increases from a history to its extension, so the
// predecessor of a history is always explored with at least the same bound (needed by the oracle).
func boundFor(h hist.History, tierBound int) int {
	if tierBound <= 1 {
		return tierBound
	}
	nb := 0
	for _, c := range h.Callers {
		for _, k := range c {
			if k == hist.SpsB || k == hist.FitB || k == hist.SpsBErr || k == hist.SpsC || k == hist.SpsBDelay || k == hist.Fit0 {
				nb++
			}
		}
	}
	small := false
	if !h.Spawn {
		small = nb == 0 || (h.N() <= 3 && nb <= 1) || (h.N() <= 2)
	} else {
		small = nb == 0 && h.N() <= 2
	}
	if small {
		return tierBound
	}
	return 1
}

// ------------------------------------------------------------- body

func spawnGS(fns ...func()) {
	var wg gs.WaitGroup
	wg.Add(len(fns))
	for i, f := range fns {
		f := f
		gs.Go("checks/c17/main.go:caller", fmt.Sprintf("caller%d", i), func() { f(); wg.Done() })
	}
	wg.Wait()
}

func bodyOf(env *hist.Env, h hist.History) func() {
	return func() {
		for _, l := range env.Run(h, spawnGS) {
			gs.Observe(l)
		}
	}
}

// ------------------------------------------------------------- creation sites

var identRe = regexp.MustCompile(`^[A-Za-z_][A-Za-z0-9_]*(\.[A-Za-z_][A-Za-z0-9_]*)*$`)

var enclosingCache = map[string]string{}

// enclosing returns the name of the function declaration enclosing file:line in the source tree.
func enclosing(createdAt string) string {
	if v, ok := enclosingCache[createdAt]; ok {
		return v
	}
	res := ""
	defer func() { enclosingCache[createdAt] = res }()
	i := strings.LastIndex(createdAt, ":")
	if i < 0 || *fSrc == "" {
		return ""
	}
	line, err := strconv.Atoi(createdAt[i+1:])
	if err != nil {
		return ""
	}
	fset := token.NewFileSet()
	f, err := parser.ParseFile(fset, filepath.Join(*fSrc, createdAt[:i]), nil, 0)
	if err != nil {
		return ""
	}
	for _, d := range f.Decls {
		if fd, ok := d.(*ast.FuncDecl); ok {
			if fset.Position(fd.Pos()).Line <= line && line <= fset.Position(fd.End()).Line {
				res = fd.Name.Name
				return res
			}
		}
	}
	return ""
}

// siteOf names the creation site of a goroutine without line numbers: "<file>:<function started>",
// for function literals "<file>:<enclosing function>.func-literal".
func siteOf(g gs.GInfo) string {
	file := g.CreatedAt
	if i := strings.LastIndex(file, ":"); i >= 0 {
		file = file[:i]
	}
	file = filepath.Base(file)
	fn := strings.TrimSpace(g.Func)
	if identRe.MatchString(fn) {
		if i := strings.LastIndex(fn, "."); i >= 0 {
			fn = fn[i+1:]
		}
		return file + ":" + fn
	}
	if enc := enclosing(g.CreatedAt); enc != "" {
		return file + ":" + enc + ".func-literal"
	}
	return file + ":func-literal"
}

// ------------------------------------------------------------- per history result

type vecStat struct {
	Count   int            `json:"schedules"`
	Example []int          `json:"example_schedule"`
	Counts  map[string]int `json:"parked_forever_by_site"`
}

type histResult struct {
	Name           string              `json:"history"`
	H              hist.History        `json:"-"`
	N              int                 `json:"calls"`
	Bound          int                 `json:"preemption_bound"`
	BoundCompleted int                 `json:"bound_completed"`
	Exhaustive     bool                `json:"exhaustive_within_bound"`
	FullyExplored  bool                `json:"all_interleavings_covered"`
	CapHit         string              `json:"cap_hit,omitempty"`
	Schedules      int                 `json:"schedules"`
	Executions     int                 `json:"executions"`
	Points         int64               `json:"choice_points_visited"`
	Steps          int64               `json:"transitions_fired"`
	Goroutines     int                 `json:"goroutines_created_max"`
	Deadlocks      int                 `json:"deadlocks"`
	Panics         int                 `json:"panics"`
	Nondet         int                 `json:"nondeterministic_runs"`
	Vectors        map[string]*vecStat `json:"leak_vectors"`
	AliveNotParked int                 `json:"alive_at_return_but_not_parked_forever_max"`
	Results        map[string]int      `json:"distinct_call_results"`
	FirstBad       *gs.Outcome         `json:"first_deadlock_or_panic,omitempty"`
}

func vecKey(m map[string]int) string {
	var ks []string
	for k := range m {
		ks = append(ks, k)
	}
	sort.Strings(ks)
	var sb strings.Builder
	for _, k := range ks {
		fmt.Fprintf(&sb, "%s=%d ", k, m[k])
	}
	return strings.TrimSpace(sb.String())
}

func leakVector(o *gs.Outcome) (vec map[string]int, notParked int) {
	vec = map[string]int{}
	for _, g := range o.Leaked {
		if g.BlockedForever {
			vec[siteOf(g)]++
		} else {
			notParked++
		}
	}
	return
}

func exploreHistory(env *hist.Env, h hist.History, bound int, dl time.Duration) *histResult {
	r := &histResult{Name: h.Name(), H: h, N: h.N(), Bound: bound, Vectors: map[string]*vecStat{}, Results: map[string]int{}}
	opts := gs.Options{MaxPreemptions: bound, Deadline: dl}
	opts.OnSchedule = func(o *gs.Outcome, points int) {
		if o.Goroutines > r.Goroutines {
			r.Goroutines = o.Goroutines
		}
		if o.Deadlock || o.Panic != nil || o.StepLimit || o.Nondeterminism != "" {
			if r.FirstBad == nil && o.Nondeterminism == "" {
				c := *o
				r.FirstBad = &c
			}
			return
		}
		vec, np := leakVector(o)
		if np > r.AliveNotParked {
			r.AliveNotParked = np
		}
		k := vecKey(vec)
		v := r.Vectors[k]
		if v == nil {
			v = &vecStat{Example: append([]int{}, o.Choices...), Counts: vec}
			r.Vectors[k] = v
		}
		v.Count++
		r.Results[o.Observation]++
	}
	rep := gs.Explore(opts, bodyOf(env, h))
	r.BoundCompleted, r.Exhaustive, r.FullyExplored, r.CapHit = rep.BoundCompleted, rep.Exhaustive, rep.FullyExplored, rep.CapHit
	r.Schedules, r.Executions, r.Points, r.Steps = rep.Schedules, rep.Executions, rep.TotalPoints, rep.TotalSteps
	r.Deadlocks, r.Panics, r.Nondet = rep.DeadlockCount, rep.PanicCount, rep.Nondeterministic
	return r
}

// siteMax returns the largest and smallest number of parked-forever goroutines of the site over
// all schedules of the history, and a schedule reaching the largest.
func (r *histResult) siteMax(site string) (max int, example []int, min int) {
	min = -1
	for _, v := range r.Vectors {
		c := v.Counts[site]
		if example == nil || c > max || (c == max && fmt.Sprint(v.Example) < fmt.Sprint(example)) {
			max, example = c, v.Example
		}
		if min < 0 || c < min {
			min = c
		}
	}
	if min < 0 {
		min = 0
	}
	return
}

func (r *histResult) sites() []string {
	seen := map[string]bool{}
	for _, v := range r.Vectors {
		for s := range v.Counts {
			seen[s] = true
		}
	}
	var out []string
	for s := range seen {
		out = append(out, s)
	}
	sort.Strings(out)
	return out
}

// ------------------------------------------------------------- child

func remaining(budget time.Duration) time.Duration {
	if *fEndBy > 0 {
		d := time.Until(time.Unix(*fEndBy, 0))
		if d < 2*time.Second {
			d = 2 * time.Second
		}
		return d
	}
	return budget
}

func childMain(run *vlib.Run) {
	silenceTarget()
	maxN, bound, budget := tierParams(run.Thorough())
	k, n := 0, 1
	if *fPart != "" {
		fmt.Sscanf(*fPart, "%d/%d", &k, &n)
	}
	env := hist.NewEnv()
	var out []*histResult
	hs := hist.Enumerate(maxN)
	mine := assignment(hs, n)[k]
	// cheapest first: the small histories always complete, the big ones share what is left
	for j := len(mine) - 1; j >= 0; j-- {
		dl := remaining(budget) / time.Duration(j+1)
		if dl < 2*time.Second {
			dl = 2 * time.Second
		}
		out = append(out, exploreHistory(env, hs[mine[j]], boundFor(hs[mine[j]], bound), dl))
	}
	json.NewEncoder(stdout).Encode(out)
}

// assignment deals the histories to n workers, biggest first (cost grows steeply with the number
// of calls and with concurrency), round robin.
func assignment(hs []hist.History, n int) [][]int {
	idx := make([]int, len(hs))
	for i := range idx {
		idx[i] = i
	}
	cost := func(h hist.History) int {
		c := h.N() * 10
		if h.Spawn {
			c += 25
		}
		for _, cl := range h.Callers {
			for _, k := range cl {
				if k == hist.SpsB || k == hist.FitB || k == hist.SpsBErr || k == hist.SpsC || k == hist.SpsBDelay || k == hist.Fit0 {
					c += 4
				}
			}
		}
		return c
	}
	sort.SliceStable(idx, func(a, b int) bool { return cost(hs[idx[a]]) > cost(hs[idx[b]]) })
	out := make([][]int, n)
	for j, i := range idx {
		// boustrophedon keeps the sums close
		w := j % (2 * n)
		if w >= n {
			w = 2*n - 1 - w
		}
		out[w] = append(out[w], i)
	}
	return out
}

// ------------------------------------------------------------- replay

type replayObj struct {
	History hist.History `json:"history"`
	Tier    string       `json:"tier"`
	Site    string       `json:"site"`
	Choices []int        `json:"choices"`
	Pred    hist.History `json:"predecessor"`
}

func printLeaks(o gs.Outcome) {
	vec, np := leakVector(&o)
	fmt.Fprintf(stdout, "    goroutines created=%d alive at return=%d parked forever=%d (%s) not parked forever=%d\n", o.Goroutines, len(o.Leaked), len(o.Leaked)-np, vecKey(vec), np)
	for _, g := range o.Leaked {
		fmt.Fprintf(stdout, "      %s   [site %s]\n", g.String(), siteOf(g))
	}
}

func replayMain(run *vlib.Run) {
	silenceTarget()
	var ro replayObj
	sig, err := vlib.LoadReplay(run.Replay, &ro)
	if err != nil {
		fmt.Fprintln(stdout, "cannot load replay:", err)
		os.Exit(2)
	}
	env := hist.NewEnv()
	fmt.Fprintf(stdout, "replaying %s\n  history %s, schedule %v\n", sig, ro.History.Name(), ro.Choices)
	o1 := gs.Replay(ro.Choices, bodyOf(env, ro.History))
	o2 := gs.Replay(ro.Choices, bodyOf(env, ro.History))
	fmt.Fprintf(stdout, "--- history %s: steps=%d deadlock=%v panic=%v; identical on second replay: %v\n    results: %s\n", ro.History.Name(), o1.Steps, o1.Deadlock, o1.Panic, reflect.DeepEqual(o1, o2), strings.ReplaceAll(o1.Observation, "\n", " ; "))
	printLeaks(o1)
	_, bound, _ := tierParams(ro.Tier == "thorough")
	got := 0
	for _, g := range o1.Leaked {
		if g.BlockedForever && siteOf(g) == ro.Site {
			got++
		}
	}
	if ro.Pred.N() > 0 {
		bound = boundFor(ro.Pred, bound)
		pr := exploreHistory(env, ro.Pred, bound, time.Minute)
		pm, _, _ := pr.siteMax(ro.Site)
		fmt.Fprintf(stdout, "--- predecessor history %s explored with bound %d: %d schedules, at most %d goroutines of site %s parked forever\n", ro.Pred.Name(), bound, pr.Schedules, pm, ro.Site)
		fmt.Fprintf(stdout, "REPLAY-RESULT site %s: %d parked forever after %d calls vs at most %d after %d calls: growth %+d (violation: %v)\n", ro.Site, got, ro.History.N(), pm, ro.Pred.N(), got-pm, got > pm)
	} else {
		fmt.Fprintf(stdout, "REPLAY-RESULT site %s: %d parked forever\n", ro.Site, got)
	}
}

// ------------------------------------------------------------- free run

func freeRun(run *vlib.Run) func() {
	if *fFreeBin == "" {
		return func() { run.Set("free_running_measurement", "skipped (no -freebin)") }
	}
	cmd := exec.Command(*fFreeBin)
	var out, eb bytes.Buffer
	cmd.Stdout, cmd.Stderr = &out, &eb
	done := make(chan error, 1)
	go func() { done <- cmd.Run() }()
	return func() {
		err := <-done
		var lines []string
		for _, l := range strings.Split(out.String()+eb.String(), "\n") {
			if strings.HasPrefix(l, "FREE ") {
				lines = append(lines, strings.TrimPrefix(l, "FREE "))
			}
		}
		m := map[string]any{"runtime.NumGoroutine_and_live_heap_before_after_batches": lines, "note": "free-running original code, not deciding"}
		if err != nil {
			m["error"] = err.Error()
		}
		run.Set("free_running_measurement", m)
		for _, l := range lines {
			fmt.Fprintln(stdout, "free-run:", l)
		}
	}
}

// ------------------------------------------------------------- main

func main() {
	run := vlib.Start("C17", "model_checking")
	if *fChild {
		childMain(run)
		return
	}
	if run.Replay != "" {
		replayMain(run)
		return
	}
	self, err := os.Executable()
	if err != nil {
		panic(err)
	}
	thorough := run.Thorough()
	maxN, bound, budget := tierParams(thorough)
	run.Assume("leak = goroutine parked at quiescence after the main body returned with no live goroutine able to wake it (gosched BlockedForever); goroutines that terminate on their own after the last call returned are not counted")
	run.Assume("growth oracle: a constant number of goroutines left by the FIRST call would be accepted (property: <= c independent of n); only growth per further call is a violation")
	run.Assume("no delay distributions; machines A (1 processor) and B (2 processors in a pipeline); Fitness_default driven with empty simboxes for 3 ticks; the basm assembly is part of the history alphabet because the property's anchors name bmreqs.NewReqRoot (started by basm.BasmInstanceInit)")
	run.Assume("schedules with at most `preemption_bound` preemptions per history")
	hs := hist.Enumerate(maxN)
	free := freeRun(run)
	endBy := time.Now().Add(budget).Unix()
	parts := *fParts
	results := map[string]*histResult{}
	var mu sync.Mutex
	var wg sync.WaitGroup
	var herr error
	for k := 0; k < parts; k++ {
		wg.Add(1)
		go func(k int) {
			defer wg.Done()
			args := []string{"-child", "-tier", run.Tier, "-part", fmt.Sprintf("%d/%d", k, parts), "-endby", strconv.FormatInt(endBy, 10), "-src", *fSrc}
			if *fBound >= 0 {
				args = append(args, "-bound", strconv.Itoa(*fBound))
			}
			if *fMaxN > 0 {
				args = append(args, "-maxn", strconv.Itoa(*fMaxN))
			}
			cmd := exec.Command(self, args...)
			var out, eb bytes.Buffer
			cmd.Stdout, cmd.Stderr = &out, &eb
			err := cmd.Run()
			var rs []*histResult
			if err == nil {
				err = json.Unmarshal(out.Bytes(), &rs)
			}
			mu.Lock()
			defer mu.Unlock()
			if err != nil {
				s := eb.String()
				if len(s) > 1500 {
					s = s[len(s)-1500:]
				}
				herr = fmt.Errorf("worker %d: %v\n%s", k, err, s)
				return
			}
			for _, r := range rs {
				results[r.Name] = r
			}
		}(k)
	}
	wg.Wait()
	if herr != nil {
		fmt.Fprintln(os.Stderr, "harness error:", herr)
		os.Exit(2)
	}

	exhaustive := true
	type growthRow struct {
		Entry   string `json:"entry_point"`
		Site    string `json:"creation_site"`
		Deltas  []int  `json:"per_call_growth_values_seen"`
		Cases   int    `json:"histories_with_growth"`
		AllSch  int    `json:"of_which_growth_in_every_schedule"`
		Example string `json:"example_history"`
	}
	growth := map[string]*growthRow{}
	var table []*histResult
	for _, h := range hs {
		r := results[h.Name()]
		if r == nil {
			fmt.Fprintln(os.Stderr, "harness error: no result for history", h.Name())
			os.Exit(2)
		}
		r.H = h
		table = append(table, r)
		run.Add("states", int(r.Points))
		run.Add("transitions", int(r.Steps))
		run.Add("traces_validated_against_impl", r.Schedules)
		run.Add("schedules", r.Schedules)
		run.Add("executions", r.Executions)
		if !r.Exhaustive {
			exhaustive = false
		}
		if r.Deadlocks > 0 || r.Panics > 0 {
			what, ch := "", []int{}
			if r.FirstBad != nil {
				ch = r.FirstBad.Choices
				what = fmt.Sprintf("deadlock=%v panic=%v", r.FirstBad.Deadlock, r.FirstBad.Panic)
				for _, g := range r.FirstBad.Blocked {
					what += "; " + g.String()
				}
			}
			cl := "deadlock"
			if r.Panics > 0 {
				cl = "panic"
			}
			run.Report("C17|"+hist.EntryPoint(h.Callers[0][0])+"|"+cl, fmt.Sprintf("history %s, schedule %v: %s", h.Name(), ch, what), replayObj{History: h, Tier: run.Tier, Choices: ch})
		}
	}
	skipped := 0
	for _, h := range hs {
		p, last, ok := h.Pred()
		if !ok {
			continue
		}
		r, pr := results[h.Name()], results[p.Name()]
		if pr == nil {
			fmt.Fprintln(os.Stderr, "harness error: predecessor not explored:", p.Name())
			os.Exit(2)
		}
		if len(r.Vectors) == 0 || len(pr.Vectors) == 0 {
			continue
		}
		if !pr.Exhaustive || pr.Bound < r.Bound {
			// the predecessor's maximum is only a lower bound: no verdict for this pair (never an alarm)
			skipped++
			continue
		}
		for _, site := range r.sites() {
			hm, ex, hmin := r.siteMax(site)
			pm, _, _ := pr.siteMax(site)
			if hm <= pm {
				continue
			}
			entry := hist.EntryPoint(last)
			sig := "C17|" + entry + "|leak|" + site
			g := growth[sig]
			if g == nil {
				g = &growthRow{Entry: entry, Site: site, Example: h.Name()}
				growth[sig] = g
			}
			g.Cases++
			every := hmin > pm
			if every {
				g.AllSch++
			}
			d := hm - pm
			found := false
			for _, x := range g.Deltas {
				found = found || x == d
			}
			if !found {
				g.Deltas = append(g.Deltas, d)
				sort.Ints(g.Deltas)
			}
			scope := fmt.Sprintf("in schedule %v", ex)
			if every {
				scope = fmt.Sprintf("in every one of its %d schedules (e.g. %v)", r.Schedules, ex)
			}
			run.Report(sig, fmt.Sprintf("history %s: after its %d calls returned, %d goroutines started at %s are parked forever %s, while history %s (%d calls) never leaves more than %d: the last call (%s, %s) adds %d goroutine(s) that nothing can ever wake or stop",
				h.Name(), h.N(), hm, site, scope, p.Name(), p.N(), pm, last, entry, d),
				replayObj{History: h, Tier: run.Tier, Site: site, Choices: append([]int{}, ex...), Pred: p})
		}
	}
	var grows []*growthRow
	var gk []string
	for k := range growth {
		gk = append(gk, k)
	}
	sort.Strings(gk)
	for _, k := range gk {
		grows = append(grows, growth[k])
		g := growth[k]
		fmt.Fprintf(stdout, "growth: %-70s per call %v, in %d histories (%d: in every schedule), e.g. %s\n", k, g.Deltas, g.Cases, g.AllSch, g.Example)
	}
	nseq, npar := 0, 0
	for _, r := range table {
		if r.H.Spawn {
			npar++
		} else {
			nseq++
		}
		if *fVerbose {
			var vs []string
			for k, v := range r.Vectors {
				vs = append(vs, fmt.Sprintf("{%s}x%d", k, v.Count))
			}
			sort.Strings(vs)
			fmt.Fprintf(stdout, "history %-40s bound=%d calls=%d schedules=%d executions=%d completed=%d full=%v leaks %s %s\n", r.Name, r.Bound, r.N, r.Schedules, r.Executions, r.BoundCompleted, r.FullyExplored, strings.Join(vs, " "), r.CapHit)
		}
	}
	// evidence
	sort.SliceStable(table, func(i, j int) bool { return table[i].Schedules > table[j].Schedules })
	run.Set("histories", len(table))
	run.Set("histories_sequential", nseq)
	run.Set("histories_two_callers", npar)
	run.Set("max_calls_per_history", maxN)
	run.Set("preemption_bound", bound)
	run.Set("preemption_bound_rule", "quick: 1 for every history; thorough: 2 for small histories, 1 for the others (see history_table[].preemption_bound)")
	run.Set("exhaustive", exhaustive)
	run.Set("exploration_budget_s", budget.Seconds())
	run.Set("workers", parts)
	run.Set("growth_per_entry_point_and_site", grows)
	run.Set("history_pairs_without_verdict_because_predecessor_hit_a_cap", skipped)
	// retained simulator state: every parked vm.Processor_execute / vm.EmuDriverDispatcher goroutine is a
	// method value on its *bondmachine.VM, so each call that leaves one parked dispatcher keeps one whole
	// VM (processors, registers, channels) reachable for ever
	retained := map[string]int{}
	for _, r := range table {
		if !r.H.Spawn {
			m, _, _ := r.siteMax("vm.go:EmuDriverDispatcher")
			retained[r.Name] = m
		}
	}
	run.Set("retained_state", map[string]any{
		"what":                                  "number of bondmachine.VM objects kept reachable by parked-forever workers after the history (= parked EmuDriverDispatcher goroutines, one per Launch_processors); live-heap growth per call is in free_running_measurement",
		"retained_VMs_after_sequential_history": retained,
	})
	run.Set("history_table", table)
	for i, r := range table {
		if i < 6 {
			var vs []string
			for k, v := range r.Vectors {
				vs = append(vs, fmt.Sprintf("{%s} in %d schedules", k, v.Count))
			}
			run.Sample(map[string]any{"history": r.Name, "schedules": r.Schedules, "leak_vectors": vs})
		}
	}
	free()
	fmt.Fprintf(stdout, "histories=%d (sequential %d, two callers %d) max calls=%d bound=%d\n", len(table), nseq, npar, maxN, bound)
	os.Stdout = stdout
	run.Finish()
}
