// Package hist holds the call histories of check C17: the machines, the single-shot simulation
// entry points of /repo (Bondmachine.SinglePipelineSimulate, Bondmachine.Fitness_default) and a
// basm assembly (basm.BasmInstanceInit creates a bmreqs.ReqRoot), and the enumeration of
// sequential / two-caller histories.  No gosched import: the same code runs under the
// controlled scheduler (harness) and free (checks/c17/freerun).
package hist

import (
	"fmt"
	"strings"

	"github.com/BondMachineHQ/BondMachine/pkg/basm"
	"github.com/BondMachineHQ/BondMachine/pkg/bminfo"
	"github.com/BondMachineHQ/BondMachine/pkg/bondmachine"
	"github.com/BondMachineHQ/BondMachine/pkg/procbuilder"
	"github.com/BondMachineHQ/BondMachine/pkg/simbox"

	"verif/lib/bmgen"
)

func proc(prog string, n, m uint8) *procbuilder.Machine { return procRs(prog, n, m, 8) }

func procRs(prog string, n, m uint8, rsize uint8) *procbuilder.Machine {
	seen := map[string]bool{}
	var ops []string
	for _, l := range strings.Split(prog, "\n") {
		if f := strings.Fields(l); len(f) > 0 && !seen[f[0]] {
			seen[f[0]] = true
			ops = append(ops, f[0])
		}
	}
	mc, err := bmgen.NewMachine(bmgen.ArchSpec{Rsize: rsize, R: 2, N: n, M: m, L: 1, O: 3, Ops: ops})
	if err != nil {
		panic(err)
	}
	p, err := mc.Arch.Assembler([]byte(prog))
	if err != nil {
		panic(err)
	}
	mc.Program = p
	return mc
}

// MachineA: one processor, BM input i0 -> (i2rw, r2owa) -> BM output o0 (2 ticks).
func MachineA() *bondmachine.Bondmachine {
	b := new(bondmachine.Bondmachine)
	b.Rsize = 8
	b.Init()
	b.Domains = append(b.Domains, proc("i2rw r0 i0\nr2owa r0 o0\n", 1, 1))
	b.Add_processor(0)
	b.Add_input()
	b.Add_output()
	b.Add_bond([]string{"p0i0", "i0"})
	b.Add_bond([]string{"o0", "p0o0"})
	return b
}

// MachineB: two processors; p0 counts (inc), p1 publishes its register on BM output o0 in its
// first tick, so a SinglePipelineSimulate run takes one tick with two per-processor workers.
func MachineB() *bondmachine.Bondmachine {
	b := new(bondmachine.Bondmachine)
	b.Rsize = 8
	b.Init()
	b.Domains = append(b.Domains, proc("inc r0\ninc r0\n", 0, 1))
	b.Domains = append(b.Domains, proc("r2owa r1 o0\ninc r1\n", 0, 1))
	b.Add_processor(0)
	b.Add_processor(1)
	b.Add_output()
	b.Add_output()
	b.Add_bond([]string{"o0", "p0o0"})
	b.Add_bond([]string{"o1", "p1o0"})
	return b
}

// MachineC: MachineB with 12-bit registers. The simulator implements inc only for 8/16/32/64 bits: processor 0
// fails in every tick (its Step returns an error) while processor 1 runs, so every tick has a failing and a
// working processor worker.
func MachineC() *bondmachine.Bondmachine {
	b := new(bondmachine.Bondmachine)
	b.Rsize = 12
	b.Init()
	b.Domains = append(b.Domains, procRs("inc r0\ninc r0\n", 0, 1, 12))
	b.Domains = append(b.Domains, procRs("r2owa r1 o0\nr2owa r1 o0\n", 0, 1, 12))
	b.Add_processor(0)
	b.Add_processor(1)
	b.Add_output()
	b.Add_output()
	b.Add_bond([]string{"o0", "p0o0"})
	b.Add_bond([]string{"o1", "p1o0"})
	return b
}

// MachineD: one processor that executes a peripheral-command opcode (r2v sends a command to the emulation driver
// dispatcher through the VM's command channel) before it publishes its output.
func MachineD() *bondmachine.Bondmachine {
	b := new(bondmachine.Bondmachine)
	b.Rsize = 8
	b.Init()
	b.Domains = append(b.Domains, proc("rset r0 65\nr2v r0 3\nr2owa r0 o0\n", 0, 1))
	b.Add_processor(0)
	b.Add_output()
	b.Add_bond([]string{"o0", "p0o0"})
	return b
}

const basmSrc = `%section prog .romtext iomode:async
	entry _start
_start:
	inc r0
	j _start
%endsection
%meta cpdef p0 romcode: prog, ramsize:8
%meta bmdef global registersize:8
`

// Kinds of single-shot calls.
const (
	SpsA = "spsA" // MachineA.SinglePipelineSimulate
	SpsB = "spsB" // MachineB.SinglePipelineSimulate
	FitA = "fitA" // MachineA.Fitness_default, 2 ticks
	FitB = "fitB" // MachineB.Fitness_default, 1 tick
	Basm = "basm" // basm assembly of a 2-instruction program (BasmInstanceInit -> bmreqs.NewReqRoot)
	// a simulation that runs to its last tick and then fails while rendering the outputs: the data type applies to
	// every output but the last (MachineB has two), `signed` is a registered type whose text export is not
	// implemented, so SinglePipelineSimulate returns an error AFTER it started its workers
	SpsBErr = "spsBerr"
	SpsC    = "spsC" // MachineC.SinglePipelineSimulate: one of the two processors cannot execute its instruction
	// MachineB.SinglePipelineSimulate with a per-opcode delay table (as cmd/simfinetune passes): inc takes 3 ticks,
	// so the counting processor is inside a delay slot when the other one ends the run
	SpsBDelay = "spsBdelay"
	SpsD      = "spsD" // MachineD.SinglePipelineSimulate: the program sends a peripheral command
	Fit0      = "fit0" // MachineB.Fitness_default with a budget of ZERO ticks: the workers are launched and stopped at once
	// MachineA.Fitness_default scored against expectations written for a machine of another shape (they name an
	// output MachineA does not have): the call is rejected with an error, as an evolutionary run does for every
	// candidate that does not fit its expectation file
	FitMisfit = "fitMisfit"
)

// delayTable is shared by all calls (simfinetune shares one table too); single-valued distributions keep the
// simulation deterministic.
var delayTable = &simbox.SimDelays{OpcodeDelays: map[string]simbox.DelayDistribution{"inc": {3: 1.0}}}

// EntryPoint names the /repo function a call kind exercises (signature component).
func EntryPoint(kind string) string {
	switch kind {
	case SpsA, SpsB:
		return "SinglePipelineSimulate"
	case SpsBErr:
		return "SinglePipelineSimulate(error return)"
	case SpsC:
		return "SinglePipelineSimulate(failing processor)"
	case SpsBDelay:
		return "SinglePipelineSimulate(opcode delays)"
	case SpsD:
		return "SinglePipelineSimulate(peripheral command)"
	case FitA, FitB:
		return "Fitness_default"
	case Fit0:
		return "Fitness_default(zero ticks)"
	case FitMisfit:
		return "Fitness_default(expectations of another machine shape)"
	case Basm:
		return "basm.BasmInstanceInit"
	}
	return kind
}

// Env holds the (read-only) machines; they are inputs of the simulations, built once.
type Env struct{ A, B, C, D *bondmachine.Bondmachine }

func NewEnv() *Env { return &Env{A: MachineA(), B: MachineB(), C: MachineC(), D: MachineD()} }

// Call performs one single-shot call and returns a rendering of its result.
func (e *Env) Call(kind string) string {
	switch kind {
	case SpsA, SpsB, SpsBErr, SpsC, SpsBDelay, SpsD:
		bm := e.A
		if kind != SpsA {
			bm = e.B
		}
		if kind == SpsC {
			bm = e.C
		}
		if kind == SpsD {
			bm = e.D
		}
		in := []string{"5"}
		if bm.Inputs == 0 {
			in = nil
		}
		dataType := "unsigned"
		if kind == SpsBErr {
			dataType = "signed"
		}
		var sd *simbox.SimDelays
		if kind == SpsBDelay {
			sd = delayTable
		}
		out, err := bm.SinglePipelineSimulate(dataType, in, sd)
		if err != nil {
			return "error: " + err.Error()
		}
		return fmt.Sprint(out)
	case FitA, FitB, Fit0, FitMisfit:
		bm := e.A
		if kind != FitA && kind != FitMisfit {
			bm = e.B
		}
		in, exp := new(simbox.Simbox), new(simbox.Simbox)
		if kind == FitMisfit {
			exp.Rules = []simbox.Rule{
				{Timec: simbox.TIMEC_ABS, Tick: 1, Action: simbox.ACTION_SET, Object: "o0", Extra: "2"},
				{Timec: simbox.TIMEC_ABS, Tick: 1, Action: simbox.ACTION_SET, Object: "o5", Extra: "2"},
			}
		}
		ticks := uint64(2)
		if kind == FitB {
			ticks = 1
		}
		if kind == Fit0 {
			ticks = 0
		}
		f, err := bm.Fitness_default(in, exp, ticks)
		if err != nil {
			return "error: " + err.Error()
		}
		return fmt.Sprint(f)
	case Basm:
		bi := new(basm.BasmInstance)
		bi.BMinfo = new(bminfo.BMinfo)
		bi.BasmInstanceInit(nil)
		if err := bi.ParseAssemblyStringDefault(basmSrc); err != nil {
			return "parse error: " + err.Error()
		}
		if err := bi.RunAssembler(); err != nil {
			return "assembler error: " + err.Error()
		}
		if err := bi.Assembler2BondMachine(); err != nil {
			return "2bm error: " + err.Error()
		}
		bm := bi.GetBondMachine()
		return fmt.Sprintf("bm procs=%d", len(bm.Processors))
	}
	panic("unknown call kind " + kind)
}

// History is a set of callers; caller i performs Callers[i] in order.  With one caller and
// Spawn == false the calls are made by the main body itself (sequential program).
type History struct {
	Callers [][]string
	Spawn   bool
}

func (h History) N() int {
	n := 0
	for _, c := range h.Callers {
		n += len(c)
	}
	return n
}

func (h History) Name() string {
	var parts []string
	for _, c := range h.Callers {
		parts = append(parts, strings.Join(c, ","))
	}
	if !h.Spawn {
		return "seq[" + parts[0] + "]"
	}
	return "par[" + strings.Join(parts, " | ") + "]"
}

// Pred is the history with the last call removed (of the last caller that has one); ok is
// false for histories with a single call.
func (h History) Pred() (History, string, bool) {
	if h.N() < 2 {
		return History{}, "", false
	}
	p := History{Spawn: h.Spawn}
	for _, c := range h.Callers {
		p.Callers = append(p.Callers, append([]string{}, c...))
	}
	for i := len(p.Callers) - 1; i >= 0; i-- {
		if n := len(p.Callers[i]); n > 0 {
			last := p.Callers[i][n-1]
			p.Callers[i] = p.Callers[i][:n-1]
			return p, last, true
		}
	}
	return History{}, "", false
}

// Last is the kind of the last call (the one Pred removes).
func (h History) Last() string {
	_, l, _ := h.Pred()
	return l
}

func seqs(alpha []string, n int) [][]string {
	if n == 0 {
		return [][]string{{}}
	}
	var out [][]string
	for _, s := range seqs(alpha, n-1) {
		for _, a := range alpha {
			out = append(out, append(append([]string{}, s...), a))
		}
	}
	return out
}

// Enumerate lists the histories of a tier, closed under Pred (every history with >= 2 calls
// has its predecessor in the list).  maxN = 3 (quick) / 4 (thorough).
//
//	sequential: every sequence over {spsA, spsB} of length 1..maxN with at most two spsB, at most one
//	in the longest sequences (the two-processor machine multiplies the schedule space by ~40 per call); fitA^k, basm^k for
//	k = 1..maxN; fitB^k for k = 1..2; the mixed sequences spsA,fitA / fitA,spsA / spsA,basm /
//	basm,spsA; the failing simulation spsBerr alone, before and after spsA;
//	two callers (caller 1 makes k1 >= 1 calls, caller 2 makes k2 >= 0 calls): (spsA | spsA) on
//	the SAME machine object with k1+k2 <= 2 (quick) / 3 (thorough); (spsA | spsB) different machines and
//	(fitA | spsA) with k1+k2 <= 2.  Histories with 4 calls are sequential only (two callers
//	with 4 calls, or 3 calls involving the two-processor machine, have > 10^6 schedules already
//	at bound 1).
func Enumerate(maxN int) []History {
	var hs []History
	seen := map[string]bool{}
	add := func(h History) {
		if h.N() == 0 || seen[h.Name()] {
			return
		}
		seen[h.Name()] = true
		hs = append(hs, h)
	}
	count := func(s []string, k string) int {
		n := 0
		for _, x := range s {
			if x == k {
				n++
			}
		}
		return n
	}
	rep := func(k string, n int) []string { return seqs([]string{k}, n)[0] }
	for n := 1; n <= maxN; n++ {
		for _, s := range seqs([]string{SpsA, SpsB}, n) {
			if b := count(s, SpsB); b <= 2 && (n < maxN || b <= 1) {
				add(History{Callers: [][]string{s}})
			}
		}
		add(History{Callers: [][]string{rep(FitA, n)}})
		add(History{Callers: [][]string{rep(Basm, n)}})
		if n <= 2 {
			add(History{Callers: [][]string{rep(FitB, n)}})
		}
	}
	for _, s := range [][]string{{SpsA, FitA}, {FitA, SpsA}, {SpsA, Basm}, {Basm, SpsA}, {SpsBErr, SpsA}, {SpsA, SpsBErr}, {SpsC, SpsA}, {SpsA, SpsC}, {SpsBDelay, SpsA}, {SpsA, SpsBDelay}, {SpsD, SpsA}, {SpsA, SpsD}, {SpsD, SpsD}, {Fit0, Fit0}, {Fit0, SpsA}, {SpsA, Fit0}, {FitMisfit, FitMisfit}, {FitMisfit, SpsA}, {SpsA, FitMisfit}} {
		add(History{Callers: [][]string{s[:1]}})
		add(History{Callers: [][]string{s}})
	}
	for pi, pair := range [][2]string{{SpsA, SpsA}, {SpsA, SpsB}, {FitA, SpsA}} {
		lim, lim2 := 3, 3
		if maxN <= 3 {
			lim = 2 // quick: par[spsA,spsA | spsA] alone has 2*10^5 schedules at bound 1
		}
		if pi > 0 {
			lim, lim2 = 2, 1
		}
		for k1 := 1; k1 <= lim; k1++ {
			for k2 := 0; k1+k2 <= lim && k2 <= lim2; k2++ {
				add(History{Spawn: true, Callers: [][]string{rep(pair[0], k1), rep(pair[1], k2)}})
			}
		}
	}
	return hs
}

// Run performs the history; spawn runs the callers concurrently and waits for all of them.
func (e *Env) Run(h History, spawn func(fns ...func())) []string {
	res := make([][]string, len(h.Callers))
	mk := func(i int) func() {
		return func() {
			for _, k := range h.Callers[i] {
				res[i] = append(res[i], k+"="+e.Call(k))
			}
		}
	}
	if !h.Spawn {
		mk(0)()
	} else {
		var fns []func()
		for i := range h.Callers {
			fns = append(fns, mk(i))
		}
		spawn(fns...)
	}
	var out []string
	for i, r := range res {
		out = append(out, fmt.Sprintf("caller%d: %s", i, strings.Join(r, " ")))
	}
	return out
}
