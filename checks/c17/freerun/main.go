// freerun: supplementary, non-deciding measurement for C17 on the ORIGINAL code, free-running:
// runtime.NumGoroutine() and the live heap before/after batches of 1, 10, 100 single-shot calls.
package main

import (
	"flag"
	"fmt"
	"os"
	"runtime"
	"strings"
	"time"

	"verif/checks/c17/hist"
)

func settle() (int, uint64) {
	// let finished goroutines exit; parked ones stay
	last := -1
	for i := 0; i < 20; i++ {
		runtime.Gosched()
		time.Sleep(2 * time.Millisecond)
		n := runtime.NumGoroutine()
		if n == last {
			break
		}
		last = n
	}
	runtime.GC()
	var ms runtime.MemStats
	runtime.ReadMemStats(&ms)
	return runtime.NumGoroutine(), ms.HeapAlloc
}

func main() {
	kinds := flag.String("kinds", "spsA,spsB,fitA,basm", "call kinds")
	batches := flag.String("batches", "1,10,100", "batch sizes")
	flag.Parse()
	out := os.Stdout
	if f, err := os.OpenFile(os.DevNull, os.O_WRONLY, 0); err == nil {
		os.Stdout = f // the code under test prints warnings
	}
	e := hist.NewEnv()
	for _, k := range strings.Split(*kinds, ",") {
		e.Call(k) // warm up (type registries, lazily built tables) so that the batches measure steady state
		settle()
		var bs []int
		for _, f := range strings.Split(*batches, ",") {
			var n int
			fmt.Sscan(f, &n)
			bs = append(bs, n)
		}
		for _, n := range bs {
			gb, hb := settle()
			for i := 0; i < n; i++ {
				e.Call(k)
			}
			ga, ha := settle()
			fmt.Fprintf(out, "FREE kind=%s batch=%d goroutines_before=%d goroutines_after=%d growth=%d per_call=%.2f heap_growth_bytes=%d heap_per_call=%d\n",
				k, n, gb, ga, ga-gb, float64(ga-gb)/float64(n), int64(ha)-int64(hb), (int64(ha)-int64(hb))/int64(n))
		}
	}
}
