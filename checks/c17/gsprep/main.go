// gsprep prepares the gosched overlay for one check run.
//
//	gsprep -out SCRATCH [-plain PLAIN.json] pkgdir...
//
// It instruments the listed /repo directories (current working tree) with the gosched
// instrumenter and writes SCRATCH/overlay.json.  When VERIF_OVERLAY names an overlay file
// ({"Replace": {"/repo/pkg/x/f.go": "/tmp/.../f.go"}}) the REPLACEMENT content is what gets
// instrumented: the target directories are copied into a shadow tree, replaced files are
// substituted there, the shadow tree is instrumented, and every path is mapped back to /repo.
// Replaced files that need no instrumentation (or live outside the instrumented directories)
// are merged into the overlay unchanged.  -plain additionally writes an overlay holding only
// the VERIF_OVERLAY replacements (for the uninstrumented -race build); the file is always
// written (empty Replace map when VERIF_OVERLAY is unset).
//
// /repo is only read.
package main

import (
	"encoding/json"
	"flag"
	"fmt"
	"os"
	"path/filepath"
	"strings"

	"verif/engines/gosched/instrument"
)

const repo = "/repo"

type overlay struct {
	Replace map[string]string `json:"Replace"`
}

func die(f string, a ...any) {
	fmt.Fprintf(os.Stderr, "gsprep: "+f+"\n", a...)
	os.Exit(2)
}

func main() {
	out := flag.String("out", "", "scratch directory")
	plain := flag.String("plain", "", "also write the plain (uninstrumented) mutant overlay here")
	hook := flag.Bool("hook", false, "add a pre-Simulate hook to pkg/procbuilder (var ZZPreSimulate func(), called by VM.Step right before op.Simulate) so that a harness can make every opcode execution a scheduling point; semantics preserving (nil hook = no-op)")
	flag.Parse()
	if *out == "" || flag.NArg() == 0 {
		die("usage: gsprep -out DIR [-plain FILE] pkgdir...")
	}
	mut := map[string]string{}
	if p := os.Getenv("VERIF_OVERLAY"); p != "" {
		b, err := os.ReadFile(p)
		if err != nil {
			die("VERIF_OVERLAY: %v", err)
		}
		var o overlay
		if err := json.Unmarshal(b, &o); err != nil {
			die("VERIF_OVERLAY %s: %v", p, err)
		}
		for k, v := range o.Replace {
			mut[filepath.Clean(k)] = v
		}
	}
	if *plain != "" {
		b, _ := json.MarshalIndent(overlay{Replace: mut}, "", " ")
		if err := os.WriteFile(*plain, b, 0o644); err != nil {
			die("%v", err)
		}
	}

	shadow := filepath.Join(*out, "shadow")
	instrOut := filepath.Join(*out, "instr")
	must(os.MkdirAll(shadow, 0o755))
	cp(filepath.Join(repo, "go.mod"), filepath.Join(shadow, "go.mod"))
	inDirs := map[string]bool{}
	for _, d := range flag.Args() {
		d = filepath.Clean(d)
		inDirs[filepath.Join(repo, d)] = true
		must(os.MkdirAll(filepath.Join(shadow, d), 0o755))
		ents, err := os.ReadDir(filepath.Join(repo, d))
		if err != nil {
			die("%v", err)
		}
		for _, e := range ents {
			n := e.Name()
			if e.IsDir() || !strings.HasSuffix(n, ".go") || strings.HasSuffix(n, "_test.go") {
				continue
			}
			src := filepath.Join(repo, d, n)
			if r, ok := mut[src]; ok {
				if r == "" { // overlay semantics: empty replacement = file deleted
					continue
				}
				src = r
			}
			cp(src, filepath.Join(shadow, d, n))
		}
		// replaced files that do not exist in /repo (files added by the mutant)
		for k, r := range mut {
			if filepath.Dir(k) == filepath.Join(repo, d) && r != "" {
				if _, err := os.Stat(k); err != nil {
					cp(r, filepath.Join(shadow, d, filepath.Base(k)))
				}
			}
		}
	}

	hooked := false
	if *hook {
		hooked = addHook(filepath.Join(shadow, "pkg/procbuilder"))
	}

	res, err := instrument.Run(instrument.Config{Repo: shadow, Dirs: flag.Args(), Out: instrOut, GsDir: "/verif/engines/gosched/gs"})
	if err != nil {
		die("instrument: %v", err)
	}
	b, err := os.ReadFile(res.Overlay)
	if err != nil {
		die("%v", err)
	}
	var o overlay
	must(json.Unmarshal(b, &o))
	final := map[string]string{}
	for k, v := range o.Replace {
		if rel, ok := strings.CutPrefix(k, shadow+string(filepath.Separator)); ok {
			k = filepath.Join(repo, rel)
		}
		// line directives inside rewritten files point into the shadow tree: point them at /repo
		if strings.HasPrefix(v, instrOut) {
			if src, err := os.ReadFile(v); err == nil && strings.Contains(string(src), shadow) {
				must(os.WriteFile(v, []byte(strings.ReplaceAll(string(src), shadow+"/", repo+"/")), 0o644))
			}
		}
		final[k] = v
	}
	if *hook {
		// the hook file and the hooked vm.go are plain Go (nothing for the instrumenter to rewrite):
		// map them from the shadow tree
		for _, n := range []string{"zz_presimulate_hook.go", "vm.go"} {
			if n == "vm.go" && !hooked {
				continue
			}
			k := filepath.Join(repo, "pkg/procbuilder", n)
			if _, ok := final[k]; !ok {
				final[k] = filepath.Join(shadow, "pkg/procbuilder", n)
			}
		}
	}
	nmut := 0
	for k, r := range mut {
		nmut++
		if _, ok := final[k]; ok {
			continue // instrumented mutated copy already mapped
		}
		final[k] = r // not rewritten by the instrumenter, or outside the instrumented dirs
	}
	js, _ := json.MarshalIndent(overlay{Replace: final}, "", " ")
	dst := filepath.Join(*out, "overlay.json")
	must(os.WriteFile(dst, js, 0o644))
	fmt.Printf("gsprep: parsed %d files, rewrote %d, mutant replacements %d, overlay %s\n", res.Parsed, res.Rewritten, nmut, dst)
	for _, w := range res.Warnings {
		fmt.Println("gsprep: instrumenter warning:", w)
	}
	if *hook {
		fmt.Printf("gsprep: pre-Simulate hook installed: %v\n", hooked)
	}
}

const hookPattern = "if err := op.Simulate(vm, instr[opBits:]); err != nil {"

// addHook edits the SHADOW copy of pkg/procbuilder: a new file declares `var ZZPreSimulate func()`
// and VM.Step calls it (when non-nil) on the line of the op.Simulate call, so line numbers do
// not move.  Returns false (with a warning) when the call site is not found.
func addHook(dir string) bool {
	vmgo := filepath.Join(dir, "vm.go")
	b, err := os.ReadFile(vmgo)
	if err != nil {
		fmt.Println("gsprep: warning: hook: cannot read", vmgo)
		return false
	}
	must(os.WriteFile(filepath.Join(dir, "zz_presimulate_hook.go"), []byte("package procbuilder\n\n// ZZPreSimulate is a verification hook (overlay only, not in the repository): called by VM.Step\n// right before op.Simulate.\nvar ZZPreSimulate func()\n"), 0o644))
	if strings.Count(string(b), hookPattern) != 1 {
		fmt.Println("gsprep: warning: hook: op.Simulate call site not found in pkg/procbuilder/vm.go; ZZPreSimulate is declared but never called")
		return false
	}
	s := strings.Replace(string(b), hookPattern, "if ZZPreSimulate != nil { ZZPreSimulate() }; "+hookPattern, 1)
	must(os.WriteFile(vmgo, []byte(s), 0o644))
	return true
}

func must(err error) {
	if err != nil {
		die("%v", err)
	}
}

func cp(src, dst string) {
	b, err := os.ReadFile(src)
	if err != nil {
		die("%v", err)
	}
	must(os.WriteFile(dst, b, 0o644))
}
