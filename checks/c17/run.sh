#!/bin/bash
# C17 runner: usage  checks/c17/run.sh <quick|thorough> [extra args, e.g. -replay FILE | -v]
# Re-instruments /repo's CURRENT working tree (plus the VERIF_OVERLAY mutant overlay, if set) into a
# fresh scratch dir, builds the harness with -tags gosched -overlay and the free-running
# measurement binary, runs the harness, removes the scratch dir.  /repo is never written.
set -u
cd /verif
. /verif/env.sh
tier="${1:-quick}"; shift || true
S=$(mktemp -d /tmp/verif-c17-XXXXXX) || exit 2
trap 'rm -rf "$S"' EXIT INT TERM
TARGETS="pkg/bondmachine pkg/procbuilder pkg/simbox pkg/bmreqs pkg/basm"
if ! go run ./checks/c17/gsprep -out "$S" -plain "$S/plain.json" $TARGETS > "$S/prep.log" 2>&1; then
  cat "$S/prep.log" >&2; echo "BUILD-FAILED check=C17 (instrumentation failed)" >&2; exit 2
fi
grep -h "warning" "$S/prep.log" >&2
( go build -overlay "$S/plain.json" -o "$S/freerun" ./checks/c17/freerun > "$S/free.buildlog" 2>&1 ) &
freepid=$!
if ! go build -tags gosched -overlay "$S/overlay.json" -o "$S/c17" ./checks/c17 2> "$S/buildlog"; then
  cat "$S/buildlog" >&2; echo "BUILD-FAILED check=C17 (the check could not be built against the current /repo tree)" >&2; exit 2
fi
if ! wait $freepid; then
  cat "$S/free.buildlog" >&2; echo "BUILD-FAILED check=C17 (free-running measurement binary)" >&2; exit 2
fi
"$S/c17" -tier "$tier" -src "$S/shadow" -freebin "$S/freerun" "$@"
exit $?
