package main

import (
	"fmt"
	"regexp"
	"strconv"
	"strings"
)

type Verdict struct {
	Kind     string   // pass | skip | known | violation
	Sigs     []string // known: one per responsible known defect; violation: exactly one
	What     string
	Accepted bool // the assembler produced a machine
	Dynamic  bool // dynamic oracle was applicable and compared
	Writes   int  // number of output value changes in the reference trace (non-triviality)
}

func errClass(r Real) string {
	e := r.Err
	switch {
	case r.Stage == "panic":
		return "panic"
	case strings.Contains(e, "no operator match"):
		return "no-operator-match"
	case strings.Contains(e, "unknown number format"):
		return "unresolved-symbol"
	case strings.Contains(e, "unable to choose"):
		return "ambiguous-alternatives"
	case strings.Contains(e, "entry point"):
		return "entry-point-" + strings.ReplaceAll(strings.TrimPrefix(e, "entry point "), " ", "-")
	case strings.Contains(e, "multiple entry"):
		return "multiple-entry"
	case strings.Contains(e, "specified multiple time"):
		return "duplicate-symbol"
	case strings.Contains(e, "does not fit"):
		return "operand-does-not-fit"
	case strings.Contains(e, "macro"):
		return "macro-error"
	}
	return r.Stage + "-error"
}

// trampoline form: [j entry+1] followed by the program with every code address shifted by one
func trampoline(cp FlatCP) []string {
	out := []string{"j " + strconv.Itoa(cp.Entry+1)}
	for _, in := range cp.Code {
		args := append([]string{}, in.Args...)
		for k, kd := range in.Kinds {
			if kd == "label" || kd == "rom" {
				t, _ := strconv.Atoi(args[k])
				args[k] = strconv.Itoa(t + 1)
			}
		}
		out = append(out, strings.TrimSpace(in.Op+" "+strings.Join(args, " ")))
	}
	return out
}

func eqLines(a, b []string) bool {
	if len(a) != len(b) {
		return false
	}
	for i := range a {
		if a[i] != b[i] {
			return false
		}
	}
	return true
}

func flatLines(cp FlatCP) []string {
	l := make([]string, len(cp.Code))
	for i, in := range cp.Code {
		l[i] = in.String()
	}
	return l
}

func dataWords(r Real, cp int) ([]uint64, bool) {
	var out []uint64
	if cp >= len(r.Data) {
		return nil, true
	}
	for _, w := range r.Data[cp] {
		v, err := strconv.ParseUint(w, 2, 64)
		if err != nil {
			return nil, false
		}
		out = append(out, v)
	}
	return out, true
}

type diff struct {
	class string // "" = equal
	what  string
}

// compare checks the real result against one model prediction. correct=true additionally admits the
// "entry trampoline" realisation (a leading jump to the entry, one idle tick).
func compare(src *Source, r Real, fl *Flat, bugs BugFlags, correct bool) (d diff, dynamic bool, writes int) {
	accepted := r.Stage == "ok"
	if fl.Reject != "" {
		if !accepted {
			if fl.RejectClass != "" && errClass(r) != fl.RejectClass {
				return diff{"reject|rejected-for-an-unexpected-reason|" + errClass(r), fmt.Sprintf("rejected at stage %s with %q; the model expected a %s rejection", r.Stage, r.Err, fl.RejectClass)}, false, 0
			}
			return diff{}, false, 0
		}
		return diff{"accept|source-expected-to-be-rejected-was-assembled", "model predicts rejection (" + fl.Reject + ") but the assembler produced a machine"}, false, 0
	}
	if !accepted {
		return diff{"reject|well-formed-source-rejected|" + errClass(r), fmt.Sprintf("well-formed source rejected at stage %s: %s", r.Stage, r.Err)}, false, 0
	}
	if len(r.Disasm) != len(fl.CPs) {
		return diff{"static|cp-count-differs", fmt.Sprintf("%d CPs assembled, %d declared", len(r.Disasm), len(fl.CPs))}, false, 0
	}
	if r.Rsize != src.Rsize {
		return diff{"static|register-size-differs", fmt.Sprintf("machine rsize %d, declared %d", r.Rsize, src.Rsize)}, false, 0
	}
	start := make([]int, len(fl.CPs))
	delay := make([]int, len(fl.CPs))
	handshake := false
	for ci, cp := range fl.CPs {
		// the assembler numbers the CPs by name, not by declaration order: match by name
		i := -1
		for k, n := range r.CPNames {
			if n == cp.Name {
				i = k
			}
		}
		if i < 0 {
			return diff{"static|cp-missing", "no processor named " + cp.Name + " in the machine"}, false, 0
		}
		want := flatLines(cp)
		got := r.Disasm[i]
		tramp := false
		if !eqLines(got, want) {
			if correct && cp.Entry != 0 && eqLines(got, trampoline(cp)) {
				tramp = true
			} else {
				return staticDiff(cp, got), false, 0
			}
		}
		// recorded entry (the assembler's own body meta "entry")
		if cp.EntryOK {
			gotE := ""
			if i < len(r.Entry) {
				gotE = r.Entry[i]
			}
			okE := gotE == strconv.Itoa(cp.Entry) || (tramp && gotE == strconv.Itoa(cp.Entry+1))
			if !okE {
				return diff{"entry|recorded-entry-index-wrong", fmt.Sprintf("cp %s: section meta entry=%q, the entry label is instruction %d", cp.Name, gotE, cp.Entry)}, false, 0
			}
		}
		// ROM data
		gotD, okD := dataWords(r, i)
		if !okD || len(gotD) != len(cp.Data) {
			return diff{"data|rom-data-differs", fmt.Sprintf("cp %s: rom data %v, declared %v", cp.Name, r.Data[i], cp.Data)}, false, 0
		}
		for k := range gotD {
			if gotD[k] != cp.Data[k] {
				return diff{"data|rom-data-differs", fmt.Sprintf("cp %s: rom data %v, declared %v", cp.Name, r.Data[i], cp.Data)}, false, 0
			}
		}
		if cp.Handshake {
			handshake = true
		}
		start[ci] = cp.Entry
		if bugs&BugEntryAtZero != 0 {
			start[ci] = 0
		}
		if tramp {
			delay[ci] = 1
		}
	}
	w := buildWiring(src)
	if r.NOut != w.nOut || r.NIn != w.nIn {
		return diff{"wiring|bm-io-count-differs", fmt.Sprintf("machine has %d in/%d out, the ioatt lines declare %d in/%d out", r.NIn, r.NOut, w.nIn, w.nOut)}, false, 0
	}
	if handshake {
		// timing-independent comparison: the sequence of values each BM output takes must be a
		// prefix of the sequence the blocking-send/blocking-receive semantics produces
		want := InterpretKahn(src, fl, start, 40*Ticks)
		if want == nil || len(r.Trace) == 0 {
			return diff{}, false, 0
		}
		for k := range want {
			got := []uint64{0}
			for t := range r.Trace {
				if v := r.Trace[t][k]; v != got[len(got)-1] {
					got = append(got, v)
				}
			}
			for j := range got {
				if j >= len(want[k]) || got[j] != want[k][j] {
					return diff{"dynamic|handshaked-output-sequence-differs-although-program-matches", fmt.Sprintf("bm output %d takes the values %v, blocking send/receive semantics gives %v", k, got, want[k])}, true, 0
				}
			}
			writes += len(got) - 1
		}
		return diff{}, true, writes
	}
	ref := Interpret(src, fl, start, delay, Ticks)
	for t := range ref {
		if t >= len(r.Trace) {
			return diff{"dynamic|simulation-stopped-early", "the VM produced fewer ticks than requested: " + r.SimNote}, true, 0
		}
		for k := range ref[t] {
			if ref[t][k] != r.Trace[t][k] {
				return diff{"dynamic|output-stream-differs-although-program-matches", fmt.Sprintf("tick %d bm output %d: VM %d, reference %d (ref %v | vm %v)", t, k, r.Trace[t][k], ref[t][k], col(ref, k), col(r.Trace[:len(ref)], k))}, true, 0
			}
		}
	}
	prev := make([]uint64, w.nOut)
	for t := range ref {
		for k := range ref[t] {
			if ref[t][k] != prev[k] {
				writes++
			}
			prev[k] = ref[t][k]
		}
	}
	return diff{}, true, writes
}

func col(tr [][]uint64, k int) []uint64 {
	out := make([]uint64, len(tr))
	for t := range tr {
		out[t] = tr[t][k]
	}
	return out
}

var reNum = regexp.MustCompile(`^[0-9]+$`)

func popcount(x BugFlags) int {
	c := 0
	for ; x != 0; x &= x - 1 {
		c++
	}
	return c
}

// staticDiff classifies the first difference between the disassembly and the reference flattening;
// the class names the pass responsible.
func staticDiff(cp FlatCP, got []string) diff {
	want := flatLines(cp)
	if len(got) != len(want) {
		return diff{"flatten|instruction-count-differs", fmt.Sprintf("cp %s: %d instructions assembled, the source denotes %d (got %v want %v)", cp.Name, len(got), len(want), got, want)}
	}
	for i := range want {
		if got[i] == want[i] {
			continue
		}
		g := strings.Fields(got[i])
		in := cp.Code[i]
		what := fmt.Sprintf("cp %s instruction %d: assembled %q, the source denotes %q", cp.Name, i, got[i], want[i])
		if len(g) == 0 || g[0] != in.Op {
			if in.Pseudo {
				return diff{"pseudo|resolved-to-wrong-opcode", what}
			}
			return diff{"static|wrong-opcode", what}
		}
		if len(g)-1 != len(in.Args) {
			return diff{"static|operand-count-differs", what}
		}
		for k := range in.Args {
			if g[k+1] == in.Args[k] {
				continue
			}
			switch in.Kinds[k] {
			case "label":
				return diff{"label-resolution|jump-target-index-wrong", what}
			case "lit":
				if in.Op == "j" || in.Op == "jz" {
					return diff{"label-resolution|numeric-jump-target-changed", what}
				}
				return diff{"literal|wrong-value-loaded", what}
			case "rom":
				return diff{"data|data-symbol-address-wrong", what}
			default:
				return diff{"operand|wrong-register-or-port", what}
			}
		}
	}
	return diff{"static|unknown-difference", "disassembly differs"}
}

// Judge decides one evaluated source.
func Judge(text string, r Real) Verdict {
	src, err := ParseSource(text)
	if err != nil {
		return Verdict{Kind: "skip", What: "outside the subset: " + err.Error()}
	}
	if ok, why := WellFormed(src); !ok {
		return Verdict{Kind: "skip", What: "not well-formed: " + why, Accepted: r.Stage == "ok"}
	}
	accepted := r.Stage == "ok"
	correct := Flatten(src, 0)
	d0, dyn, writes := compare(src, r, correct, 0, true)
	if d0.class == "" {
		return Verdict{Kind: "pass", Accepted: accepted, Dynamic: dyn, Writes: writes}
	}
	// which known defects can matter for this source at all
	asis := Flatten(src, BugFlags(1<<bugAll-1))
	relevant := asis.Fired | BugEntryAtZero
	var matches []BugFlags
	matchSize := -1
	for _, s := range subsetsBySize(relevant) {
		if s == 0 {
			continue
		}
		if matchSize >= 0 && popcount(s) > matchSize {
			break
		}
		fl := Flatten(src, s)
		if fl.Fired&^BugEntryAtZero != s&^BugEntryAtZero {
			// some flag of s had no effect: a smaller subset already covers it
			continue
		}
		if d, _, _ := compare(src, r, fl, s, false); d.class == "" {
			matches = append(matches, s)
			matchSize = popcount(s)
		}
	}
	if len(matches) == 1 {
		v := Verdict{Kind: "known", Accepted: accepted}
		for _, b := range bugList(matches[0]) {
			v.Sigs = append(v.Sigs, bugSignature[b])
		}
		v.What = "behaviour explained by known defect(s) " + strings.Join(v.Sigs, " + ") + "; vs correct semantics: " + d0.what
		return v
	}
	if len(matches) > 1 {
		// several known defects are each sufficient to explain this source: it is not used as a
		// witness of any of them (each defect has witnesses where it is the only explanation)
		return Verdict{Kind: "known-ambiguous", Accepted: accepted, What: d0.what}
	}
	// not explained by any combination of known defects: classify against the as-is model when it
	// predicts an accepted program (isolates the new deviation), else against the correct one
	dd := d0
	if asis.Reject == "" && asis.Fired != 0 {
		if d, _, _ := compare(src, r, asis, BugFlags(1<<bugAll-1), false); d.class != "" {
			dd = d
		}
	} else if asis.Reject == "" {
		if d, _, _ := compare(src, r, asis, BugEntryAtZero, false); d.class != "" {
			dd = d
		}
	}
	return Verdict{Kind: "violation", Sigs: []string{"C05|" + dd.class}, What: dd.what, Accepted: accepted}
}
