package main

// Exhaustive bounded enumeration of BASM sources, by families. Every family is a full cross
// product inside its own stated bounds (no sampling). emit(src, class) receives the source text and
// its (shape, features) class.

import (
	"fmt"
	"strings"
)

type emitFn func(src, class string)

type secText struct {
	name   string
	kind   string // .romtext / .romdata
	iomode string
	lines  []string
}

func renderSource(config string, macros []string, macrosAfter bool, secs []secText, metas []string, rsize int) string {
	var b strings.Builder
	if config != "" {
		b.WriteString("; c05-config: " + config + "\n")
	}
	wm := func() {
		for _, m := range macros {
			b.WriteString(m)
		}
	}
	if !macrosAfter {
		wm()
	}
	for _, s := range secs {
		if s.kind == ".romdata" {
			b.WriteString("%section " + s.name + " .romdata\n")
		} else {
			if s.iomode == "" {
				b.WriteString("%section " + s.name + " .romtext\n")
			} else {
				b.WriteString("%section " + s.name + " .romtext iomode:" + s.iomode + "\n")
			}
		}
		for _, l := range s.lines {
			if strings.HasSuffix(l, ":") {
				b.WriteString(l + "\n")
			} else {
				b.WriteString("\t" + l + "\n")
			}
		}
		b.WriteString("%endsection\n")
	}
	if macrosAfter {
		wm()
	}
	for _, m := range metas {
		b.WriteString("%meta " + m + "\n")
	}
	b.WriteString(fmt.Sprintf("%%meta bmdef global registersize:%d\n", rsize))
	return b.String()
}

func macroText(name string, nargs int, body []string) string {
	s := fmt.Sprintf("%%macro %s %d\n", name, nargs)
	for _, l := range body {
		s += "\t" + l + "\n"
	}
	return s + "%endmacro\n"
}

// single CP "p0" running section "prog": outputs o0..o(nOut-1) to bm outputs (optionally swapped),
// inputs i0..i(nIn-1) from bm inputs
func metas1(nOut, nIn int, swap bool, data string) []string {
	cp := "cpdef p0 romcode: prog, ramsize:8"
	if data != "" {
		cp = "cpdef p0 romcode: prog, romdata: " + data + ", ramsize:8"
	}
	m := []string{cp}
	for k := 0; k < nOut; k++ {
		bk := k
		if swap && nOut == 2 {
			bk = 1 - k
		}
		m = append(m, fmt.Sprintf("ioatt lo%d cp: p0, index:%d, type:output", k, k))
		m = append(m, fmt.Sprintf("ioatt lo%d cp: bm, index:%d, type:output", k, bk))
	}
	for k := 0; k < nIn; k++ {
		m = append(m, fmt.Sprintf("ioatt li%d cp: p0, index:%d, type:input", k, k))
		m = append(m, fmt.Sprintf("ioatt li%d cp: bm, index:%d, type:input", k, k))
	}
	return m
}

var labelNames = []string{"la", "lb", "lc"}

// ---------- family A: control-flow skeletons: labels x entry x jump targets ----------
//
// n instructions over the alphabet {inc r0, r2o r0,o0, j L [, jz r0,L]}; l labels (1..maxL) placed
// on every multiset of instruction positions (two labels on one line, label on the last line
// included); the entry directive at every line position (before each labelled unit, between the
// labels and their instruction, after the last line) naming every label; jump targets over all
// labels. Pruning (canonical forms): labels are named in position order; every label is referenced
// (by entry or by a jump); for n>=3 at least one r2o (otherwise no observable stream).
func genControlFlow(emit emitFn, n, maxL int, withJz bool, entryAll bool, rsize int) {
	for l := 1; l <= maxL; l++ {
		// label positions: nondecreasing sequences of length l over 0..n-1
		pos := make([]int, l)
		var placements [][]int
		var rec func(k, from int)
		rec = func(k, from int) {
			if k == l {
				placements = append(placements, append([]int{}, pos...))
				return
			}
			for p := from; p < n; p++ {
				pos[k] = p
				rec(k+1, p)
			}
		}
		rec(0, 0)
		// alphabet
		alpha := []string{"inc r0", "r2o r0, o0"}
		for k := 0; k < l; k++ {
			alpha = append(alpha, "j "+labelNames[k])
		}
		if withJz {
			for k := 0; k < l; k++ {
				alpha = append(alpha, "jz r0, "+labelNames[k])
			}
		}
		fill := make([]int, n)
		for _, pl := range placements {
			var recFill func(k int)
			recFill = func(k int) {
				if k < n {
					for a := range alpha {
						fill[k] = a
						recFill(k + 1)
					}
					return
				}
				hasOut := false
				used := make([]bool, l)
				for _, a := range fill {
					if a == 1 {
						hasOut = true
					}
					if a >= 2 {
						used[(a-2)%l] = true
					}
				}
				if n >= 3 && !hasOut {
					return
				}
				// entry positions: 0..n-1 = before unit k ; n = end ; 100+k = between labels and instr k
				var epos []int
				for k := 0; k <= n; k++ {
					epos = append(epos, k)
				}
				for k := 0; k < n; k++ {
					for _, p := range pl {
						if p == k {
							epos = append(epos, 100+k)
							break
						}
					}
				}
				if !entryAll {
					// first, one middle, last, and the first "inside" position
					var e2 []int
					e2 = append(e2, 0)
					if n >= 2 {
						e2 = append(e2, (n+1)/2)
					}
					e2 = append(e2, n)
					for _, e := range epos {
						if e >= 100 {
							e2 = append(e2, e)
							break
						}
					}
					epos = e2
				}
				for el := 0; el < l; el++ {
					ok := true
					for k := 0; k < l; k++ {
						if !used[k] && k != el {
							ok = false
						}
					}
					if !ok {
						continue
					}
					for _, ep := range epos {
						var lines []string
						for k := 0; k < n; k++ {
							if ep == k {
								lines = append(lines, "entry "+labelNames[el])
							}
							for li, p := range pl {
								if p == k {
									lines = append(lines, labelNames[li]+":")
								}
							}
							if ep == 100+k {
								lines = append(lines, "entry "+labelNames[el])
							}
							lines = append(lines, alpha[fill[k]])
						}
						if ep == n {
							lines = append(lines, "entry "+labelNames[el])
						}
						ek := "first"
						switch {
						case ep >= 100:
							ek = "after-label"
						case ep == n:
							ek = "last"
						case ep > 0:
							ek = "middle"
						}
						ops := map[string]bool{}
						for _, a := range fill {
							ops[strings.Fields(alpha[a])[0]] = true
						}
						class := fmt.Sprintf("cf|n%d|labels@%v|entry-%s->%d|ops%s|r%d", n, pl, ek, pl[el], keys(ops), rsize)
						emit(renderSource("", nil, false, []secText{{"prog", ".romtext", "async", lines}}, metas1(1, 0, false, ""), rsize), class)
					}
				}
			}
			recFill(0)
		}
	}
}

func keys(m map[string]bool) string {
	var k []string
	for _, n := range []string{"inc", "r2o", "j", "jz", "rset", "mov", "add", "dec", "clr", "cpy", "nop", "i2r", "jmp"} {
		if m[n] {
			k = append(k, n)
		}
	}
	return "[" + strings.Join(k, ",") + "]"
}

// ---------- family A2: longer programs (5..6 instructions), marker fill ----------
// non-jump slots alternate inc/r2o; up to 2 jump slots at every position pair; l labels at every
// placement; entry first/last naming every label.
func genLong(emit emitFn, n, maxL int) {
	for l := 1; l <= maxL; l++ {
		pos := make([]int, l)
		var placements [][]int
		var rec func(k, from int)
		rec = func(k, from int) {
			if k == l {
				placements = append(placements, append([]int{}, pos...))
				return
			}
			for p := from; p < n; p++ { // strictly distinct lines here: canonical pruning
				pos[k] = p
				rec(k+1, p+1)
			}
		}
		rec(0, 0)
		for _, pl := range placements {
			for j1 := 0; j1 < n; j1++ {
				for j2 := j1; j2 < n; j2++ { // j2==j1: a single jump
					for t1 := 0; t1 < l; t1++ {
						for t2 := 0; t2 < l; t2++ {
							if j2 == j1 && t2 != 0 {
								continue
							}
							for el := 0; el < l; el++ {
								used := make([]bool, l)
								used[t1] = true
								if j2 != j1 {
									used[t2] = true
								}
								used[el] = true
								all := true
								for _, u := range used {
									all = all && u
								}
								if !all {
									continue
								}
								for _, ep := range []int{0, n} {
									var lines []string
									mark := 0
									if ep == 0 {
										lines = append(lines, "entry "+labelNames[el])
									}
									for k := 0; k < n; k++ {
										for li, p := range pl {
											if p == k {
												lines = append(lines, labelNames[li]+":")
											}
										}
										switch {
										case k == j1:
											lines = append(lines, "j "+labelNames[t1])
										case k == j2:
											lines = append(lines, "jz r1, "+labelNames[t2])
										default:
											if mark%2 == 0 {
												lines = append(lines, "inc r0")
											} else {
												lines = append(lines, "r2o r0, o0")
											}
											mark++
										}
									}
									if ep == n {
										lines = append(lines, "entry "+labelNames[el])
									}
									ek := "first"
									if ep == n {
										ek = "last"
									}
									class := fmt.Sprintf("long|n%d|labels@%v|entry-%s->%d|jumps@%d,%d", n, pl, ek, pl[el], j1, j2)
									emit(renderSource("", nil, false, []secText{{"prog", ".romtext", "async", lines}}, metas1(1, 0, false, ""), 8), class)
								}
							}
						}
					}
				}
			}
		}
	}
}

// ---------- family B: instruction forms, pseudo instructions, operands ----------
// init r0,r1 ; X1..Xk over the full operand-instantiated alphabet ; publish r0->o0, r1->o1 ; halt loop
func instrAlphabet(rsize int) (plain []string, needNodyn []string) {
	regs := []string{"r0", "r1"}
	for _, a := range regs {
		plain = append(plain, "inc "+a, "dec "+a, "clr "+a, "i2r "+a+", i0", "mov "+a+", i0", "rset "+a+", 0x11")
		needNodyn = append(needNodyn, "mov "+a+", 0x11")
		for _, b := range regs {
			plain = append(plain, "add "+a+", "+b)
			if a != b {
				plain = append(plain, "cpy "+a+", "+b, "mov "+a+", "+b)
			}
		}
	}
	plain = append(plain, "nop")
	return
}

func genForms(emit emitFn, k int, rsizes []int) {
	for _, rsize := range rsizes {
		plain, nodyn := instrAlphabet(rsize)
		all := append(append([]string{}, plain...), nodyn...)
		idx := make([]int, k)
		var rec func(d int)
		rec = func(d int) {
			if d < k {
				for a := range all {
					idx[d] = a
					rec(d + 1)
				}
				return
			}
			config := ""
			ops := map[string]bool{}
			var mid []string
			for _, a := range idx {
				if a >= len(plain) {
					config = "nodyn"
				}
				mid = append(mid, all[a])
				ops[formKey(all[a])] = true
			}
			lines := []string{"entry st", "st:", "rset r0, 0x35", "rset r1, 0x0a"}
			lines = append(lines, mid...)
			lines = append(lines, "r2o r0, o0", "mov o1, r1", "hl:", "j hl")
			var ok []string
			for o := range ops {
				ok = append(ok, o)
			}
			sortStrings(ok)
			class := fmt.Sprintf("forms|k%d|%s|r%d|%s", k, strings.Join(ok, "+"), rsize, config)
			emit(renderSource(config, nil, false, []secText{{"prog", ".romtext", "async", lines}}, metas1(2, 1, false, ""), rsize), class)
		}
		rec(0)
	}
}

// formKey: mnemonic plus operand kinds, e.g. "mov reg,in"
func formKey(instr string) string {
	f := strings.SplitN(instr, " ", 2)
	if len(f) == 1 {
		return f[0]
	}
	var ks []string
	for _, a := range splitArgs(f[1]) {
		switch {
		case reReg.MatchString(a):
			ks = append(ks, "reg")
		case reIn.MatchString(a):
			ks = append(ks, "in")
		case reOut.MatchString(a):
			ks = append(ks, "out")
		default:
			ks = append(ks, "num")
		}
	}
	return f[0] + " " + strings.Join(ks, ",")
}

func sortStrings(s []string) {
	for i := 1; i < len(s); i++ {
		for j := i; j > 0 && s[j] < s[j-1]; j-- {
			s[j], s[j-1] = s[j-1], s[j]
		}
	}
}

// ---------- family B2: numeric literals x notation x register size; sync/async mov; wiring swap ----------
func genLiterals(emit emitFn) {
	for _, rsize := range []int{8, 16, 32} {
		max := uint64(1)<<uint(rsize) - 1
		vals := []uint64{0, 1, 5, 10, 37, 128, 255, max, max - 1, max/2 + 1}
		seen := map[uint64]bool{}
		for _, v := range vals {
			if seen[v] {
				continue
			}
			seen[v] = true
			nots := []string{fmt.Sprintf("%d", v), fmt.Sprintf("0x%x", v), fmt.Sprintf("0x%X", v), fmt.Sprintf("0x0%x", v), fmt.Sprintf("0b%b", v), fmt.Sprintf("0b0%b", v)}
			// 0d / 0u notations: avoid the spellings bmnumbers parses ambiguously (C08): >=3 digits ending in 0
			ds := fmt.Sprintf("%d", v)
			if !(len(ds) >= 3 && strings.HasSuffix(ds, "0")) {
				nots = append(nots, "0d"+ds, "0u"+ds)
			}
			for ni, nt := range nots {
				for _, form := range []string{"rset", "mov"} {
					for _, swap := range []bool{false, true} {
						config := ""
						if form == "mov" {
							config = "nodyn"
						}
						lines := []string{"entry st", "st:", form + " r0, " + nt, "rset r1, 3", "r2o r0, o0", "r2o r1, o1", "hl:", "j hl"}
						class := fmt.Sprintf("literal|%s|notation%d|r%d|swap%v|val-class%d", form, ni, rsize, swap, litClass(v, max))
						emit(renderSource(config, nil, false, []secText{{"prog", ".romtext", "async", lines}}, metas1(2, 0, swap, ""), rsize), class)
					}
				}
			}
		}
		// sync sections: pseudo mov must resolve to the handshaked opcodes (static oracle only)
		for _, body := range [][]string{
			{"mov o0, r0"}, {"mov r0, i0"}, {"mov r0, i0", "mov o0, r0"}, {"r2owa r0, o0"}, {"i2rw r0, i0"}, {"i2rw r1, i0", "r2owa r1, o0"},
		} {
			lines := append([]string{"entry st", "st:", "rset r0, 1"}, body...)
			lines = append(lines, "hl:", "j hl")
			emit(renderSource("", nil, false, []secText{{"prog", ".romtext", "sync", lines}}, metas1(1, 1, false, ""), rsize), fmt.Sprintf("sync-static|%v|r%d", body, rsize))
		}
	}
}

func litClass(v, max uint64) int {
	switch {
	case v == 0:
		return 0
	case v == max:
		return 3
	case v > max/2:
		return 2
	}
	return 1
}

// ---------- family C: macros ----------
type macroDef struct {
	nargs int
	body  []string
	call  string // how it is invoked (arguments)
	tag   string
}

func genMacros(emit emitFn, thorough bool) {
	defs := []macroDef{
		{0, []string{"inc r0"}, "m", "0args-1line"},
		{0, []string{"inc r0", "r2o r0, o0"}, "m", "0args-2lines"},
		{1, []string{"inc %1"}, "m r0", "1arg-reg"},
		{1, []string{"inc %1", "r2o %1, o0"}, "m r0", "1arg-reg-2lines"},
		{1, []string{"j %1"}, "m la", "1arg-label"},
		{1, []string{"inc r0", "r2o r0, o0"}, "m r0", "1arg-unused"},
		{2, []string{"add %1, %2"}, "m r0, r1", "2args-regs"},
		{2, []string{"rset %1, %2", "r2o %1, o0"}, "m r0, 7", "2args-reg-literal"},
	}
	nests := []string{"none", "first", "last"}
	for di, d := range defs {
		for _, nest := range nests {
			body := append([]string{}, d.body...)
			var macros []string
			switch nest {
			case "first":
				body = append([]string{"n"}, body...)
			case "last":
				if d.tag == "1arg-label" {
					continue // nothing may follow the jump usefully; still legal but redundant
				}
				body = append(body, "n")
			}
			macros = append(macros, macroText("m", d.nargs, body))
			if nest != "none" {
				macros = append(macros, macroText("n", 0, []string{"inc r1"}))
			}
			// base program: entry la / la: rset r1, 2 / B0 / B1 / r2o r0,o0 / r2o r1,o1 / lb: j lb|la
			base := []string{"rset r1, 2", "inc r0"}
			// call sites: gaps 0..2 (before base[0], between, after base[1]); 0,1,2 uses
			type use struct{ g []int }
			uses := []use{{nil}}
			for g := 0; g <= 2; g++ {
				uses = append(uses, use{[]int{g}})
			}
			for g1 := 0; g1 <= 2; g1++ {
				for g2 := g1; g2 <= 2; g2++ {
					uses = append(uses, use{[]int{g1, g2}})
				}
			}
			for _, u := range uses {
				for _, lblBefore := range []bool{false, true} {
					if lblBefore && len(u.g) == 0 {
						continue
					}
					for _, after := range []bool{false, true} {
						if after && !thorough && di%2 == 1 {
							continue
						}
						for _, loop := range []string{"lb", "la"} {
							if loop == "la" && !thorough {
								continue
							}
							lines := []string{"entry la", "la:"}
							if u.g != nil && u.g[0] == 0 && !lblBefore {
								// the entry label itself sits on the call line
							}
							first := true
							put := func(g int) {
								for _, x := range u.g {
									if x == g {
										if lblBefore && first {
											lines = append(lines, "lc:")
										}
										first = false
										lines = append(lines, d.call)
									}
								}
							}
							put(0)
							lines = append(lines, base[0])
							put(1)
							lines = append(lines, base[1])
							put(2)
							lines = append(lines, "r2o r0, o0", "r2o r1, o1", "lb:")
							if lblBefore {
								lines = append(lines, "jz r1, lc")
							}
							lines = append(lines, "j "+loop)
							class := fmt.Sprintf("macro|%s|nest-%s|uses@%v|label-before-call:%v|defined-after:%v|loop-%s", d.tag, nest, u.g, lblBefore, after, loop)
							emit(renderSource("", macros, after, []secText{{"prog", ".romtext", "async", lines}}, metas1(2, 0, false, ""), 8), class)
						}
					}
				}
			}
		}
	}
	// one macro shared by two sections / two CPs
	for _, d := range defs[:4] {
		macros := []string{macroText("m", d.nargs, d.body)}
		for _, u0 := range []int{0, 1, 2} {
			for _, u1 := range []int{0, 1, 2} {
				mk := func(u int, seed string) []string {
					l := []string{"entry la", "la:", "rset r0, " + seed}
					for k := 0; k < u; k++ {
						l = append(l, d.call)
						l = append(l, "nop")
					}
					return append(l, "r2o r0, o0", "lb:", "j lb")
				}
				secs := []secText{{"pa", ".romtext", "async", mk(u0, "3")}, {"pb", ".romtext", "async", mk(u1, "9")}}
				metas := []string{"cpdef p0 romcode: pa, ramsize:8", "cpdef p1 romcode: pb, ramsize:8",
					"ioatt l0 cp: p0, index:0, type:output", "ioatt l0 cp: bm, index:0, type:output",
					"ioatt l1 cp: p1, index:0, type:output", "ioatt l1 cp: bm, index:1, type:output"}
				emit(renderSource("", macros, false, secs, metas, 8), fmt.Sprintf("macro-shared|%s|uses%d,%d", d.tag, u0, u1))
			}
		}
	}
}

// ---------- family D: data sections ----------
func genData(emit emitFn) {
	layouts := [][][]string{
		{{"v1", "0x01"}},
		{{"v1", "0x01, 0x02"}, {"v2", "0x07"}},
		{{"v1", "0x01, 0x02, 0x03"}, {"v2", "0x07"}, {"v3", "0xff, 0x10"}},
		{{"v1", "7"}, {"v2", "0b101, 0d9"}},
		// the repeat form N:db (the whole list N times), with one and with several distinct bytes, followed by more data
		{{"v1", "0x11, 0x22", "2"}, {"v2", "0x07"}},
		{{"v1", "0x05", "4"}, {"v2", "0x01, 0x02, 0x03", "3"}, {"v3", "0x44"}},
	}
	for li, lay := range layouts {
		var dl []string
		var names []string
		for _, v := range lay {
			if len(v) > 2 {
				dl = append(dl, v[0]+" "+v[2]+":db "+v[1])
			} else {
				dl = append(dl, v[0]+" db "+v[1])
			}
			names = append(names, v[0])
		}
		for pad := 0; pad <= 2; pad++ {
			for _, form := range []string{"mov", "rset"} {
				for _, n1 := range names {
					for _, n2 := range names {
						for _, dataFirst := range []bool{false, true} {
							lines := []string{"entry st", "st:"}
							for k := 0; k < pad; k++ {
								lines = append(lines, "nop")
							}
							lines = append(lines, form+" r0, rom:"+n1, "r2o r0, o0", form+" r1, rom:"+n2, "r2o r1, o1", "hl:", "j hl")
							secs := []secText{{"prog", ".romtext", "async", lines}, {"dat", ".romdata", "", dl}}
							if dataFirst {
								secs[0], secs[1] = secs[1], secs[0]
							}
							emit(renderSource("", nil, false, secs, metas1(2, 0, false, "dat"), 8),
								fmt.Sprintf("data|layout%d|pad%d|%s|%s,%s|datafirst:%v", li, pad, form, n1, n2, dataFirst))
						}
					}
				}
			}
		}
	}
}

// ---------- family D2: sections reused by several CPs ----------
// Two or three CPs run the SAME code section, each with its own data section (the same symbol names, different
// bytes and lengths), or the same data section under different code sections.
func genSharedSections(emit emitFn) {
	code := []string{"entry st", "st:", "mov r0, rom:v1", "r2o r0, o0", "mov r1, rom:v2", "r2o r1, o1", "hl:", "j hl"}
	code2 := []string{"entry st", "st:", "nop", "mov r0, rom:v2", "r2o r0, o0", "mov r1, rom:v1", "r2o r1, o1", "hl:", "j hl"}
	datas := [][]string{
		{"v1 db 0x11", "v2 db 0x12"},
		{"v1 db 0x21, 0x22", "v2 db 0x23"},
		{"v0 db 0x30", "v1 db 0x31", "v2 db 0x32, 0x33"},
	}
	io := func(cp string, base int) []string {
		return []string{
			fmt.Sprintf("ioatt l%sa cp: %s, index:0, type:output", cp, cp), fmt.Sprintf("ioatt l%sa cp: bm, index:%d, type:output", cp, base),
			fmt.Sprintf("ioatt l%sb cp: %s, index:1, type:output", cp, cp), fmt.Sprintf("ioatt l%sb cp: bm, index:%d, type:output", cp, base+1),
		}
	}
	for ncp := 2; ncp <= 3; ncp++ {
		for _, order := range []int{0, 1} {
			// same code, own data
			secs := []secText{{"prog", ".romtext", "async", code}}
			var metas []string
			for c := 0; c < ncp; c++ {
				d := c
				if order == 1 {
					d = ncp - 1 - c
				}
				secs = append(secs, secText{fmt.Sprintf("dat%d", d), ".romdata", "", datas[d]})
			}
			for c := 0; c < ncp; c++ {
				metas = append(metas, fmt.Sprintf("cpdef p%d romcode: prog, romdata: dat%d, ramsize:8", c, c))
				metas = append(metas, io(fmt.Sprintf("p%d", c), 2*c)...)
			}
			emit(renderSource("", nil, false, secs, metas, 8), fmt.Sprintf("shared|same-code-own-data|cps%d|data-order%d", ncp, order))
		}
	}
	// same data, own code
	secs := []secText{{"proga", ".romtext", "async", code}, {"progb", ".romtext", "async", code2}, {"dat", ".romdata", "", datas[1]}}
	metas := []string{"cpdef p0 romcode: proga, romdata: dat, ramsize:8", "cpdef p1 romcode: progb, romdata: dat, ramsize:8"}
	metas = append(metas, io("p0", 0)...)
	metas = append(metas, io("p1", 2)...)
	emit(renderSource("", nil, false, secs, metas, 8), "shared|own-code-same-data|cps2")
	// same code and same data
	secs = []secText{{"prog", ".romtext", "async", code}, {"dat", ".romdata", "", datas[2]}}
	metas = []string{"cpdef p0 romcode: prog, romdata: dat, ramsize:8", "cpdef p1 romcode: prog, romdata: dat, ramsize:8"}
	metas = append(metas, io("p0", 0)...)
	metas = append(metas, io("p1", 2)...)
	emit(renderSource("", nil, false, secs, metas, 8), "shared|same-code-same-data|cps2")
}

// ---------- family E: two CPs wired by ioatt ----------
func genTwoCP(emit emitFn, thorough bool) {
	producers := [][]string{
		{"entry la", "la:", "rset r0, 5", "lb:", "inc r0", "r2o r0, o0", "j lb"},
		{"entry la", "la:", "inc r0", "mov o0, r0", "j la"},
		{"lb:", "rset r0, 9", "entry la", "la:", "inc r0", "r2o r0, o0", "j la"}, // entry != line 0
		{"entry la", "la:", "rset r0, 0x40", "lb:", "r2o r0, o0", "add r0, r0", "jz r0, la", "j lb"},
	}
	consumers := [][]string{
		{"entry la", "la:", "i2r r0, i0", "r2o r0, o0", "j la"},
		{"entry la", "la:", "mov r0, i0", "inc r0", "mov o0, r0", "j la"},
		{"lb:", "j lb", "entry la", "la:", "i2r r1, i0", "r2o r1, o0", "j la"}, // entry != line 0
		{"entry lb", "la:", "inc r1", "lb:", "i2r r0, i0", "add r0, r1", "r2o r0, o0", "j la"},
	}
	rsizes := []int{8}
	if thorough {
		rsizes = []int{8, 16, 32}
	}
	for pi, p := range producers {
		for ci, c := range consumers {
			for _, cpOrder := range []int{0, 1} { // which cpdef comes first
				for _, secOrder := range []int{0, 1} {
					for _, endOrder := range []int{0, 1} { // driver or reader endpoint listed first
						for _, bmIdx := range []int{0, 1} { // consumer published on bm output 0 or 1 (producer's o1 on the other)
							for _, rsize := range rsizes {
								pl := append([]string{}, p...)
								if bmIdx == 1 {
									// producer also publishes r0 on its o1 -> bm output 0
									for i, l := range pl {
										if strings.HasPrefix(l, "j ") && i == len(pl)-1 {
											pl = append(append(append([]string{}, pl[:i]...), "r2o r0, o1"), pl[i:]...)
											break
										}
									}
								}
								secs := []secText{{"pa", ".romtext", "async", pl}, {"pb", ".romtext", "async", c}}
								if secOrder == 1 {
									secs[0], secs[1] = secs[1], secs[0]
								}
								prodName, consName := "p0", "p1"
								cps := []string{"cpdef p0 romcode: pa, ramsize:8", "cpdef p1 romcode: pb, ramsize:8"}
								if cpOrder == 1 {
									cps[0], cps[1] = cps[1], cps[0]
								}
								pair := func(link, a, b string) []string {
									if endOrder == 1 {
										a, b = b, a
									}
									return []string{"ioatt " + link + " " + a, "ioatt " + link + " " + b}
								}
								metas := append([]string{}, cps...)
								metas = append(metas, pair("lx", "cp: "+prodName+", index:0, type:output", "cp: "+consName+", index:0, type:input")...)
								metas = append(metas, pair("ly", "cp: "+consName+", index:0, type:output", fmt.Sprintf("cp: bm, index:%d, type:output", bmIdx))...)
								if bmIdx == 1 {
									metas = append(metas, pair("lz", "cp: "+prodName+", index:1, type:output", "cp: bm, index:0, type:output")...)
								}
								class := fmt.Sprintf("twocp|prod%d|cons%d|cpdef-order%d|section-order%d|endpoint-order%d|bmout%d|r%d", pi, ci, cpOrder, secOrder, endOrder, bmIdx, rsize)
								emit(renderSource("", nil, false, secs, metas, rsize), class)
							}
						}
					}
				}
			}
		}
	}
}

// ---------- family F: two CPs, handshaked (iomode:sync) link ----------
func genSyncTwoCP(emit emitFn) {
	producers := [][]string{
		{"entry la", "la:", "inc r0", "mov o0, r0", "j la"},
		{"la:", "rset r0, 0x10", "entry lb", "lb:", "inc r0", "mov o0, r0", "j lb"}, // entry != line 0
		{"entry la", "la:", "rset r0, 3", "lb:", "r2owa r0, o0", "add r0, r0", "j lb"},
	}
	consumers := [][]string{
		{"entry la", "la:", "mov r0, i0", "r2o r0, o0", "j la"},
		{"entry la", "la:", "i2rw r1, i0", "inc r1", "r2o r1, o0", "nop", "j la"},
		{"entry lb", "la:", "inc r1", "lb:", "mov r0, i0", "add r0, r1", "r2o r0, o0", "j la"}, // entry != line 0
	}
	for pi, p := range producers {
		for ci, c := range consumers {
			for _, cpOrder := range []int{0, 1} {
				for _, secOrder := range []int{0, 1} {
					for _, rsize := range []int{8, 16} {
						secs := []secText{{"pa", ".romtext", "sync", p}, {"pb", ".romtext", "sync", c}}
						if secOrder == 1 {
							secs[0], secs[1] = secs[1], secs[0]
						}
						cps := []string{"cpdef p0 romcode: pa, ramsize:8", "cpdef p1 romcode: pb, ramsize:8"}
						if cpOrder == 1 {
							cps[0], cps[1] = cps[1], cps[0]
						}
						metas := append(cps, "ioatt lx cp: p0, index:0, type:output", "ioatt lx cp: p1, index:0, type:input",
							"ioatt ly cp: p1, index:0, type:output", "ioatt ly cp: bm, index:0, type:output")
						emit(renderSource("", nil, false, secs, metas, rsize), fmt.Sprintf("sync2cp|prod%d|cons%d|cpdef-order%d|section-order%d|r%d", pi, ci, cpOrder, secOrder, rsize))
					}
				}
			}
		}
	}
}

// ---------- family G: where the iomode is stated (section, global, both) ----------
// mov to/from an IO port takes its mode from the section if the section states one, else from
// `%meta bmdef global iomode:`. Every (section A, section B, global) statement in {none, sync, async}^3 for which
// both sections end up with the same, defined mode; the global statement before and after registersize.
func genIOModePrecedence(emit emitFn) {
	prod := []string{"entry la", "la:", "inc r0", "mov o0, r0", "j la"}
	cons := []string{"entry la", "la:", "mov r0, i0", "r2o r0, o0", "j la"}
	modes := []string{"", "sync", "async"}
	eff := func(sec, glob string) string {
		if sec != "" {
			return sec
		}
		return glob
	}
	for _, a := range modes {
		for _, b := range modes {
			for _, g := range modes {
				if eff(a, g) == "" || eff(a, g) != eff(b, g) {
					continue
				}
				for _, globFirst := range []bool{false, true} {
					if g == "" && globFirst {
						continue
					}
					for _, rsize := range []int{8, 16} {
						secs := []secText{{"pa", ".romtext", a, prod}, {"pb", ".romtext", b, cons}}
						metas := []string{"cpdef p0 romcode: pa, ramsize:8", "cpdef p1 romcode: pb, ramsize:8",
							"ioatt lx cp: p0, index:0, type:output", "ioatt lx cp: p1, index:0, type:input",
							"ioatt ly cp: p1, index:0, type:output", "ioatt ly cp: bm, index:0, type:output"}
						if g != "" {
							if globFirst {
								metas = append([]string{"bmdef global iomode:" + g}, metas...)
							} else {
								metas = append(metas, "bmdef global iomode:"+g)
							}
						}
						na, nb, ng := a, b, g
						if na == "" {
							na = "none"
						}
						if nb == "" {
							nb = "none"
						}
						if ng == "" {
							ng = "none"
						}
						emit(renderSource("", nil, false, secs, metas, rsize), fmt.Sprintf("iomode|secA-%s|secB-%s|global-%s|globfirst-%v|r%d", na, nb, ng, globFirst, rsize))
					}
				}
			}
		}
	}
}

// GenerateAll enumerates every family for the tier.
func GenerateAll(thorough bool, emit emitFn) map[string]any {
	bounds := map[string]any{}
	if !thorough {
		for n := 1; n <= 3; n++ {
			genControlFlow(emit, n, 3, false, true, 8)
		}
		genControlFlow(emit, 4, 1, false, true, 8)
		genControlFlow(emit, 1, 3, true, true, 16)
		genControlFlow(emit, 2, 3, true, true, 16)
		genControlFlow(emit, 3, 2, true, true, 16)
		genControlFlow(emit, 3, 1, true, true, 32)
		genLong(emit, 5, 2)
		genForms(emit, 1, []int{8, 16, 32})
		genForms(emit, 2, []int{8, 16, 32})
		bounds["control_flow"] = "n<=3 instr over {inc,r2o,j L}, 1..3 labels at every position multiset, entry at every line position naming every label (r8); n=4 with 1 label (r8); + {jz r0 L} for (n<=2,l<=3,r16),(n=3,l<=2,r16),(n=3,l=1,r32)"
		bounds["long"] = "n=5, <=2 labels (distinct lines), <=2 jumps at every position pair, entry first/last"
		bounds["forms"] = "every instruction form x operands (2 regs): sequences of length 1 and 2 (r8,16,32)"
	} else {
		for n := 1; n <= 4; n++ {
			genControlFlow(emit, n, 3, false, true, 8)
		}
		for n := 1; n <= 3; n++ {
			genControlFlow(emit, n, 3, true, true, 16)
		}
		genControlFlow(emit, 4, 1, true, true, 32)
		genControlFlow(emit, 4, 2, true, false, 32)
		genLong(emit, 5, 3)
		genLong(emit, 6, 3)
		genForms(emit, 1, []int{8, 16, 32})
		genForms(emit, 2, []int{8, 16, 32})
		genForms(emit, 3, []int{8})
		bounds["control_flow"] = "n<=4 instr over {inc,r2o,j L}, 1..3 labels at every position multiset, entry at every line position naming every label (r8); n<=3 over {inc,r2o,j L,jz r0 L} (r16); n=4,l=1 with jz (r32); n=4,l<=2 with jz, entry at first/middle/last/after-label positions only (r32)"
		bounds["long"] = "n=5..6, <=3 labels (distinct lines), <=2 jumps at every position pair, entry first/last"
		bounds["forms"] = "every instruction form x operands (2 regs): sequences of length 1,2 (r8,16,32) and 3 (r8)"
	}
	genLiterals(emit)
	genMacros(emit, thorough)
	genData(emit)
	genSharedSections(emit)
	bounds["shared_sections"] = "2-3 CPs running the same code section with their own data sections (same symbol names, different bytes and lengths; both declaration orders), own code with the same data section, same code and same data"
	genTwoCP(emit, thorough)
	genSyncTwoCP(emit)
	genIOModePrecedence(emit)
	bounds["iomode_statement"] = "producer/consumer pair x (section A, section B, global) iomode statements in {none,sync,async}^3 with equal defined effective modes x global statement before/after the other metadata x r{8,16}"
	bounds["sync_two_cp"] = "3 producers x 3 consumers over a handshaked (iomode:sync) link x cpdef order x section order x r{8,16}; compared as value sequences (timing independent)"
	bounds["literals"] = "10 values x 6-8 notations (dec,0x,0X,0x0,0b,0b0,0d,0u) x {rset,mov} x r{8,16,32} x bm-output swap; sync mov forms (static oracle)"
	bounds["macros"] = "8 macro definitions (0..2 args: reg/label/literal args) x nesting {none,first,last} x 0..2 uses at every gap pair x label-before-call x defined before/after; 1 macro shared by 2 CPs"
	bounds["data"] = "6 romdata layouts (db lists, N:db repeats) x code padding 0..2 x {mov,rset} rom:symbol x every symbol pair x section order"
	bounds["two_cp"] = "4 producers x 4 consumers x cpdef order x section order x ioatt endpoint order x bm output index [x r8,16,32 thorough]"
	bounds["ticks"] = Ticks
	return bounds
}
