package main

// Reference semantics of the supported BASM subset, written from the documentation
// (pkg/basm/docbasmfile.md, docinstructions.md) and NOT from the assembler passes:
//   parse text -> expand macros by textual substitution (NASM-style %1..%n parameters)
//   -> drop `entry` -> map each label to the index of the next instruction
//   -> resolve pseudo instructions (mov/jmp) -> interpret one instruction per tick per CP,
//   starting at the DECLARED entry, wrap-around at the register size.
//
// The same code can emulate each *known* defect of the assembler (bug flags). They are used only
// to attribute a failing source to an already-known root cause; a failure that no set of known
// defects explains always gets a different (new) signature.

import (
	"fmt"
	"regexp"
	"sort"
	"strconv"
	"strings"
)

type BugFlags uint

const (
	BugEntryAtZero    BugFlags = 1 << iota // execution starts at line 0, the entry is ignored
	BugLabelEntryLost                      // labels written immediately before the `entry` line are dropped
	BugMacroNoSubst                        // macro parameters are not substituted
	BugMacroSkipAfter                      // the line following a macro call is never examined for expansion
	BugMacroNested                         // macro calls inside a macro body are not expanded
	BugMacroLabelLost                      // labels written immediately before a macro call are dropped
	BugDbDecimalWide                       // `db <decimal>` emits the 8 bytes of a 64-bit number instead of one byte
	bugAll            = 7
)

var bugSignature = map[BugFlags]string{
	BugEntryAtZero:    "C05|entry|execution-starts-at-line-0-not-at-entry",
	BugLabelEntryLost: "C05|entry|label-before-entry-directive-lost",
	BugMacroNoSubst:   "C05|macro|arguments-not-substituted",
	BugMacroSkipAfter: "C05|macro|line-after-expansion-skipped",
	BugMacroNested:    "C05|macro|nested-call-not-expanded",
	BugMacroLabelLost: "C05|macro|label-before-call-lost",
	BugDbDecimalWide:  "C05|data|db-decimal-expression-emits-8-bytes",
}

var bugWhat = map[BugFlags]string{
	BugEntryAtZero:    "entryPoints records body meta \"entry\" but nothing reads it: the CP always starts at ROM line 0, so a program whose entry label is not the first instruction runs the wrong code",
	BugLabelEntryLost: "a label written on the line(s) just before the `entry` directive is attached to the directive line, which entryPoints deletes: the label disappears (unresolved operand / wrong recorded entry)",
	BugMacroNoSubst:   "macroresolver.expandMacro returns the macro body verbatim: the call arguments are counted but never substituted, so any macro that uses a parameter cannot be assembled",
	BugMacroSkipAfter: "bodyMacros advances by len(expansion) and then the loop adds 1 more: the line right after a macro call is never examined, so a second consecutive macro call is left unexpanded and the source is rejected",
	BugMacroNested:    "macro bodies are never scanned for macro calls: a macro invoked inside another macro stays as an unknown operation and the source is rejected",
	BugMacroLabelLost: "a label written just before a macro call is attached to the call line, which bodyMacros replaces by the body lines: the label disappears",
	BugDbDecimalWide:  "a decimal (or 0d/0u) expression of a `db` data directive is imported as a 64-bit number and emitted as 8 ROM cells (7 zero cells then the value) instead of the single byte the documentation promises; later data symbols are shifted accordingly",
}

// ---------- source model ----------

const (
	itLabel = iota
	itEntry
	itInstr
)

type Item struct {
	Kind int
	Name string   // label / entry target
	Op   string   // instruction or macro name
	Args []string // operands
}

type Section struct {
	Name   string
	Kind   string // .romtext .romdata
	IOMode string
	Items  []Item
	Data   []DataVar
}

type DataVar struct {
	Name    string
	Bytes   []uint64
	Decimal []bool // the expression was written in a decimal notation (plain, 0d, 0u)
}

type Macro struct {
	Name  string
	NArgs int
	Items []Item
}

type CPDef struct {
	Name, RomCode, RomData string
}

type IOEnd struct {
	Link, CP, Type string
	Index          int
}

type Source struct {
	Config   string
	Macros   map[string]*Macro
	Sections map[string]*Section
	SecOrder []string
	CPs      []CPDef
	IOAtt    []IOEnd
	Rsize    int
	// iomode given on `%meta bmdef global`: the mode of mov to/from an IO port in every section that does not
	// state its own (the most specific statement wins: section before global)
	GlobalIOMode string
}

var reSpace = regexp.MustCompile(`\s+`)

func splitArgs(s string) []string {
	s = strings.TrimSpace(s)
	if s == "" {
		return nil
	}
	parts := strings.Split(s, ",")
	for i := range parts {
		parts[i] = strings.TrimSpace(parts[i])
	}
	return parts
}

func parseKV(s string) map[string]string {
	m := map[string]string{}
	for _, p := range strings.Split(s, ",") {
		p = strings.TrimSpace(p)
		if p == "" {
			continue
		}
		kv := strings.SplitN(p, ":", 2)
		if len(kv) == 2 {
			m[strings.TrimSpace(kv[0])] = strings.TrimSpace(kv[1])
		}
	}
	return m
}

// ParseSource parses the BASM subset. An error means "outside the supported subset".
func ParseSource(text string) (*Source, error) {
	s := &Source{Macros: map[string]*Macro{}, Sections: map[string]*Section{}}
	var curSec *Section
	var curMac *Macro
	for ln, raw := range strings.Split(text, "\n") {
		if m := regexp.MustCompile(`^;\s*c05-config:\s*(\S+)`).FindStringSubmatch(raw); m != nil {
			s.Config = m[1]
			continue
		}
		if i := strings.Index(raw, ";"); i >= 0 {
			raw = raw[:i]
		}
		line := strings.TrimSpace(reSpace.ReplaceAllString(raw, " "))
		if line == "" {
			continue
		}
		f := strings.SplitN(line, " ", 2)
		head, rest := f[0], ""
		if len(f) > 1 {
			rest = f[1]
		}
		switch {
		case head == "%macro":
			w := strings.Fields(rest)
			if len(w) != 2 || curSec != nil || curMac != nil {
				return nil, fmt.Errorf("line %d: bad %%macro", ln)
			}
			n, err := strconv.Atoi(w[1])
			if err != nil {
				return nil, err
			}
			curMac = &Macro{Name: w[0], NArgs: n}
			s.Macros[w[0]] = curMac
		case head == "%endmacro":
			curMac = nil
		case head == "%section":
			w := strings.Fields(rest)
			if len(w) < 2 || curSec != nil || curMac != nil {
				return nil, fmt.Errorf("line %d: bad %%section", ln)
			}
			curSec = &Section{Name: w[0], Kind: w[1]}
			if len(w) > 2 {
				kv := parseKV(strings.Join(w[2:], ","))
				if v, ok := kv["iomode"]; ok {
					curSec.IOMode = v
				}
			}
			s.Sections[w[0]] = curSec
			s.SecOrder = append(s.SecOrder, w[0])
		case head == "%endsection":
			curSec = nil
		case head == "%meta":
			w := strings.SplitN(rest, " ", 3)
			if len(w) < 3 {
				return nil, fmt.Errorf("line %d: bad %%meta", ln)
			}
			kv := parseKV(w[2])
			switch w[0] {
			case "cpdef":
				s.CPs = append(s.CPs, CPDef{Name: w[1], RomCode: kv["romcode"], RomData: kv["romdata"]})
			case "ioatt":
				idx, err := strconv.Atoi(kv["index"])
				if err != nil {
					return nil, err
				}
				s.IOAtt = append(s.IOAtt, IOEnd{Link: w[1], CP: kv["cp"], Type: kv["type"], Index: idx})
			case "bmdef":
				if rs, ok := kv["registersize"]; ok {
					r, err := strconv.Atoi(rs)
					if err != nil {
						return nil, err
					}
					s.Rsize = r
				}
				if v, ok := kv["iomode"]; ok {
					s.GlobalIOMode = v
				}
			default:
				return nil, fmt.Errorf("line %d: unsupported meta %s", ln, w[0])
			}
		case strings.HasPrefix(head, "%"):
			return nil, fmt.Errorf("line %d: unsupported directive %s", ln, head)
		default:
			if curSec == nil && curMac == nil {
				return nil, fmt.Errorf("line %d: text outside any block", ln)
			}
			if curSec != nil && curSec.Kind == ".romdata" {
				w := strings.SplitN(rest, " ", 2)
				// `db list` or the repeat form `N:db list` (the whole list N times, in order)
				reps := 1
				if len(w) == 2 && strings.HasSuffix(w[0], ":db") {
					n, err := strconv.Atoi(strings.TrimSuffix(w[0], ":db"))
					if err != nil || n < 1 {
						return nil, fmt.Errorf("line %d: bad repeat count", ln)
					}
					reps, w[0] = n, "db"
				}
				if len(w) != 2 || w[0] != "db" {
					return nil, fmt.Errorf("line %d: unsupported data directive", ln)
				}
				dv := DataVar{Name: head}
				for r := 0; r < reps; r++ {
					for _, b := range splitArgs(w[1]) {
						v, ok := parseLiteral(b)
						if !ok || v > 255 {
							return nil, fmt.Errorf("line %d: bad byte %q", ln, b)
						}
						dv.Bytes = append(dv.Bytes, v)
						dv.Decimal = append(dv.Decimal, !strings.HasPrefix(b, "0x") && !strings.HasPrefix(b, "0b"))
					}
				}
				curSec.Data = append(curSec.Data, dv)
				continue
			}
			var it Item
			if strings.HasSuffix(head, ":") {
				if rest != "" {
					return nil, fmt.Errorf("line %d: text after label", ln)
				}
				it = Item{Kind: itLabel, Name: strings.TrimSuffix(head, ":")}
			} else if head == "entry" {
				it = Item{Kind: itEntry, Name: strings.TrimSpace(rest)}
			} else {
				it = Item{Kind: itInstr, Op: head, Args: splitArgs(rest)}
			}
			if curMac != nil {
				if it.Kind != itInstr {
					return nil, fmt.Errorf("line %d: labels/entry inside macros are outside the subset", ln)
				}
				curMac.Items = append(curMac.Items, it)
			} else {
				curSec.Items = append(curSec.Items, it)
			}
		}
	}
	if s.Rsize == 0 {
		return nil, fmt.Errorf("no registersize")
	}
	return s, nil
}

// parseLiteral: notations of pkg/bmnumbers that denote a plain unsigned integer.
func parseLiteral(t string) (uint64, bool) {
	var v uint64
	var err error
	switch {
	case regexp.MustCompile(`^[0-9]+$`).MatchString(t):
		v, err = strconv.ParseUint(t, 10, 64)
	case regexp.MustCompile(`^0x[0-9a-fA-F]+$`).MatchString(t):
		v, err = strconv.ParseUint(t[2:], 16, 64)
	case regexp.MustCompile(`^0b[01]+$`).MatchString(t):
		v, err = strconv.ParseUint(t[2:], 2, 64)
	case regexp.MustCompile(`^0[du][0-9]+$`).MatchString(t):
		v, err = strconv.ParseUint(t[2:], 10, 64)
	default:
		return 0, false
	}
	return v, err == nil
}

var (
	reReg   = regexp.MustCompile(`^r[0-9]$`)
	reIn    = regexp.MustCompile(`^i[0-9]:?$`)
	reOut   = regexp.MustCompile(`^o[0-9]:?$`)
	reIdent = regexp.MustCompile(`^[A-Za-z_][A-Za-z0-9_]*$`)
	reRom   = regexp.MustCompile(`^rom:([A-Za-z_][A-Za-z0-9_]*)$`)
)

// ---------- flattening ----------

type FlatInstr struct {
	Op     string   // real opcode
	Args   []string // normalised operands; jump targets / literals / rom symbols as decimal
	Pseudo bool     // came from mov/jmp
	Kinds  []string // per operand: reg in out lit label rom
}

func (f FlatInstr) String() string {
	return strings.TrimSpace(f.Op + " " + strings.Join(f.Args, " "))
}

type FlatCP struct {
	Name      string
	Code      []FlatInstr
	Entry     int  // index of the declared entry
	EntryOK   bool // false when the (emulated) defect makes the recorded entry unspecified
	Data      []uint64
	Handshake bool
}

type Flat struct {
	CPs         []FlatCP
	Reject      string   // non-empty: the model predicts a rejection
	RejectClass string   // when the rejection is the consequence of an emulated defect: the error class expected
	Fired       BugFlags // emulated defects that changed something
}

type rawLine struct {
	labels []string
	op     string
	args   []string
	bad    bool // left unexpanded / unsubstituted by an emulated defect: "no operator match"
	badSym bool // unsubstituted parameter in a jump-target position: taken for a symbol, unresolved later
}

// expand performs macro expansion of one section body under the given (possibly faulty) model.
// Failures that are the *consequence of an emulated defect* do not stop the expansion: the line is
// kept as the assembler would keep it (bad=true) and the caller derives the predicted error from
// the pass order. reject != "" only for sources that are not well-formed.
func expand(src *Source, sec *Section, bugs BugFlags, fired *BugFlags) (lines []rawLine, entry string, lostEntryAt int, reject string) {
	lostEntryAt = -1
	var pending []string
	skipNext := false
	nEntry := 0
	var emitBody func(m *Macro, args []string, depth int) string
	emitBody = func(m *Macro, args []string, depth int) string {
		for _, it := range m.Items {
			a := make([]string, len(it.Args))
			bad, badSym := false, false
			for i, x := range it.Args {
				a[i] = x
				if strings.Contains(x, "%") {
					if bugs&BugMacroNoSubst != 0 {
						*fired |= BugMacroNoSubst
						if ((it.Op == "j" || it.Op == "jmp") && i == 0) || (it.Op == "jz" && i == 1) {
							badSym = true // every unknown operand of a jump is typed "symbol"
						} else {
							bad = true
						}
						continue
					}
					for k := len(args); k >= 1; k-- {
						a[i] = strings.ReplaceAll(a[i], "%"+strconv.Itoa(k), args[k-1])
					}
					if strings.Contains(a[i], "%") {
						return "macro parameter out of range"
					}
				}
			}
			if inner, ok := src.Macros[it.Op]; ok {
				if bugs&BugMacroNested != 0 {
					*fired |= BugMacroNested
					lines = append(lines, rawLine{labels: pending, op: it.Op, args: a, bad: true})
					pending = nil
					continue
				}
				if depth >= 2 {
					return "macro recursion"
				}
				if len(a) != inner.NArgs {
					return "macro argument count"
				}
				if bad {
					lines = append(lines, rawLine{labels: pending, op: it.Op, args: a, bad: true})
					pending = nil
					continue
				}
				if r := emitBody(inner, a, depth+1); r != "" {
					return r
				}
				continue
			}
			lines = append(lines, rawLine{labels: pending, op: it.Op, args: a, bad: bad, badSym: badSym && !bad})
			pending = nil
		}
		return ""
	}
	for _, it := range sec.Items {
		switch it.Kind {
		case itLabel:
			pending = append(pending, it.Name)
		case itEntry:
			nEntry++
			entry = it.Name
			if len(pending) > 0 && bugs&BugLabelEntryLost != 0 {
				*fired |= BugLabelEntryLost
				for _, p := range pending {
					if p == it.Name {
						lostEntryAt = len(lines)
					}
				}
				pending = nil
			}
			skipNext = false
		case itInstr:
			if m, ok := src.Macros[it.Op]; ok {
				if len(it.Args) != m.NArgs {
					return nil, entry, -1, "macro argument count"
				}
				if len(m.Items) == 0 {
					return nil, entry, -1, "empty macro"
				}
				if skipNext {
					// the call line is never examined: it stays in the body as an unknown operation
					*fired |= BugMacroSkipAfter
					lines = append(lines, rawLine{labels: pending, op: it.Op, args: it.Args, bad: true})
					pending = nil
					skipNext = false
					continue
				}
				if len(pending) > 0 && bugs&BugMacroLabelLost != 0 {
					*fired |= BugMacroLabelLost
					pending = nil
				}
				if r := emitBody(m, it.Args, 1); r != "" {
					return nil, entry, -1, r
				}
				skipNext = bugs&BugMacroSkipAfter != 0
				continue
			}
			skipNext = false
			lines = append(lines, rawLine{labels: pending, op: it.Op, args: it.Args})
			pending = nil
		}
	}
	if len(pending) > 0 {
		return nil, entry, -1, "trailing label"
	}
	if nEntry != 1 {
		return nil, entry, -1, "entry count"
	}
	return lines, entry, lostEntryAt, ""
}

// Flatten computes, for every CP, the program the source denotes (bugs==0) or the program the
// assembler is predicted to produce when the given known defects are present.
func Flatten(src *Source, bugs BugFlags) *Flat {
	out := &Flat{}
	// consequences of emulated defects, in the order the assembler passes would meet them:
	// entryPoints ("entry point not detected") < matcherResolver ("no operator match") <
	// Assembler2BondMachine ("unknown number format <label>")
	softEntry, softNoOp, softSym := false, false, false
	for _, cp := range src.CPs {
		sec, ok := src.Sections[cp.RomCode]
		if !ok || sec.Kind != ".romtext" {
			out.Reject = "cp without romtext section"
			return out
		}
		lines, entry, lostEntryAt, rej := expand(src, sec, bugs, &out.Fired)
		if rej != "" {
			out.Reject = rej
			return out
		}
		lostLabels := out.Fired&(BugLabelEntryLost|BugMacroLabelLost) != 0
		labels := map[string]int{}
		for i, l := range lines {
			for _, name := range l.labels {
				if _, dup := labels[name]; dup {
					out.Reject = "duplicate label"
					return out
				}
				labels[name] = i
			}
		}
		fc := FlatCP{Name: cp.Name, EntryOK: true}
		// data symbols: address = code length + byte offset
		dataSyms := map[string]int{}
		if cp.RomData != "" {
			ds, ok := src.Sections[cp.RomData]
			if !ok || ds.Kind != ".romdata" {
				out.Reject = "cp romdata section missing"
				return out
			}
			off := 0
			for _, v := range ds.Data {
				dataSyms[v.Name] = len(lines) + off
				for k, b := range v.Bytes {
					if v.Decimal[k] && bugs&BugDbDecimalWide != 0 {
						out.Fired |= BugDbDecimalWide
						fc.Data = append(fc.Data, 0, 0, 0, 0, 0, 0, 0)
						off += 7
					}
					fc.Data = append(fc.Data, b)
					off++
				}
			}
		}
		if e, ok := labels[entry]; ok {
			fc.Entry = e
		} else if lostEntryAt >= 0 && lostEntryAt < len(lines) {
			// the entry label itself was the one lost on the directive line: the assembler still
			// accepts (it saw the symbol there) but what it records is unspecified
			fc.Entry = lostEntryAt
			fc.EntryOK = false
		} else if lostLabels {
			softEntry = true
		} else {
			out.Reject = "entry label undefined"
			return out
		}
		maxv := uint64(1)<<uint(src.Rsize) - 1
		for _, l := range lines {
			if l.bad {
				softNoOp = true
				continue
			}
			if l.badSym {
				softSym = true
				continue
			}
			iomode := sec.IOMode
			if iomode == "" {
				iomode = src.GlobalIOMode
			}
			fi, rej := resolveInstr(l, iomode, labels, dataSyms, maxv, src.Config)
			if rej != "" {
				if strings.HasPrefix(rej, "undefined label") && lostLabels {
					softSym = true
					continue
				}
				out.Reject = rej
				return out
			}
			if fi.Op == "r2owa" || fi.Op == "i2rw" {
				fc.Handshake = true
			}
			fc.Code = append(fc.Code, fi)
		}
		out.CPs = append(out.CPs, fc)
	}
	switch {
	case softEntry:
		out.Reject, out.RejectClass = "entry label lost by an emulated defect", "entry-point-not-detected"
	case softNoOp:
		out.Reject, out.RejectClass = "macro call / parameter left in the body by an emulated defect", "no-operator-match"
	case softSym:
		out.Reject, out.RejectClass = "jump to a label lost by an emulated defect", "unresolved-symbol"
	}
	return out
}

func resolveInstr(l rawLine, iomode string, labels, dataSyms map[string]int, maxv uint64, config string) (FlatInstr, string) {
	kind := func(a string) string {
		switch {
		case reReg.MatchString(a):
			return "reg"
		case reIn.MatchString(a):
			return "in"
		case reOut.MatchString(a):
			return "out"
		case reRom.MatchString(a):
			return "rom"
		}
		if _, ok := parseLiteral(a); ok {
			return "lit"
		}
		if reIdent.MatchString(a) {
			return "label"
		}
		return "?"
	}
	ks := make([]string, len(l.args))
	for i, a := range l.args {
		ks[i] = kind(a)
	}
	sig := l.op + "(" + strings.Join(ks, ",") + ")"
	norm := func(i int) (string, string) {
		a := l.args[i]
		switch ks[i] {
		case "reg":
			return a, ""
		case "in", "out":
			return strings.TrimSuffix(a, ":"), ""
		case "lit":
			v, _ := parseLiteral(a)
			if v > maxv {
				return "", "literal does not fit the register size"
			}
			return strconv.FormatUint(v, 10), ""
		case "label":
			t, ok := labels[a]
			if !ok {
				return "", "undefined label " + a
			}
			return strconv.Itoa(t), ""
		case "rom":
			t, ok := dataSyms[reRom.FindStringSubmatch(a)[1]]
			if !ok {
				return "", "undefined data symbol"
			}
			return strconv.Itoa(t), ""
		}
		return "", "bad operand"
	}
	mk := func(op string, pseudo bool, order ...int) (FlatInstr, string) {
		fi := FlatInstr{Op: op, Pseudo: pseudo}
		for _, i := range order {
			v, rej := norm(i)
			if rej != "" {
				return fi, rej
			}
			fi.Args = append(fi.Args, v)
			fi.Kinds = append(fi.Kinds, ks[i])
		}
		return fi, ""
	}
	switch sig {
	case "rset(reg,lit)", "rset(reg,rom)":
		return mk("rset", false, 0, 1)
	case "mov(reg,lit)":
		if config != "nodyn" {
			return FlatInstr{}, "mov reg,number needs a chooser criterion in the default configuration"
		}
		return mk("rset", true, 0, 1)
	case "mov(reg,rom)":
		return mk("rset", true, 0, 1)
	case "mov(reg,reg)":
		return mk("cpy", true, 0, 1)
	case "cpy(reg,reg)":
		return mk("cpy", false, 0, 1)
	case "add(reg,reg)":
		return mk("add", false, 0, 1)
	case "inc(reg)", "dec(reg)", "clr(reg)":
		return mk(l.op, false, 0)
	case "nop()":
		return mk("nop", false)
	case "mov(out,reg)":
		if iomode == "" {
			return FlatInstr{}, "mov to an output without any iomode"
		}
		if iomode == "sync" {
			return mk("r2owa", true, 1, 0)
		}
		return mk("r2o", true, 1, 0)
	case "r2o(reg,out)", "r2owa(reg,out)":
		return mk(l.op, false, 0, 1)
	case "mov(reg,in)":
		if iomode == "" {
			return FlatInstr{}, "mov from an input without any iomode"
		}
		if iomode == "sync" {
			return mk("i2rw", true, 0, 1)
		}
		return mk("i2r", true, 0, 1)
	case "i2r(reg,in)", "i2rw(reg,in)":
		return mk(l.op, false, 0, 1)
	case "j(label)", "j(lit)":
		return mk("j", false, 0)
	case "jmp(label)":
		return mk("j", true, 0)
	case "jz(reg,label)", "jz(reg,lit)":
		return mk("jz", false, 0, 1)
	}
	return FlatInstr{}, "unsupported instruction form " + sig
}

// ---------- interpretation ----------

type wiring struct {
	cpIn  map[[2]int][2]int // (cp, input index) -> source: (cp, output index) or (-1, bm input)
	bmOut map[int][2]int    // bm output -> (cp, output index)
	nOut  int
	nIn   int
	err   string
}

func buildWiring(src *Source) wiring {
	w := wiring{cpIn: map[[2]int][2]int{}, bmOut: map[int][2]int{}}
	cpIdx := map[string]int{}
	for i, c := range src.CPs {
		cpIdx[c.Name] = i
	}
	links := map[string][]IOEnd{}
	var order []string
	for _, e := range src.IOAtt {
		if _, ok := links[e.Link]; !ok {
			order = append(order, e.Link)
		}
		links[e.Link] = append(links[e.Link], e)
	}
	for _, name := range order {
		es := links[name]
		if len(es) != 2 {
			w.err = "link without exactly two endpoints"
			return w
		}
		// driver: cp output or bm input; reader: cp input or bm output
		var drv, rd *IOEnd
		for i := range es {
			e := &es[i]
			isDrv := (e.CP != "bm" && e.Type == "output") || (e.CP == "bm" && e.Type == "input")
			if isDrv {
				drv = e
			} else {
				rd = e
			}
		}
		if drv == nil || rd == nil {
			w.err = "link without one driver and one reader"
			return w
		}
		var s [2]int
		if drv.CP == "bm" {
			s = [2]int{-1, drv.Index}
			if drv.Index+1 > w.nIn {
				w.nIn = drv.Index + 1
			}
		} else {
			ci, ok := cpIdx[drv.CP]
			if !ok {
				w.err = "unknown cp"
				return w
			}
			s = [2]int{ci, drv.Index}
		}
		if rd.CP == "bm" {
			if s[0] < 0 {
				w.err = "bm input wired to bm output"
				return w
			}
			w.bmOut[rd.Index] = s
			if rd.Index+1 > w.nOut {
				w.nOut = rd.Index + 1
			}
		} else {
			ci, ok := cpIdx[rd.CP]
			if !ok {
				w.err = "unknown cp"
				return w
			}
			w.cpIn[[2]int{ci, rd.Index}] = s
		}
	}
	return w
}

// ExtInput is the constant the harness drives on BM input k.
func ExtInput(k int, rsize int) uint64 {
	v := uint64(0x2b + 0x11*k)
	return v & (uint64(1)<<uint(rsize) - 1)
}

// Interpret runs the flattened CPs for at most T ticks. start[i] is the initial pc of CP i and
// delay[i] the number of idle ticks before it. Returns the BM output vector after every tick; the
// trace stops at the first tick in which some CP would fetch outside its program.
func Interpret(src *Source, fl *Flat, start []int, delay []int, T int) [][]uint64 {
	w := buildWiring(src)
	mask := uint64(1)<<uint(src.Rsize) - 1
	n := len(fl.CPs)
	regs := make([][10]uint64, n)
	outs := make([][10]uint64, n)
	pc := make([]int, n)
	copy(pc, start)
	var trace [][]uint64
	for t := 0; t < T; t++ {
		for i := range fl.CPs {
			if t >= delay[i] && (pc[i] < 0 || pc[i] >= len(fl.CPs[i].Code)) {
				return trace
			}
		}
		prev := make([][10]uint64, n)
		copy(prev, outs)
		for i := range fl.CPs {
			if t < delay[i] {
				continue
			}
			in := fl.CPs[i].Code[pc[i]]
			r := func(k int) int { return int(in.Args[k][1] - '0') }
			num := func(k int) uint64 { v, _ := strconv.ParseUint(in.Args[k], 10, 64); return v }
			next := pc[i] + 1
			switch in.Op {
			case "rset":
				regs[i][r(0)] = num(1) & mask
			case "cpy":
				regs[i][r(0)] = regs[i][r(1)]
			case "add":
				regs[i][r(0)] = (regs[i][r(0)] + regs[i][r(1)]) & mask
			case "inc":
				regs[i][r(0)] = (regs[i][r(0)] + 1) & mask
			case "dec":
				regs[i][r(0)] = (regs[i][r(0)] - 1) & mask
			case "clr":
				regs[i][r(0)] = 0
			case "nop":
			case "r2o":
				outs[i][r(1)] = regs[i][r(0)]
			case "i2r":
				s, ok := w.cpIn[[2]int{i, r(1)}]
				var v uint64
				if ok {
					if s[0] < 0 {
						v = ExtInput(s[1], src.Rsize)
					} else {
						v = prev[s[0]][s[1]]
					}
				}
				regs[i][r(0)] = v
			case "j":
				next = int(num(0))
			case "jz":
				if regs[i][r(0)] == 0 {
					next = int(num(1))
				}
			default:
				return trace // handshake ops are not interpreted
			}
			pc[i] = next
		}
		row := make([]uint64, w.nOut)
		for k := 0; k < w.nOut; k++ {
			if s, ok := w.bmOut[k]; ok {
				row[k] = outs[s[0]][s[1]]
			}
		}
		trace = append(trace, row)
	}
	return trace
}

// InterpretKahn gives the timing-independent meaning of programs that use the handshaked opcodes:
// r2owa is a blocking send, i2rw a blocking receive (rendezvous on the ioatt link), everything else
// as in Interpret. It returns, per BM output, the sequence of values it takes (initial 0, then one
// entry per change). nil = the program mixes handshaked and timing-dependent IO (not comparable).
func InterpretKahn(src *Source, fl *Flat, start []int, rounds int) [][]uint64 {
	w := buildWiring(src)
	mask := uint64(1)<<uint(src.Rsize) - 1
	n := len(fl.CPs)
	regs := make([][10]uint64, n)
	pc := make([]int, n)
	copy(pc, start)
	seq := make([][]uint64, w.nOut)
	for k := range seq {
		seq[k] = []uint64{0}
	}
	// reader of each cp output
	type end struct{ cp, idx int }
	reader := map[end]end{}
	for k, s := range w.cpIn {
		if s[0] >= 0 {
			reader[end{s[0], s[1]}] = end{k[0], k[1]}
		}
	}
	bmOf := map[end]int{}
	for k, s := range w.bmOut {
		bmOf[end{s[0], s[1]}] = k
	}
	cur := func(i int) *FlatInstr {
		if pc[i] < 0 || pc[i] >= len(fl.CPs[i].Code) {
			return nil
		}
		return &fl.CPs[i].Code[pc[i]]
	}
	for round := 0; round < rounds; round++ {
		stepped := make([]bool, n)
		for i := 0; i < n; i++ {
			if stepped[i] {
				continue
			}
			in := cur(i)
			if in == nil {
				return seq // fell off the program: stop here
			}
			r := func(k int) int { return int(in.Args[k][1] - '0') }
			num := func(k int) uint64 { v, _ := strconv.ParseUint(in.Args[k], 10, 64); return v }
			next := pc[i] + 1
			switch in.Op {
			case "rset":
				regs[i][r(0)] = num(1) & mask
			case "cpy":
				regs[i][r(0)] = regs[i][r(1)]
			case "add":
				regs[i][r(0)] = (regs[i][r(0)] + regs[i][r(1)]) & mask
			case "inc":
				regs[i][r(0)] = (regs[i][r(0)] + 1) & mask
			case "dec":
				regs[i][r(0)] = (regs[i][r(0)] - 1) & mask
			case "clr":
				regs[i][r(0)] = 0
			case "nop":
			case "j":
				next = int(num(0))
			case "jz":
				if regs[i][r(0)] == 0 {
					next = int(num(1))
				}
			case "r2o":
				k, ok := bmOf[end{i, r(1)}]
				if !ok {
					return nil // async cp-to-cp traffic is timing dependent
				}
				if v := regs[i][r(0)]; seq[k][len(seq[k])-1] != v {
					seq[k] = append(seq[k], v)
				}
			case "i2r":
				s, ok := w.cpIn[[2]int{i, r(1)}]
				if !ok || s[0] >= 0 {
					return nil
				}
				regs[i][r(0)] = ExtInput(s[1], src.Rsize)
			case "r2owa":
				rd, ok := reader[end{i, r(1)}]
				if !ok {
					return nil // handshake with the outside world is not modelled
				}
				peer := cur(rd.cp)
				if peer == nil {
					return seq
				}
				if stepped[rd.cp] || peer.Op != "i2rw" || int(peer.Args[1][1]-'0') != rd.idx {
					continue // blocked
				}
				regs[rd.cp][int(peer.Args[0][1]-'0')] = regs[i][r(0)]
				pc[rd.cp]++
				stepped[rd.cp] = true
			case "i2rw":
				s, ok := w.cpIn[[2]int{i, r(1)}]
				if !ok || s[0] < 0 {
					return nil
				}
				peer := cur(s[0])
				if peer == nil {
					return seq
				}
				if stepped[s[0]] || peer.Op != "r2owa" || int(peer.Args[1][1]-'0') != s[1] {
					continue // blocked
				}
				regs[i][r(0)] = regs[s[0]][int(peer.Args[0][1]-'0')]
				pc[s[0]]++
				stepped[s[0]] = true
			default:
				return nil
			}
			pc[i] = next
			stepped[i] = true
		}
	}
	return seq
}

// WellFormed reports whether the source is inside the subset the property quantifies over.
func WellFormed(src *Source) (bool, string) {
	fl := Flatten(src, 0)
	if fl.Reject != "" {
		return false, fl.Reject
	}
	w := buildWiring(src)
	if w.err != "" {
		return false, w.err
	}
	// every used input/output must be wired; every CP uses at least one register (the assembler
	// refuses register-less processors by design: "no registers found on ROM/RAM code")
	for i, cp := range fl.CPs {
		usesReg := false
		for _, in := range cp.Code {
			for _, kd := range in.Kinds {
				if kd == "reg" {
					usesReg = true
				}
			}
		}
		if !usesReg {
			return false, "cp without any register"
		}
		for _, in := range cp.Code {
			for k, kd := range in.Kinds {
				idx := 0
				if kd == "in" || kd == "out" {
					idx = int(in.Args[k][1] - '0')
				}
				if kd == "in" {
					if _, ok := w.cpIn[[2]int{i, idx}]; !ok {
						return false, "unwired input"
					}
				}
				if kd == "out" {
					found := false
					for _, s := range w.bmOut {
						if s == [2]int{i, idx} {
							found = true
						}
					}
					for _, s := range w.cpIn {
						if s == [2]int{i, idx} {
							found = true
						}
					}
					if !found {
						return false, "unwired output"
					}
				}
			}
			for k, kd := range in.Kinds {
				if kd == "label" || (in.Op == "j" && kd == "lit") || (in.Op == "jz" && k == 1) {
					t, _ := strconv.Atoi(in.Args[k])
					if t >= len(cp.Code) {
						return false, "jump outside the program"
					}
				}
			}
		}
	}
	return true, ""
}

func bugList(b BugFlags) []BugFlags {
	var l []BugFlags
	for i := 0; i < bugAll; i++ {
		if b&(1<<uint(i)) != 0 {
			l = append(l, 1<<uint(i))
		}
	}
	return l
}

// subsets of `of` ordered by cardinality then value
func subsetsBySize(of BugFlags) []BugFlags {
	bits := bugList(of)
	var all []BugFlags
	for m := 0; m < 1<<uint(len(bits)); m++ {
		var s BugFlags
		for i, b := range bits {
			if m&(1<<uint(i)) != 0 {
				s |= b
			}
		}
		all = append(all, s)
	}
	pop := func(x BugFlags) int {
		c := 0
		for ; x != 0; x &= x - 1 {
			c++
		}
		return c
	}
	sort.SliceStable(all, func(i, j int) bool {
		if pop(all[i]) != pop(all[j]) {
			return pop(all[i]) < pop(all[j])
		}
		return all[i] < all[j]
	})
	return all
}
