package main

// Worker side: runs the REAL pipeline (pkg/basm -> pkg/bondmachine VM) on a batch of sources.
// It lives in a subprocess because every VM.Launch_processors leaks its goroutines for ever.

import (
	"bufio"
	"encoding/json"
	"fmt"
	"os"
	"regexp"
	"strings"

	"github.com/BondMachineHQ/BondMachine/pkg/basm"
	"github.com/BondMachineHQ/BondMachine/pkg/bmconfig"
	"github.com/BondMachineHQ/BondMachine/pkg/bminfo"
	"github.com/BondMachineHQ/BondMachine/pkg/bondmachine"
)

const Ticks = 28

type Real struct {
	Stage   string     `json:"stage"` // ok | parse | run | 2bm | sim | panic
	Err     string     `json:"err,omitempty"`
	CPNames []string   `json:"cpnames,omitempty"`
	Disasm  [][]string `json:"disasm,omitempty"` // per CP
	Entry   []string   `json:"entry,omitempty"`  // per CP: body meta "entry" of its final rom section
	Data    [][]string `json:"data,omitempty"`   // per CP: ROM data words (binary strings)
	Rsize   int        `json:"rsize,omitempty"`
	NIn     int        `json:"nin"`
	NOut    int        `json:"nout"`
	Bonds   string     `json:"bonds,omitempty"`
	Trace   [][]uint64 `json:"trace,omitempty"`
	SimNote string     `json:"simnote,omitempty"`
}

var reANSI = regexp.MustCompile("\x1b\\[[0-9;]*m")
var reCPLine = regexp.MustCompile(`^\t\t(\d+): (\S+?)\[(.*)\]$`)
var reSecLine = regexp.MustCompile(`^\t\t([A-Za-z0-9_]+)\[\.(rom|ram)(text|data)\]\[(.*)\]$`)

func metaOf(list, key string) string {
	for _, kv := range strings.Split(list, ",") {
		p := strings.SplitN(kv, ":", 2)
		if len(p) == 2 && p[0] == key {
			return p[1]
		}
	}
	return ""
}

// entryMetas extracts, from the public dump of the assembler instance, the "entry" body meta of the
// rom code section finally attached to each CP.
func entryMetas(dump string) []string {
	dump = reANSI.ReplaceAllString(dump, "")
	var cps []string // romcode per cp index
	secEntry := map[string]string{}
	for _, l := range strings.Split(dump, "\n") {
		if m := reSecLine.FindStringSubmatch(l); m != nil {
			if metaOf(m[4], "entry") != "" {
				secEntry[m[1]] = metaOf(m[4], "entry")
			} else {
				secEntry[m[1]] = "none"
			}
			continue
		}
		if m := reCPLine.FindStringSubmatch(l); m != nil && strings.Contains(m[3], "romcode:") {
			cps = append(cps, metaOf(m[3], "romcode"))
		}
	}
	out := make([]string, len(cps))
	for i, rc := range cps {
		out[i] = secEntry[rc]
	}
	return out
}

func toU64(v interface{}) uint64 {
	switch x := v.(type) {
	case uint8:
		return uint64(x)
	case uint16:
		return uint64(x)
	case uint32:
		return uint64(x)
	case uint64:
		return x
	}
	return ^uint64(0)
}

func typed(v uint64, rsize int) interface{} {
	switch {
	case rsize <= 8:
		return uint8(v)
	case rsize <= 16:
		return uint16(v)
	case rsize <= 32:
		return uint32(v)
	}
	return v
}

func runReal(src string) (res Real) {
	defer func() {
		if r := recover(); r != nil {
			res.Stage = "panic"
			res.Err = fmt.Sprint(r)
		}
	}()
	config := ""
	if m := regexp.MustCompile(`(?m)^;\s*c05-config:\s*(\S+)`).FindStringSubmatch(src); m != nil {
		config = m[1]
	}
	bi := new(basm.BasmInstance)
	bi.BMinfo = new(bminfo.BMinfo)
	bi.BasmInstanceInit(nil)
	if config == "nodyn" {
		// what `basm -disable-dynamical-matching` does (cmd/basm/main.go)
		bi.Activate(bmconfig.DisableDynamicalMatching)
	}
	if err := bi.ParseAssemblyStringDefault(src); err != nil {
		return Real{Stage: "parse", Err: err.Error()}
	}
	if err := bi.RunAssembler(); err != nil {
		return Real{Stage: "run", Err: err.Error()}
	}
	res.Entry = entryMetas(bi.String())
	if err := bi.Assembler2BondMachine(); err != nil {
		return Real{Stage: "2bm", Err: err.Error()}
	}
	bm := bi.GetBondMachine()
	res.Rsize = int(bm.Rsize)
	res.NIn, res.NOut = bm.Inputs, bm.Outputs
	res.Bonds = fmt.Sprint(bm.List_bonds())
	for i := range bm.Domains {
		res.CPNames = append(res.CPNames, bi.CPNames[i])
	}
	for _, d := range bm.Domains {
		dis, err := d.Disassembler()
		if err != nil {
			return Real{Stage: "2bm", Err: "disassembler: " + err.Error()}
		}
		var lines []string
		for _, l := range strings.Split(strings.TrimRight(dis, "\n"), "\n") {
			lines = append(lines, strings.Join(strings.Fields(l), " "))
		}
		res.Disasm = append(res.Disasm, lines)
		res.Data = append(res.Data, append([]string{}, d.Data.Vars...))
	}
	vm := &bondmachine.VM{Bmach: bm}
	if err := vm.Init(); err != nil {
		res.Stage = "sim"
		res.Err = err.Error()
		return
	}
	vm.Launch_processors(nil)
	for t := 0; t < Ticks; t++ {
		for k := range vm.Inputs_regs {
			vm.Inputs_regs[k] = typed(ExtInput(k, res.Rsize), res.Rsize)
		}
		if _, err := vm.Step(nil); err != nil {
			res.SimNote = err.Error()
			break
		}
		row := make([]uint64, len(vm.Outputs_regs))
		for k, v := range vm.Outputs_regs {
			row[k] = toU64(v)
		}
		res.Trace = append(res.Trace, row)
	}
	res.Stage = "ok"
	return
}

// workerMain: reads a JSON array of sources from the file, writes one JSON Real per line on fd 3
// (stdout is silenced because the assembler prints warnings there).
func workerMain(batchFile string) {
	out := os.Stdout
	null, _ := os.OpenFile(os.DevNull, os.O_WRONLY, 0)
	os.Stdout = null
	b, err := os.ReadFile(batchFile)
	if err != nil {
		fmt.Fprintln(os.Stderr, err)
		os.Exit(2)
	}
	var srcs []string
	if err := json.Unmarshal(b, &srcs); err != nil {
		fmt.Fprintln(os.Stderr, err)
		os.Exit(2)
	}
	w := bufio.NewWriter(out)
	for _, s := range srcs {
		r := runReal(s)
		jb, _ := json.Marshal(r)
		w.Write(jb)
		w.WriteByte('\n')
		w.Flush()
	}
	os.Exit(0)
}
