package main

import (
	"fmt"
	"os"
	"regexp"
	"runtime/pprof"
	"time"

	"github.com/BondMachineHQ/BondMachine/pkg/basm"
	"github.com/BondMachineHQ/BondMachine/pkg/bminfo"
	"github.com/BondMachineHQ/BondMachine/pkg/bondmachine"
)

func main() {
	if os.Getenv("BENCH") != "" {
		src, _ := os.ReadFile(os.Args[1])
		os.Stdout, _ = os.OpenFile(os.DevNull, os.O_WRONLY, 0)
		pf, _ := os.Create("/tmp/c05p/cpu.prof")
		pprof.StartCPUProfile(pf)
		defer pprof.StopCPUProfile()
		t0 := time.Now()
		var d [6]time.Duration
		for k := 0; k < 500; k++ {
			t1 := time.Now()
			bi := new(basm.BasmInstance)
			bi.BMinfo = new(bminfo.BMinfo)
			bi.BasmInstanceInit(nil)
			d[0] += time.Since(t1); t1 = time.Now()
			bi.ParseAssemblyStringDefault(string(src))
			d[1] += time.Since(t1); t1 = time.Now()
			bi.RunAssembler()
			d[2] += time.Since(t1); t1 = time.Now()
			bi.Assembler2BondMachine()
			d[3] += time.Since(t1); t1 = time.Now()
			bm := bi.GetBondMachine()
			vm := &bondmachine.VM{Bmach: bm}
			vm.Init()
			vm.Launch_processors(nil)
			d[4] += time.Since(t1); t1 = time.Now()
			for t := 0; t < 16; t++ {
				vm.Step(nil)
			}
			d[5] += time.Since(t1); t1 = time.Now()
		}
		fmt.Fprintln(os.Stderr, "per eval", time.Since(t0)/500, d)
		return
	}
	src, _ := os.ReadFile(os.Args[1])
	out := os.Stdout
	os.Stdout, _ = os.OpenFile(os.DevNull, os.O_WRONLY, 0)
	defer func() {
		if r := recover(); r != nil {
			fmt.Fprintln(out, "PANIC:", r)
		}
	}()
	bi := new(basm.BasmInstance)
	bi.BMinfo = new(bminfo.BMinfo)
	bi.BasmInstanceInit(nil)
	if err := bi.ParseAssemblyStringDefault(string(src)); err != nil {
		fmt.Fprintln(out, "parse:", err)
		return
	}
	if err := bi.RunAssembler(); err != nil {
		fmt.Fprintln(out, "run:", err)
		return
	}
	if os.Getenv("DUMP") != "" {
		fmt.Fprintln(out, regexp.MustCompile("\x1b\\[[0-9;]*m").ReplaceAllString(bi.String(), ""))
	}
	if err := bi.Assembler2BondMachine(); err != nil {
		fmt.Fprintln(out, "2bm:", err)
		return
	}
	bm := bi.GetBondMachine()
	fmt.Fprintln(out, "procs", len(bm.Processors), "in", bm.Inputs, "out", bm.Outputs, "bonds", bm.List_bonds(), "rsize", bm.Rsize)
	for i, d := range bm.Domains {
		dis, _ := d.Disassembler()
		fmt.Fprintf(out, "domain %d: R=%d N=%d M=%d L=%d O=%d rsize=%d ops=%d\n%s", i, d.R, d.N, d.M, d.L, d.O, d.Rsize, len(d.Op), dis)
	}
	vm := &bondmachine.VM{Bmach: bm}
	vm.Init()
	vm.Launch_processors(nil)
	for t := 0; t < 14; t++ {
		if _, err := vm.Step(nil); err != nil {
			fmt.Fprintln(out, "step", err)
		}
		fmt.Fprintf(out, "t=%d out=%v valid=%v", t, vm.Outputs_regs, vm.OutputsValid)
		for _, p := range vm.Processors {
			fmt.Fprintf(out, " pc=%d regs=%v", p.Pc, p.Registers)
		}
		fmt.Fprintln(out)
	}
}
