// C05 — "An assembled BASM program means what its source says".
//
// Bounded exhaustive enumeration of BASM sources (gen.go); each source goes through the REAL
// assembler and the REAL VM (worker.go, in subprocesses) and through a reference written from the
// documentation (ref.go). Oracles (judge.go): static (disassembly = reference flattening, recorded
// entry, ROM data, BM io counts), dynamic (BM output vector after every tick), accept-or-reject.
package main

import (
	"bytes"
	"context"
	"encoding/json"
	"fmt"
	"os"
	"os/exec"
	"path/filepath"
	"runtime"
	"sort"
	"strings"
	"sync"
	"time"

	"verif/lib/vlib"
)

type replayCase struct {
	Source string `json:"source"`
	Class  string `json:"class"`
}

type job struct {
	srcs    []string
	classes []string
}

func runBatch(self, dir string, id int, srcs []string, timeout time.Duration) ([]Real, error) {
	f := filepath.Join(dir, fmt.Sprintf("b%d.json", id))
	b, _ := json.Marshal(srcs)
	if err := os.WriteFile(f, b, 0o644); err != nil {
		return nil, err
	}
	defer os.Remove(f)
	ctx, cancel := context.WithTimeout(context.Background(), timeout)
	defer cancel()
	cmd := exec.CommandContext(ctx, self, "-c05worker", f)
	cmd.Env = append(os.Environ(), "GOMAXPROCS=2", "GOGC=200", "GOMEMLIMIT=1GiB")
	var out, errb bytes.Buffer
	cmd.Stdout = &out
	cmd.Stderr = &errb
	err := cmd.Run()
	var res []Real
	for _, l := range bytes.Split(out.Bytes(), []byte("\n")) {
		if len(l) == 0 {
			continue
		}
		var r Real
		if e := json.Unmarshal(l, &r); e != nil {
			break
		}
		res = append(res, r)
	}
	if len(res) != len(srcs) {
		if err == nil {
			err = fmt.Errorf("worker returned %d of %d results", len(res), len(srcs))
		}
		tail := errb.String()
		if len(tail) > 400 {
			tail = tail[len(tail)-400:]
		}
		return res, fmt.Errorf("%v: %s", err, tail)
	}
	return res, nil
}

func main() {
	if len(os.Args) >= 3 && os.Args[1] == "-c05worker" {
		workerMain(os.Args[2])
		return
	}
	if len(os.Args) >= 3 && os.Args[1] == "-probe" { // developer aid: run one .basm file
		b, err := os.ReadFile(os.Args[2])
		if err != nil {
			fmt.Println(err)
			os.Exit(2)
		}
		describe(string(b))
		return
	}
	run := vlib.Start("C05", "exploration")
	if run.Replay != "" {
		var rc replayCase
		sig, err := vlib.LoadReplay(run.Replay, &rc)
		if err != nil {
			fmt.Println("cannot load replay:", err)
			os.Exit(2)
		}
		fmt.Println("replaying", sig, "class", rc.Class)
		v := describe(rc.Source)
		if v.Kind != "pass" && v.Kind != "skip" {
			os.Exit(1)
		}
		os.Exit(0)
	}
	if os.Getenv("C05_COUNT") != "" { // developer aid: size of the enumeration, nothing executed
		cnt := map[string]int{}
		seen := map[[16]byte]bool{}
		bad := 0
		GenerateAll(run.Thorough(), func(src, class string) {
			h := hash16(src)
			if seen[h] {
				return
			}
			seen[h] = true
			cnt[strings.SplitN(class, "|", 2)[0]]++
			cnt["total"]++
			if os.Getenv("C05_COUNT") == "wf" {
				ps, err := ParseSource(src)
				if err != nil {
					bad++
					fmt.Println("PARSE", err, "\n"+src)
				} else if ok, why := WellFormed(ps); !ok {
					bad++
					if bad < 5 {
						fmt.Println("NOT-WF", why, "\n"+src)
					}
				}
			}
		})
		fmt.Println(cnt, "not-wf:", bad)
		return
	}
	self, _ := os.Executable()
	dir, cleanup := vlib.Scratch("c05")
	defer cleanup()

	workers := runtime.NumCPU()
	if workers > 16 {
		workers = 16
	}
	deadline := time.Now().Add(105 * time.Second)
	if run.Thorough() {
		deadline = time.Now().Add(17 * time.Minute)
	}
	const batchSize = 200

	var mu sync.Mutex
	passClasses := map[string]bool{}
	allClasses := map[string]bool{}
	famEval := map[string]int{}
	famPass := map[string]int{}
	rejectClasses := map[string]int{}
	knownCases := map[string]int{}
	nEval, nAcc, nRej, nSkip, nPass, nDyn, nWrites := 0, 0, 0, 0, 0, 0, 0
	sampleByFam := map[string]bool{}
	harnessErr := 0
	nAmbig := 0

	handle := func(src, class string, r Real) {
		v := Judge(src, r)
		fam := strings.SplitN(class, "|", 2)[0]
		mu.Lock()
		defer mu.Unlock()
		nEval++
		famEval[fam]++
		allClasses[class] = true
		if r.Stage == "ok" {
			nAcc++
		} else {
			nRej++
			rejectClasses[errClass(r)]++
		}
		switch v.Kind {
		case "skip":
			nSkip++
			harnessErr++
			fmt.Fprintf(os.Stderr, "generator produced a source outside the subset (%s):\n%s\n", v.What, src)
		case "pass":
			nPass++
			famPass[fam]++
			if v.Dynamic {
				nDyn++
				nWrites += v.Writes
			}
			if v.Accepted && (v.Writes > 0 || !v.Dynamic) {
				passClasses[class] = true
			}
			if !sampleByFam[fam] && v.Writes > 1 {
				sampleByFam[fam] = true
				mu.Unlock()
				run.Sample(map[string]any{"class": class, "source": src, "disasm": r.Disasm, "bm_output_streams": streams(r.Trace)})
				mu.Lock()
			}
		case "known-ambiguous":
			nAmbig++
		case "known":
			for _, s := range v.Sigs {
				knownCases[s]++
			}
			mu.Unlock()
			for _, s := range v.Sigs {
				run.Report(s, v.What+"\nsource:\n"+src, replayCase{src, class})
			}
			mu.Lock()
		case "violation":
			mu.Unlock()
			run.Report(v.Sigs[0], v.What+"\nsource:\n"+src, replayCase{src, class})
			mu.Lock()
		}
	}

	jobs := make(chan job, workers*2)
	var wg sync.WaitGroup
	var batchID int
	for w := 0; w < workers; w++ {
		wg.Add(1)
		go func() {
			defer wg.Done()
			for j := range jobs {
				mu.Lock()
				batchID++
				id := batchID
				mu.Unlock()
				res, err := runBatch(self, dir, id, j.srcs, 4*time.Minute)
				if err != nil {
					// a worker died or hung: isolate the culprit by re-running one source per process
					for i, s := range j.srcs {
						if i < len(res) {
							handle(s, j.classes[i], res[i])
							continue
						}
						one, e1 := runBatch(self, dir, id*100000+i, []string{s}, 60*time.Second)
						if e1 != nil || len(one) != 1 {
							run.Report("C05|assembler|process-crash-or-hang", fmt.Sprintf("the pipeline crashed outside the calling goroutine or hung (%v)\nsource:\n%s", e1, s), replayCase{s, j.classes[i]})
							mu.Lock()
							nEval++
							nRej++
							mu.Unlock()
							continue
						}
						handle(s, j.classes[i], one[0])
					}
					continue
				}
				for i, s := range j.srcs {
					handle(s, j.classes[i], res[i])
				}
			}
		}()
	}

	exhaustive := true
	prunedNotWF := 0
	generated := 0
	seen := map[[16]byte]bool{}
	cur := job{}
	emit := func(src, class string) {
		if !exhaustive {
			return
		}
		h := hash16(src)
		if seen[h] {
			return
		}
		seen[h] = true
		if time.Now().After(deadline) {
			exhaustive = false
			return
		}
		if ps, err := ParseSource(src); err != nil {
			prunedNotWF++
			return
		} else if ok, _ := WellFormed(ps); !ok {
			prunedNotWF++ // e.g. a program made only of jumps: no register, refused by design
			return
		}
		generated++
		cur.srcs = append(cur.srcs, src)
		cur.classes = append(cur.classes, class)
		if len(cur.srcs) >= batchSize {
			jobs <- cur
			cur = job{}
		}
	}
	bounds := GenerateAll(run.Thorough(), emit)
	if len(cur.srcs) > 0 {
		jobs <- cur
	}
	close(jobs)
	wg.Wait()

	run.Set("evaluations", nEval)
	run.Set("generated", generated)
	run.Set("pruned_not_wellformed", prunedNotWF)
	run.Set("accepted", nAcc)
	run.Set("rejected", nRej)
	run.Set("rejected_by_error_class", rejectClasses)
	run.Set("passed_all_oracles", nPass)
	run.Set("passed_with_dynamic_oracle", nDyn)
	run.Set("reference_output_changes_compared", nWrites)
	run.Set("classes_enumerated", len(allClasses))
	run.Set("distinct_nontrivial", len(passClasses))
	run.Set("evaluations_by_family", famEval)
	run.Set("passed_by_family", famPass)
	run.Set("cases_attributed_to_known_defects", knownCases)
	run.Set("cases_explained_by_several_known_defects_each_sufficient", nAmbig)
	run.Set("exhaustive", exhaustive)
	run.Set("bounds", bounds)
	run.Set("workers", workers)
	run.Set("rule", "for every enumerated well-formed source: (accept) the assembler must produce a machine; (static) per CP Machine.Disassembler() == reference flattening (macros expanded textually, entry dropped, label = index of next instruction, pseudo resolved, literals as values), section meta entry == index of the entry label, ROM data == declared bytes, BM io counts == ioatt; (dynamic) BM output vector after each of "+fmt.Sprint(Ticks)+" ticks == reference interpreter started at the DECLARED entry (until the reference leaves the program)")
	if !exhaustive {
		run.Set("cap_hit", "wall-clock budget reached before the enumeration finished; remaining sources not generated")
	}
	if harnessErr > 0 {
		run.Set("generator_sources_outside_subset", harnessErr)
	}
	run.Assume("macro parameters are written NASM-style (%1..%n): pkg/basm documents `%macro name nparams` only, and expandMacro never looks at the arguments, so no spelling can work")
	run.Assume("pseudo `mov reg, number` is enumerated with DisableDynamicalMatching active (what `basm -disable-dynamical-matching` does); in the default configuration it needs a chooser criterion by design")
	run.Assume("programs whose reference execution leaves the program (falls off the end) are compared only up to that tick")
	run.Assume("handshaked opcodes (r2owa/i2rw, iomode:sync): static oracle everywhere; dynamic oracle only on CP-to-CP links, as timing-independent value sequences (blocking send/receive); handshakes with the outside of the BM are not simulated. and/or/xor/not have no HLAssemblerMatch pattern and cannot be written in BASM at all")
	run.Finish()
}

func streams(tr [][]uint64) []string {
	var out []string
	if len(tr) == 0 {
		return out
	}
	for k := range tr[0] {
		out = append(out, strings.Trim(fmt.Sprint(col(tr, k)), "[]"))
	}
	return out
}

func hash16(s string) [16]byte {
	// FNV-1a 128 would do; two independent 64-bit FNV variants are enough for dedup
	var h1, h2 uint64 = 14695981039346656037, 1099511628211
	for i := 0; i < len(s); i++ {
		h1 = (h1 ^ uint64(s[i])) * 1099511628211
		h2 = (h2 + uint64(s[i])) * 14029467366897019727
		h2 ^= h2 >> 29
	}
	var o [16]byte
	for i := 0; i < 8; i++ {
		o[i] = byte(h1 >> (8 * uint(i)))
		o[8+i] = byte(h2 >> (8 * uint(i)))
	}
	return o
}

// describe runs one source on the real code and on the reference and prints everything.
func describe(src string) Verdict {
	out := os.Stdout
	null, _ := os.OpenFile(os.DevNull, os.O_WRONLY, 0)
	os.Stdout = null
	r := runReal(src)
	os.Stdout = out
	fmt.Println("---- source ----")
	fmt.Print(src)
	fmt.Println("---- real pipeline ----")
	fmt.Printf("stage=%s err=%q rsize=%d in=%d out=%d bonds=%s entry-meta=%v\n", r.Stage, r.Err, r.Rsize, r.NIn, r.NOut, r.Bonds, r.Entry)
	for i, d := range r.Disasm {
		fmt.Printf("cp %d disassembly: %s   data=%v\n", i, strings.Join(d, " ; "), r.Data[i])
	}
	if len(r.Trace) > 0 {
		for k := range r.Trace[0] {
			fmt.Printf("bm output %d per tick: %v\n", k, col(r.Trace, k))
		}
	}
	fmt.Println("---- reference ----")
	if s, err := ParseSource(src); err == nil {
		fl := Flatten(s, 0)
		if fl.Reject != "" {
			fmt.Println("reference: not well-formed:", fl.Reject)
		} else {
			start := make([]int, len(fl.CPs))
			for i, cp := range fl.CPs {
				fmt.Printf("cp %s flattening: %s   entry=%d data=%v\n", cp.Name, strings.Join(flatLines(cp), " ; "), cp.Entry, cp.Data)
				start[i] = cp.Entry
			}
			tr := Interpret(s, fl, start, make([]int, len(fl.CPs)), Ticks)
			if len(tr) > 0 {
				for k := range tr[0] {
					fmt.Printf("bm output %d per tick: %v\n", k, col(tr, k))
				}
			}
		}
	} else {
		fmt.Println("reference cannot parse:", err)
	}
	v := Judge(src, r)
	fmt.Println("---- verdict ----")
	fmt.Println(v.Kind, v.Sigs)
	if v.What != "" {
		fmt.Println(v.What)
	}
	return v
}

var _ = sort.Strings
