#!/bin/bash
# C05 runner: usage  checks/c05/run.sh <quick|thorough> [extra args, e.g. -replay FILE]
# Builds the check against /repo's CURRENT working tree (plus the VERIF_OVERLAY mutant overlay, if
# set). The only custom step: the standard library's regexp.Compile is memoised through a build
# overlay (pkg/basm recompiles the same ~300 patterns for every operand of every line, 85% of the
# assembler's run time); the cache changes no behaviour (/repo never calls Regexp.Longest) and lets
# the enumeration be ~6x larger inside the same wall-clock budget. If the overlay cannot be
# prepared the check is built plainly and simply covers less before its deadline (exhaustive:false).
set -u
cd /verif
. /verif/env.sh
tier="${1:-quick}"; shift || true
S=$(mktemp -d /tmp/verif-c05-XXXXXX) || exit 2
trap 'rm -rf "$S"' EXIT INT TERM
GOROOT_DIR=$(go env GOROOT)
OV=""
if python3 - "$GOROOT_DIR" "$S" "${VERIF_OVERLAY:-}" <<'PY'
import json, sys
goroot, scratch, mutant = sys.argv[1], sys.argv[2], sys.argv[3]
path = goroot + "/src/regexp/regexp.go"
src = open(path).read()
old = """func Compile(expr string) (*Regexp, error) {
	return compile(expr, syntax.Perl, false)
}"""
new = """func Compile(expr string) (*Regexp, error) {
	if v, ok := verifCompileCache.Load(expr); ok {
		return v.(*Regexp), nil
	}
	re, err := compile(expr, syntax.Perl, false)
	if err == nil {
		verifCompileCache.Store(expr, re)
	}
	return re, err
}

var verifCompileCache sync.Map"""
rep = {}
if old in src and '"sync"' in src:
    open(scratch + "/regexp_cached.go", "w").write(src.replace(old, new))
    rep[path] = scratch + "/regexp_cached.go"
if mutant:
    rep.update(json.load(open(mutant)).get("Replace", {}))
json.dump({"Replace": rep}, open(scratch + "/overlay.json", "w"))
PY
then OV="-overlay=$S/overlay.json"
elif [ -n "${VERIF_OVERLAY:-}" ]; then OV="-overlay=$VERIF_OVERLAY"
fi
out="$S/c05"
if ! go build $OV -o "$out" ./checks/c05 2> "$S/buildlog"; then
  cat "$S/buildlog" >&2
  echo "BUILD-FAILED check=C05 (the check could not be built against the current /repo tree)" >&2
  exit 2
fi
"$out" -tier "$tier" "$@"
exit $?
