package main

// Reference semantics of the (non-channel) opcodes bondgo emits, used ONLY to attribute a mismatch
// between the source and the generated hardware to its layer:
//   source  vs ISA model of the emitted assembly  -> code generation (pkg/bondgo)
//   ISA model vs generated HDL, instruction by instruction -> the hardware of one opcode (pkg/procbuilder)
// The verdict itself is always HDL trace vs reference evaluation of the source.
//
// Semantics (as implemented by procbuilder's own Simulate functions where those are not stubs, and
// by the opcode names otherwise): clr r: r=0 | rset r v: r=v | cpy d s: d=s | add d s: d+=s |
// mult d s: d*=s | inc r / dec r | m2r r a: r=ram[a] | r2m r a: ram[a]=r | r2o r o: out o <- r |
// i2r r i: r=in i | j a: pc=a | jz r a: pc=a if r==0 | je r1 r2 a: pc=a if r1==r2.

import (
	"fmt"
	"strconv"
	"strings"
)

type isaInstr struct {
	op   string
	args []string
}

type isaState struct {
	rsize int
	mask  uint64
	prog  []isaInstr
	regs  map[int]uint64
	mem   map[int]uint64
	pc    int
	outs  map[int][]uint64
	err   string
	// multi-processor model (channel.go): posted channel operations and the wait state of chw
	mp      bool
	pending []pendOp
	waiting bool
	waitReg int
}

// pendOp is a channel operation posted by wwr (send) / wrd (receive) and completed while the
// processor waits in chw.
type pendOp struct {
	kind string // send | recv
	reg  int
	ch   int // local channel index
	val  uint64
}

func parseAsm(asm string) ([]isaInstr, error) {
	var prog []isaInstr
	for _, l := range strings.Split(asm, "\n") {
		f := strings.Fields(l)
		if len(f) == 0 {
			continue
		}
		prog = append(prog, isaInstr{f[0], f[1:]})
	}
	return prog, nil
}

func newISA(prog []isaInstr, rsize int) *isaState {
	s := &isaState{rsize: rsize, prog: prog, regs: map[int]uint64{}, mem: map[int]uint64{}, outs: map[int][]uint64{}}
	s.mask = (uint64(1) << uint(rsize)) - 1
	if rsize >= 64 {
		s.mask = ^uint64(0)
	}
	return s
}

func idx(tok string, prefix string) (int, bool) {
	if !strings.HasPrefix(tok, prefix) {
		return 0, false
	}
	n, err := strconv.Atoi(tok[len(prefix):])
	return n, err == nil
}

// step executes one instruction; returns false when the program has ended or cannot continue.
func (s *isaState) step() bool {
	if s.pc < 0 || s.pc >= len(s.prog) || s.err != "" {
		return false
	}
	in := s.prog[s.pc]
	bad := func() bool {
		s.err = fmt.Sprintf("cannot interpret `%s %s`", in.op, strings.Join(in.args, " "))
		return false
	}
	reg := func(i int) (int, bool) {
		if i >= len(in.args) {
			return 0, false
		}
		return idx(in.args[i], "r")
	}
	num := func(i int) (int, bool) {
		if i >= len(in.args) {
			return 0, false
		}
		n, err := strconv.ParseUint(in.args[i], 0, 64)
		return int(n), err == nil
	}
	next := s.pc + 1
	switch in.op {
	case "clr":
		r, ok := reg(0)
		if !ok {
			return bad()
		}
		s.regs[r] = 0
	case "rset":
		r, ok := reg(0)
		v, ok2 := num(1)
		if !ok || !ok2 {
			return bad()
		}
		s.regs[r] = uint64(v) & s.mask
	case "cpy":
		d, ok := reg(0)
		r, ok2 := reg(1)
		if !ok || !ok2 {
			return bad()
		}
		s.regs[d] = s.regs[r]
	case "add":
		d, ok := reg(0)
		r, ok2 := reg(1)
		if !ok || !ok2 {
			return bad()
		}
		s.regs[d] = (s.regs[d] + s.regs[r]) & s.mask
	case "mult":
		d, ok := reg(0)
		r, ok2 := reg(1)
		if !ok || !ok2 {
			return bad()
		}
		s.regs[d] = (s.regs[d] * s.regs[r]) & s.mask
	case "inc":
		r, ok := reg(0)
		if !ok {
			return bad()
		}
		s.regs[r] = (s.regs[r] + 1) & s.mask
	case "dec":
		r, ok := reg(0)
		if !ok {
			return bad()
		}
		s.regs[r] = (s.regs[r] - 1) & s.mask
	case "m2r":
		r, ok := reg(0)
		a, ok2 := num(1)
		if !ok || !ok2 {
			return bad()
		}
		s.regs[r] = s.mem[a]
	case "r2m":
		r, ok := reg(0)
		a, ok2 := num(1)
		if !ok || !ok2 {
			return bad()
		}
		s.mem[a] = s.regs[r]
	case "r2o":
		r, ok := reg(0)
		if !ok || len(in.args) < 2 {
			return bad()
		}
		o, ok2 := idx(in.args[1], "o")
		if !ok2 {
			return bad()
		}
		s.outs[o] = append(s.outs[o], s.regs[r])
	case "i2r":
		r, ok := reg(0)
		if !ok {
			return bad()
		}
		s.regs[r] = inputValue & s.mask
	case "j":
		a, ok := num(0)
		if !ok {
			return bad()
		}
		next = a
	case "jz":
		r, ok := reg(0)
		a, ok2 := num(1)
		if !ok || !ok2 {
			return bad()
		}
		if s.regs[r] == 0 {
			next = a
		}
	case "je":
		r1, ok := reg(0)
		r2, ok2 := reg(1)
		a, ok3 := num(2)
		if !ok || !ok2 || !ok3 {
			return bad()
		}
		if s.regs[r1] == s.regs[r2] {
			next = a
		}
	case "wwr", "wrd":
		if !s.mp {
			return bad()
		}
		r, ok := reg(0)
		if !ok || len(in.args) < 2 {
			return bad()
		}
		c, ok2 := idx(in.args[1], "ch")
		if !ok2 {
			return bad()
		}
		if in.op == "wwr" {
			s.pending = append(s.pending, pendOp{kind: "send", reg: r, ch: c, val: s.regs[r]})
		} else {
			s.pending = append(s.pending, pendOp{kind: "recv", reg: r, ch: c})
		}
	case "chw":
		// wait until one of the posted operations completed; the register receives its index
		if !s.mp {
			return bad()
		}
		r, ok := reg(0)
		if !ok {
			return bad()
		}
		s.waiting, s.waitReg = true, r
		return true // the pc advances when the rendezvous happens
	default:
		return bad()
	}
	s.pc = next
	return true
}

// runISA interprets the whole program (first pass) with a step limit.
func runISA(asm string, rsize, limit int) (outs map[int][]uint64, status string) {
	prog, _ := parseAsm(asm)
	if len(prog) == 0 {
		return nil, "no-assembly"
	}
	s := newISA(prog, rsize)
	for i := 0; i < limit; i++ {
		if !s.step() {
			if s.err != "" {
				return s.outs, "isa-model: " + s.err
			}
			return s.outs, "ran"
		}
	}
	return s.outs, "no-end"
}
