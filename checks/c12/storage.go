package main

// Part 2, STORAGE REUSE family: block scoped memory locals are released at the end of their block
// and their cells reused by the next block, so the number of cells in use goes up and down; the
// machine bondgo requests must be sized for the MAXIMUM, not for the last allocation.
//
//	func main() {
//		var o0 bondgo.Output; var a uintN; [var b uintN]; [var reg_t uintN]; o0 = Make(...)
//		a = 9; [b = 8]
//		BLOCK1 declaring k1 memory locals, BLOCK2 declaring k2 (, BLOCK3 declaring k3)
//		        each local: var mXY uintN; mXY = <distinct constant>; bondgo.IOWrite(o0, mXY)
//		bondgo.IOWrite(o0, a); [bondgo.IOWrite(o0, b)]
//	}
//
// sibling forms: bare/bare | if reg_t == 1 {..} else {..} (source and hardware both take the else
// branch: independent of the je placeholder; thorough also reg_t == 0) | bare block followed by k2
// further top level declarations.  k1, k2 (, k3) in 0..3, all tuples.

import (
	"encoding/json"
	"fmt"
	"strings"
)

func storageLocals(block, k, rsize int, ind string) string {
	var b strings.Builder
	for i := 1; i <= k; i++ {
		n := fmt.Sprintf("m%d%d", block, i)
		fmt.Fprintf(&b, "%svar %s uint%d\n%s%s = %d\n%sbondgo.IOWrite(o0, %s)\n", ind, n, rsize, ind, n, 10*block+i, ind, n)
	}
	return b.String()
}

// storageSource: form is a list of sibling constructs: "bare" (one block), "ifelse1"/"ifelse0"
// (two blocks: if body and else body, condition reg_t == 1 / == 0), "decl" (top level declarations).
func storageSource(rsize, outer int, form []string, ks []int) string {
	var b strings.Builder
	ut := fmt.Sprintf("uint%d", rsize)
	needT := false
	for _, f := range form {
		if strings.HasPrefix(f, "ifelse") {
			needT = true
		}
	}
	b.WriteString("package main\n\nimport (\n\t\"bondgo\"\n)\n\nfunc main() {\n\tvar o0 bondgo.Output\n\tvar a " + ut + "\n")
	if outer > 1 {
		b.WriteString("\tvar b " + ut + "\n")
	}
	if needT {
		b.WriteString("\tvar reg_t " + ut + "\n")
	}
	b.WriteString("\to0 = bondgo.Make(bondgo.Output, 3)\n\ta = 9\n")
	if outer > 1 {
		b.WriteString("\tb = 8\n")
	}
	blk := 0
	next := func() (int, int) { blk++; return blk, ks[blk-1] }
	for _, f := range form {
		switch f {
		case "bare":
			n, k := next()
			b.WriteString("\t{\n" + storageLocals(n, k, rsize, "\t\t") + "\t}\n")
		case "ifelse1", "ifelse0":
			n1, k1 := next()
			n2, k2 := next()
			b.WriteString("\tif reg_t == " + f[len(f)-1:] + " {\n" + storageLocals(n1, k1, rsize, "\t\t") + "\t} else {\n" + storageLocals(n2, k2, rsize, "\t\t") + "\t}\n")
		case "decl":
			n, k := next()
			b.WriteString(storageLocals(n, k, rsize, "\t"))
		}
	}
	b.WriteString("\tbondgo.IOWrite(o0, a)\n")
	if outer > 1 {
		b.WriteString("\tbondgo.IOWrite(o0, b)\n")
	}
	b.WriteString("}\n")
	return b.String()
}

func tuples(n, max int) [][]int {
	if n == 0 {
		return [][]int{nil}
	}
	var out [][]int
	for _, t := range tuples(n-1, max) {
		for k := 0; k <= max; k++ {
			out = append(out, append(append([]int{}, t...), k))
		}
	}
	return out
}

func storagePrograms(thorough bool) (progs []*semProg, descr []string) {
	add := func(rsize, outer int, form []string, ks []int) {
		size := 2
		for _, k := range ks {
			size += 3 * k
		}
		progs = append(progs, &semProg{Rsize: rsize, Size: size, Alpha: "storage", Source: storageSource(rsize, outer, form, ks), Expect: "accepted"})
	}
	forms2 := [][]string{{"bare", "bare"}, {"ifelse1"}, {"bare", "decl"}}
	rsizes := []int{8}
	if thorough {
		forms2 = append(forms2, []string{"ifelse0"})
		rsizes = []int{8, 16}
	}
	for _, rs := range rsizes {
		n0 := len(progs)
		for _, outer := range []int{1, 2} {
			for _, form := range forms2 {
				for _, ks := range tuples(2, 3) {
					add(rs, outer, form, ks)
				}
			}
		}
		descr = append(descr, fmt.Sprintf("uint%d/storage-two-siblings:%d", rs, len(progs)-n0))
	}
	if thorough {
		forms3 := [][]string{{"bare", "bare", "bare"}, {"ifelse1", "bare"}, {"bare", "ifelse1"}, {"bare", "bare", "decl"}}
		for _, rs := range rsizes {
			n0 := len(progs)
			for _, outer := range []int{1, 2} {
				for _, form := range forms3 {
					for _, ks := range tuples(3, 3) {
						add(rs, outer, form, ks)
					}
				}
			}
			descr = append(descr, fmt.Sprintf("uint%d/storage-three-siblings:%d", rs, len(progs)-n0))
		}
	}
	return
}

// misfitKind says WHICH operand of the emitted assembly does not fit the instruction word of the
// requested machine (the assembler message only names the opcode): every operand of every line using
// that opcode is checked against its field of the machine (R register bits, L RAM address bits,
// O ROM address bits, Rsize immediate bits, N inputs, M outputs).
func misfitKind(machJSON []byte, asm, msg string) string {
	var mj struct {
		Rsize, R, N, M, L, O int
	}
	if json.Unmarshal(machJSON, &mj) != nil {
		return "unclassified"
	}
	op := ""
	if i := strings.Index(msg, "error processing "); i >= 0 {
		f := strings.Fields(msg[i+len("error processing "):])
		if len(f) > 0 {
			op = f[0]
		}
	}
	kinds := map[string]bool{}
	prog, _ := parseAsm(asm)
	check := func(only string) {
		for _, in := range prog {
			if only != "" && in.op != only {
				continue
			}
			for ai, a := range in.args {
				switch {
				case strings.HasPrefix(a, "r"):
					if n, ok := idx(a, "r"); ok && n >= 1<<uint(mj.R) {
						kinds["register"] = true
					}
				case strings.HasPrefix(a, "o"):
					if n, ok := idx(a, "o"); ok && n >= mj.M {
						kinds["output-index"] = true
					}
				case strings.HasPrefix(a, "i"):
					if n, ok := idx(a, "i"); ok && n >= mj.N {
						kinds["input-index"] = true
					}
				default:
					var n uint64
					if _, err := fmt.Sscan(a, &n); err != nil {
						continue
					}
					switch in.op {
					case "j", "jz", "je":
						if n >= 1<<uint(mj.O) {
							kinds["rom-address(j/jz)"] = true
						}
					case "m2r", "r2m":
						if n >= 1<<uint(mj.L) {
							kinds["ram-address(r2m/m2r)"] = true
						}
					case "rset":
						if ai == 1 && mj.Rsize < 64 && n >= 1<<uint(mj.Rsize) {
							kinds["immediate(rset)"] = true
						}
					}
				}
			}
		}
	}
	check(op)
	if len(kinds) == 0 {
		check("")
	}
	if len(kinds) == 0 {
		return "unclassified(" + op + ")"
	}
	return strings.Join(keys(kinds), "+")
}
