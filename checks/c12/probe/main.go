package main

import (
	"encoding/json"
	"fmt"
	"os"
	"sort"

	"github.com/BondMachineHQ/BondMachine/pkg/bondmachine"
	"github.com/BondMachineHQ/BondMachine/pkg/procbuilder"
	"verif/lib/bmgen"
)

func main() {
	b, _ := os.ReadFile(os.Args[1])
	var mj procbuilder.Machine_json
	if err := json.Unmarshal(b, &mj); err != nil {
		panic(err)
	}
	m := (&mj).Dejsoner()
	bm := bmgen.SingleBM(m)
	files, err := bmgen.RenderFiles(bm, new(bondmachine.Config), "iverilog")
	if err != nil {
		panic(err)
	}
	var names []string
	for n := range files {
		names = append(names, n)
	}
	sort.Strings(names)
	for _, n := range names {
		os.WriteFile(os.Args[2]+"/"+n, []byte(files[n]), 0o644)
		fmt.Println(n, len(files[n]))
	}
}
