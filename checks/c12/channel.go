package main

// Part 2, CHANNEL / GOROUTINE family: small multi-processor programs (compiled with -mpm).
//
// Constructs: channel declaration, send, receive, `go f(c)` with a worker that forwards what it
// receives to an output, a channel passed to an ORDINARY (inlined) function that sends / receives on
// it, channel-to-channel assignment, a channel shared by two goroutines, a channel declared in a
// nested block; 1..2 channels, 1..2 goroutines.
//
// Oracles, in this order:
//  (1) termination: the compiler must complete; a program for which EVERY explored schedule of the
//      compiler ends in an empty enabled set (proven blocked-forever state, gosched explorer) is a hang;
//      it is re-run in a fresh process before it is reported;
//  (2) chanCompilations independent compilations (separate processes, same compiler schedule) emit
//      identical assembly and bondmachine JSON;
//  (3) semantics at the ISA level: a multi-processor model of the emitted assembly (per processor
//      ISA model of isa.go + rendezvous channels wired as the saved bondmachine wires them) must write
//      the same values to every output as a small-step reference evaluator of the source with Go
//      channel semantics.  The generated HDL of channel machines cannot be simulated (the generators of
//      chw/wrd/wwr and of the channel shared object emit Verilog that does not elaborate: findings of
//      property C18), so there is no hardware trace for this family; an elaboration attempt is made and
//      counted for every program.

import (
	"encoding/json"
	"fmt"
	"go/ast"
	"go/parser"
	"go/token"
	"os"
	"path/filepath"
	"regexp"
	"sort"
	"strconv"
	"strings"
)

// ------------------------------------------------------------------ generator

const chanLib = `func fwd1(c chan T) {
	var o1 bondgo.Output
	var x T
	o1 = bondgo.Make(bondgo.Output, 4)
	x = <-c
	bondgo.IOWrite(o1, x)
}

func fwd2(c chan T) {
	var o2 bondgo.Output
	var x T
	o2 = bondgo.Make(bondgo.Output, 5)
	x = <-c
	bondgo.IOWrite(o2, x)
}

func fwdtwice(c chan T) {
	var o1 bondgo.Output
	var x T
	o1 = bondgo.Make(bondgo.Output, 4)
	x = <-c
	bondgo.IOWrite(o1, x)
	x = <-c
	bondgo.IOWrite(o1, x)
}

func src1(c chan T) {
	c <- 3
}

func relay(ci chan T, co chan T) {
	var x T
	x = <-ci
	co <- x
}

func emit(c chan T, v T) T {
	c <- v
	return v
}

func take(c chan T) T {
	var x T
	x = <-c
	return x
}

func prod(c chan T) {
	c <- 1
	c <- 2
	c <- 3
	c <- 4
}

func prodtwo(a chan T, b chan T) {
	a <- 1
	b <- 5
	a <- 2
	b <- 10
}
`

type chanScenario struct {
	name  string
	body  []string // statements of main after the standard declarations
	chans []string // channels declared at the top of main
	rej   bool
	any   bool // the compiler may refuse the program (construct outside its subset): judged only if accepted
	ncomp int  // independent compilations (0 = chanCompilations)
}

func chanSource(sc chanScenario, rsize int) string {
	body := strings.Join(sc.body, "\n")
	var b strings.Builder
	b.WriteString("package main\n\nimport (\n\t\"bondgo\"\n)\n\n")
	// only the functions the program uses (the compiler walks every declared function)
	for _, fn := range strings.Split(strings.TrimSpace(chanLib), "\n\n") {
		name := fn[len("func "):strings.Index(fn, "(")]
		if strings.Contains(body, name+"(") {
			b.WriteString(fn + "\n\n")
		}
	}
	b.WriteString("func main() {\n")
	if strings.Contains(body, "o0") {
		b.WriteString("\tvar o0 bondgo.Output\n")
	}
	for _, c := range sc.chans {
		b.WriteString("\tvar " + c + " chan T\n")
	}
	if regexp.MustCompile(`\by\b`).MatchString(body) {
		b.WriteString("\tvar y T\n")
	}
	if regexp.MustCompile(`\bx\b`).MatchString(body) {
		b.WriteString("\tvar x T\n")
	}
	if regexp.MustCompile(`\bv\b`).MatchString(body) {
		b.WriteString("\tvar v T\n")
	}
	if strings.Contains(body, "o0") {
		b.WriteString("\to0 = bondgo.Make(bondgo.Output, 3)\n")
	}
	for _, l := range sc.body {
		b.WriteString("\t" + strings.ReplaceAll(l, "\n", "\n\t") + "\n")
	}
	b.WriteString("}\n")
	return strings.ReplaceAll(b.String(), "T", fmt.Sprintf("uint%d", rsize))
}

func channelScenarios(thorough bool) []chanScenario {
	var out []chanScenario
	type side struct {
		name string
		goSt string // go statement (placed first), "" if the side runs in main
		main []string
	}
	recv := []side{
		{"recv-in-goroutine", "go fwd1(CR)", nil},
		{"recv-in-main", "", []string{"y = <-CR", "bondgo.IOWrite(o0, y)"}},
		{"recv-in-ordinary-function", "", []string{"y = take(CR)", "bondgo.IOWrite(o0, y)"}},
	}
	send := []side{
		{"send-in-main", "", []string{"CS <- 5"}},
		{"send-in-ordinary-function", "", []string{"y = emit(CS, 7)", "bondgo.IOWrite(o0, y)"}},
		{"send-in-goroutine", "go src1(CS)", nil},
	}
	for _, r := range recv {
		for _, s := range send {
			if r.goSt == "" && s.goSt == "" {
				continue // both ends in main: the source itself deadlocks
			}
			for _, alias := range []string{"none", "alias-send", "alias-recv"} {
				cr, cs := "c", "c"
				sc := chanScenario{name: r.name + "+" + s.name + "+" + alias, chans: []string{"c"}}
				switch alias {
				case "alias-send":
					cs = "c2"
				case "alias-recv":
					cr = "c2"
				}
				if alias != "none" {
					sc.chans = append(sc.chans, "c2")
					sc.body = append(sc.body, "c2 = c")
				}
				rep := strings.NewReplacer("CR", cr, "CS", cs)
				for _, g := range []string{r.goSt, s.goSt} {
					if g != "" {
						sc.body = append(sc.body, rep.Replace(g))
					}
				}
				// main's own blocking operations after the goroutines were started
				for _, l := range append(append([]string{}, s.main...), r.main...) {
					sc.body = append(sc.body, rep.Replace(l))
				}
				out = append(out, sc)
			}
		}
	}
	extra := []chanScenario{
		{name: "pipeline-two-channels", chans: []string{"c", "d"}, body: []string{"go relay(c, d)", "go fwd1(d)", "c <- 5"}},
		{name: "two-independent-pairs", chans: []string{"c", "d"}, body: []string{"go fwd1(c)", "go fwd2(d)", "c <- 5", "d <- 6"}},
		{name: "two-messages-one-channel", chans: []string{"c"}, body: []string{"go fwdtwice(c)", "c <- 5", "c <- 6"}},
		{name: "goroutine-to-goroutine-to-main", chans: []string{"c", "d"}, body: []string{"go src1(c)", "go relay(c, d)", "y = <-d", "bondgo.IOWrite(o0, y)"}},
		{name: "channel-declared-in-nested-block", body: []string{"{\n\tvar c chan T\n\tgo fwd1(c)\n\tc <- 5\n}"}},
		{name: "ordinary-functions-on-both-channels", chans: []string{"c", "d"}, body: []string{"go relay(c, d)", "y = emit(c, 7)", "y = take(d)", "bondgo.IOWrite(o0, y)"}},
		{name: "channel-made-with-make", chans: []string{"c"}, body: []string{"c = make(chan T)", "go fwd1(c)", "c <- 5"}, rej: true},
	}
	out = append(out, extra...)
	if thorough {
		for _, e := range extra[:4] {
			a := e
			a.name += "+alias-send"
			a.chans = append(append([]string{}, e.chans...), "c2")
			a.body = append([]string{"c2 = c"}, e.body...)
			for i, l := range a.body {
				if strings.HasPrefix(l, "c <- ") {
					a.body[i] = "c2" + l[1:]
				}
			}
			out = append(out, a)
		}
	}
	return out
}

// exprOrderScenarios: EXPRESSION ORDER sub-family.  A producer goroutine sends an ascending sequence
// (1,2,3,4 on one channel; 1,5,2,10 alternately on two channels a,b); main computes x = L op R twice and
// writes x to its output each time.  L and R range over the operand forms below (all ordered pairs):
// Go evaluates the communications of an expression left to right.
var exprForms = []string{"<-C", "<-C*3", "<-C+1", "(<-C)", "take(C)", "2", "v"}

func exprOrderScenarios(thorough bool) []chanScenario {
	var out []chanScenario
	hasComm := func(f string) bool { return strings.Contains(f, "C") }
	slice := map[string]bool{"<-C": true, "<-C*3": true, "take(C)": true, "v": true}
	for _, op := range []string{"+", "*"} {
		for _, two := range []bool{false, true} {
			for _, l := range exprForms {
				for _, r := range exprForms {
					if op == "*" && !thorough && !(slice[l] && slice[r]) {
						continue // quick: a slice of the pairs for *
					}
					if two && !hasComm(l) {
						continue // two channels: the producer starts with channel a, which only the left operand uses
					}
					lc, rc := "c", "c"
					sc := chanScenario{chans: []string{"c"}}
					start := "go prod(c)"
					if two {
						lc, rc = "a", "b"
						sc.chans = []string{"a", "b"}
						start = "go prodtwo(a, b)"
					}
					e := strings.ReplaceAll(l, "C", lc) + " " + op + " " + strings.ReplaceAll(r, "C", rc)
					sc.name = fmt.Sprintf("expression-order:%s|%s|%s|two-channels=%v", l, op, r, two)
					sc.body = []string{"v = 7", start, "x = " + e, "bondgo.IOWrite(o0, x)", "x = " + e, "bondgo.IOWrite(o0, x)"}
					sc.any = strings.Contains(e, "(")
					out = append(out, sc)
				}
			}
		}
	}
	return out
}

func channelPrograms(thorough bool) (progs []*semProg, descr []string) {
	rsizes := []int{8}
	if thorough {
		rsizes = []int{8, 16}
	}
	for _, rs := range rsizes {
		n0 := len(progs)
		for _, sc := range channelScenarios(thorough) {
			p := &semProg{Rsize: rs, Size: len(sc.body), Alpha: "channel:" + sc.name, Source: chanSource(sc, rs), Expect: "accepted", Mpm: true, Compilations: chanCompilations}
			if sc.rej {
				p.Expect = "rejected"
			}
			progs = append(progs, p)
		}
		descr = append(descr, fmt.Sprintf("uint%d/channel-goroutine:%d", rs, len(progs)-n0))
		n0 = len(progs)
		for _, sc := range exprOrderScenarios(thorough) {
			p := &semProg{Rsize: rs, Size: len(sc.body), Alpha: "channel:" + sc.name, Source: chanSource(sc, rs), Expect: "accepted", Mpm: true, Compilations: 2}
			if sc.any {
				p.Expect = "any"
			}
			progs = append(progs, p)
		}
		descr = append(descr, fmt.Sprintf("uint%d/channel-expression-order:%d", rs, len(progs)-n0))
	}
	return
}

// channelFeatures names the statement classes of a channel program (for grouping failures).
func channelFeatures(src string) []string {
	f := map[string]bool{}
	mainBody := src[strings.Index(src, "func main()"):]
	if regexp.MustCompile(`\n\t+c2 = c\n`).MatchString(mainBody) {
		f["channel-to-channel-assignment"] = true
	}
	if strings.Contains(mainBody, "emit(") || strings.Contains(mainBody, "take(") {
		f["channel-passed-to-ordinary-function"] = true
	}
	if strings.Contains(mainBody, "\t\tvar c chan") {
		f["channel-declared-in-nested-block"] = true
	}
	if strings.Contains(mainBody, "relay(") {
		f["goroutine-with-two-channels"] = true
	}
	if strings.Contains(mainBody, "make(chan") {
		f["make-chan"] = true
	}
	if n := strings.Count(mainBody, "\tgo "); n >= 2 {
		f["two-goroutines"] = true
	}
	for k := range exprOrderFeatures(src) {
		f[k] = true
	}
	if len(f) == 0 {
		f["channel-send-receive-goroutine"] = true
	}
	return keys(f)
}

// exprOrderFeatures describes the first `x = L op R` of main whose operands communicate: where the
// communications sit (bare receive / receive nested in a compound operand / call of a function).
func exprOrderFeatures(src string) map[string]bool {
	f := map[string]bool{}
	file, err := parser.ParseFile(token.NewFileSet(), "p.go", src, 0)
	if err != nil {
		return f
	}
	var kind func(x ast.Expr) string // "" | recv | nested-recv | call
	kind = func(x ast.Expr) string {
		switch t := x.(type) {
		case *ast.UnaryExpr:
			if t.Op == token.ARROW {
				return "recv"
			}
		case *ast.ParenExpr:
			if kind(t.X) != "" {
				return "paren-" + strings.TrimPrefix(kind(t.X), "paren-")
			}
		case *ast.CallExpr:
			if _, ok := t.Fun.(*ast.Ident); ok {
				return "call"
			}
		case *ast.BinaryExpr:
			if kind(t.X) != "" || kind(t.Y) != "" {
				return "nested-recv"
			}
		}
		return ""
	}
	chans := map[string]bool{}
	var collect func(x ast.Expr)
	collect = func(x ast.Expr) {
		switch t := x.(type) {
		case *ast.UnaryExpr:
			if id, ok := t.X.(*ast.Ident); ok && t.Op == token.ARROW {
				chans[id.Name] = true
			}
		case *ast.ParenExpr:
			collect(t.X)
		case *ast.BinaryExpr:
			collect(t.X)
			collect(t.Y)
		case *ast.CallExpr:
			for _, a := range t.Args {
				if id, ok := a.(*ast.Ident); ok && (id.Name == "a" || id.Name == "b" || id.Name == "c") {
					chans[id.Name] = true
				}
			}
		}
	}
	for _, d := range file.Decls {
		fd, ok := d.(*ast.FuncDecl)
		if !ok || fd.Name.Name != "main" {
			continue
		}
		for _, s := range fd.Body.List {
			as, ok := s.(*ast.AssignStmt)
			if !ok {
				continue
			}
			be, ok := as.Rhs[0].(*ast.BinaryExpr)
			if !ok {
				continue
			}
			if kind(be) == "" {
				continue
			}
			// every binary node of the expression whose operands communicate
			var nodes func(x ast.Expr)
			nodes = func(x ast.Expr) {
				switch t := x.(type) {
				case *ast.ParenExpr:
					nodes(t.X)
				case *ast.BinaryExpr:
					if l := kind(t.X); l != "" {
						f["expr:left-"+l] = true
					}
					if r := kind(t.Y); r != "" {
						f["expr:right-"+r] = true
					}
					nodes(t.X)
					nodes(t.Y)
				}
			}
			nodes(be)
			collect(be)
			if len(chans) >= 2 {
				f["expr:two-channels"] = true
			}
			return f
		}
	}
	return f
}

func isChannelProgram(src string) bool { return strings.Contains(src, " chan ") }

// ------------------------------------------------------------------ reference evaluator (go/ast, small step)
//
// Every goroutine executes the statements of its frames one at a time.  A statement may contain
// several communication operations (receives inside expressions, calls of ordinary functions that
// send / receive): they are performed strictly LEFT TO RIGHT (Go: operands, function calls and
// communication operations are evaluated in lexical left-to-right order).  A statement that reaches
// a communication that cannot proceed is abandoned and re-executed from its start once the rendezvous
// happened, replaying the communications it already completed from a log (statements have no other
// effect before their last communication: assignments store at the end, functions called inside
// expressions only touch their own fresh locals).

type cval struct {
	kind string // num | chan | out
	u    uint64
	ch   *rchan
	out  int
}

type rchan struct{ id int }

type cenv struct {
	vars   map[string]*cval
	parent *cenv
}

func (e *cenv) lookup(n string) *cval {
	for ; e != nil; e = e.parent {
		if v, ok := e.vars[n]; ok {
			return v
		}
	}
	return nil
}

type cframe struct {
	stmts []ast.Stmt
	idx   int
	env   *cenv
}

type gor struct {
	frames []*cframe
	log    []uint64 // communications of the current statement already completed (received values)
	pos    int
	// blocked operation
	want string // "" | send | recv
	ch   *rchan
	val  uint64
	done bool
}

type chanRefResult struct {
	Outs    map[int][]uint64 // global output id -> values
	Blocked int              // goroutines blocked forever at quiescence
	Err     string
}

type refBlocked struct{}
type refReturn struct{ v *cval }

func chanRefEval(src string, rsize int) chanRefResult {
	fset := token.NewFileSet()
	file, err := parser.ParseFile(fset, "p.go", src, 0)
	if err != nil {
		return chanRefResult{Err: "parse: " + err.Error()}
	}
	mask := (uint64(1) << uint(rsize)) - 1
	funcs := map[string]*ast.FuncDecl{}
	for _, d := range file.Decls {
		if fd, ok := d.(*ast.FuncDecl); ok {
			funcs[fd.Name.Name] = fd
		}
	}
	res := chanRefResult{Outs: map[int][]uint64{}}
	fail := func(f string, a ...any) {
		if res.Err == "" {
			res.Err = fmt.Sprintf(f, a...)
		}
	}
	nchan := 0
	var gs []*gor
	bind := func(fd *ast.FuncDecl, args []*cval) *cenv {
		env := &cenv{vars: map[string]*cval{}}
		i := 0
		if fd.Type.Params != nil {
			for _, p := range fd.Type.Params.List {
				for _, n := range p.Names {
					if i < len(args) {
						v := *args[i]
						env.vars[n.Name] = &v
					}
					i++
				}
			}
		}
		return env
	}
	// comm performs the next communication of the current statement of g, or abandons the statement
	comm := func(g *gor, kind string, ch *rchan, val uint64) uint64 {
		if g.pos < len(g.log) {
			v := g.log[g.pos]
			g.pos++
			return v
		}
		g.want, g.ch, g.val = kind, ch, val
		panic(refBlocked{})
	}
	var eval func(g *gor, env *cenv, x ast.Expr) *cval
	var exec func(g *gor, env *cenv, s ast.Stmt, top bool)
	call := func(g *gor, env *cenv, c *ast.CallExpr) *cval {
		id, ok := c.Fun.(*ast.Ident)
		if !ok {
			fail("unsupported call")
			return &cval{kind: "num"}
		}
		fd := funcs[id.Name]
		if fd == nil {
			fail("undefined function %s", id.Name) // e.g. make: the evaluator mirrors the accepted subset
			return &cval{kind: "num"}
		}
		var args []*cval
		for _, a := range c.Args {
			args = append(args, eval(g, env, a))
		}
		fenv := bind(fd, args)
		var rv *cval
		func() {
			defer func() {
				if p := recover(); p != nil {
					if r, ok := p.(refReturn); ok {
						rv = r.v
						return
					}
					panic(p)
				}
			}()
			for _, s := range fd.Body.List {
				exec(g, fenv, s, false)
			}
		}()
		if rv == nil {
			rv = &cval{kind: "num"}
		}
		return rv
	}
	eval = func(g *gor, env *cenv, x ast.Expr) *cval {
		switch t := x.(type) {
		case *ast.BasicLit:
			u, _ := strconv.ParseUint(t.Value, 0, 64)
			return &cval{kind: "num", u: u & mask}
		case *ast.Ident:
			v := env.lookup(t.Name)
			if v == nil {
				fail("undefined %s", t.Name)
				return &cval{kind: "num"}
			}
			return v
		case *ast.ParenExpr:
			return eval(g, env, t.X)
		case *ast.UnaryExpr:
			if t.Op == token.ARROW {
				c := eval(g, env, t.X)
				return &cval{kind: "num", u: comm(g, "recv", c.ch, 0) & mask}
			}
		case *ast.BinaryExpr:
			l := eval(g, env, t.X) // left operand first, completely
			lu := l.u
			r := eval(g, env, t.Y)
			switch t.Op {
			case token.ADD:
				return &cval{kind: "num", u: (lu + r.u) & mask}
			case token.MUL:
				return &cval{kind: "num", u: (lu * r.u) & mask}
			}
		case *ast.CallExpr:
			return call(g, env, t)
		}
		fail("unsupported expression %T", x)
		return &cval{kind: "num"}
	}
	exec = func(g *gor, env *cenv, s ast.Stmt, top bool) {
		switch x := s.(type) {
		case *ast.DeclStmt:
			gd := x.Decl.(*ast.GenDecl)
			for _, sp := range gd.Specs {
				vs := sp.(*ast.ValueSpec)
				for _, n := range vs.Names {
					v := &cval{kind: "num"}
					switch vs.Type.(type) {
					case *ast.ChanType:
						nchan++
						v = &cval{kind: "chan", ch: &rchan{id: nchan}}
					case *ast.SelectorExpr:
						v = &cval{kind: "out"}
					}
					env.vars[n.Name] = v
				}
			}
		case *ast.AssignStmt:
			id, ok := x.Lhs[0].(*ast.Ident)
			if !ok || len(x.Rhs) != 1 {
				fail("unsupported assignment")
				return
			}
			dst := env.lookup(id.Name)
			if dst == nil {
				fail("undefined %s", id.Name)
				return
			}
			if c, ok := x.Rhs[0].(*ast.CallExpr); ok {
				if se, ok := c.Fun.(*ast.SelectorExpr); ok {
					if se.Sel.Name == "Make" {
						k, _ := strconv.Atoi(c.Args[1].(*ast.BasicLit).Value)
						dst.out = k
						return
					}
					fail("unsupported call %s", se.Sel.Name)
					return
				}
			}
			v := eval(g, env, x.Rhs[0])
			if v.kind == "chan" {
				dst.kind, dst.ch = "chan", v.ch // Go: both names now denote the same channel
			} else {
				dst.u = v.u & mask
			}
		case *ast.SendStmt:
			c := eval(g, env, x.Chan)
			v := eval(g, env, x.Value)
			comm(g, "send", c.ch, v.u&mask)
		case *ast.ExprStmt:
			c, ok := x.X.(*ast.CallExpr)
			if !ok {
				fail("unsupported expression statement")
				return
			}
			if se, ok := c.Fun.(*ast.SelectorExpr); ok {
				if se.Sel.Name != "IOWrite" {
					fail("unsupported call statement")
					return
				}
				o := eval(g, env, c.Args[0])
				v := eval(g, env, c.Args[1])
				res.Outs[o.out] = append(res.Outs[o.out], v.u&mask)
				return
			}
			call(g, env, c)
		case *ast.GoStmt:
			fd := funcs[x.Call.Fun.(*ast.Ident).Name]
			if fd == nil {
				fail("undefined function in go statement")
				return
			}
			var args []*cval
			for _, a := range x.Call.Args {
				args = append(args, eval(g, env, a))
			}
			gs = append(gs, &gor{frames: []*cframe{{stmts: fd.Body.List, env: bind(fd, args)}}})
		case *ast.ReturnStmt:
			var rv *cval
			if len(x.Results) == 1 {
				rv = eval(g, env, x.Results[0])
			}
			if top {
				g.frames = nil // return from the goroutine's own function
				return
			}
			panic(refReturn{rv})
		case *ast.BlockStmt:
			if top {
				g.frames = append(g.frames, &cframe{stmts: x.List, env: &cenv{vars: map[string]*cval{}, parent: env}})
				return
			}
			benv := &cenv{vars: map[string]*cval{}, parent: env}
			for _, s2 := range x.List {
				exec(g, benv, s2, false)
			}
		default:
			fail("unsupported statement %T", s)
		}
	}
	// step runs g until it blocks or ends
	step := func(g *gor) {
		for res.Err == "" && g.want == "" && !g.done {
			if len(g.frames) == 0 {
				g.done = true
				return
			}
			fr := g.frames[len(g.frames)-1]
			if fr.idx >= len(fr.stmts) {
				g.frames = g.frames[:len(g.frames)-1]
				continue
			}
			blocked := false
			func() {
				defer func() {
					if p := recover(); p != nil {
						if _, ok := p.(refBlocked); ok {
							blocked = true
							return
						}
						panic(p)
					}
				}()
				g.pos = 0
				exec(g, fr.env, fr.stmts[fr.idx], true)
			}()
			if blocked {
				return
			}
			fr.idx++
			g.log = g.log[:0]
		}
	}
	if funcs["main"] == nil {
		return chanRefResult{Err: "no main"}
	}
	gs = append(gs, &gor{frames: []*cframe{{stmts: funcs["main"].Body.List, env: &cenv{vars: map[string]*cval{}}}}})
	for round := 0; round < 2000 && res.Err == ""; round++ {
		for i := 0; i < len(gs); i++ { // gs may grow
			step(gs[i])
		}
		// one rendezvous
		matched := false
	match:
		for _, s := range gs {
			if s.want != "send" {
				continue
			}
			for _, r := range gs {
				if r != s && r.want == "recv" && r.ch == s.ch && s.ch != nil {
					r.log = append(r.log, s.val)
					s.log = append(s.log, 0)
					s.want, r.want = "", ""
					matched = true
					break match
				}
			}
		}
		if !matched {
			break
		}
	}
	for _, g := range gs {
		if g.want != "" {
			res.Blocked++
		}
	}
	return res
}

// ------------------------------------------------------------------ multi-processor ISA model

type mpResult struct {
	Outs    map[int][]uint64 // global output id -> values
	Blocked int
	Status  string // ran | isa-model: ... | artefacts: ...
}

// runMP interprets the assembly files of all processors with rendezvous channels wired as in the saved
// bondmachine (Shared_links: local channel index -> shared object) and outputs named by the global
// ids of the requirements dump.
func runMP(dir string, log string, rsize int) mpResult {
	bmj, err := os.ReadFile(filepath.Join(dir, "bm.json"))
	if err != nil {
		return mpResult{Status: "artefacts: no bondmachine"}
	}
	var bm struct {
		Processors   []int
		Shared_links [][]int
	}
	if err := json.Unmarshal(bmj, &bm); err != nil {
		return mpResult{Status: "artefacts: " + err.Error()}
	}
	// global output ids per processor from the requirements dump (--- IO --- proc N / Outputs: a,b)
	outIDs := map[int][]int{}
	if i := strings.Index(log, "--- IO ---"); i >= 0 {
		sec := log[i:]
		if j := strings.Index(sec, "--- Channels ---"); j >= 0 {
			sec = sec[:j]
		}
		cur := -1
		for _, l := range strings.Split(sec, "\n") {
			l = strings.TrimSpace(l)
			if strings.HasPrefix(l, "proc ") {
				cur, _ = strconv.Atoi(strings.TrimPrefix(l, "proc "))
			}
			if k := strings.Index(l, "Outputs:"); k >= 0 && cur >= 0 {
				for _, f := range strings.Split(strings.TrimSpace(l[k+len("Outputs:"):]), ",") {
					if n, err := strconv.Atoi(strings.TrimSpace(f)); err == nil {
						outIDs[cur] = append(outIDs[cur], n)
					}
				}
			}
		}
	}
	n := len(bm.Processors)
	procs := make([]*isaState, n)
	for p := 0; p < n; p++ {
		asm, err := os.ReadFile(filepath.Join(dir, "out.asm_"+strconv.Itoa(p)))
		if err != nil {
			return mpResult{Status: fmt.Sprintf("artefacts: no assembly for processor %d", p)}
		}
		prog, _ := parseAsm(string(asm))
		procs[p] = newISA(prog, rsize)
		procs[p].mp = true
	}
	res := mpResult{Outs: map[int][]uint64{}, Status: "ran"}
	global := func(p, local int) int {
		if p < len(bm.Shared_links) && local < len(bm.Shared_links[p]) {
			return bm.Shared_links[p][local]
		}
		return -1000 - p*16 - local // not wired: never matches
	}
	for round := 0; round < 10000; round++ {
		for _, s := range procs {
			for i := 0; i < 5000 && !s.waiting && s.step(); i++ {
			}
			if s.err != "" {
				res.Status = "isa-model: " + s.err
				return res
			}
		}
		matched := false
	match:
		for p, s := range procs {
			if !s.waiting {
				continue
			}
			for si, so := range s.pending {
				if so.kind != "send" {
					continue
				}
				for q, r := range procs {
					if q == p || !r.waiting {
						continue
					}
					for ri, ro := range r.pending {
						if ro.kind == "recv" && global(q, ro.ch) == global(p, so.ch) {
							r.regs[ro.reg] = so.val
							s.regs[s.waitReg], r.regs[r.waitReg] = uint64(si), uint64(ri)
							s.pending, r.pending = nil, nil
							s.waiting, r.waiting = false, false
							s.pc++
							r.pc++
							matched = true
							break match
						}
					}
				}
			}
		}
		if !matched {
			break
		}
	}
	for p, s := range procs {
		if s.waiting {
			res.Blocked++
		}
		for local, vals := range s.outs {
			id := -1 - p*16 - local
			if local < len(outIDs[p]) {
				id = outIDs[p][local]
			}
			res.Outs[id] = append(res.Outs[id], vals...)
		}
	}
	return res
}

func fmtOutMap(m map[int][]uint64) string {
	var ks []int
	for k := range m {
		ks = append(ks, k)
	}
	sort.Ints(ks)
	var parts []string
	for _, k := range ks {
		parts = append(parts, fmt.Sprintf("out%d=%v", k, m[k]))
	}
	if len(parts) == 0 {
		return "(nothing)"
	}
	return strings.Join(parts, " ")
}

func outMapsEqual(a, b map[int][]uint64) bool {
	for k, x := range a {
		if len(x) > 0 && fmt.Sprint(x) != fmt.Sprint(b[k]) {
			return false
		}
	}
	for k, x := range b {
		if len(x) > 0 && fmt.Sprint(x) != fmt.Sprint(a[k]) {
			return false
		}
	}
	return true
}

// ------------------------------------------------------------------ judge

func readAsmSet(dir string) map[string]string {
	m := map[string]string{}
	ents, _ := os.ReadDir(dir)
	for _, e := range ents {
		if strings.HasPrefix(e.Name(), "out.asm") || e.Name() == "bm.json" {
			b, _ := os.ReadFile(filepath.Join(dir, e.Name()))
			m[e.Name()] = string(b)
		}
	}
	return m
}

func asmListing(set map[string]string) string {
	var names []string
	for n := range set {
		if strings.HasPrefix(n, "out.asm") {
			names = append(names, n)
		}
	}
	sort.Strings(names)
	var parts []string
	for _, n := range names {
		parts = append(parts, "p"+strings.TrimPrefix(n, "out.asm_")+": "+strings.ReplaceAll(strings.TrimSpace(set[n]), "\n", "; "))
	}
	return strings.Join(parts, " | ")
}

const chanCompilations = 12 // independent compilations of every channel program (directories p.dir, p.dir-again1..11): Go iterates a two entry map in the "other" order only about once in eight times

func chanDirSuffix(i int) string {
	if i == 0 {
		return ""
	}
	return fmt.Sprintf("-again%d", i)
}

// judgeChannel: cs are the independent compilations of p (see chanDirSuffix).  The result may carry a
// second outcome in Extra (artefacts differ AND one of the variants is wrong).
func judgeChannel(xw *execWorker, p *semProg, cs []compiled) *semOutcome {
	oc := &semOutcome{Prog: p}
	logb, _ := os.ReadFile(filepath.Join(p.dir, ".c12.stdout"))
	oc.Log = string(logb)
	for _, c := range cs {
		switch c.Status {
		case "panic":
			oc.Class, oc.Detail = "compile-panic", c.Panic
			return oc
		case "completed":
		default:
			cc := c
			oc.Class, oc.Detail, oc.Compiled = "compile-"+c.Status, c.Detail, &cc
			return oc
		}
	}
	sets := make([]map[string]string, len(cs))
	for i := range cs {
		sets[i] = readAsmSet(p.dir + chanDirSuffix(i))
	}
	oc.Asm = asmListing(sets[0])
	if _, ok := sets[0]["bm.json"]; !ok {
		if p.Expect == "rejected" || p.Expect == "any" {
			oc.Class = "rejected-as-expected"
		} else {
			oc.Class, oc.Detail = "rejected", firstLine(oc.Log)
		}
		return oc
	}
	if p.Expect == "rejected" {
		oc.Class = "accepted-unexpectedly"
		return oc
	}
	// messages of the machine assembler (printed after the requirements dump)
	if msg := assemblerMessage(oc.Log); msg != "" {
		oc.Class, oc.Detail = "assembly-not-runnable", msg
		oc.Misfit = "multi-processor"
		return oc
	}
	// (2) identical artefacts across the compilations: the assembly may differ, and the bondmachine
	// JSON may differ between compilations whose assembly is identical (two different causes)
	asmKey := func(set map[string]string) string {
		c := map[string]string{}
		for n, v := range set {
			if n != "bm.json" {
				c[n] = v
			}
		}
		return fmt.Sprint(c)
	}
	var differ *semOutcome
	addDiffer := func(kind, what string, i, j int) {
		d := &semOutcome{Prog: p, Log: oc.Log, Asm: oc.Asm, Class: "artefacts-differ-between-two-compilations", Artefact: kind}
		d.Detail = fmt.Sprintf("%s between compilation %d and %d of the same program (same compiler schedule); %d: %s links %s ; %d: %s links %s", what, i+1, j+1, i+1, asmListing(sets[i]), linksOf(sets[i]), j+1, asmListing(sets[j]), linksOf(sets[j]))
		d.Extra = differ
		differ = d
	}
	asmDone, bmDone := false, false
	for i := 0; i < len(sets); i++ {
		for j := i + 1; j < len(sets); j++ {
			same := asmKey(sets[i]) == asmKey(sets[j])
			if !same && !asmDone {
				asmDone = true
				addDiffer("assembly", "the assembly differs", i, j)
			}
			if same && sets[i]["bm.json"] != sets[j]["bm.json"] && !bmDone {
				bmDone = true
				addDiffer("machine-json", "the bondmachine JSON (Shared_links: which shared object each local channel index is wired to) differs while the assembly is identical", i, j)
			}
		}
	}
	// (3) ISA level semantics of every distinct variant
	ref := chanRefEval(p.Source, p.Rsize)
	if ref.Err != "" {
		oc.Class, oc.Detail = "harness:evaluator", ref.Err
		return oc
	}
	oc.ExpectedMP = ref.Outs
	var wrong *semOutcome
	seen := map[string]bool{}
	for i := range sets {
		key := fmt.Sprint(sets[i])
		if seen[key] {
			continue
		}
		seen[key] = true
		dir := p.dir + chanDirSuffix(i)
		mp := runMP(dir, oc.Log, p.Rsize)
		if i == 0 {
			oc.GotMP = mp.Outs
		}
		if strings.HasPrefix(mp.Status, "artefacts") {
			oc.Class, oc.Detail = "harness:artefacts", mp.Status
			return oc
		}
		bad := ""
		if strings.HasPrefix(mp.Status, "isa-model") {
			bad = fmt.Sprintf("the emitted assembly cannot be interpreted (%s)", mp.Status)
		} else if !outMapsEqual(ref.Outs, mp.Outs) || ref.Blocked != mp.Blocked {
			bad = fmt.Sprintf("source (Go channel semantics, run to quiescence) writes %s with %d goroutines blocked forever; the emitted assembly under the multi-processor ISA model writes %s with %d processors blocked forever", fmtOutMap(ref.Outs), ref.Blocked, fmtOutMap(mp.Outs), mp.Blocked)
		}
		if bad != "" && wrong == nil {
			wrong = &semOutcome{Prog: p, Log: oc.Log, Class: "codegen-mismatch", ExpectedMP: ref.Outs, GotMP: mp.Outs}
			wrong.Asm = asmListing(sets[i]) + " | channel wiring (Shared_links) " + linksOf(sets[i])
			wrong.Detail = fmt.Sprintf("compilation %d of %d: %s", i+1, len(sets), bad)
		}
	}
	// hardware attempt (counted, never compared: see the header)
	if bmj, err := os.ReadFile(filepath.Join(p.dir, "bm.json")); err == nil {
		h := xw.runBM(bmj)
		oc.HDLNote = h.Status + ": " + h.Detail
	}
	switch {
	case differ != nil:
		differ.HDLNote, differ.ExpectedMP, differ.GotMP = oc.HDLNote, oc.ExpectedMP, oc.GotMP
		if wrong != nil {
			wrong.WiringSuspect = true
			last := differ
			for last.Extra != nil {
				last = last.Extra
			}
			last.Extra = wrong
		}
		return differ
	case wrong != nil:
		wrong.HDLNote = oc.HDLNote
		return wrong
	}
	oc.Class = "ok"
	return oc
}

func linksOf(set map[string]string) string {
	var bm struct{ Shared_links [][]int }
	json.Unmarshal([]byte(set["bm.json"]), &bm)
	return fmt.Sprint(bm.Shared_links)
}
