package main

import "verif/lib/vlib"

func part2(run *vlib.Run, bt *built) bool { return false }

func replaySem(run *vlib.Run, bt *built) {}
