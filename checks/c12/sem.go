package main

// Part 2: bounded-exhaustive exploration of program semantics.
//
// Every program of a size-bounded grammar over the Go subset bondgo accepts is
//   1. compiled by the compiler built from /repo's current tree (under the controlled scheduler,
//      because the shipped compiler deadlocks in many free schedules: see part 1),
//   2. executed: the machine JSON the compiler saved is loaded through procbuilder's own
//      Machine_json.Dejsoner, wrapped in a BondMachine, rendered to Verilog by the repository's
//      generators (bmgen.RenderFiles) and simulated cycle by cycle with the vsim engine; the values
//      appearing on each output port while its valid strobe is high are recorded,
//   3. evaluated by a reference interpreter working on go/ast with wrap-around at the register size,
// and the two output traces are compared.

import (
	"bufio"
	"encoding/json"
	"fmt"
	"go/ast"
	"go/parser"
	"go/token"
	"io"
	"os"
	"os/exec"
	"path/filepath"
	"sort"
	"strconv"
	"strings"
	"sync"
	"time"

	"github.com/BondMachineHQ/BondMachine/pkg/bondmachine"
	"github.com/BondMachineHQ/BondMachine/pkg/procbuilder"

	"verif/engines/vsim"
	"verif/lib/bmgen"
	"verif/lib/vlib"
)

// ------------------------------------------------------------------ grammar

type alphabet struct {
	Name   string
	Exprs  []string // right hand sides (MAX is replaced by 2^N-1)
	IncDec []string
	Writes []string
	Conds  []string
	Loops  []string // for headers
}

var alphaFull = alphabet{
	Name:   "full",
	Exprs:  []string{"2", "MAX", "@other", "a + reg_b", "reg_b + MAX", "a * reg_b", "a + reg_b * 2", "bondgo.IORead(i0)", "f(reg_b)"},
	IncDec: []string{"a++", "a--", "reg_b++", "reg_b--"},
	Writes: []string{"bondgo.IOWrite(o0, a)", "bondgo.IOWrite(o0, reg_b)", "bondgo.IOWrite(o1, a + reg_b)"},
	Conds:  []string{"a == reg_b", "a == 2", "reg_b == 0", "a == reg_b == false"},
	Loops:  []string{"for reg_b = 0; reg_b == 2 == false; reg_b++", "for a = 2; a == 0 == false; a--"},
}

var alphaMid = alphabet{
	Name:   "mid",
	Exprs:  []string{"MAX", "@other", "a + reg_b", "a * reg_b"},
	IncDec: []string{"a++", "reg_b--"},
	Writes: []string{"bondgo.IOWrite(o0, a)", "bondgo.IOWrite(o0, reg_b)"},
	Conds:  []string{"a == reg_b", "reg_b == 0 == false"},
	Loops:  []string{"for reg_b = 0; reg_b == 2 == false; reg_b++", "for a = 2; a == 0 == false; a--"},
}

var alphaMidB = alphabet{
	Name:   "midB",
	Exprs:  []string{"MAX", "@other", "a + reg_b"},
	IncDec: []string{"reg_b--"},
	Writes: []string{"bondgo.IOWrite(o0, a)", "bondgo.IOWrite(o0, reg_b)"},
	Conds:  []string{"reg_b == 0 == false"},
	Loops:  []string{"for reg_b = 0; reg_b == 2 == false; reg_b++", "for a = 2; a == 0 == false; a--"},
}

var alphaTiny = alphabet{
	Name:   "tiny",
	Exprs:  []string{"a + reg_b"},
	IncDec: []string{"a++"},
	Writes: []string{"bondgo.IOWrite(o0, a)"},
	Conds:  []string{"a == reg_b"},
	Loops:  []string{"for reg_b = 0; reg_b == 2 == false; reg_b++"},
}

var alphaSmall = alphabet{
	Name:   "small",
	Exprs:  []string{"MAX", "a + reg_b"},
	IncDec: []string{"a++"},
	Writes: []string{"bondgo.IOWrite(o0, a)"},
	Conds:  []string{"a == reg_b"},
	Loops:  []string{"for reg_b = 0; reg_b == 2 == false; reg_b++"},
}

// rejected by the compiler as a whole class ("Unsopported binary operation"): enumerated only to
// check that the rejection is clean (terminates, no panic, no artefact)
var rejectedExprs = []string{"a - reg_b", "a & reg_b", "a | reg_b", "a ^ reg_b", "a / reg_b", "a << 1"}

// stmt is a statement tree; size = number of statements including nested ones.
type stmt struct {
	text   string // simple statement, or header of a compound
	kind   string // assign | incdec | write | if | ifelse | for
	body   []*stmt
	els    []*stmt
	target string // assign: variable written
	reads  string // assign: rhs text
}

func (s *stmt) hasWrite() bool {
	if s.kind == "write" {
		return true
	}
	for _, b := range s.body {
		if b.hasWrite() {
			return true
		}
	}
	for _, b := range s.els {
		if b.hasWrite() {
			return true
		}
	}
	return false
}

func render(ss []*stmt, ind string, b *strings.Builder) {
	for _, s := range ss {
		switch s.kind {
		case "if", "for":
			b.WriteString(ind + s.text + " {\n")
			render(s.body, ind+"\t", b)
			b.WriteString(ind + "}\n")
		case "ifelse":
			b.WriteString(ind + s.text + " {\n")
			render(s.body, ind+"\t", b)
			b.WriteString(ind + "} else {\n")
			render(s.els, ind+"\t", b)
			b.WriteString(ind + "}\n")
		default:
			b.WriteString(ind + s.text + "\n")
		}
	}
}

type enumerator struct {
	al     alphabet
	simple []*stmt
	seqMem map[int][][]*stmt
	stMem  map[int][]*stmt
}

func newEnumerator(al alphabet) *enumerator {
	e := &enumerator{al: al, seqMem: map[int][][]*stmt{}, stMem: map[int][]*stmt{}}
	for _, tgt := range []string{"a", "reg_b"} {
		other := "reg_b"
		if tgt == "reg_b" {
			other = "a"
		}
		for _, x := range al.Exprs {
			x = strings.ReplaceAll(x, "@other", other)
			e.simple = append(e.simple, &stmt{text: tgt + " = " + x, kind: "assign", target: tgt, reads: x})
		}
	}
	for _, x := range al.IncDec {
		e.simple = append(e.simple, &stmt{text: x, kind: "incdec"})
	}
	for _, x := range al.Writes {
		e.simple = append(e.simple, &stmt{text: x, kind: "write"})
	}
	return e
}

// stmts returns every statement of exactly the given size.
func (e *enumerator) stmts(n int) []*stmt {
	if n == 1 {
		return e.simple
	}
	if r, ok := e.stMem[n]; ok {
		return r
	}
	var out []*stmt
	for _, c := range e.al.Conds {
		for _, body := range e.seqs(n - 1) {
			out = append(out, &stmt{text: "if " + c, kind: "if", body: body})
		}
		for i := 1; i <= n-2; i++ {
			for _, body := range e.seqs(i) {
				for _, els := range e.seqs(n - 1 - i) {
					out = append(out, &stmt{text: "if " + c, kind: "ifelse", body: body, els: els})
				}
			}
		}
	}
	for _, l := range e.al.Loops {
		for _, body := range e.seqs(n - 1) {
			out = append(out, &stmt{text: l, kind: "for", body: body})
		}
	}
	e.stMem[n] = out
	return out
}

// seqs returns every statement sequence of total size n (canonical-form pruning P2 applied).
func (e *enumerator) seqs(n int) [][]*stmt {
	if n == 0 {
		return [][]*stmt{nil}
	}
	if r, ok := e.seqMem[n]; ok {
		return r
	}
	var out [][]*stmt
	for k := 1; k <= n; k++ {
		for _, first := range e.stmts(k) {
			for _, rest := range e.seqs(n - k) {
				// P2: an assignment immediately overwritten by an assignment that does not read it is dead
				if first.kind == "assign" && len(rest) > 0 && rest[0].kind == "assign" && rest[0].target == first.target && !strings.Contains(rest[0].reads, first.target) {
					continue
				}
				out = append(out, append([]*stmt{first}, rest...))
			}
		}
	}
	e.seqMem[n] = out
	return out
}

// programs returns the canonical programs of exactly size n: P1 the last top-level statement contains a write.
func (e *enumerator) programs(n int) [][]*stmt {
	var out [][]*stmt
	for _, s := range e.seqs(n) {
		if s[len(s)-1].hasWrite() {
			out = append(out, s)
		}
	}
	return out
}

type semProg struct {
	ID           int
	Rsize        int
	Size         int
	Alpha        string
	Source       string
	Expect       string // accepted | rejected (whole class the compiler refuses)
	Mpm          bool   // multi-processor program: compiled with -mpm (channel family)
	Compilations int    // channel family: independent compilations of the program
	dir          string
	src          string
}

const inputValue = 0x5A

func sourceOf(body []*stmt, rsize int) string {
	var bs strings.Builder
	render(body, "\t", &bs)
	txt := bs.String()
	max := strconv.FormatUint((uint64(1)<<uint(rsize))-1, 10)
	txt = strings.ReplaceAll(txt, "MAX", max)
	ut := fmt.Sprintf("uint%d", rsize)
	var b strings.Builder
	b.WriteString("package main\n\nimport (\n\t\"bondgo\"\n)\n\n")
	if strings.Contains(txt, "f(") {
		b.WriteString("func f(x " + ut + ") " + ut + " {\n\treturn x + x\n}\n\n")
	}
	b.WriteString("func main() {\n\tvar o0 bondgo.Output\n")
	if strings.Contains(txt, "o1") {
		b.WriteString("\tvar o1 bondgo.Output\n")
	}
	if strings.Contains(txt, "i0") {
		b.WriteString("\tvar i0 bondgo.Input\n")
	}
	b.WriteString("\tvar a " + ut + "\n\tvar reg_b " + ut + "\n\to0 = bondgo.Make(bondgo.Output, 3)\n")
	if strings.Contains(txt, "o1") {
		b.WriteString("\to1 = bondgo.Make(bondgo.Output, 4)\n")
	}
	if strings.Contains(txt, "i0") {
		b.WriteString("\ti0 = bondgo.Make(bondgo.Input, 5)\n")
	}
	b.WriteString(txt)
	b.WriteString("}\n")
	return b.String()
}

// ------------------------------------------------------------------ reference evaluator (go/ast)

type refVal struct {
	isBool bool
	b      bool
	u      uint64
	io     int // IO handle: index+1 of the output/input (declaration order)
}

type refEnv struct {
	mask    uint64
	vars    []map[string]*refVal
	funcs   map[string]*ast.FuncDecl
	outs    map[string]int // output variable -> port index (declaration order)
	ins     map[string]int
	trace   map[int][]uint64
	steps   int
	limit   int
	err     error
	retVal  *refVal
	retFlag bool
	brk     bool // break / continue in progress (innermost loop)
	cont    bool
}

type refResult struct {
	Outs    map[int][]uint64
	Steps   int
	Err     string // evaluator cannot handle the program (harness limit) or step limit
	NOut    int
	Timeout bool
}

func refEval(src string, rsize int) refResult {
	fset := token.NewFileSet()
	f, err := parser.ParseFile(fset, "p.go", src, 0)
	if err != nil {
		return refResult{Err: "parse: " + err.Error()}
	}
	env := &refEnv{mask: (uint64(1) << uint(rsize)) - 1, funcs: map[string]*ast.FuncDecl{}, outs: map[string]int{}, ins: map[string]int{}, trace: map[int][]uint64{}, limit: 20000}
	if rsize == 64 {
		env.mask = ^uint64(0)
	}
	for _, d := range f.Decls {
		if fd, ok := d.(*ast.FuncDecl); ok {
			env.funcs[fd.Name.Name] = fd
		}
	}
	mainf := env.funcs["main"]
	if mainf == nil {
		return refResult{Err: "no main"}
	}
	env.push()
	env.block(mainf.Body.List)
	r := refResult{Outs: env.trace, Steps: env.steps, NOut: len(env.outs)}
	if env.err != nil {
		r.Err = env.err.Error()
		r.Timeout = env.steps > env.limit
	}
	return r
}

func (e *refEnv) push() { e.vars = append(e.vars, map[string]*refVal{}) }
func (e *refEnv) pop()  { e.vars = e.vars[:len(e.vars)-1] }
func (e *refEnv) lookup(n string) *refVal {
	for i := len(e.vars) - 1; i >= 0; i-- {
		if v, ok := e.vars[i][n]; ok {
			return v
		}
	}
	return nil
}
func (e *refEnv) fail(f string, a ...any) {
	if e.err == nil {
		e.err = fmt.Errorf(f, a...)
	}
}

func (e *refEnv) block(list []ast.Stmt) {
	for _, s := range list {
		if e.err != nil || e.retFlag || e.brk || e.cont {
			return
		}
		e.stmt(s)
	}
}

func (e *refEnv) stmt(s ast.Stmt) {
	e.steps++
	if e.steps > e.limit {
		e.fail("step limit")
		return
	}
	switch x := s.(type) {
	case *ast.DeclStmt:
		gd, ok := x.Decl.(*ast.GenDecl)
		if !ok || gd.Tok != token.VAR {
			e.fail("unsupported declaration")
			return
		}
		for _, sp := range gd.Specs {
			vs := sp.(*ast.ValueSpec)
			for _, n := range vs.Names {
				v := &refVal{}
				if se, ok := vs.Type.(*ast.SelectorExpr); ok {
					switch se.Sel.Name {
					case "Output":
						e.outs[n.Name] = len(e.outs)
						v.io = -(len(e.outs)) // negative: output
					case "Input":
						e.ins[n.Name] = len(e.ins)
						v.io = len(e.ins)
					}
				} else if id, ok := vs.Type.(*ast.Ident); ok && id.Name == "bool" {
					v.isBool = true
				}
				e.vars[len(e.vars)-1][n.Name] = v
			}
		}
	case *ast.AssignStmt:
		if x.Tok != token.ASSIGN || len(x.Lhs) != 1 || len(x.Rhs) != 1 {
			e.fail("unsupported assignment")
			return
		}
		id, ok := x.Lhs[0].(*ast.Ident)
		if !ok {
			e.fail("unsupported lhs")
			return
		}
		dst := e.lookup(id.Name)
		if dst == nil {
			e.fail("undefined %s", id.Name)
			return
		}
		if dst.io != 0 { // o0 = bondgo.Make(...): binding only
			return
		}
		v := e.expr(x.Rhs[0])
		if e.err != nil {
			return
		}
		dst.isBool, dst.b, dst.u = v.isBool, v.b, v.u&e.mask
	case *ast.IncDecStmt:
		id, ok := x.X.(*ast.Ident)
		if !ok {
			e.fail("unsupported incdec")
			return
		}
		dst := e.lookup(id.Name)
		if dst == nil {
			e.fail("undefined %s", id.Name)
			return
		}
		if x.Tok == token.INC {
			dst.u = (dst.u + 1) & e.mask
		} else {
			dst.u = (dst.u - 1) & e.mask
		}
	case *ast.ExprStmt:
		call, ok := x.X.(*ast.CallExpr)
		if !ok {
			e.fail("unsupported expression statement")
			return
		}
		if se, ok := call.Fun.(*ast.SelectorExpr); ok && se.Sel.Name == "IOWrite" && len(call.Args) == 2 {
			o, ok := call.Args[0].(*ast.Ident)
			if !ok {
				e.fail("IOWrite target")
				return
			}
			port, ok := e.outs[o.Name]
			if !ok {
				e.fail("IOWrite on a non output")
				return
			}
			v := e.expr(call.Args[1])
			if e.err != nil {
				return
			}
			e.trace[port] = append(e.trace[port], v.u&e.mask)
			return
		}
		e.expr(call) // plain function call statement
	case *ast.IfStmt:
		if x.Init != nil {
			e.stmt(x.Init)
		}
		c := e.expr(x.Cond)
		if e.err != nil {
			return
		}
		if c.b {
			e.push()
			e.block(x.Body.List)
			e.pop()
		} else if x.Else != nil {
			e.stmt(x.Else)
		}
	case *ast.SwitchStmt:
		if x.Init != nil {
			e.stmt(x.Init)
		}
		if x.Tag == nil {
			e.fail("unsupported tagless switch")
			return
		}
		tag := e.expr(x.Tag)
		var chosen, def *ast.CaseClause
		for _, c := range x.Body.List {
			cc := c.(*ast.CaseClause)
			if cc.List == nil {
				def = cc
				continue
			}
			for _, ce := range cc.List {
				if v := e.expr(ce); chosen == nil && v.isBool == tag.isBool && v.u == tag.u && v.b == tag.b {
					chosen = cc
				}
			}
		}
		if chosen == nil {
			chosen = def
		}
		if chosen != nil {
			e.push()
			e.block(chosen.Body)
			e.pop()
			e.brk = false // a break inside a case leaves the switch
		}
	case *ast.BlockStmt:
		e.push()
		e.block(x.List)
		e.pop()
	case *ast.ForStmt:
		if x.Init != nil {
			e.stmt(x.Init)
		}
		for e.err == nil && !e.retFlag {
			if x.Cond != nil {
				c := e.expr(x.Cond)
				if e.err != nil || !c.b {
					break
				}
			}
			e.push()
			e.block(x.Body.List)
			e.pop()
			if e.brk { // break leaves the innermost loop, the post statement is not run
				e.brk = false
				break
			}
			e.cont = false // continue goes on with the post statement
			if x.Post != nil {
				e.stmt(x.Post)
			}
			e.steps++
			if e.steps > e.limit {
				e.fail("step limit")
			}
		}
	case *ast.ReturnStmt:
		if len(x.Results) == 1 {
			v := e.expr(x.Results[0])
			e.retVal = &v
		}
		e.retFlag = true
	case *ast.BranchStmt:
		switch x.Tok {
		case token.BREAK:
			e.brk = true
		case token.CONTINUE:
			e.cont = true
		default:
			e.fail("unsupported branch statement %s", x.Tok)
		}
	default:
		e.fail("unsupported statement %T", s)
	}
}

func (e *refEnv) expr(x ast.Expr) refVal {
	switch t := x.(type) {
	case *ast.BasicLit:
		if t.Kind != token.INT {
			e.fail("unsupported literal")
			return refVal{}
		}
		u, err := strconv.ParseUint(t.Value, 0, 64)
		if err != nil {
			e.fail("literal %s", t.Value)
		}
		return refVal{u: u & e.mask}
	case *ast.Ident:
		switch t.Name {
		case "true":
			return refVal{isBool: true, b: true}
		case "false":
			return refVal{isBool: true}
		}
		v := e.lookup(t.Name)
		if v == nil {
			e.fail("undefined %s", t.Name)
			return refVal{}
		}
		return *v
	case *ast.ParenExpr:
		return e.expr(t.X)
	case *ast.BinaryExpr:
		l := e.expr(t.X)
		r := e.expr(t.Y)
		if e.err != nil {
			return refVal{}
		}
		switch t.Op {
		case token.ADD:
			return refVal{u: (l.u + r.u) & e.mask}
		case token.SUB:
			return refVal{u: (l.u - r.u) & e.mask}
		case token.MUL:
			return refVal{u: (l.u * r.u) & e.mask}
		case token.AND:
			return refVal{u: l.u & r.u}
		case token.OR:
			return refVal{u: l.u | r.u}
		case token.XOR:
			return refVal{u: l.u ^ r.u}
		case token.EQL:
			if l.isBool != r.isBool {
				e.fail("== on mixed types")
				return refVal{}
			}
			if l.isBool {
				return refVal{isBool: true, b: l.b == r.b}
			}
			return refVal{isBool: true, b: l.u == r.u}
		}
		e.fail("unsupported operator %s", t.Op)
		return refVal{}
	case *ast.CallExpr:
		if se, ok := t.Fun.(*ast.SelectorExpr); ok {
			switch se.Sel.Name {
			case "IORead":
				return refVal{u: inputValue & e.mask}
			case "Make":
				return refVal{}
			}
			e.fail("unsupported call %s", se.Sel.Name)
			return refVal{}
		}
		id, ok := t.Fun.(*ast.Ident)
		if !ok {
			e.fail("unsupported call")
			return refVal{}
		}
		fd := e.funcs[id.Name]
		if fd == nil {
			e.fail("undefined function %s", id.Name)
			return refVal{}
		}
		var args []refVal
		for _, a := range t.Args {
			args = append(args, e.expr(a))
		}
		saved := e.vars
		e.vars = nil
		e.push()
		i := 0
		for _, p := range fd.Type.Params.List {
			for _, n := range p.Names {
				if i < len(args) {
					v := args[i]
					e.vars[0][n.Name] = &v
				}
				i++
			}
		}
		e.retVal, e.retFlag = nil, false
		e.block(fd.Body.List)
		rv := e.retVal
		e.retVal, e.retFlag = nil, false
		e.vars = saved
		if rv == nil {
			return refVal{}
		}
		return *rv
	}
	e.fail("unsupported expression %T", x)
	return refVal{}
}

// ------------------------------------------------------------------ executor (generated HDL under vsim)

type hdlResult struct {
	Status string // ran | not-simulable | no-end | rom-full | empty-program
	Detail string
	Outs   map[int][]uint64
	Cycles int
	M      int
	Diverg string // lockstep against the ISA model: opcode whose hardware first behaves differently ("" = none seen)
	DivHow string
}

var tCompile, tRender, tSim, tRef atomicDur

type atomicDur struct {
	mu sync.Mutex
	d  time.Duration
}

func (a *atomicDur) add(t0 time.Time) {
	a.mu.Lock()
	a.d += time.Since(t0)
	a.mu.Unlock()
}

var renderMu sync.Mutex // the generators of /repo keep package-level state (opcode registry, ...): render one machine at a time

func execHDL(machJSON []byte, asm string, maxCycles int) (res hdlResult) {
	defer func() {
		if p := recover(); p != nil {
			res = hdlResult{Status: "not-simulable", Detail: fmt.Sprint("panic: ", p)}
		}
	}()
	var mj procbuilder.Machine_json
	if err := json.Unmarshal(machJSON, &mj); err != nil {
		return hdlResult{Status: "not-simulable", Detail: "machine json: " + err.Error()}
	}
	tr := time.Now()
	renderMu.Lock() // (uncontended: one request at a time per worker process)
	m := (&mj).Dejsoner()
	for _, op := range m.Op {
		if op == nil {
			renderMu.Unlock()
			return hdlResult{Status: "not-simulable", Detail: "machine JSON names an opcode procbuilder does not know"}
		}
	}
	proglen := len(m.Program.Slocs)
	bm := bmgen.SingleBM(m)
	files, err := bmgen.RenderFiles(bm, new(bondmachine.Config), "iverilog")
	renderMu.Unlock()
	tRender.add(tr)
	defer tSim.add(time.Now())
	if err != nil {
		return hdlResult{Status: "not-simulable", Detail: "render: " + err.Error()}
	}
	res.M = int(m.M)
	if proglen == 0 {
		return hdlResult{Status: "empty-program", Outs: map[int][]uint64{}, M: int(m.M)}
	}
	romFull := proglen >= 1<<uint(m.O)
	if romFull {
		// the program fills the ROM: the end of the first pass is the wrap of the program counter after
		// the last instruction, observable only if that instruction cannot jump
		ap, _ := parseAsm(asm)
		if len(ap) != proglen || ap[proglen-1].op == "j" || ap[proglen-1].op == "jz" || ap[proglen-1].op == "je" {
			return hdlResult{Status: "rom-full", Detail: "program fills the ROM and ends with a jump: the end of the first pass cannot be observed", M: int(m.M)}
		}
	}
	d, diags := vsim.Parse(files)
	for _, dg := range diags {
		return hdlResult{Status: "not-simulable", Detail: fmt.Sprintf("%s %s:%d %s", dg.Class, dg.File, dg.Line, dg.Msg)}
	}
	sim, err := d.Elaborate("bondmachine", nil)
	if err != nil {
		return hdlResult{Status: "not-simulable", Detail: "elaborate: " + err.Error()}
	}
	look := func(n string) vsim.SigID {
		id, ok := sim.Lookup(n)
		if !ok {
			panic("signal " + n + " not found")
		}
		return id
	}
	clk, rst, pc := look("clk"), look("reset"), look("a0_inst.p0_instance._pc")
	var ov, oval []vsim.SigID
	if err := sim.Init(); err != nil {
		return hdlResult{Status: "not-simulable", Detail: "init: " + err.Error()}
	}
	for k := 0; k < int(m.M); k++ {
		ov = append(ov, look("o"+strconv.Itoa(k)))
		oval = append(oval, look("o"+strconv.Itoa(k)+"_valid"))
		sim.Set(look("o"+strconv.Itoa(k)+"_received"), 1) // consumer always ready: valid is high for exactly one cycle per write
	}
	for k := 0; k < int(m.N); k++ {
		sim.Set(look("i"+strconv.Itoa(k)), inputValue&((uint64(1)<<uint(m.Rsize))-1))
		sim.Set(look("i"+strconv.Itoa(k)+"_valid"), 1)
	}
	sim.Set(rst, 0)
	sim.Set(clk, 0)
	if err := sim.Posedge(rst); err != nil {
		return hdlResult{Status: "not-simulable", Detail: "reset: " + err.Error()}
	}
	sim.Posedge(clk)
	sim.Negedge(clk)
	sim.Negedge(rst)
	res.Outs = map[int][]uint64{}
	res.Status = "no-end"
	// lockstep against the ISA model (attribution only)
	var model *isaState
	var regSig []vsim.SigID
	if prog, _ := parseAsm(asm); len(prog) == proglen {
		model = newISA(prog, int(m.Rsize))
		for i := 0; i < 1<<uint(m.R); i++ {
			if id, ok := sim.Lookup("a0_inst.p0_instance._r" + strconv.Itoa(i)); ok {
				regSig = append(regSig, id)
			}
		}
	}
	prevpc := int(sim.Get(pc))
	for c := 0; c < maxCycles; c++ {
		if err := sim.Posedge(clk); err != nil {
			return hdlResult{Status: "not-simulable", Detail: "clock: " + err.Error()}
		}
		for k := range ov {
			if sim.Get(oval[k]) != 0 {
				res.Outs[k] = append(res.Outs[k], sim.Get(ov[k]))
			}
		}
		p := int(sim.Get(pc))
		ended := romFull && prevpc == proglen-1 && p == 0
		if ended && model != nil {
			model.pc = proglen - 1 // the model leaves the program where the hardware wraps
			if model.step() && model.pc == proglen {
				model = nil
			}
		}
		if model != nil && p != prevpc {
			// the hardware completed the instruction at prevpc
			in := model.prog[model.pc]
			selfJump := false
			if model.pc != prevpc {
				model = nil
			} else if ok := model.step(); !ok && model.err != "" {
				model = nil
			} else if selfJump = model.pc == prevpc; selfJump {
				model = nil
			} else if model.pc != p && !(model.pc >= proglen && p >= proglen) {
				res.Diverg, res.DivHow = in.op, fmt.Sprintf("after `%s %s` at %d the hardware continues at %d, the ISA model at %d", in.op, strings.Join(in.args, " "), prevpc, p, model.pc)
				model = nil
			} else {
				for i, id := range regSig {
					if hv := sim.Get(id); hv != model.regs[i] {
						res.Diverg, res.DivHow = in.op, fmt.Sprintf("after `%s %s` at %d register r%d is %d in the hardware, %d in the ISA model", in.op, strings.Join(in.args, " "), prevpc, i, hv, model.regs[i])
						model = nil
						break
					}
				}
			}
		}
		prevpc = p
		sim.Negedge(clk)
		res.Cycles = c + 1
		if p >= proglen || (romFull && ended) {
			res.Status = "ran"
			break
		}
	}
	if e := sim.Err(); e != nil {
		return hdlResult{Status: "not-simulable", Detail: "simulation: " + e.Error()}
	}
	return res
}

// elaborateBM renders the whole file set of a multi-processor bondmachine and tries to elaborate it.
func elaborateBM(bmj []byte) (res hdlResult) {
	defer func() {
		if p := recover(); p != nil {
			res = hdlResult{Status: "not-simulable", Detail: fmt.Sprint("panic: ", p)}
		}
	}()
	var bj bondmachine.Bondmachine_json
	if err := json.Unmarshal(bmj, &bj); err != nil {
		return hdlResult{Status: "not-simulable", Detail: "bondmachine json: " + err.Error()}
	}
	bm := (&bj).Dejsoner()
	files, err := bmgen.RenderFiles(bm, new(bondmachine.Config), "iverilog")
	if err != nil {
		return hdlResult{Status: "not-simulable", Detail: "render: " + err.Error()}
	}
	d, diags := vsim.Parse(files)
	for _, dg := range diags {
		return hdlResult{Status: "not-simulable", Detail: fmt.Sprintf("%s %s:%d %s", dg.Class, dg.File, dg.Line, dg.Msg)}
	}
	if _, err := d.Elaborate("bondmachine", nil); err != nil {
		return hdlResult{Status: "not-simulable", Detail: "elaborate: " + err.Error()}
	}
	return hdlResult{Status: "elaborates"}
}

// ------------------------------------------------------------------ executor worker processes
//
// The HDL generators of /repo keep package-level state and are not goroutine safe, so the driver
// re-executes itself as N worker processes (flag -semworker): one JSON request per line on stdin
// ({Mach, Asm, MaxCycles}), one hdlResult per line on stdout.

type execReq struct {
	Mach      string
	Asm       string
	MaxCycles int
	BM        string // a whole bondmachine JSON: only try to render + parse + elaborate it
}

func semWorkerMain() {
	in := bufio.NewReaderSize(os.Stdin, 1<<20)
	out := bufio.NewWriter(os.Stdout)
	for {
		line, err := in.ReadBytes('\n')
		if len(line) > 1 {
			var rq execReq
			var res hdlResult
			if e := json.Unmarshal(line, &rq); e != nil {
				res = hdlResult{Status: "not-simulable", Detail: "worker: " + e.Error()}
			} else {
				if rq.BM != "" {
					res = elaborateBM([]byte(rq.BM))
				} else {
					res = execHDL([]byte(rq.Mach), rq.Asm, rq.MaxCycles)
				}
			}
			b, _ := json.Marshal(res)
			out.Write(b)
			out.WriteByte('\n')
			out.Flush()
		}
		if err != nil {
			return
		}
	}
}

type execWorker struct {
	cmd *exec.Cmd
	in  io.WriteCloser
	out *bufio.Reader
}

func startExecWorker() (*execWorker, error) {
	self, err := os.Executable()
	if err != nil {
		return nil, err
	}
	c := exec.Command(self, "-semworker")
	c.Stderr = nil
	in, err := c.StdinPipe()
	if err != nil {
		return nil, err
	}
	outp, err := c.StdoutPipe()
	if err != nil {
		return nil, err
	}
	if err := c.Start(); err != nil {
		return nil, err
	}
	return &execWorker{cmd: c, in: in, out: bufio.NewReaderSize(outp, 1<<20)}, nil
}

func (w *execWorker) stop() {
	w.in.Close()
	w.cmd.Wait()
}

// run executes one machine; a worker that dies (generator calling os.Exit, fatal runtime error) is
// restarted and the program counted as not simulable.
// runBM asks the worker to render, parse and elaborate a whole bondmachine.
func (w *execWorker) runBM(bmj []byte) hdlResult {
	return w.request(execReq{BM: string(bmj)})
}

func (w *execWorker) run(mach []byte, asm string, maxCycles int) hdlResult {
	return w.request(execReq{Mach: string(mach), Asm: asm, MaxCycles: maxCycles})
}

func (w *execWorker) request(rq execReq) hdlResult {
	b, _ := json.Marshal(rq)
	b = append(b, '\n')
	if _, err := w.in.Write(b); err == nil {
		if line, err := w.out.ReadBytes('\n'); err == nil {
			var r hdlResult
			if json.Unmarshal(line, &r) == nil {
				return r
			}
		}
	}
	w.stop()
	if nw, err := startExecWorker(); err == nil {
		*w = *nw
	}
	return hdlResult{Status: "not-simulable", Detail: "executor worker process died while rendering/simulating (os.Exit or fatal error in the generator)"}
}

// ------------------------------------------------------------------ driver

type semOutcome struct {
	Prog          *semProg
	Class         string // ok | rejected | mismatch | ... (see part2)
	Detail        string
	Expected      map[int][]uint64
	Got           map[int][]uint64
	Asm           string
	Log           string
	WiringSuspect bool        // channel family: the compilations of the program also differ in their artefacts
	Extra         *semOutcome // a second failure of the same program (channel family)
	Compiled      *compiled   // compile-deadlock-in-every-schedule: the proof data
	Artefact      string      // artefacts-differ-between-two-compilations: which kind
	ExpectedMP    map[int][]uint64
	GotMP         map[int][]uint64
	HDLNote       string
	Misfit        string   // assembly-not-runnable "operand does not fit": which operand kind
	Missing       []string // opcodes used by the emitted assembly but absent from the requested machine
	Machine       string   // machine-mismatch: opcode whose hardware diverges from the ISA model
	ISADisagrees  bool
}

// features lists the constructs a program uses (go/ast walk of main); used to group failures.
func features(src string) []string {
	if isChannelProgram(src) {
		return channelFeatures(src)
	}
	if isScopingProgram(src) {
		// what is done to the shadowing / the outer variable; block kind and residency are dropped so that
		// one scoping defect gives one signature
		m := map[string]bool{}
		for _, x := range shadowFeatures(src) {
			if strings.HasPrefix(x, "shadow-in-") || strings.HasPrefix(x, "redeclared-in-") || x == "bare-block" {
				continue
			}
			x = strings.TrimSuffix(strings.TrimSuffix(x, "-mem"), "-reg")
			m["scoping:"+x] = true
		}
		return keys(m)
	}
	f := map[string]bool{}
	fset := token.NewFileSet()
	file, err := parser.ParseFile(fset, "p.go", src, 0)
	if err != nil {
		return []string{"unparsable"}
	}
	kindOf := func(name string) string {
		if strings.HasPrefix(name, "reg_") {
			return "reg"
		}
		return "mem"
	}
	var expr func(x ast.Expr)
	expr = func(x ast.Expr) {
		switch t := x.(type) {
		case *ast.BinaryExpr:
			switch t.Op {
			case token.ADD:
				f["add"] = true
			case token.MUL:
				f["mult"] = true
			case token.EQL:
				if id, ok := t.Y.(*ast.Ident); ok && (id.Name == "false" || id.Name == "true") {
					f["eq-bool"] = true
				}
			default:
				f["op"+t.Op.String()] = true
			}
			expr(t.X)
			expr(t.Y)
		case *ast.CallExpr:
			if se, ok := t.Fun.(*ast.SelectorExpr); ok {
				if se.Sel.Name == "IORead" {
					f["ioread"] = true
				}
			} else {
				f["call"] = true
			}
			for _, a := range t.Args {
				expr(a)
			}
		case *ast.ParenExpr:
			expr(t.X)
		}
	}
	var walk func(list []ast.Stmt, depth int)
	var loops []bool // enclosing for statements: has a post statement
	incdec := func(x *ast.IncDecStmt, depth int) {
		if id, ok := x.X.(*ast.Ident); ok {
			f["incdec-"+kindOf(id.Name)] = true
		}
		if depth >= 2 {
			f["incdec-nested"] = true
		}
	}
	var stmt func(s ast.Stmt, depth int)
	stmt = func(s ast.Stmt, depth int) {
		switch x := s.(type) {
		case *ast.AssignStmt:
			if id, ok := x.Lhs[0].(*ast.Ident); ok {
				if call, ok := x.Rhs[0].(*ast.CallExpr); ok {
					if se, ok := call.Fun.(*ast.SelectorExpr); ok && se.Sel.Name == "Make" {
						return
					}
				}
				f["assign-"+kindOf(id.Name)] = true
			}
			expr(x.Rhs[0])
		case *ast.IncDecStmt:
			incdec(x, depth)
		case *ast.ExprStmt:
			if call, ok := x.X.(*ast.CallExpr); ok {
				if se, ok := call.Fun.(*ast.SelectorExpr); ok && se.Sel.Name == "IOWrite" && len(call.Args) == 2 {
					if o, ok := call.Args[0].(*ast.Ident); ok && o.Name != "o0" {
						f["second-output"] = true
					}
					if _, ok := call.Args[1].(*ast.Ident); !ok {
						f["write-expr"] = true
					}
					expr(call.Args[1])
					return
				}
				expr(call)
			}
		case *ast.IfStmt:
			f["if"] = true
			if depth >= 1 {
				f["nested"] = true
			}
			if x.Init != nil {
				f["if-init"] = true
				stmt(x.Init, depth)
			}
			expr(x.Cond)
			walk(x.Body.List, depth+1)
			if x.Else != nil {
				f["else"] = true
				if b, ok := x.Else.(*ast.BlockStmt); ok {
					walk(b.List, depth+1)
				}
			}
		case *ast.ForStmt:
			v := "mem"
			if as, ok := x.Init.(*ast.AssignStmt); ok {
				if id, ok := as.Lhs[0].(*ast.Ident); ok {
					v = kindOf(id.Name)
				}
			}
			switch {
			case x.Cond == nil:
				f["for-infinite"] = true
			case x.Init == nil && x.Post == nil:
				f["for-cond-only"] = true
			default:
				f["for-"+v] = true
			}
			if depth >= 1 {
				f["nested"] = true
			}
			if x.Cond != nil {
				expr(x.Cond)
			}
			if p, ok := x.Post.(*ast.IncDecStmt); ok {
				incdec(p, depth+1)
			}
			if p, ok := x.Post.(*ast.AssignStmt); ok {
				f["for-post-assign"] = true
				expr(p.Rhs[0])
			}
			loops = append(loops, x.Post != nil)
			walk(x.Body.List, depth+1)
			loops = loops[:len(loops)-1]
		case *ast.SwitchStmt:
			f["switch"] = true
			if x.Init != nil {
				f["switch-init"] = true
				stmt(x.Init, depth)
			}
			for _, c := range x.Body.List {
				if cc, ok := c.(*ast.CaseClause); ok {
					walk(cc.Body, depth+1)
				}
			}
		case *ast.BranchStmt:
			switch x.Tok {
			case token.BREAK:
				f["break"] = true
			case token.CONTINUE:
				f["continue"] = true
				if len(loops) > 0 && loops[len(loops)-1] {
					f["continue-in-loop-with-post"] = true
				}
			}
		}
	}
	walk = func(list []ast.Stmt, depth int) {
		for _, s := range list {
			stmt(s, depth)
		}
	}
	for _, d := range file.Decls {
		if fd, ok := d.(*ast.FuncDecl); ok && fd.Name.Name == "main" {
			walk(fd.Body.List, 0)
		}
	}
	if f["if-init"] || f["switch-init"] {
		// statements with an init clause: placement, expression form and bodies are dropped so that one
		// defect of the init clause gives one signature
		g := map[string]bool{}
		for _, k := range []string{"if-init", "switch-init", "incdec-nested"} {
			if f[k] {
				g[k] = true
			}
		}
		return keys(g)
	}
	if f["continue"] || f["break"] {
		// loop control programs: only what concerns the control transfer (loop form and variable
		// residency are dropped so that one defect of break / continue gives one signature)
		g := map[string]bool{}
		for _, k := range []string{"break", "continue-in-loop-with-post", "for-cond-only", "for-infinite", "incdec-nested"} {
			if f[k] {
				g[k] = true
			}
		}
		if f["continue"] && !f["continue-in-loop-with-post"] {
			g["continue-in-loop-without-post"] = true
		}
		if f["nested"] && (f["for-reg"] || f["for-mem"]) && strings.Count(src, "\tfor ") >= 2 {
			g["nested-loops"] = true
		}
		return keys(g)
	}
	return keys(f)
}

type semPlan struct {
	Alpha alphabet
	Sizes []int
	Rsize int
}

func semPlans(thorough bool) []semPlan {
	if !thorough {
		return []semPlan{
			{alphaFull, []int{1, 2}, 8},
			{alphaMid, []int{3}, 8},
			{alphaMid, []int{1, 2}, 16},
		}
	}
	return []semPlan{
		{alphaFull, []int{1, 2, 3}, 8},
		{alphaFull, []int{1, 2}, 16},
		{alphaMid, []int{3}, 16},
		{alphaSmall, []int{4}, 8},
		{alphaMidB, []int{4}, 8},
		{alphaTiny, []int{5}, 8},
	}
}

func fmtOuts(m map[int][]uint64, n int) string {
	var parts []string
	for k := 0; k < n; k++ {
		parts = append(parts, fmt.Sprintf("o%d=%v", k, m[k]))
	}
	return strings.Join(parts, " ")
}

func outsEqual(a, b map[int][]uint64, n int) bool {
	for k := 0; k < n; k++ {
		x, y := a[k], b[k]
		if len(x) != len(y) {
			return false
		}
		for i := range x {
			if x[i] != y[i] {
				return false
			}
		}
	}
	return true
}

// compiled is the result of one compilation in the batch child (see child_harness.go.txt).
type compiled struct {
	Status, Panic, Detail string
	Choices               []int
	Tries                 int
	Shape                 string
	Blocked               []string
	Schedules, Bound      int
	Full                  bool
	CapHit                string
}

func compilerArgs(rsize int, mpm bool, input string) []string {
	a := []string{"-input-file", input, "-register-size", fmt.Sprint(rsize), "-show-requirements", "-save-assembly", "out.asm"}
	if mpm {
		return append(a, "-mpm", "-save-bondmachine", "bm.json")
	}
	return append(a, "-save-machine", "m.json")
}

// compileBatch compiles the programs with the instrumented compiler (batch mode of the child harness)
// in the directories p.dir+dirSuffix.
func compileBatch(bt *built, progs []*semProg, rsize int, mpm bool, tag, dirSuffix string) ([]compiled, error) {
	var items []map[string]string
	for _, p := range progs {
		items = append(items, map[string]string{"Src": p.src, "Dir": p.dir + dirSuffix})
	}
	dir := filepath.Join(bt.Scratch, "sem", "batch-"+tag+dirSuffix)
	sem <- struct{}{}
	defer func() { <-sem }()
	os.MkdirAll(dir, 0o755)
	out := filepath.Join(dir, ".c12.report.json")
	optsFile := map[string]any{"Out": out, "Batch": items}
	ob, _ := json.Marshal(optsFile)
	b, err := runRaw(bt.GsBin, compilerArgs(rsize, mpm, "placeholder.go"), dir, []string{"VERIF_C12_MODE=batch", "VERIF_C12_OPTS=" + string(ob)})
	if err != nil {
		return nil, fmt.Errorf("batch child: %v\n%s", err, tail(string(b), 3000))
	}
	rb, err := os.ReadFile(out)
	if err != nil {
		return nil, err
	}
	var rep struct{ Batch []compiled }
	if err := json.Unmarshal(rb, &rep); err != nil {
		return nil, err
	}
	if len(rep.Batch) != len(progs) {
		return nil, fmt.Errorf("batch child returned %d results for %d programs", len(rep.Batch), len(progs))
	}
	return rep.Batch, nil
}

func part2(run *vlib.Run, bt *built) bool {
	t0 := time.Now()
	deadline := 70 * time.Second
	if run.Thorough() {
		deadline = 12*time.Minute + 30*time.Second
	}
	var progs []*semProg
	var planDescr []string
	for _, x := range rejectedExprs {
		for _, rs := range []int{8, 16} {
			body := []*stmt{{text: "a = " + x, kind: "assign"}, {text: "bondgo.IOWrite(o0, a)", kind: "write"}}
			progs = append(progs, &semProg{Rsize: rs, Size: 2, Alpha: "rejected-operators", Source: sourceOf(body, rs), Expect: "rejected"})
		}
	}
	chp, chd := channelPrograms(run.Thorough())
	progs = append(progs, chp...)
	planDescr = append(planDescr, chd...)
	iip, iid := initClausePrograms(run.Thorough())
	progs = append(progs, iip...)
	planDescr = append(planDescr, iid...)
	lcp, lcd := loopCtlPrograms(run.Thorough())
	progs = append(progs, lcp...)
	planDescr = append(planDescr, lcd...)
	stp, std := storagePrograms(run.Thorough())
	progs = append(progs, stp...)
	planDescr = append(planDescr, std...)
	shp, shd := shadowPrograms(run.Thorough())
	progs = append(progs, shp...)
	planDescr = append(planDescr, shd...)
	cop, cod := constantPrograms(run.Thorough())
	progs = append(progs, cop...)
	planDescr = append(planDescr, cod...)
	for _, pl := range semPlans(run.Thorough()) {
		en := newEnumerator(pl.Alpha)
		for _, n := range pl.Sizes {
			bodies := en.programs(n)
			planDescr = append(planDescr, fmt.Sprintf("uint%d/%s/size%d:%d", pl.Rsize, pl.Alpha.Name, n, len(bodies)))
			for _, body := range bodies {
				progs = append(progs, &semProg{Rsize: pl.Rsize, Size: n, Alpha: pl.Alpha.Name, Source: sourceOf(body, pl.Rsize), Expect: "accepted"})
			}
		}
	}
	if *semCount {
		fmt.Println(len(progs), strings.Join(planDescr, " "))
		os.Exit(0)
	}
	// de-duplicate identical sources (alphabets overlap)
	seen := map[string]bool{}
	uniq := progs[:0]
	for _, p := range progs {
		k := fmt.Sprint(p.Rsize, "|", p.Source)
		if seen[k] {
			continue
		}
		seen[k] = true
		uniq = append(uniq, p)
	}
	progs = uniq
	for i, p := range progs {
		p.ID = i
		p.dir = filepath.Join(bt.Scratch, "sem", fmt.Sprintf("p%06d", i))
		p.src = filepath.Join(bt.Scratch, "sem", "src", fmt.Sprintf("p%06d.go", i)) // outside p.dir: the child empties the working directory before every run
		os.MkdirAll(filepath.Dir(p.src), 0o755)
		os.WriteFile(p.src, []byte(p.Source), 0o644)
	}

	// work in batches: compile (child process) then execute + compare (this process)
	const batchSize = 64
	type batch struct {
		lo, hi, rsize int
		mpm           bool
		ncomp         int
	}
	var batches []batch
	for lo := 0; lo < len(progs); {
		hi := lo
		for hi < len(progs) && hi-lo < batchSize && progs[hi].Rsize == progs[lo].Rsize && progs[hi].Mpm == progs[lo].Mpm && progs[hi].Compilations == progs[lo].Compilations {
			hi++
		}
		batches = append(batches, batch{lo, hi, progs[lo].Rsize, progs[lo].Mpm, progs[lo].Compilations})
		lo = hi
	}
	outcomes := make([]*semOutcome, len(progs))
	var mu sync.Mutex
	var harnessErr error
	capHit := false
	totalTries := 0
	var wg sync.WaitGroup
	work := make(chan batch)
	for w := 0; w < 14; w++ {
		wg.Add(1)
		go func() {
			defer wg.Done()
			xw, err := startExecWorker()
			if err != nil {
				mu.Lock()
				if harnessErr == nil {
					harnessErr = err
				}
				mu.Unlock()
				for range work {
				}
				return
			}
			defer xw.stop()
			for b := range work {
				if time.Since(t0) > deadline {
					mu.Lock()
					capHit = true
					mu.Unlock()
					continue
				}
				ps := progs[b.lo:b.hi]
				tc := time.Now()
				rs, err := compileBatch(bt, ps, b.rsize, b.mpm, fmt.Sprint(b.lo), "")
				rsAll := [][]compiled{rs}
				if b.mpm { // channel family: further independent compilations
					for k := 1; k < b.ncomp && err == nil; k++ {
						var rk []compiled
						rk, err = compileBatch(bt, ps, b.rsize, b.mpm, fmt.Sprint(b.lo), chanDirSuffix(k))
						rsAll = append(rsAll, rk)
					}
				}
				tCompile.add(tc)
				if err != nil {
					mu.Lock()
					if harnessErr == nil {
						harnessErr = err
					}
					mu.Unlock()
					continue
				}
				for i := range rs {
					mu.Lock()
					totalTries += rs[i].Tries
					mu.Unlock()
				}
				for i, p := range ps {
					var oc *semOutcome
					if b.mpm {
						var cs []compiled
						for _, rk := range rsAll {
							cs = append(cs, rk[i])
						}
						oc = judgeChannel(xw, p, cs)
						for k := 1; k < b.ncomp; k++ {
							os.RemoveAll(p.dir + chanDirSuffix(k))
						}
					} else {
						oc = judge(xw, p, rs[i])
					}
					outcomes[p.ID] = oc
					os.RemoveAll(p.dir)
					os.Remove(p.src)
				}
			}
		}()
	}
	for _, b := range batches {
		work <- b
	}
	close(work)
	wg.Wait()
	if harnessErr != nil {
		fatalHarness("part 2: %v", harnessErr)
	}

	// classification
	counts := map[string]int{}
	var failing []*semOutcome
	distinct := map[string]bool{}
	done := 0
	for _, oc := range outcomes {
		if oc == nil {
			continue
		}
		done++
		counts[oc.Class]++
		if oc.Class == "ok" {
			distinct[fmtOuts(oc.Expected, 2)] = true
		}
		switch {
		case oc.Class == "ok", oc.Class == "rejected-as-expected", strings.HasPrefix(oc.Class, "not-executed:"), strings.HasPrefix(oc.Class, "skipped:"), oc.Class == "accepted-unexpectedly":
		case strings.HasPrefix(oc.Class, "harness:"):
			fatalHarness("part 2 cannot handle a program it generated (%s: %s):\n%s", oc.Class, oc.Detail, oc.Prog.Source)
		default:
			failing = append(failing, oc)
			for x := oc.Extra; x != nil; x = x.Extra {
				counts[x.Class]++
				failing = append(failing, x)
			}
		}
		if oc.ISADisagrees {
			counts["note:isa-model-disagrees-but-hardware-matches-source"]++
			if *verbose && counts["note:isa-model-disagrees-but-hardware-matches-source"] <= 3 {
				fmt.Printf("note: ISA model disagrees but hardware matches source: `%s` asm: %s\n", bodyOf(oc.Prog.Source), strings.ReplaceAll(strings.TrimSpace(oc.Asm), "\n", "; "))
			}
		}
	}
	reportSemFailures(run, bt, failing)
	run.Set("part2_programs_enumerated", len(progs))
	run.Set("part2_programs_done", done)
	run.Set("part2_classes", counts)
	run.Set("part2_compared_ok", counts["ok"])
	run.Set("part2_distinct_output_traces", len(distinct))
	run.Set("part2_enumeration", planDescr)
	chN, chElab, chNote := 0, 0, ""
	for _, oc := range outcomes {
		if oc != nil && oc.Prog.Mpm && oc.HDLNote != "" {
			chN++
			if strings.HasPrefix(oc.HDLNote, "elaborates") {
				chElab++
			} else if chNote == "" {
				chNote = oc.HDLNote
			}
		}
	}
	run.Set("part2_channel_family_oracles", fmt.Sprintf("(1) termination: every program is compiled under the gosched scheduler; a program all of whose explored compiler schedules (preemption bound 2, cap 600 runs) end with an empty enabled set is a proven hang and is re-run in a fresh process before it is reported; (2) %d independent compilations (separate processes, same compiler schedule) must emit identical assembly files and bondmachine JSON; (3) hardware execution is NOT available for this family: %d of %d generated multi-processor file sets elaborate under vsim (first diagnostic: %s; generator defects of chw/wrd/wwr and of the channel shared object, property C18); instead the emitted assembly of all processors is run on a multi-processor ISA model (rendezvous channels wired by Shared_links of the saved bondmachine, output ids from the requirements dump) and compared with a small-step go/ast reference evaluator with Go channel semantics, both run to quiescence (a BondMachine processor does not stop when main returns); every distinct compilation variant is checked", chanCompilations, chElab, chN, chNote))
	run.Set("part2_channel_family", "uint8 (thorough: also uint16): {receive in a goroutine, in main, in an ordinary function} x {send in main, in an ordinary function, in a goroutine} (both ends in main excluded) x {no alias, c2 = c used by the sender, c2 = c used by the receiver}; pipeline main -> relay goroutine -> worker (2 channels, 2 goroutines); two independent channel/worker pairs; two messages on one channel; goroutine -> goroutine -> main; channel declared in a nested block; ordinary functions on two channels; make(chan T) (refused by the compiler: expected); thorough: the first four extras also with an aliased sender")
	run.Set("part2_channel_expression_order_family", "producer goroutine sending 1,2,3,4 on one channel (prod) or 1,5,2,10 alternately on two channels a,b (prodtwo); main: v = 7; x = L op R; IOWrite(o0, x); x = L op R; IOWrite(o0, x) for all ordered pairs (L,R) of the operand forms {<-C, <-C*3, <-C+1, (<-C), take(C), 2, v} (two channels: L over a, R over b, L must communicate); op + : all pairs; op * : quick the pairs over {<-C, <-C*3, take(C), v}, thorough all pairs; uint8 (thorough also uint16); 2 compilations each; oracle: multi-processor ISA model vs go/ast evaluator performing the communications of an expression left to right, and termination; parenthesised operands are outside the compiler's subset (no ParenExpr in Expr_eval): rejected-as-expected")
	run.Set("part2_init_clause_family", "a = 1; reg_b = 3; `if V = E; C { B } [else { IOWrite(o0, other) }]`; IOWrite(o0, V) with V in {a, reg_b}, E in {2, the other variable, a + reg_b, f(reg_b)}, C in {V == 2, V == 4}, B in {IOWrite(o0, V); V = V + 1 IOWrite(o0, V)}, placed at top level, inside `for reg_t = 0; reg_t == 2 == false; reg_t++ { }` and inside `if reg_t == 0 { }`; `switch V = E; V { case 2: IOWrite(o0, V) default: IOWrite(o0, other) }` for the same V and E (thorough: also uint16)")
	run.Set("part2_loop_control_family", "break / continue: loops {for reg_b = 0; reg_b == 3 == false; reg_b++ | same with post reg_b = reg_b + 1 | for a = 3; a == 0 == false; a-- | for reg_b == 3 == false { reg_b++ ... } | for { reg_b++; if reg_b == 3 { break } ... }} x bodies {IOWrite(LV); IOWrite(LV) CV++; CV++ IOWrite(CV)} x a control statement `if C { continue }` / `if C { break }` with C in {LV == 1, LV == 1 == false} at every position of the body; the counter is written after the loop; nested: the 3-clause loop (assignment post) with a control inside an outer counting loop, and a control of the outer loop after the inner loop; thorough: also uint16 and the body IOWrite(LV) CV++ IOWrite(CV); sources that do not terminate are skipped")
	run.Set("part2_storage_reuse_family", "1..2 outer memory variables; sibling constructs declaring k memory locals each (every local assigned a distinct constant and written to the output inside its block), outer variables written after them; two siblings, all (k1,k2) in 0..3: bare/bare, if reg_t == 1 {k1} else {k2}, bare block then k2 top level declarations (thorough: also if reg_t == 0, uint16); thorough: three siblings, all (k1,k2,k3) in 0..3: bare/bare/bare, if-else + bare, bare + if-else, bare/bare + declarations, uint8 and uint16")
	run.Set("part2_shadowing_family", "block scoping: outer variable V (a = memory, reg_b = register), block kinds {bare, if body, else body, for body} x {redeclares V, does not} x PRE {V = 5 (thorough: also none)} x INNER = all sequences of 1..2 statements of {V = 1, V = V + 2, V++, IOWrite(o0, V)} x POST {IOWrite; V++ IOWrite (thorough: also V = V + 2 IOWrite; IOWrite V = 1 IOWrite)} (quick: the non-redeclaring control only for the bare block); two levels: block {[var V] s1 {[var V] s2 IOWrite} IOWrite} IOWrite with s1 in {V = 1, V++}, s2 in {V = 3, V = V + 2, V++}, all four redeclaration combinations (quick: outer block bare; thorough: all four kinds); 16 bit: bare and for body, redeclared, one inner statement")
	run.Set("part2_bounds", "all canonical programs (last statement writes an output; no assignment that is immediately overwritten) with exactly `size` statements (nested ones counted) over the named statement alphabet: variables a (memory) and reg_b (register) of type uintN, assignments of constants / the other variable / + / * / bondgo.IORead / a function call, ++/--, bondgo.IOWrite to one or two outputs, if / if-else with == conditions, two bounded for loops; plus one program per binary operator the compiler refuses (- & | ^ / <<)")
	run.Set("part2_wall_s", time.Since(t0).Seconds())
	if capHit {
		run.Set("part2_cap_hit", fmt.Sprintf("deadline %v: %d of %d programs done", deadline, done, len(progs)))
		run.Set("exhaustive", false)
	}
	run.Assume("part 2 observes the outputs of the generated HDL during the FIRST pass of the program (the emitted code has no halt: the program counter runs past the last instruction and wraps); the consumer acknowledges every output immediately (oK_received = 1), inputs hold the constant 0x5A with valid = 1")
	run.Assume("part 2 compiles each program under the controlled scheduler along the first completing schedule found (the shipped compiler hangs in free runs, see part 1); part 1 shows the emitted artefacts do not depend on the schedule")
	// samples
	n := 0
	for _, oc := range outcomes {
		if oc != nil && oc.Class == "ok" && oc.Prog.Size >= 3 && n < 2 {
			n++
			run.Sample(map[string]any{"kind": "semantics ok", "source": strings.Split(oc.Prog.Source, "\n"), "outputs": fmtOuts(oc.Expected, 2)})
		}
	}
	if *verbose {
		fmt.Printf("part2: %d programs (%s), %d done in %.1fs: %v\n", len(progs), strings.Join(planDescr, " "), done, time.Since(t0).Seconds(), counts)
		fmt.Printf("part2 compiler executions (schedules run until one completed): %d for %d programs\n", totalTries, done)
		fmt.Printf("part2 cumulative worker time: compile %.1fs render(+lock wait) %.1fs parse/elaborate/simulate %.1fs\n", tCompile.d.Seconds(), tRender.d.Seconds(), tSim.d.Seconds())
	}
	return true
}

func runRaw(bin string, args []string, dir string, env []string) ([]byte, error) {
	c := exec.Command(bin, args...)
	c.Dir = dir
	c.Env = append(os.Environ(), env...)
	return c.CombinedOutput()
}

// judge turns one compiled program into an outcome.
func judge(xw *execWorker, p *semProg, c compiled) *semOutcome {
	status, panicMsg, detail := c.Status, c.Panic, c.Detail
	oc := &semOutcome{Prog: p}
	logb, _ := os.ReadFile(filepath.Join(p.dir, ".c12.stdout"))
	oc.Log = string(logb)
	asm, _ := os.ReadFile(filepath.Join(p.dir, "out.asm"))
	oc.Asm = string(asm)
	mj, mjErr := os.ReadFile(filepath.Join(p.dir, "m.json"))
	switch status {
	case "panic":
		oc.Class, oc.Detail = "compile-panic", panicMsg
		return oc
	case "completed":
	default:
		oc.Class, oc.Detail, oc.Compiled = "compile-"+status, detail, &c
		return oc
	}
	if mjErr != nil { // the compiler refused the program (Set_faulty): no artefact
		msg := firstLine(oc.Log)
		if p.Expect == "rejected" {
			oc.Class = "rejected-as-expected"
			return oc
		}
		oc.Class, oc.Detail = "rejected", msg
		return oc
	}
	if p.Expect == "rejected" {
		oc.Class, oc.Detail = "accepted-unexpectedly", ""
		return oc
	}
	oc.Missing = missingOpcodes(mj, oc.Asm)
	ref := refEval(p.Source, p.Rsize)
	if ref.Err != "" {
		if ref.Timeout {
			oc.Class = "skipped:source-does-not-terminate"
		} else {
			oc.Class, oc.Detail = "harness:evaluator", ref.Err
		}
		return oc
	}
	oc.Expected = ref.Outs
	isaOuts, isaStatus := runISA(oc.Asm, p.Rsize, 200+40*ref.Steps)
	h := xw.run(mj, oc.Asm, 400+80*ref.Steps)
	oc.Got = h.Outs
	n := ref.NOut
	if h.M > n {
		n = h.M
	}
	if h.Status == "ran" && outsEqual(ref.Outs, h.Outs, n) {
		oc.Class = "ok"
		if isaStatus != "ran" || !outsEqual(ref.Outs, isaOuts, n) {
			if !strings.HasPrefix(isaStatus, "isa-model") && h.Diverg != "" {
				// the hardware agrees with the source only because it does NOT execute the emitted assembly
				// faithfully (opcode h.Diverg, e.g. the je placeholder skips the miscompiled code): the code
				// generation defect is real and merely masked
				oc.Class = "codegen-mismatch"
				oc.Detail = fmt.Sprintf("source writes %s; the emitted assembly under the ISA model writes %s (%s); the generated hardware writes %s only because its opcode `%s` does not execute the assembly faithfully (%s)", fmtOuts(ref.Outs, n), fmtOuts(isaOuts, n), isaStatus, fmtOuts(h.Outs, n), h.Diverg, h.DivHow)
				return oc
			}
			oc.ISADisagrees = true
		}
		return oc
	}
	if h.Status == "empty-program" {
		// the compiler's own assembler refused the emitted assembly for the requested machine
		oc.Class, oc.Detail = "assembly-not-runnable", assemblerMessage(oc.Log)
		oc.Misfit = misfitKind(mj, oc.Asm, oc.Detail)
		return oc
	}
	// layer attribution
	if strings.HasPrefix(isaStatus, "isa-model") {
		oc.Class, oc.Detail = "harness:isa-model", isaStatus
		if h.Status == "ran" {
			oc.Class, oc.Detail = "mismatch-unattributed", fmt.Sprintf("expected %s, generated hardware wrote %s (%s)", fmtOuts(ref.Outs, n), fmtOuts(h.Outs, n), isaStatus)
		}
		return oc
	}
	if isaStatus != "ran" || !outsEqual(ref.Outs, isaOuts, n) {
		oc.Class = "codegen-mismatch"
		oc.Detail = fmt.Sprintf("source writes %s; the emitted assembly under the ISA model writes %s (%s); generated hardware: %s (%s)", fmtOuts(ref.Outs, n), fmtOuts(isaOuts, n), isaStatus, fmtOuts(h.Outs, n), h.Status)
		return oc
	}
	switch h.Status {
	case "not-simulable":
		oc.Class, oc.Detail = "not-executed:not-simulable", h.Detail
	case "rom-full":
		oc.Class = "not-executed:rom-full"
	default: // ran with other outputs, or no-end
		oc.Class = "machine-mismatch"
		oc.Machine = h.Diverg
		if oc.Machine == "" {
			oc.Machine = "unattributed"
		}
		oc.Detail = fmt.Sprintf("source (and the ISA model of the emitted assembly) write %s, the generated hardware writes %s (%s after %d cycles); first divergence: %s", fmtOuts(ref.Outs, n), fmtOuts(h.Outs, n), h.Status, h.Cycles, h.DivHow)
	}
	return oc
}

// missingOpcodes lists the opcodes of the emitted assembly that the requested machine does not have.
func missingOpcodes(machJSON []byte, asm string) []string {
	var mj struct{ Op []string }
	if json.Unmarshal(machJSON, &mj) != nil {
		return nil
	}
	have := map[string]bool{}
	for _, o := range mj.Op {
		have[o] = true
	}
	miss := map[string]bool{}
	prog, _ := parseAsm(asm)
	for _, in := range prog {
		if !have[in.op] {
			miss[in.op] = true
		}
	}
	return keys(miss)
}

func firstLine(s string) string {
	s = strings.TrimSpace(s)
	if i := strings.Index(s, "\n"); i >= 0 {
		s = s[:i]
	}
	return s
}

// assemblerMessage extracts what the compiler printed after the requirements dump.
func assemblerMessage(log string) string {
	if i := strings.LastIndex(log, "--- Shared Memory ---"); i >= 0 {
		return strings.TrimSpace(log[i+len("--- Shared Memory ---"):])
	}
	return firstLine(log)
}

func msgClass(s string) string {
	var b strings.Builder
	for _, r := range strings.ToLower(firstLine(s)) {
		switch {
		case r >= 'a' && r <= 'z':
			b.WriteRune(r)
		case r == ' ' || r == '-':
			b.WriteByte('-')
		}
	}
	t := strings.Trim(b.String(), "-")
	for strings.Contains(t, "--") {
		t = strings.ReplaceAll(t, "--", "-")
	}
	if len(t) > 48 {
		t = t[:48]
	}
	return t
}

type semReplay struct {
	Part     string `json:"part"`
	Rsize    int    `json:"register_size"`
	Mpm      bool   `json:"mpm,omitempty"`
	Source   string `json:"source"`
	Class    string `json:"class"`
	Expected string `json:"expected_outputs"`
	Got      string `json:"observed"`
}

// reportSemFailures turns the failing programs into findings.  Failures whose cause is identified
// from the artefacts get one signature per cause (opcode whose hardware diverges, assembler message,
// opcode missing from the requested machine, known structural trigger); the rest is grouped per
// failure class by the minimal construct sets (w.r.t. inclusion) of the failing programs.
func reportSemFailures(run *vlib.Run, bt *built, failing []*semOutcome) {
	type group struct {
		sig   string
		descr string
		feat  []string // generic groups only
		first *semOutcome
		n     int
	}
	sort.SliceStable(failing, func(i, j int) bool {
		if failing[i].Prog.Size != failing[j].Prog.Size {
			return failing[i].Prog.Size < failing[j].Prog.Size
		}
		return failing[i].Prog.ID < failing[j].Prog.ID
	})
	var order []*group
	bySig := map[string]*group{}
	generic := map[string][]*group{} // class -> groups
	add := func(sig, descr string, oc *semOutcome) {
		g := bySig[sig]
		if g == nil {
			g = &group{sig: sig, descr: descr, first: oc}
			bySig[sig] = g
			order = append(order, g)
		}
		g.n++
	}
	for _, oc := range failing {
		fs := features(oc.Prog.Source)
		has := func(x string) bool { return subset([]string{x}, fs) }
		switch oc.Class {
		case "compile-panic":
			add("C12|compiler|panic-while-compiling|"+panicClass(oc.Detail), "bondgo panics while compiling", oc)
			continue
		case "compile-no-completing-schedule", "compile-steplimit", "compile-nondeterminism":
			add("C12|compiler|"+strings.TrimPrefix(oc.Class, "compile-"), "bondgo does not complete the compilation", oc)
			continue
		case "rejected":
			add("C12|compiler|rejects-construct-of-the-subset|"+msgClass(oc.Detail), "bondgo refuses (Set_faulty) a program of the accepted subset", oc)
			continue
		case "assembly-not-runnable":
			mc := msgClass(strings.Split(oc.Detail, ",")[0])
			if strings.HasPrefix(mc, "unknown-opcode") {
				mc = "opcode-emitted-but-not-requested|" + strings.Join(oc.Missing, "+")
			} else if strings.HasPrefix(mc, "operand-does-not-fit") {
				mc += "|" + oc.Misfit // which operand: a jump target and a RAM address are different root causes
			} else if i := strings.Index(oc.Detail, "error processing "); i >= 0 {
				if f := strings.Fields(oc.Detail[i+len("error processing "):]); len(f) > 0 {
					mc += "|" + f[0]
				}
			}
			add("C12|codegen|assembly-not-runnable-on-requested-machine|"+mc, "the assembler of the machine bondgo requests refuses the assembly bondgo emits (the saved machine has an empty program)", oc)
			continue
		case "machine-mismatch":
			add("C12|machine|opcode-hardware-diverges-from-isa|"+oc.Machine, "the hardware generated for this opcode does not do what the emitted assembly relies on", oc)
			continue
		case "codegen-mismatch":
			if has("incdec-nested") {
				add("C12|codegen|mismatch|incdec-inside-nested-compound", "the code emitted for ++/-- (also as the post statement of a for) inside a compound statement nested in another one lands in the wrong place", oc)
				continue
			}
		}
		// generic grouping by minimal construct sets
		gclass, prefix, descr := oc.Class, "C12|semantics|"+oc.Class+"|", "programs using these constructs fail"
		switch oc.Class {
		case "compile-deadlock-in-every-schedule":
			shape := "unknown"
			if oc.Compiled != nil {
				shape = sigDetail(oc.Compiled.Shape)
			}
			gclass, prefix = oc.Class+"|"+shape, "C12|termination|compiler-hangs|"+shape+"|"
			descr = "bondgo never terminates on these programs: every explored schedule of the compiler ends with an empty enabled set (proven blocked-forever state)"
		case "artefacts-differ-between-two-compilations":
			add("C12|compiler|output-differs-between-identical-compilations|"+oc.Artefact, "independent compilations of the same program (same compiler schedule) emit different artefacts", oc)
			continue
		case "codegen-mismatch":
			if oc.WiringSuspect && isChannelProgram(oc.Prog.Source) && !has("channel-to-channel-assignment") && strings.Count(oc.Prog.Source[strings.Index(oc.Prog.Source, "func main()"):], " chan ") >= 2 {
				add("C12|codegen|mismatch|processor-on-two-channels-wired-in-map-order", "a processor connected to two channels gets them wired to its local channel indexes in map iteration order: the emitted assembly talks to the wrong channel in some compilations", oc)
				continue
			}
		}
		placed := false
		for _, g := range generic[gclass] {
			if subset(g.feat, fs) {
				g.n++
				placed = true
				break
			}
		}
		if !placed {
			g := &group{sig: prefix + strings.Join(fs, "+"), descr: descr, feat: fs, first: oc, n: 1}
			generic[gclass] = append(generic[gclass], g)
			order = append(order, g)
		}
	}
	for _, g := range order {
		oc := g.first
		what := fmt.Sprintf("%s (%d generated programs, class %s); smallest: register size %d, body `%s`: %s", g.descr, g.n, oc.Class, oc.Prog.Rsize, bodyOf(oc.Prog.Source), oc.Detail)
		if oc.Asm != "" {
			what += " | emitted assembly: " + strings.ReplaceAll(strings.TrimSpace(oc.Asm), "\n", "; ")
		}
		if c := oc.Compiled; c != nil && oc.Class == "compile-deadlock-in-every-schedule" {
			// re-run the first deadlocking schedule in a fresh process (the child detects the deadlock itself)
			src := filepath.Join(bt.Scratch, "sem", fmt.Sprintf("hang-%d.go", oc.Prog.ID))
			os.MkdirAll(filepath.Dir(src), 0o755)
			os.WriteFile(src, []byte(oc.Prog.Source), 0o644)
			j := &job{Name: "hang", Rsize: oc.Prog.Rsize, Mpm: oc.Prog.Mpm, srcPath: src}
			fo := replayFreshProcess(bt, j, c.Choices)
			if !fo.Deadlock || shapeOf(fo.Blocked) != c.Shape {
				fatalHarness("part 2: schedule %v deadlocks (%s) in the batch harness but a fresh process gives deadlock=%v blocked=%q obs=%q for\n%s", c.Choices, c.Shape, fo.Deadlock, shapeOf(fo.Blocked), fo.Observation, oc.Prog.Source)
			}
			what += fmt.Sprintf(" | %d schedules explored (preemption bound %d completed, every interleaving: %v, cap %q), all deadlock: %s; confirmed in a fresh process (schedule %v): %s", c.Schedules, c.Bound, c.Full, c.CapHit, c.Detail, c.Choices, strings.Join(c.Blocked, " ; "))
		}
		run.Report(g.sig, what, semReplay{Part: "semantics", Rsize: oc.Prog.Rsize, Mpm: oc.Prog.Mpm, Source: oc.Prog.Source, Class: oc.Class, Expected: fmtOuts(oc.Expected, 2), Got: oc.Detail})
	}
}

func subset(a, b []string) bool {
	m := map[string]bool{}
	for _, x := range b {
		m[x] = true
	}
	for _, x := range a {
		if !m[x] {
			return false
		}
	}
	return true
}

// isScopingProgram: the program declares a variable inside a nested block or has a bare block.
func isScopingProgram(src string) bool {
	return strings.Contains(src, "\t\tvar ") || strings.Contains(src, "\n\t{\n") || strings.Contains(src, "\n\t\t{\n")
}

func bodyOf(src string) string {
	i := strings.Index(src, "func main()")
	var out []string
	for _, l := range strings.Split(src[i:], "\n")[1:] {
		t := strings.TrimSpace(l)
		if t == "" || strings.HasPrefix(l, "\tvar ") || strings.Contains(t, "bondgo.Make") {
			continue
		}
		if strings.HasPrefix(t, "var ") {
			t += ";"
		}
		out = append(out, t)
	}
	if len(out) > 0 && out[len(out)-1] == "}" {
		out = out[:len(out)-1]
	}
	return strings.Join(out, " ")
}

func replaySem(run *vlib.Run, bt *built) {
	var ro semReplay
	if _, err := vlib.LoadReplay(run.Replay, &ro); err != nil {
		fatalHarness("replay file: %v", err)
	}
	semOne(bt, ro)
}

func semOne(bt *built, ro semReplay) {
	p := &semProg{Rsize: ro.Rsize, Source: ro.Source, Expect: "accepted"}
	p.dir = filepath.Join(bt.Scratch, "sem", "replay")
	p.src = filepath.Join(bt.Scratch, "sem", "replay.go")
	os.MkdirAll(p.dir, 0o755)
	os.WriteFile(p.src, []byte(p.Source), 0o644)
	fmt.Printf("  register size %d, program:\n%s\n", ro.Rsize, indent(ro.Source))
	p.Mpm = ro.Mpm || isChannelProgram(ro.Source)
	rs, err := compileBatch(bt, []*semProg{p}, p.Rsize, p.Mpm, "replay", "")
	if err != nil {
		fatalHarness("%v", err)
	}
	fmt.Printf("  compiled by the compiler built from the current /repo tree: status=%s schedule=%v %s\n", rs[0].Status, rs[0].Choices, rs[0].Panic)
	if rs[0].Status == "deadlock-in-every-schedule" {
		fmt.Printf("  all %d explored schedules of the compiler (preemption bound %d, every interleaving: %v) end with an empty enabled set: %s\n", rs[0].Schedules, rs[0].Bound, rs[0].Full, rs[0].Detail)
		for _, g := range rs[0].Blocked {
			fmt.Printf("    blocked: %s\n", g)
		}
		j := &job{Name: "replay", Rsize: p.Rsize, Mpm: p.Mpm, srcPath: p.src}
		fo := replayFreshProcess(bt, j, rs[0].Choices)
		fmt.Printf("  fresh process, schedule %v: deadlock=%v blocked set %s\n", rs[0].Choices, fo.Deadlock, shapeOf(fo.Blocked))
	}
	xw, err := startExecWorker()
	if err != nil {
		fatalHarness("%v", err)
	}
	defer xw.stop()
	var oc *semOutcome
	if p.Mpm {
		cs := []compiled{rs[0]}
		for k := 1; k < chanCompilations; k++ {
			rk, err := compileBatch(bt, []*semProg{p}, p.Rsize, p.Mpm, "replay", chanDirSuffix(k))
			if err != nil {
				fatalHarness("%v", err)
			}
			cs = append(cs, rk[0])
		}
		oc = judgeChannel(xw, p, cs)
		for x := oc.Extra; x != nil; x = x.Extra {
			fmt.Printf("  also: class=%s %s\n", x.Class, x.Detail)
		}
	} else {
		oc = judge(xw, p, rs[0])
	}
	if oc.Log != "" {
		fmt.Printf("  compiler output:\n%s\n", indent(oc.Log))
	}
	if oc.Asm != "" {
		fmt.Printf("  emitted assembly:\n%s\n", indent(oc.Asm))
	}
	if p.Mpm {
		fmt.Printf("  reference evaluation (Go channel semantics, run to quiescence): %s\n", fmtOutMap(oc.ExpectedMP))
		fmt.Printf("  multi-processor ISA model of the emitted assembly:              %s\n", fmtOutMap(oc.GotMP))
		fmt.Printf("  hardware: %s\n", oc.HDLNote)
	} else {
		fmt.Printf("  reference evaluation (Go semantics, wrap-around at %d bits): %s\n", ro.Rsize, fmtOuts(oc.Expected, 2))
		fmt.Printf("  generated hardware under vsim:                           %s\n", fmtOuts(oc.Got, 2))
	}
	fmt.Printf("RESULT: class=%s %s\n", oc.Class, oc.Detail)
}
