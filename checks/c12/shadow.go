package main

// Part 2, SHADOWING family: Go block scoping of variables.
//
// An outer variable V (memory resident `a` or register resident `reg_b`), a nested block that
// redeclares the same name (or, as control, does not), assignments / ++ / reads of the name inside
// and after the block, IOWrite of the name inside and after the block.
//
//	func main() {
//		var o0 bondgo.Output; var V uintN; [var reg_t uintN]; o0 = bondgo.Make(bondgo.Output, 3)
//		PRE                       (nothing | V = 5)
//		BLOCK {                   bare `{`  |  `if reg_t == 0 {`  |  `if reg_t == 1 { } else {`  |
//		                          `for reg_t = 0; reg_t == 2 == false; reg_t++ {`
//			[var V uintN]
//			INNER                 1..2 statements of  V = 1 | V = V + 2 | V++ | IOWrite(o0, V)
//		}
//		POST                      IOWrite(o0, V)  |  V++; IOWrite(o0, V)  | ...
//	}
//
// and a two level variant (a bare block, optionally redeclaring again, inside the block).
//
// The bare block and the else body are executed by the generated hardware even though opcode je is a
// placeholder (comparisons are always false there: known finding); for the if and for bodies the
// ISA model of the emitted assembly decides (class codegen-mismatch is judged against the ISA
// model, independently of the hardware).

import (
	"fmt"
	"go/ast"
	"go/parser"
	"go/token"
	"strings"
)

type shadowShape struct {
	name   string   // a | reg_b
	pre    []string // statements before the block (V placeholder)
	kind   string   // bare | if | else | for
	redecl bool
	inner  []string
	post   []string
}

var shadowSimple = []string{"V = 1", "V = V + 2", "V++", "bondgo.IOWrite(o0, V)"}

func shadowOpen(kind string) (open string, needT bool) {
	switch kind {
	case "bare":
		return "{", false
	case "if":
		return "if reg_t == 0 {", true
	case "else":
		return "if reg_t == 1 {\n\t} else {", true
	case "for":
		return "for reg_t = 0; reg_t == 2 == false; reg_t++ {", true
	}
	panic("kind")
}

func (s shadowShape) source(rsize int) string {
	ut := fmt.Sprintf("uint%d", rsize)
	open, needT := shadowOpen(s.kind)
	var b strings.Builder
	b.WriteString("package main\n\nimport (\n\t\"bondgo\"\n)\n\nfunc main() {\n\tvar o0 bondgo.Output\n\tvar V " + ut + "\n")
	if needT {
		b.WriteString("\tvar reg_t " + ut + "\n")
	}
	b.WriteString("\to0 = bondgo.Make(bondgo.Output, 3)\n")
	for _, l := range s.pre {
		b.WriteString("\t" + l + "\n")
	}
	b.WriteString("\t" + open + "\n")
	if s.redecl {
		b.WriteString("\t\tvar V " + ut + "\n")
	}
	for _, l := range s.inner {
		b.WriteString("\t\t" + strings.ReplaceAll(l, "\n", "\n\t\t") + "\n")
	}
	b.WriteString("\t}\n")
	for _, l := range s.post {
		b.WriteString("\t" + l + "\n")
	}
	b.WriteString("}\n")
	return strings.ReplaceAll(b.String(), "V", s.name)
}

func seqsOf(alpha []string, minLen, maxLen int) [][]string {
	var out [][]string
	var rec func(cur []string)
	rec = func(cur []string) {
		if len(cur) >= minLen {
			out = append(out, append([]string{}, cur...))
		}
		if len(cur) == maxLen {
			return
		}
		for _, a := range alpha {
			rec(append(cur, a))
		}
	}
	rec(nil)
	return out
}

// shadowPrograms enumerates the family exhaustively within the bounds of the tier.
func shadowPrograms(thorough bool) (progs []*semProg, descr []string) {
	add := func(tag string, rsize int, s shadowShape) {
		size := len(s.pre) + len(s.inner) + len(s.post) + 1
		progs = append(progs, &semProg{Rsize: rsize, Size: size, Alpha: tag, Source: s.source(rsize), Expect: "accepted"})
	}
	names := []string{"a", "reg_b"}
	kinds := []string{"bare", "if", "else", "for"}
	inner := seqsOf(shadowSimple, 1, 2) // 20
	w := "bondgo.IOWrite(o0, V)"
	n0 := len(progs)
	// (A) one level
	pres := [][]string{{"V = 5"}}
	posts := [][]string{{w}, {"V++", w}}
	if thorough {
		pres = [][]string{nil, {"V = 5"}}
		posts = [][]string{{w}, {"V++", w}, {"V = V + 2", w}, {w, "V = 1", w}}
	}
	for _, name := range names {
		for _, kind := range kinds {
			for _, redecl := range []bool{true, false} {
				if !redecl && !thorough && kind != "bare" {
					continue // quick: the control (no redeclaration) only for the bare block
				}
				for _, pre := range pres {
					for _, in := range inner {
						for pi, post := range posts {
							if !thorough && pi > 0 && kind != "bare" {
								continue // quick: the second POST form only for the bare block
							}
							add("shadow1", 8, shadowShape{name, pre, kind, redecl, in, post})
						}
					}
				}
			}
		}
	}
	descr = append(descr, fmt.Sprintf("uint8/shadow-one-level:%d", len(progs)-n0))
	n0 = len(progs)
	// (B) two levels: block { [var V]; s1; { [var V]; s2; IOWrite }; IOWrite }; IOWrite
	kinds2 := []string{"bare"}
	if thorough {
		kinds2 = kinds
	}
	for _, name := range names {
		for _, kind := range kinds2 {
			for _, d1 := range []bool{true, false} {
				for _, d2 := range []bool{true, false} {
					for _, s1 := range []string{"V = 1", "V++"} {
						for _, s2 := range []string{"V = 3", "V = V + 2", "V++"} {
							nested := "{\n"
							if d2 {
								nested += "\tvar V uintN\n"
							}
							nested += "\t" + s2 + "\n\t" + w + "\n}"
							add("shadow2", 8, shadowShape{name, []string{"V = 5"}, kind, d1, []string{s1, nested, w}, []string{w}})
						}
					}
				}
			}
		}
	}
	descr = append(descr, fmt.Sprintf("uint8/shadow-two-levels:%d", len(progs)-n0))
	n0 = len(progs)
	// (C) 16 bit: bare block and for body, redeclared, one inner statement
	for _, name := range names {
		for _, kind := range []string{"bare", "for"} {
			for _, in := range seqsOf(shadowSimple, 1, 1) {
				add("shadow1", 16, shadowShape{name, []string{"V = 5"}, kind, true, append(in, w), []string{w}})
			}
		}
	}
	descr = append(descr, fmt.Sprintf("uint16/shadow-one-level:%d", len(progs)-n0))
	for _, p := range progs {
		p.Source = strings.ReplaceAll(p.Source, "uintN", fmt.Sprintf("uint%d", p.Rsize))
	}
	return
}

// shadowFeatures describes how a program uses block scoping (for grouping failures): which kind of
// block redeclares a live outer name, what is done to the shadowing variable inside, and what is
// done to the outer variable after (or, without redeclaration, inside) the block.
func shadowFeatures(src string) []string {
	fset := token.NewFileSet()
	file, err := parser.ParseFile(fset, "p.go", src, 0)
	if err != nil {
		return nil
	}
	f := map[string]bool{}
	type scope struct {
		names map[string]bool
		kind  string
	}
	var scopes []*scope
	// resolve returns the depth at which name is declared (innermost) and whether an outer one exists too
	resolve := func(name string) (depth int, shadows bool) {
		depth = -1
		for i := len(scopes) - 1; i >= 0; i-- {
			if scopes[i].names[name] {
				if depth < 0 {
					depth = i
				} else {
					shadows = true
				}
			}
		}
		return
	}
	blocksClosed := 0
	shadowedSeen := map[string]bool{} // outer names that have been shadowed by a block already closed
	use := func(name, what string) {
		d, sh := resolve(name)
		res := "mem"
		if strings.HasPrefix(name, "reg_") {
			res = "reg"
		}
		switch {
		case sh:
			f["shadow-"+what+"-"+res] = true
			f["shadow-in-"+scopes[d].kind] = true
		case d >= 0 && d < len(scopes)-1:
			f["outer-"+what+"-from-nested-block"] = true
		case shadowedSeen[name]:
			f["outer-"+what+"-after-shadowing-block"] = true
		}
	}
	var expr func(x ast.Expr)
	expr = func(x ast.Expr) {
		switch t := x.(type) {
		case *ast.Ident:
			use(t.Name, "read")
		case *ast.BinaryExpr:
			expr(t.X)
			expr(t.Y)
		case *ast.CallExpr:
			for i, a := range t.Args {
				if se, ok := t.Fun.(*ast.SelectorExpr); ok && i == 0 && (se.Sel.Name == "IOWrite" || se.Sel.Name == "IORead" || se.Sel.Name == "Make") {
					continue
				}
				expr(a)
			}
		}
	}
	var block func(list []ast.Stmt, kind string)
	var stmt func(s ast.Stmt)
	stmt = func(s ast.Stmt) {
		switch x := s.(type) {
		case *ast.DeclStmt:
			if gd, ok := x.Decl.(*ast.GenDecl); ok {
				for _, sp := range gd.Specs {
					if vs, ok := sp.(*ast.ValueSpec); ok {
						for _, n := range vs.Names {
							if d, _ := resolve(n.Name); d >= 0 && d < len(scopes)-1 {
								f["redeclared-in-"+scopes[len(scopes)-1].kind] = true
								if len(scopes) >= 3 {
									f["redeclared-at-depth-2"] = true
								}
							} else if d < 0 && len(scopes) >= 2 {
								f["block-local"] = true
							} else if d < 0 && blocksClosed > 0 {
								f["declaration-after-block"] = true
							}
							scopes[len(scopes)-1].names[n.Name] = true
						}
					}
				}
			}
		case *ast.AssignStmt:
			if call, ok := x.Rhs[0].(*ast.CallExpr); ok {
				if se, ok := call.Fun.(*ast.SelectorExpr); ok && se.Sel.Name == "Make" {
					return
				}
			}
			expr(x.Rhs[0])
			if id, ok := x.Lhs[0].(*ast.Ident); ok {
				use(id.Name, "assign")
			}
		case *ast.IncDecStmt:
			if id, ok := x.X.(*ast.Ident); ok {
				use(id.Name, "incdec")
			}
		case *ast.ExprStmt:
			expr(x.X)
		case *ast.BlockStmt:
			f["bare-block"] = true
			block(x.List, "bare-block")
		case *ast.IfStmt:
			expr(x.Cond)
			block(x.Body.List, "if-body")
			if b, ok := x.Else.(*ast.BlockStmt); ok {
				block(b.List, "else-body")
			}
		case *ast.ForStmt:
			if x.Init != nil {
				stmt(x.Init)
			}
			if x.Cond != nil {
				expr(x.Cond)
			}
			block(x.Body.List, "for-body")
			if x.Post != nil {
				stmt(x.Post)
			}
		}
	}
	block = func(list []ast.Stmt, kind string) {
		scopes = append(scopes, &scope{names: map[string]bool{}, kind: kind})
		for _, s := range list {
			stmt(s)
		}
		top := scopes[len(scopes)-1]
		scopes = scopes[:len(scopes)-1]
		if len(top.names) > 0 {
			blocksClosed++
		}
		for n := range top.names {
			if d, _ := resolve(n); d >= 0 {
				shadowedSeen[n] = true
			}
		}
	}
	for _, d := range file.Decls {
		if fd, ok := d.(*ast.FuncDecl); ok && fd.Name.Name == "main" {
			block(fd.Body.List, "main")
		}
	}
	return keys(f)
}
