package main

// Part 1: every schedule (up to a preemption bound) of the three goroutines of cmd/bondgo
// (main = AST visitor, Var_assigner, Usage_Monitor) while it compiles each corpus program.

import (
	"encoding/json"
	"fmt"
	"os"
	"os/exec"
	"path/filepath"
	"sort"
	"strings"
	"sync"
	"time"

	"verif/engines/gosched/gs"
)

const knownShape = "Var_assigner:send(bondgo.UsageNotify)+main:send(bondgo.VarReq)"
const knownSig = "C12|compiler|deadlock|var_assigner-notifies-after-tr_exit"

type job struct {
	Name     string // corpus program (file name without .go)
	Rsize    int
	Mpm      bool
	Bound    int
	Shards   int
	Deadline time.Duration
	MaxExec  int
	Source   string // program text actually compiled (uintN substituted)
	srcPath  string
}

func (j *job) label() string {
	s := fmt.Sprintf("%s/r%d", j.Name, j.Rsize)
	if j.Mpm {
		s += "/mpm"
	}
	return s
}

func (j *job) args() []string {
	a := []string{"-input-file", j.srcPath, "-register-size", fmt.Sprint(j.Rsize), "-show-requirements", "-save-assembly", "out.asm"}
	if j.Mpm {
		a = append(a, "-mpm", "-save-bondmachine", "bm.json")
	} else {
		a = append(a, "-save-machine", "m.json")
	}
	return a
}

type childOpts struct {
	Bound      int
	MaxExec    int
	DeadlineMs int
	ShardK     int
	ShardN     int
	ShardDepth int
	Out        string
	Schedules  [][]int
	Repeat     int
	KeepDir    string
}

type shapeInfo struct {
	Count   int
	First   gs.Outcome
	Example []string
}

type childReport struct {
	Report  gs.Report
	Shapes  map[string]*shapeInfo
	Replays [][]gs.Outcome
}

type jobResult struct {
	Job    *job
	Rep    gs.Report
	Shapes map[string]*shapeInfo
	Err    error
}

var sem = make(chan struct{}, 16) // at most 16 child processes at a time

func runChild(bin string, args []string, mode string, o childOpts, dir string) (*childReport, error) {
	sem <- struct{}{}
	defer func() { <-sem }()
	if err := os.MkdirAll(dir, 0o755); err != nil {
		return nil, err
	}
	o.Out = filepath.Join(dir, ".c12.report.json")
	ob, _ := json.Marshal(o)
	c := exec.Command(bin, args...)
	c.Dir = dir
	c.Env = append(os.Environ(), "VERIF_C12_MODE="+mode, "VERIF_C12_OPTS="+string(ob))
	out, err := c.CombinedOutput()
	if err != nil {
		return nil, fmt.Errorf("child %s %v: %v\n%s", mode, args, err, tail(string(out), 4000))
	}
	b, err := os.ReadFile(o.Out)
	if err != nil {
		return nil, err
	}
	var r childReport
	if err := json.Unmarshal(b, &r); err != nil {
		return nil, err
	}
	return &r, nil
}

func tail(s string, n int) string {
	if len(s) > n {
		return "..." + s[len(s)-n:]
	}
	return s
}

// explore runs the job as j.Shards shard processes and merges their reports.
func explore(bt *built, j *job) *jobResult {
	res := &jobResult{Job: j, Shapes: map[string]*shapeInfo{}}
	n := j.Shards
	if n < 1 {
		n = 1
	}
	reps := make([]*childReport, n)
	errs := make([]error, n)
	var wg sync.WaitGroup
	for k := 0; k < n; k++ {
		wg.Add(1)
		go func(k int) {
			defer wg.Done()
			o := childOpts{Bound: j.Bound, MaxExec: j.MaxExec, DeadlineMs: int(j.Deadline / time.Millisecond)}
			if n > 1 {
				o.ShardK, o.ShardN = k, n
			}
			dir := filepath.Join(bt.Scratch, "run", strings.ReplaceAll(j.label(), "/", "_"), fmt.Sprintf("b%d-s%d", j.Bound, k))
			reps[k], errs[k] = runChild(bt.GsBin, j.args(), "explore", o, dir)
			os.RemoveAll(dir)
		}(k)
	}
	wg.Wait()
	var rs []gs.Report
	for k := 0; k < n; k++ {
		if errs[k] != nil {
			res.Err = errs[k]
			return res
		}
		rs = append(rs, reps[k].Report)
		for sh, si := range reps[k].Shapes {
			old := res.Shapes[sh]
			if old == nil {
				cpy := *si
				res.Shapes[sh] = &cpy
				continue
			}
			old.Count += si.Count
			if si.First.Preemptions < old.First.Preemptions || (si.First.Preemptions == old.First.Preemptions && len(si.First.Choices) < len(old.First.Choices)) {
				old.First, old.Example = si.First, si.Example
			}
		}
	}
	if n == 1 {
		res.Rep = rs[0]
	} else {
		res.Rep = gs.Merge(rs...)
	}
	return res
}

// replayInProcess replays schedules inside one child (same harness as the exploration).
func replayInProcess(bt *built, j *job, scheds [][]int, repeat int, keep string) ([][]gs.Outcome, error) {
	key := fmt.Sprintf("%p|%v|%d|%s", j, scheds, repeat, keep)
	if v, ok := inprocMemo.Load(key); ok {
		return v.([][]gs.Outcome), nil
	}
	r, err := replayInProcessRaw(bt, j, scheds, repeat, keep)
	if err == nil {
		inprocMemo.Store(key, r)
	}
	return r, err
}

var inprocMemo sync.Map

// replayPlan: where the artefacts of the first completing schedule are kept and how often every
// completing class is replayed (8 times when the outputs differ, to tell map order from schedule).
func replayPlan(bt *built, j *job, classes int) (keep string, repeat int) {
	if j.Bound != fullBound {
		keep = filepath.Join(bt.Scratch, "keep", strings.ReplaceAll(j.label(), "/", "_"))
	}
	repeat = 1
	if classes > 1 {
		repeat = 8
	}
	return
}

func replayInProcessRaw(bt *built, j *job, scheds [][]int, repeat int, keep string) ([][]gs.Outcome, error) {
	dir := filepath.Join(bt.Scratch, "run", strings.ReplaceAll(j.label(), "/", "_"), fmt.Sprintf("replay-%d", time.Now().UnixNano()))
	defer os.RemoveAll(dir)
	r, err := runChild(bt.GsBin, j.args(), "replay", childOpts{Schedules: scheds, Repeat: repeat, KeepDir: keep}, dir)
	if err != nil {
		return nil, err
	}
	return r.Replays, nil
}

// replayFreshProcess runs ONE schedule in a fresh process of the instrumented compiler
// (process-per-schedule mode of gosched: VERIF_SCHED, deadlock detected by the child itself).
func replayFreshProcess(bt *built, j *job, choices []int) gs.Outcome {
	key := fmt.Sprintf("%p|%v", j, choices)
	if v, ok := freshMemo.Load(key); ok {
		return v.(gs.Outcome)
	}
	sem <- struct{}{}
	defer func() { <-sem }()
	cmd := append([]string{bt.GsBin}, j.args()...)
	o := gs.ReplayProcess(cmd, nil, gs.ProcOptions{Timeout: 120 * time.Second, ObserveFiles: true, ObserveStdout: true}, choices)
	freshMemo.Store(key, o)
	return o
}

// freshMemo lets the per-job goroutines run the fresh-process cross-checks in parallel before the
// (sequential, deterministic) reporting loop asks for them.
var freshMemo sync.Map

// prefetch runs the fresh-process replays the reporting loop will need for this job.
func prefetch(bt *built, r *jobResult) {
	if r.Err != nil {
		return
	}
	var wg sync.WaitGroup
	do := func(ch []int) {
		wg.Add(1)
		go func() { defer wg.Done(); replayFreshProcess(bt, r.Job, ch) }()
	}
	for _, si := range r.Shapes {
		do(si.First.Choices)
	}
	if r.Rep.PanicCount > 0 && len(r.Rep.Panics) > 0 {
		do(r.Rep.Panics[0].Choices)
	}
	var completing []string
	for k := range r.Rep.Outcomes {
		if !strings.Contains(k, "[") {
			completing = append(completing, k)
		}
	}
	sort.Strings(completing)
	if len(completing) > 0 {
		do(r.Rep.FirstOfEachOutcome[completing[0]].Choices)
		var scheds [][]int
		for _, k := range completing {
			scheds = append(scheds, r.Rep.FirstOfEachOutcome[k].Choices)
		}
		keep, repeat := replayPlan(bt, r.Job, len(completing))
		wg.Add(1)
		go func() { defer wg.Done(); replayInProcess(bt, r.Job, scheds, repeat, keep) }()
	}
	wg.Wait()
}

// shapeOf abstracts a blocked-goroutine set exactly as the child does.
func shapeOf(bl []gs.GInfo) string {
	var parts []string
	for _, g := range bl {
		p := g.Pending
		op := p
		if i := strings.Index(p, " "); i > 0 {
			op = p[:i]
		}
		role := "?"
		if i := strings.Index(p, "(chan "); i >= 0 {
			r := p[i+6:]
			if k := strings.IndexAny(r, " )"); k > 0 {
				r = r[:k]
			}
			role = r
		}
		fn := g.Func
		if i := strings.LastIndex(fn, "."); i >= 0 {
			fn = fn[i+1:]
		}
		parts = append(parts, fn+":"+op+"("+role+")")
	}
	sort.Strings(parts)
	return strings.Join(parts, "+")
}

// parseObs splits "stdout=.. out.asm=.. m.json=.." into artefact -> hash.
func parseObs(obs string) map[string]string {
	m := map[string]string{}
	for _, f := range strings.Fields(obs) {
		if i := strings.Index(f, "="); i > 0 {
			k := f[:i]
			if k == "exit" {
				continue
			}
			m[k] = f[i+1:]
		}
	}
	return m
}

func artefactKind(name string) string {
	switch {
	case name == "stdout":
		return "requirements-dump"
	case strings.HasPrefix(name, "out.asm"):
		return "assembly"
	case strings.HasSuffix(name, ".json"):
		return "machine-json"
	}
	return "other"
}

func sigDetail(s string) string {
	r := strings.NewReplacer("bondgo.", "", " ", "", "|", "/")
	return r.Replace(s)
}

type schedReplay struct {
	Part       string   `json:"part"`
	Program    string   `json:"program"`
	Source     string   `json:"source"`
	Rsize      int      `json:"register_size"`
	Mpm        bool     `json:"mpm"`
	Choices    []int    `json:"choices"`
	Choices2   []int    `json:"choices2,omitempty"` // second schedule for output comparisons
	Expect     string   `json:"expect"`
	BlockedSet []string `json:"blocked,omitempty"`
}

func (j *job) replayObj(choices []int, expect string, blocked []string) schedReplay {
	if choices == nil {
		choices = []int{}
	}
	return schedReplay{Part: "schedules", Program: j.Name, Source: j.Source, Rsize: j.Rsize, Mpm: j.Mpm, Choices: choices, Expect: expect, BlockedSet: blocked}
}
