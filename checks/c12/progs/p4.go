package main

import (
	"bondgo"
)

func main() {
	var out0 bondgo.Output
	var reg_i uint8
	out0 = bondgo.Make(bondgo.Output, 3)
	for reg_i = 0; reg_i == 0; reg_i++ {
		bondgo.IOWrite(out0, reg_i)
	}
}
