package main

import (
	"bondgo"
)

func worker(x uint8) {
	var out1 bondgo.Output
	out1 = bondgo.Make(bondgo.Output, 4)
	bondgo.IOWrite(out1, x)
}

func main() {
	var out0 bondgo.Output
	var a uint8
	out0 = bondgo.Make(bondgo.Output, 3)
	a = 6
	go worker(a)
	bondgo.IOWrite(out0, a)
}
