package main

import (
	"bondgo"
)

func twice(x uint8) uint8 {
	return x + x
}

func main() {
	var out0 bondgo.Output
	var a uint8
	out0 = bondgo.Make(bondgo.Output, 3)
	a = twice(3)
	bondgo.IOWrite(out0, a)
}
