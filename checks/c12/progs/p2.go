package main

import (
	"bondgo"
)

func main() {
	var out0 bondgo.Output
	var a uint8
	var b uint8
	var reg_c uint8
	out0 = bondgo.Make(bondgo.Output, 3)
	a = 5
	b = 7
	reg_c = a + b*a
	bondgo.IOWrite(out0, reg_c)
}
