package main

import (
	"bondgo"
)

func main() {
	var out0 bondgo.Output
	var a uint8
	out0 = bondgo.Make(bondgo.Output, 3)
	a = 2
	if a == 2 {
		a = 9
	} else {
		a = 4
	}
	bondgo.IOWrite(out0, a)
}
