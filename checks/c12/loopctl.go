package main

// Part 2, LOOP CONTROL family: break and continue.
//
// `continue` in a 3-clause loop must run the post statement; `break` leaves the innermost loop.  The
// conditions are `==` comparisons, which the generated hardware cannot evaluate (opcode je is a
// placeholder: recorded finding), so for this family the ISA model of the emitted assembly against the
// source decides (class codegen-mismatch), as for every if / for program.

import (
	"fmt"
	"strings"
)

type loopForm struct {
	name   string
	header string
	lv, cv string   // loop variable, counter
	prefix []string // statements every body starts with (loops that advance the variable in the body)
}

func loopCtlSource(rsize int, lines []string) string {
	var b strings.Builder
	ut := fmt.Sprintf("uint%d", rsize)
	b.WriteString("package main\n\nimport (\n\t\"bondgo\"\n)\n\nfunc main() {\n\tvar o0 bondgo.Output\n\tvar a " + ut + "\n\tvar reg_b " + ut + "\n\to0 = bondgo.Make(bondgo.Output, 3)\n")
	for _, l := range lines {
		b.WriteString("\t" + strings.ReplaceAll(l, "\n", "\n\t") + "\n")
	}
	b.WriteString("}\n")
	return b.String()
}

func block(header string, body []string) string {
	return header + " {\n\t" + strings.ReplaceAll(strings.Join(body, "\n"), "\n", "\n\t") + "\n}"
}

func loopCtlPrograms(thorough bool) (progs []*semProg, descr []string) {
	forms := []loopForm{
		{"three-clause-reg", "for reg_b = 0; reg_b == 3 == false; reg_b++", "reg_b", "a", nil},
		{"three-clause-assign-post", "for reg_b = 0; reg_b == 3 == false; reg_b = reg_b + 1", "reg_b", "a", nil},
		{"three-clause-mem", "for a = 3; a == 0 == false; a--", "a", "reg_b", nil},
		{"cond-only", "for reg_b == 3 == false", "reg_b", "a", []string{"reg_b++"}},
		{"infinite-with-break", "for", "reg_b", "a", []string{"reg_b++", "if reg_b == 3 {\n\tbreak\n}"}},
	}
	rsizes := []int{8}
	if thorough {
		rsizes = []int{8, 16}
	}
	for _, rs := range rsizes {
		n0 := len(progs)
		add := func(tag string, lines []string) {
			progs = append(progs, &semProg{Rsize: rs, Size: len(lines) + strings.Count(strings.Join(lines, "\n"), "\n"), Alpha: "loopctl:" + tag, Source: loopCtlSource(rs, lines), Expect: "accepted"})
		}
		for _, f := range forms {
			w := func(v string) string { return "bondgo.IOWrite(o0, " + v + ")" }
			bodies := [][]string{{w(f.lv)}, {w(f.lv), f.cv + "++"}, {f.cv + "++", w(f.cv)}}
			if thorough {
				bodies = append(bodies, []string{w(f.lv), f.cv + "++", w(f.cv)})
			}
			for _, body := range bodies {
				for _, kw := range []string{"continue", "break"} {
					for _, cond := range []string{f.lv + " == 1", f.lv + " == 1 == false"} {
						ctl := "if " + cond + " {\n\t" + kw + "\n}"
						for pos := 0; pos <= len(body); pos++ {
							b := append([]string{}, f.prefix...)
							b = append(b, body[:pos]...)
							b = append(b, ctl)
							b = append(b, body[pos:]...)
							add(f.name, []string{block(f.header, b), w(f.cv)})
						}
					}
				}
			}
		}
		descr = append(descr, fmt.Sprintf("uint%d/loop-control:%d", rs, len(progs)-n0))
		n0 = len(progs)
		// nested one level: the inner loop uses an assignment as post statement (a ++ there would run into
		// the recorded incdec-inside-nested-compound finding and be attributed to it)
		inner := "for reg_b = 0; reg_b == 3 == false; reg_b = reg_b + 1"
		outer := "for a = 2; a == 0 == false; a--"
		wi, wo := "bondgo.IOWrite(o0, reg_b)", "bondgo.IOWrite(o0, a)"
		for _, kw := range []string{"continue", "break"} {
			for _, cond := range []string{"reg_b == 1", "reg_b == 1 == false"} {
				ctl := "if " + cond + " {\n\t" + kw + "\n}"
				for _, ib := range [][]string{{ctl, wi}, {wi, ctl}} {
					add("nested-inner", []string{block(outer, []string{block(inner, ib), wo}), wo})
				}
			}
			for _, cond := range []string{"a == 1", "a == 1 == false"} {
				ctl := "if " + cond + " {\n\t" + kw + "\n}"
				add("nested-outer", []string{block(outer, []string{block(inner, []string{wi}), ctl, wo}), wo})
			}
		}
		descr = append(descr, fmt.Sprintf("uint%d/loop-control-nested:%d", rs, len(progs)-n0))
	}
	return
}
