package main

// Part 2, CONSTANTS family: integer literals at the boundaries of every register size the compiler offers
// (8, 16, 32, 64), in decimal, hexadecimal, octal and binary spelling, in every position a constant can be
// evaluated (plain assignment to a memory / register variable, operand of + and ==, argument of a call,
// direct IOWrite). The literal domain is {0, 1, 2^(n-1)-1, 2^(n-1), 2^(n-1)+1, 2^n-2, 2^n-1} for register size n:
// the values around the sign bit and around the all-ones word, where a conversion through a narrower or a
// signed type would show.

import (
	"fmt"
	"strconv"
	"strings"
)

func constantPrograms(thorough bool) (progs []*semProg, descr []string) {
	rsizes := []int{8, 16, 32, 64}
	for _, rs := range rsizes {
		ut := fmt.Sprintf("uint%d", rs)
		mk := func(tag string, lines []string) *semProg {
			body := strings.Join(lines, "\n")
			var b strings.Builder
			b.WriteString("package main\n\nimport (\n\t\"bondgo\"\n)\n\n")
			if strings.Contains(body, "f(") {
				b.WriteString("func f(x " + ut + ") " + ut + " {\n\treturn x + x\n}\n\n")
			}
			b.WriteString("func main() {\n\tvar o0 bondgo.Output\n\tvar a " + ut + "\n\tvar reg_b " + ut + "\n")
			b.WriteString("\to0 = bondgo.Make(bondgo.Output, 3)\n\ta = 1\n\treg_b = 3\n")
			for _, l := range lines {
				b.WriteString("\t" + strings.ReplaceAll(l, "\n", "\n\t") + "\n")
			}
			b.WriteString("}\n")
			return &semProg{Rsize: rs, Size: len(lines), Alpha: "constants:" + tag, Source: b.String(), Expect: "accepted"}
		}
		var max uint64 = ^uint64(0)
		if rs < 64 {
			max = uint64(1)<<uint(rs) - 1
		}
		half := uint64(1) << uint(rs-1)
		values := []uint64{0, 1, half - 1, half, half + 1, max - 1, max}
		w := func(x string) string { return "bondgo.IOWrite(o0, " + x + ")" }
		n0 := len(progs)
		for _, v := range values {
			spell := []string{strconv.FormatUint(v, 10), "0x" + strconv.FormatUint(v, 16)}
			if thorough {
				spell = append(spell, "0X"+strings.ToUpper(strconv.FormatUint(v, 16)), "0o"+strconv.FormatUint(v, 8), "0b"+strconv.FormatUint(v, 2), "0"+strconv.FormatUint(v, 8))
			}
			for _, lit := range spell {
				progs = append(progs,
					mk("assign", []string{"a = " + lit, w("a"), "reg_b = " + lit, w("reg_b")}),
					mk("operand", []string{"a = reg_b + " + lit, w("a"), "reg_b = " + lit + " + a", w("reg_b")}),
					mk("compare", []string{block("if a == "+lit, []string{w("a")}), "a = " + lit, block("if a == "+lit, []string{w("reg_b")}), w("a")}),
					mk("write", []string{w(lit)}),
					mk("argument", []string{"a = f(" + lit + ")", w("a")}),
				)
			}
		}
		descr = append(descr, fmt.Sprintf("uint%d/constants:%d", rs, len(progs)-n0))
	}
	return
}
