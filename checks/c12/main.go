// C12 — "Compiled Go programs do what the source does; compilation always terminates".
//
// Part 1 (model checking, decides termination / timing independence): the REAL cmd/bondgo, rewritten
// by the gosched instrumenter, is run under a controlled scheduler once per schedule of its three
// goroutines (main/visitor, Var_assigner, Usage_Monitor) for every corpus program; all schedules up
// to a preemption bound (or all interleavings when the space is small enough).  Oracles: (a) no
// schedule deadlocks, panics or exceeds the step limit; (b) assembly, requirements dump and machine
// JSON are byte-identical across all completing schedules.
//
// Part 2 (bounded-exhaustive semantics, see sem.go): every program of a size-bounded Go-subset
// grammar is compiled by the unmodified compiler, the requested machine is rendered to Verilog and
// simulated with the vsim engine; the sequence of values appearing on each output must equal the
// reference evaluation of the source with wrap-around at the register size.
//
// Built and run by checks/c12/run.sh (the instrumented compiler is rebuilt from /repo's current
// tree on every run; VERIF_OVERLAY replacements are instrumented, not the /repo originals).
package main

import (
	"flag"
	"fmt"
	"os"
	"path/filepath"
	"sort"
	"strings"
	"sync"
	"time"

	"verif/engines/gosched/gs"
	"verif/lib/vlib"
)

var (
	partFlag = flag.String("part", "all", "which parts to run: all | 1 | 2")
	verbose  = flag.Bool("v", false, "print per-program details")
	keepFlag = flag.Bool("keep", false, "keep the scratch directory")
	semFile  = flag.String("semfile", "", "debug: compile, execute and evaluate this single program (part 2 pipeline) and exit")
	semRsize = flag.Int("semrsize", 8, "register size for -semfile")
	semCount = flag.Bool("semcount", false, "debug: print the number of programs part 2 would enumerate and exit")
)

func fatalHarness(format string, a ...any) {
	fmt.Fprintf(os.Stderr, "HARNESS-ERROR check=C12: "+format+"\n", a...)
	os.Exit(2)
}

func main() {
	for _, a := range os.Args[1:] {
		if a == "-semworker" {
			semWorkerMain()
			return
		}
	}
	run := vlib.Start("C12", "model_checking")
	scratch, err := os.MkdirTemp("", "verif-c12-")
	if err != nil {
		fatalHarness("%v", err)
	}
	cleanup := func() {
		if !*keepFlag {
			os.RemoveAll(scratch)
		} else {
			fmt.Println("scratch kept:", scratch)
		}
	}
	t0 := time.Now()
	bt, err := prepare(scratch, true)
	if err != nil {
		fmt.Fprintln(os.Stderr, err)
		fmt.Fprintln(os.Stderr, "BUILD-FAILED check=C12 (the instrumented compiler could not be built against the current /repo tree)")
		cleanup()
		os.Exit(2)
	}
	for _, w := range bt.Warnings {
		fmt.Fprintln(os.Stderr, "instrumenter warning:", w)
	}
	run.Set("build_s", time.Since(t0).Seconds())
	if len(bt.Mutated) > 0 {
		sort.Strings(bt.Mutated)
		run.Set("overlay_files", bt.Mutated)
	}
	if *semFile != "" {
		b, err := os.ReadFile(*semFile)
		if err != nil {
			fatalHarness("%v", err)
		}
		semOne(bt, semReplay{Rsize: *semRsize, Source: string(b)})
		cleanup()
		return
	}
	if run.Replay != "" {
		doReplay(run, bt)
		cleanup()
		return
	}
	parts := []string{}
	if *partFlag == "all" || *partFlag == "1" {
		part1(run, bt)
		parts = append(parts, "part1-schedules")
	}
	if *partFlag == "all" || *partFlag == "2" {
		if part2(run, bt) {
			parts = append(parts, "part2-semantics")
		}
	}
	run.Set("parts_run", parts)
	if _, ok := run.Cov["exhaustive"]; !ok {
		run.Set("exhaustive", true)
	}
	cleanup()
	run.Finish()
}

// ------------------------------------------------------------------ corpus

type corpusProg struct {
	Name string
	Mpm  bool
}

var corpus = []corpusProg{{"p1", false}, {"p2", false}, {"p3", false}, {"p4", false}, {"p5", false}, {"p6", true}}

func loadProg(bt *built, name string, rsize int) (src, path string) {
	b, err := os.ReadFile(filepath.Join("/verif/checks/c12/progs", name+".go"))
	if err != nil {
		fatalHarness("%v", err)
	}
	src = strings.ReplaceAll(string(b), "uint8", fmt.Sprintf("uint%d", rsize))
	path = filepath.Join(bt.Scratch, "src", fmt.Sprintf("%s_r%d.go", name, rsize))
	os.MkdirAll(filepath.Dir(path), 0o755)
	if err := os.WriteFile(path, []byte(src), 0o644); err != nil {
		fatalHarness("%v", err)
	}
	return
}

func mkJob(bt *built, p corpusProg, rsize, bound, shards int, deadline time.Duration) *job {
	j := &job{Name: p.Name, Mpm: p.Mpm, Rsize: rsize, Bound: bound, Shards: shards, Deadline: deadline}
	j.Source, j.srcPath = loadProg(bt, p.Name, rsize)
	return j
}

const fullBound = 64 // "all interleavings": the explorer stops as soon as an iteration prunes nothing

func part1Jobs(run *vlib.Run, bt *built) []*job {
	var jobs []*job
	if !run.Thorough() {
		// quick: every program at 8 bit with preemption bound 2, the smallest one completely, one at 16 bit
		for _, p := range corpus {
			jobs = append(jobs, mkJob(bt, p, 8, 2, 1, 60*time.Second))
		}
		jobs = append(jobs, mkJob(bt, corpus[0], 8, fullBound, 1, 60*time.Second))
		jobs = append(jobs, mkJob(bt, corpus[1], 16, 1, 1, 60*time.Second))
		return jobs
	}
	// thorough: bound 5 (capped at 6 minutes per program, caps reported) at 8 bit, bound 3 at 16 bit,
	// complete interleaving space for p1 at 8/32/64 bit
	for _, p := range corpus {
		jobs = append(jobs, mkJob(bt, p, 8, 5, 8, 6*time.Minute))
	}
	for _, p := range corpus {
		jobs = append(jobs, mkJob(bt, p, 16, 3, 4, 4*time.Minute))
	}
	for _, r := range []int{8, 32, 64} {
		jobs = append(jobs, mkJob(bt, corpus[0], r, fullBound, 2, 4*time.Minute))
	}
	jobs = append(jobs, mkJob(bt, corpus[4], 8, fullBound, 4, 4*time.Minute)) // p5 (function call): every interleaving
	return jobs
}

// ------------------------------------------------------------------ part 1

type progRow struct {
	Program        string         `json:"program"`
	Rsize          int            `json:"register_size"`
	Mpm            bool           `json:"mpm,omitempty"`
	BoundRequested any            `json:"bound_requested"`
	BoundCompleted int            `json:"bound_completed"`
	FullyExplored  bool           `json:"all_interleavings_explored"`
	Schedules      int            `json:"schedules"`
	Executions     int            `json:"executions"`
	MaxPoints      int            `json:"max_choice_points"`
	Deadlocks      int            `json:"deadlocking_schedules"`
	Shapes         map[string]int `json:"deadlock_shapes,omitempty"`
	MinDeadlock    []int          `json:"minimal_deadlock_schedule,omitempty"`
	MinDeadlockPre int            `json:"minimal_deadlock_preemptions"`
	Completing     int            `json:"completing_schedules"`
	DistinctOut    int            `json:"distinct_outputs"`
	Panics         int            `json:"panics"`
	Nondet         int            `json:"nondeterministic_replays"`
	CapHit         string         `json:"cap_hit,omitempty"`
	Elapsed        float64        `json:"elapsed_s"`
}

func part1(run *vlib.Run, bt *built) {
	jobs := part1Jobs(run, bt)
	results := make([]*jobResult, len(jobs))
	var wg sync.WaitGroup
	for i, j := range jobs {
		wg.Add(1)
		go func(i int, j *job) {
			defer wg.Done()
			results[i] = explore(bt, j)
			prefetch(bt, results[i])
		}(i, j)
	}
	wg.Wait()

	var rows []progRow
	exhaustive := true
	var caps []string
	totalDead, totalSched, totalExec, crossChecks, mapOrderCases, nondetReplays := 0, 0, 0, 0, 0, 0
	var states, transitions int64
	sampled := map[string]bool{}
	for _, r := range results {
		j := r.Job
		if r.Err != nil {
			fatalHarness("%s bound %d: %v", j.label(), j.Bound, r.Err)
		}
		rep := r.Rep
		row := progRow{Program: j.Name, Rsize: j.Rsize, Mpm: j.Mpm, BoundRequested: j.Bound, BoundCompleted: rep.BoundCompleted, FullyExplored: rep.FullyExplored,
			Schedules: rep.Schedules, Executions: rep.Executions, MaxPoints: rep.MaxPoints, Deadlocks: rep.DeadlockCount, Panics: rep.PanicCount,
			Nondet: rep.Nondeterministic, CapHit: rep.CapHit, Elapsed: rep.Elapsed.Seconds(), Shapes: map[string]int{}, MinDeadlockPre: -1}
		if j.Bound == fullBound {
			row.BoundRequested = "all"
		}
		if !rep.Exhaustive {
			exhaustive = false
			caps = append(caps, fmt.Sprintf("%s: %s cap hit in bound %d (bound %d completed)", j.label(), rep.CapHit, rep.BoundCompleted+1, rep.BoundCompleted))
		}
		states += rep.TotalPoints
		transitions += rep.TotalSteps
		totalSched += rep.Schedules
		totalExec += rep.Executions
		totalDead += rep.DeadlockCount
		nondetReplays += rep.Nondeterministic

		// (a) deadlocks, by shape of the blocked set
		shapeCount := 0
		var shapes []string
		for sh := range r.Shapes {
			shapes = append(shapes, sh)
		}
		sort.Strings(shapes)
		for _, sh := range shapes {
			si := r.Shapes[sh]
			row.Shapes[sh] = si.Count
			shapeCount += si.Count
			if row.MinDeadlockPre < 0 || si.First.Preemptions < row.MinDeadlockPre {
				row.MinDeadlockPre, row.MinDeadlock = si.First.Preemptions, si.First.Choices
			}
			// cross-check in a fresh process (process-per-schedule mode: the child detects the deadlock itself)
			fo := replayFreshProcess(bt, j, si.First.Choices)
			crossChecks++
			if !fo.Deadlock || shapeOf(fo.Blocked) != sh {
				fatalHarness("%s: schedule %v deadlocks with blocked set %q inside the exploration harness but a fresh process gives deadlock=%v blocked=%q obs=%q",
					j.label(), si.First.Choices, sh, fo.Deadlock, shapeOf(fo.Blocked), fo.Observation)
			}
			var bl []string
			for _, g := range fo.Blocked {
				bl = append(bl, g.String())
			}
			sig := knownSig
			what := fmt.Sprintf("bondgo hangs while compiling %s (register size %d): in %d of %d schedules with <= %d preemptions (first: %v, %d preemptions) main blocks forever on `Reqs <- REQ_EXIT` while Var_assigner blocks forever on `useditem <- UsageNotify{...}` because Usage_Monitor already left on TR_EXIT: Var_assigner answers the requester BEFORE notifying the usage monitor, so main can reach `Used <- TR_EXIT` first. Blocked: %s",
				j.Name, j.Rsize, si.Count, rep.Schedules, rep.BoundCompleted, si.First.Choices, si.First.Preemptions, strings.Join(bl, " ; "))
			if sh != knownShape {
				sig = "C12|compiler|deadlock|" + sigDetail(sh)
				what = fmt.Sprintf("bondgo deadlocks while compiling %s (register size %d): %d of %d schedules with <= %d preemptions (first: %v, %d preemptions); blocked goroutines: %s",
					j.Name, j.Rsize, si.Count, rep.Schedules, rep.BoundCompleted, si.First.Choices, si.First.Preemptions, strings.Join(bl, " ; "))
			}
			run.Report(sig, what, j.replayObj(si.First.Choices, "deadlock "+sh, bl))
			if !sampled["dl"+sh] {
				sampled["dl"+sh] = true
				run.Sample(map[string]any{"kind": "deadlocking schedule", "program": j.label(), "choices": si.First.Choices, "preemptions": si.First.Preemptions, "blocked": bl})
			}
		}
		if shapeCount != rep.DeadlockCount {
			fatalHarness("%s: %d deadlocks counted by the explorer but %d classified by shape", j.label(), rep.DeadlockCount, shapeCount)
		}

		// panics / step limit / other abnormal ends
		if rep.PanicCount > 0 && len(rep.Panics) > 0 {
			p := rep.Panics[0]
			msg := fmt.Sprint(p.Panic)
			fo := replayFreshProcess(bt, j, p.Choices)
			crossChecks++
			if fo.Panic == nil {
				fatalHarness("%s: schedule %v panics (%s) inside the exploration harness but not in a fresh process (%q)", j.label(), p.Choices, msg, fo.Observation)
			}
			run.Report("C12|compiler|panic-while-compiling|"+panicClass(msg),
				fmt.Sprintf("bondgo panics while compiling corpus program %s (register size %d) in %d of %d schedules, first %v: %s", j.Name, j.Rsize, rep.PanicCount, rep.Schedules, p.Choices, msg),
				j.replayObj(p.Choices, "panic", nil))
		}
		var completing []string
		for k, n := range rep.Outcomes {
			switch {
			case strings.Contains(k, "[STEPLIMIT]"):
				o := rep.FirstOfEachOutcome[k]
				run.Report("C12|compiler|nontermination|step-limit-exceeded",
					fmt.Sprintf("bondgo exceeds the step limit (%d transitions) while compiling %s in %d schedules, first %v", o.Steps, j.Name, n, o.Choices), j.replayObj(o.Choices, "steplimit", nil))
			case strings.Contains(k, "[DEADLOCK]"), strings.Contains(k, "[PANIC"), strings.Contains(k, "[NONDETERMINISM]"):
			default:
				completing = append(completing, k)
				row.Completing += n
			}
		}
		sort.Strings(completing)
		row.DistinctOut = len(completing)

		// (b) outputs identical across completing schedules
		if len(completing) > 0 {
			var scheds [][]int
			for _, k := range completing {
				scheds = append(scheds, rep.FirstOfEachOutcome[k].Choices)
			}
			first := rep.FirstOfEachOutcome[completing[0]]
			keep, repeat := replayPlan(bt, j, len(completing))
			rp, err := replayInProcess(bt, j, scheds, repeat, keep)
			if err != nil {
				fatalHarness("%s: replay: %v", j.label(), err)
			}
			// per schedule, per artefact: set of hashes seen
			seen := make([]map[string]map[string]bool, len(scheds))
			arts := map[string]bool{}
			for i, outs := range rp {
				seen[i] = map[string]map[string]bool{}
				for _, o := range outs {
					if o.Deadlock || o.Panic != nil || o.Nondeterminism != "" {
						nondetReplays++
						continue
					}
					for a, h := range parseObs(o.Observation) {
						if seen[i][a] == nil {
							seen[i][a] = map[string]bool{}
						}
						seen[i][a][h] = true
						arts[a] = true
					}
				}
			}
			unstable := map[string]bool{}
			if len(completing) > 1 {
				var names []string
				for a := range arts {
					names = append(names, a)
				}
				sort.Strings(names)
				for _, a := range names {
					stable := true
					vals := map[string]int{} // hash -> first schedule index
					for i := range scheds {
						if len(seen[i][a]) != 1 {
							stable = false
						}
						for h := range seen[i][a] {
							if _, ok := vals[h]; !ok {
								vals[h] = i
							}
						}
					}
					if !stable {
						unstable[a] = true
						continue
					}
					if len(vals) > 1 {
						var idx []int
						for _, i := range vals {
							idx = append(idx, i)
						}
						sort.Ints(idx)
						ro := j.replayObj(scheds[idx[0]], "outputs of the two schedules are equal", nil)
						ro.Choices2 = scheds[idx[1]]
						run.Report("C12|compiler|output-depends-on-schedule|"+artefactKind(a),
							fmt.Sprintf("bondgo emits a different %s (%s) for %s depending on the interleaving of its goroutines: schedule %v and schedule %v each give a stable (8 replays) but different result", artefactKind(a), a, j.label(), scheds[idx[0]], scheds[idx[1]]), ro)
					}
				}
				if len(unstable) > 0 {
					mapOrderCases++
					if *verbose {
						fmt.Printf("  %s: artefacts %v differ between replays of the SAME schedule (map iteration order; property C07), not counted under C12\n", j.label(), keys(unstable))
					}
				}
			}
			// fresh-process cross-check of the first completing schedule
			fo := replayFreshProcess(bt, j, first.Choices)
			crossChecks++
			if fo.Deadlock || fo.Panic != nil {
				fatalHarness("%s: schedule %v completes inside the exploration harness but a fresh process gives %q deadlock=%v panic=%v", j.label(), first.Choices, fo.Observation, fo.Deadlock, fo.Panic)
			}
			fa := parseObs(fo.Observation)
			for a, h := range fa {
				if unstable[a] || seen[0][a][h] {
					continue
				}
				// may still be map order: replay the schedule a few more times before calling it a mismatch
				more, err := replayInProcess(bt, j, [][]int{first.Choices}, 16, "")
				ok := false
				if err == nil {
					hs := map[string]bool{}
					for _, o := range more[0] {
						hs[parseObs(o.Observation)[a]] = true
					}
					ok = len(hs) > 1 || hs[h]
				}
				if !ok {
					fatalHarness("%s: artefact %s of schedule %v differs between the exploration harness and a fresh process", j.label(), a, first.Choices)
				}
				mapOrderCases++
			}
			if keep != "" && !sampled["asm"+j.Name] {
				if asm, err := os.ReadFile(filepath.Join(keep, "0", "out.asm")); err == nil {
					sampled["asm"+j.Name] = true
					run.Sample(map[string]any{"kind": "completing schedule", "program": j.label(), "choices": first.Choices, "assembly": strings.Split(strings.TrimSpace(string(asm)), "\n")})
				}
			}
		}
		rows = append(rows, row)
		if *verbose {
			fmt.Printf("part1 %-12s bound=%v completed=%d full=%v schedules=%d executions=%d deadlocks=%d shapes=%v completing=%d distinct_outputs=%d cap=%q %.1fs\n",
				j.label(), row.BoundRequested, row.BoundCompleted, row.FullyExplored, row.Schedules, row.Executions, row.Deadlocks, row.Shapes, row.Completing, row.DistinctOut, row.CapHit, row.Elapsed)
		}
	}
	run.Set("states", int(states))
	run.Set("transitions", int(transitions))
	run.Set("traces_validated_against_impl", totalSched)
	run.Set("schedules", totalSched)
	run.Set("executions", totalExec)
	run.Set("deadlocking_schedules", totalDead)
	run.Set("fresh_process_crosschecks", crossChecks)
	run.Set("map_order_nondeterminism_cases", mapOrderCases)
	run.Set("nondeterministic_replays", nondetReplays)
	run.Set("part1_programs", rows)
	run.Set("exhaustive", exhaustive)
	if len(caps) > 0 {
		run.Set("caps_hit", caps)
	}
	run.Set("bounds", map[string]any{"part1": "all schedules of cmd/bondgo's goroutines at channel-operation granularity with at most `bound_requested` preemptions per program (\"all\" = until an iteration prunes nothing, i.e. every interleaving)", "corpus": "checks/c12/progs/p1..p6 (assignment, arithmetic with reg_ variable, if/else, for, function call, go statement with -mpm)"})
	run.Assume("code between two channel operations of a goroutine is atomic (exact for race-free code; the three goroutines of bondgo share data only through channels until main has received both done signals)")
	run.Assume("the exploration harness calls the real main() of cmd/bondgo repeatedly inside one process (flags parsed once, artefacts removed and stdout redirected per run); one schedule per deadlock shape and one completing schedule per program are re-executed in a fresh process and must agree")
}

func keys(m map[string]bool) []string {
	var s []string
	for k := range m {
		s = append(s, k)
	}
	sort.Strings(s)
	return s
}

func panicClass(msg string) string {
	// "g0: Recursion function not allowed" -> recursion-function-not-allowed
	if i := strings.Index(msg, ": "); i >= 0 && i < 6 {
		msg = msg[i+2:]
	}
	if i := strings.IndexAny(msg, "\n"); i >= 0 {
		msg = msg[:i]
	}
	var b strings.Builder
	for _, r := range strings.ToLower(msg) {
		switch {
		case r >= 'a' && r <= 'z':
			b.WriteRune(r)
		case r == ' ' || r == '-' || r == '_':
			b.WriteByte('-')
		}
		if b.Len() >= 48 {
			break
		}
	}
	return strings.Trim(b.String(), "-")
}

// ------------------------------------------------------------------ replay

func doReplay(run *vlib.Run, bt *built) {
	var ro schedReplay
	sig, err := vlib.LoadReplay(run.Replay, &ro)
	if err != nil {
		fatalHarness("replay file: %v", err)
	}
	fmt.Printf("replaying %s\n  signature: %s\n", run.Replay, sig)
	if ro.Part == "semantics" {
		replaySem(run, bt)
		return
	}
	j := &job{Name: ro.Program, Rsize: ro.Rsize, Mpm: ro.Mpm, Source: ro.Source}
	j.srcPath = filepath.Join(bt.Scratch, "replay.go")
	os.WriteFile(j.srcPath, []byte(ro.Source), 0o644)
	fmt.Printf("  program %s, register size %d, mpm=%v\n%s\n", ro.Program, ro.Rsize, ro.Mpm, indent(ro.Source))
	show := func(ch []int) gs.Outcome {
		o := replayFreshProcess(bt, j, ch)
		fmt.Printf("  schedule %v on the instrumented compiler built from the current /repo tree (fresh process, VERIF_SCHED):\n", ch)
		fmt.Printf("    deadlock=%v panic=%v steps=%d preemptions=%d observation=%q\n", o.Deadlock, o.Panic, o.Steps, o.Preemptions, o.Observation)
		for _, g := range o.Blocked {
			fmt.Printf("    blocked: %s\n", g)
		}
		if o.Nondeterminism != "" {
			fmt.Printf("    the schedule could not be followed: %s\n", o.Nondeterminism)
		}
		return o
	}
	o := show(ro.Choices)
	fmt.Printf("  expected by the property: %s\n", "no deadlock, outputs independent of the schedule")
	if ro.Choices2 != nil {
		o2 := show(ro.Choices2)
		fmt.Printf("  outputs equal: %v\n", fmt.Sprint(parseObs(o.Observation)) == fmt.Sprint(parseObs(o2.Observation)))
	}
	switch {
	case o.Deadlock:
		fmt.Printf("RESULT: still fails (deadlock, blocked set %s)\n", shapeOf(o.Blocked))
	case o.Panic != nil:
		fmt.Printf("RESULT: still fails (panic)\n")
	default:
		fmt.Printf("RESULT: this schedule completes\n")
	}
}

func indent(s string) string {
	return "      " + strings.ReplaceAll(strings.TrimRight(s, "\n"), "\n", "\n      ")
}
