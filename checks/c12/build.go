package main

// Build step: instrument pkg/bondgo + cmd/bondgo of /repo's CURRENT tree (with the VERIF_OVERLAY
// replacements substituted BEFORE instrumentation), inject the child harness, build
//   scratch/bondgo.gs     instrumented compiler + in-process exploration harness
//   scratch/bondgo.plain  the compiler as shipped (only VERIF_OVERLAY applied), for part 2
// /repo is only read.

import (
	"encoding/json"
	"fmt"
	"os"
	"os/exec"
	"path/filepath"
	"strings"

	"verif/engines/gosched/instrument"
)

const repo = "/repo"
const gsDir = "/verif/engines/gosched/gs"
const harnessSrc = "/verif/checks/c12/child_harness.go.txt"

var instrDirs = []string{"pkg/bondgo", "cmd/bondgo"}

type overlayFile struct {
	Replace map[string]string `json:"Replace"`
}

type built struct {
	Scratch      string
	GsBin        string // instrumented compiler with harness
	PlainBin     string // uninstrumented compiler (mutant overlay only)
	GsOverlay    string
	PlainOverlay string // overlay holding only the VERIF_OVERLAY replacements (always written)
	Mutated      []string
	Warnings     []string
	Counts       map[string]int
}

func goEnv() []string {
	env := os.Environ()
	set := func(k, v string) {
		if os.Getenv(k) == "" {
			env = append(env, k+"="+v)
		}
	}
	set("GOFLAGS", "-mod=mod")
	set("GOPROXY", "off")
	set("GOSUMDB", "off")
	set("GOTOOLCHAIN", "local")
	set("GOCACHE", "/verif/.cache/go-build")
	return env
}

func cp(src, dst string) error {
	b, err := os.ReadFile(src)
	if err != nil {
		return err
	}
	if err := os.MkdirAll(filepath.Dir(dst), 0o755); err != nil {
		return err
	}
	return os.WriteFile(dst, b, 0o644)
}

func readMutantOverlay() (map[string]string, error) {
	mut := map[string]string{}
	p := os.Getenv("VERIF_OVERLAY")
	if p == "" {
		return mut, nil
	}
	b, err := os.ReadFile(p)
	if err != nil {
		return nil, fmt.Errorf("VERIF_OVERLAY: %v", err)
	}
	var o overlayFile
	if err := json.Unmarshal(b, &o); err != nil {
		return nil, fmt.Errorf("VERIF_OVERLAY %s: %v", p, err)
	}
	for k, v := range o.Replace {
		mut[filepath.Clean(k)] = v
	}
	return mut, nil
}

func prepare(scratch string, wantPlain bool) (*built, error) {
	bt := &built{Scratch: scratch}
	mut, err := readMutantOverlay()
	if err != nil {
		return nil, err
	}
	for k := range mut {
		bt.Mutated = append(bt.Mutated, k)
	}
	bt.PlainOverlay = filepath.Join(scratch, "plain-overlay.json")
	pb, _ := json.MarshalIndent(overlayFile{Replace: mut}, "", " ")
	if err := os.WriteFile(bt.PlainOverlay, pb, 0o644); err != nil {
		return nil, err
	}

	shadow := filepath.Join(scratch, "shadow")
	instrOut := filepath.Join(scratch, "instr")
	if err := cp(filepath.Join(repo, "go.mod"), filepath.Join(shadow, "go.mod")); err != nil {
		return nil, err
	}
	shadowOf := map[string]string{} // /repo path -> shadow path of every file of the instrumented dirs
	for _, d := range instrDirs {
		ents, err := os.ReadDir(filepath.Join(repo, d))
		if err != nil {
			return nil, err
		}
		os.MkdirAll(filepath.Join(shadow, d), 0o755)
		for _, e := range ents {
			n := e.Name()
			if e.IsDir() || !strings.HasSuffix(n, ".go") || strings.HasSuffix(n, "_test.go") {
				continue
			}
			orig := filepath.Join(repo, d, n)
			src := orig
			if r, ok := mut[orig]; ok {
				if r == "" {
					continue // overlay semantics: deleted
				}
				src = r
			}
			if err := cp(src, filepath.Join(shadow, d, n)); err != nil {
				return nil, err
			}
			shadowOf[orig] = filepath.Join(shadow, d, n)
		}
		for k, r := range mut { // files added by the mutant
			if filepath.Dir(k) == filepath.Join(repo, d) && r != "" && strings.HasSuffix(k, ".go") && !strings.HasSuffix(k, "_test.go") {
				if _, ok := shadowOf[k]; !ok {
					if err := cp(r, filepath.Join(shadow, d, filepath.Base(k))); err != nil {
						return nil, err
					}
					shadowOf[k] = filepath.Join(shadow, d, filepath.Base(k))
				}
			}
		}
	}
	res, err := instrument.Run(instrument.Config{Repo: shadow, Dirs: instrDirs, Out: instrOut, GsDir: gsDir})
	if err != nil {
		return nil, fmt.Errorf("instrument: %v", err)
	}
	bt.Warnings = res.Warnings
	bt.Counts = res.Counts
	b, err := os.ReadFile(res.Overlay)
	if err != nil {
		return nil, err
	}
	var o overlayFile
	if err := json.Unmarshal(b, &o); err != nil {
		return nil, err
	}
	final := map[string]string{}
	for k, v := range mut { // replacements outside the instrumented directories, test files, ...
		final[k] = v
	}
	for orig, sh := range shadowOf { // mutated files the instrumenter did not need to rewrite
		if _, ok := mut[orig]; ok {
			final[orig] = sh
		}
	}
	for k, v := range o.Replace {
		if rel, ok := strings.CutPrefix(k, shadow+string(filepath.Separator)); ok {
			k = filepath.Join(repo, rel)
		}
		if strings.HasPrefix(v, instrOut) { // line directives point into the shadow tree: point them at /repo
			if src, err := os.ReadFile(v); err == nil && strings.Contains(string(src), shadow) {
				os.WriteFile(v, []byte(strings.ReplaceAll(string(src), shadow+"/", repo+"/")), 0o644)
			}
		}
		final[k] = v
	}
	// the wrapper of main installed by the instrumenter calls our harness instead of zzgs.Main
	mainFile := final[filepath.Join(repo, "cmd/bondgo/bondgo.go")]
	if !strings.HasPrefix(mainFile, instrOut) {
		return nil, fmt.Errorf("cmd/bondgo/bondgo.go was not rewritten by the instrumenter (no main / no channel operation?)")
	}
	src, err := os.ReadFile(mainFile)
	if err != nil {
		return nil, err
	}
	const wrap = "func main() { zzgs.Main(zzgsMain) }"
	if strings.Count(string(src), wrap) != 1 {
		return nil, fmt.Errorf("instrumented cmd/bondgo/bondgo.go does not contain the expected wrapper %q", wrap)
	}
	if err := os.WriteFile(mainFile, []byte(strings.Replace(string(src), wrap, "func main() { zzc12Main(zzgsMain) }", 1)), 0o644); err != nil {
		return nil, err
	}
	final[filepath.Join(repo, "cmd/bondgo/zz_c12_harness.go")] = harnessSrc
	bt.GsOverlay = filepath.Join(scratch, "gs-overlay.json")
	fb, _ := json.MarshalIndent(overlayFile{Replace: final}, "", " ")
	if err := os.WriteFile(bt.GsOverlay, fb, 0o644); err != nil {
		return nil, err
	}
	bt.GsBin = filepath.Join(scratch, "bondgo.gs")
	errc := make(chan error, 2)
	go func() { errc <- goBuild(bt.GsOverlay, bt.GsBin) }()
	if wantPlain {
		bt.PlainBin = filepath.Join(scratch, "bondgo.plain")
		go func() { errc <- goBuild(bt.PlainOverlay, bt.PlainBin) }()
	} else {
		errc <- nil
	}
	for i := 0; i < 2; i++ {
		if e := <-errc; e != nil && err == nil {
			err = e
		}
	}
	return bt, err
}

func goBuild(overlay, out string) error {
	c := exec.Command("go", "build", "-overlay", overlay, "-o", out, "./cmd/bondgo")
	c.Dir = repo
	c.Env = goEnv()
	if b, err := c.CombinedOutput(); err != nil {
		return fmt.Errorf("go build ./cmd/bondgo (overlay %s): %v\n%s", overlay, err, b)
	}
	return nil
}
