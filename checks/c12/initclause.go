package main

// Part 2, INIT CLAUSE family: `if V = E; C { } [else { }]` and `switch V = E; V { }`.
// As for every program with `==` the ISA model of the emitted assembly against the source decides.

import (
	"fmt"
	"strings"
)

func initClausePrograms(thorough bool) (progs []*semProg, descr []string) {
	rsizes := []int{8}
	if thorough {
		rsizes = []int{8, 16}
	}
	for _, rs := range rsizes {
		ut := fmt.Sprintf("uint%d", rs)
		mk := func(tag string, lines []string) *semProg {
			body := strings.Join(lines, "\n")
			var b strings.Builder
			b.WriteString("package main\n\nimport (\n\t\"bondgo\"\n)\n\n")
			if strings.Contains(body, "f(") {
				b.WriteString("func f(x " + ut + ") " + ut + " {\n\treturn x + x\n}\n\n")
			}
			b.WriteString("func main() {\n\tvar o0 bondgo.Output\n\tvar a " + ut + "\n\tvar reg_b " + ut + "\n")
			if strings.Contains(body, "reg_t") {
				b.WriteString("\tvar reg_t " + ut + "\n")
			}
			b.WriteString("\to0 = bondgo.Make(bondgo.Output, 3)\n\ta = 1\n\treg_b = 3\n")
			for _, l := range lines {
				b.WriteString("\t" + strings.ReplaceAll(l, "\n", "\n\t") + "\n")
			}
			b.WriteString("}\n")
			return &semProg{Rsize: rs, Size: 2 + strings.Count(body, "\n"), Alpha: "initclause:" + tag, Source: b.String(), Expect: "accepted"}
		}
		n0 := len(progs)
		for _, v := range []string{"a", "reg_b"} {
			other := "reg_b"
			if v == "reg_b" {
				other = "a"
			}
			w := func(x string) string { return "bondgo.IOWrite(o0, " + x + ")" }
			for _, e := range []string{"2", other, "a + reg_b", "f(reg_b)"} {
				for _, c := range []string{v + " == 2", v + " == 4"} {
					for _, body := range [][]string{{w(v)}, {v + " = " + v + " + 1", w(v)}} {
						for _, els := range []bool{false, true} {
							st := block("if "+v+" = "+e+"; "+c, body)
							if els {
								st += " else {\n\t" + w(other) + "\n}"
							}
							progs = append(progs, mk("if-top", []string{st, w(v)}))
							progs = append(progs, mk("if-in-for", []string{block("for reg_t = 0; reg_t == 2 == false; reg_t++", []string{st}), w(v)}))
							progs = append(progs, mk("if-in-if", []string{block("if reg_t == 0", []string{st}), w(v)}))
						}
					}
				}
				sw := "switch " + v + " = " + e + "; " + v + " {\ncase 2:\n\t" + w(v) + "\ndefault:\n\t" + w(other) + "\n}"
				progs = append(progs, mk("switch-top", []string{sw, w(v)}))
			}
		}
		descr = append(descr, fmt.Sprintf("uint%d/init-clause:%d", rs, len(progs)-n0))
	}
	return
}
