#!/bin/bash
# C12 runner: usage  checks/c12/run.sh <quick|thorough> [extra args: -replay FILE | -part 1|2 | -v | -keep]
# Builds the driver; the driver re-instruments pkg/bondgo + cmd/bondgo from /repo's CURRENT working
# tree (with the VERIF_OVERLAY replacements substituted before instrumentation) into a fresh scratch
# directory, builds the instrumented and the plain compiler there, runs, removes the scratch dir.
# /repo is never written.
set -u
cd /verif
. /verif/env.sh
tier="${1:-quick}"; shift || true
mkdir -p /verif/bin /verif/evidence
ov=""; out="/verif/bin/c12"
if [ -n "${VERIF_OVERLAY:-}" ]; then ov="-overlay=$VERIF_OVERLAY"; out="/verif/bin/c12.mut"; fi
if ! go build $ov -o "$out" ./checks/c12 2> /verif/bin/c12.buildlog; then
  cat /verif/bin/c12.buildlog >&2
  echo "BUILD-FAILED check=C12 (the check could not be built against the current /repo tree)" >&2
  exit 2
fi
exec "$out" -tier "$tier" "$@"
