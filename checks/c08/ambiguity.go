// Part 1 driver: the real matcher registry -> product automata -> witnesses replayed on the real code.
package main

import (
	"fmt"
	"os"
	"reflect"
	"regexp"
	"runtime"
	"sort"
	"strconv"
	"strings"
	"time"

	"verif/lib/vlib"

	"github.com/BondMachineHQ/BondMachine/pkg/bmnumbers"
)

type matcher struct {
	pat    string
	fn     bmnumbers.ImportFunc
	fnName string
	fnPtr  uintptr
	re     *regexp.Regexp // the real thing, as ImportString builds it
	nfa    *nfa
}

func harnessError(format string, a ...any) {
	fmt.Fprintf(os.Stderr, "HARNESS-ERROR C08: "+format+"\n", a...)
	os.Exit(2)
}

func snapshotMatchers(cache map[string]*matcher) []*matcher {
	var out []*matcher
	for pat, fn := range bmnumbers.AllMatchers {
		m, ok := cache[pat]
		if !ok {
			n, err := compileNFA(pat)
			if err != nil {
				harnessError("pattern %q does not compile with regexp/syntax: %v", pat, err)
			}
			ptr := reflect.ValueOf(fn).Pointer()
			name := runtime.FuncForPC(ptr).Name()
			if i := strings.LastIndex(name, "."); i >= 0 {
				name = name[i+1:]
			}
			m = &matcher{pat: pat, fn: fn, fnName: name, fnPtr: ptr, re: regexp.MustCompile(pat), nfa: n}
			cache[pat] = m
		}
		out = append(out, m)
	}
	sort.Slice(out, func(i, j int) bool { return out[i].pat < out[j].pat })
	return out
}

var namedGroup = regexp.MustCompile(`\?P<[A-Za-z0-9_]+>`)

// patTag: the pattern without group names (short, stable, '|' free).
func patTag(p string) string {
	return strings.ReplaceAll(namedGroup.ReplaceAllString(p, ""), "|", "/")
}

func famOf(typeName string) string {
	for _, d := range bmnumbers.AllDynamicalTypes {
		if d.MatchName(typeName) {
			return d.GetName()
		}
	}
	return typeName
}

// reading = what a literal means when a given matcher wins the map iteration in ImportString.
type reading struct {
	Err     string `json:"err,omitempty"`
	Type    string `json:"type,omitempty"`
	Bits    int    `json:"bits,omitempty"`
	Value   string `json:"value_hex,omitempty"`
	Storage int    `json:"storage_bytes,omitempty"`
}

func (r reading) String() string {
	if r.Err != "" {
		return "error(" + r.Err + ")"
	}
	return fmt.Sprintf("%s<%d>0x%s", r.Type, r.Bits, r.Value)
}

func (r reading) same(o reading) bool {
	if r.Err != "" || o.Err != "" {
		return r.Err != "" && o.Err != ""
	}
	return r.Type == o.Type && r.Bits == o.Bits && r.Value == o.Value
}

func readingOf(n *bmnumbers.BMNumber, err error) reading {
	if err != nil {
		return reading{Err: err.Error()}
	}
	if n == nil {
		return reading{Err: "nil number, nil error"}
	}
	inf, e := infoOf(n)
	if e != nil {
		return reading{Err: "uninspectable: " + e.Error()}
	}
	return reading{Type: inf.typ, Bits: inf.bits, Value: inf.val, Storage: inf.storage}
}

// readWith runs exactly what ImportString runs once matcher m has been picked.
func readWith(m *matcher, w string) (r reading) {
	defer func() {
		if p := recover(); p != nil {
			r = reading{Err: fmt.Sprint("panic: ", p)}
		}
	}()
	return readingOf(m.fn(regexp.MustCompile(m.pat), w))
}

func readImportString(w string) (r reading) {
	defer func() {
		if p := recover(); p != nil {
			r = reading{Err: fmt.Sprint("panic: ", p)}
		}
	}()
	return readingOf(bmnumbers.ImportString(w))
}

// wall budget for replaying the witnesses of one pair through the import functions (only matters
// when an import function is slow, i.e. the FloPoCo one, which executes an external tool)
const pairReplayBudget = 15 * time.Second

type pairStat struct {
	A, B        string
	States      int
	Transitions int
	Verdict     string // disjoint | benign-overlap | AMBIGUOUS
	Witness     string `json:",omitempty"`
}

type ambiguity struct {
	run        *vlib.Run
	cache      map[string]*matcher
	donePair   map[string]bool
	doneSingle map[string]bool
	pairs      []pairStat
	traces     int
	maxLen     int
}

func (am *ambiguity) validateNFA(m *matcher, upTo int) {
	// both directions: automaton acceptance == regexp.MatchString for every string up to upTo runes
	// over the matcher's own class alphabet (first and last member of every class).
	al := buildAlphabet(false, m.nfa)
	var letters []rune
	for _, r := range al.reps {
		letters = append(letters, r)
		mm := al.members[r]
		if last := mm[len(mm)-1]; last != r {
			letters = append(letters, last)
		}
	}
	var rec func(st astate, prev rune, rs []rune)
	rec = func(st astate, prev rune, rs []rune) {
		s := string(rs)
		got := m.nfa.accepts(st, prev)
		want := m.re.MatchString(s)
		am.traces++
		if got != want {
			harnessError("automaton/regexp disagreement on pattern %q string %q: automaton=%v regexp=%v", m.pat, s, got, want)
		}
		if len(rs) == upTo {
			return
		}
		for _, r := range letters {
			rec(m.nfa.step(st, prev, r), r, append(append([]rune{}, rs...), r))
		}
	}
	rec(astate{}, eot, nil)
}

func (am *ambiguity) single(m *matcher) {
	if am.doneSingle[m.pat] {
		return
	}
	am.doneSingle[m.pat] = true
	upTo := 4
	if am.run.Thorough() {
		upTo = 5
	}
	am.validateNFA(m, upTo)
	// empty string
	emptyAut := m.nfa.accepts(astate{}, eot)
	if emptyAut != m.re.MatchString("") {
		harnessError("empty-string disagreement on %q", m.pat)
	}
	am.traces++
	if emptyAut {
		am.run.Report("C08|matcher|accepts-empty-string|"+patTag(m.pat),
			fmt.Sprintf("matcher %q (%s) accepts the empty string: reading %s", m.pat, m.fnName, readWith(m, "")),
			map[string]any{"kind": "pair", "a": m.pat, "b": m.pat, "witness": ""})
	}
	// anchoring, decided as language inclusion L(p) ⊆ L(^(?:p)$)
	anch, err := compileNFA("^(?:" + m.pat + ")$")
	if err != nil {
		harnessError("cannot build anchored version of %q: %v", m.pat, err)
	}
	res := exploreProduct(m.nfa, anch, 0, true)
	am.run.Add("states", res.States)
	am.run.Add("transitions", res.Transitions)
	am.run.Add("anchoring_checks", 1)
	if res.Capped {
		am.run.Set("state_cap_hit", true)
	}
	if res.OnlyA != nil {
		w := *res.OnlyA
		anchRe := regexp.MustCompile("^(?:" + m.pat + ")$")
		am.traces++
		if !m.re.MatchString(w) || anchRe.MatchString(w) {
			harnessError("anchoring witness %q for %q not confirmed by regexp", w, m.pat)
		}
		am.run.Report("C08|matcher|unanchored|"+patTag(m.pat),
			fmt.Sprintf("matcher %q (%s) is not anchored at both ends: it claims %q, which the fully anchored pattern rejects (reading: %s)", m.pat, m.fnName, w, readWith(m, w)),
			map[string]any{"kind": "pair", "a": m.pat, "b": m.pat, "witness": w})
	}
}

func (am *ambiguity) pair(a, b *matcher, all []*matcher) {
	key := a.pat + "\x00" + b.pat
	if am.donePair[key] {
		return
	}
	am.donePair[key] = true
	res := exploreProduct(a.nfa, b.nfa, am.maxLen, false)
	am.run.Add("states", res.States)
	am.run.Add("transitions", res.Transitions)
	am.run.Add("pairs_explored", 1)
	if res.Capped {
		am.run.Set("state_cap_hit", true)
	}
	if res.WitnessesCapped {
		am.run.Set("witness_cap_hit", true)
	}
	ps := pairStat{A: a.pat, B: b.pat, States: res.States, Transitions: res.Transitions, Verdict: "disjoint"}
	if res.Witness == nil {
		am.pairs = append(am.pairs, ps)
		return
	}
	ws := res.Witnesses
	if len(ws) == 0 {
		ws = []string{*res.Witness}
	}
	ps.Witness = *res.Witness
	famA, famB := map[string]bool{}, map[string]bool{}
	kinds := map[string]bool{}
	var firstDiff string
	var rdA, rdB reading
	replayed := len(ws)
	replayStart := time.Now()
	cut := false
	for i, w := range ws {
		if time.Since(replayStart) > pairReplayBudget {
			replayed, cut = i, true
			break
		}
		am.traces++
		if !a.re.MatchString(w) || !b.re.MatchString(w) {
			harnessError("witness %q of pair %q / %q is not accepted by both real regexps", w, a.pat, b.pat)
		}
		ra, rb := readWith(a, w), readWith(b, w)
		// the real ImportString must produce the reading of one of the matchers that accept w
		var accepted []reading
		accepted = append(accepted, ra, rb)
		for _, m := range all {
			if m != a && m != b && m.re.MatchString(w) {
				accepted = append(accepted, readWith(m, w))
			}
		}
		for i := 0; i < 2; i++ {
			ri := readImportString(w)
			am.traces++
			ok := false
			for _, r := range accepted {
				if ri.same(r) {
					ok = true
				}
			}
			if !ok {
				harnessError("ImportString(%q)=%s equals none of the readings %v", w, ri, accepted)
			}
		}
		if ra.Err == "" {
			famA[famOf(ra.Type)] = true
		}
		if rb.Err == "" {
			famB[famOf(rb.Type)] = true
		}
		if !ra.same(rb) {
			switch {
			case (ra.Err == "") != (rb.Err == ""):
				kinds["accepted-vs-rejected"] = true
			case ra.Type != rb.Type:
				kinds["type"] = true
			case ra.Bits != rb.Bits:
				kinds["width"] = true
			default:
				kinds["value"] = true
			}
			firstDiff, rdA, rdB = w, ra, rb
			replayed = i + 1
			break // the pair is ambiguous with differing meaning: no need to replay the longer witnesses
		}
	}
	am.run.Add("witnesses_replayed", replayed)
	if firstDiff == "" && cut {
		ps.Verdict = fmt.Sprintf("overlap, unclassified: the first %d of %d witnesses read identically, replay cut by the %v per-pair budget", replayed, len(ws), pairReplayBudget)
		am.run.Add("overlaps_unclassified", 1)
		am.run.Set("pair_replay_budget_hit", true)
		am.pairs = append(am.pairs, ps)
		return
	}
	if firstDiff == "" {
		ps.Verdict = "benign-overlap"
		if a.fnPtr != b.fnPtr {
			ps.Verdict = "benign-overlap(different import functions, identical readings)"
		}
		am.run.Add("benign_overlaps", 1)
		am.pairs = append(am.pairs, ps)
		return
	}
	ps.Verdict = "AMBIGUOUS"
	ps.Witness = firstDiff
	am.pairs = append(am.pairs, ps)
	am.run.Add("ambiguous_pairs", 1)
	fam := func(m map[string]bool) string {
		if len(m) == 0 {
			return "error"
		}
		var s []string
		for k := range m {
			s = append(s, k)
		}
		sort.Strings(s)
		return strings.Join(s, "+")
	}
	var ks []string
	for k := range kinds {
		ks = append(ks, k)
	}
	sort.Strings(ks)
	pn := ""
	if _, err := processNumber(firstDiff); err == nil && rdA.Err == "" && rdB.Err == "" {
		am.traces++
		ba, _ := strconv.ParseUint(rdA.Value, 16, 64)
		bb, _ := strconv.ParseUint(rdB.Value, 16, 64)
		pn = fmt.Sprintf("; procbuilder.Process_number(%q) accordingly yields %q or %q", firstDiff, strconv.FormatUint(ba, 2), strconv.FormatUint(bb, 2))
	}
	sig := "C08|ambiguous|" + fam(famA) + "~" + fam(famB) + "|" + patTag(a.pat) + " ~ " + patTag(b.pat)
	what := fmt.Sprintf("literal %q is claimed by two matchers and ImportString picks whichever the AllMatchers map iteration yields first: %q (%s) reads it as %s, %q (%s) reads it as %s; readings differ in %s; it is the first differing one of the %d jointly accepted strings up to length %d over the class alphabet, replayed shortest first (shortest jointly accepted string %q)%s",
		firstDiff, a.pat, a.fnName, rdA, b.pat, b.fnName, rdB, strings.Join(ks, ","), len(ws), res.EnumLen, *res.Witness, pn)
	am.run.Report(sig, what, map[string]any{"kind": "pair", "a": a.pat, "b": b.pat, "witness": firstDiff})
}

func (am *ambiguity) analyseSet() {
	ms := snapshotMatchers(am.cache)
	for _, m := range ms {
		am.single(m)
	}
	for i := 0; i < len(ms); i++ {
		for j := i + 1; j < len(ms); j++ {
			am.pair(ms[i], ms[j], ms)
		}
	}
}

// dynamic type grid: names as accepted by the DynamicalType.MatchName patterns
// (flpe<e>f<f>, lqs<s>t<t>, fps<s>f<f>, fxps<s>f<f>).
func dynGrid(thorough bool) []string {
	var names []string
	ss := []int{1, 4, 8, 16, 32}
	fs := []int{0, 1, 4, 8}
	if thorough {
		ss = []int{1, 2, 4, 7, 8, 12, 16, 24, 32}
		fs = []int{0, 1, 2, 4, 8, 12, 16}
	}
	for _, s := range ss {
		for _, f := range fs {
			names = append(names, fmt.Sprintf("fps%df%d", s, f), fmt.Sprintf("fxps%df%d", s, f))
		}
		for _, t := range []int{0, 1, 2} {
			names = append(names, fmt.Sprintf("lqs%dt%d", s, t))
		}
	}
	for _, e := range []int{2, 4, 5, 8, 11} {
		for _, f := range []int{1, 4, 10, 23, 52} {
			names = append(names, fmt.Sprintf("flpe%df%d", e, f))
		}
	}
	return names
}

func runAmbiguity(run *vlib.Run) {
	am := &ambiguity{run: run, cache: map[string]*matcher{}, donePair: map[string]bool{}, doneSingle: map[string]bool{}, maxLen: 6}
	am.analyseSet()
	sets := 1
	base := len(bmnumbers.AllMatchers)
	created := 0
	for _, name := range dynGrid(run.Thorough()) {
		ok, err := bmnumbers.EventuallyCreateType(name, nil)
		if err != nil {
			harnessError("EventuallyCreateType(%q): %v", name, err)
		}
		if ok {
			created++
		}
		if len(bmnumbers.AllMatchers) != base {
			base = len(bmnumbers.AllMatchers)
			am.analyseSet() // only new pairs are explored (cache)
		}
		sets++
	}
	run.Set("matcher_sets_examined", sets)
	run.Set("dynamic_types_created", created)
	run.Set("matchers", len(am.cache))
	run.Set("traces_validated_against_impl", am.traces)
	var overl []pairStat
	maxS, maxT := 0, 0
	for _, p := range am.pairs {
		if p.Verdict != "disjoint" {
			overl = append(overl, p)
		}
		if p.States > maxS {
			maxS = p.States
		}
		if p.Transitions > maxT {
			maxT = p.Transitions
		}
	}
	run.Set("overlapping_pairs", overl)
	run.Set("max_states_per_pair", maxS)
	run.Set("max_transitions_per_pair", maxT)
	run.Set("per_pair", am.pairs)
	var pats []string
	for p := range am.cache {
		pats = append(pats, p)
	}
	sort.Strings(pats)
	run.Set("patterns", pats)
}

// replayPair re-executes a stored ambiguity / anchoring case on the real code.
func replayPair(a, b, w string) {
	fmt.Printf("witness %q\n", w)
	for _, p := range []string{a, b} {
		fn, ok := bmnumbers.AllMatchers[p]
		re := regexp.MustCompile(p)
		fmt.Printf("  pattern %q registered=%v regexp.MatchString=%v\n", p, ok, re.MatchString(w))
		if ok {
			m := &matcher{pat: p, fn: fn}
			fmt.Printf("    reading if this matcher wins: %s\n", readWith(m, w))
		}
		are := regexp.MustCompile("^(?:" + p + ")$")
		fmt.Printf("    fully anchored version matches: %v\n", are.MatchString(w))
	}
	seen := map[string]int{}
	for i := 0; i < 200; i++ {
		seen[readImportString(w).String()]++
	}
	fmt.Printf("  200 x ImportString(%q): %v\n", w, seen)
}
