// Stand-ins for FloPoCo's fp2bin / bin2fp command line tools (the FloPoCo number type shells out to
// them; they are not installed in this sandbox). The check binary re-executes itself under these
// names. They implement the FloPoCo format exactly (2 exception bits, sign, wE exponent bits with
// bias 2^(wE-1)-1, wF fraction bits, no subnormals) with arbitrary precision, so that what is
// tested is the Go glue in dyntype_flopoco.go under the assumption of a faithful tool.
package fpfmt

import (
	"fmt"
	"math/big"
	"os"
	"strconv"
	"strings"
)

func ToolMain(name string) {
	if len(os.Args) != 4 {
		fmt.Fprintln(os.Stderr, "usage:", name, "wE wF value")
		os.Exit(1)
	}
	e, err1 := strconv.Atoi(os.Args[1])
	f, err2 := strconv.Atoi(os.Args[2])
	if err1 != nil || err2 != nil || e < 1 || f < 1 || e > 30 || f > 200 {
		fmt.Fprintln(os.Stderr, "bad wE/wF")
		os.Exit(1)
	}
	var out string
	var err error
	if name == "fp2bin" {
		out, err = fp2bin(e, f, os.Args[3])
	} else {
		out, err = bin2fp(e, f, os.Args[3])
	}
	if err != nil {
		fmt.Fprintln(os.Stderr, err)
		os.Exit(1)
	}
	fmt.Println(out)
}

func fieldBits(v *big.Int, n int) string {
	s := v.Text(2)
	for len(s) < n {
		s = "0" + s
	}
	return s
}

func fp2bin(e, f int, x string) (string, error) {
	zeros := strings.Repeat("0", e+f)
	switch strings.ToLower(x) {
	case "nan":
		return "110" + zeros, nil
	case "inf", "+inf":
		return "100" + zeros, nil
	case "-inf":
		return "101" + zeros, nil
	}
	v, _, err := big.ParseFloat(x, 10, 512, big.ToNearestEven)
	if err != nil {
		return "", err
	}
	sign := "0"
	if v.Signbit() {
		sign = "1"
	}
	if v.Sign() == 0 {
		return "00" + sign + zeros, nil
	}
	v.Abs(v)
	r := new(big.Float).SetMode(big.ToNearestEven).SetPrec(uint(f + 1)).Set(v)
	mant := new(big.Float)
	exp := r.MantExp(mant) // r = mant * 2^exp, 0.5 <= mant < 1
	E := exp - 1
	bias := 1<<uint(e-1) - 1
	biased := E + bias
	if biased < 0 {
		return "00" + sign + zeros, nil
	}
	if biased > 1<<uint(e)-1 {
		return "10" + sign + zeros, nil
	}
	// fraction = (2*mant - 1) * 2^f
	m2 := new(big.Float).SetPrec(uint(f + 8)).Mul(mant, big.NewFloat(2))
	m2.Sub(m2, big.NewFloat(1))
	m2.SetMantExp(m2, f)
	fr, acc := m2.Int(nil)
	if acc != big.Exact {
		return "", fmt.Errorf("internal: inexact fraction")
	}
	return "01" + sign + fieldBits(big.NewInt(int64(biased)), e) + fieldBits(fr, f), nil
}

func bin2fp(e, f int, b string) (string, error) {
	if len(b) != e+f+3 || strings.Trim(b, "01") != "" {
		return "", fmt.Errorf("expected %d binary digits", e+f+3)
	}
	sign := ""
	if b[2] == '1' {
		sign = "-"
	}
	switch b[:2] {
	case "00":
		return sign + "0", nil
	case "10":
		if sign == "" {
			sign = "+"
		}
		return sign + "inf", nil
	case "11":
		return "NaN", nil
	}
	biased, _ := strconv.ParseInt(b[3:3+e], 2, 64)
	fr, _ := new(big.Int).SetString(b[3+e:], 2)
	bias := int64(1)<<uint(e-1) - 1
	sig := new(big.Int).Add(new(big.Int).Lsh(big.NewInt(1), uint(f)), fr) // 1.fraction * 2^f
	// exact decimal expansion of sig * 2^ex (a dyadic rational has a finite one)
	ex := int(biased-bias) - f
	if ex >= 0 {
		return sign + new(big.Int).Lsh(sig, uint(ex)).String(), nil
	}
	r := new(big.Rat).SetFrac(sig, new(big.Int).Lsh(big.NewInt(1), uint(-ex)))
	return sign + r.FloatString(-ex), nil
}
