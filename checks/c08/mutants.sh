#!/bin/bash
# Detection demo for C08: builds property-breaking variants of /repo/pkg/bmnumbers files in a scratch
# directory (never touching /repo) and runs the check on each through VERIF_OVERLAY.
# usage: mutants.sh [quick|thorough] [a b c d e fix]
set -u
tier="${1:-quick}"; shift || true
which="${*:-a b c d e}"
R=/repo/pkg/bmnumbers
D=$(mktemp -d /tmp/c08mut.XXXXXX); trap 'rm -rf "$D"' EXIT
mk() { echo "{\"Replace\": {\"$R/$1\": \"$D/$2\"}}" > "$D/ov_$3.json"; }
# a: float32 unsized matcher no longer excludes '<'  -> overlaps 0f<16>/0f<32>
sed 's/\[^pxPlL<\]/[^pxPlL]/' $R/type_float32.go > $D/a.go; mk type_float32.go a.go a
# b: ExportVerilogBinary pads to bits-1 digits
sed '/^func (n \*BMNumber) ExportVerilogBinary/,/^}/ s/for len(result) < n.bits {/for len(result) < n.bits-1 {/' $R/export.go > $D/b.go; mk export.go b.go b
# c: unsized hex matcher loses its $ anchor
sed 's/result\["^0x(?P<hex>\[0-9a-fA-F\]+)\$"\]/result["^0x(?P<hex>[0-9a-fA-F]+)"]/' $R/type_hex.go > $D/c.go; mk type_hex.go c.go c
# d: unsized bin matcher loses its ^ anchor
sed 's/result\["^0b(?P<bin>\[0-1\]+)\$"\]/result["0b(?P<bin>[0-1]+)$"]/' $R/type_bin.go > $D/d.go; mk type_bin.go d.go d
# e: ExportBinaryNBits rejects values that exactly fit
sed '/^func (n \*BMNumber) ExportBinaryNBits/,/^}/ s/if len(result) > bits {/if len(result) >= bits {/' $R/export.go > $D/e.go; mk export.go e.go e
# fix: the candidate repairs proposed in the C08 report (escaped dots, shortest float32 text, hexSize/8, lq rounding + inclusive minimum)
sed 's/\[0-9\]+)\.0+\$"\]/[0-9]+)\\\\.0+$"]/' $R/type_unsigned.go > $D/f1.go
sed -e 's|return "0f<32>" + fmt.Sprintf("%.20f", float64(math.Float32frombits(s))), nil|return "0f<32>" + strconv.FormatFloat(float64(math.Float32frombits(s)), '"'f'"', -1, 32), nil|' -e '/^\t"fmt"$/d' $R/type_float32.go > $D/f2.go
sed -e 's|newNumber.number = make(\[\]byte, hexSize)|newNumber.number = make([]byte, hexSize/8)|' -e 's|for i := len(decoded); i < hexSize; i++ {|for i := len(decoded); i < hexSize/8; i++ {|' $R/type_hex.go > $D/f3.go
sed -e 's/band <= -int64(bandNum)/band < -int64(bandNum)/' -e 's|band := int64(numberNum / bandSize)|band := int64(math.Round(numberNum / bandSize))|' -e 's|^\t"errors"$|\t"errors"\n\t"math"|' $R/dyntype_linear_quantizer.go > $D/f4.go
echo "{\"Replace\": {\"$R/type_unsigned.go\": \"$D/f1.go\", \"$R/type_float32.go\": \"$D/f2.go\", \"$R/type_hex.go\": \"$D/f3.go\", \"$R/dyntype_linear_quantizer.go\": \"$D/f4.go\"}}" > $D/ov_fix.json
for m in $which; do
  echo "=== C08 variant $m ($tier)"
  VERIF_OVERLAY=$D/ov_$m.json /verif/run.sh C08 "$tier" 2>&1 | grep "signature:\|^C08 tier\|HARNESS\|BUILD"
done
