#!/bin/bash
# usage: run.sh <quick|thorough> [extra args] — builds the C08 check (against /repo's current tree, honouring
# VERIF_OVERLAY) plus the small FloPoCo stand-in tool, then runs the check.
set -u
cd /verif
. /verif/env.sh
tier="${1:-quick}"; shift || true
mkdir -p /verif/bin /verif/evidence
ov=""; out="/verif/bin/c08"
if [ -n "${VERIF_OVERLAY:-}" ]; then ov="-overlay=$VERIF_OVERLAY"; out="/verif/bin/c08.mut"; fi
if ! { go build -o /verif/bin/c08-fptool ./checks/c08/fptool && go build $ov -o "$out" ./checks/c08 && go build -race $ov -o "$out.race" ./checks/c08/racepass ; } 2> /verif/bin/c08.buildlog; then
  cat /verif/bin/c08.buildlog >&2
  echo "BUILD-FAILED check=C08 (the check could not be built against the current /repo tree)" >&2
  exit 2
fi
export C08_FPTOOL=/verif/bin/c08-fptool
exec "$out" -tier "$tier" -racebin "$out.race" "$@"
