// racepass: supplementary free-running pass of C08, built with -race. The deciding enumerations of C08 are
// sequential; a literal must also denote the same bits when several callers read literals at the same time (the
// simulator imports its input streams from concurrent simulations, the bmnumbers server from concurrent requests).
// G goroutines import and export DISTINCT literals of every notation concurrently (every notation's import and
// export function runs next to every other one's); each result is compared with the one obtained sequentially before
// the goroutines started. The race detector writes its reports to stderr (the parent parses them); a result that
// differs from the sequential one is printed as a MISMATCH line.
package main

import (
	"encoding/hex"
	"flag"
	"fmt"
	"os"
	"sync"
	"time"

	"github.com/BondMachineHQ/BondMachine/pkg/bmnumbers"
)

func reading(lit string) string {
	n, err := bmnumbers.ImportString(lit)
	if err != nil || n == nil {
		return "error"
	}
	s, err := n.ExportString(nil)
	if err != nil {
		s = "export-error"
	}
	b, err := n.ExportBinary(false)
	if err != nil {
		b = "binary-error"
	}
	return fmt.Sprintf("%s/%d/%s/%s/%s", n.GetTypeName(), nbits(n), hex.EncodeToString(n.GetBytes()), s, b)
}

func main() {
	budget := flag.Duration("budget", 10*time.Second, "wall clock budget")
	flag.Parse()
	families := [][]string{
		{"5", "77", "200", "1000", "65535", "123456"},
		{"0u5", "0u77", "0u200", "0u1000"},
		{"0x5", "0x7f", "0xc8", "0x3e8", "0xffff"},
		{"0b101", "0b1001101", "0b11001000", "0b1111101000"},
		{"0x<8>5", "0x<8>7f", "0x<16>3e8", "0x<16>ffff"},
		{"0b<8>101", "0b<8>1001101", "0b<16>1111101000"},
		{"0f1.5", "0f2.25", "0f-3.75", "0f100.125"},
		{"0f<16>1.5", "0f<16>2.25", "0f<32>-3.75", "0f<32>100.125"},
		{"0fp<16.8>17.0625", "0fp<16.8>1.5", "0fp<16.8>2.25", "0fp<16.8>100.125", "0fp<8.4>1.5", "0fp<8.4>3.25"},
		{"0lq<8.1>1", "0lq<8.1>2", "0lq<8.1>3", "0lq<8.1>0"},
	}
	var lits []string
	for _, f := range families {
		lits = append(lits, f...)
	}
	// sequential reference (this also registers every dynamical type once, as a first use would)
	want := map[string]string{}
	accepted := 0
	for _, l := range lits {
		want[l] = reading(l)
		if want[l] != "error" {
			accepted++
		}
	}
	start := time.Now()
	const G = 8
	rounds, mismatches := 0, 0
	var mu sync.Mutex
	for time.Since(start) < *budget && rounds < 400 {
		var wg sync.WaitGroup
		for g := 0; g < G; g++ {
			wg.Add(1)
			go func(g int) {
				defer wg.Done()
				// goroutine g starts at a different literal: distinct literals of the same notation overlap
				for k := range lits {
					l := lits[(k+g*3)%len(lits)]
					if got := reading(l); got != want[l] {
						mu.Lock()
						mismatches++
						if mismatches <= 5 {
							fmt.Printf("MISMATCH literal=%q concurrent=%s sequential=%s\n", l, got, want[l])
						}
						mu.Unlock()
					}
				}
			}(g)
		}
		wg.Wait()
		rounds++
	}
	fmt.Printf("RACEPASS literals=%d accepted=%d goroutines=%d rounds=%d mismatches=%d wall=%.1fs\n", len(lits), accepted, G, rounds, mismatches, time.Since(start).Seconds())
	if accepted == 0 {
		os.Exit(3)
	}
}

func nbits(n *bmnumbers.BMNumber) int {
	s, err := n.ExportBinary(false)
	if err != nil {
		return -1
	}
	return len(s)
}
