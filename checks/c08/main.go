// C08 — a numeric literal has one meaning, and printing then parsing returns it.
//
// Part 1 (model checking): the matcher patterns registered in bmnumbers.AllMatchers at run time are
// compiled to their NFA programs and the product automaton of every pair is explored; a reachable
// jointly accepting state is an ambiguous literal (shortest one by BFS). Every witness is replayed
// through the real regexps and the real import functions / ImportString.
// Part 2 (exhaustive evaluation): for every supported type, every value (small widths) or every
// boundary value (large widths) is exported and re-imported through the real API; the fixed-width
// binary / Verilog exports are checked on the same values.
package main

import (
	"fmt"
	"os"
	"os/exec"
	"path/filepath"
	"regexp"
	"runtime"
	"sort"
	"strconv"
	"strings"
	"sync"
	"sync/atomic"
	"time"

	"verif/checks/c08/fpfmt"
	"verif/lib/vlib"

	"github.com/BondMachineHQ/BondMachine/pkg/bmnumbers"
)

type claim struct {
	pat string
	re  *regexp.Regexp
	fn  bmnumbers.ImportFunc
}

var claims []claim

// claimCount: how many registered matchers accept s (the real regexps).
func claimCount(s string) int {
	n := 0
	for i := range claims {
		if claims[i].re.MatchString(s) {
			n++
		}
	}
	return n
}

func refreshClaimRes() {
	claims = nil
	var pats []string
	for p := range bmnumbers.AllMatchers {
		pats = append(pats, p)
	}
	sort.Strings(pats)
	for _, p := range pats {
		claims = append(claims, claim{pat: p, re: regexp.MustCompile(p), fn: bmnumbers.AllMatchers[p]})
	}
}

var flopocoStandIn bool

func setup() (cleanup func()) {
	dir, cleanup := vlib.Scratch("c08")
	// FloPoCo tools
	if _, err := exec.LookPath("fp2bin"); err != nil {
		// the light stand-in built by checks/c08/run.sh; falling back to this binary itself (slow start-up)
		self := os.Getenv("C08_FPTOOL")
		if _, err := os.Stat(self); self == "" || err != nil {
			if self, err = os.Executable(); err != nil {
				harnessError("os.Executable: %v", err)
			}
		}
		for _, n := range []string{"fp2bin", "bin2fp"} {
			if err := os.Symlink(self, filepath.Join(dir, n)); err != nil {
				harnessError("symlink: %v", err)
			}
		}
		os.Setenv("PATH", dir+string(os.PathListSeparator)+os.Getenv("PATH"))
		flopocoStandIn = true
	}
	// linear quantiser ranges through the real loader
	var spec []string
	for i, m := range lqMax {
		f := filepath.Join(dir, fmt.Sprintf("range%d.txt", i+1))
		// max |line| is the range; add smaller values as a real data file would have
		body := fmt.Sprintf("%s\n-%s\n0\n", strconv.FormatFloat(m/2, 'g', -1, 64), strconv.FormatFloat(m, 'g', -1, 64))
		if err := os.WriteFile(f, []byte(body), 0o644); err != nil {
			harnessError("write: %v", err)
		}
		spec = append(spec, strconv.Itoa(i+1), f)
	}
	if err := bmnumbers.LoadLinearDataRangesFromFile(strings.Join(spec, ",")); err != nil {
		harnessError("LoadLinearDataRangesFromFile: %v", err)
	}
	os.Setenv("TMPDIR", dir) // the FloPoCo glue creates a temp dir per call
	return cleanup
}

func f32Mantissas() []uint64 {
	m := []uint64{0, 1, 0x7fffff, 0x7ffffe, 0x555555, 0x2aaaaa, 0x123456, 0x7f0000}
	for k := uint(1); k <= 22; k++ {
		m = append(m, 1<<k)
	}
	for k := uint(2); k <= 22; k++ {
		m = append(m, 1<<k-1)
	}
	for k := uint(2); k <= 14; k++ {
		m = append(m, 1<<k+1)
	}
	return m
}

func floatJobs() []unit {
	var us []unit
	j16 := &job{fam: "float16", typ: bmnumbers.Float16{}, typeName: "float16", bits: 16, param: "-", vclass: f16Class, note: "IEEE half"}
	us = append(us, valuesFor(j16, 16)...)
	j32 := &job{fam: "float32", typ: bmnumbers.Float32{}, typeName: "float32", bits: 32, param: "-", vclass: f32Class, note: "IEEE single"}
	ms := f32Mantissas()
	for exp := uint64(0); exp < 256; exp++ {
		var vals []uint64
		for sign := uint64(0); sign < 2; sign++ {
			for _, m := range ms {
				vals = append(vals, sign<<31|exp<<23|m)
			}
		}
		us = append(us, unit{j: j32, vals: vals})
	}
	return us
}

func flopocoJobs(maxW int) []unit {
	var us []unit
	for e := 2; e <= 8; e++ {
		for f := 1; e+f+3 <= maxW; f++ {
			name := fmt.Sprintf("flpe%df%d", e, f)
			w := e + f + 3
			e := e
			f := f
			j := &job{fam: "flopoco", typ: dynType(name), typeName: name, bits: w, param: "-", note: name,
				vclass: func(v uint64) string {
					return []string{"zero", "normal", "inf", "nan"}[v>>uint(e+f+1)&3]
				}}
			var vals []uint64
			for v := uint64(0); v < 1<<uint(w); v++ {
				exn := v >> uint(e+f+1) & 3
				payload := v & (1<<uint(e+f) - 1)
				sign := v >> uint(e+f) & 1
				if exn == 1 || (payload == 0 && (exn != 3 || sign == 0)) {
					vals = append(vals, v) // canonical encodings only: exponent/fraction are don't-care for zero/inf/NaN
				}
			}
			for lo := 0; lo < len(vals); lo += 16 {
				hi := lo + 16
				if hi > len(vals) {
					hi = len(vals)
				}
				us = append(us, unit{j: j, vals: vals[lo:hi]})
			}
		}
	}
	sort.SliceStable(us, func(i, k int) bool { return us[i].j.bits < us[k].j.bits })
	return us
}

// sweepFloat32 is the thorough-tier sweep of float32 bit patterns through
// ImportBytes+CastType -> ExportString -> <the import function ImportString dispatches to>.
// Phase A: every sign x exponent x all 2^16 high-mantissa patterns (low 7 mantissa bits zero).
// Phase B: all remaining patterns, in 65536 chunks, until done or until the deadline.
func sweepFloat32(run *vlib.Run, workers int, deadline time.Time) *agg {
	sample := "0f<32>1.00000000000000000000"
	var pat string
	n := 0
	for p := range bmnumbers.AllMatchers {
		if regexp.MustCompile(p).MatchString(sample) {
			pat = p
			n++
		}
	}
	total := newAgg()
	if n != 1 {
		run.Set("float32_sweep", fmt.Sprintf("skipped: %d matchers claim %q (reported by part 1)", n, sample))
		return total
	}
	fn := bmnumbers.AllMatchers[pat]
	j32 := &job{fam: "float32", typeName: "float32", bits: 32, note: "IEEE single"}
	one := func(a *agg, re *regexp.Regexp, u uint64, keepExample bool) {
		nb, _ := bmnumbers.ImportBytes([]byte{byte(u >> 24), byte(u >> 16), byte(u >> 8), byte(u)}, 32)
		var outcome, detail string
		if err := bmnumbers.CastType(nb, bmnumbers.Float32{}); err != nil {
			outcome, detail = "cast-rejected", err.Error()
		} else if text, err := nb.ExportString(nil); err != nil {
			outcome, detail = "export-error", err.Error()
		} else if m, err := fn(re, text); err != nil || m == nil {
			outcome, detail = "exported-text-rejected-by-import", fmt.Sprintf("%q: %v", text, err)
		} else if m.GetTypeName() != "float32" {
			outcome, detail = "reimported-type-differs", m.GetTypeName()
		} else if g, err := m.ExportUint64(); err != nil {
			outcome, detail = "reimported-number-uninspectable", err.Error()
		} else if g != u {
			outcome = floatOutcome("float32", u, hexOf(g))
			detail = fmt.Sprintf("cast: %q -> 0x%x, want 0x%x", text, g, u)
		}
		if outcome == "" {
			return
		}
		var ex *example
		if keepExample {
			ex = &example{Fam: "float32", Type: "float32", Bits: 32, Value: hexOf(u), Construct: "cast", Note: j32.note, detail: detail}
		}
		a.fail(failKey{"float32", "roundtrip", outcome}, "-", f32Class(u), 1, ex)
	}
	var chunkNo, chunksDone, evals int64
	var mu sync.Mutex
	var wg sync.WaitGroup
	for w := 0; w < workers; w++ {
		wg.Add(1)
		go func() {
			defer wg.Done()
			re := regexp.MustCompile(pat)
			a := newAgg()
			classCount := map[string]int{}
			// phase A: chunk c = sign(1) exp(8) m_hi(7) fixed, next 9 mantissa bits free, low 7 zero
			for {
				c := atomic.AddInt64(&chunkNo, 1) - 1
				if c >= 2*65536 {
					break
				}
				if c < 65536 {
					for x := uint64(0); x < 512; x++ {
						u := uint64(c)<<16 | x<<7
						one(a, re, u, true)
						classCount[f32Class(u)]++
					}
					atomic.AddInt64(&evals, 512)
					continue
				}
				// phase B
				if time.Now().After(deadline) {
					break
				}
				// visit the chunks in a fixed scattered order (odd multiplier = bijection on 16 bits) so
				// that a deadline cut still leaves every exponent band partly covered
				hi := (uint64(c-65536) * 40503 & 0xffff) << 16
				for lo := uint64(0); lo < 65536; lo++ {
					if lo&0x7f == 0 {
						continue // done in phase A
					}
					u := hi | lo
					one(a, re, u, false)
				}
				classCount[f32Class(hi|1)] += 65536 - 512
				atomic.AddInt64(&evals, 65536-512)
				atomic.AddInt64(&chunksDone, 1)
			}
			for c, n := range classCount {
				a.cell("float32", "-", c, n)
			}
			mu.Lock()
			total.merge(a)
			mu.Unlock()
		}()
	}
	wg.Wait()
	total.evals = int(evals)
	run.Set("float32_sweep_patterns", evals)
	run.Set("float32_sweep_phaseB_chunks_done_of_65536", chunksDone)
	run.Set("float32_sweep_complete", chunksDone == 65536)
	return total
}

func buildJobs(thorough bool) (units, flpUnits []unit, bounds map[string]any) {
	exh, fixS, flpW := 16, 8, 8
	if thorough {
		fixS, flpW = 12, 12
	}
	for _, j := range intJobs() {
		units = append(units, valuesFor(j, exh)...)
	}
	for _, j := range fixedJobs(fixS) {
		units = append(units, valuesFor(j, fixS)...)
	}
	for _, j := range lqJobs() {
		units = append(units, valuesFor(j, fixS)...)
	}
	units = append(units, floatJobs()...)
	flpUnits = flopocoJobs(flpW) // ordered by increasing total width
	bounds = map[string]any{
		"unsigned/bin/hex":           "widths 1..16: all 2^n values; widths 17..64: 7 boundary values {0,1,2^(n-1)-1,2^(n-1),2^(n-1)+1,2^n-2,2^n-1}; cast construction and every sized/unsized canonical literal",
		"float16":                    "all 65536 patterns",
		"float32":                    "256 exponents x 64 boundary mantissas x 2 signs through ImportString (both tiers); thorough adds the sweep reported in float32_sweep_*",
		"fixedpoint/fxp":             fmt.Sprintf("s=1..%d: all 2^s values for every f=0..s+2; s up to 32: 7 boundary values for f in {0,1,s/2,s-1,s,s+4}", fixS),
		"lq":                         fmt.Sprintf("s=1..%d: all 2^s values, s up to 32: boundary values; ranges max=%v (indices 1..%d)", fixS, lqMax, len(lqMax)),
		"flopoco":                    fmt.Sprintf("wE=2..8, wF>=1, total width wE+wF+3<=%d: all canonical encodings (all normals; zero/inf/NaN with zero payload)", flpW),
		"ExportBinaryNBits_n_values": "n in {1, need-1, need, need+1, width-1, width, width+1, 64, 65} for every value",
	}
	return
}

func findJob(units []unit, typeName string, bits int) *job {
	for _, u := range units {
		if u.j.typeName == typeName && u.j.bits == bits {
			return u.j
		}
	}
	return nil
}

func replay(run *vlib.Run) {
	var r struct {
		Kind    string   `json:"kind"`
		A       string   `json:"a"`
		B       string   `json:"b"`
		Witness string   `json:"witness"`
		Case    *example `json:"case"`
	}
	sig, err := vlib.LoadReplay(run.Replay, &r)
	if err != nil {
		harnessError("cannot load replay: %v", err)
	}
	fmt.Println("replaying", sig)
	switch r.Kind {
	case "pair":
		replayPair(r.A, r.B, r.Witness)
	case "roundtrip":
		units, flp, _ := buildJobs(true)
		j := findJob(append(units, flp...), r.Case.Type, r.Case.Bits)
		if j == nil {
			harnessError("no job for type %s<%d>", r.Case.Type, r.Case.Bits)
		}
		v, _ := strconv.ParseUint(r.Case.Value, 16, 64)
		var tr []string
		fails, _ := evalValue(j, v, &tr)
		for _, l := range tr {
			fmt.Println(l)
		}
		for _, f := range fails {
			fmt.Printf("FAIL %s / %s: %s\n", f.fn, f.failure, f.detail)
		}
		if len(fails) == 0 {
			fmt.Println("all oracles pass for this value")
		}
	default:
		harnessError("unknown replay kind %q", r.Kind)
	}
}

func main() {
	if b := filepath.Base(os.Args[0]); b == "fp2bin" || b == "bin2fp" {
		fpfmt.ToolMain(b)
		return
	}
	run := vlib.Start("C08", "model_checking")
	start := time.Now()
	cleanup := setup()
	if run.Replay != "" {
		replayMode = true
		refreshClaimRes()
		replay(run)
		cleanup()
		return
	}
	workers := runtime.NumCPU()
	if workers > 16 {
		workers = 16
	}

	// ---- part 1
	runAmbiguity(run)
	run.Set("part1_wall_s", time.Since(start).Seconds())
	run.Assume("ambiguity alphabet: one representative rune per class of runes indistinguishable to both programs, classes taken over printable ASCII (0x20-0x7e) plus U+00E9; control characters are not explored")
	run.Assume("regexp/syntax program + own NFA simulation stands for regexp.MatchString; validated per matcher against regexp.MatchString on every string up to 4 (quick) / 5 (thorough) runes over its class alphabet, and on every witness")

	// ---- part 2 (types are registered sequentially here; the parallel phase only reads the registries)
	units, flpUnits, bounds := buildJobs(run.Thorough())
	refreshClaimRes()
	t2 := time.Now()
	total, _ := runUnits(units, workers, time.Time{})
	run.Set("part2_units_wall_s", time.Since(t2).Seconds())
	exhaustive := true
	// FloPoCo: two process executions per value (the type shells out) — own time budget
	t2 = time.Now()
	budget := 45 * time.Second
	if run.Thorough() {
		budget = 150 * time.Second
	}
	flpAgg, flpSkipped := runUnits(flpUnits, workers, time.Now().Add(budget))
	total.merge(flpAgg)
	run.Set("flopoco_wall_s", time.Since(t2).Seconds())
	run.Set("flopoco_units_done", len(flpUnits)-flpSkipped)
	run.Set("flopoco_units_total", len(flpUnits))
	if flpSkipped > 0 {
		exhaustive = false
		run.Set("cap_hit", fmt.Sprintf("flopoco time budget %v: %d of %d units (16 values each, increasing width) not evaluated", budget, flpSkipped, len(flpUnits)))
	}
	if run.Thorough() {
		t3 := time.Now()
		total.merge(sweepFloat32(run, workers, start.Add(13*time.Minute)))
		run.Set("float32_sweep_wall_s", time.Since(t3).Seconds())
		if c, _ := run.Cov["float32_sweep_complete"].(bool); !c {
			bounds["float32 sweep"] = "phase A complete (all signs x exponents x 2^16 high-mantissa patterns); phase B (all 2^32) cut by the deadline (13 min after process start), see float32_sweep_phaseB_chunks_done_of_65536"
		} else {
			bounds["float32 sweep"] = "all 2^32 patterns through ImportBytes+CastType -> ExportString -> the import function ImportString dispatches to"
		}
	}
	reportAgg(run, total)
	run.Set("importstring_crosschecks", int(importStringCrosschecks))
	run.Set("ambiguous_literals_skipped_in_part2", int(ambiguousLiteralsSkipped))
	run.Set("bounds", bounds)
	run.Set("evaluations", total.evals)
	run.Set("distinct_nontrivial", len(total.passed))
	run.Set("import_history_checks", int(atomic.LoadInt64(&historyChecks)))
	overN, overFails := overlongChecks()
	run.Set("sized_literals_with_surplus_digits", overN)
	run.Add("evaluations", overN)
	wideN, wideFails := wideChecks()
	wideFails = append(wideFails, overFails...)
	run.Set("wide_literals_65_to_128_bits", wideN)
	run.Add("evaluations", wideN)
	seenWide := map[string]bool{}
	for _, f := range wideFails {
		sig := "C08|" + f.fam + "|wide|" + f.failure
		if seenWide[sig] {
			continue
		}
		seenWide[sig] = true
		run.Report(sig, f.detail, map[string]any{"kind": "wide", "what": f.detail})
	}
	racePass(run)
	if importDisagree != "" {
		run.Report("C08|import|ImportString-differs-from-its-only-matcher", importDisagree, map[string]any{"kind": "import-dispatch", "what": importDisagree})
	}
	run.Set("rule", "every (type, width/parameters, value) in the stated bounds is built by ImportBytes+CastType and by each canonical literal, exported with ExportString and re-imported with ImportString (same type name, width, bits, byte length), and pushed through ExportBinaryNBits/ExportVerilogBinary/ExportBinary/ExportUint64; distinct_nontrivial = distinct (type family, parameter class, value class) cells containing at least one value that passed every oracle")
	cellCount := map[string]int{}
	for f, m := range total.cells {
		for _, mm := range m {
			for _, n := range mm {
				cellCount[f] += n
			}
		}
	}
	run.Set("values_per_family", cellCount)
	if c, ok := run.Cov["state_cap_hit"]; ok && c == true {
		exhaustive = false
	}
	if c, ok := run.Cov["pair_replay_budget_hit"]; ok && c == true {
		exhaustive = false
	}
	if c, ok := run.Cov["witness_cap_hit"]; ok && c == true {
		exhaustive = false
	}
	if run.Thorough() {
		if c, _ := run.Cov["float32_sweep_complete"].(bool); !c {
			run.Set("float32_full_sweep_exhaustive", false)
		}
	}
	run.Set("exhaustive", exhaustive)
	if flopocoStandIn {
		run.Assume("FloPoCo's fp2bin/bin2fp are not installed: exact stand-ins of the FloPoCo format (the check binary re-executed under those names) are put on PATH, so the FloPoCo rows test the Go glue in dyntype_flopoco.go, not the external tool; non-canonical encodings of zero/inf/NaN are not evaluated")
	}
	run.Assume("a text claimed by exactly one registered matcher is imported by calling that matcher's import function with its compiled pattern (what ImportString does for any map order); the real ImportString is run next to it on every 61st value and must agree (importstring_crosschecks)")
	run.Assume("the `signed` type is outside the property's type list (its ExportString is a stub returning 'not implemented')")
	run.Assume("linear quantiser ranges are loaded with LoadLinearDataRangesFromFile for maxima " + fmt.Sprint(lqMax) + "; range index 0 (reserved, never loadable) is not evaluated")
	run.Sample(map[string]any{"pairs_example": "see overlapping_pairs"})
	cleanup()
	run.Finish()
}
