// Part 1 of C08: product-automaton exploration of the real matcher patterns.
//
// Every pattern is compiled exactly as regexp.MustCompile does (syntax.Parse(Perl) + Simplify +
// syntax.Compile) and its Prog is interpreted as an NFA with the *search* semantics of
// Regexp.MatchString: a new thread is started at every input position, empty-width assertions are
// evaluated with syntax.EmptyOpContext(prev,next), and a match, once reached, is sticky (trailing
// input is irrelevant). A state of one automaton is (pending pc set, matched flag); a product state
// adds the second automaton and the kind of the previous rune (begin-of-text / word / other).
package main

import (
	"fmt"
	"regexp/syntax"
	"sort"
	"strings"
)

const eot = rune(-1)

type nfa struct {
	pat       string
	prog      *syntax.Prog
	usesWord  bool
	usesLine  bool
	runeInsts []int
}

func compileNFA(pat string) (*nfa, error) {
	re, err := syntax.Parse(pat, syntax.Perl)
	if err != nil {
		return nil, err
	}
	re = re.Simplify()
	prog, err := syntax.Compile(re)
	if err != nil {
		return nil, err
	}
	a := &nfa{pat: pat, prog: prog}
	for pc, in := range prog.Inst {
		switch in.Op {
		case syntax.InstEmptyWidth:
			op := syntax.EmptyOp(in.Arg)
			if op&(syntax.EmptyWordBoundary|syntax.EmptyNoWordBoundary) != 0 {
				a.usesWord = true
			}
			if op&(syntax.EmptyBeginLine|syntax.EmptyEndLine) != 0 {
				a.usesLine = true
			}
		case syntax.InstRune, syntax.InstRune1, syntax.InstRuneAny, syntax.InstRuneAnyNotNL:
			a.runeInsts = append(a.runeInsts, pc)
		}
	}
	return a, nil
}

// closure returns the rune-consuming instructions reachable from the pcs in `from` (plus the
// program start: search semantics) without consuming input, under the empty-width context `ctx`,
// and whether InstMatch is reachable.
func (a *nfa) closure(from []int, ctx syntax.EmptyOp) (runes []int, match bool) {
	seen := make([]bool, len(a.prog.Inst))
	stack := append([]int{a.prog.Start}, from...)
	for len(stack) > 0 {
		pc := stack[len(stack)-1]
		stack = stack[:len(stack)-1]
		if seen[pc] {
			continue
		}
		seen[pc] = true
		in := &a.prog.Inst[pc]
		switch in.Op {
		case syntax.InstAlt, syntax.InstAltMatch:
			stack = append(stack, int(in.Out), int(in.Arg))
		case syntax.InstCapture, syntax.InstNop:
			stack = append(stack, int(in.Out))
		case syntax.InstEmptyWidth:
			if syntax.EmptyOp(in.Arg)&^ctx == 0 {
				stack = append(stack, int(in.Out))
			}
		case syntax.InstMatch:
			match = true
		case syntax.InstFail:
		default:
			runes = append(runes, pc)
		}
	}
	sort.Ints(runes)
	return
}

// astate is the state of one automaton between two input positions.
type astate struct {
	pend    []int // pcs entered by consuming the previous rune (not yet ε-closed)
	matched bool
}

func (s astate) key() string {
	if s.matched {
		return "M"
	}
	var b strings.Builder
	for _, p := range s.pend {
		fmt.Fprintf(&b, "%d,", p)
	}
	return b.String()
}

// step consumes rune r (prev = previous rune or eot at begin of text).
func (a *nfa) step(s astate, prev, r rune) astate {
	if s.matched {
		return s
	}
	runes, m := a.closure(s.pend, syntax.EmptyOpContext(prev, r))
	if m {
		return astate{matched: true}
	}
	var next []int
	seen := map[int]bool{}
	for _, pc := range runes {
		in := &a.prog.Inst[pc]
		if in.MatchRune(r) && !seen[int(in.Out)] {
			seen[int(in.Out)] = true
			next = append(next, int(in.Out))
		}
	}
	sort.Ints(next)
	return astate{pend: next}
}

// accepts tells whether the input read so far is accepted if the text ends here.
func (a *nfa) accepts(s astate, prev rune) bool {
	if s.matched {
		return true
	}
	_, m := a.closure(s.pend, syntax.EmptyOpContext(prev, eot))
	return m
}

// midStartAlive: can a thread started at a position > 0 ever do anything? (false for ^-anchored patterns)
func (a *nfa) midStartAlive(alpha []rune) bool {
	prevs := append([]rune{}, alpha...)
	nexts := append([]rune{eot}, alpha...)
	for _, p := range prevs {
		for _, n := range nexts {
			r, m := a.closure(nil, syntax.EmptyOpContext(p, n))
			if m || len(r) > 0 {
				return true
			}
		}
	}
	return false
}

// alphabet: one representative per class of runes that no rune instruction (and no word/line
// assertion) of the given programs can tell apart; candidates are printable ASCII plus U+00E9.
type alphabet struct {
	reps    []rune
	members map[rune][]rune
}

func candidateRunes() []rune {
	var c []rune
	add := func(lo, hi rune) {
		for r := lo; r <= hi; r++ {
			c = append(c, r)
		}
	}
	// digits and letters first so that shortest witnesses look like numbers
	add('0', '9')
	add('a', 'z')
	add('A', 'Z')
	for r := rune(0x20); r <= 0x7e; r++ {
		if !(r >= '0' && r <= '9' || r >= 'a' && r <= 'z' || r >= 'A' && r <= 'Z') {
			c = append(c, r)
		}
	}
	return append(c, 0xe9)
}

// lexCat refines the regexp-induced classes by what the import functions (strconv, hex) can tell
// apart, so that the witnesses replayed through them are numerically diverse. Any refinement of
// the partition keeps the automaton exact.
func lexCat(r rune) string {
	switch {
	case r == '0', r == '1', r == 'e', r == 'E', r == '.', r == '-', r == '+', r == '<', r == '>', r == '_':
		return string(r)
	case r >= '2' && r <= '9':
		return "d"
	case r >= 'a' && r <= 'f':
		return "h"
	case r >= 'A' && r <= 'F':
		return "H"
	case r >= 'g' && r <= 'z':
		return "l"
	case r >= 'G' && r <= 'Z':
		return "L"
	}
	return "o"
}

func buildAlphabet(refine bool, as ...*nfa) alphabet {
	al := alphabet{members: map[rune][]rune{}}
	bySig := map[string]rune{}
	for _, r := range candidateRunes() {
		var b strings.Builder
		if refine {
			b.WriteString(lexCat(r) + ":")
		}
		for _, a := range as {
			for _, pc := range a.runeInsts {
				if a.prog.Inst[pc].MatchRune(r) {
					b.WriteByte('1')
				} else {
					b.WriteByte('0')
				}
			}
			if a.usesWord {
				if syntax.IsWordChar(r) {
					b.WriteByte('w')
				} else {
					b.WriteByte('n')
				}
			}
			b.WriteByte('/')
		}
		sig := b.String()
		rep, ok := bySig[sig]
		if !ok {
			rep = r
			bySig[sig] = r
			al.reps = append(al.reps, r)
		}
		al.members[rep] = append(al.members[rep], r)
	}
	return al
}

// prevKind collapses the previous rune to what assertions can observe.
func prevKind(r rune, word bool) rune {
	if r == eot {
		return eot
	}
	if word && syntax.IsWordChar(r) {
		return 'a'
	}
	return ' '
}

type pstate struct {
	a, b astate
	prev rune
}

func (p pstate) key() string { return p.a.key() + "|" + p.b.key() + "|" + string(rune(p.prev+2)) }

type productResult struct {
	States, Transitions int
	Capped              bool
	Witness             *string  // shortest string accepted by both (nil: languages disjoint)
	OnlyA               *string  // shortest string accepted by A and not by B (filled when wantDiff)
	Witnesses           []string // all jointly accepted strings up to maxLen over the class alphabet (with variants)
	WitnessesCapped     bool
	EnumLen             int
}

const stateCap = 200000
const witnessCap = 4000

// exploreProduct explores the full reachable product of A and B by BFS (shortest witnesses first).
// If wantDiff, it also looks for the shortest string in L(A) \ L(B) and does not prune states in
// which B is dead.
func exploreProduct(A, B *nfa, maxLen int, wantDiff bool) productResult {
	al := buildAlphabet(true, A, B)
	word := A.usesWord || B.usesWord
	aMid, bMid := A.midStartAlive(al.reps), B.midStartAlive(al.reps)
	dead := func(n *nfa, s astate, mid bool, prev rune) bool {
		return !s.matched && len(s.pend) == 0 && prev != eot && !mid
	}
	type node struct {
		st     pstate
		parent int
		r      rune
		depth  int
	}
	init := pstate{prev: eot}
	nodes := []node{{st: init, parent: -1}}
	index := map[string]int{init.key(): 0}
	res := productResult{States: 1}
	path := func(i int) string {
		var rs []rune
		for ; nodes[i].parent >= 0; i = nodes[i].parent {
			rs = append(rs, nodes[i].r)
		}
		for l, r := 0, len(rs)-1; l < r; l, r = l+1, r-1 {
			rs[l], rs[r] = rs[r], rs[l]
		}
		return string(rs)
	}
	for i := 0; i < len(nodes); i++ {
		cur := nodes[i]
		accA, accB := A.accepts(cur.st.a, cur.st.prev), B.accepts(cur.st.b, cur.st.prev)
		if accA && accB && res.Witness == nil {
			w := path(i)
			res.Witness = &w
		}
		if wantDiff && accA && !accB && res.OnlyA == nil {
			w := path(i)
			res.OnlyA = &w
		}
		for _, r := range al.reps {
			na := A.step(cur.st.a, cur.st.prev, r)
			nb := B.step(cur.st.b, cur.st.prev, r)
			pk := prevKind(r, word)
			res.Transitions++
			if dead(A, na, aMid, pk) || (!wantDiff && dead(B, nb, bMid, pk)) {
				continue // sink: no jointly accepted continuation
			}
			ns := pstate{a: na, b: nb, prev: pk}
			k := ns.key()
			if _, ok := index[k]; ok {
				continue
			}
			if len(nodes) >= stateCap {
				res.Capped = true
				continue
			}
			index[k] = len(nodes)
			nodes = append(nodes, node{st: ns, parent: i, r: r, depth: cur.depth + 1})
			res.States++
		}
	}
	// all jointly accepted strings up to max(maxLen, len(shortest)+2) runes, by increasing length
	if res.Witness != nil && maxLen > 0 {
		if l := len([]rune(*res.Witness)) + 2; l > maxLen {
			maxLen = l
		}
		res.EnumLen = maxLen
		seen := map[string]bool{}
		add := func(w string) {
			if !seen[w] {
				seen[w] = true
				res.Witnesses = append(res.Witnesses, w)
			}
		}
		var rec func(st pstate, rs []rune, target int)
		rec = func(st pstate, rs []rune, target int) {
			if len(res.Witnesses) >= witnessCap {
				res.WitnessesCapped = true
				return
			}
			if len(rs) == target {
				if A.accepts(st.a, st.prev) && B.accepts(st.b, st.prev) {
					add(string(rs))
					// variant: last member of every class instead of the first
					alt := make([]rune, len(rs))
					for i, r := range rs {
						m := al.members[r]
						alt[i] = m[len(m)-1]
					}
					add(string(alt))
				}
				return
			}
			for _, r := range al.reps {
				na := A.step(st.a, st.prev, r)
				nb := B.step(st.b, st.prev, r)
				pk := prevKind(r, word)
				if dead(A, na, aMid, pk) || dead(B, nb, bMid, pk) {
					continue
				}
				rec(pstate{a: na, b: nb, prev: pk}, append(append([]rune{}, rs...), r), target)
			}
		}
		for l := 0; l <= maxLen && !res.WitnessesCapped; l++ {
			rec(init, nil, l)
		}
		sort.Slice(res.Witnesses, func(i, j int) bool {
			if len(res.Witnesses[i]) != len(res.Witnesses[j]) {
				return len(res.Witnesses[i]) < len(res.Witnesses[j])
			}
			return res.Witnesses[i] < res.Witnesses[j]
		})
	}
	return res
}
