package main

// Supplementary free-running -race pass (checks/c08/racepass): concurrent readers of distinct literals. Data races
// inside /repo code and results that differ from the sequential reading are violations.

import (
	"bytes"
	"flag"
	"os"
	"os/exec"
	"regexp"
	"strings"
	"time"

	"verif/lib/vlib"
)

var fRaceBin = flag.String("racebin", "", "path of the -race build of checks/c08/racepass (empty: skip the concurrent-readers pass)")

var raceFrameRe = regexp.MustCompile(`^  (\S.*)\(.*\)$`)

func trimFn(f string) string {
	f = strings.TrimPrefix(f, "github.com/BondMachineHQ/BondMachine/pkg/")
	f = strings.ReplaceAll(f, "(*", "")
	f = strings.ReplaceAll(f, ")", "")
	return f
}

// repoRaces returns, for every DATA RACE block, the first /repo frame of each of the two accesses.
func repoRaces(stderr string) (out [][2]string) {
	blocks := strings.Split(stderr, "WARNING: DATA RACE")
	for _, blk := range blocks[1:] {
		if i := strings.Index(blk, "=================="); i >= 0 {
			blk = blk[:i]
		}
		var pair [2]string
		n := 0
		for _, s := range strings.Split(strings.TrimSpace(blk), "\n\n") {
			lines := strings.Split(s, "\n")
			hdr := strings.TrimSpace(lines[0])
			if !(strings.HasPrefix(hdr, "Write at") || strings.HasPrefix(hdr, "Read at") || strings.HasPrefix(hdr, "Previous write at") || strings.HasPrefix(hdr, "Previous read at")) || n >= 2 {
				continue
			}
			for j := 1; j+1 < len(lines); j += 2 {
				m := raceFrameRe.FindStringSubmatch(lines[j])
				if m == nil || !strings.HasPrefix(strings.TrimSpace(lines[j+1]), "/repo/") {
					continue
				}
				pair[n] = trimFn(m[1])
				break
			}
			n++
		}
		if n == 2 && (pair[0] != "" || pair[1] != "") {
			out = append(out, pair)
		}
	}
	return
}

func racePass(run *vlib.Run) {
	if *fRaceBin == "" {
		run.Set("concurrent_readers_pass", "skipped (no -racebin)")
		return
	}
	budget := 8 * time.Second
	if run.Thorough() {
		budget = 40 * time.Second
	}
	cmd := exec.Command(*fRaceBin, "-budget", budget.String())
	cmd.Env = append(os.Environ(), "GORACE=halt_on_error=0")
	var so, se bytes.Buffer
	cmd.Stdout, cmd.Stderr = &so, &se
	err := cmd.Run()
	summary := ""
	for _, l := range strings.Split(so.String(), "\n") {
		if strings.HasPrefix(l, "RACEPASS ") {
			summary = l
		}
	}
	run.Set("concurrent_readers_pass", summary)
	if summary == "" {
		harnessError("concurrent-readers pass did not complete: %v\n%s", err, se.String())
	}
	seen := map[string]bool{}
	for _, p := range repoRaces(se.String()) {
		a, b := p[0], p[1]
		if a > b {
			a, b = b, a
		}
		sig := "C08|data-race|" + a + "|" + b
		if seen[sig] {
			continue
		}
		seen[sig] = true
		run.Report(sig, "concurrent readers of distinct literals: the race detector reports unsynchronised accesses in "+a+" and "+b, map[string]any{"kind": "race-pass", "what": sig})
	}
	for _, l := range strings.Split(so.String(), "\n") {
		if strings.HasPrefix(l, "MISMATCH ") && !seen["mismatch"] {
			seen["mismatch"] = true
			run.Report("C08|concurrent-readers|literal-read-differently", l, map[string]any{"kind": "race-pass", "what": l})
		}
	}
}
