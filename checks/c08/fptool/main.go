// c08-fptool: lightweight stand-in for FloPoCo's fp2bin / bin2fp (invoked through symlinks of
// those names). See ../fpfmt.
package main

import (
	"os"
	"path/filepath"

	"verif/checks/c08/fpfmt"
)

func main() {
	fpfmt.ToolMain(filepath.Base(os.Args[0]))
}
