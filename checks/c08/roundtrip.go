// Part 2 of C08: exhaustive print/parse round trip and fixed-width export checks on the real API.
package main

import (
	"encoding/hex"
	"fmt"
	"math/big"
	"math/bits"
	"sort"
	"strconv"
	"strings"
	"sync"
	"sync/atomic"
	"time"

	"verif/lib/vlib"

	"github.com/BondMachineHQ/BondMachine/pkg/bmnumbers"
	"github.com/BondMachineHQ/BondMachine/pkg/procbuilder"
)

func processNumber(s string) (out string, err error) {
	defer func() {
		if p := recover(); p != nil {
			err = fmt.Errorf("panic: %v", p)
		}
	}()
	return procbuilder.Process_number(s)
}

var ambiguousLiteralsSkipped, importStringCrosschecks int64
var replayMode bool

type numInfo struct {
	typ     string
	bits    int
	val     string // big-endian hex without leading zeros ("0" for zero)
	storage int    // len(GetBytes())
}

func infoOf(n *bmnumbers.BMNumber) (numInfo, error) {
	var inf numInfo
	inf.typ = n.GetTypeName()
	b := n.GetBytes()
	inf.storage = len(b)
	h := strings.TrimLeft(hex.EncodeToString(b), "0")
	if h == "" {
		h = "0"
	}
	inf.val = h
	s, err := n.ExportBinary(true)
	if err != nil {
		return inf, err
	}
	if !strings.HasPrefix(s, "0b<") || !strings.Contains(s, ">") {
		return inf, fmt.Errorf("ExportBinary(true) = %q has no 0b<bits> header", s)
	}
	w, err := strconv.Atoi(s[3:strings.Index(s, ">")])
	if err != nil {
		return inf, err
	}
	inf.bits = w
	return inf, nil
}

func mkBytes(v uint64, nbits int) []byte {
	nb := (nbits + 7) / 8
	b := make([]byte, nb)
	for i := 0; i < nb && i < 8; i++ {
		b[nb-1-i] = byte(v >> (8 * uint(i)))
	}
	return b
}

func hexOf(v uint64) string { return strconv.FormatUint(v, 16) }

func binOf(v uint64, n int) string {
	s := strconv.FormatUint(v, 2)
	for len(s) < n {
		s = "0" + s
	}
	return s
}

// ---- what is evaluated -------------------------------------------------------------------------

type job struct {
	fam      string // unsigned | bin | hex | float16 | float32 | fixedpoint | fxp | lq | flopoco
	typ      bmnumbers.BMNumberType
	typeName string
	bits     int
	param    string                  // parameter class (width class, f class, range class …)
	literals func(v uint64) []string // alternative constructions through the notation itself (may be nil)
	vclass   func(v uint64) string
	note     string // concrete parameters, for messages and replay
}

type failKey struct{ fam, fn, failure string }

type example struct {
	Fam       string `json:"fam"`
	Type      string `json:"type"`
	Bits      int    `json:"bits"`
	Value     string `json:"value_hex"`
	Construct string `json:"construct"` // "cast" or the literal text
	Note      string `json:"note,omitempty"`
	detail    string
}

func (e example) less(o example) bool {
	if e.Fam != o.Fam {
		return e.Fam < o.Fam
	}
	if e.Bits != o.Bits {
		return e.Bits < o.Bits
	}
	if e.Note != o.Note {
		return e.Note < o.Note
	}
	if len(e.Value) != len(o.Value) {
		return len(e.Value) < len(o.Value)
	}
	if e.Value != o.Value {
		return e.Value < o.Value
	}
	return e.Construct < o.Construct
}

type failInfo struct {
	cells map[string]map[string]int // param -> vclass -> failing evaluations
	ex    *example
	count int
}

type agg struct {
	evals  int
	cells  map[string]map[string]map[string]int // fam -> param -> vclass -> evaluations
	passed map[string]bool                      // fam|param|vclass cells with at least one fully passing value
	fails  map[failKey]*failInfo
}

func newAgg() *agg {
	return &agg{cells: map[string]map[string]map[string]int{}, passed: map[string]bool{}, fails: map[failKey]*failInfo{}}
}

func (a *agg) cell(fam, param, vc string, n int) {
	if a.cells[fam] == nil {
		a.cells[fam] = map[string]map[string]int{}
	}
	if a.cells[fam][param] == nil {
		a.cells[fam][param] = map[string]int{}
	}
	a.cells[fam][param][vc] += n
}

func (a *agg) fail(k failKey, param, vc string, n int, ex *example) {
	fi := a.fails[k]
	if fi == nil {
		fi = &failInfo{cells: map[string]map[string]int{}}
		a.fails[k] = fi
	}
	if fi.cells[param] == nil {
		fi.cells[param] = map[string]int{}
	}
	fi.cells[param][vc] += n
	fi.count += n
	if ex != nil && (fi.ex == nil || ex.less(*fi.ex)) {
		fi.ex = ex
	}
}

func (a *agg) merge(o *agg) {
	a.evals += o.evals
	for f, m := range o.cells {
		for p, mm := range m {
			for v, n := range mm {
				a.cell(f, p, v, n)
			}
		}
	}
	for k := range o.passed {
		a.passed[k] = true
	}
	for k, fi := range o.fails {
		for p, mm := range fi.cells {
			for v, n := range mm {
				a.fail(k, p, v, n, nil)
			}
		}
		if fi.ex != nil && (a.fails[k].ex == nil || fi.ex.less(*a.fails[k].ex)) {
			a.fails[k].ex = fi.ex
		}
	}
}

// ---- the oracle --------------------------------------------------------------------------------

type failure struct{ fn, failure, detail string }

// checkExports: the type-independent fixed-width exports of a number whose width and value are known.
func checkExports(n *bmnumbers.BMNumber, width int, v uint64, out *[]failure) {
	add := func(fn, f, d string) { *out = append(*out, failure{fn, f, d}) }
	need := bits.Len64(v)
	if need == 0 {
		need = 1
	}
	plain := strconv.FormatUint(v, 2)
	// ExportBinaryNBits: exactly n digits, or an error iff the value does not fit
	seen := map[int]bool{}
	for _, nb := range []int{1, need - 1, need, need + 1, width - 1, width, width + 1, 64, 65} {
		if nb < 1 || seen[nb] {
			continue
		}
		seen[nb] = true
		s, err := n.ExportBinaryNBits(nb)
		fits := need <= nb
		switch {
		case err != nil && fits:
			add("ExportBinaryNBits", "error-although-value-fits", fmt.Sprintf("n=%d: %v", nb, err))
		case err == nil && !fits:
			add("ExportBinaryNBits", "no-error-although-value-does-not-fit", fmt.Sprintf("n=%d gives %q", nb, s))
		case err == nil && len(s) != nb:
			add("ExportBinaryNBits", "length-ne-n", fmt.Sprintf("n=%d gives %q (len %d)", nb, s, len(s)))
		case err == nil && s != binOf(v, nb):
			add("ExportBinaryNBits", "wrong-digits", fmt.Sprintf("n=%d gives %q", nb, s))
		}
	}
	// ExportVerilogBinary: <bits>'b followed by exactly <bits> binary digits
	if s, err := n.ExportVerilogBinary(); err != nil {
		add("ExportVerilogBinary", "error", err.Error())
	} else {
		pre := strconv.Itoa(width) + "'b"
		switch {
		case !strings.HasPrefix(s, pre):
			add("ExportVerilogBinary", "prefix-ne-<bits>'b", fmt.Sprintf("%q", s))
		case len(s)-len(pre) != width:
			add("ExportVerilogBinary", "digit-count-ne-bits", fmt.Sprintf("%q has %d digits, stated width %d", s, len(s)-len(pre), width))
		case s[len(pre):] != binOf(v, width):
			add("ExportVerilogBinary", "wrong-digits", fmt.Sprintf("%q", s))
		}
	}
	// ExportBinary
	if s, err := n.ExportBinary(false); err != nil {
		add("ExportBinary", "error", err.Error())
	} else if s != plain {
		add("ExportBinary", "wrong-digits", fmt.Sprintf("%q want %q", s, plain))
	}
	if s, err := n.ExportBinary(true); err != nil {
		add("ExportBinary", "error", err.Error())
	} else if s != "0b<"+strconv.Itoa(width)+">"+plain {
		add("ExportBinary", "sized-form-wrong", fmt.Sprintf("%q", s))
	} // (re-importing the sized form is the `bin` family's own round trip)
	// ExportUint64
	if width <= 64 {
		if u, err := n.ExportUint64(); err != nil {
			add("ExportUint64", "error-for-width<=64", err.Error())
		} else if u != v {
			add("ExportUint64", "wrong-value", fmt.Sprintf("%d", u))
		}
	}
}

// evalValue runs every oracle on one value of one type. trace != nil: verbose (replay).
func evalValue(j *job, v uint64, trace *[]string) (fails []failure, constructs int) {
	say := func(f string, a ...any) {
		if trace != nil {
			*trace = append(*trace, fmt.Sprintf(f, a...))
		}
	}
	want := numInfo{typ: j.typeName, bits: j.bits, val: hexOf(v)}
	wantStorage := (j.bits + 7) / 8
	floatFam := j.fam == "float16" || j.fam == "float32"

	roundtrip := func(n *bmnumbers.BMNumber, how string) {
		add := func(fn, f, d string) { fails = append(fails, failure{fn, f, how + ": " + d}) }
		checkExportsPrefixed := []failure{}
		checkExports(n, j.bits, v, &checkExportsPrefixed)
		for _, f := range checkExportsPrefixed {
			fails = append(fails, failure{f.fn, f.failure, how + ": " + f.detail})
		}
		before, berr := infoOf(n)
		text, err := n.ExportString(nil)
		say("  [%s] ExportString -> %q err=%v", how, text, err)
		// exporting is an observation: the number must be the same number afterwards (same type, width, bits and
		// storage) and every other export must still give what it gave before the text export
		if after, aerr := infoOf(n); berr == nil && (aerr != nil || after != before) {
			add("purity", "number-changed-by-ExportString", fmt.Sprintf("before %+v, after %+v (%v)", before, after, aerr))
		}
		had := map[failure]bool{}
		for _, f := range checkExportsPrefixed {
			had[f] = true
		}
		again := []failure{}
		checkExports(n, j.bits, v, &again)
		for _, f := range again {
			if !had[f] {
				add("purity", "export-differs-after-ExportString", f.fn+"/"+f.failure+": "+f.detail)
				break
			}
		}
		if err != nil {
			add("roundtrip", "export-error", err.Error())
			return
		}
		if c := claimCount(text); c > 1 && trace == nil {
			add("roundtrip", "exported-text-claimed-by-several-matchers", fmt.Sprintf("%q is accepted by %d matchers", text, c))
			return
		}
		m, err := importText(text, v)
		if err != nil || m == nil {
			say("  [%s] ImportString(%q) -> error %v", how, text, err)
			add("roundtrip", "exported-text-rejected-by-import", fmt.Sprintf("%q: %v", text, err))
			return
		}
		got, err := infoOf(m)
		say("  [%s] ImportString(%q) -> type=%s bits=%d value=0x%s storage=%dB", how, text, got.typ, got.bits, got.val, got.storage)
		if err != nil {
			add("roundtrip", "reimported-number-uninspectable", err.Error())
			return
		}
		if got.typ != want.typ {
			add("roundtrip", "reimported-type-differs", fmt.Sprintf("%q -> type %s, want %s", text, got.typ, want.typ))
		}
		if got.bits != want.bits {
			add("roundtrip", "reimported-width-differs", fmt.Sprintf("%q -> %d bits, want %d", text, got.bits, want.bits))
		}
		if got.val != want.val {
			f := "reimported-value-differs"
			if floatFam {
				f = floatOutcome(j.fam, v, got.val)
			}
			add("roundtrip", f, fmt.Sprintf("%q -> 0x%s, want 0x%s", text, got.val, want.val))
		}
		if got.bits == want.bits && got.storage != wantStorage {
			add("storage", "byte-length-ne-ceil(bits/8)", fmt.Sprintf("%q -> %d bytes for %d bits", text, got.storage, got.bits))
		}
	}

	// construction 1: the bits, cast to the type (what `bmnumbers -cast <type>` does)
	n, err := bmnumbers.ImportBytes(mkBytes(v, j.bits), j.bits)
	if err == nil {
		err = bmnumbers.CastType(n, j.typ)
	}
	say("value 0x%x as %s<%d> (%s)", v, j.typeName, j.bits, j.note)
	if err != nil {
		fails = append(fails, failure{"construct", "cast-rejected", err.Error()})
	} else {
		constructs++
		roundtrip(n, "cast")
	}
	// construction 2: through the notation
	if j.literals != nil {
		for _, lit := range j.literals(v) {
			if claimCount(lit) > 1 {
				// its meaning depends on map order: that is part 1's finding, not a round-trip fact
				atomic.AddInt64(&ambiguousLiteralsSkipped, 1)
				say("  literal %q skipped: claimed by several matchers", lit)
				continue
			}
			n, err := importText(lit, v)
			if err != nil || n == nil {
				say("  literal %q rejected: %v", lit, err)
				fails = append(fails, failure{"literal", "canonical-literal-rejected", fmt.Sprintf("%q: %v", lit, err)})
				continue
			}
			got, err := infoOf(n)
			say("  literal %q -> type=%s bits=%d value=0x%s storage=%dB", lit, got.typ, got.bits, got.val, got.storage)
			if err != nil {
				fails = append(fails, failure{"literal", "uninspectable", err.Error()})
				continue
			}
			okLit := true
			if got.typ != want.typ {
				fails = append(fails, failure{"literal", "type-ne-notation", fmt.Sprintf("%q -> %s", lit, got.typ)})
				okLit = false
			}
			if got.bits != want.bits {
				fails = append(fails, failure{"literal", "width-ne-stated", fmt.Sprintf("%q -> %d bits", lit, got.bits)})
				okLit = false
			}
			if got.val != want.val {
				fails = append(fails, failure{"literal", "value-ne-written", fmt.Sprintf("%q -> 0x%s", lit, got.val)})
				okLit = false
			}
			if got.bits == want.bits && got.storage != wantStorage {
				fails = append(fails, failure{"storage", "byte-length-ne-ceil(bits/8)", fmt.Sprintf("%q -> %d bytes for %d bits", lit, got.storage, got.bits)})
			}
			if okLit {
				constructs++
				roundtrip(n, "literal "+lit)
				// a literal has ONE meaning, whatever was done to numbers imported from the same text before: retype
				// the imported number in place (CastType, as `bmnumbers -cast` and the simulator's value reports do)
				// and import the same text again
				// (through the public ImportString, which compiles every matcher on every call: all values of the
				// widths up to 8 bits, every 61st value above)
				for _, other := range []string{"unsigned", "hex", "bin"} {
					if other == got.typ || !(j.bits <= 8 || v%61 == 0) {
						continue
					}
					first, ferr := bmnumbers.ImportString(lit)
					if ferr != nil || first == nil {
						break // ImportString against the matcher's own function is cross-checked in importText
					}
					if t := bmnumbers.GetType(other); t != nil && bmnumbers.CastType(first, t) == nil {
						atomic.AddInt64(&historyChecks, 1)
						again, err := bmnumbers.ImportString(lit)
						if err != nil || again == nil {
							fails = append(fails, failure{"history", "literal-rejected-after-an-earlier-import-was-retyped", fmt.Sprintf("%q: %v", lit, err)})
						} else if g2, err := infoOf(again); err != nil || g2 != got {
							fails = append(fails, failure{"history", "meaning-depends-on-earlier-imports", fmt.Sprintf("%q imported again after an earlier import was cast to %s: %+v, first import %+v", lit, other, g2, got)})
						}
						break
					}
				}
			}
		}
	}
	return
}

// ---- value classes -----------------------------------------------------------------------------

func intClass(width int) func(uint64) string {
	return func(v uint64) string {
		switch {
		case v == 0:
			return "zero"
		case v>>(uint(width)-1)&1 == 1:
			return "msb-set"
		}
		return "other"
	}
}

func signedClass(width int) func(uint64) string {
	return func(v uint64) string {
		switch {
		case v == 0:
			return "zero"
		case v == 1<<(uint(width)-1):
			return "min-negative"
		case v>>(uint(width)-1)&1 == 1:
			return "negative"
		}
		return "positive"
	}
}

func widthClass(n int) string {
	switch {
	case n == 64:
		return "w=64"
	case n%8 == 0:
		return "w%8==0"
	}
	return "w%8!=0"
}

func f32Class(v uint64) string {
	sign, exp, man := v>>31&1, int(v>>23&0xff), v&0x7fffff
	switch {
	case exp == 0 && man == 0:
		return "zero"
	case exp == 0:
		return "denormal"
	case exp == 255 && man == 0:
		return "inf"
	case exp == 255 && man == 0x400000 && sign == 0:
		return "nan-canonical"
	case exp == 255:
		return "nan-noncanonical"
	}
	e := exp - 127
	switch {
	case e < -64:
		return "normal-e<-64"
	case e < -32:
		return "normal-e[-64,-32)"
	case e < 0:
		return "normal-e[-32,0)"
	case e < 32:
		return "normal-e[0,32)"
	case e < 64:
		return "normal-e[32,64)"
	}
	return "normal-e>=64"
}

func f16Class(v uint64) string {
	sign, exp, man := v>>15&1, int(v>>10&0x1f), v&0x3ff
	switch {
	case exp == 0 && man == 0:
		return "zero"
	case exp == 0:
		return "denormal"
	case exp == 31 && man == 0:
		return "inf"
	case exp == 31 && man == 0x200 && sign == 0:
		return "nan-canonical"
	case exp == 31:
		return "nan-noncanonical"
	}
	return "normal"
}

func floatOutcome(fam string, v uint64, gotHex string) string {
	g, _ := strconv.ParseUint(gotHex, 16, 64)
	cls := f32Class
	signbit := uint(31)
	if fam == "float16" {
		cls, signbit = f16Class, 15
	}
	cv, cg := cls(v), cls(g)
	switch {
	case strings.HasPrefix(cv, "nan") && strings.HasPrefix(cg, "nan"):
		return "nan-payload-or-sign-lost"
	case cv != "zero" && cg == "zero":
		return "nonzero-reimported-as-zero"
	case v>>signbit != g>>signbit:
		return "sign-lost"
	}
	return "reimported-as-different-value"
}

// ---- job lists ---------------------------------------------------------------------------------

func boundary(n int) []uint64 {
	all := ^uint64(0)
	if n < 64 {
		all = 1<<uint(n) - 1
	}
	c := []uint64{0, 1, 1<<(uint(n)-1) - 1, 1 << (uint(n) - 1), 1<<(uint(n)-1) + 1, all - 1, all}
	seen := map[uint64]bool{}
	var out []uint64
	for _, v := range c {
		if v <= all && !seen[v] {
			seen[v] = true
			out = append(out, v)
		}
	}
	sort.Slice(out, func(i, j int) bool { return out[i] < out[j] })
	return out
}

type unit struct {
	j      *job
	lo, hi uint64 // [lo,hi) when vals == nil
	vals   []uint64
}

func valuesFor(j *job, exhaustiveUpTo int) []unit {
	if j.bits <= exhaustiveUpTo {
		total := uint64(1) << uint(j.bits)
		const chunk = 4096
		var us []unit
		for lo := uint64(0); lo < total; lo += chunk {
			hi := lo + chunk
			if hi > total {
				hi = total
			}
			us = append(us, unit{j: j, lo: lo, hi: hi})
		}
		return us
	}
	return []unit{{j: j, vals: boundary(j.bits)}}
}

func intJobs() []*job {
	var js []*job
	for n := 1; n <= 64; n++ {
		n := n
		js = append(js, &job{fam: "unsigned", typ: bmnumbers.Unsigned{}, typeName: "unsigned", bits: n, param: widthClass(n), vclass: intClass(n),
			note: fmt.Sprintf("width %d", n),
			literals: func(v uint64) []string {
				d := strconv.FormatUint(v, 10)
				l := []string{"0u<" + strconv.Itoa(n) + ">" + d, "0d<" + strconv.Itoa(n) + ">" + d}
				if n == 64 {
					l = append(l, d, "0u"+d, "0d"+d)
				}
				return l
			}})
		js = append(js, &job{fam: "bin", typ: bmnumbers.Bin{}, typeName: "bin", bits: n, param: widthClass(n), vclass: intClass(n),
			note: fmt.Sprintf("width %d", n),
			literals: func(v uint64) []string {
				return []string{"0b<" + strconv.Itoa(n) + ">" + strconv.FormatUint(v, 2), "0b<" + strconv.Itoa(n) + ">" + binOf(v, n), "0b" + binOf(v, n)}
			}})
		hj := &job{fam: "hex", typ: bmnumbers.Hex{}, typeName: "hex", bits: n, param: widthClass(n), vclass: intClass(n), note: fmt.Sprintf("width %d", n)}
		if n%8 == 0 {
			hj.literals = func(v uint64) []string {
				h := hexOf(v)
				p := h
				for len(p) < n/4 {
					p = "0" + p
				}
				return []string{"0x<" + strconv.Itoa(n) + ">" + h, "0x<" + strconv.Itoa(n) + ">" + strings.ToUpper(p), "0x" + p}
			}
		}
		js = append(js, hj)
	}
	return js
}

func dynType(name string) bmnumbers.BMNumberType {
	if _, err := bmnumbers.EventuallyCreateType(name, nil); err != nil {
		harnessError("EventuallyCreateType(%q): %v", name, err)
	}
	t := bmnumbers.GetType(name)
	if t == nil {
		harnessError("type %q not registered after EventuallyCreateType", name)
	}
	return t
}

func fixedJobs(maxS int) []*job {
	var js []*job
	fclass := func(s, f int) string {
		switch {
		case f == 0:
			return "f=0"
		case f < s:
			return "0<f<s"
		case f == s:
			return "f=s"
		}
		return "f>s"
	}
	for _, fam := range []struct{ fam, prefix string }{{"fixedpoint", "fps"}, {"fxp", "fxps"}} {
		for s := 1; s <= 32; s++ {
			var fs []int
			if s <= maxS {
				for f := 0; f <= s+2; f++ {
					fs = append(fs, f)
				}
			} else {
				fs = []int{0, 1, s / 2, s - 1, s, s + 4}
			}
			for _, f := range fs {
				name := fmt.Sprintf("%s%df%d", fam.prefix, s, f)
				js = append(js, &job{fam: fam.fam, typ: dynType(name), typeName: name, bits: s, param: fclass(s, f), vclass: signedClass(s), note: name})
			}
		}
	}
	return js
}

var lqMax = []float64{1, 100, 0.1, 3.3, 0.001, 8} // range index t = position+1

func lqJobs() []*job {
	var js []*job
	for s := 1; s <= 32; s++ {
		for i, m := range lqMax {
			name := fmt.Sprintf("lqs%dt%d", s, i+1)
			pc := "range-max-not-power-of-2"
			if m == 1 || m == 8 {
				pc = "range-max-power-of-2"
			}
			js = append(js, &job{fam: "lq", typ: dynType(name), typeName: name, bits: s, param: pc, vclass: signedClass(s), note: fmt.Sprintf("%s max=%g", name, m)})
		}
	}
	return js
}

// ---- execution ---------------------------------------------------------------------------------

// runUnits evaluates the units on `workers` goroutines. Units not started before the deadline (zero =
// none) are skipped and counted.
func runUnits(units []unit, workers int, deadline time.Time) (*agg, int) {
	var skipped int64
	ch := make(chan unit, len(units))
	for _, u := range units {
		ch <- u
	}
	close(ch)
	total := newAgg()
	var mu sync.Mutex
	var wg sync.WaitGroup
	for w := 0; w < workers; w++ {
		wg.Add(1)
		go func() {
			defer wg.Done()
			a := newAgg()
			for u := range ch {
				if !deadline.IsZero() && time.Now().After(deadline) {
					atomic.AddInt64(&skipped, 1)
					continue
				}
				do := func(v uint64) {
					j := u.j
					fails, constructs := evalValue(j, v, nil)
					vc := j.vclass(v)
					a.evals += constructs
					a.cell(j.fam, j.param, vc, 1)
					if len(fails) == 0 {
						a.passed[j.fam+"|"+j.param+"|"+vc] = true
						return
					}
					seen := map[failKey]bool{}
					for _, f := range fails {
						k := failKey{j.fam, f.fn, f.failure}
						if seen[k] {
							continue
						}
						seen[k] = true
						cons := "cast"
						if i := strings.Index(f.detail, ": "); i >= 0 && strings.HasPrefix(f.detail, "literal ") {
							cons = f.detail[len("literal "):i]
						}
						a.fail(k, j.param, vc, 1, &example{Fam: j.fam, Type: j.typeName, Bits: j.bits, Value: hexOf(v), Construct: cons, Note: j.note, detail: f.detail})
					}
				}
				if u.vals != nil {
					for _, v := range u.vals {
						do(v)
					}
				} else {
					for v := u.lo; v < u.hi; v++ {
						do(v)
					}
				}
			}
			mu.Lock()
			total.merge(a)
			mu.Unlock()
		}()
	}
	wg.Wait()
	return total, int(skipped)
}

// cellsTag compresses the set of failing cells: a parameter class alone when every value class
// evaluated in it has failures, "all" when that holds for every parameter class.
func cellsTag(all map[string]map[string]int, failing map[string]map[string]int) string {
	var ps []string
	for p := range failing {
		ps = append(ps, p)
	}
	sort.Strings(ps)
	var toks []string
	full := len(failing) == len(all)
	for _, p := range ps {
		var vs []string
		for v := range failing[p] {
			vs = append(vs, v)
		}
		sort.Strings(vs)
		switch {
		case len(vs) == len(all[p]):
			toks = append(toks, p)
		case p == "-":
			full = false
			toks = append(toks, strings.Join(vs, "+"))
		default:
			full = false
			toks = append(toks, p+"("+strings.Join(vs, ",")+")")
		}
	}
	if full {
		return "all"
	}
	return strings.Join(toks, "+")
}

var exportFns = map[string]bool{"ExportBinaryNBits": true, "ExportVerilogBinary": true, "ExportBinary": true, "ExportUint64": true}

func reportAgg(run *vlib.Run, a *agg) {
	// type-independent export functions: one signature per (function, failure) with the set of families
	type ef struct{ fn, failure string }
	byExport := map[ef][]failKey{}
	var keys []failKey
	for k := range a.fails {
		keys = append(keys, k)
	}
	sort.Slice(keys, func(i, j int) bool {
		if keys[i].fam != keys[j].fam {
			return keys[i].fam < keys[j].fam
		}
		if keys[i].fn != keys[j].fn {
			return keys[i].fn < keys[j].fn
		}
		return keys[i].failure < keys[j].failure
	})
	for _, k := range keys {
		fi := a.fails[k]
		if exportFns[k.fn] {
			byExport[ef{k.fn, k.failure}] = append(byExport[ef{k.fn, k.failure}], k)
			continue
		}
		tag := cellsTag(a.cells[k.fam], fi.cells)
		sig := fmt.Sprintf("C08|%s|%s|%s|%s", k.fam, k.fn, k.failure, tag)
		what := fmt.Sprintf("%s: %s/%s on %d evaluated values (classes %s); smallest case: value 0x%s as %s<%d> (%s), %s", k.fam, k.fn, k.failure, fi.count, describeCells(fi.cells), fi.ex.Value, fi.ex.Type, fi.ex.Bits, fi.ex.Note, fi.ex.detail)
		run.Report(sig, what, map[string]any{"kind": "roundtrip", "case": fi.ex})
	}
	var efs []ef
	for e := range byExport {
		efs = append(efs, e)
	}
	sort.Slice(efs, func(i, j int) bool {
		if efs[i].fn != efs[j].fn {
			return efs[i].fn < efs[j].fn
		}
		return efs[i].failure < efs[j].failure
	})
	for _, e := range efs {
		ks := byExport[e]
		var fams []string
		n := 0
		var ex *example
		var cells []string
		for _, k := range ks {
			fams = append(fams, k.fam)
			n += a.fails[k].count
			if ex == nil || a.fails[k].ex.less(*ex) {
				ex = a.fails[k].ex
			}
			cells = append(cells, k.fam+":"+cellsTag(a.cells[k.fam], a.fails[k].cells))
		}
		famTag := strings.Join(fams, "+")
		if len(fams) == len(a.cells) {
			famTag = "all-types"
		}
		sig := fmt.Sprintf("C08|export|%s|%s|%s", e.fn, e.failure, famTag)
		what := fmt.Sprintf("%s: %s on %d evaluated values (%s); smallest case: value 0x%s as %s<%d> (%s), %s", e.fn, e.failure, n, strings.Join(cells, " "), ex.Value, ex.Type, ex.Bits, ex.Note, ex.detail)
		run.Report(sig, what, map[string]any{"kind": "roundtrip", "case": ex})
	}
}

func describeCells(c map[string]map[string]int) string {
	var out []string
	for p, m := range c {
		for v, n := range m {
			out = append(out, fmt.Sprintf("%s/%s:%d", p, v, n))
		}
	}
	sort.Strings(out)
	return strings.Join(out, " ")
}

// importText is ImportString for a text claimed by exactly one registered matcher: ImportString
// walks the AllMatchers map, compiles each key and calls the first import function whose pattern
// matches; with a unique claimant that is fn(regexp.MustCompile(pattern), text) whatever the map
// order. The real ImportString is called as well on a systematic subset (every value of widths
// whose value index is a multiple of 61, and whenever there is not exactly one claimant) and must agree.
var historyChecks int64

var (
	importDisagreeMu sync.Mutex
	importDisagree   string
)

func importText(text string, v uint64) (*bmnumbers.BMNumber, error) {
	if replayMode {
		return bmnumbers.ImportString(text)
	}
	var hit *claim
	n := 0
	for i := range claims {
		if claims[i].re.MatchString(text) {
			hit = &claims[i]
			n++
		}
	}
	if n != 1 {
		return bmnumbers.ImportString(text)
	}
	m, err := hit.fn(hit.re, text)
	if v%61 == 0 {
		m2, err2 := bmnumbers.ImportString(text)
		atomic.AddInt64(&importStringCrosschecks, 1)
		same := (err == nil) == (err2 == nil)
		if same && err == nil && m != nil && m2 != nil {
			a, _ := infoOf(m)
			b, _ := infoOf(m2)
			same = a == b
		}
		if !same {
			// ImportString is the repository's public entry point and the claimant is the only matcher accepting the
			// text: a different answer is ImportString's (caching, dispatch), i.e. the literal has two meanings
			importDisagreeMu.Lock()
			if importDisagree == "" {
				importDisagree = fmt.Sprintf("ImportString(%q) gives something else than the only matcher that accepts it (%s) gives for the same text", text, hit.pat)
			}
			importDisagreeMu.Unlock()
		}
	}
	return m, err
}

// ---- widths above 64 bits ---------------------------------------------------------------------------
// The value grid above works on uint64; hex and bin literals are not limited to 64 bits. For the widths 65..128 a
// few bit patterns per width go through the same oracles with the bits kept as text.

type wideFailure struct{ fam, failure, detail string }

func widePatterns(w int) []string {
	ones := strings.Repeat("1", w)
	zeros := strings.Repeat("0", w)
	alt := strings.Repeat("10", w)[:w]
	return []string{zeros, zeros[:w-1] + "1", "1" + zeros[:w-1], "1" + zeros[:w-2] + "1", ones, ones[:w-1] + "0", alt, "1" + alt[1:]}
}

func bitsToHex(b string) string {
	for len(b)%4 != 0 {
		b = "0" + b
	}
	var sb strings.Builder
	for i := 0; i < len(b); i += 4 {
		v, _ := strconv.ParseUint(b[i:i+4], 2, 8)
		sb.WriteString(strconv.FormatUint(v, 16))
	}
	return sb.String()
}

func wideChecks() (evaluated int, fails []wideFailure) {
	add := func(fam, f, d string) { fails = append(fails, wideFailure{fam, f, d}) }
	for _, w := range []int{65, 66, 71, 72, 73, 80, 96, 100, 127, 128} {
		for _, bits := range widePatterns(w) {
			lits := map[string][]string{"bin": {"0b<" + strconv.Itoa(w) + ">" + bits}}
			if w%8 == 0 {
				lits["hex"] = []string{"0x<" + strconv.Itoa(w) + ">" + bitsToHex(bits)}
				if bits[0] == '1' || strings.TrimLeft(bitsToHex(bits), "0") != "" && len(strings.TrimLeft(bitsToHex(bits), "0"))*4 > w-8 {
					// the unsized form states its width through its digit count (byte granularity)
					lits["hex"] = append(lits["hex"], "0x"+bitsToHex(bits))
				}
			}
			for fam, ll := range lits {
				for _, lit := range ll {
					evaluated++
					n, err := bmnumbers.ImportString(lit)
					if err != nil || n == nil {
						add(fam, "wide-literal-rejected", fmt.Sprintf("%q: %v", lit, err))
						continue
					}
					plain := strings.TrimLeft(bits, "0")
					if plain == "" {
						plain = "0"
					}
					if n.GetTypeName() != fam {
						add(fam, "wide-type-ne-notation", fmt.Sprintf("%q -> %s", lit, n.GetTypeName()))
					}
					if s, err := n.ExportBinary(true); err != nil || s != "0b<"+strconv.Itoa(w)+">"+plain {
						add(fam, "wide-ExportBinary-wrong", fmt.Sprintf("%q -> %q (%v)", lit, s, err))
						continue
					}
					if s, err := n.ExportVerilogBinary(); err != nil || s != strconv.Itoa(w)+"'b"+bits {
						add(fam, "wide-ExportVerilogBinary-wrong", fmt.Sprintf("%q -> %q (%v)", lit, s, err))
					}
					if s, err := n.ExportBinaryNBits(w); err != nil || s != bits {
						add(fam, "wide-ExportBinaryNBits-wrong", fmt.Sprintf("%q n=%d -> %q (%v)", lit, w, s, err))
					}
					if bits[0] == '1' {
						if s, err := n.ExportBinaryNBits(w - 1); err == nil {
							add(fam, "wide-ExportBinaryNBits-no-error-although-value-does-not-fit", fmt.Sprintf("%q n=%d -> %q", lit, w-1, s))
						}
					}
					text, err := n.ExportString(nil)
					if err != nil {
						add(fam, "wide-export-error", fmt.Sprintf("%q: %v", lit, err))
						continue
					}
					m, err := bmnumbers.ImportString(text)
					if err != nil || m == nil {
						add(fam, "wide-exported-text-rejected-by-import", fmt.Sprintf("%q -> %q: %v", lit, text, err))
						continue
					}
					a, _ := infoOf(n)
					b, _ := infoOf(m)
					if a != b {
						add(fam, "wide-reimported-number-differs", fmt.Sprintf("%q -> %q -> %+v, original %+v", lit, text, b, a))
					}
				}
			}
		}
	}
	return
}

// ---- literals that state a width and carry more than that ----------------------------------------------
// "the pattern's width is the one the notation states": a sized literal whose digits need more bits than the stated
// width has no value of that width. It must be rejected (or, if a notation chose to truncate, the number must still
// obey its stated width in every export). Widths around the byte boundaries, one to nine surplus bits.

func overlongChecks() (evaluated int, fails []wideFailure) {
	add := func(fam, f, d string) { fails = append(fails, wideFailure{fam, f, d}) }
	type cand struct {
		fam, lit string
		w        int
	}
	var cands []cand
	for _, w := range []int{0, 1, 3, 4, 7, 8, 9, 12, 15, 16, 17, 31, 32, 63, 64} {
		for _, extra := range []int{1, 2, 4, 8, 9} {
			bits := "1" + strings.Repeat("0", w+extra-1)
			cands = append(cands, cand{"bin", fmt.Sprintf("0b<%d>%s", w, bits), w})
			if w%8 == 0 && w > 0 {
				cands = append(cands, cand{"hex", fmt.Sprintf("0x<%d>%s", w, bitsToHex(bits)), w})
			}
			if w > 0 && w+extra <= 64 {
				v := new(big.Int).Lsh(big.NewInt(1), uint(w+extra-1))
				cands = append(cands, cand{"unsigned", fmt.Sprintf("0u<%d>%s", w, v.String()), w})
			}
		}
	}
	for _, c := range cands {
		evaluated++
		var n *bmnumbers.BMNumber
		var err error
		func() {
			defer func() {
				if p := recover(); p != nil {
					err = fmt.Errorf("panic: %v", p)
					add(c.fam, "overlong-literal-panics", fmt.Sprintf("%q: %v", c.lit, p))
				}
			}()
			n, err = bmnumbers.ImportString(c.lit)
		}()
		if err != nil || n == nil {
			continue // rejected: fine
		}
		// accepted: then it must be a number of the stated width in every respect
		if s, err := n.ExportVerilogBinary(); err != nil || !strings.HasPrefix(s, strconv.Itoa(c.w)+"'b") || len(s) != len(strconv.Itoa(c.w))+2+c.w {
			add(c.fam, "overlong-literal-accepted-with-more-bits-than-stated", fmt.Sprintf("%q is accepted; ExportVerilogBinary gives %q (%v), stated width %d", c.lit, s, err, c.w))
			continue
		}
		if c.w > 0 {
			if s, err := n.ExportBinaryNBits(c.w); err != nil || len(s) != c.w {
				add(c.fam, "overlong-literal-accepted-with-more-bits-than-stated", fmt.Sprintf("%q is accepted; ExportBinaryNBits(%d) gives %q (%v)", c.lit, c.w, s, err))
			}
		}
	}
	return
}
