// C04 — a bond delivers every value exactly once, in order, to every consumer.
//
// Closed-system model checking on BOTH back ends. A producer and k consumers, bonded through the
// real Bondmachine API; every processor runs a real program whose padding loop is controlled by an
// external input (`i2r r2 iK; jz r2 pad`), so the environment decides, every clock tick and for
// every processor independently, whether it keeps padding or proceeds to its IO instruction: the
// reachable graph contains every relative speed / stall pattern of every length. The payload is a
// counter stepping by 64 (4 distinct values; the protocol bounds the lag by 1). A ghost monitor
// checks exactly-once in-order delivery and that nobody passes its IO instruction early; a
// backward-reachability pass checks that progress stays possible from every reachable state.
package main

import (
	"fmt"
	"os"
	"sort"
	"strconv"
	"strings"
	"sync"

	"verif/engines/xs"
	"verif/lib/bmgen"
	"verif/lib/bmsys"
	"verif/lib/vlib"

	"github.com/BondMachineHQ/BondMachine/pkg/bondmachine"
)

type scenario struct {
	Name     string           `json:"name"`
	SendOp   string           `json:"send_op"`          // r2owa | r2owaa
	K        int              `json:"consumers"`        // fan-out
	Double   bool             `json:"double"`           // consumers read the input in two consecutive instructions
	MixedI2r bool             `json:"mixed_i2r"`        // last consumer uses the non-handshaked i2r (outside the property's premise)
	Tight    int              `json:"tight"`            // >0: consumers have no stall control, loop is `i2rw; (Tight-1 × nop); j 0`
	Delays   map[string]int32 `json:"delays,omitempty"` // simulator only: fixed simulated delay per opcode
	// FanIn > 0: two producers feed ONE consumer through two bonds; the consumer reads input 0 then input 1 with
	// FanIn-1 instructions between the two reads (1 = back to back). K is 1.
	FanIn int `json:"fan_in,omitempty"`
	// MultiOut > 0: ONE producer with MultiOut outputs, each bonded to its own consumer; the producer writes the same
	// value to o0, o1, ... in consecutive instructions (a processor whose output selector is wider than its input
	// selector). K is MultiOut.
	MultiOut int `json:"multi_out,omitempty"`
	// Halt > 0 (simulator only): the consumers are programs that END: Halt reads `i2rw r0 i0` (one nop between two
	// reads), then Tail more instructions, then the program runs off its last instruction (the simulator halts such
	// a processor; the generated ROM wraps around instead, so there is no HDL counterpart). The producer goes on
	// offering values: it must stay blocked in its IO instruction for ever once the consumers are gone.
	Halt int `json:"halt,omitempty"`
	Tail int `json:"tail,omitempty"`
}

func (sc scenario) pcRecv() uint64 {
	if sc.Tight > 0 || sc.Halt > 0 {
		return 0
	}
	return 2
}

func (sc scenario) nin() int {
	if sc.FanIn > 0 {
		return 3
	}
	if sc.MultiOut > 0 {
		return 1 + sc.MultiOut
	}
	if sc.Tight > 0 || sc.Halt > 0 {
		return 1
	}
	return 1 + sc.K
}

const step = 64

func (sc scenario) system() bmsys.System {
	prodOps := []string{"rset", "i2r", "jz", sc.SendOp, "add", "j"}
	sys := bmsys.System{}
	if sc.MultiOut > 0 {
		prog := []string{"rset r1 " + strconv.Itoa(step), "i2r r2 i0", "jz r2 1"}
		for o := 0; o < sc.MultiOut; o++ {
			prog = append(prog, fmt.Sprintf("%s r0 o%d", sc.SendOp, o))
		}
		prog = append(prog, "add r0 r1", "j 1")
		sys.Procs = append(sys.Procs, bmsys.Proc{Spec: bmgen.ArchSpec{Rsize: 8, R: 2, N: 1, M: uint8(sc.MultiOut), O: 3, Ops: prodOps}, Program: prog})
		sys.ExtIn = sc.nin()
		sys.Bonds = append(sys.Bonds, [2]string{"p0i0", "i0"})
		for c := 1; c <= sc.MultiOut; c++ {
			sys.Procs = append(sys.Procs, bmsys.Proc{Spec: bmgen.ArchSpec{Rsize: 8, R: 2, N: 2, M: 0, O: 3, Ops: []string{"i2r", "jz", "i2rw", "nop", "j"}},
				Program: []string{"i2r r2 i1", "jz r2 0", "i2rw r0 i0", "nop", "j 0"}})
			sys.Bonds = append(sys.Bonds, [2]string{fmt.Sprintf("p%di1", c), fmt.Sprintf("i%d", c)})
			sys.Bonds = append(sys.Bonds, [2]string{fmt.Sprintf("p%di0", c), fmt.Sprintf("p0o%d", c-1)})
		}
		return sys
	}
	if sc.FanIn > 0 {
		for p := 0; p < 2; p++ {
			sys.Procs = append(sys.Procs, bmsys.Proc{
				Spec:    bmgen.ArchSpec{Rsize: 8, R: 2, N: 1, M: 1, O: 3, Ops: prodOps},
				Program: []string{"rset r1 " + strconv.Itoa(step), "i2r r2 i0", "jz r2 1", sc.SendOp + " r0 o0", "add r0 r1", "j 1"},
			})
			sys.Bonds = append(sys.Bonds, [2]string{fmt.Sprintf("p%di0", p), fmt.Sprintf("i%d", p)})
		}
		prog := []string{"i2r r2 i2", "jz r2 0", "i2rw r0 i0"}
		for i := 1; i < sc.FanIn; i++ {
			prog = append(prog, "nop")
		}
		prog = append(prog, "i2rw r3 i1", "j 0")
		sys.Procs = append(sys.Procs, bmsys.Proc{Spec: bmgen.ArchSpec{Rsize: 8, R: 2, N: 3, M: 0, O: 3, Ops: []string{"i2r", "jz", "i2rw", "nop", "j"}}, Program: prog})
		sys.ExtIn = 3
		sys.Bonds = append(sys.Bonds, [2]string{"p2i2", "i2"}, [2]string{"p2i0", "p0o0"}, [2]string{"p2i1", "p1o0"})
		return sys
	}
	sys.Procs = append(sys.Procs, bmsys.Proc{
		Spec:    bmgen.ArchSpec{Rsize: 8, R: 2, N: 1, M: 1, O: 3, Ops: prodOps},
		Program: []string{"rset r1 " + strconv.Itoa(step), "i2r r2 i0", "jz r2 1", sc.SendOp + " r0 o0", "add r0 r1", "j 1"},
	})
	sys.ExtIn = sc.nin()
	sys.Bonds = append(sys.Bonds, [2]string{"p0i0", "i0"})
	for c := 1; c <= sc.K && sc.Tight > 0 && sc.Halt == 0; c++ {
		prog := []string{"i2rw r0 i0"}
		for i := 1; i < sc.Tight; i++ {
			prog = append(prog, "nop")
		}
		prog = append(prog, "j 0")
		sys.Procs = append(sys.Procs, bmsys.Proc{Spec: bmgen.ArchSpec{Rsize: 8, R: 2, N: 1, M: 0, O: 3, Ops: []string{"i2rw", "nop", "j"}}, Program: prog})
		sys.Bonds = append(sys.Bonds, [2]string{fmt.Sprintf("p%di0", c), "p0o0"})
	}
	for c := 1; c <= sc.K && sc.Halt > 0; c++ {
		sys.Procs = append(sys.Procs, bmsys.Proc{Spec: bmgen.ArchSpec{Rsize: 8, R: 2, N: 1, M: 0, O: 3, Ops: []string{"i2rw", "nop", "j"}}, Program: sc.haltProgram()})
		sys.Bonds = append(sys.Bonds, [2]string{fmt.Sprintf("p%di0", c), "p0o0"})
	}
	for c := 1; c <= sc.K && sc.Tight == 0 && sc.Halt == 0; c++ {
		ops := []string{"i2r", "jz", "i2rw", "nop", "j"}
		prog := []string{"i2r r2 i1", "jz r2 0", "i2rw r0 i0", "nop", "j 0"}
		if sc.Double {
			prog = []string{"i2r r2 i1", "jz r2 0", "i2rw r0 i0", "i2rw r3 i0", "j 0"}
		}
		if sc.MixedI2r && c == sc.K {
			prog = []string{"i2r r2 i1", "jz r2 0", "i2r r0 i0", "nop", "j 0"}
			ops = []string{"i2r", "jz", "nop", "j"}
		}
		sys.Procs = append(sys.Procs, bmsys.Proc{Spec: bmgen.ArchSpec{Rsize: 8, R: 2, N: 2, M: 0, O: 3, Ops: ops}, Program: prog})
		sys.Bonds = append(sys.Bonds, [2]string{fmt.Sprintf("p%di1", c), fmt.Sprintf("i%d", c)})
		sys.Bonds = append(sys.Bonds, [2]string{fmt.Sprintf("p%di0", c), "p0o0"})
	}
	return sys
}

func (sc scenario) haltProgram() []string {
	var prog []string
	for r := 0; r < sc.Halt; r++ {
		if r > 0 {
			prog = append(prog, "nop")
		}
		prog = append(prog, "i2rw r0 i0")
	}
	for i := 0; i < sc.Tail; i++ {
		prog = append(prog, "nop")
	}
	return prog
}

const pcSend = 3 // producer's IO instruction

// ---- observation and ghost monitor -----------------------------------------------------------

type obs struct {
	pc   []uint64
	r0   []uint64 // register r0 of every processor
	r3   []uint64
	fail string
}

type ghost struct {
	issued uint8   // values offered so far, mod 4
	recv   []uint8 // values received per consumer, mod 4
	iss    []uint8 // fan-in scenarios: values offered per producer (recv is then per bond)
}

func (g ghost) key() string {
	var sb strings.Builder
	sb.WriteByte('0' + g.issued)
	for _, r := range g.recv {
		sb.WriteByte('0' + r)
	}
	for _, r := range g.iss {
		sb.WriteByte('0' + r)
	}
	return sb.String()
}

func (g ghost) clone() ghost {
	return ghost{g.issued, append([]uint8{}, g.recv...), append([]uint8(nil), g.iss...)}
}

type event struct{ class, detail string }

// monitor advances the ghost across one tick (before -> after) and returns protocol violations.
func monitor(sc scenario, g *ghost, before, after obs) (evs []event, progress bool) {
	if sc.FanIn > 0 {
		return monitorFanIn(sc, g, before, after)
	}
	if sc.MultiOut > 0 {
		return monitorMultiOut(sc, g, before, after)
	}
	pcRecv := sc.pcRecv()
	// consumers first: a value received in this tick was issued in an earlier one
	for c := 1; c <= sc.K; c++ {
		if sc.MixedI2r && c == sc.K {
			continue
		}
		recvEvent := func(got uint64, which string) {
			i := c - 1
			lag := (g.issued - g.recv[i]) & 3
			want := uint64(g.recv[i]) * step & 0xff
			if lag == 0 {
				// nothing outstanding: any capture is a duplicate of the previous value or a phantom
				prev := uint64((g.recv[i]-1)&3) * step & 0xff
				if got == prev {
					evs = append(evs, event{"duplicate", fmt.Sprintf("consumer %d %s captured %d again (no new value had been issued)", c, which, got)})
				} else {
					evs = append(evs, event{"phantom", fmt.Sprintf("consumer %d %s captured %d but no value was outstanding", c, which, got)})
				}
				return
			}
			if got != want {
				evs = append(evs, event{"wrong-value", fmt.Sprintf("consumer %d %s captured %d, expected the next value %d", c, which, got, want)})
			}
			g.recv[i] = (g.recv[i] + 1) & 3
			progress = true
		}
		if before.pc[c] == pcRecv && after.pc[c] == pcRecv+1 {
			recvEvent(after.r0[c], "i2rw#1")
		}
		if sc.Halt > 0 && before.pc[c] > 0 && before.pc[c]%2 == 0 && before.pc[c] < uint64(2*sc.Halt) && after.pc[c] == before.pc[c]+1 {
			recvEvent(after.r0[c], fmt.Sprintf("i2rw#%d", before.pc[c]/2+1))
		}
		if sc.Double && before.pc[c] == pcRecv+1 && after.pc[c] == pcRecv+2 {
			recvEvent(after.r3[c], "i2rw#2")
		}
	}
	// producer retire: every consumer must have taken the value
	if before.pc[0] == pcSend && after.pc[0] == pcSend+1 {
		for c := 1; c <= sc.K; c++ {
			if sc.MixedI2r && c == sc.K {
				continue
			}
			if g.recv[c-1] != g.issued {
				evs = append(evs, event{"producer-passed-early", fmt.Sprintf("producer left its %s while consumer %d had not received the value (lost value)", sc.SendOp, c)})
			}
		}
	}
	// producer issue: entering the IO instruction offers the next value
	if before.pc[0] != pcSend && after.pc[0] == pcSend {
		for c := 1; c <= sc.K; c++ {
			if sc.MixedI2r && c == sc.K {
				continue
			}
			if g.recv[c-1] != g.issued {
				evs = append(evs, event{"issue-overrun", fmt.Sprintf("producer offered a new value while consumer %d lagged", c)})
			}
		}
		want := uint64(g.issued) * step & 0xff
		if after.r0[0] != want {
			evs = append(evs, event{"harness-payload", fmt.Sprintf("producer payload %d, expected %d", after.r0[0], want)})
		}
		g.issued = (g.issued + 1) & 3
	}
	return
}

// monitorFanIn: two independent bonds (producer b -> input b of the consumer, which is processor 2).
func monitorFanIn(sc scenario, g *ghost, before, after obs) (evs []event, progress bool) {
	const cons = 2
	pcR := []uint64{2, 2 + uint64(sc.FanIn)}
	got := []uint64{after.r0[cons], after.r3[cons]}
	for b := 0; b < 2; b++ {
		if before.pc[cons] == pcR[b] && after.pc[cons] == pcR[b]+1 {
			lag := (g.iss[b] - g.recv[b]) & 3
			want := uint64(g.recv[b]) * step & 0xff
			switch {
			case lag == 0 && got[b] == uint64((g.recv[b]-1)&3)*step&0xff:
				evs = append(evs, event{"duplicate", fmt.Sprintf("the consumer captured %d again on input %d (no new value had been issued)", got[b], b)})
				continue
			case lag == 0:
				evs = append(evs, event{"phantom", fmt.Sprintf("the consumer captured %d on input %d but no value was outstanding", got[b], b)})
				continue
			case got[b] != want:
				evs = append(evs, event{"wrong-value", fmt.Sprintf("the consumer captured %d on input %d, expected the next value %d", got[b], b, want)})
			}
			g.recv[b] = (g.recv[b] + 1) & 3
			progress = true
		}
	}
	for b := 0; b < 2; b++ {
		if before.pc[b] == pcSend && after.pc[b] == pcSend+1 && g.recv[b] != g.iss[b] {
			evs = append(evs, event{"producer-passed-early", fmt.Sprintf("producer %d left its %s while the consumer had not received the value (lost value)", b, sc.SendOp)})
		}
		if before.pc[b] != pcSend && after.pc[b] == pcSend {
			if g.recv[b] != g.iss[b] {
				evs = append(evs, event{"issue-overrun", fmt.Sprintf("producer %d offered a new value while the consumer lagged", b)})
			}
			if want := uint64(g.iss[b]) * step & 0xff; after.r0[b] != want {
				evs = append(evs, event{"harness-payload", fmt.Sprintf("producer %d payload %d, expected %d", b, after.r0[b], want)})
			}
			g.iss[b] = (g.iss[b] + 1) & 3
		}
	}
	return
}

// monitorMultiOut: bond b connects output b of the producer (sent at pc pcSend+b) to consumer b+1.
func monitorMultiOut(sc scenario, g *ghost, before, after obs) (evs []event, progress bool) {
	for b := 0; b < sc.MultiOut; b++ {
		c := b + 1
		if before.pc[c] == 2 && after.pc[c] == 3 {
			got := after.r0[c]
			lag := (g.iss[b] - g.recv[b]) & 3
			want := uint64(g.recv[b]) * step & 0xff
			switch {
			case lag == 0 && got == uint64((g.recv[b]-1)&3)*step&0xff:
				evs = append(evs, event{"duplicate", fmt.Sprintf("consumer %d captured %d again (nothing new had been issued on output %d)", c, got, b)})
				continue
			case lag == 0:
				evs = append(evs, event{"phantom", fmt.Sprintf("consumer %d captured %d but nothing was outstanding on output %d", c, got, b)})
				continue
			case got != want:
				evs = append(evs, event{"wrong-value", fmt.Sprintf("consumer %d captured %d from output %d, expected the next value %d", c, got, b, want)})
			}
			g.recv[b] = (g.recv[b] + 1) & 3
			progress = true
		}
	}
	for b := 0; b < sc.MultiOut; b++ {
		pcS := uint64(pcSend + b)
		if before.pc[0] == pcS && after.pc[0] == pcS+1 && g.recv[b] != g.iss[b] {
			evs = append(evs, event{"producer-passed-early", fmt.Sprintf("the producer left its %s on output %d while consumer %d had not received the value (lost value)", sc.SendOp, b, b+1)})
		}
		if before.pc[0] != pcS && after.pc[0] == pcS {
			if g.recv[b] != g.iss[b] {
				evs = append(evs, event{"issue-overrun", fmt.Sprintf("the producer offered a new value on output %d while consumer %d lagged", b, b+1)})
			}
			if want := uint64(g.iss[b]) * step & 0xff; after.r0[0] != want {
				evs = append(evs, event{"harness-payload", fmt.Sprintf("producer payload %d, expected %d", after.r0[0], want)})
			}
			g.iss[b] = (g.iss[b] + 1) & 3
		}
	}
	return
}

// ---- back ends ---------------------------------------------------------------------------------

type node struct {
	bk    string // back-end state key
	hdl   []byte
	sim   *bondmachine.VM
	g     ghost
	o     obs
	stuck bool
}

type worker struct {
	h *bmsys.HDL
	s *bmsys.SIM
}

func observeHDL(h *bmsys.HDL) obs {
	var o obs
	for p := range h.Pc {
		o.pc = append(o.pc, h.Sim.Get(h.Pc[p]))
		o.r0 = append(o.r0, h.Sim.Get(h.Regs[p][0]))
		o.r3 = append(o.r3, h.Sim.Get(h.Regs[p][3]))
	}
	return o
}

func observeSIM(s *bmsys.SIM) obs {
	var o obs
	for _, p := range s.VM.Processors {
		o.pc = append(o.pc, p.Pc)
		o.r0 = append(o.r0, bmsys.U64(p.Registers[0]))
		o.r3 = append(o.r3, bmsys.U64(p.Registers[3]))
	}
	return o
}

type outcome struct {
	sc                         scenario
	backend                    string
	states, transitions, depth int
	closed                     bool
	capHit                     string
	notSimulable               string
	violations                 map[string]viol
	transfers                  int
	noProgressStates           int
	noProgressSample           []string
}

type viol struct {
	class, detail string
	path          []string
}

func explore(sc scenario, backend string, maxStates int) outcome {
	out := outcome{sc: sc, backend: backend, violations: map[string]viol{}}
	bm, err := bmsys.Build(sc.system())
	if err != nil {
		out.notSimulable = err.Error()
		return out
	}
	nin := sc.nin()
	var h0 *bmsys.HDL
	if backend == "hdl" {
		h0, err = bmsys.NewHDL(bm)
		if err != nil {
			out.notSimulable = err.Error()
			return out
		}
	}
	var pool sync.Pool
	pool.New = func() any {
		w := &worker{}
		if backend == "hdl" {
			w.h = h0.Clone()
		} else {
			w.s, _ = bmsys.NewSIMDelays(bm, true, sc.Delays)
		}
		return w
	}
	var mu sync.Mutex
	var ex *xs.Explorer[node]
	ex = &xs.Explorer[node]{
		Key:       func(n node) string { return n.bk + "#" + n.g.key() },
		MaxStates: maxStates,
		Workers:   4,
		KeepGraph: true,
		Succ: func(id int, n node) []xs.Edge[node] {
			w := pool.Get().(*worker)
			defer pool.Put(w)
			var edges []xs.Edge[node]
			for ctl := 0; ctl < 1<<nin; ctl++ {
				var after obs
				var nx node
				if backend == "hdl" {
					if err := w.h.Sim.RestoreKey(n.hdl); err != nil {
						panic(err)
					}
					for i := 0; i < nin; i++ {
						w.h.Sim.Set(w.h.In[i], uint64(ctl>>i&1))
					}
					if err := w.h.Tick(); err != nil {
						mu.Lock()
						out.violations["hdl-error"] = viol{"hdl-error", err.Error(), nil}
						mu.Unlock()
						continue
					}
					after = observeHDL(w.h)
					for i := 0; i < nin; i++ {
						w.h.Sim.Set(w.h.In[i], 0)
					}
					nx.hdl = append([]byte{}, w.h.Sim.StateKey(nil)...)
					nx.bk = string(nx.hdl)
				} else {
					w.s.Restore(n.sim)
					for i := 0; i < nin; i++ {
						w.s.VM.Inputs_regs[i] = uint8(ctl >> i & 1)
					}
					if err := w.s.Step(); err != nil {
						mu.Lock()
						out.violations["sim-error"] = viol{"sim-error", err.Error(), nil}
						mu.Unlock()
						continue
					}
					after = observeSIM(w.s)
					nx.sim = w.s.Snapshot()
					nx.bk = bmsys.Key(nx.sim)
				}
				nx.o = after
				nx.g = n.g.clone()
				evs, progress := monitor(sc, &nx.g, n.o, after)
				label := strconv.Itoa(ctl)
				if progress {
					label += "!"
				}
				if len(evs) > 0 {
					mu.Lock()
					for _, e := range evs {
						if _, ok := out.violations[e.class]; !ok {
							out.violations[e.class] = viol{e.class, e.detail, append(ex.Path(id), label)}
						}
					}
					mu.Unlock()
					continue // do not explore beyond a protocol violation
				}
				edges = append(edges, xs.Edge[node]{Label: label, Next: nx})
			}
			return edges
		},
	}
	var init node
	init.g = ghost{0, make([]uint8, sc.K), nil}
	if sc.FanIn > 0 {
		init.g = ghost{0, make([]uint8, 2), make([]uint8, 2)}
	}
	if sc.MultiOut > 0 {
		init.g = ghost{0, make([]uint8, sc.MultiOut), make([]uint8, sc.MultiOut)}
	}
	if backend == "hdl" {
		init.hdl = h0.Initial
		init.bk = string(h0.Initial)
		w := pool.Get().(*worker)
		w.h.Sim.RestoreKey(init.hdl)
		init.o = observeHDL(w.h)
		pool.Put(w)
	} else {
		s, _ := bmsys.NewSIMDelays(bm, false, sc.Delays)
		init.sim = s.Snapshot()
		init.bk = bmsys.Key(init.sim)
		init.o = observeSIM(s)
	}
	ex.Run(init)
	out.states, out.transitions, out.depth = ex.States, ex.Transitions, ex.Depth
	out.closed = ex.Closed()
	out.capHit = ex.CapHit
	// progress: from every reachable state some path leads to a completed transfer ("!" edge)
	if out.closed && len(out.violations) == 0 {
		n := len(ex.Graph)
		rev := make([][]int32, n)
		good := make([]bool, n)
		var queue []int32
		if sc.Halt > 0 {
			// a state in which every consumer has run off the end of its program is a legitimate end of all transfers
			end := uint64(len(sc.haltProgram()))
			for i := 0; i < n; i++ {
				o := ex.StateOf(i).o
				all := true
				for c := 1; c <= sc.K; c++ {
					all = all && o.pc[c] >= end
				}
				if all {
					good[i] = true
					queue = append(queue, int32(i))
				}
			}
		}
		for from, es := range ex.Graph {
			for _, e := range es {
				rev[e.To] = append(rev[e.To], int32(from))
				if strings.HasSuffix(e.Label, "!") {
					out.transfers++
					if !good[from] {
						good[from] = true
						queue = append(queue, int32(from))
					}
				}
			}
		}
		for len(queue) > 0 {
			x := queue[0]
			queue = queue[1:]
			for _, p := range rev[x] {
				if !good[p] {
					good[p] = true
					queue = append(queue, p)
				}
			}
		}
		for i := 0; i < n; i++ {
			if !good[i] {
				out.noProgressStates++
				if out.noProgressSample == nil {
					out.noProgressSample = ex.Path(i)
				}
			}
		}
	}
	return out
}

func pathString(nin int, p []string) string {
	var parts []string
	for _, l := range p {
		l = strings.TrimSuffix(l, "!")
		v, _ := strconv.Atoi(l)
		s := ""
		for i := 0; i < nin; i++ {
			s += strconv.Itoa(v >> i & 1)
		}
		parts = append(parts, s)
	}
	return strings.Join(parts, " ")
}

func main() {
	run := vlib.Start("C04", "model_checking")
	var scs []scenario
	scs = append(scs,
		scenario{Name: "r2owa-i2rw-k1", SendOp: "r2owa", K: 1},
		scenario{Name: "r2owa-i2rw-k2", SendOp: "r2owa", K: 2},
		scenario{Name: "r2owa-i2rw-double-k1", SendOp: "r2owa", K: 1, Double: true},
		scenario{Name: "r2owa-i2rw-gap1-k1", SendOp: "r2owa", K: 1, Tight: 1},
		scenario{Name: "r2owa-i2rw-gap2-k1", SendOp: "r2owa", K: 1, Tight: 2},
		scenario{Name: "r2owa-i2rw-gap3-k1", SendOp: "r2owa", K: 1, Tight: 3},
		// one producer with three outputs, one consumer per output (output selector wider than the input selector)
		scenario{Name: "two-outputs", SendOp: "r2owa", K: 2, MultiOut: 2},
		scenario{Name: "three-outputs", SendOp: "r2owa", K: 3, MultiOut: 3},
		// fan-in: two producers, one consumer reading both bonds back to back / with one instruction in between
		scenario{Name: "fan-in-2-back-to-back", SendOp: "r2owa", K: 1, FanIn: 1},
		scenario{Name: "fan-in-2-gap1", SendOp: "r2owa", K: 1, FanIn: 2},
		// three consumers: the smallest fan-out with a consumer that is neither the first nor the last bonded input
		scenario{Name: "r2owa-i2rw-k3", SendOp: "r2owa", K: 3},
	)
	if run.Thorough() {
		scs = append(scs,
			scenario{Name: "r2owa-i2rw-gap2-k2", SendOp: "r2owa", K: 2, Tight: 2},
			scenario{Name: "r2owa-i2rw-gap4-k1", SendOp: "r2owa", K: 1, Tight: 4},
			scenario{Name: "r2owa-i2rw-double-k2", SendOp: "r2owa", K: 2, Double: true},
		)
	}
	if run.Replay != "" {
		doReplay(run)
		return
	}
	maxStates := 400000
	if run.Thorough() {
		maxStates = 4000000
	}
	type job struct {
		sc      scenario
		backend string
	}
	var jobs []job
	for _, sc := range scs {
		jobs = append(jobs, job{sc, "hdl"}, job{sc, "sim"})
	}
	// simulator only: consumers whose program ends (the simulator halts a processor that runs off its last instruction)
	for reads := 1; reads <= 2; reads++ {
		for tail := 0; tail <= 3; tail++ {
			for k := 1; k <= 2; k++ {
				if k == 2 && !run.Thorough() && (reads > 1 || tail > 1) {
					continue
				}
				jobs = append(jobs, job{scenario{Name: fmt.Sprintf("r2owa-i2rw-halting-reads%d-tail%d-k%d", reads, tail, k), SendOp: "r2owa", K: k, Halt: reads, Tail: tail}, "sim"})
			}
		}
	}
	// simulator only: per-opcode delay assignments (the simulator's own notion of processor speed)
	delayOps := []string{"i2rw", "r2owa", "nop", "j", "add", "jz", "i2r"}
	delayVals := []int32{1, 2, 3, 4, 5, 7}
	bases := []scenario{{Name: "r2owa-i2rw-k1", SendOp: "r2owa", K: 1}, {Name: "r2owa-i2rw-gap2-k1", SendOp: "r2owa", K: 1, Tight: 2}}
	if run.Thorough() {
		bases = append(bases, scenario{Name: "r2owa-i2rw-gap3-k1", SendOp: "r2owa", K: 1, Tight: 3}, scenario{Name: "r2owa-i2rw-gap4-k1", SendOp: "r2owa", K: 1, Tight: 4})
	}
	for _, b := range bases {
		for _, op := range delayOps {
			for _, d := range delayVals {
				sc := b
				sc.Name = fmt.Sprintf("%s+delay(%s=%d)", b.Name, op, d)
				sc.Delays = map[string]int32{op: d}
				jobs = append(jobs, job{sc, "sim"})
			}
		}
		if run.Thorough() {
			for _, a := range delayOps {
				for _, c := range delayOps {
					if a >= c {
						continue
					}
					for _, da := range []int32{1, 3, 5} {
						for _, dc := range []int32{1, 3, 5} {
							sc := b
							sc.Name = fmt.Sprintf("%s+delay(%s=%d,%s=%d)", b.Name, a, da, c, dc)
							sc.Delays = map[string]int32{a: da, c: dc}
							jobs = append(jobs, job{sc, "sim"})
						}
					}
				}
			}
		}
	}
	outs := make([]outcome, len(jobs))
	var wg sync.WaitGroup
	sem := make(chan struct{}, 6)
	for i, j := range jobs {
		wg.Add(1)
		sem <- struct{}{}
		go func(i int, j job) {
			defer wg.Done()
			defer func() { <-sem }()
			outs[i] = explore(j.sc, j.backend, maxStates)
		}(i, j)
	}
	wg.Wait()
	var per []map[string]any
	allClosed := true
	for _, o := range outs {
		run.Add("states", o.states)
		run.Add("transitions", o.transitions)
		run.Add("traces_validated_against_impl", o.transitions)
		per = append(per, map[string]any{"scenario": o.sc.Name, "backend": o.backend, "states": o.states, "transitions": o.transitions,
			"depth": o.depth, "closed": o.closed, "cap_hit": o.capHit, "completed_transfer_edges": o.transfers,
			"states_without_progress_path": o.noProgressStates, "not_simulable": o.notSimulable})
		if o.notSimulable != "" {
			fmt.Fprintf(os.Stderr, "note: %s/%s not simulable: %s\n", o.sc.Name, o.backend, o.notSimulable)
			continue
		}
		if !o.closed {
			allClosed = false
		}
		nin := o.sc.nin()
		shape := "single-read"
		if o.sc.Double {
			shape = "consecutive-reads"
		}
		if o.sc.Tight > 0 {
			shape = fmt.Sprintf("loop-gap-%d", o.sc.Tight)
		}
		if o.sc.Halt > 0 {
			shape = fmt.Sprintf("program-ends-%d-after-last-of-%d-reads", o.sc.Tail, o.sc.Halt)
		}
		if len(o.sc.Delays) > 0 {
			shape += ",opcode-delays"
		}
		if o.sc.K > 1 {
			shape += ",fan-out>1"
		} else {
			shape += ",fan-out=1"
		}
		if o.sc.FanIn > 0 {
			shape = fmt.Sprintf("fan-in-2,reads-%d-apart", o.sc.FanIn)
		}
		if o.sc.MultiOut > 0 {
			shape = fmt.Sprintf("%d-outputs", o.sc.MultiOut)
		}
		keys := make([]string, 0, len(o.violations))
		for k := range o.violations {
			keys = append(keys, k)
		}
		sort.Strings(keys)
		for _, k := range keys {
			v := o.violations[k]
			run.Report(fmt.Sprintf("C04|%s|%s+i2rw|%s|%s", o.backend, o.sc.SendOp, shape, v.class),
				fmt.Sprintf("[%s, %s back end, fan-out %d] %s; environment schedule (one column per processor, 1 = proceed): %s", o.sc.Name, o.backend, o.sc.K, v.detail, pathString(nin, v.path)),
				map[string]any{"scenario": o.sc, "backend": o.backend, "schedule": v.path})
		}
		if o.noProgressStates > 0 {
			run.Report(fmt.Sprintf("C04|%s|%s+i2rw|%s|no-progress-possible", o.backend, o.sc.SendOp, shape),
				fmt.Sprintf("[%s, %s back end] %d reachable states from which no transfer can ever complete; shortest: %s", o.sc.Name, o.backend, o.noProgressStates, pathString(nin, o.noProgressSample)),
				map[string]any{"scenario": o.sc, "backend": o.backend, "schedule": o.noProgressSample})
		}
		if len(o.violations) == 0 && o.closed {
			run.Sample(fmt.Sprintf("%s/%s: closure, %d states, %d transitions, %d completed-transfer edges", o.sc.Name, o.backend, o.states, o.transitions, o.transfers))
		}
	}
	run.Set("scenarios", per)
	run.Set("all_closed", allClosed)
	run.Set("exhaustive", allClosed)
	run.Assume("padding between IO instructions is an input-controlled loop of non-IO instructions (i2r/jz): every stall pattern of every processor is an environment choice per tick")
	run.Assume("payload is a counter stepping by 64 on 8-bit registers (4 distinct values; the protocol bounds producer/consumer lag by 1)")
	run.Assume("handshaked output = r2owa (r2owaa does not wait for the acknowledge on either back end and is not a handshaked write in the sense of the property)")
	run.Assume("HDL semantics: /verif/engines/vsim (2-state, single clock); simulator: bondmachine.VM.Step without delay distributions")
	run.Finish()
}

func doReplay(run *vlib.Run) {
	var rp struct {
		Scenario scenario `json:"scenario"`
		Backend  string   `json:"backend"`
		Schedule []string `json:"schedule"`
	}
	if _, err := vlib.LoadReplay(run.Replay, &rp); err != nil {
		panic(err)
	}
	sc := rp.Scenario
	bm, err := bmsys.Build(sc.system())
	if err != nil {
		panic(err)
	}
	nin := sc.nin()
	g := ghost{0, make([]uint8, sc.K), nil}
	if sc.FanIn > 0 {
		g = ghost{0, make([]uint8, 2), make([]uint8, 2)}
	}
	if sc.MultiOut > 0 {
		g = ghost{0, make([]uint8, sc.MultiOut), make([]uint8, sc.MultiOut)}
	}
	var h *bmsys.HDL
	var s *bmsys.SIM
	var before obs
	if rp.Backend == "hdl" {
		h, err = bmsys.NewHDL(bm)
		if err != nil {
			panic(err)
		}
		before = observeHDL(h)
	} else {
		s, _ = bmsys.NewSIMDelays(bm, true, sc.Delays)
		before = observeSIM(s)
	}
	for t, l := range rp.Schedule {
		ctl, _ := strconv.Atoi(strings.TrimSuffix(l, "!"))
		var after obs
		if h != nil {
			for i := 0; i < nin; i++ {
				h.Sim.Set(h.In[i], uint64(ctl>>i&1))
			}
			h.Tick()
			after = observeHDL(h)
		} else {
			for i := 0; i < nin; i++ {
				s.VM.Inputs_regs[i] = uint8(ctl >> i & 1)
			}
			s.Step()
			after = observeSIM(s)
		}
		evs, _ := monitor(sc, &g, before, after)
		fmt.Printf("t=%d ctl=%s pc=%v r0=%v r3=%v ghost issued=%d recv=%v\n", t, pathString(nin, []string{l}), after.pc, after.r0, after.r3, g.issued, g.recv)
		for _, e := range evs {
			fmt.Printf("  EVENT %s: %s\n", e.class, e.detail)
			run.Report("C04|replay|"+e.class, e.detail, rp)
		}
		before = after
	}
	run.Set("states", len(rp.Schedule)+1)
	run.Set("transitions", len(rp.Schedule))
	run.Set("traces_validated_against_impl", len(rp.Schedule))
	run.Finish()
}
