package main

// (a) the library loop: Bondmachine.SinglePipelineSimulate. The function builds its own rule list
// (absolute:0:set:i<k>:<input k> for every input, onexit:show:o<k>:<type> for every output) and
// ends when the last output is seen valid; the check enumerates input vectors and data types and
// predicts the returned strings with the same reference model.

import (
	"fmt"
	"strings"
	"time"

	"verif/lib/vlib"
)

type libCase struct {
	Machine  string   `json:"machine"`
	DataType string   `json:"data_type"`
	Inputs   []string `json:"inputs"`
}

type libResult struct {
	Out  []string `json:"out"`
	Err  string   `json:"err,omitempty"`
	Hang bool     `json:"hang,omitempty"`
}

func (c libCase) String() string {
	return fmt.Sprintf("SinglePipelineSimulate(%q, %v) on machine %s", c.DataType, c.Inputs, c.Machine)
}

// equivalent documented rule list
func (c libCase) simCase(mi *machineInfo) simCase {
	sc := simCase{Machine: c.Machine, Ticks: 64, StopOn: mi.BM.Outputs - 1}
	for i, v := range c.Inputs {
		sc.Rules = append(sc.Rules, fmt.Sprintf("absolute:0:set:i%d:%s", i, v))
	}
	for o := 0; o < mi.BM.Outputs; o++ {
		t := c.DataType
		if o == mi.BM.Outputs-1 {
			t = "unsigned"
		}
		sc.Rules = append(sc.Rules, fmt.Sprintf("onexit:show:o%d:%s", o, t))
	}
	sc.Susp = make([]bool, len(sc.Rules))
	return sc
}

// runLib runs inside a worker process (the call leaks goroutines).
func runLib(mi *machineInfo, c libCase) (res libResult) {
	type ret struct {
		out []string
		err error
		pan any
	}
	ch := make(chan ret, 1)
	go func() {
		var r ret
		defer func() {
			if p := recover(); p != nil {
				r.pan = p
			}
			ch <- r
		}()
		bm, err := buildMachine(c.Machine)
		if err != nil {
			r.err = err
			return
		}
		r.out, r.err = bm.SinglePipelineSimulate(c.DataType, c.Inputs, nil)
	}()
	select {
	case r := <-ch:
		if r.pan != nil {
			res.Err = fmt.Sprint("panic: ", r.pan)
		} else if r.err != nil {
			res.Err = r.err.Error()
		}
		res.Out = r.out
	case <-time.After(90 * time.Second):
		res.Hang = true
	}
	return
}

var libInputs = []string{"0", "1", "42", "255", "0x2a", "0b101"}
var libTypes = []string{"unsigned", "hex", "bin", "signed", "binary"}
var documentedFormats = map[string]bool{"unsigned": true, "signed": true, "hex": true, "binary": true}

func libCases(thorough bool) []libCase {
	var out []libCase
	for _, m := range []string{"pass", "pipe2"} {
		for _, t := range libTypes {
			if m == "pass" && t != "unsigned" {
				continue // a single output is always shown unsigned
			}
			for _, a := range libInputs {
				for _, b := range libInputs {
					if !thorough && m == "pipe2" && t != "unsigned" && t != "hex" && (a != "42" || b != "255") {
						continue
					}
					out = append(out, libCase{Machine: m, DataType: t, Inputs: []string{a, b}})
				}
			}
		}
	}
	return out
}

type libReplay struct {
	Loop string  `json:"loop"`
	Lib  libCase `json:"lib"`
}

func libOutcome(r libResult) outcome {
	var o outcome
	o.Header = []string{}
	if r.Hang {
		o.Abort = "no result within 90s"
		return o
	}
	if r.Err != "" {
		o.Abort = r.Err
		return o
	}
	var vs []string
	for _, s := range r.Out {
		vs = append(vs, normNumber(s))
	}
	if len(vs) > 0 {
		o.Out = []string{"S:" + strings.Join(vs, " ")}
	}
	return o
}

func judgeLib(run *vlib.Run, mi *machineInfo, ts *traceStore, c libCase, r libResult) bool {
	got := libOutcome(r)
	sc := c.simCase(mi)
	exp, err := expectedOutcomes(mi, ts, sc, hyp{})
	if err != nil {
		infra(fmt.Sprintf("reference for %s: %v", c, err))
		return false
	}
	// all shown values of the run, in order, on one line
	for i := range exp {
		var vs []string
		for _, t := range exp[i].Out {
			if strings.HasPrefix(t, "S:") {
				vs = append(vs, strings.Fields(t[2:])...)
			}
		}
		exp[i].Out = nil
		if len(vs) > 0 {
			exp[i].Out = []string{"S:" + strings.Join(vs, " ")}
		}
		exp[i].Header, exp[i].Rows = []string{}, nil
	}
	if matches(exp, got) {
		return true
	}
	_, detail := exp[0].firstDiff(got)
	if got.Abort != "" && documentedFormats[c.DataType] {
		run.Report("C15|format-"+c.DataType+"|run-aborted", fmt.Sprintf("[lib loop] %s: %s", c, detail), libReplay{"lib", c})
		return false
	}
	if got.Abort != "" && !documentedFormats[c.DataType] && c.DataType != "unsigned" && c.DataType != "hex" {
		return true // undocumented type name: nothing is promised
	}
	class, _ := exp[0].firstDiff(got)
	run.Report("C15|lib|"+class+"|set-absolute+show-onexit", fmt.Sprintf("%s: %s", c, detail), libReplay{"lib", c})
	return false
}
