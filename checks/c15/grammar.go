package main

// Part 1 — print / parse, exhaustive over the documented grammar and over Rule structs of small
// field domains; JSON save / load of rule files.

import (
	"encoding/json"
	"fmt"
	"reflect"
	"strconv"
	"strings"

	"verif/lib/vlib"

	"github.com/BondMachineHQ/BondMachine/pkg/simbox"
)

type ppReplay struct {
	Kind string       `json:"kind"` // "string" | "struct" | "json"
	Text string       `json:"text,omitempty"`
	Rule *simbox.Rule `json:"rule,omitempty"`
}

var timecName = map[string]uint8{"absolute": simbox.TIMEC_ABS, "relative": simbox.TIMEC_REL, "onvalid": simbox.TIMEC_ON_VALID,
	"onrecv": simbox.TIMEC_ON_RECV, "onexit": simbox.TIMEC_ON_EXIT, "config": simbox.TIMEC_NONE}
var actionName = map[string]uint8{"set": simbox.ACTION_SET, "get": simbox.ACTION_GET, "show": simbox.ACTION_SHOW, "config": simbox.ACTION_CONFIG}

func safeAdd(sb *simbox.Simbox, s string) (err error, pan any) {
	defer func() {
		if p := recover(); p != nil {
			pan = p
		}
	}()
	err = sb.Add(s)
	return
}

func safeString(r simbox.Rule) (s string, pan any) {
	defer func() {
		if p := recover(); p != nil {
			pan = p
		}
	}()
	return r.String(), nil
}

func ruleClass(r simbox.Rule) string {
	t := map[uint8]string{simbox.TIMEC_ABS: "absolute", simbox.TIMEC_REL: "relative", simbox.TIMEC_ON_VALID: "onvalid",
		simbox.TIMEC_ON_RECV: "onrecv", simbox.TIMEC_ON_EXIT: "onexit", simbox.TIMEC_NONE: "config"}[r.Timec]
	a := map[uint8]string{simbox.ACTION_SET: "set", simbox.ACTION_GET: "get", simbox.ACTION_SHOW: "show", simbox.ACTION_CONFIG: "config"}[r.Action]
	if t == "" {
		t = "timec-undefined"
	}
	if a == "" {
		a = "action-undefined"
	}
	if t == "config" && a == "config" {
		if simpleConfig[r.Object] {
			return "config-simple"
		}
		if bulkConfig[r.Object] {
			return "config-bulk"
		}
		return "config-unknown-option"
	}
	return t + "-" + a
}

// roundTrip: Add(String(r)) must reproduce r (Suspended is not part of the printed form).
// ignoreInapplicable: fields the rule's form has no place for (Tick of tick-less forms, Extra of
// parameterless config options) are compared as don't-care.
func roundTrip(r simbox.Rule, ignoreInapplicable bool) (class, detail string) {
	s, pan := safeString(r)
	if pan != nil {
		return "print-panic", fmt.Sprint(pan)
	}
	if s == "" {
		return "printed-empty", "String() returned the empty string"
	}
	sb := new(simbox.Simbox)
	err, pan := safeAdd(sb, s)
	if pan != nil {
		return "parse-panic", fmt.Sprintf("Add(%q) panicked: %v", s, pan)
	}
	if err != nil {
		return "printed-form-rejected", fmt.Sprintf("Add(%q): %v", s, err)
	}
	if len(sb.Rules) != 1 {
		return "parse-count", fmt.Sprintf("Add(%q) left %d rules", s, len(sb.Rules))
	}
	want := r
	want.Suspended = false
	got := sb.Rules[0]
	if ignoreInapplicable {
		if want.Timec != simbox.TIMEC_ABS && want.Timec != simbox.TIMEC_REL {
			want.Tick, got.Tick = 0, 0
		}
		if want.Timec == simbox.TIMEC_NONE && simpleConfig[want.Object] {
			want.Extra, got.Extra = "", ""
		}
	}
	if got != want {
		f := "field"
		switch {
		case got.Extra != want.Extra:
			f = "extra"
		case got.Object != want.Object:
			f = "object"
		case got.Tick != want.Tick:
			f = "tick"
		case got.Action != want.Action:
			f = "action"
		case got.Timec != want.Timec:
			f = "timec"
		}
		return "reparsed-differs:" + f, fmt.Sprintf("String()=%q, Add of that gives %s, expected %s", s, fr(got), fr(want))
	}
	return "", ""
}

type ppResult struct {
	evaluations int
	classes     map[string]int
	strict      int // struct rules whose inapplicable fields are not preserved (informational)
}

// documented grammar: is the string a rule, and with which fields?
func docParse(s string) (simbox.Rule, bool) {
	m, err := parseRule(s)
	if err != nil {
		return simbox.Rule{}, false
	}
	return simbox.Rule{Timec: timecName[m.Timec], Tick: m.Tick, Action: actionName[m.Action], Object: m.Object, Extra: m.Extra}, true
}

func runPrintParse(run *vlib.Run) ppResult {
	res := ppResult{classes: map[string]int{}}
	// ---- strings ---------------------------------------------------------------------------------
	var texts []string
	ticks := []string{"0", "1", "7", "1000", "x"}
	objs := []string{"i0", "o0", "p0r1", "p1i0", "i0v", ""}
	extras := []string{"\x00omit", "", "unsigned", "signed", "hex", "binary", "0x2a", "42"}
	for _, tc := range []string{"absolute", "relative", "sometimes"} {
		for _, tk := range ticks {
			for _, ac := range []string{"set", "get", "show", "config", "bogus"} {
				for _, ob := range objs {
					for _, ex := range extras {
						w := []string{tc, tk, ac, ob}
						if ex != "\x00omit" {
							w = append(w, ex)
						}
						texts = append(texts, strings.Join(w, ":"))
					}
				}
			}
		}
	}
	for _, tc := range []string{"onvalid", "onrecv", "onexit", "onchange"} {
		for _, ac := range []string{"set", "get", "show", "config"} {
			for _, ob := range objs {
				for _, ex := range extras {
					w := []string{tc, ac, ob}
					if ex != "\x00omit" {
						w = append(w, ex)
					}
					texts = append(texts, strings.Join(w, ":"))
				}
			}
		}
	}
	var opts []string
	for o := range simpleConfig {
		opts = append(opts, o)
	}
	for o := range bulkConfig {
		opts = append(opts, o)
	}
	opts = append(opts, "bogus_option", "")
	sortStrings(opts)
	for _, o := range opts {
		for _, p := range []string{"\x00omit", "unsigned", "signed", "hex", "binary"} {
			if p == "\x00omit" {
				texts = append(texts, "config:"+o)
			} else {
				texts = append(texts, "config:"+o+":"+p)
			}
		}
	}
	texts = append(texts, "", ":", "absolute", "config", "absolute:1:get:o0:hex:more", "onvalid:get:o0:hex:more", "config:get_all:hex:more",
		"absolute:1", "onexit:show", "ABSOLUTE:1:get:o0:hex")
	texts = append(texts, docExamples...)
	for _, s := range texts {
		res.evaluations++
		want, valid := docParse(s)
		sb := new(simbox.Simbox)
		err, pan := safeAdd(sb, s)
		rp := ppReplay{Kind: "string", Text: s}
		if pan != nil {
			run.Report("C15|parse|panic", fmt.Sprintf("Add(%q) panicked: %v", s, pan), rp)
			continue
		}
		if valid {
			cls := ruleClass(want)
			if err != nil {
				res.classes["rejected-documented"]++
				run.Report("C15|parse|documented-rule-rejected|"+cls, fmt.Sprintf("Add(%q): %v", s, err), rp)
				continue
			}
			if len(sb.Rules) != 1 || sb.Rules[0] != want {
				run.Report("C15|parse|wrong-fields|"+cls, fmt.Sprintf("Add(%q) gives %s, documented meaning %s", s, frs(sb.Rules), fr(want)), rp)
				continue
			}
			res.classes["accepted:"+cls]++
		} else {
			// outside the documented grammar: an accepting implementation must still round-trip;
			// a string whose first word / action / arity is undocumented must be rejected untouched.
			if err != nil {
				if len(sb.Rules) != 0 {
					run.Report("C15|parse|rejected-but-added", fmt.Sprintf("Add(%q) returned %v and left %d rules", s, err, len(sb.Rules)), rp)
				}
				res.classes["rejected"]++
				continue
			}
			run.Report("C15|parse|undocumented-form-accepted", fmt.Sprintf("Add(%q) accepted as %s", s, frs(sb.Rules)), rp)
			continue
		}
		if c, d := roundTrip(sb.Rules[0], false); c != "" {
			r := sb.Rules[0]
			run.Report("C15|print|"+c+"|"+ruleClass(r), fmt.Sprintf("rule from Add(%q): %s", s, d), ppReplay{Kind: "struct", Rule: &r})
		}
	}
	// ---- structs ----------------------------------------------------------------------------------
	sobjs := []string{"i0", "o0", "p0r1", "", "show_pc", "get_ticks", "get_all", "show_all_internal", "bogus_option", "a:b"}
	sextras := []string{"", "unsigned", "hex", "0x2a", "x:y"}
	var all []simbox.Rule
	for tc := uint8(0); tc <= 6; tc++ {
		for ac := uint8(0); ac <= 4; ac++ {
			for _, tk := range []uint64{0, 1, 7, 1000, 1 << 63} {
				for _, ob := range sobjs {
					for _, ex := range sextras {
						for _, su := range []bool{false, true} {
							all = append(all, simbox.Rule{Timec: tc, Tick: tk, Action: ac, Object: ob, Extra: ex, Suspended: su})
						}
					}
				}
			}
		}
	}
	for _, r := range all {
		r := r
		res.evaluations++
		cls := ruleClass(r)
		valid := docValidStruct(r)
		c, d := roundTrip(r, true)
		rp := ppReplay{Kind: "struct", Rule: &r}
		switch {
		case valid && c != "":
			run.Report("C15|print|"+c+"|"+cls, fmt.Sprintf("%s: %s", fr(r), d), rp)
		case !valid && c == "":
			run.Report("C15|print|invalid-rule-printed-as-valid|"+cls, fmt.Sprintf("%s prints as %q which parses back to the same rule although the documentation has no such form", fr(r), r.String()), rp)
		case !valid && (c == "printed-empty" || c == "printed-form-rejected"):
			res.classes["unprintable:"+cls]++
		case !valid:
			// an undocumented combination that prints to something that parses to ANOTHER rule
			run.Report("C15|print|invalid-rule-"+c+"|"+cls, fmt.Sprintf("%s: %s", fr(r), d), rp)
		default:
			res.classes["roundtrip:"+cls]++
			if c2, _ := roundTrip(r, false); c2 != "" {
				res.strict++
			}
		}
	}
	// ---- JSON save / load ---------------------------------------------------------------------------
	for lo := 0; lo < len(all); lo += 97 {
		hi := lo + 5
		if hi > len(all) {
			hi = len(all)
		}
		sb := &simbox.Simbox{Rules: append([]simbox.Rule{}, all[lo:hi]...)}
		res.evaluations++
		if d := jsonRoundTrip(sb); d != "" {
			run.Report("C15|json|save-load-differs", d, ppReplay{Kind: "json", Text: mustJSON(sb)})
		} else {
			res.classes["json-roundtrip"]++
		}
	}
	res.evaluations++
	if d := jsonRoundTrip(new(simbox.Simbox)); d != "" {
		run.Report("C15|json|save-load-differs", "empty rule file: "+d, ppReplay{Kind: "json", Text: "{}"})
	}
	return res
}

func mustJSON(v any) string {
	b, _ := json.Marshal(v)
	return string(b)
}

// jsonRoundTrip: what cmd/simbox and cmd/bondmachine do: json.Marshal(sbox) / json.Unmarshal.
func jsonRoundTrip(sb *simbox.Simbox) string {
	b, err := json.Marshal(sb)
	if err != nil {
		return "Marshal: " + err.Error()
	}
	back := new(simbox.Simbox)
	if err := json.Unmarshal(b, back); err != nil {
		return "Unmarshal: " + err.Error()
	}
	if len(back.Rules) != len(sb.Rules) {
		return fmt.Sprintf("%d rules saved, %d loaded", len(sb.Rules), len(back.Rules))
	}
	for i := range sb.Rules {
		if !reflect.DeepEqual(sb.Rules[i], back.Rules[i]) {
			return fmt.Sprintf("rule %d saved as %s, loaded as %s", i, fr(sb.Rules[i]), fr(back.Rules[i]))
		}
	}
	if back.Print() != sb.Print() {
		return "Print() differs after load"
	}
	return ""
}

// docValidStruct: does the documentation have a form for this combination of fields?
func docValidStruct(r simbox.Rule) bool {
	if r.Timec == simbox.TIMEC_NONE && simpleConfig[r.Object] {
		r.Extra = "" // not applicable
	}
	if strings.Contains(r.Object, ":") || strings.Contains(r.Extra, ":") {
		return false // the separator cannot be part of a field
	}
	switch r.Timec {
	case simbox.TIMEC_ABS, simbox.TIMEC_REL:
		return r.Action == simbox.ACTION_SET || r.Action == simbox.ACTION_GET || r.Action == simbox.ACTION_SHOW
	case simbox.TIMEC_ON_VALID, simbox.TIMEC_ON_RECV, simbox.TIMEC_ON_EXIT:
		return r.Action == simbox.ACTION_GET || r.Action == simbox.ACTION_SHOW
	case simbox.TIMEC_NONE:
		return r.Action == simbox.ACTION_CONFIG && (simpleConfig[r.Object] || bulkConfig[r.Object])
	}
	return false
}

func sortStrings(s []string) {
	for i := 1; i < len(s); i++ {
		for j := i; j > 0 && s[j] < s[j-1]; j-- {
			s[j], s[j-1] = s[j-1], s[j]
		}
	}
}

// every example rule of docs/simbox-rules.md
var docExamples = []string{
	"absolute:100:set:r0:42", "absolute:200:get:r1:unsigned", "absolute:300:show:r2:hex", "absolute:500:get:io_input:signed",
	"relative:10:set:r0:100", "relative:50:get:r1:unsigned", "relative:100:show:r2:hex", "relative:25:get:memory_0:signed",
	"onvalid:get:r0:unsigned", "onvalid:show:r1:hex", "onvalid:get:io_input:signed", "onvalid:show:r2",
	"onrecv:get:r0:unsigned", "onrecv:show:r1:hex", "onrecv:get:io_input:signed", "onrecv:show:r2",
	"onexit:get:r0:unsigned", "onexit:show:r1:hex", "onexit:get:io_output:signed", "onexit:show:r2",
	"config:show_pc", "config:show_instruction", "config:show_disasm", "config:show_ticks", "config:get_ticks",
	"config:show_proc_regs_pre", "config:show_proc_regs_post", "config:show_proc_io_pre", "config:show_proc_io_post",
	"config:show_io_pre", "config:show_io_post", "config:get_all:hex", "config:show_all_internal:unsigned",
	"relative:1:show:r0:hex", "relative:1:show:r1:hex", "relative:10:get:r1:unsigned", "relative:50:show:r2:hex",
	"config:show_all:unsigned", "absolute:0:set:r0:0", "absolute:100:set:r0:50", "absolute:200:get:r0:unsigned",
	"absolute:300:show:r1:hex", "onrecv:get:io_input:signed", "onrecv:show:r2", "relative:10:show:r0:unsigned",
	"onvalid:get:r1:hex", "onrecv:show:r2:signed", "relative:10:get:r1:unsigned", "onvalid:show:r2:hex", "onrecv:get:r3:signed",
}

var _ = strconv.Itoa

func newSimbox() *simbox.Simbox { return new(simbox.Simbox) }

// fr prints the fields of a rule (Rule has a String method, %+v would print the rule text)
func fr(r simbox.Rule) string {
	return fmt.Sprintf("{Timec:%d Tick:%d Action:%d Object:%q Extra:%q Suspended:%v}", r.Timec, r.Tick, r.Action, r.Object, r.Extra, r.Suspended)
}

func frs(l []simbox.Rule) string {
	var p []string
	for _, r := range l {
		p = append(p, fr(r))
	}
	return "[" + strings.Join(p, " ") + "]"
}
