package main

import (
	"encoding/json"
	"fmt"

	"verif/lib/bmgen"

	"github.com/BondMachineHQ/BondMachine/pkg/bondmachine"
)

// The machines of the semantics part. All have two BM inputs (so that set rules on i0 / i1 are
// compilable) and at least one output; registers are 8 bit wide, two registers (p0r0, p0r1).
//
//	pass   handshaking pass-through: i0 -> r0 -> o0 with i2rw / r2owa (the output valid flag rises and
//	       falls, so onvalid rules have edges to fire on; SinglePipelineSimulate terminates on it)
//	count  free running counter on o0 (plain r2o: valid never rises), inputs are ignored
//	two    two outputs: o0 follows i0, o1 follows i1+1 (plain i2r / r2o / inc)
//	three  three outputs, two inputs (more processor outputs than processor inputs)
//	pipe2  handshaking two-output pipeline: o0 = i0, o1 = i1+1
type machineDef struct {
	Name string
	Spec bmgen.ArchSpec
	Prog []string
}

var machineDefs = []machineDef{
	{"pass", bmgen.ArchSpec{Rsize: 8, R: 1, N: 2, M: 1, L: 0, O: 2, Ops: []string{"i2rw", "r2owa", "j"}},
		[]string{"i2rw r0 i0", "r2owa r0 o0", "j 0"}},
	{"count", bmgen.ArchSpec{Rsize: 8, R: 1, N: 2, M: 1, L: 0, O: 2, Ops: []string{"rset", "inc", "r2o", "j"}},
		[]string{"rset r0 5", "inc r0", "r2o r0 o0", "j 1"}},
	{"two", bmgen.ArchSpec{Rsize: 8, R: 1, N: 2, M: 2, L: 0, O: 3, Ops: []string{"i2r", "r2o", "inc", "j"}},
		[]string{"i2r r0 i0", "r2o r0 o0", "i2r r1 i1", "inc r1", "r2o r1 o1", "j 0"}},
	// three: more outputs than inputs (o0 = i0, o1 = i0+1, o2 = i0+2): the internal objects p0o0..p0o2 outnumber p0i0..p0i1
	{"three", bmgen.ArchSpec{Rsize: 8, R: 1, N: 2, M: 3, L: 0, O: 3, Ops: []string{"i2r", "r2o", "inc", "j"}},
		[]string{"i2r r0 i0", "r2o r0 o0", "inc r0", "r2o r0 o1", "inc r0", "r2o r0 o2", "j 0"}},
	// pipe2 is used by the library path only (SinglePipelineSimulate needs every output to handshake)
	{"pipe2", bmgen.ArchSpec{Rsize: 8, R: 1, N: 2, M: 2, L: 0, O: 3, Ops: []string{"i2rw", "r2owa", "inc", "j"}},
		[]string{"i2rw r0 i0", "r2owa r0 o0", "i2rw r1 i1", "inc r1", "r2owa r1 o1", "j 0"}},
}

func buildMachine(name string) (*bondmachine.Bondmachine, error) {
	for _, d := range machineDefs {
		if d.Name != name {
			continue
		}
		m, err := bmgen.NewMachine(d.Spec)
		if err != nil {
			return nil, err
		}
		for _, l := range d.Prog {
			w, err := m.Arch.Assembler_process_line([]byte(l))
			if err != nil {
				return nil, fmt.Errorf("%s: assembling %q: %v", name, l, err)
			}
			m.Program.Slocs = append(m.Program.Slocs, w)
		}
		if len(m.Program.Slocs) > 1<<d.Spec.O {
			return nil, fmt.Errorf("%s: program too long", name)
		}
		return bmgen.SingleBM(m), nil
	}
	return nil, fmt.Errorf("unknown machine %q", name)
}

func machineJSON(bm *bondmachine.Bondmachine) ([]byte, error) {
	return json.Marshal(bm.Jsoner())
}

func machineNames() []string {
	var o []string
	for _, d := range machineDefs {
		o = append(o, d.Name)
	}
	return o
}
