// C15 — simulation rules are applied exactly as written.
//
//	(1) print/parse: every rule of the documented grammar (through Add) and every Rule struct of small
//	    field domains: Add(String(r)) == r, or no printable form for undocumented combinations; JSON save/load.
//	(2) histories (model checking): BFS over Add/Del/Suspend/Reactivate on the real Simbox against a list model.
//	(3) semantics: all rule lists up to a length bound x all suspension masks x machines, compiled by the
//	    real compilers, executed by the real `bondmachine -sim` process (one run per distinct compiled
//	    form) and by SinglePipelineSimulate, compared tick by tick with a reference model that applies the
//	    documented meaning to a fresh VM stepped with VM.Step.
package main

import (
	"encoding/json"
	"fmt"
	"os"
	"path/filepath"
	"sort"
	"strings"
	"sync"
	"time"

	"verif/lib/vlib"
)

// Infrastructure problems (a process that cannot be started, a worker that dies, a time-out on an
// overloaded machine) are never violations: they are listed in the evidence and clear `exhaustive`.
// A tool of /repo that does not build ends the run with BUILD-FAILED and exit status 2, like run.sh.
var (
	infraMu   sync.Mutex
	infraErrs []string
)

func infra(what string) {
	infraMu.Lock()
	defer infraMu.Unlock()
	fmt.Fprintln(os.Stderr, "INFRA-ERROR check=C15:", what)
	if len(infraErrs) < 20 {
		infraErrs = append(infraErrs, what)
	}
}

func buildFailed(cleanup func(), err error) {
	fmt.Fprintln(os.Stderr, err)
	fmt.Fprintln(os.Stderr, "BUILD-FAILED check=C15 (a command of /repo could not be built from the current tree)")
	cleanup()
	os.Exit(2)
}

var cleanupScratch = func() {}

func main() {
	if len(os.Args) > 1 && os.Args[1] == "-c15worker" {
		workerMain()
		return
	}
	run := vlib.Start("C15", "model_checking")
	if run.Replay != "" {
		doReplay(run)
		return
	}
	start := time.Now()
	scratch, cleanup := vlib.Scratch("c15")
	defer cleanup()
	exitClean := func() { cleanup() }
	cleanupScratch = cleanup

	// the CLI is built while parts 1 and 2 run
	binCh := make(chan string, 1)
	var binErr error
	go func() {
		b, err := buildTool(scratch, "bondmachine")
		binErr = err
		binCh <- b
	}()

	// rule files through the real `simbox` command, concurrently with everything else
	fdepth, fbudget := 2, 70*time.Second
	if run.Thorough() {
		fdepth, fbudget = 3, 10*time.Minute
	}
	fileCh := make(chan fileRes, 1)
	go func() { fileCh <- runSimboxFiles(run, scratch, fdepth, start.Add(fbudget)) }()

	// ---- (1) print / parse ----------------------------------------------------------------------
	phase := map[string]float64{}
	t0 := time.Now()
	pp := runPrintParse(run)
	phase["printparse_s"] = time.Since(t0).Seconds()
	t0 = time.Now()

	// ---- (2) histories ----------------------------------------------------------------------------
	depth := 5
	if run.Thorough() {
		depth = 7
	}
	if v := os.Getenv("C15_DEPTH"); v != "" {
		fmt.Sscan(v, &depth)
	}
	states, transitions, traces, maxDepth, hexh, hcap, hkinds := runHistories(run, depth)
	phase["histories_s"] = time.Since(t0).Seconds()
	t0 = time.Now()

	// ---- (3) semantics ----------------------------------------------------------------------------
	maxLen := 2
	budget := 150 * time.Second
	if run.Thorough() {
		maxLen = 3
		budget = 15 * time.Minute
	}
	if v := os.Getenv("C15_MAXLEN"); v != "" {
		fmt.Sscan(v, &maxLen)
	}
	if v := os.Getenv("C15_BUDGET_S"); v != "" { // development aid (loaded machine)
		var sec int
		fmt.Sscan(v, &sec)
		budget = time.Duration(sec) * time.Second
	}
	deadline := start.Add(budget)
	sem := runSemantics(run, scratch, binCh, &binErr, maxLen, deadline)
	phase["semantics_s"] = time.Since(t0).Seconds()
	t0 = time.Now()
	bin := filepath.Join(scratch, "bondmachine")
	fm := runFormats(run, scratch, bin)
	lb := runLibrary(run)
	phase["formats_library_s"] = time.Since(t0).Seconds()
	fres := <-fileCh
	run.Set("phase_seconds", phase)
	run.Set("rule_file_process_runs", fres.runs)
	run.Set("rule_file_histories", fres.histories)

	run.Set("states", states)
	run.Set("transitions", transitions)
	run.Set("traces_validated_against_impl", traces)
	run.Set("history_depth", maxDepth)
	run.Set("history_ops_by_kind", hkinds)
	run.Set("evaluations", pp.evaluations+sem.cases+fm.cases+lb.cases+fres.histories)
	classes := len(pp.classes) + sem.distinctOutcomes + lb.distinct
	run.Set("distinct_nontrivial", classes)
	run.Set("rule", "print/parse: distinct (outcome, rule form) classes over all grammar strings and Rule structs; semantics: distinct observed outcomes (stdout tokens + report file) of the real simulator over all rule lists; library path: distinct returned value vectors")
	run.Set("printparse_evaluations", pp.evaluations)
	run.Set("printparse_classes", pp.classes)
	run.Set("struct_rules_with_unpreserved_inapplicable_field", pp.strict)
	run.Set("semantics_cases", sem.cases)
	run.Set("semantics_compiled_form_classes", sem.classes)
	run.Set("semantics_cli_process_runs", sem.runs+fm.cases)
	run.Set("semantics_distinct_cli_outcomes", sem.distinctOutcomes)
	run.Set("semantics_inprocess_compile_checks", sem.compileChecks)
	run.Set("semantics_rule_uses_by_kind", sem.byKind)
	run.Set("format_cases", fm.cases)
	run.Set("library_path_cases", lb.cases)
	run.Set("library_path_distinct_results", lb.distinct)
	exh := hexh && sem.capHit == "" && fres.capHit == "" && len(infraErrs) == 0
	if len(infraErrs) > 0 {
		run.Set("infrastructure_errors", infraErrs)
	}
	run.Set("exhaustive", exh)
	caps := []string{}
	if hcap != "" {
		caps = append(caps, "histories:"+hcap)
	}
	if sem.capHit != "" {
		caps = append(caps, "semantics-cli:"+sem.capHit)
	}
	if fres.capHit != "" {
		caps = append(caps, "rule-files:"+fres.capHit)
	}
	run.Set("cap_hit", strings.Join(caps, ","))
	run.Set("bounds", map[string]any{"history_depth": depth, "history_rules": len(histRules), "rule_alphabet": len(alphabet),
		"max_rules_per_list": maxLen, "max_rules_per_list_over_sub_alphabet": subLen, "sub_alphabet": len(subAlphabet), "rule_file_history_depth": fdepth, "ticks": simTicks, "machines": []string{"pass", "count", "two", "pipe2(library path)"},
		"modes": "interaction limit; pass also with -sim-stop-on-valid-of 0"})
	run.Assume("object names are the implementation's mnemonics (i<k>, o<k>, p<k>r<j>, ...); the names used in docs/simbox-rules.md (r0, io_input, memory_0) are not accepted by the simulator and are only used in the print/parse part")
	run.Assume("a get/show rule of tick t samples the state after the step of tick t; a set rule of tick t is applied before that step")
	run.Assume("a set on a BM input presents the datum with its valid flag raised; the environment drops it when recv is seen and acknowledges every valid output (both loops do this; it is the test bench, not a rule)")
	run.Assume("an object selected by several rules at one tick is reported once; columns / shown values follow the order of first appearance in the active rule list; values are compared numerically, not by format")
	run.Assume("under config:get_all every report column is sampled at every tick")
	run.Assume("with -sim-stop-on-valid-of the tick at which the stop condition is seen is a sampling-only tick (no step)")
	run.Assume("fields a rule form has no place for (Tick of onvalid/onrecv/onexit/config, Extra of parameterless config options) are don't-care in the print/parse comparison")
	run.Assume("the simulation loop is a deterministic function of (machine, compiled rule structures, flags): one process run per distinct compiled form stands for all rule lists compiling to it; compilation itself is executed for every list and mask")
	run.Assume("Del/Suspend/Reactivate indices are non-negative (cmd/simbox uses -1 as 'not given')")
	exitClean()
	run.Finish()
}

// ---- documented formats ------------------------------------------------------------------------------

type fmtResult struct{ cases int }

// runFormats: every documented format specifier x {get, show} on the counter machine.
func runFormats(run *vlib.Run, scratch, bin string) fmtResult {
	var res fmtResult
	if _, err := os.Stat(bin); err != nil {
		return res
	}
	mi, err := newMachineInfo("count")
	if err != nil {
		return res
	}
	mj, _ := machineJSON(mi.BM)
	ts := &traceStore{m: map[string]trace{}}
	dir := filepath.Join(scratch, "fmt")
	os.MkdirAll(dir, 0o755)
	r := &cliRunner{bin: bin, dir: dir, timeout: 60 * time.Second}
	var fs []string
	for f := range documentedFormats {
		fs = append(fs, f)
	}
	sort.Strings(fs)
	for _, f := range fs {
		for _, act := range []string{"get", "show"} {
			c := simCase{Machine: "count", Rules: []string{"absolute:3:" + act + ":o0:" + f}, Susp: []bool{false}, Ticks: 6, StopOn: -1}
			got, _, err := r.run(mj, c)
			res.cases++
			if err != nil {
				infra(fmt.Sprintf("cli run of %s: %v", c, err))
				continue
			}
			exp, err := expectedOutcomes(mi, ts, c, hyp{})
			if err != nil {
				infra(fmt.Sprintf("reference for %s: %v", c, err))
				continue
			}
			if matches(exp, got) {
				continue
			}
			class, detail := exp[0].firstDiff(got)
			run.Report("C15|format-"+f+"|"+class, fmt.Sprintf("[cli loop] %s: %s", c, detail), simReplay{"cli-format", c})
		}
	}
	return res
}

// ---- library path ---------------------------------------------------------------------------------------

type libRes struct{ cases, distinct int }

func runLibrary(run *vlib.Run) libRes {
	var res libRes
	cases := libCases(run.Thorough())
	infos := map[string]*machineInfo{}
	ts := &traceStore{m: map[string]trace{}}
	var qs []traceReq
	for _, c := range cases {
		mi, ok := infos[c.Machine]
		if !ok {
			var err error
			if mi, err = newMachineInfo(c.Machine); err != nil {
				infra("machine build: " + err.Error())
				return res
			}
			infos[c.Machine] = mi
		}
		if q, err := c.simCase(mi).traceReq(hyp{}); err == nil {
			qs = append(qs, dedupSets(q))
		}
	}
	if err := ts.fetch(qs); err != nil {
		infra("trace worker: " + err.Error())
		return res
	}
	// the library loop itself, in worker processes (it leaks goroutines)
	const batch = 40
	distinct := map[string]bool{}
	for lo := 0; lo < len(cases); lo += batch {
		hi := lo + batch
		if hi > len(cases) {
			hi = len(cases)
		}
		out, err := callWorker(workerJob{Lib: cases[lo:hi]})
		if err != nil || len(out.Lib) != hi-lo {
			infra("library worker: " + fmt.Sprint(err))
			return res
		}
		for i, r := range out.Lib {
			c := cases[lo+i]
			res.cases++
			b, _ := json.Marshal(r)
			distinct[string(b)] = true
			if judgeLib(run, infos[c.Machine], ts, c, r) && i%7 == 0 {
				run.Sample(map[string]any{"loop": "lib", "case": c.String(), "returned": r.Out})
			}
		}
	}
	res.distinct = len(distinct)
	return res
}

// ---- replay ---------------------------------------------------------------------------------------------

func doReplay(run *vlib.Run) {
	var raw map[string]json.RawMessage
	sig, err := vlib.LoadReplay(run.Replay, &raw)
	if err != nil {
		fmt.Println("cannot load replay:", err)
		os.Exit(2)
	}
	fmt.Println("replaying", sig)
	n := 1
	switch {
	case raw["tool"] != nil:
		var rp fileReplay
		vlib.LoadReplay(run.Replay, &rp)
		replayFile(run, rp)
		n = len(rp.Ops)
	case raw["ops"] != nil:
		var rp histReplay
		vlib.LoadReplay(run.Replay, &rp)
		replayHistory(run, rp)
		n = len(rp.Ops)
	case raw["kind"] != nil:
		var rp ppReplay
		vlib.LoadReplay(run.Replay, &rp)
		replayPrintParse(run, rp)
	case raw["lib"] != nil:
		var rp libReplay
		vlib.LoadReplay(run.Replay, &rp)
		mi, err := newMachineInfo(rp.Lib.Machine)
		if err != nil {
			fmt.Println(err)
			os.Exit(2)
		}
		out, err := callWorker(workerJob{Lib: []libCase{rp.Lib}})
		if err != nil {
			fmt.Println(err)
			os.Exit(2)
		}
		fmt.Printf("%s\n  returned %v err=%q hang=%v\n", rp.Lib, out.Lib[0].Out, out.Lib[0].Err, out.Lib[0].Hang)
		if judgeLib(run, mi, &traceStore{m: map[string]trace{}}, rp.Lib, out.Lib[0]) {
			fmt.Println("  agrees with the documented meaning")
		}
	case raw["case"] != nil:
		var rp simReplay
		vlib.LoadReplay(run.Replay, &rp)
		replaySim(run, rp)
	default:
		fmt.Println("unknown replay format")
		os.Exit(2)
	}
	run.Set("states", n+1)
	run.Set("transitions", n)
	run.Set("traces_validated_against_impl", n)
	run.Set("evaluations", 1)
	run.Finish()
}

func replayPrintParse(run *vlib.Run, rp ppReplay) {
	switch rp.Kind {
	case "string":
		sb := newSimbox()
		err, pan := safeAdd(sb, rp.Text)
		want, valid := docParse(rp.Text)
		fmt.Printf("Add(%q): err=%v panic=%v rules=%s; documented: valid=%v %s\n", rp.Text, err, pan, frs(sb.Rules), valid, fr(want))
		if pan != nil || valid != (err == nil) || (valid && (len(sb.Rules) != 1 || sb.Rules[0] != want)) {
			run.Report("C15|parse|replay-mismatch", "see output", rp)
		}
	case "struct":
		r := *rp.Rule
		s, _ := safeString(r)
		c, d := roundTrip(r, true)
		fmt.Printf("%s prints as %q; round trip: %s %s; documented form exists: %v\n", fr(r), s, c, d, docValidStruct(r))
		if docValidStruct(r) && c != "" {
			run.Report("C15|print|"+c+"|"+ruleClass(r), d, rp)
		}
	case "json":
		sb := newSimbox()
		json.Unmarshal([]byte(rp.Text), sb)
		d := jsonRoundTrip(sb)
		fmt.Printf("save/load of %s: %q\n", rp.Text, d)
		if d != "" {
			run.Report("C15|json|save-load-differs", d, rp)
		}
	}
}

func replaySim(run *vlib.Run, rp simReplay) {
	c := rp.Case
	mi, err := newMachineInfo(c.Machine)
	if err != nil {
		fmt.Println(err)
		os.Exit(2)
	}
	ts := &traceStore{m: map[string]trace{}}
	fmt.Println(c)
	if rp.Loop == "compile" {
		cp, _ := newCompiler(mi)
		sb, _ := buildSimbox(c.Rules, c.Susp)
		var ar []string
		for i, r := range c.Rules {
			if !c.Susp[i] {
				ar = append(ar, r)
			}
		}
		asb, _ := buildSimbox(ar, make([]bool, len(ar)))
		a, b := cp.compile(sb), cp.compile(asb)
		var am []mrule
		for _, r := range ar {
			m, _ := parseRule(r)
			am = append(am, m)
		}
		rd, rr := cp.relations(sb)
		md, mr := modelRelations(am)
		fmt.Printf("  SimDrive.Init relations:  {%s}\n  rules as written:         {%s}\n", strings.ReplaceAll(rd, "\n", "; "), strings.ReplaceAll(md, "\n", "; "))
		fmt.Printf("  SimReport.Init relations: {%s}\n  rules as written:         {%s}\n", strings.ReplaceAll(rr, "\n", "; "), strings.ReplaceAll(mr, "\n", "; "))
		if rd != md {
			run.Report("C15|compile|simdrive|relation-differs", "see output", rp)
		}
		if _, mr2 := modelRelationsR(am, true); rr != mr && rr != mr2 {
			run.Report("C15|compile|simreport|relation-differs", "see output", rp)
		}
		for p := 0; p < 4; p++ {
			fmt.Printf("  %s with suspended rules: %s\n  %s without them:         %s\n", compileParts[p], a[p], compileParts[p], b[p])
			if a[p] != b[p] {
				run.Report("C15|compile|suspended-rule-compiled|"+compileParts[p], "compiled forms differ", rp)
			}
		}
		return
	}
	scratch, cleanup := vlib.Scratch("c15r")
	defer cleanup()
	bin, err := buildTool(scratch, "bondmachine")
	if err != nil {
		fmt.Println(err)
		os.Exit(2)
	}
	mj, _ := machineJSON(mi.BM)
	r := &cliRunner{bin: bin, dir: scratch, timeout: 60 * time.Second}
	got, rawOut, err := r.run(mj, c)
	if err != nil {
		fmt.Println("cli:", err)
		os.Exit(2)
	}
	fmt.Printf("--- real `bondmachine -sim` output ---\n%s\n--- normalised ---\n  abort=%q\n  stdout=%v\n  report header=%v rows=%v\n", rawOut, got.Abort, got.Out, got.Header, got.Rows)
	exp, err := expectedOutcomes(mi, ts, c, hyp{})
	if err != nil {
		fmt.Println("reference:", err)
		os.Exit(2)
	}
	fmt.Printf("--- documented meaning ---\n  stdout=%v\n  report header=%v rows=%v\n", exp[0].Out, exp[0].Header, exp[0].Rows)
	if rp.Loop == "cli-format" {
		if !matches(exp, got) {
			class, detail := exp[0].firstDiff(got)
			f := c.Rules[0][strings.LastIndex(c.Rules[0], ":")+1:]
			run.Report("C15|format-"+f+"|"+class, detail, rp)
		}
		return
	}
	if judge(run, "cli", mi, ts, c, got, nil) {
		fmt.Println("  agrees with the documented meaning")
	}
}
