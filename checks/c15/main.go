package main

import (
	"fmt"
	"os"
	"path/filepath"
)

func main() {
	dir := os.Args[1]
	for _, n := range machineNames() {
		bm, err := buildMachine(n)
		if err != nil {
			fmt.Println(err)
			os.Exit(1)
		}
		b, _ := machineJSON(bm)
		os.WriteFile(filepath.Join(dir, n+".json"), b, 0o644)
		fmt.Println(n, "bonds", bm.List_bonds(), "iin", bm.List_internal_inputs(), "iout", bm.List_internal_outputs())
		for _, d := range bm.Domains {
			s, _ := d.Disassembler()
			fmt.Print(s)
		}
	}
}
