package main

// Rule files through the real `simbox` command (load -> one operation -> save), on all histories up
// to a small depth: after every process run the saved file must hold the model's list (including the
// Suspended flags) and `simbox -list` must print the model's text and leave the file unchanged.

import (
	"bytes"
	"encoding/json"
	"fmt"
	"os"
	"os/exec"
	"path/filepath"
	"strconv"
	"sync"
	"time"

	"verif/lib/vlib"

	"github.com/BondMachineHQ/BondMachine/pkg/simbox"
)

type fileReplay struct {
	Tool string `json:"tool"`
	Ops  []hop  `json:"ops"`
}

func simboxArgs(o hop) []string {
	switch o.Kind {
	case "add":
		return []string{"-add", histRules[o.Arg].text}
	case "add_invalid":
		return []string{"-add", "sometimes:1:get:o0"}
	case "del":
		return []string{"-del", strconv.Itoa(o.Arg)}
	case "suspend":
		return []string{"-suspend", strconv.Itoa(o.Arg)}
	case "reactivate":
		return []string{"-unsuspend", strconv.Itoa(o.Arg)}
	}
	return nil
}

func runTool(bin string, args ...string) (stdout string, failed bool, err error) {
	cmd := exec.Command(bin, args...)
	var so, se bytes.Buffer
	cmd.Stdout, cmd.Stderr = &so, &se
	if err := cmd.Start(); err != nil {
		return "", false, err
	}
	done := make(chan error, 1)
	go func() { done <- cmd.Wait() }()
	select {
	case e := <-done:
		return so.String(), e != nil, nil
	case <-time.After(60 * time.Second):
		cmd.Process.Kill()
		<-done
		return "", false, fmt.Errorf("timeout")
	}
}

// fileAgrees: the saved file holds exactly the model's list
func fileAgrees(path string, l []hent) string {
	b, err := os.ReadFile(path)
	if err != nil {
		if len(l) == 0 {
			return ""
		}
		return "rule file missing: " + err.Error()
	}
	sb := new(simbox.Simbox)
	if err := json.Unmarshal(b, sb); err != nil {
		return "rule file unreadable: " + err.Error()
	}
	if len(sb.Rules) != len(l) {
		return fmt.Sprintf("file holds %d rules, model %d", len(sb.Rules), len(l))
	}
	for i, e := range l {
		w := histRules[e.rule].want
		w.Suspended = e.susp
		if sb.Rules[i] != w {
			return fmt.Sprintf("rule %d in the file is %s, model %s", i, fr(sb.Rules[i]), fr(w))
		}
	}
	return ""
}

type fileRes struct {
	runs, histories int
	capHit          string
}

func runSimboxFiles(run *vlib.Run, scratch string, depth int, deadline time.Time) fileRes {
	var res fileRes
	bin, err := buildTool(scratch, "simbox")
	if err != nil {
		buildFailed(cleanupScratch, err)
		return res
	}
	dir := filepath.Join(scratch, "files")
	os.MkdirAll(dir, 0o755)
	type node struct {
		l    []hent
		ops  []hop
		file string
	}
	var mu sync.Mutex
	nfile := 0
	newFile := func() string {
		mu.Lock()
		defer mu.Unlock()
		nfile++
		return filepath.Join(dir, fmt.Sprintf("sb%d.json", nfile))
	}
	level := []node{{file: newFile()}}
	seen := map[hstate]bool{"": true}
	for d := 0; d < depth && len(level) > 0; d++ {
		type edge struct {
			from node
			o    hop
		}
		var edges []edge
		for _, n := range level {
			for _, o := range histOps(len(n.l)) {
				edges = append(edges, edge{n, o})
			}
		}
		nexts := make([]*node, len(edges))
		var wg sync.WaitGroup
		sem := make(chan struct{}, 16)
		for i, e := range edges {
			if time.Now().After(deadline) {
				res.capHit = "deadline"
				break
			}
			wg.Add(1)
			sem <- struct{}{}
			go func(i int, e edge) {
				defer wg.Done()
				defer func() { <-sem }()
				ops := append(append([]hop{}, e.from.ops...), e.o)
				rp := fileReplay{"simbox", ops}
				f := newFile()
				if b, err := os.ReadFile(e.from.file); err == nil {
					os.WriteFile(f, b, 0o644)
				}
				nl, wantErr := modelApply(e.from.l, e.o)
				_, failed, err := runTool(bin, append([]string{"-simbox-file", f}, simboxArgs(e.o)...)...)
				mu.Lock()
				res.runs++
				res.histories++
				mu.Unlock()
				if err != nil {
					infra("simbox run: " + err.Error())
					return
				}
				if wantErr != failed {
					run.Report("C15|rule-file|"+e.o.Kind+"|exit-status", fmt.Sprintf("simbox %v after %v: failed=%v, expected failure=%v", simboxArgs(e.o), e.from.ops, failed, wantErr), rp)
					return
				}
				if d := fileAgrees(f, nl); d != "" {
					run.Report("C15|rule-file|"+e.o.Kind+"|saved-file-differs", fmt.Sprintf("simbox %v after %v: %s", simboxArgs(e.o), e.from.ops, d), rp)
					return
				}
				if wantErr {
					return
				}
				out, failed, err := runTool(bin, "-simbox-file", f, "-list")
				mu.Lock()
				res.runs++
				mu.Unlock()
				if err != nil {
					infra("simbox -list run: " + err.Error())
					return
				}
				if failed {
					run.Report("C15|rule-file|list|failed", fmt.Sprintf("simbox -list after %v: err=%v failed=%v", ops, err, failed), rp)
					return
				}
				if out != modelPrint(nl) {
					run.Report("C15|rule-file|list|text-differs", fmt.Sprintf("simbox -list after %v prints %q, model %q", ops, out, modelPrint(nl)), rp)
					return
				}
				if d := fileAgrees(f, nl); d != "" {
					run.Report("C15|rule-file|list|file-changed", fmt.Sprintf("after simbox -list: %s", d), rp)
					return
				}
				nexts[i] = &node{nl, ops, f}
			}(i, e)
		}
		wg.Wait()
		level = nil
		for _, n := range nexts {
			if n == nil {
				continue
			}
			k := hencode(n.l)
			if !seen[k] {
				seen[k] = true
				level = append(level, *n)
			}
		}
		if res.capHit != "" {
			break
		}
	}
	return res
}

func replayFile(run *vlib.Run, rp fileReplay) {
	scratch, cleanup := vlib.Scratch("c15f")
	defer cleanup()
	bin, err := buildTool(scratch, "simbox")
	if err != nil {
		fmt.Println(err)
		os.Exit(2)
	}
	f := filepath.Join(scratch, "sb.json")
	var l []hent
	for _, o := range rp.Ops {
		nl, wantErr := modelApply(l, o)
		_, failed, err := runTool(bin, append([]string{"-simbox-file", f}, simboxArgs(o)...)...)
		b, _ := os.ReadFile(f)
		fmt.Printf("simbox %v: failed=%v err=%v file=%s\n", simboxArgs(o), failed, err, b)
		if failed != wantErr {
			run.Report("C15|rule-file|"+o.Kind+"|exit-status", "see output", rp)
			return
		}
		if d := fileAgrees(f, nl); d != "" {
			run.Report("C15|rule-file|"+o.Kind+"|saved-file-differs", d, rp)
			return
		}
		l = nl
	}
	out, _, _ := runTool(bin, "-simbox-file", f, "-list")
	fmt.Printf("simbox -list:\n%s", out)
	if out != modelPrint(l) {
		run.Report("C15|rule-file|list|text-differs", "see output", rp)
	}
}
