package main

// The real loops: (b) the `bondmachine` CLI built from /repo's current tree, run as a process on a
// saved machine JSON and a saved simbox JSON; (a) Bondmachine.SinglePipelineSimulate (library path).

import (
	"bytes"
	"encoding/csv"
	"encoding/json"
	"fmt"
	"os"
	"os/exec"
	"path/filepath"
	"strconv"
	"strings"
	"time"

	"github.com/BondMachineHQ/BondMachine/pkg/simbox"
)

func goEnv() []string {
	env := os.Environ()
	def := map[string]string{"GOFLAGS": "-mod=mod", "GOPROXY": "off", "GOSUMDB": "off", "GOTOOLCHAIN": "local",
		"GOCACHE": "/verif/.cache/go-build"}
	for k, v := range def {
		if os.Getenv(k) == "" {
			env = append(env, k+"="+v)
		}
	}
	return env
}

// buildTool builds a command of /repo's current tree (through the replace directive of the verif
// module, so nothing is ever written under /repo); VERIF_OVERLAY is honoured.
func buildTool(dir, name string) (string, error) {
	out := filepath.Join(dir, name)
	args := []string{"build"}
	if ov := os.Getenv("VERIF_OVERLAY"); ov != "" {
		args = append(args, "-overlay="+ov)
	}
	args = append(args, "-o", out, "github.com/BondMachineHQ/BondMachine/cmd/"+name)
	cmd := exec.Command("go", args...)
	cmd.Dir = "/verif"
	cmd.Env = goEnv()
	if b, err := cmd.CombinedOutput(); err != nil {
		return "", fmt.Errorf("go build %s: %v\n%s", name, err, b)
	}
	return out, nil
}

// buildSimbox builds the rule file content through the real API: Add for every rule, Suspend for the mask.
func buildSimbox(rules []string, susp []bool) (*simbox.Simbox, error) {
	sb := new(simbox.Simbox)
	for _, r := range rules {
		if err := sb.Add(r); err != nil {
			return nil, fmt.Errorf("Add(%q): %v", r, err)
		}
	}
	for i, s := range susp {
		if s {
			if err := sb.Suspend(i); err != nil {
				return nil, err
			}
		}
	}
	return sb, nil
}

// parseNumber reads a value printed by bmnumbers' ExportString: 42, 0x<8>2a, 0x2a, 0b<8>101, -3.
func parseNumber(s string) (uint64, bool) {
	base := 10
	switch {
	case strings.HasPrefix(s, "0x"):
		base, s = 16, s[2:]
	case strings.HasPrefix(s, "0b"):
		base, s = 2, s[2:]
	case strings.HasPrefix(s, "0u"), strings.HasPrefix(s, "0d"):
		s = s[2:]
	}
	if strings.HasPrefix(s, "<") {
		if x := strings.Index(s, ">"); x > 0 {
			s = s[x+1:]
		}
	}
	if base == 10 && strings.HasPrefix(s, "-") {
		v, err := strconv.ParseInt(s, 10, 64)
		return uint64(v) & 0xff, err == nil
	}
	v, err := strconv.ParseUint(s, base, 64)
	return v, err == nil
}

func normNumber(s string) string {
	if s == "" {
		return ""
	}
	if v, ok := parseNumber(s); ok {
		return strconv.FormatUint(v, 10)
	}
	return "?" + s
}

// parseStdout turns the simulator's stdout into tokens: T<n> for a tick banner, S:<values> for a
// line of shown values, ?<line> for anything else.
func parseStdout(s string) []string {
	var out []string
	for _, l := range strings.Split(s, "\n") {
		if strings.TrimSpace(l) == "" {
			continue
		}
		if strings.HasPrefix(l, "Absolute tick:") {
			out = append(out, "T"+strings.TrimPrefix(l, "Absolute tick:"))
			continue
		}
		if strings.HasPrefix(l, "\t") {
			out = append(out, "?"+strings.TrimSpace(l))
			continue
		}
		var vs []string
		for _, f := range strings.Fields(l) {
			vs = append(vs, normNumber(f))
		}
		out = append(out, "S:"+strings.Join(vs, " "))
	}
	return out
}

type cliRunner struct {
	bin     string
	dir     string // private directory of this runner (the CLI rewrites its machine file)
	timeout time.Duration
}

func shortErr(stderr string) string {
	for _, l := range strings.Split(stderr, "\n") {
		l = strings.TrimSpace(l)
		if l == "" || strings.HasPrefix(l, "goroutine") {
			continue
		}
		// drop the log timestamp
		if len(l) > 20 && l[4] == '/' && l[7] == '/' && l[13] == ':' {
			l = l[20:]
		}
		return l
	}
	return "no message"
}

// run executes the real CLI on the case and returns the normalised observed outcome.
func (r *cliRunner) run(mjson []byte, c simCase) (outcome, string, error) {
	var o outcome
	sb, err := buildSimbox(c.Rules, c.Susp)
	if err != nil {
		return o, "", err
	}
	sbj, _ := json.Marshal(sb)
	mf := filepath.Join(r.dir, "m.json")
	sf := filepath.Join(r.dir, "sb.json")
	rf := filepath.Join(r.dir, "rep.csv")
	os.Remove(rf)
	if err := os.WriteFile(mf, mjson, 0o644); err != nil {
		return o, "", err
	}
	if err := os.WriteFile(sf, sbj, 0o644); err != nil {
		return o, "", err
	}
	args := []string{"-bondmachine-file", mf, "-sim", "-simbox-file", sf, "-sim-interactions", strconv.Itoa(c.Ticks), "-sim-report", rf}
	if c.StopOn >= 0 {
		args = append(args, "-sim-stop-on-valid-of", strconv.Itoa(c.StopOn))
	}
	cmd := exec.Command(r.bin, args...)
	cmd.Dir = r.dir
	var so, se bytes.Buffer
	cmd.Stdout, cmd.Stderr = &so, &se
	if err := cmd.Start(); err != nil {
		return o, "", err
	}
	done := make(chan error, 1)
	go func() { done <- cmd.Wait() }()
	select {
	case err = <-done:
	case <-time.After(r.timeout):
		cmd.Process.Kill()
		<-done
		return o, "", fmt.Errorf("timeout")
	}
	raw := so.String()
	if err != nil {
		o.Abort = shortErr(se.String())
		return o, raw + se.String(), nil
	}
	o.Out = parseStdout(raw)
	if b, err := os.ReadFile(rf); err == nil {
		rd := csv.NewReader(bytes.NewReader(b))
		rd.FieldsPerRecord = -1
		recs, err := rd.ReadAll()
		if err != nil {
			return o, raw, fmt.Errorf("report file unreadable: %v", err)
		}
		raw += "--- report ---\n" + string(b)
		if len(recs) > 0 {
			o.Header = recs[0]
			if len(o.Header) == 1 && o.Header[0] == "" {
				o.Header = nil
			}
			hasTick := len(o.Header) > 0 && o.Header[0] == "tick"
			for _, rec := range recs[1:] {
				row := make([]string, len(rec))
				for i, x := range rec {
					if hasTick && i == 0 {
						row[i] = x
					} else {
						row[i] = normNumber(x)
					}
				}
				o.Rows = append(o.Rows, row)
			}
		}
	}
	if o.Header == nil {
		o.Header = []string{}
	}
	return o, raw, nil
}
