package main

// Reference model of the documented simbox rule semantics (docs/simbox-rules.md), independent of
// simbox.Add / SimDrive / SimReport: its own rule parser, its own object locator, its own tick loop
// around the real VM.Step (the "reference trace"), and a pure prediction of what a simulation run
// must inject, report (CSV) and show (stdout).

import (
	"fmt"
	"sort"
	"strconv"
	"strings"

	"github.com/BondMachineHQ/BondMachine/pkg/bondmachine"
)

// ---- rules ----------------------------------------------------------------------------------

type mrule struct {
	Timec  string // absolute relative onvalid onrecv onexit config
	Tick   uint64
	Action string // set get show config
	Object string
	Extra  string
	Src    string
}

// parseRule is the check's own reading of the documented grammar.
func parseRule(s string) (mrule, error) {
	w := strings.Split(s, ":")
	r := mrule{Src: s}
	bad := fmt.Errorf("not in the documented grammar: %q", s)
	if len(w) < 2 {
		return r, bad
	}
	switch w[0] {
	case "absolute", "relative":
		if len(w) != 4 && len(w) != 5 {
			return r, bad
		}
		t, err := strconv.Atoi(w[1])
		if err != nil {
			return r, bad
		}
		r.Timec, r.Tick, r.Action, r.Object = w[0], uint64(t), w[2], w[3]
		switch w[2] {
		case "set":
			if len(w) != 5 {
				return r, bad
			}
			r.Extra = w[4]
		case "get", "show":
			r.Extra = "unsigned"
			if len(w) == 5 {
				r.Extra = w[4]
			}
		default:
			return r, bad
		}
	case "onvalid", "onrecv", "onexit":
		if len(w) != 3 && len(w) != 4 {
			return r, bad
		}
		if w[1] != "get" && w[1] != "show" {
			return r, bad
		}
		r.Timec, r.Action, r.Object, r.Extra = w[0], w[1], w[2], "unsigned"
		if len(w) == 4 {
			r.Extra = w[3]
		}
	case "config":
		r.Timec, r.Action, r.Object = "config", "config", w[1]
		switch {
		case len(w) == 2 && simpleConfig[w[1]]:
		case len(w) == 3 && bulkConfig[w[1]]:
			r.Extra = w[2]
		default:
			return r, bad
		}
	default:
		return r, bad
	}
	return r, nil
}

var simpleConfig = map[string]bool{"show_pc": true, "show_instruction": true, "show_disasm": true, "show_ticks": true,
	"get_ticks": true, "show_proc_regs_pre": true, "show_proc_regs_post": true, "show_proc_io_pre": true,
	"show_proc_io_post": true, "show_io_pre": true, "show_io_post": true}
var bulkConfig = map[string]bool{"get_all": true, "get_all_internal": true, "show_all": true, "show_all_internal": true}

// kind names a rule class (used in signatures and coverage counters; never values or ticks).
func (r mrule) kind() string {
	switch r.Timec {
	case "absolute":
		return r.Action + "-absolute"
	case "relative":
		return r.Action + "-periodic"
	case "config":
		return "config-" + r.Object
	}
	return r.Action + "-" + r.Timec
}

// parseValue: the numeric literals used by the check's rule alphabets (decimal, 0x.., 0b..).
func parseValue(s string) (uint64, error) {
	switch {
	case strings.HasPrefix(s, "0x"):
		return strconv.ParseUint(s[2:], 16, 64)
	case strings.HasPrefix(s, "0b"):
		return strconv.ParseUint(s[2:], 2, 64)
	}
	return strconv.ParseUint(s, 10, 64)
}

// ---- reference trace ---------------------------------------------------------------------------

type setAct struct {
	Periodic bool   `json:"p,omitempty"`
	Tick     uint64 `json:"t"`
	Object   string `json:"o"`
	Value    uint64 `json:"v"`
	NoValid  bool   `json:"nv,omitempty"` // (attribution hypothesis only) the input's valid flag is not raised
}

type traceReq struct {
	Machine string   `json:"m"`
	Sets    []setAct `json:"s"`
	Ticks   int      `json:"n"`
	StopOn  int      `json:"stop"` // -1: run all ticks; k: the run ends when output k is seen valid
}

func (q traceReq) key() string {
	var p []string
	for _, s := range q.Sets {
		p = append(p, fmt.Sprintf("%v/%d/%s/%d/%v", s.Periodic, s.Tick, s.Object, s.Value, s.NoValid))
	}
	sort.Strings(p)
	return fmt.Sprintf("%s|%d|%d|%s", q.Machine, q.Ticks, q.StopOn, strings.Join(p, ","))
}

type snapshot struct {
	Val   map[string]uint64 `json:"v"`
	Valid map[string]bool   `json:"ok"`
	Recv  map[string]bool   `json:"rx"`
}

type trace struct {
	Snaps  []snapshot `json:"snaps"`   // state after the step of tick t (and after the output handshake)
	StopAt int        `json:"stop_at"` // tick at which the stop condition was seen (no step executed), -1 if none
	Err    string     `json:"err,omitempty"`
}

// locate is the check's own object locator (the names of the implementation's mnemonics).
func locate(vm *bondmachine.VM, name string) (get func() uint64, set func(uint64), ok bool) {
	u := func(p *interface{}) (func() uint64, func(uint64), bool) {
		return func() uint64 { return uint64((*p).(uint8)) }, func(v uint64) { *p = uint8(v) }, true
	}
	num := func(s string) (int, bool) {
		if s == "" {
			return 0, false
		}
		n, err := strconv.Atoi(s)
		return n, err == nil && n >= 0
	}
	switch {
	case strings.HasPrefix(name, "i"):
		if k, ok := num(name[1:]); ok && k < len(vm.Inputs_regs) {
			g, s, _ := u(&vm.Inputs_regs[k])
			return g, func(v uint64) { s(v); vm.InputsValid[k] = true }, true
		}
	case strings.HasPrefix(name, "o"):
		if k, ok := num(name[1:]); ok && k < len(vm.Outputs_regs) {
			return u(&vm.Outputs_regs[k])
		}
	case strings.HasPrefix(name, "p"):
		rest := name[1:]
		for _, c := range []string{"i", "o", "r"} {
			if x := strings.Index(rest, c); x > 0 {
				p, ok1 := num(rest[:x])
				j, ok2 := num(rest[x+1:])
				if !ok1 || !ok2 || p >= len(vm.Processors) {
					return nil, nil, false
				}
				pv := vm.Processors[p]
				switch c {
				case "i":
					if j < len(pv.Inputs) {
						return u(&pv.Inputs[j])
					}
				case "o":
					if j < len(pv.Outputs) {
						return u(&pv.Outputs[j])
					}
				case "r":
					if j < len(pv.Registers) {
						return u(&pv.Registers[j])
					}
				}
				return nil, nil, false
			}
		}
	}
	return nil, nil, false
}

func objectNames(bm *bondmachine.Bondmachine) []string {
	var n []string
	for i := 0; i < bm.Inputs; i++ {
		n = append(n, fmt.Sprintf("i%d", i))
	}
	for i := 0; i < bm.Outputs; i++ {
		n = append(n, fmt.Sprintf("o%d", i))
	}
	for p, d := range bm.Processors {
		m := bm.Domains[d]
		for j := 0; j < int(m.N); j++ {
			n = append(n, fmt.Sprintf("p%di%d", p, j))
		}
		for j := 0; j < int(m.M); j++ {
			n = append(n, fmt.Sprintf("p%do%d", p, j))
		}
		for j := 0; j < 1<<m.R; j++ {
			n = append(n, fmt.Sprintf("p%dr%d", p, j))
		}
	}
	return n
}

// runTrace steps a fresh VM under the documented meaning of the set actions. The handshake
// environment is the one of both simulation loops: an input whose recv flag is up loses its valid
// flag before the tick; after the tick every output's recv flag mirrors its valid flag.
// NOTE: Launch_processors leaks its goroutines; call only from short-lived worker processes.
func runTrace(bm *bondmachine.Bondmachine, q traceReq) (tr trace) {
	tr.StopAt = -1
	defer func() {
		if p := recover(); p != nil {
			tr.Err = fmt.Sprint("panic: ", p)
		}
	}()
	vm := &bondmachine.VM{Bmach: bm}
	if err := vm.Init(); err != nil {
		tr.Err = err.Error()
		return
	}
	if err := vm.Launch_processors(nil); err != nil {
		tr.Err = err.Error()
		return
	}
	names := objectNames(bm)
	for _, s := range q.Sets {
		if _, _, ok := locate(vm, s.Object); !ok {
			tr.Err = "no such object " + s.Object
			return
		}
	}
	for t := 0; t < q.Ticks; t++ {
		if q.StopOn >= 0 && vm.OutputsValid[q.StopOn] {
			tr.StopAt = t
			return
		}
		for i, r := range vm.InputsRecv {
			if r {
				vm.InputsValid[i] = false
			}
		}
		for _, s := range q.Sets {
			if (!s.Periodic && s.Tick == uint64(t)) || (s.Periodic && s.Tick != 0 && uint64(t)%s.Tick == 0) {
				_, set, _ := locate(vm, s.Object)
				if s.NoValid && strings.HasPrefix(s.Object, "i") {
					var k int
					fmt.Sscanf(s.Object, "i%d", &k)
					was := vm.InputsValid[k]
					set(s.Value)
					vm.InputsValid[k] = was
				} else {
					set(s.Value)
				}
			}
		}
		if _, err := vm.Step(nil); err != nil {
			tr.Err = err.Error()
			return
		}
		for i, v := range vm.OutputsValid {
			vm.OutputsRecv[i] = v
		}
		sn := snapshot{Val: map[string]uint64{}, Valid: map[string]bool{}, Recv: map[string]bool{}}
		for _, n := range names {
			g, _, _ := locate(vm, n)
			sn.Val[n] = g()
		}
		for i := range vm.InputsValid {
			sn.Valid[fmt.Sprintf("i%d", i)] = vm.InputsValid[i]
			sn.Recv[fmt.Sprintf("i%d", i)] = vm.InputsRecv[i]
		}
		for i := range vm.OutputsValid {
			sn.Valid[fmt.Sprintf("o%d", i)] = vm.OutputsValid[i]
			sn.Recv[fmt.Sprintf("o%d", i)] = vm.OutputsRecv[i]
		}
		tr.Snaps = append(tr.Snaps, sn)
	}
	return
}

// ---- prediction -------------------------------------------------------------------------------------

// hypotheses: deviations from the documented meaning, used only to ATTRIBUTE an observed mismatch to
// a root cause (a mismatch is always reported; the hypotheses choose the signature).
type hyp struct {
	PerSetIgnored   bool // periodic set rules have no effect
	OnRecvIgnored   bool // onrecv rules have no effect at all
	EventGetIgnored bool // onvalid/onexit get rules have a column but are never sampled
	ExitAtLimit     bool // onexit rules do not fire when the run ends by the interaction limit
	ShowAllIgnored  bool // config:show_all / show_all_internal print nothing
	SuspSetActive   bool // suspended set rules are applied as if active
	SuspRepActive   bool // suspended get/show/config rules are applied as if active
	NeedValidLost   bool // an absolute set on an input listed after a periodic set on the same input does not raise valid
}

const nHyp = 8

var hypNames = []string{"set-periodic|never-applied", "onrecv|never-fired", "event-get|never-reported",
	"onexit|not-fired-at-interaction-limit", "config-show_all|never-shown", "suspended-set|still-applied",
	"suspended-get-show|still-applied", "set-absolute|valid-not-raised-when-listed-after-periodic-set"}

func hypFromMask(m int) hyp {
	return hyp{m&1 != 0, m&2 != 0, m&4 != 0, m&8 != 0, m&16 != 0, m&32 != 0, m&64 != 0, m&128 != 0}
}

type simCase struct {
	Machine string   `json:"machine"`
	Rules   []string `json:"rules"`
	Susp    []bool   `json:"suspended"`
	Ticks   int      `json:"ticks"`
	StopOn  int      `json:"stop_on_valid_of"`
}

func (c simCase) String() string {
	var p []string
	for i, r := range c.Rules {
		if c.Susp[i] {
			p = append(p, r+" [SUSPENDED]")
		} else {
			p = append(p, r)
		}
	}
	stop := ""
	if c.StopOn >= 0 {
		stop = fmt.Sprintf(" -sim-stop-on-valid-of %d", c.StopOn)
	}
	return fmt.Sprintf("machine %s, %d ticks%s, rules [%s]", c.Machine, c.Ticks, stop, strings.Join(p, " ; "))
}

type machineInfo struct {
	Name   string
	BM     *bondmachine.Bondmachine
	AllExt []string // the objects of config:get_all / show_all (internal inputs then internal outputs)
	AllInt []string // additionally the registers (get_all_internal / show_all_internal)
}

func newMachineInfo(name string) (*machineInfo, error) {
	bm, err := buildMachine(name)
	if err != nil {
		return nil, err
	}
	mi := &machineInfo{Name: name, BM: bm}
	mi.AllExt = append(mi.AllExt, bm.List_internal_inputs()...)
	mi.AllExt = append(mi.AllExt, bm.List_internal_outputs()...)
	mi.AllInt = append([]string{}, mi.AllExt...)
	for p, d := range bm.Processors {
		for j := 0; j < 1<<bm.Domains[d].R; j++ {
			mi.AllInt = append(mi.AllInt, fmt.Sprintf("p%dr%d", p, j))
		}
	}
	return mi, nil
}

// activeRules applies the suspension mask (suspended = absent).
func (c simCase) activeRules(h hyp) ([]mrule, error) {
	var out []mrule
	for i, s := range c.Rules {
		r, err := parseRule(s)
		if err != nil {
			return nil, err
		}
		if c.Susp[i] && !((r.Action == "set" && h.SuspSetActive) || (r.Action != "set" && h.SuspRepActive)) {
			continue
		}
		out = append(out, r)
	}
	return out, nil
}

func (c simCase) traceReq(h hyp) (traceReq, error) {
	q := traceReq{Machine: c.Machine, Ticks: c.Ticks, StopOn: c.StopOn}
	rules, err := c.activeRules(h)
	if err != nil {
		return q, err
	}
	perSeen := map[string]bool{}
	for _, r := range rules {
		if r.Action != "set" {
			continue
		}
		if r.Timec == "relative" {
			perSeen[r.Object] = true
			if h.PerSetIgnored {
				continue
			}
		}
		v, err := parseValue(r.Extra)
		if err != nil {
			return q, err
		}
		q.Sets = append(q.Sets, setAct{Periodic: r.Timec == "relative", Tick: r.Tick, Object: r.Object, Value: v & 0xff,
			NoValid: h.NeedValidLost && r.Timec == "absolute" && perSeen[r.Object]})
	}
	return q, nil
}

// outcome: what a run must produce, in a normalised textual form (numbers in decimal).
//
//	Header: CSV header; Rows: CSV data rows; Out: stdout tokens: "T<n>" tick banner, "S:<v> <v>…" show line.
type outcome struct {
	Header []string   `json:"header"`
	Rows   [][]string `json:"rows"`
	Out    []string   `json:"out"`
	Abort  string     `json:"abort,omitempty"`
}

func (o outcome) equal(p outcome) bool {
	return o.Abort == p.Abort && strings.Join(o.Header, ",") == strings.Join(p.Header, ",") && rowsString(o.Rows) == rowsString(p.Rows) &&
		strings.Join(o.Out, "\n") == strings.Join(p.Out, "\n")
}

func rowsString(r [][]string) string {
	var s []string
	for _, x := range r {
		s = append(s, strings.Join(x, ","))
	}
	return strings.Join(s, "\n")
}

// firstDiff names the output channel of the first difference (class only).
func (o outcome) firstDiff(p outcome) (string, string) {
	if o.Abort != p.Abort {
		return "run-aborted", fmt.Sprintf("expected a complete run, got: %s", p.Abort)
	}
	if a, b := strings.Join(o.Header, ","), strings.Join(p.Header, ","); a != b {
		return "report-columns", fmt.Sprintf("report columns: expected [%s], got [%s]", a, b)
	}
	if a, b := rowsString(o.Rows), rowsString(p.Rows); a != b {
		return "report-rows", fmt.Sprintf("report rows: expected [%s], got [%s]", strings.ReplaceAll(a, "\n", " / "), strings.ReplaceAll(b, "\n", " / "))
	}
	return "shown-values", fmt.Sprintf("stdout: expected [%s], got [%s]", strings.Join(o.Out, " / "), strings.Join(p.Out, " / "))
}

// predict computes the documented outcome from the active rules and the reference trace.
// exitMerged selects one of the two acceptable renderings of onexit samples at the interaction
// limit: merged into the last tick's line/row, or as an additional final line/row.
func predict(mi *machineInfo, c simCase, h hyp, tr trace, exitMerged bool) (outcome, error) {
	var o outcome
	rules, err := c.activeRules(h)
	if err != nil {
		return o, err
	}
	if tr.Err != "" {
		return o, fmt.Errorf("reference trace: %s", tr.Err)
	}
	// columns (get) and showables (show): distinct objects in order of first appearance
	var cols, shows []string
	addTo := func(l *[]string, n string) {
		for _, x := range *l {
			if x == n {
				return
			}
		}
		*l = append(*l, n)
	}
	getTicks, showTicks, getAll, showAll := false, false, false, false
	for _, r := range rules {
		if r.Timec == "onrecv" && h.OnRecvIgnored {
			continue
		}
		switch r.Action {
		case "get":
			addTo(&cols, r.Object)
		case "show":
			addTo(&shows, r.Object)
		case "config":
			switch r.Object {
			case "get_ticks":
				getTicks = true
			case "show_ticks":
				showTicks = true
			case "get_all", "get_all_internal":
				getAll = true
				l := mi.AllExt
				if r.Object == "get_all_internal" {
					l = mi.AllInt
				}
				for _, n := range l {
					addTo(&cols, n)
				}
			case "show_all", "show_all_internal":
				l := mi.AllExt
				if r.Object == "show_all_internal" {
					l = mi.AllInt
				}
				for _, n := range l {
					addTo(&shows, n)
				}
				if !h.ShowAllIgnored {
					showAll = true
				}
			}
		}
	}
	idx := func(l []string, n string) int {
		for i, x := range l {
			if x == n {
				return i
			}
		}
		return -1
	}
	if getTicks {
		o.Header = append([]string{"tick"}, cols...)
	} else {
		o.Header = append([]string{}, cols...)
	}
	last := c.Ticks - 1
	nTicks := c.Ticks
	if tr.StopAt >= 0 {
		nTicks = tr.StopAt + 1 // the stop tick is a sampling-only tick
		last = tr.StopAt
	}
	zero := snapshot{Val: map[string]uint64{}, Valid: map[string]bool{}, Recv: map[string]bool{}}
	stateAt := func(t int) snapshot { // state visible to the samplers of tick t
		if tr.StopAt >= 0 && t == tr.StopAt {
			t--
		}
		if t < 0 {
			return zero
		}
		return tr.Snaps[t]
	}
	prevAt := func(t int) snapshot { // state visible to the samplers of the previous tick
		if tr.StopAt >= 0 && t == tr.StopAt {
			return stateAt(t) // no step happened: no edges
		}
		if t == 0 {
			return zero
		}
		return tr.Snaps[t-1]
	}
	emit := func(t int, cur snapshot, selGet, selShow map[int]bool, final bool) {
		if showTicks && !(tr.StopAt >= 0 && t == tr.StopAt) && !final {
			o.Out = append(o.Out, fmt.Sprintf("T%d", t))
		}
		if len(selShow) > 0 {
			var ks []int
			for k := range selShow {
				ks = append(ks, k)
			}
			sort.Ints(ks)
			var vs []string
			for _, k := range ks {
				vs = append(vs, strconv.FormatUint(cur.Val[shows[k]], 10))
			}
			o.Out = append(o.Out, "S:"+strings.Join(vs, " "))
		}
		if (getTicks && !final) || len(selGet) > 0 {
			row := make([]string, len(cols))
			for k := range selGet {
				row[k] = strconv.FormatUint(cur.Val[cols[k]], 10)
			}
			if getTicks {
				tk := ""
				if !final {
					tk = strconv.Itoa(t)
				}
				row = append([]string{tk}, row...)
			}
			o.Rows = append(o.Rows, row)
		}
	}
	for t := 0; t < nTicks; t++ {
		cur, prev := stateAt(t), prevAt(t)
		selGet, selShow := map[int]bool{}, map[int]bool{}
		ending := false // the simulation ends at this tick
		if tr.StopAt >= 0 && t == tr.StopAt {
			ending = true
		}
		if tr.StopAt < 0 && t == last && !h.ExitAtLimit && exitMerged {
			ending = true
		}
		for _, r := range rules {
			if r.Action != "get" && r.Action != "show" {
				continue
			}
			fire := false
			switch r.Timec {
			case "absolute":
				fire = r.Tick == uint64(t)
			case "relative":
				fire = r.Tick != 0 && uint64(t)%r.Tick == 0
			case "onvalid":
				fire = cur.Valid[r.Object] && !prev.Valid[r.Object]
			case "onrecv":
				fire = !h.OnRecvIgnored && cur.Recv[r.Object] && !prev.Recv[r.Object]
			case "onexit":
				fire = ending
			}
			if r.Action == "get" && (r.Timec == "onvalid" || r.Timec == "onexit" || r.Timec == "onrecv") && h.EventGetIgnored {
				fire = false
			}
			if !fire {
				continue
			}
			if r.Action == "get" {
				selGet[idx(cols, r.Object)] = true
			} else {
				selShow[idx(shows, r.Object)] = true
			}
		}
		if getAll {
			for k := range cols {
				selGet[k] = true
			}
		}
		if showAll {
			for k := range shows {
				selShow[k] = true
			}
		}
		emit(t, cur, selGet, selShow, false)
	}
	if tr.StopAt < 0 && !h.ExitAtLimit && !exitMerged && c.Ticks > 0 {
		// onexit samples as an additional final line / row
		selGet, selShow := map[int]bool{}, map[int]bool{}
		for _, r := range rules {
			if r.Timec != "onexit" {
				continue
			}
			if r.Action == "get" && !h.EventGetIgnored {
				selGet[idx(cols, r.Object)] = true
			}
			if r.Action == "show" {
				selShow[idx(shows, r.Object)] = true
			}
		}
		if len(selGet) > 0 || len(selShow) > 0 {
			emit(last, stateAt(last), selGet, selShow, true)
		}
	}
	return o, nil
}
