package main

// Part 3 — semantics. ALL rule lists up to a length bound over the rule alphabet x ALL suspension
// masks x the machines are compiled with the real compilers in-process; every distinct compiled form
// is executed by the real `bondmachine` CLI process; the observed stdout / report file is compared
// tick by tick with the prediction of the reference model for every rule list of the class.

import (
	"bufio"
	"encoding/json"
	"fmt"
	"os"
	"os/exec"
	"path/filepath"
	"runtime"
	"sort"
	"strings"
	"sync"
	"sync/atomic"
	"time"

	"verif/lib/vlib"
)

var alphabet = []string{
	"absolute:2:set:i0:42",
	"absolute:5:set:i0:0x07",
	"absolute:2:set:i1:9",
	"relative:4:set:i0:17",
	"relative:3:set:i1:3",
	"absolute:6:get:o0:unsigned",
	"relative:3:get:p0r0:hex",
	"relative:1:get:i0:unsigned",
	"absolute:6:show:o0:unsigned",
	"relative:2:show:p0r0:hex",
	"onvalid:show:o0:unsigned",
	"onvalid:get:o0:unsigned",
	"onexit:show:o0:unsigned",
	"onrecv:show:o0:unsigned",
	"config:get_ticks",
	"config:show_ticks",
	"config:get_all:unsigned",
	"config:show_all:unsigned",
}

// coreLen rules take part in the enumeration of all lists; the literal rules appended after them (one set rule per
// notation of the injected value: decimals with leading zeros, which stay decimal in the number grammar, hex,
// binary, the register maximum) are used alone and together with one observer each.
var coreLen = len(alphabet)

var literalValues = []string{"010", "0100", "007", "00017", "0089", "0b101", "0b00010001", "0x1f", "0xff", "255", "0", "00"}

func init() {
	for _, v := range literalValues {
		alphabet = append(alphabet, "absolute:2:set:i0:"+v)
	}
}

// lists one rule longer than the tier's bound are enumerated over this sub-alphabet (indices into alphabet)
var subAlphabet = []int{0, 3, 7, 10}

// ... and over the set rules alone (the same object set again after another object was introduced)
var setAlphabet = []int{0, 1, 2, 3, 4}

const subLen = 3

const simTicks = 12

type simMode struct {
	Machine string
	StopOn  int
}

var simModes = []simMode{{"pass", -1}, {"pass", 0}, {"count", -1}, {"two", -1}, {"three", -1}}

// ---- worker processes (reference traces, library path) ---------------------------------------------

type workerJob struct {
	Traces []traceReq `json:"traces,omitempty"`
	Lib    []libCase  `json:"lib,omitempty"`
}

type workerOut struct {
	Traces []trace     `json:"traces,omitempty"`
	Lib    []libResult `json:"lib,omitempty"`
}

func workerMain() {
	var job workerJob
	if err := json.NewDecoder(bufio.NewReader(os.Stdin)).Decode(&job); err != nil {
		fmt.Fprintln(os.Stderr, "worker: bad job:", err)
		os.Exit(2)
	}
	var out workerOut
	bms := map[string]*machineInfo{}
	get := func(n string) *machineInfo {
		if m, ok := bms[n]; ok {
			return m
		}
		m, err := newMachineInfo(n)
		if err != nil {
			fmt.Fprintln(os.Stderr, "worker:", err)
			os.Exit(2)
		}
		bms[n] = m
		return m
	}
	for _, q := range job.Traces {
		out.Traces = append(out.Traces, runTrace(get(q.Machine).BM, q))
	}
	for _, c := range job.Lib {
		out.Lib = append(out.Lib, runLib(get(c.Machine), c))
	}
	// the real loops may print; keep the protocol on a separate stream
	f := os.NewFile(3, "result")
	if f == nil {
		os.Exit(2)
	}
	json.NewEncoder(f).Encode(out)
	os.Exit(0)
}

func callWorker(job workerJob) (workerOut, error) {
	var out workerOut
	self, err := os.Executable()
	if err != nil {
		return out, err
	}
	r, w, err := os.Pipe()
	if err != nil {
		return out, err
	}
	cmd := exec.Command(self, "-c15worker")
	cmd.ExtraFiles = []*os.File{w}
	b, _ := json.Marshal(job)
	cmd.Stdin = strings.NewReader(string(b))
	cmd.Stdout = nil
	var se strings.Builder
	cmd.Stderr = &se
	if err := cmd.Start(); err != nil {
		return out, err
	}
	w.Close()
	derr := json.NewDecoder(bufio.NewReader(r)).Decode(&out)
	werr := cmd.Wait()
	r.Close()
	if werr != nil {
		return out, fmt.Errorf("worker failed: %v: %s", werr, se.String())
	}
	return out, derr
}

// ---- enumeration -------------------------------------------------------------------------------

func forAllLists(n, maxLen int, f func(idx []int)) {
	var rec func(cur []int)
	rec = func(cur []int) {
		f(cur)
		if len(cur) == maxLen {
			return
		}
		for i := 0; i < n; i++ {
			rec(append(cur, i))
		}
	}
	rec(nil)
}

type simClass struct {
	mode    simMode
	rep     simCase           // the case executed by the process (most suspended member)
	repSusp int               //
	members map[string]member // distinct ACTIVE lists (joined indices) compiled to the same form as rep
	cases   int
}

type member struct {
	active []int
	c      simCase // a concrete (list, mask) of the class with this active list (fewest suspended rules)
	nsusp  int
}

type semResult struct {
	cases, classes, runs, distinctOutcomes int
	compileChecks                          int
	capHit                                 string
	byKind                                 map[string]int
}

func listKey(idx []int) string {
	var b strings.Builder
	for _, i := range idx {
		fmt.Fprintf(&b, "%d,", i)
	}
	return b.String()
}

func setSubsets() [][]string {
	var sets []string
	for _, r := range alphabet {
		if m, _ := parseRule(r); m.Action == "set" {
			sets = append(sets, r)
		}
	}
	var out [][]string
	for m := 0; m < 1<<len(sets); m++ {
		var s []string
		for i := range sets {
			if m&(1<<i) != 0 {
				s = append(s, sets[i])
			}
		}
		out = append(out, s)
	}
	return out
}

type traceStore struct {
	mu sync.Mutex
	m  map[string]trace
}

func (ts *traceStore) get(q traceReq) (trace, bool) {
	ts.mu.Lock()
	defer ts.mu.Unlock()
	t, ok := ts.m[q.key()]
	return t, ok
}

// fetch computes the missing traces in a worker process.
func (ts *traceStore) fetch(qs []traceReq) error {
	var need []traceReq
	seen := map[string]bool{}
	ts.mu.Lock()
	for _, q := range qs {
		k := q.key()
		if _, ok := ts.m[k]; !ok && !seen[k] {
			seen[k] = true
			need = append(need, q)
		}
	}
	ts.mu.Unlock()
	if len(need) == 0 {
		return nil
	}
	out, err := callWorker(workerJob{Traces: need})
	if err != nil {
		return err
	}
	if len(out.Traces) != len(need) {
		return fmt.Errorf("worker returned %d traces for %d requests", len(out.Traces), len(need))
	}
	ts.mu.Lock()
	for i, q := range need {
		ts.m[q.key()] = out.Traces[i]
	}
	ts.mu.Unlock()
	return nil
}

func dedupSets(q traceReq) traceReq {
	seen := map[string]bool{}
	var s []setAct
	for _, a := range q.Sets {
		k := fmt.Sprintf("%v/%d/%s/%d/%v", a.Periodic, a.Tick, a.Object, a.Value, a.NoValid)
		if !seen[k] {
			seen[k] = true
			s = append(s, a)
		}
	}
	q.Sets = s
	return q
}

// expectedOutcomes: the acceptable documented outcomes of a case under a hypothesis.
func expectedOutcomes(mi *machineInfo, ts *traceStore, c simCase, h hyp) ([]outcome, error) {
	q, err := c.traceReq(h)
	if err != nil {
		return nil, err
	}
	q = dedupSets(q)
	tr, ok := ts.get(q)
	if !ok {
		if err := ts.fetch([]traceReq{q}); err != nil {
			return nil, err
		}
		tr, _ = ts.get(q)
	}
	a, err := predict(mi, c, h, tr, true)
	if err != nil {
		return nil, err
	}
	b, err := predict(mi, c, h, tr, false)
	if err != nil {
		return nil, err
	}
	if a.equal(b) {
		return []outcome{a}, nil
	}
	return []outcome{a, b}, nil
}

func matches(exp []outcome, got outcome) bool {
	for _, e := range exp {
		if e.equal(got) {
			return true
		}
	}
	return false
}

// relevantHyps: the hypotheses that can change the prediction of this case.
func relevantHyps(c simCase) []int {
	var out []int
	has := func(f func(r mrule, susp bool) bool) bool {
		for i, s := range c.Rules {
			r, _ := parseRule(s)
			if f(r, c.Susp[i]) {
				return true
			}
		}
		return false
	}
	if has(func(r mrule, s bool) bool { return r.Timec == "relative" && r.Action == "set" }) {
		out = append(out, 0)
	}
	if has(func(r mrule, s bool) bool { return r.Timec == "onrecv" }) {
		out = append(out, 1)
	}
	if has(func(r mrule, s bool) bool {
		return r.Action == "get" && (r.Timec == "onvalid" || r.Timec == "onexit" || r.Timec == "onrecv")
	}) {
		out = append(out, 2)
	}
	if has(func(r mrule, s bool) bool { return r.Timec == "onexit" }) {
		out = append(out, 3)
	}
	if has(func(r mrule, s bool) bool { return r.Object == "show_all" || r.Object == "show_all_internal" }) {
		out = append(out, 4)
	}
	if has(func(r mrule, s bool) bool { return s && r.Action == "set" }) {
		out = append(out, 5)
	}
	if has(func(r mrule, s bool) bool { return s && r.Action != "set" }) {
		out = append(out, 6)
	}
	per := map[string]bool{}
	for _, s := range c.Rules {
		r, _ := parseRule(s)
		if r.Action == "set" && r.Timec == "relative" {
			per[r.Object] = true
		}
		if r.Action == "set" && r.Timec == "absolute" && per[r.Object] {
			out = append(out, 7)
			break
		}
	}
	return out
}

// attribute finds the smallest set of hypotheses under which the documented model reproduces the
// observed outcome. nil, false: no explanation.
func attribute(mi *machineInfo, ts *traceStore, c simCase, got outcome) ([]int, bool) {
	rel := relevantHyps(c)
	n := len(rel)
	type cand struct {
		mask, size int
	}
	var cands []cand
	for m := 1; m < 1<<n; m++ {
		sz := 0
		for i := 0; i < n; i++ {
			if m&(1<<i) != 0 {
				sz++
			}
		}
		cands = append(cands, cand{m, sz})
	}
	sort.SliceStable(cands, func(i, j int) bool { return cands[i].size < cands[j].size })
	for _, cd := range cands {
		hm := 0
		var ids []int
		for i := 0; i < n; i++ {
			if cd.mask&(1<<i) != 0 {
				hm |= 1 << rel[i]
				ids = append(ids, rel[i])
			}
		}
		exp, err := expectedOutcomes(mi, ts, c, hypFromMask(hm))
		if err != nil {
			continue
		}
		if matches(exp, got) {
			return ids, true
		}
	}
	return nil, false
}

type simReplay struct {
	Loop string  `json:"loop"`
	Case simCase `json:"case"`
}

func activeKinds(c simCase) (sets, all []string) {
	ss, aa := map[string]bool{}, map[string]bool{}
	for i, s := range c.Rules {
		if c.Susp[i] {
			continue
		}
		r, _ := parseRule(s)
		aa[r.kind()] = true
		if r.Action == "set" {
			ss[r.kind()] = true
		}
	}
	for k := range ss {
		sets = append(sets, k)
	}
	for k := range aa {
		all = append(all, k)
	}
	sort.Strings(sets)
	sort.Strings(all)
	return
}

func isSubsequence(a, b []int) bool {
	i := 0
	for _, x := range b {
		if i < len(a) && a[i] == x {
			i++
		}
	}
	return i == len(a)
}

// judge compares an observed outcome with the documented one and reports. Returns false on mismatch.
func judge(run *vlib.Run, loop string, mi *machineInfo, ts *traceStore, c simCase, got outcome, minimal func() bool) bool {
	exp, err := expectedOutcomes(mi, ts, c, hyp{})
	if err != nil {
		infra(fmt.Sprintf("reference for %s: %v", c, err))
		return false
	}
	if matches(exp, got) {
		return true
	}
	class, detail := exp[0].firstDiff(got)
	if ids, ok := attribute(mi, ts, c, got); ok {
		for _, id := range ids {
			run.Report("C15|"+hypNames[id], fmt.Sprintf("[%s loop] %s: %s", loop, c, detail), simReplay{loop, c})
		}
		return false
	}
	if minimal != nil && !minimal() {
		return false
	}
	sets, all := activeKinds(c)
	blame := strings.Join(sets, "+")
	if blame == "" {
		blame = strings.Join(all, "+")
	}
	if blame == "" {
		blame = "no-active-rule"
	}
	run.Report("C15|"+loop+"|"+class+"|"+blame, fmt.Sprintf("%s: %s", c, detail), simReplay{loop, c})
	return false
}

func runSemantics(run *vlib.Run, scratch string, binCh <-chan string, binErr *error, maxLen int, deadline time.Time) semResult {
	res := semResult{byKind: map[string]int{}}
	workers := runtime.NumCPU()
	if workers > 16 {
		workers = 16
	}
	// 1. enumerate and compile in-process
	type modeData struct {
		mode    simMode
		mi      *machineInfo
		mjson   []byte
		classes map[string]*simClass
	}
	var mds []*modeData
	infos := map[string]*machineInfo{}
	for _, md := range simModes {
		mi, ok := infos[md.Machine]
		if !ok {
			var err error
			mi, err = newMachineInfo(md.Machine)
			if err != nil {
				infra("machine build: " + err.Error())
				return res
			}
			infos[md.Machine] = mi
		}
		mj, _ := machineJSON(mi.BM)
		mds = append(mds, &modeData{mode: md, mi: mi, mjson: mj, classes: map[string]*simClass{}})
	}
	var lists [][]int
	forAllLists(coreLen, maxLen, func(idx []int) { lists = append(lists, append([]int{}, idx...)) })
	for k := coreLen; k < len(alphabet); k++ {
		lists = append(lists, []int{k}, []int{k, 8}, []int{k, 10}, []int{k, 7})
	}
	if maxLen < subLen {
		// one more rule per list over a small sub-alphabet (set absolute / set periodic on the same input and two observers)
		for _, sub := range [][]int{subAlphabet, setAlphabet} {
			sub := sub
			forAllLists(len(sub), subLen, func(idx []int) {
				if len(idx) <= maxLen {
					return
				}
				var l []int
				for _, i := range idx {
					l = append(l, sub[i])
				}
				lists = append(lists, l)
			})
		}
	}
	var compileChecks int64
	for _, mi := range infos {
		// compile every (list, mask) of this machine; classes are shared by the modes of the machine
		type item struct {
			key     string
			c       simCase
			nsusp   int
			active  []int
			fp      string
			parts   [4]string
			aparts  [4]string
			hasSusp bool
			relD    [2]string // real, model
			relR    [3]string // real, model without / with onrecv
		}
		jobs := make(chan []int, 256)
		results := make(chan []item, 256)
		var wg sync.WaitGroup
		for w := 0; w < workers; w++ {
			wg.Add(1)
			go func() {
				defer wg.Done()
				cp, err := newCompiler(mi)
				if err != nil {
					return
				}
				for idx := range jobs {
					var out []item
					for mask := 0; mask < 1<<len(idx); mask++ {
						c := simCase{Machine: mi.Name, Ticks: simTicks, StopOn: -1}
						var active []int
						var arules []string
						ns := 0
						for i, a := range idx {
							c.Rules = append(c.Rules, alphabet[a])
							s := mask&(1<<i) != 0
							c.Susp = append(c.Susp, s)
							if s {
								ns++
							} else {
								active = append(active, a)
								arules = append(arules, alphabet[a])
							}
						}
						sb, err := buildSimbox(c.Rules, c.Susp)
						if err != nil {
							continue
						}
						it := item{c: c, nsusp: ns, active: active, hasSusp: ns > 0}
						it.parts = cp.compile(sb)
						it.fp = strings.Join(it.parts[:], "\n")
						if ns > 0 {
							asb, _ := buildSimbox(arules, make([]bool, len(arules)))
							it.aparts = cp.compile(asb)
						}
						var am []mrule
						for _, r := range arules {
							m, _ := parseRule(r)
							am = append(am, m)
						}
						it.relD[0], it.relR[0] = cp.relations(sb)
						it.relD[1], it.relR[1] = modelRelations(am)
						_, it.relR[2] = modelRelationsR(am, true)
						out = append(out, it)
					}
					results <- out
				}
			}()
		}
		go func() {
			for _, l := range lists {
				jobs <- l
			}
			close(jobs)
			wg.Wait()
			close(results)
		}()
		for out := range results {
			for _, it := range out {
				res.cases++
				atomic.AddInt64(&compileChecks, 1)
				if it.relD[0] != it.relD[1] {
					run.Report("C15|compile|simdrive|relation-differs", fmt.Sprintf("%s: SimDrive.Init compiled {%s}, the rules say {%s}", it.c,
						strings.ReplaceAll(it.relD[0], "\n", "; "), strings.ReplaceAll(it.relD[1], "\n", "; ")), simReplay{"compile", it.c})
				}
				if it.relR[0] != it.relR[1] && it.relR[0] != it.relR[2] {
					run.Report("C15|compile|simreport|relation-differs", fmt.Sprintf("%s: SimReport.Init compiled {%s}, the rules say {%s}", it.c,
						strings.ReplaceAll(it.relR[0], "\n", "; "), strings.ReplaceAll(it.relR[1], "\n", "; ")), simReplay{"compile", it.c})
				}
				if it.hasSusp {
					// suspended = absent, on the real compilers
					atomic.AddInt64(&compileChecks, 1)
					for p := 0; p < 4; p++ {
						if it.parts[p] != it.aparts[p] {
							run.Report("C15|compile|suspended-rule-compiled|"+compileParts[p],
								fmt.Sprintf("%s: the compiled %s differs from the one of the same list without the suspended rules: %q vs %q", it.c, compileParts[p], it.parts[p], it.aparts[p]),
								simReplay{"compile", it.c})
						}
					}
				}
				for _, md := range mds {
					if md.mi != mi {
						continue
					}
					cl, ok := md.classes[it.fp]
					if !ok {
						cl = &simClass{mode: md.mode, members: map[string]member{}, repSusp: -1}
						md.classes[it.fp] = cl
					}
					cl.cases++
					c := it.c
					c.StopOn = md.mode.StopOn
					better := it.nsusp > cl.repSusp
					if it.nsusp == cl.repSusp {
						better = strings.Join(c.Rules, ";")+fmt.Sprint(c.Susp) < strings.Join(cl.rep.Rules, ";")+fmt.Sprint(cl.rep.Susp)
					}
					if better {
						cl.rep, cl.repSusp = c, it.nsusp
					}
					if m, ok := cl.members[listKey(it.active)]; !ok || it.nsusp < m.nsusp {
						cl.members[listKey(it.active)] = member{it.active, c, it.nsusp}
					}
				}
			}
		}
	}
	res.compileChecks = int(compileChecks)
	res.cases = 0
	for _, md := range mds {
		for _, cl := range md.classes {
			res.cases += cl.cases
			res.classes++
		}
	}
	// 2. reference traces for every subset of the set rules, per mode (worker processes)
	ts := &traceStore{m: map[string]trace{}}
	{
		var wg sync.WaitGroup
		var ferr error
		var mu sync.Mutex
		for _, md := range mds {
			var qs []traceReq
			for _, sub := range setSubsets() {
				c := simCase{Machine: md.mode.Machine, Rules: sub, Susp: make([]bool, len(sub)), Ticks: simTicks, StopOn: md.mode.StopOn}
				q, err := c.traceReq(hyp{})
				if err == nil {
					qs = append(qs, dedupSets(q))
				}
			}
			wg.Add(1)
			go func(qs []traceReq) {
				defer wg.Done()
				if err := ts.fetch(qs); err != nil {
					mu.Lock()
					ferr = err
					mu.Unlock()
				}
			}(qs)
		}
		wg.Wait()
		if ferr != nil {
			infra("trace worker: " + ferr.Error())
			return res
		}
	}
	// 3. the real CLI, one process per class
	bin := <-binCh
	if bin == "" {
		buildFailed(cleanupScratch, *binErr)
		return res
	}
	type task struct {
		md *modeData
		cl *simClass
	}
	var tasks []task
	for _, md := range mds {
		var fps []string
		for fp := range md.classes {
			fps = append(fps, fp)
		}
		sort.Strings(fps)
		for _, fp := range fps {
			tasks = append(tasks, task{md, md.classes[fp]})
		}
	}
	// shortest lists first: minimal failing lists are judged before their extensions
	minLen := func(cl *simClass) int {
		m := 1 << 30
		for _, a := range cl.members {
			if len(a.active) < m {
				m = len(a.active)
			}
		}
		return m
	}
	// within a length: lists with an active set rule and an active observer first, modes interleaved
	score := func(cl *simClass) int {
		set, obs := false, false
		for i, r := range cl.rep.Rules {
			if cl.rep.Susp[i] {
				continue
			}
			if m, _ := parseRule(r); m.Action == "set" {
				set = true
			} else {
				obs = true
			}
		}
		switch {
		case set && obs:
			return 0
		case obs:
			return 1
		}
		return 2
	}
	sort.SliceStable(tasks, func(i, j int) bool {
		a, b := tasks[i].cl, tasks[j].cl
		if minLen(a) != minLen(b) {
			return minLen(a) < minLen(b)
		}
		return score(a) < score(b)
	})
	type obs struct {
		got outcome
		raw string
		err error
		ok  bool
	}
	observed := make([]obs, len(tasks))
	var next int64 = -1
	var wg sync.WaitGroup
	var capHit atomic.Value
	for w := 0; w < workers; w++ {
		wg.Add(1)
		go func(w int) {
			defer wg.Done()
			dir := filepath.Join(scratch, fmt.Sprintf("cli%d", w))
			os.MkdirAll(dir, 0o755)
			r := &cliRunner{bin: bin, dir: dir, timeout: 60 * time.Second}
			for {
				i := int(atomic.AddInt64(&next, 1))
				if i >= len(tasks) {
					return
				}
				if time.Now().After(deadline) {
					capHit.Store("deadline")
					return
				}
				got, raw, err := r.run(tasks[i].md.mjson, tasks[i].cl.rep)
				observed[i] = obs{got, raw, err, true}
			}
		}(w)
	}
	wg.Wait()
	if v := capHit.Load(); v != nil {
		res.capHit = v.(string)
	}
	// 4. judge every member of every class against the observation of its representative
	distinct := map[string]bool{}
	failing := map[string][][]int{} // per mode: active lists already reported as unexplained
	for i, t := range tasks {
		ob := observed[i]
		if !ob.ok {
			continue
		}
		res.runs++
		if ob.err != nil {
			infra(fmt.Sprintf("cli run of %s: %v", t.cl.rep, ob.err))
			continue
		}
		b, _ := json.Marshal(ob.got)
		distinct[string(b)] = true
		var keys []string
		for k := range t.cl.members {
			keys = append(keys, k)
		}
		sort.Strings(keys)
		mk := fmt.Sprint(t.md.mode)
		for _, k := range keys {
			active := t.cl.members[k].active
			c := t.cl.members[k].c
			// the member equal to the executed case is judged as executed
			if listKey(active) == listKey(activeOf(t.cl.rep)) {
				c = t.cl.rep
			}
			for _, s := range c.Rules {
				r, _ := parseRule(s)
				res.byKind[r.kind()]++
			}
			okc := judge(run, "cli", t.md.mi, ts, c, ob.got, func() bool {
				for _, f := range failing[mk] {
					if isSubsequence(f, active) {
						return false
					}
				}
				failing[mk] = append(failing[mk], active)
				return true
			})
			if okc && len(ob.got.Out) > 0 && len(ob.got.Rows) > 0 && res.runs%37 == 0 {
				run.Sample(map[string]any{"loop": "cli", "case": c.String(), "stdout": ob.got.Out, "report_header": ob.got.Header, "report_rows": len(ob.got.Rows)})
			}
		}
	}
	res.distinctOutcomes = len(distinct)
	return res
}

func activeOf(c simCase) []int {
	var out []int
	for i, r := range c.Rules {
		if c.Susp[i] {
			continue
		}
		for a, s := range alphabet {
			if s == r {
				out = append(out, a)
			}
		}
	}
	return out
}
