#!/bin/bash
# Detection demo for C15: four property-breaking edits applied to scratch COPIES of /repo files through
# VERIF_OVERLAY (never edits /repo). usage: checks/c15/mutants.sh [quick|thorough]
set -u
cd /verif && . /verif/env.sh
tier="${1:-quick}"
M=$(mktemp -d /tmp/c15mut.XXXXXX)
trap 'rm -rf "$M"' EXIT
mkdir -p $M/m1 $M/m2 $M/m3 $M/m4
cp /repo/pkg/bondmachine/vm.go $M/m1/vm.go
cp /repo/pkg/bondmachine/vm.go $M/m2/vm.go
cp /repo/pkg/simbox/simbox.go $M/m3/simbox.go
cp /repo/pkg/simbox/simbox.go $M/m4/simbox.go
python3 - "$M" <<'EOF'
import sys
M=sys.argv[1]
def edit(p, f):
    s=open(p).read(); t=f(s); assert t!=s, p; open(p,'w').write(t)
# m1: absolute set compiled one tick late (SimDrive.Init)
edit(M+'/m1/vm.go', lambda s: s.replace('if actOnTick, ok := absset[rule.Tick]; ok {','if actOnTick, ok := absset[rule.Tick+1]; ok {').replace('absset[rule.Tick] = actOnTick','absset[rule.Tick+1] = actOnTick'))
# m2: SimReport.Init does not skip suspended rules
def m2(s):
    i=s.index('func (sd *SimReport) Init('); j=s.index('if rule.Suspended {', i)
    return s[:j]+'if false && rule.Suspended {'+s[j+len('if rule.Suspended {'):]
edit(M+'/m2/vm.go', m2)
# m3: Rule.String drops the extra field of absolute get rules
edit(M+'/m3/simbox.go', lambda s: s.replace('":get:" + rule.Object + ":" + rule.Extra','":get:" + rule.Object',1))
# m4: Reactivate clears the flag of the wrong rule
edit(M+'/m4/simbox.go', lambda s: s.replace('r.Rules[idx].Suspended = false','r.Rules[len(r.Rules)-1-idx].Suspended = false'))
EOF
echo "{\"Replace\": {\"/repo/pkg/bondmachine/vm.go\": \"$M/m1/vm.go\"}}" > $M/m1/ov.json
echo "{\"Replace\": {\"/repo/pkg/bondmachine/vm.go\": \"$M/m2/vm.go\"}}" > $M/m2/ov.json
echo "{\"Replace\": {\"/repo/pkg/simbox/simbox.go\": \"$M/m3/simbox.go\"}}" > $M/m3/ov.json
echo "{\"Replace\": {\"/repo/pkg/simbox/simbox.go\": \"$M/m4/simbox.go\"}}" > $M/m4/ov.json
known='onexit|not-fired-at-interaction-limit\|config-show_all|never-shown\|onrecv|never-fired\|set-periodic|never-applied\|event-get|never-reported\|valid-not-raised-when-listed-after-periodic-set\|format-binary|run-aborted\|format-signed|run-aborted'
for m in m1 m2 m3 m4; do
  echo "=== mutant $m: signatures not seen on the unchanged tree"
  VERIF_OVERLAY=$M/$m/ov.json /verif/run.sh C15 "$tier" 2>&1 | grep "signature:\|BUILD-FAILED" | grep -v "$known" | sort -u
done
# the mutant runs leave replay files of mutant-only signatures and a mutant evidence file: regenerate with a normal run
