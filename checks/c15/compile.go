package main

// In-process use of the real rule compilers (SimConfig.Init, SimDrive.Init, SimReport.Init and the
// per-processor procbuilder.SimConfig.Init). None of them starts goroutines. The compiled form is
// rendered as a canonical text (pointers translated to object names): the simulation loops are a
// deterministic function of (machine, compiled form, flags), so one process run per distinct
// compiled form covers every rule list that compiles to it.

import (
	"fmt"
	"sort"
	"strings"

	"github.com/BondMachineHQ/BondMachine/pkg/bondmachine"
	"github.com/BondMachineHQ/BondMachine/pkg/procbuilder"
	"github.com/BondMachineHQ/BondMachine/pkg/simbox"
)

type compiler struct {
	mi    *machineInfo
	vm    *bondmachine.VM
	conf  *bondmachine.Config
	names map[*interface{}]string
	flags map[*bool]string
}

func newCompiler(mi *machineInfo) (*compiler, error) {
	c := &compiler{mi: mi, vm: &bondmachine.VM{Bmach: mi.BM}, conf: new(bondmachine.Config),
		names: map[*interface{}]string{}, flags: map[*bool]string{}}
	if err := c.vm.Init(); err != nil {
		return nil, err
	}
	vm := c.vm
	for i := range vm.Inputs_regs {
		c.names[&vm.Inputs_regs[i]] = fmt.Sprintf("i%d", i)
		c.flags[&vm.InputsValid[i]] = fmt.Sprintf("i%dv", i)
		c.flags[&vm.InputsRecv[i]] = fmt.Sprintf("i%dr", i)
	}
	for i := range vm.Outputs_regs {
		c.names[&vm.Outputs_regs[i]] = fmt.Sprintf("o%d", i)
		c.flags[&vm.OutputsValid[i]] = fmt.Sprintf("o%dv", i)
		c.flags[&vm.OutputsRecv[i]] = fmt.Sprintf("o%dr", i)
	}
	for p, pv := range vm.Processors {
		for j := range pv.Inputs {
			c.names[&pv.Inputs[j]] = fmt.Sprintf("p%di%d", p, j)
		}
		for j := range pv.Outputs {
			c.names[&pv.Outputs[j]] = fmt.Sprintf("p%do%d", p, j)
		}
		for j := range pv.Registers {
			c.names[&pv.Registers[j]] = fmt.Sprintf("p%dr%d", p, j)
		}
	}
	return c, nil
}

func (c *compiler) loc(p *interface{}) string {
	if n, ok := c.names[p]; ok {
		return n
	}
	if p != nil {
		if b, ok := (*p).(*bool); ok {
			if n, ok := c.flags[b]; ok {
				return n
			}
		}
	}
	return "?unknown-location"
}

func sortedKeys[V any](m map[uint64]V) []uint64 {
	var k []uint64
	for x := range m {
		k = append(k, x)
	}
	sort.Slice(k, func(i, j int) bool { return k[i] < k[j] })
	return k
}

func intKeys[V any](m map[int]V) []int {
	var k []int
	for x := range m {
		k = append(k, x)
	}
	sort.Ints(k)
	return k
}

// compile returns the canonical text of the four compiled structures, or the error/panic text.
func (c *compiler) compile(sb *simbox.Simbox) (parts [4]string) {
	guard := func(i int, f func() string) {
		defer func() {
			if p := recover(); p != nil {
				parts[i] = fmt.Sprint("panic: ", p)
			}
		}()
		parts[i] = f()
	}
	guard(0, func() string {
		sc := new(bondmachine.SimConfig)
		if err := sc.Init(sb, c.vm, c.conf); err != nil {
			return "error: " + err.Error()
		}
		return fmt.Sprintf("%+v", *sc)
	})
	guard(1, func() string {
		sd := new(bondmachine.SimDrive)
		if err := sd.Init(c.conf, sb, c.vm); err != nil {
			return "error: " + err.Error()
		}
		var b strings.Builder
		b.WriteString("inj[")
		for _, p := range sd.Injectables {
			b.WriteString(c.loc(p) + " ")
		}
		b.WriteString("] needvalid[")
		for _, k := range intKeys(sd.NeedValid) {
			fmt.Fprintf(&b, "%d>%d ", k, sd.NeedValid[k])
		}
		b.WriteString("] abs[")
		for _, t := range sortedKeys(sd.AbsSet) {
			for _, k := range intKeys(sd.AbsSet[t]) {
				fmt.Fprintf(&b, "%d:%d=%v ", t, k, sd.AbsSet[t][k])
			}
		}
		b.WriteString("] per[")
		for _, t := range sortedKeys(sd.PerSet) {
			for _, k := range intKeys(sd.PerSet[t]) {
				fmt.Fprintf(&b, "%d:%d=%v ", t, k, sd.PerSet[t][k])
			}
		}
		b.WriteString("]")
		return b.String()
	})
	guard(2, func() string {
		sr := new(bondmachine.SimReport)
		if err := sr.Init(sb, c.vm); err != nil {
			return "error: " + err.Error()
		}
		var b strings.Builder
		b.WriteString("rep[")
		for i, p := range sr.Reportables {
			fmt.Fprintf(&b, "%s/%s/%s ", c.loc(p), sr.ReportablesNames[i], sr.ReportablesTypes[i])
		}
		b.WriteString("] sho[")
		for i, p := range sr.Showables {
			fmt.Fprintf(&b, "%s/%s/%s ", c.loc(p), sr.ShowablesNames[i], sr.ShowablesTypes[i])
		}
		b.WriteString("] ev[")
		for _, p := range sr.EventData {
			b.WriteString(c.loc(p) + " ")
		}
		b.WriteString("] absget[")
		for _, t := range sortedKeys(sr.AbsGet) {
			fmt.Fprintf(&b, "%d:%v ", t, intKeys(sr.AbsGet[t]))
		}
		b.WriteString("] perget[")
		for _, t := range sortedKeys(sr.PerGet) {
			fmt.Fprintf(&b, "%d:%v ", t, intKeys(sr.PerGet[t]))
		}
		b.WriteString("] absshow[")
		for _, t := range sortedKeys(sr.AbsShow) {
			fmt.Fprintf(&b, "%d:%v ", t, intKeys(sr.AbsShow[t]))
		}
		b.WriteString("] pershow[")
		for _, t := range sortedKeys(sr.PerShow) {
			fmt.Fprintf(&b, "%d:%v ", t, intKeys(sr.PerShow[t]))
		}
		var eg, es []string
		for k, v := range sr.EventGet {
			eg = append(eg, fmt.Sprintf("%v=%v", k, v))
		}
		for k, v := range sr.EventShow {
			es = append(es, fmt.Sprintf("%v=%v", k, v))
		}
		sort.Strings(eg)
		sort.Strings(es)
		fmt.Fprintf(&b, "] evget%v evshow%v", eg, es)
		return b.String()
	})
	guard(3, func() string {
		var out []string
		for _, pv := range c.vm.Processors {
			psc := new(procbuilder.SimConfig)
			if err := psc.Init(sb, pv); err != nil {
				return "error: " + err.Error()
			}
			out = append(out, fmt.Sprintf("%+v", *psc))
		}
		return strings.Join(out, ";")
	})
	return
}

var compileParts = []string{"simconfig", "simdrive", "simreport", "procconfig"}

// relations: the semantic content of the compiled drive / report structures, as sorted relation
// lines ("abs <tick> <object>=<value>", "absget <tick> <object>", ...), from the REAL compilers.
func (c *compiler) relations(sb *simbox.Simbox) (drive, report string) {
	defer func() {
		if p := recover(); p != nil {
			drive, report = fmt.Sprint("panic: ", p), fmt.Sprint("panic: ", p)
		}
	}()
	sd := new(bondmachine.SimDrive)
	if err := sd.Init(c.conf, sb, c.vm); err != nil {
		drive = "error: " + err.Error()
	} else {
		var l []string
		for t, m := range sd.AbsSet {
			for k, v := range m {
				l = append(l, fmt.Sprintf("abs %d %s=%v", t, c.loc(sd.Injectables[k]), v))
			}
		}
		for t, m := range sd.PerSet {
			for k, v := range m {
				l = append(l, fmt.Sprintf("per %d %s=%v", t, c.loc(sd.Injectables[k]), v))
			}
		}
		// which valid flag is raised together with which injected object
		for k, idx := range sd.NeedValid {
			if k >= 0 && k < len(sd.Injectables) {
				l = append(l, fmt.Sprintf("valid %s i%d", c.loc(sd.Injectables[k]), idx))
			} else {
				l = append(l, fmt.Sprintf("valid <injectable %d out of range> i%d", k, idx))
			}
		}
		sort.Strings(l)
		drive = strings.Join(l, "\n")
	}
	sr := new(bondmachine.SimReport)
	if err := sr.Init(sb, c.vm); err != nil {
		report = "error: " + err.Error()
	} else {
		var l []string
		for t, m := range sr.AbsGet {
			for k := range m {
				l = append(l, fmt.Sprintf("absget %d %s", t, c.loc(sr.Reportables[k])))
			}
		}
		for t, m := range sr.PerGet {
			for k := range m {
				l = append(l, fmt.Sprintf("perget %d %s", t, c.loc(sr.Reportables[k])))
			}
		}
		for t, m := range sr.AbsShow {
			for k := range m {
				l = append(l, fmt.Sprintf("absshow %d %s", t, c.loc(sr.Showables[k])))
			}
		}
		for t, m := range sr.PerShow {
			for k := range m {
				l = append(l, fmt.Sprintf("pershow %d %s", t, c.loc(sr.Showables[k])))
			}
		}
		for ev, p := range sr.EventGet {
			l = append(l, fmt.Sprintf("evget %v %s", ev, c.loc(sr.Reportables[p[0]])))
		}
		for ev, p := range sr.EventShow {
			l = append(l, fmt.Sprintf("evshow %v %s", ev, c.loc(sr.Showables[p[0]])))
		}
		sort.Strings(l)
		report = strings.Join(l, "\n")
	}
	return
}

// modelRelations: the same relations read off the ACTIVE rules as written (documented meaning).
// withRecv: include the onrecv rules (an implementation without a compiled form for onrecv is
// accepted here; that defect is established by the process runs).
func modelRelations(rules []mrule) (drive, report string) {
	drive, report = modelRelationsR(rules, false)
	return
}

func modelRelationsR(rules []mrule, withRecv bool) (drive, report string) {
	var d, r []string
	abs := map[string]string{}
	firstSet := map[string]string{} // object -> time class of the first active set rule naming it
	for _, x := range rules {
		switch {
		case x.Action == "set":
			v, err := parseValue(x.Extra)
			if err != nil {
				continue
			}
			if _, seen := firstSet[x.Object]; !seen {
				firstSet[x.Object] = x.Timec
			}
			k := "abs"
			if x.Timec == "relative" {
				k = "per"
			}
			abs[fmt.Sprintf("%s %d %s", k, x.Tick, x.Object)] = fmt.Sprint(uint8(v)) // a later rule for the same tick and object wins
		case x.Action == "get" || x.Action == "show":
			switch x.Timec {
			case "absolute":
				r = append(r, fmt.Sprintf("abs%s %d %s", x.Action, x.Tick, x.Object))
			case "relative":
				r = append(r, fmt.Sprintf("per%s %d %s", x.Action, x.Tick, x.Object))
			case "onvalid":
				r = append(r, fmt.Sprintf("ev%s {%d %s} %s", x.Action, bondmachine.EVENTONVALID, x.Object, x.Object))
			case "onexit":
				r = append(r, fmt.Sprintf("ev%s {%d %s} %s", x.Action, bondmachine.EVENTONEXIT, x.Object, x.Object))
			case "onrecv":
				if withRecv {
					r = append(r, fmt.Sprintf("ev%s {%d %s} %s", x.Action, bondmachine.EVENTONRECV, x.Object, x.Object))
				}
			}
		}
	}
	for k, v := range abs {
		d = append(d, k+"="+v)
	}
	// setting an external input raises that input's valid flag. The implementation registers this only
	// when the FIRST set rule naming the input is an absolute one (recorded finding
	// C15|set-absolute|valid-not-raised-when-listed-after-periodic-set); the model follows it here so
	// that any other deviation of the valid mapping is a new signature.
	for obj, tc := range firstSet {
		if tc == "absolute" && len(obj) > 1 && obj[0] == 'i' && strings.Trim(obj[1:], "0123456789") == "" {
			d = append(d, fmt.Sprintf("valid %s %s", obj, obj))
		}
	}
	sort.Strings(d)
	sort.Strings(r)
	r = uniq(r)
	return strings.Join(d, "\n"), strings.Join(r, "\n")
}

func uniq(s []string) []string {
	var o []string
	for i, x := range s {
		if i == 0 || x != s[i-1] {
			o = append(o, x)
		}
	}
	return o
}
