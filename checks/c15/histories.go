package main

// Part 2 — model checking of rule-list histories: explicit-state BFS (engines/xs) over
// Add / Del / Suspend / Reactivate on the REAL simbox.Simbox in lock-step with a plain list model.

import (
	"encoding/json"
	"fmt"
	"strconv"
	"strings"
	"sync/atomic"

	"verif/engines/xs"
	"verif/lib/vlib"

	"github.com/BondMachineHQ/BondMachine/pkg/simbox"
)

// six representative rules (one per documented form) with their expected fields, and their printed form
var histRules = []struct {
	text  string
	print string
	want  simbox.Rule
}{
	{"absolute:2:set:i0:42", "absolute:2:set:i0:42", simbox.Rule{Timec: simbox.TIMEC_ABS, Tick: 2, Action: simbox.ACTION_SET, Object: "i0", Extra: "42"}},
	{"relative:3:get:o0", "relative:3:get:o0:unsigned", simbox.Rule{Timec: simbox.TIMEC_REL, Tick: 3, Action: simbox.ACTION_GET, Object: "o0", Extra: "unsigned"}},
	{"onvalid:show:o0:hex", "onvalid:show:o0:hex", simbox.Rule{Timec: simbox.TIMEC_ON_VALID, Action: simbox.ACTION_SHOW, Object: "o0", Extra: "hex"}},
	{"onexit:get:p0r0:signed", "onexit:get:p0r0:signed", simbox.Rule{Timec: simbox.TIMEC_ON_EXIT, Action: simbox.ACTION_GET, Object: "p0r0", Extra: "signed"}},
	{"config:show_ticks", "config:show_ticks", simbox.Rule{Timec: simbox.TIMEC_NONE, Action: simbox.ACTION_CONFIG, Object: "show_ticks"}},
	{"config:get_all:hex", "config:get_all:hex", simbox.Rule{Timec: simbox.TIMEC_NONE, Action: simbox.ACTION_CONFIG, Object: "get_all", Extra: "hex"}},
}

type hop struct {
	Kind string `json:"kind"` // add | add_invalid | del | suspend | reactivate
	Arg  int    `json:"arg"`
}

func (o hop) String() string {
	if o.Kind == "add" {
		return "Add(" + histRules[o.Arg].text + ")"
	}
	if o.Kind == "add_invalid" {
		return "Add(sometimes:1:get:o0)"
	}
	return fmt.Sprintf("%s(%d)", strings.Title(o.Kind), o.Arg)
}

// model: a plain list of (rule index, suspended)
type hent struct {
	rule int
	susp bool
}

// state encoding: e.g. "0,3s,5"
type hstate string

func hencode(l []hent) hstate {
	var p []string
	for _, e := range l {
		s := strconv.Itoa(e.rule)
		if e.susp {
			s += "s"
		}
		p = append(p, s)
	}
	return hstate(strings.Join(p, ","))
}

func hdecode(s hstate) []hent {
	if s == "" {
		return nil
	}
	var l []hent
	for _, x := range strings.Split(string(s), ",") {
		su := strings.HasSuffix(x, "s")
		n, _ := strconv.Atoi(strings.TrimSuffix(x, "s"))
		l = append(l, hent{n, su})
	}
	return l
}

// realOf rebuilds the implementation state of a model state through the real API
func realOf(l []hent) *simbox.Simbox {
	sb := &simbox.Simbox{Rules: make([]simbox.Rule, 0, len(l)+1)}
	for _, e := range l {
		r := histRules[e.rule].want
		r.Suspended = e.susp
		sb.Rules = append(sb.Rules, r)
	}
	return sb
}

func modelPrint(l []hent) string {
	var b strings.Builder
	for i, e := range l {
		fmt.Fprintf(&b, "%03d - %s", i, histRules[e.rule].print)
		if e.susp {
			b.WriteString(" [SUSPENDED]")
		}
		b.WriteString("\n")
	}
	return b.String()
}

func modelApply(l []hent, o hop) (out []hent, wantErr bool) {
	out = append([]hent{}, l...)
	switch o.Kind {
	case "add":
		return append(out, hent{o.Arg, false}), false
	case "add_invalid":
		return out, true
	case "del":
		if o.Arg >= len(out) {
			return out, true
		}
		return append(out[:o.Arg], out[o.Arg+1:]...), false
	case "suspend", "reactivate":
		if o.Arg >= len(out) {
			return out, true
		}
		out[o.Arg].susp = o.Kind == "suspend"
		return out, false
	}
	return out, true
}

func implApply(sb *simbox.Simbox, o hop) (err error, pan any) {
	defer func() {
		if p := recover(); p != nil {
			pan = p
		}
	}()
	switch o.Kind {
	case "add":
		err = sb.Add(histRules[o.Arg].text)
	case "add_invalid":
		err = sb.Add("sometimes:1:get:o0")
	case "del":
		err = sb.Del(o.Arg)
	case "suspend":
		err = sb.Suspend(o.Arg)
	case "reactivate":
		err = sb.Reactivate(o.Arg)
	}
	return
}

// agree: Rules, Print() text, suspension marks and the saved/loaded file equal the model's
func agree(sb *simbox.Simbox, l []hent) (string, string) {
	if len(sb.Rules) != len(l) {
		return "rule-count", fmt.Sprintf("%d rules, model has %d", len(sb.Rules), len(l))
	}
	for i, e := range l {
		w := histRules[e.rule].want
		w.Suspended = e.susp
		if sb.Rules[i] != w {
			if sb.Rules[i].Suspended != w.Suspended {
				return "suspension-mark", fmt.Sprintf("rule %d is %s, model %s", i, fr(sb.Rules[i]), fr(w))
			}
			return "rule-fields", fmt.Sprintf("rule %d is %s, model %s", i, fr(sb.Rules[i]), fr(w))
		}
	}
	if p := sb.Print(); p != modelPrint(l) {
		return "print-text", fmt.Sprintf("Print() = %q, model %q", p, modelPrint(l))
	}
	if d := jsonRoundTrip(sb); d != "" {
		return "save-load", d
	}
	return "", ""
}

func histOps(n int) []hop {
	var ops []hop
	for i := range histRules {
		ops = append(ops, hop{"add", i})
	}
	ops = append(ops, hop{"add_invalid", 0})
	for i := 0; i <= n; i++ { // i == n is the out-of-range index
		ops = append(ops, hop{"del", i}, hop{"suspend", i}, hop{"reactivate", i})
	}
	return ops
}

type histReplay struct {
	Ops []hop `json:"ops"`
}

func runHistories(run *vlib.Run, depth int) (states, transitions, traces, maxDepth int, exhaustive bool, capHit string, byKind map[string]int) {
	var ntr int64
	kinds := make([]int64, 5)
	kidx := map[string]int{"add": 0, "add_invalid": 1, "del": 2, "suspend": 3, "reactivate": 4}
	var ex *xs.Explorer[hstate]
	report := func(id int, o hop, class, detail string) {
		var ops []hop
		for _, l := range ex.Path(id) {
			var x hop
			json.Unmarshal([]byte(l), &x)
			ops = append(ops, x)
		}
		ops = append(ops, o)
		var names []string
		for _, x := range ops {
			names = append(names, x.String())
		}
		run.Report("C15|history|"+o.Kind+"|"+class, "after "+strings.Join(names, " ; ")+": "+detail, histReplay{ops})
	}
	ex = &xs.Explorer[hstate]{
		Key:       func(s hstate) string { return string(s) },
		MaxDepth:  depth,
		MaxStates: 4000000,
		Succ: func(id int, s hstate) []xs.Edge[hstate] {
			l := hdecode(s)
			var out []xs.Edge[hstate]
			for _, o := range histOps(len(l)) {
				sb := realOf(l)
				nl, wantErr := modelApply(l, o)
				err, pan := implApply(sb, o)
				atomic.AddInt64(&ntr, 1)
				atomic.AddInt64(&kinds[kidx[o.Kind]], 1)
				if pan != nil {
					report(id, o, "panic", fmt.Sprint(pan))
					continue
				}
				if wantErr && err == nil {
					report(id, o, "no-error", "an out-of-range index / undecodable rule was accepted")
					continue
				}
				if !wantErr && err != nil {
					report(id, o, "spurious-error", err.Error())
					continue
				}
				if c, d := agree(sb, nl); c != "" {
					if wantErr {
						c = "error-changed-state"
					}
					report(id, o, c, d)
					continue
				}
				if wantErr {
					continue
				}
				lb, _ := json.Marshal(o)
				out = append(out, xs.Edge[hstate]{Label: string(lb), Next: hencode(nl)})
			}
			return out
		},
	}
	ex.Run(hencode(nil))
	byKind = map[string]int{}
	for k, i := range kidx {
		byKind[k] = int(kinds[i])
	}
	return ex.States, ex.Transitions, int(ntr), ex.Depth, ex.Exhaustive(), ex.CapHit, byKind
}

func replayHistory(run *vlib.Run, rp histReplay) {
	var l []hent
	sb := new(simbox.Simbox)
	for i, o := range rp.Ops {
		nl, wantErr := modelApply(l, o)
		err, pan := implApply(sb, o)
		fmt.Printf("step %d %s: err=%v panic=%v\n%s", i, o, err, pan, sb.Print())
		if pan != nil {
			run.Report("C15|history|"+o.Kind+"|panic", fmt.Sprint(pan), rp)
			return
		}
		if wantErr != (err != nil) {
			run.Report("C15|history|"+o.Kind+"|error-mismatch", fmt.Sprintf("wantErr=%v err=%v", wantErr, err), rp)
			return
		}
		if c, d := agree(sb, nl); c != "" {
			run.Report("C15|history|"+o.Kind+"|"+c, d, rp)
			return
		}
		l = nl
	}
}
