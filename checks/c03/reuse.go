package main

// REUSE stage: an Arch is a plain value a caller may keep and edit (a sweep over opcode sets that keeps one
// architecture description, a struct copy embedded in a new Machine). The code of a line is a function of the
// architecture AS IT IS when the line is assembled: for every ordered pair (A, B) of same-size opcode sets from a small
// pool, an architecture object that has already assembled lines under A and then received B as its opcode list must
// assemble every line of B's universe exactly as a fresh architecture with B does (word or rejection), both when the
// object itself is edited and when a struct copy of it is.

import (
	"fmt"
	"sort"
	"strings"

	"github.com/BondMachineHQ/BondMachine/pkg/procbuilder"

	"verif/lib/bmgen"
)

func reuseStage(thorough bool) (n int, fails []failure) {
	pool := []string{"add", "inc", "rset", "sub", "xor"}
	if thorough {
		pool = append(pool, "cpy", "j")
	}
	var sets [][]string
	for size := 2; size <= 3; size++ {
		var rec func(start int, cur []string)
		rec = func(start int, cur []string) {
			if len(cur) == size {
				sets = append(sets, append([]string{}, cur...))
				return
			}
			for i := start; i < len(pool); i++ {
				rec(i+1, append(cur, pool[i]))
			}
		}
		rec(0, nil)
	}
	lines := func(ops []string) []string {
		var out []string
		for _, pn := range pool {
			out = append(out, pn+" r0 r1", pn+" r3 r1", pn+" r2 5", pn+" r1", pn+" 2")
		}
		_ = ops
		return out
	}
	mk := func(ops []string) *procbuilder.Machine {
		m, err := bmgen.NewMachine(bmgen.ArchSpec{Rsize: 8, R: 2, N: 1, M: 1, L: 1, O: 3, Ops: ops})
		if err != nil {
			panic(err)
		}
		return m
	}
	asm := func(a *procbuilder.Arch, l string) string {
		w, err := a.Assembler_process_line([]byte(l))
		if err != nil {
			return "rejected"
		}
		return w
	}
	seen := map[string]bool{}
	for _, A := range sets {
		for _, B := range sets {
			if len(A) != len(B) || strings.Join(A, ",") == strings.Join(B, ",") {
				continue
			}
			fresh := mk(B)
			for _, how := range []string{"edited", "copied"} {
				used := mk(A)
				for _, l := range lines(A) {
					asm(&used.Arch, l)
				}
				var arch *procbuilder.Arch
				if how == "edited" {
					used.Arch.Op = append([]procbuilder.Opcode{}, fresh.Arch.Op...)
					arch = &used.Arch
				} else {
					cp := used.Arch
					cp.Op = append([]procbuilder.Opcode{}, fresh.Arch.Op...)
					arch = &cp
				}
				for _, l := range lines(B) {
					n++
					want, got := asm(&fresh.Arch, l), asm(arch, l)
					if want != got {
						sig := "C03|reuse|assembly-depends-on-earlier-use-of-the-architecture-object|" + how
						if !seen[sig] {
							seen[sig] = true
							fails = append(fails, failure{sig, fmt.Sprintf("an architecture that assembled lines with opcodes %v and was then given the opcodes %v (%s) assembles `%s` to %s; a fresh architecture with %v gives %s", A, B, how, l, got, B, want),
								map[string]any{"reuse": map[string]any{"first": A, "then": B, "how": how, "line": l}}})
						}
					}
				}
			}
		}
	}
	sort.Slice(fails, func(i, j int) bool { return fails[i].sig < fails[j].sig })
	return
}
