// C03 — instruction encoding is a lossless, fixed-width, range-checked code.
// Exhaustive enumeration (no sampling) of instruction lines op × token^arity over a boundary token
// universe, for a grid of architectures, through the real Arch.Assembler_process_line /
// Machine.Disassembler. Grammar-free oracle: every accepted line must have the architecture's word
// width, disassemble to itself and re-assemble to the same word.
package main

import (
	"fmt"
	"math/big"
	"runtime"
	"sort"
	"strconv"
	"strings"
	"sync"

	"verif/lib/bmgen"
	"verif/lib/vlib"

	"github.com/BondMachineHQ/BondMachine/pkg/procbuilder"
)

type archCfg struct {
	Rsize, R, N, M, L, O, WordSize uint8
	Mode                           string
}

func (a archCfg) modes() []string {
	if a.Mode == "" {
		return []string{"ha"}
	}
	return []string{a.Mode}
}

func (a archCfg) String() string {
	return fmt.Sprintf("Rsize=%d R=%d N=%d M=%d L=%d O=%d W=%d mode=%s", a.Rsize, a.R, a.N, a.M, a.L, a.O, a.WordSize, a.modes()[0])
}

const sharedAll = "sharedmem:0x8,channel:,queue:4,stack:4,lfsr8:1,uart:x,kbd:,vtextmem:0:0:0:0:0,barrier:"

var shortNames = []string{"br", "ch", "k", "lfsr8", "q", "sh", "st", "u", "vtm"}

type token struct {
	Text  string
	Class string
}

func pow2(n uint) *big.Int { return new(big.Int).Lsh(big.NewInt(1), n) }

func universe(a archCfg) []token {
	var t []token
	seen := map[string]bool{}
	add := func(s, c string) {
		if !seen[s] {
			seen[s] = true
			t = append(t, token{s, c})
		}
	}
	nreg := 1 << a.R
	for _, i := range []int{0, 1, nreg - 1} {
		if i < nreg {
			add("r"+strconv.Itoa(i), "reg:ok")
		}
	}
	add("r"+strconv.Itoa(nreg), "reg:oor")
	add("r"+strconv.Itoa(nreg+1), "reg:oor")
	for _, i := range []int{0, int(a.N) - 1} {
		if i >= 0 && i < int(a.N) {
			add("i"+strconv.Itoa(i), "in:ok")
		}
	}
	add("i"+strconv.Itoa(int(a.N)), "in:oor")
	add("i"+strconv.Itoa(int(a.N)+1), "in:oor")
	for _, i := range []int{0, int(a.M) - 1} {
		if i >= 0 && i < int(a.M) {
			add("o"+strconv.Itoa(i), "out:ok")
		}
	}
	add("o"+strconv.Itoa(int(a.M)), "out:oor")
	add("o"+strconv.Itoa(int(a.M)+1), "out:oor")
	for _, sn := range shortNames {
		add(sn+"0", "so:ok")
		add(sn+"1", "so:oor")
	}
	// numbers
	minField := pow2(uint(a.Rsize))
	if o := pow2(uint(a.O)); o.Cmp(minField) < 0 {
		minField = o
	}
	if a.L > 0 {
		if l := pow2(uint(a.L)); l.Cmp(minField) < 0 {
			minField = l
		}
	}
	rs := pow2(uint(a.Rsize))
	var nums []*big.Int
	for _, k := range []int64{0, 1, 2, 3} {
		nums = append(nums, big.NewInt(k))
	}
	for _, e := range []uint{uint(a.L), uint(a.O), uint(a.Rsize) - 1, uint(a.Rsize)} {
		p := pow2(e)
		nums = append(nums, new(big.Int).Sub(p, big.NewInt(1)), p, new(big.Int).Add(p, big.NewInt(1)))
	}
	nums = append(nums, new(big.Int).Sub(pow2(64), big.NewInt(1)))
	for _, n := range nums {
		if n.Sign() < 0 || n.BitLen() > 64 {
			continue
		}
		c := "num:mid"
		if n.Cmp(minField) < 0 {
			c = "num:small"
		} else if n.Cmp(rs) >= 0 {
			c = "num:ge-2^Rsize"
		}
		add(n.String(), c)
	}
	add("-1", "junk")
	add("xyz", "junk")
	// names whose index is not a plain in-range number: signed, zero-padded, empty
	for _, pre := range []string{"r", "i", "o"} {
		add(pre+"-1", "junk")
		add(pre+"+1", "junk")
		add(pre+"01", "junk")
		add(pre, "junk")
	}
	for _, sn := range shortNames {
		add(sn+"-1", "junk")
	}
	return t
}

// badClasses reduces an operand-class tuple to the sorted set of out-of-range classes in it
// ("in-range" when every operand is in range): the part of the tuple a range check depends on.
func badClasses(classes []string) string {
	set := map[string]bool{}
	for _, c := range classes {
		switch c {
		case "reg:ok", "in:ok", "out:ok", "so:ok", "num:small":
		default:
			set[c] = true
		}
	}
	if len(set) == 0 {
		return "in-range"
	}
	var l []string
	for c := range set {
		l = append(l, c)
	}
	sort.Strings(l)
	return strings.Join(l, ",")
}

type result struct {
	lines, accepted, rejected, lenient int
	distinct                           map[string]bool // distinct accepted (op,classes)
	samples                            []string
}

type failure struct {
	sig, what string
	rp        map[string]any
}

func tokensEqual(a, b string) bool {
	if a == b {
		return true
	}
	x, ok1 := new(big.Int).SetString(a, 10)
	y, ok2 := new(big.Int).SetString(b, 10)
	return ok1 && ok2 && x.Cmp(y) == 0
}

func checkArch(a archCfg, ops []string, arity3 bool) (res result, fails []failure) {
	res.distinct = map[string]bool{}
	m, err := bmgen.NewMachine(bmgen.ArchSpec{Rsize: a.Rsize, R: a.R, N: a.N, M: a.M, L: a.L, O: a.O, Ops: ops, Shared: sharedAll, WordSize: a.WordSize, Modes: a.modes()})
	if err != nil {
		fails = append(fails, failure{"C03|harness|newmachine", err.Error(), nil})
		return
	}
	uni := universe(a)
	small := []token{}
	perClass := map[string]int{}
	for _, t := range uni {
		lim := 1
		if strings.HasPrefix(t.Class, "num:") || t.Class == "reg:ok" {
			lim = 2
		}
		if t.Class != "so:oor" && t.Class != "so:ok" && t.Class != "junk" && perClass[t.Class] < lim {
			perClass[t.Class]++
			small = append(small, t)
		}
	}
	maxw := m.Arch.Max_word()
	var okLines [][2]string // a few accepted (line, word) pairs for the whole-program oracle below
	tryLine := func(opname string, toks []token) {
		parts := []string{opname}
		classes := []string{}
		for _, t := range toks {
			parts = append(parts, t.Text)
			classes = append(classes, t.Class)
		}
		line := strings.Join(parts, " ")
		cls := badClasses(classes)
		res.lines++
		rp := map[string]any{"arch": a, "ops": ops, "line": line}
		fail := func(class, what string) {
			fails = append(fails, failure{"C03|" + opname + "|" + class + "|" + cls, fmt.Sprintf("[%s, %d opcodes] `%s`: %s", a, len(ops), line, what), rp})
		}
		var word string
		var aerr error
		func() {
			defer func() {
				if p := recover(); p != nil {
					aerr = fmt.Errorf("panic: %v", p)
					fail("asm-panic", fmt.Sprint(p))
				}
			}()
			word, aerr = m.Arch.Assembler_process_line([]byte(line))
		}()
		if aerr != nil {
			res.rejected++
			return
		}
		res.accepted++
		if len(word) != maxw {
			k := "word-too-long"
			if len(word) < maxw {
				k = "word-too-short"
			}
			fail(k, fmt.Sprintf("assembled word %q has %d bits, architecture word is %d", word, len(word), maxw))
			return
		}
		for _, c := range word {
			if c != '0' && c != '1' {
				fail("word-not-binary", word)
				return
			}
		}
		// disassemble
		var dis string
		var derr error
		func() {
			defer func() {
				if p := recover(); p != nil {
					derr = fmt.Errorf("panic: %v", p)
				}
			}()
			mm := *m
			mm.Program = procbuilder.Program{Slocs: []string{word}}
			dis, derr = mm.Disassembler()
		}()
		if derr != nil {
			fail("disasm-error", derr.Error())
			return
		}
		dtoks := strings.Fields(strings.ToLower(dis))
		ltoks := strings.Fields(strings.ToLower(line))
		if len(dtoks) < len(ltoks) {
			// fewer operands printed than given: either extra operands were ignored (lenient
			// arity, not judged) or the disassembler drops operands (judged when the arity is
			// the one the opcode documents via a shorter accepted line being rejected).
			prefixOK := true
			for i := range dtoks {
				if !tokensEqual(dtoks[i], ltoks[i]) {
					prefixOK = false
				}
			}
			if prefixOK {
				shorter := strings.Join(ltoks[:len(dtoks)], " ")
				if _, e := m.Arch.Assembler_process_line([]byte(shorter)); e == nil {
					res.lenient++
					return
				}
			}
			fail("disasm-drops-operands", fmt.Sprintf("disassembles to %q", strings.TrimSpace(dis)))
			return
		}
		same := len(dtoks) == len(ltoks)
		if same {
			for i := range dtoks {
				if !tokensEqual(dtoks[i], ltoks[i]) {
					same = false
				}
			}
		}
		if !same {
			sub := "value"
			for _, d := range dtoks {
				if strings.HasPrefix(d, "-") {
					sub = "negative-number-printed"
				}
			}
			fail("roundtrip-mismatch:"+sub, fmt.Sprintf("word %s disassembles to %q", word, strings.TrimSpace(dis)))
			return
		}
		w2, e2 := m.Arch.Assembler_process_line([]byte(strings.TrimSpace(dis)))
		if e2 != nil || w2 != word {
			fail("reassemble-mismatch", fmt.Sprintf("asm(disasm(%s)) = %q, %v", word, w2, e2))
			return
		}
		if len(okLines) < 6 && (len(okLines) == 0 || okLines[len(okLines)-1][1] != word) {
			okLines = append(okLines, [2]string{line, word})
		}
		key := opname + "|" + strings.Join(classes, ",")
		if !res.distinct[key] {
			res.distinct[key] = true
			if len(res.samples) < 3 {
				res.samples = append(res.samples, fmt.Sprintf("[%s] %s -> %s", a, line, word))
			}
		}
	}
	for _, op := range m.Op {
		n := op.Op_get_name()
		tryLine(n, nil)
		for _, t1 := range uni {
			tryLine(n, []token{t1})
			for _, t2 := range uni {
				tryLine(n, []token{t1, t2})
			}
		}
		if arity3 {
			for _, t1 := range small {
				for _, t2 := range small {
					for _, t3 := range small {
						tryLine(n, []token{t1, t2, t3})
					}
				}
			}
		}
	}
	// whole programs: Arch.Assembler on the accepted lines in every "layout" of comment lines and blank lines
	// (before, between, after the instructions, several in a row). The program is exactly the words of the
	// instruction lines, in order, each of the architecture's width, and it disassembles; text that does not fit
	// the code memory is an error, never a panic.
	capacity := 1 << a.O
	if a.Mode == "vn" || (a.Mode == "hy" && a.L > a.O) {
		capacity = 1 << a.L
	}
	for n := 1; n <= len(okLines) && n <= 4; n++ {
		for deco := 0; deco < 1<<uint(2*(n+1)); deco++ {
			// two bits per gap (before line 0 .. after the last line): 0 nothing, 1 comment, 2 blank line, 3 both
			var sb strings.Builder
			for g := 0; g <= n; g++ {
				switch deco >> uint(2*g) & 3 {
				case 1:
					sb.WriteString("# c\n")
				case 2:
					sb.WriteString("\n")
				case 3:
					sb.WriteString("# c\n\n")
				}
				if g < n {
					sb.WriteString(okLines[g][0] + "\n")
				}
			}
			text := sb.String()
			res.lines++
			var prog procbuilder.Program
			var perr error
			func() {
				defer func() {
					if p := recover(); p != nil {
						perr = fmt.Errorf("panic: %v", p)
						fails = append(fails, failure{"C03|program|asm-panic|layout", fmt.Sprintf("[%s, %d opcodes] Arch.Assembler panics on %q: %v", a, len(ops), text, p), map[string]any{"arch": a, "ops": ops, "program": text}})
					}
				}()
				prog, perr = m.Arch.Assembler([]byte(text))
			}()
			if perr != nil {
				if n <= capacity && !strings.HasPrefix(perr.Error(), "panic") {
					fails = append(fails, failure{"C03|program|rejected|layout", fmt.Sprintf("[%s, %d opcodes] Arch.Assembler rejects %q (%d instructions, %d locations): %v", a, len(ops), text, n, capacity, perr), map[string]any{"arch": a, "ops": ops, "program": text}})
				}
				continue
			}
			bad := len(prog.Slocs) != n
			for i := 0; !bad && i < n; i++ {
				bad = prog.Slocs[i] != okLines[i][1]
			}
			if bad {
				fails = append(fails, failure{"C03|program|words-differ-from-lines|layout", fmt.Sprintf("[%s, %d opcodes] Arch.Assembler(%q) gives %q, the %d instruction lines assemble to %q", a, len(ops), text, prog.Slocs, n, okLines[:n]), map[string]any{"arch": a, "ops": ops, "program": text}})
				continue
			}
			res.accepted++
		}
	}
	return
}

func main() {
	run := vlib.Start("C03", "exploration")
	var allOps []string
	for _, op := range procbuilder.Allopcodes {
		allOps = append(allOps, op.Op_get_name())
	}
	sort.Strings(allOps)
	dyn := []string{"rsets8", "rsets16", "call8", "stack4", "addfp_s8f4", "multfp_s8f4"}
	var dynOK []string
	for _, d := range dyn {
		if _, err := bmgen.OpByName(d); err == nil {
			dynOK = append(dynOK, d)
		}
	}
	if run.Replay != "" {
		var rp struct {
			Arch  archCfg        `json:"arch"`
			Ops   []string       `json:"ops"`
			Line  string         `json:"line"`
			Prog  string         `json:"program"`
			Reuse map[string]any `json:"reuse"`
		}
		if _, err := vlib.LoadReplay(run.Replay, &rp); err != nil {
			panic(err)
		}
		if rp.Reuse != nil {
			_, rf := reuseStage(true)
			for _, f := range rf {
				fmt.Println(f.sig, ":", f.what)
				run.Report(f.sig, f.what, f.rp)
			}
			run.Set("evaluations", 1)
			run.Finish()
			return
		}
		m, _ := bmgen.NewMachine(bmgen.ArchSpec{Rsize: rp.Arch.Rsize, R: rp.Arch.R, N: rp.Arch.N, M: rp.Arch.M, L: rp.Arch.L, O: rp.Arch.O, Ops: rp.Ops, Shared: sharedAll, WordSize: rp.Arch.WordSize, Modes: rp.Arch.modes()})
		if rp.Prog != "" {
			func() {
				defer func() {
					if p := recover(); p != nil {
						fmt.Printf("Arch.Assembler panics: %v\n", p)
					}
				}()
				prog, err := m.Arch.Assembler([]byte(rp.Prog))
				fmt.Printf("arch %s max_word=%d\nprogram %q -> words %q err=%v\n", rp.Arch, m.Arch.Max_word(), rp.Prog, prog.Slocs, err)
			}()
			return
		}
		w, err := m.Arch.Assembler_process_line([]byte(rp.Line))
		fmt.Printf("arch %s max_word=%d\nline %q -> word %q (len %d) err=%v\n", rp.Arch, m.Arch.Max_word(), rp.Line, w, len(w), err)
		if err == nil {
			mm := *m
			mm.Program = procbuilder.Program{Slocs: []string{w}}
			d, derr := mm.Disassembler()
			fmt.Printf("disasm -> %q err=%v\n", d, derr)
		}
		return
	}
	var archs []archCfg
	rsizes := []uint8{8, 64}
	rs := []uint8{1, 2}
	nms := [][2]uint8{{2, 3}}
	ls := []uint8{0, 3}
	os_ := []uint8{2}
	if run.Thorough() {
		rsizes = []uint8{8, 16, 32, 64}
		rs = []uint8{1, 2, 3}
		nms = [][2]uint8{{0, 0}, {1, 1}, {2, 3}, {3, 2}}
		ls = []uint8{0, 1, 3, 8}
		os_ = []uint8{1, 2, 4, 8}
	}
	for _, rsz := range rsizes {
		for _, r := range rs {
			for _, nm := range nms {
				for _, l := range ls {
					for _, o := range os_ {
						archs = append(archs, archCfg{rsz, r, nm[0], nm[1], l, o, 0, "ha"})
						if run.Thorough() && len(archs)%6 == 0 {
							archs = append(archs, archCfg{rsz, r, nm[0], nm[1], l, o, 0, "hy"}, archCfg{rsz, r, nm[0], nm[1], l, o, 0, "vn"})
						}
					}
				}
			}
		}
	}
	if !run.Thorough() {
		archs = append(archs, archCfg{8, 2, 1, 1, 3, 4, 0, "hy"}, archCfg{16, 1, 1, 1, 2, 3, 0, "vn"})
	}
	type job struct {
		a      archCfg
		ops    []string
		arity3 bool
	}
	var jobs []job
	for i, a := range archs {
		full := append(append([]string{}, allOps...), dynOK...)
		jobs = append(jobs, job{a, full, i%8 == 0})
		// word-size override (wider than needed) on a slice of the grid
		if i%4 == 1 {
			b := a
			mm, _ := bmgen.NewMachine(bmgen.ArchSpec{Rsize: a.Rsize, R: a.R, N: a.N, M: a.M, L: a.L, O: a.O, Ops: full, Shared: sharedAll, Modes: a.modes()})
			if w := mm.Arch.Max_word() + 3; w < 256 {
				b.WordSize = uint8(w)
				jobs = append(jobs, job{b, full, false})
			}
		}
	}
	// each opcode alone (changes opbits and Max_word) on two architectures; pairs in thorough
	aloneArchs := []archCfg{{8, 1, 1, 1, 0, 2, 0, "ha"}}
	if run.Thorough() {
		aloneArchs = append(aloneArchs, archCfg{16, 2, 2, 2, 3, 4, 0, "ha"}, archCfg{8, 2, 2, 2, 3, 4, 0, "hy"})
	}
	for _, a := range aloneArchs {
		for _, op := range append(append([]string{}, allOps...), dynOK...) {
			jobs = append(jobs, job{a, []string{op}, false})
			jobs = append(jobs, job{a, []string{op, "rset"}, false})
		}
	}
	var mu sync.Mutex
	distinct := map[string]bool{}
	var wg sync.WaitGroup
	ch := make(chan job)
	for w := 0; w < runtime.NumCPU(); w++ {
		wg.Add(1)
		go func() {
			defer wg.Done()
			for j := range ch {
				res, fails := checkArch(j.a, j.ops, j.arity3)
				mu.Lock()
				run.Add("evaluations", res.lines)
				run.Add("accepted", res.accepted)
				run.Add("rejected", res.rejected)
				run.Add("lenient_arity", res.lenient)
				for k := range res.distinct {
					distinct[k] = true
				}
				mu.Unlock()
				for _, s := range res.samples {
					run.Sample(s)
				}
				for _, f := range fails {
					run.Report(f.sig, f.what, f.rp)
				}
			}
		}()
	}
	for _, j := range jobs {
		ch <- j
	}
	close(ch)
	wg.Wait()
	rn, rfails := reuseStage(run.Thorough())
	for _, f := range rfails {
		run.Report(f.sig, f.what, f.rp)
	}
	run.Set("reuse_stage_lines", rn)
	run.Add("evaluations", rn)
	run.Set("distinct_nontrivial", len(distinct))
	run.Set("architectures", len(jobs))
	run.Set("rule", "every line op × token^k (k≤2, k=3 on a slice) over a boundary token universe (in-range and out-of-range registers, ports, shared objects, immediates at 2^L,2^O,2^Rsize boundaries, junk) for a grid of architectures; distinct_nontrivial = distinct (opcode, operand-class tuple) that assembled and passed width + disassemble + re-assemble")
	run.Set("exhaustive", true)
	run.Set("dynamic_opcodes", dynOK)
	run.Assume("extra operands silently ignored by an opcode's assembler (lenient arity) are not judged")
	run.Finish()
}
