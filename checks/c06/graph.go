package main

// The bounded universe of C06: fragment kinds, DAGs of fragment instances, partitions into CPs (with the order of
// the instances inside each block), input vectors, and the reference evaluation of the dataflow graph.

import (
	"fmt"
	"strings"
)

// ---- fragment kinds ------------------------------------------------------------------------------------------
// All kinds deliberately reuse the register names r0 / r1 (collapsing several instances on one CP therefore makes
// them share registers; only the composer's temporaries keep the values apart). Only opcodes whose Go simulation
// is faithful at 8 bit are used (inc, add, cpy: see /verif/checks/c01/coimpl.json).

type Kind struct {
	Name   string
	ResIn  []string
	ResOut []string
	Body   []string
	Eval   func(in []uint8) []uint8
}

var kinds = []Kind{
	{ // unary, inc-like
		Name: "inc1", ResIn: []string{"r0"}, ResOut: []string{"r0"},
		Body: []string{"inc r0"},
		Eval: func(in []uint8) []uint8 { return []uint8{in[0] + 1} },
	},
	{ // binary, add-like but NOT commutative (x+2y) so that swapped input indices are visible
		Name: "wsum", ResIn: []string{"r0", "r1"}, ResOut: []string{"r0"},
		Body: []string{"add r0, r1", "add r0, r1"},
		Eval: func(in []uint8) []uint8 { return []uint8{in[0] + 2*in[1]} },
	},
	{ // fan-out source: one input, two different outputs (x, x+1)
		Name: "dup", ResIn: []string{"r0"}, ResOut: []string{"r0", "r1"},
		Body: []string{"cpy r1, r0", "inc r1"},
		Eval: func(in []uint8) []uint8 { return []uint8{in[0], in[0] + 1} },
	},
	{ // unary with the input in r1, the output in r0 and an extra scratch register r3 (2x+1); r2 is deliberately
		// skipped: the registers used by a CP holding this fragment have a gap, so the first free register (r2)
		// is followed by a used one (r3) and temporaries cannot simply be numbered upwards from the first free one
		Name: "scr", ResIn: []string{"r1"}, ResOut: []string{"r0"},
		// (the jump to its own label makes the fragment carry a LABEL: two instances on one CP need distinct copies)
		Body: []string{"cpy r3, r1", "add r3, r1", "j scrl", "scrl:", "cpy r0, r3", "inc r0"},
		Eval: func(in []uint8) []uint8 { return []uint8{2*in[0] + 1} },
	},
	{ // constant generator: NO input, one output (5) in r0 — placed first on a CP it is the first code of the loop
		Name: "k5", ResIn: nil, ResOut: []string{"r0"},
		Body: []string{"rset r0, 5"},
		Eval: func(in []uint8) []uint8 { return []uint8{5} },
	},
}

// ---- graphs --------------------------------------------------------------------------------------------------

// Src names a value producer: Inst == -1 is external input number Port, otherwise output port Port of instance Inst.
type Src struct {
	Inst int `json:"inst"`
	Port int `json:"port"`
}

type Graph struct {
	Kinds  []int   `json:"kinds"`  // kind index per instance; instance i may only read from instances < i
	In     [][]Src `json:"in"`     // In[i][p] = producer feeding input port p of instance i
	NExtIn int     `json:"nextin"` // number of external inputs (all used)
	Outs   []Src   `json:"outs"`   // producer of each external output
	// Long: a long chain (size-boundary family). Its mappings are the chain on one CP, every cut into two contiguous
	// CPs and one instance per CP (all set partitions of 17 instances cannot be enumerated); its input vectors are
	// a fixed small set when it has more than 3 external inputs.
	Long bool `json:"long,omitempty"`
}

// longChains: chains of n one-input instances (n+1 registers / temporaries on one CP) and of k two-input adders
// (k+1 external inputs on one CP) around the sizes where register and port names get a second digit and where the
// register count crosses a power of two.
func longChains() []*Graph {
	var out []*Graph
	for _, n := range []int{9, 10, 11, 16, 17} {
		g := &Graph{NExtIn: 1, Long: true}
		for i := 0; i < n; i++ {
			g.Kinds = append(g.Kinds, 0)
			g.In = append(g.In, []Src{{i - 1, 0}})
		}
		g.Outs = []Src{{n - 1, 0}}
		out = append(out, g)
	}
	for _, k := range []int{9, 10, 11} {
		g := &Graph{NExtIn: k + 1, Long: true}
		for i := 0; i < k; i++ {
			g.Kinds = append(g.Kinds, 1)
			if i == 0 {
				g.In = append(g.In, []Src{{-1, 0}, {-1, 1}})
			} else {
				g.In = append(g.In, []Src{{i - 1, 0}, {-1, i + 1}})
			}
		}
		g.Outs = []Src{{k - 1, 0}}
		out = append(out, g)
	}
	return out
}

func (g *Graph) N() int { return len(g.Kinds) }

func (g *Graph) Key() string {
	var sb strings.Builder
	for i, k := range g.Kinds {
		fmt.Fprintf(&sb, "%s(", kinds[k].Name)
		for p, s := range g.In[i] {
			if p > 0 {
				sb.WriteByte(',')
			}
			sb.WriteString(srcStr(s))
		}
		sb.WriteString(");")
	}
	sb.WriteString("out=")
	for p, s := range g.Outs {
		if p > 0 {
			sb.WriteByte(',')
		}
		sb.WriteString(srcStr(s))
	}
	return sb.String()
}

func srcStr(s Src) string {
	if s.Inst < 0 {
		return fmt.Sprintf("e%d", s.Port)
	}
	return fmt.Sprintf("f%d.%d", s.Inst, s.Port)
}

// Eval is the reference: direct evaluation of the dataflow graph at 8 bit.
func (g *Graph) Eval(in []uint8) []uint8 {
	vals := make([][]uint8, g.N())
	get := func(s Src) uint8 {
		if s.Inst < 0 {
			return in[s.Port]
		}
		return vals[s.Inst][s.Port]
	}
	for i, k := range g.Kinds {
		a := make([]uint8, len(g.In[i]))
		for p, s := range g.In[i] {
			a[p] = get(s)
		}
		vals[i] = kinds[k].Eval(a)
	}
	out := make([]uint8, len(g.Outs))
	for p, s := range g.Outs {
		out[p] = get(s)
	}
	return out
}

// reach[i][j] == true when instance j depends (transitively) on instance i.
func (g *Graph) reach() [][]bool {
	n := g.N()
	r := make([][]bool, n)
	for i := range r {
		r[i] = make([]bool, n)
	}
	for j := 0; j < n; j++ {
		for _, s := range g.In[j] {
			if s.Inst >= 0 {
				r[s.Inst][j] = true
				for i := 0; i < n; i++ {
					if r[i][s.Inst] {
						r[i][j] = true
					}
				}
			}
		}
	}
	return r
}

// encode under a relabelling perm (perm[old] = new); returns "" when perm is not a topological relabelling.
func (g *Graph) encodePerm(perm []int) string {
	n := g.N()
	inv := make([]int, n)
	for o, nw := range perm {
		inv[nw] = o
	}
	var sb strings.Builder
	ren := func(s Src) (Src, bool) {
		if s.Inst < 0 {
			return s, true
		}
		return Src{perm[s.Inst], s.Port}, true
	}
	for nw := 0; nw < n; nw++ {
		o := inv[nw]
		fmt.Fprintf(&sb, "%d(", g.Kinds[o])
		for _, s := range g.In[o] {
			t, _ := ren(s)
			if t.Inst >= nw {
				return ""
			}
			fmt.Fprintf(&sb, "%d.%d,", t.Inst+1, t.Port)
		}
		sb.WriteByte(')')
	}
	sb.WriteByte('|')
	for _, s := range g.Outs {
		t, _ := ren(s)
		fmt.Fprintf(&sb, "%d.%d,", t.Inst+1, t.Port)
	}
	return sb.String()
}

func permutations(n int) [][]int {
	var res [][]int
	p := make([]int, n)
	used := make([]bool, n)
	var rec func(i int)
	rec = func(i int) {
		if i == n {
			res = append(res, append([]int(nil), p...))
			return
		}
		for v := 0; v < n; v++ {
			if !used[v] {
				used[v] = true
				p[i] = v
				rec(i + 1)
				used[v] = false
			}
		}
	}
	rec(0)
	return res
}

// isCanonical: the graph is the lexicographically smallest among its topological relabellings (one representative
// per isomorphism class of labelled DAGs; external input/output numbering is NOT quotiented).
func (g *Graph) isCanonical() bool {
	id := make([]int, g.N())
	for i := range id {
		id[i] = i
	}
	self := g.encodePerm(id)
	for _, p := range permutations(g.N()) {
		e := g.encodePerm(p)
		if e != "" && e < self {
			return false
		}
	}
	return true
}

type Bounds struct {
	MaxInst   int
	MaxExtIn  int
	MaxExtOut int
	MaxFanout int
	// restriction applied to graphs with exactly MaxInst instances when RestrictTop is set (keeps the thorough tier
	// inside its time budget): see enumerate.
	// UnaryExtra > 0: additionally all graphs with exactly UnaryExtra instances of the one-input one-output kinds
	// (one external input, one external output): the smallest graphs that can put TWO internally linked pairs on
	// two different CPs.
	UnaryExtra  int
	LongChains  bool // the size-boundary family, see longChains
	RestrictTop bool // at MaxInst instances: at most one two-input and one two-output fragment
	TopMaxOut   int  // at MaxInst instances: maximum number of external outputs (0 = MaxExtOut)
	TopMaxIn    int  // at MaxInst instances: maximum number of external inputs (0 = MaxExtIn)
}

// enumerate lists every graph of the bounded universe, smallest first (instances, then kinds, then wiring).
// Constraints: every input port is linked; every external input is used; every instance has at least one consumed
// output port; every producer port (external inputs included) feeds at most MaxFanout consumers.
func enumerate(b Bounds) []*Graph {
	var out []*Graph
	for n := 1; n <= b.MaxInst; n++ {
		kseq := make([]int, n)
		var recK func(i int)
		recK = func(i int) {
			if i == n {
				if b.RestrictTop && n == b.MaxInst && !topKindsAllowed(kseq) {
					return
				}
				for k := 1; k <= b.MaxExtIn; k++ {
					for m := 1; m <= b.MaxExtOut; m++ {
						if n == b.MaxInst && ((b.TopMaxOut > 0 && m > b.TopMaxOut) || (b.TopMaxIn > 0 && k > b.TopMaxIn)) {
							continue
						}
						out = append(out, wire(kseq, k, m, b)...)
					}
				}
				return
			}
			for k := range kinds {
				kseq[i] = k
				recK(i + 1)
			}
		}
		recK(0)
	}
	if n := b.UnaryExtra; n > b.MaxInst {
		var unary []int
		for k, kd := range kinds {
			if len(kd.ResIn) == 1 && len(kd.ResOut) == 1 {
				unary = append(unary, k)
			}
		}
		kseq := make([]int, n)
		var extra []*Graph
		var recU func(i int)
		recU = func(i int) {
			if i == n {
				extra = append(extra, wire(kseq, 1, 1, b)...)
				return
			}
			for _, k := range unary {
				kseq[i] = k
				recU(i + 1)
			}
		}
		recU(0)
		// explored first: a deadline cap on a loaded machine then cuts the tail of the 3-instance graphs, never this family
		out = append(extra, out...)
	}
	if b.LongChains {
		out = append(longChains(), out...)
	}
	return out
}

// topKindsAllowed: at the largest instance count of the thorough tier only kind multisets with at most one
// two-input fragment and at most one two-output fragment are enumerated (the others are covered up to size-1).
func topKindsAllowed(kseq []int) bool {
	nb, nd := 0, 0
	for _, k := range kseq {
		if len(kinds[k].ResIn) > 1 {
			nb++
		}
		if len(kinds[k].ResOut) > 1 {
			nd++
		}
	}
	return nb <= 1 && nd <= 1
}

func wire(kseq []int, nExtIn, nExtOut int, b Bounds) []*Graph {
	n := len(kseq)
	var res []*Graph
	// list of consumer slots: (instance, port) in order, then external outputs
	type slot struct{ inst, port int }
	var slots []slot
	for i, k := range kseq {
		for p := range kinds[k].ResIn {
			slots = append(slots, slot{i, p})
		}
	}
	for p := 0; p < nExtOut; p++ {
		slots = append(slots, slot{n, p})
	}
	fan := map[Src]int{}
	choice := make([]Src, len(slots))
	var rec func(si int)
	rec = func(si int) {
		if si == len(slots) {
			// all ext inputs used, all instances live
			for e := 0; e < nExtIn; e++ {
				if fan[Src{-1, e}] == 0 {
					return
				}
			}
			for i, k := range kseq {
				live := false
				for p := range kinds[k].ResOut {
					if fan[Src{i, p}] > 0 {
						live = true
					}
				}
				if !live {
					return
				}
			}
			g := &Graph{Kinds: append([]int(nil), kseq...), NExtIn: nExtIn}
			g.In = make([][]Src, n)
			for x, s := range slots {
				if s.inst < n {
					g.In[s.inst] = append(g.In[s.inst], choice[x])
				} else {
					g.Outs = append(g.Outs, choice[x])
				}
			}
			if g.isCanonical() {
				res = append(res, g)
			}
			return
		}
		s := slots[si]
		var cands []Src
		if s.inst < n {
			for e := 0; e < nExtIn; e++ {
				cands = append(cands, Src{-1, e})
			}
		}
		lim := s.inst
		if lim > n {
			lim = n
		}
		for i := 0; i < lim; i++ {
			for p := range kinds[kseq[i]].ResOut {
				cands = append(cands, Src{i, p})
			}
		}
		for _, c := range cands {
			if fan[c] >= b.MaxFanout {
				continue
			}
			fan[c]++
			choice[si] = c
			rec(si + 1)
			fan[c]--
		}
	}
	rec(0)
	return res
}

// ---- partitions and orders -------------------------------------------------------------------------------------

// Config is one mapping of the instances onto CPs: Blocks[b] is the fragcollapse list of CP b (in list order).
type Config struct {
	Blocks [][]int `json:"blocks"`
}

func (c Config) String() string {
	var parts []string
	for _, b := range c.Blocks {
		var s []string
		for _, i := range b {
			s = append(s, fmt.Sprintf("f%d", i))
		}
		parts = append(parts, strings.Join(s, ":"))
	}
	return strings.Join(parts, " | ")
}

// setPartitions of {0..n-1}; blocks ordered by their smallest element.
func setPartitions(n int) [][][]int {
	var res [][][]int
	assign := make([]int, n)
	var rec func(i, nb int)
	rec = func(i, nb int) {
		if i == n {
			blocks := make([][]int, nb)
			for e, b := range assign {
				blocks[b] = append(blocks[b], e)
			}
			res = append(res, blocks)
			return
		}
		for b := 0; b <= nb; b++ {
			assign[i] = b
			if b == nb {
				rec(i+1, nb+1)
			} else {
				rec(i+1, nb)
			}
		}
	}
	rec(0, 0)
	return res
}

// linearExtensions of a block under the reachability relation of the whole graph.
func linearExtensions(block []int, reach [][]bool) [][]int {
	var res [][]int
	used := make([]bool, len(block))
	cur := make([]int, 0, len(block))
	var rec func()
	rec = func() {
		if len(cur) == len(block) {
			res = append(res, append([]int(nil), cur...))
			return
		}
		for x, e := range block {
			if used[x] {
				continue
			}
			ok := true
			for y, f := range block {
				if !used[y] && y != x && reach[f][e] {
					ok = false // a predecessor of e is not placed yet
				}
			}
			if !ok {
				continue
			}
			used[x] = true
			cur = append(cur, e)
			rec()
			cur = cur[:len(cur)-1]
			used[x] = false
		}
	}
	rec()
	return res
}

// configs lists ALL set partitions x ALL topological orders inside each block.
func (g *Graph) configs() []Config {
	if g.Long {
		n := g.N()
		all := make([]int, n)
		for i := range all {
			all[i] = i
		}
		res := []Config{{Blocks: [][]int{all}}}
		for cut := 1; cut < n; cut++ {
			res = append(res, Config{Blocks: [][]int{append([]int(nil), all[:cut]...), append([]int(nil), all[cut:]...)}})
		}
		one := Config{}
		for i := range all {
			one.Blocks = append(one.Blocks, []int{i})
		}
		return append(res, one)
	}
	reach := g.reach()
	var res []Config
	for _, part := range setPartitions(g.N()) {
		exts := make([][][]int, len(part))
		for b, blk := range part {
			exts[b] = linearExtensions(blk, reach)
		}
		idx := make([]int, len(part))
		for {
			c := Config{Blocks: make([][]int, len(part))}
			for b := range part {
				c.Blocks[b] = exts[b][idx[b]]
			}
			res = append(res, c)
			k := len(part) - 1
			for k >= 0 {
				idx[k]++
				if idx[k] < len(exts[k]) {
					break
				}
				idx[k] = 0
				k--
			}
			if k < 0 {
				break
			}
		}
	}
	return res
}

// isTopological reports whether every block list respects the graph's dependency order.
func (g *Graph) isTopological(c Config) bool {
	reach := g.reach()
	for _, b := range c.Blocks {
		for x := 0; x < len(b); x++ {
			for y := x + 1; y < len(b); y++ {
				if reach[b[y]][b[x]] {
					return false
				}
			}
		}
	}
	return true
}

// ---- inputs ----------------------------------------------------------------------------------------------------

var inputValues = []uint8{0, 1, 2, 127, 255}

func inputVectors(k int) [][]uint8 {
	if k > 3 {
		// long chains: all inputs equal (one vector per value) plus a ramp and a reverse ramp
		var res [][]uint8
		for _, x := range inputValues {
			v := make([]uint8, k)
			for i := range v {
				v[i] = x
			}
			res = append(res, v)
		}
		up, down := make([]uint8, k), make([]uint8, k)
		for i := range up {
			up[i], down[i] = uint8(i+1), uint8(3*(k-i))
		}
		return append(res, up, down)
	}
	res := [][]uint8{{}}
	for i := 0; i < k; i++ {
		var nx [][]uint8
		for _, v := range res {
			for _, x := range inputValues {
				nx = append(nx, append(append([]uint8(nil), v...), x))
			}
		}
		res = nx
	}
	return res
}

// ---- BASM source -----------------------------------------------------------------------------------------------

// Source renders the graph + config as BASM text: fragments, fidef per instance, one filink per consumer slot
// (fan-out = several links attached to the same producer port), one cpdef ... fragcollapse list per block.
func (g *Graph) Source(c Config) string {
	var sb strings.Builder
	for _, k := range kinds {
		fmt.Fprintf(&sb, "%%fragment %s resin:%s resout:%s\n", k.Name, strings.Join(k.ResIn, ":"), strings.Join(k.ResOut, ":"))
		for _, l := range k.Body {
			sb.WriteString("\t" + l + "\n")
		}
		sb.WriteString("%endfragment\n")
	}
	sb.WriteString("\n")
	for i, k := range g.Kinds {
		fmt.Fprintf(&sb, "%%meta fidef f%d fragment:%s\n", i, kinds[k].Name)
	}
	type lk struct {
		from     Src
		toInst   int // N() = ext
		toPort   int
		linkName string
	}
	var links []lk
	for i := range g.Kinds {
		for p, s := range g.In[i] {
			links = append(links, lk{s, i, p, ""})
		}
	}
	for p, s := range g.Outs {
		links = append(links, lk{s, g.N(), p, ""})
	}
	for x := range links {
		links[x].linkName = fmt.Sprintf("l%d", x)
		fmt.Fprintf(&sb, "%%meta filinkdef %s type:fl\n", links[x].linkName)
	}
	for _, l := range links {
		if l.from.Inst < 0 {
			fmt.Fprintf(&sb, "%%meta filinkatt %s fi:ext, type:input, index:%d\n", l.linkName, l.from.Port)
		} else {
			fmt.Fprintf(&sb, "%%meta filinkatt %s fi:f%d, type:output, index:%d\n", l.linkName, l.from.Inst, l.from.Port)
		}
		if l.toInst == g.N() {
			fmt.Fprintf(&sb, "%%meta filinkatt %s fi:ext, type:output, index:%d\n", l.linkName, l.toPort)
		} else {
			fmt.Fprintf(&sb, "%%meta filinkatt %s fi:f%d, type:input, index:%d\n", l.linkName, l.toInst, l.toPort)
		}
	}
	for b, blk := range c.Blocks {
		var s []string
		for _, i := range blk {
			s = append(s, fmt.Sprintf("f%d", i))
		}
		fmt.Fprintf(&sb, "%%meta cpdef cp%d fragcollapse:%s\n", b, strings.Join(s, ":"))
	}
	sb.WriteString("%meta bmdef global registersize:8\n")
	return sb.String()
}
