// C06 — "Mapping a fragment graph onto more or fewer processors keeps its result".
//
// Bounded exhaustive exploration on the REAL code: for every DAG of fragment instances of the bounded universe
// (graph.go), for EVERY set partition of the instances into CPs and EVERY topological order of the instances
// inside each block (the `cpdef ... fragcollapse:` lists), for EVERY input vector of {0,1,2,127,255}^k, the BASM
// text is assembled through the public API (basm.BasmInstance: ParseAssemblyStringDefault, RunAssembler,
// Assembler2BondMachine) and the resulting BondMachine is executed on bondmachine.VM (iomode async, external inputs
// held constant, outputs read after the derived settle bound and required to stay unchanged over a further window).
// Oracles: (1) outputs == direct evaluation of the dataflow graph (8 bit wrap); (2) metamorphic: identical outputs
// across all partitions/orders of one graph.
//
// Every VM leaks its processor goroutines (property of another check), so the work is done in worker subprocesses
// (this binary re-executed with -child) that exit after a bounded batch.
package main

import (
	"bufio"
	"crypto/sha256"
	"encoding/hex"
	"encoding/json"
	"flag"
	"fmt"
	"os"
	"os/exec"
	"runtime"
	"runtime/pprof"
	"sort"
	"strings"
	"sync"
	"time"

	"verif/lib/vlib"
)

var (
	fChild  = flag.Bool("child", false, "worker mode (internal)")
	fLo     = flag.Int("lo", 0, "worker: first graph index")
	fHi     = flag.Int("hi", 0, "worker: one past the last graph index")
	fCFrom  = flag.Int("cfrom", 0, "worker: first config index of graph -lo")
	fOnly   = flag.String("only", "", "worker: comma list g:c of single configs to run instead of a range")
	fProbe  = flag.String("probe", "", "print source, assembled machine and results of graph:config (indices of the tier's enumeration)")
	fBench  = flag.Int("bench", 0, "run about N configurations in-process and print the time (development aid)")
	fCount  = flag.Bool("count", false, "only enumerate and print the size of the universe")
	fWorker = flag.Int("workers", 0, "number of worker subprocesses (default: min(12, NumCPU-2))")
)

func boundsFor(thorough bool) Bounds {
	if v := os.Getenv("C06_BOUNDS"); v != "" { // development aid: "inst,restrict,topout,topin"
		var b Bounds
		var r int
		fmt.Sscanf(v, "%d,%d,%d,%d", &b.MaxInst, &r, &b.TopMaxOut, &b.TopMaxIn)
		b.MaxExtIn, b.MaxExtOut, b.MaxFanout, b.RestrictTop = 2, 2, 2, r == 1
		return b
	}
	if thorough {
		// all graphs with <= 3 instances; 4 instances: <= 1 two-input and <= 1 two-output fragment, one external output
		return Bounds{MaxInst: 4, MaxExtIn: 2, MaxExtOut: 2, MaxFanout: 2, RestrictTop: true, TopMaxOut: 1, LongChains: true}
	}
	// all graphs with <= 2 instances; 3 instances: one external output
	// plus every graph of 4 one-input one-output instances
	return Bounds{MaxInst: 3, MaxExtIn: 2, MaxExtOut: 2, MaxFanout: 2, TopMaxOut: 1, UnaryExtra: 4, LongChains: true}
}

// ---- worker protocol ---------------------------------------------------------------------------------------------

type cfgResult struct {
	G, C       int
	Start      bool    `json:",omitempty"` // progress marker written before the config is touched
	Class      string  `json:",omitempty"` // "" = both oracles passed on every input
	Stage      string  `json:",omitempty"`
	Err        string  `json:",omitempty"`
	Evals      int     `json:",omitempty"`
	NonTrivial bool    `json:",omitempty"`
	NBad       int     `json:",omitempty"`
	BadIn      []uint8 `json:",omitempty"`
	Got        []uint8 `json:",omitempty"`
	Want       []uint8 `json:",omitempty"`
	OutHash    string  `json:",omitempty"` // hash of the outputs over all input vectors (metamorphic oracle)
	DumpHash   string  `json:",omitempty"` // hash of the assembled machine
	Done       bool    `json:",omitempty"` // worker finished its range
}

func hashOf(s string) string {
	h := sha256.Sum256([]byte(s))
	return hex.EncodeToString(h[:8])
}

// runConfig executes one (graph, config) on the real code for all input vectors.
func runConfig(g *Graph, c Config) (r cfgResult, dump string) {
	src := g.Source(c)
	b, stage, errText, panicked := assemble(src)
	if panicked {
		r.Class, r.Stage, r.Err = "assembler-panic", stage, errText
		return
	}
	if b == nil {
		r.Class, r.Stage, r.Err = "reject", stage, errText
		return
	}
	dump = b.dump
	r.DumpHash = hashOf(b.dump)
	var all strings.Builder
	for _, in := range inputVectors(g.NExtIn) {
		want := g.Eval(in)
		s := simulate(b, g.N(), in, len(g.Outs))
		r.Evals++
		bad := ""
		switch {
		case s.WrongArty != "":
			bad, r.Err = "wrong-arity", s.WrongArty
		case s.Panicked:
			bad, r.Err = "simulator-panic", s.Err
		case s.Err != "":
			bad, r.Err = "simulator-error", s.Err
		case !s.Settled:
			bad = "no-convergence"
		default:
			fmt.Fprintf(&all, "%v;", s.Out)
			for i := range want {
				if s.Out[i] != want[i] {
					bad = "wrong-result"
				}
			}
			if bad == "" {
				for _, v := range s.Out {
					if v != 0 {
						r.NonTrivial = true
					}
				}
			}
		}
		if bad != "" {
			r.NBad++
			if r.Class == "" {
				r.Class = bad
				r.BadIn, r.Got, r.Want = in, s.Out, want
			}
			if bad == "wrong-arity" || bad == "simulator-panic" || bad == "simulator-error" {
				break // same for every input
			}
		}
	}
	r.OutHash = hashOf(all.String())
	if r.Class != "" {
		r.NonTrivial = false
	}
	return
}

// childMain: the parent sends the graphs of the job on stdin as a JSON object {index: graph}.
func childMain() {
	graphs := map[int]*Graph{}
	if err := json.NewDecoder(bufio.NewReader(os.Stdin)).Decode(&graphs); err != nil {
		fmt.Fprintln(os.Stderr, "worker: cannot read graphs:", err)
		os.Exit(3)
	}
	out := os.NewFile(3, "results")
	if out == nil {
		fmt.Fprintln(os.Stderr, "worker: fd 3 missing")
		os.Exit(3)
	}
	w := bufio.NewWriter(out)
	enc := json.NewEncoder(w)
	silence()
	emit := func(r cfgResult) {
		enc.Encode(r)
		w.Flush()
	}
	type job struct{ g, c int }
	var jobs []job
	if *fOnly != "" {
		for _, p := range strings.Split(*fOnly, ",") {
			var j job
			fmt.Sscanf(p, "%d:%d", &j.g, &j.c)
			jobs = append(jobs, j)
		}
	} else {
		for gi := *fLo; gi < *fHi; gi++ {
			if graphs[gi] == nil {
				continue
			}
			cfgs := graphs[gi].configs()
			from := 0
			if gi == *fLo {
				from = *fCFrom
			}
			for ci := from; ci < len(cfgs); ci++ {
				jobs = append(jobs, job{gi, ci})
			}
		}
	}
	var lastG = -1
	var cfgs []Config
	for _, j := range jobs {
		if j.g != lastG {
			cfgs = graphs[j.g].configs()
			lastG = j.g
		}
		emit(cfgResult{G: j.g, C: j.c, Start: true})
		r, _ := runConfig(graphs[j.g], cfgs[j.c])
		r.G, r.C = j.g, j.c
		emit(r)
	}
	emit(cfgResult{Done: true})
	os.Exit(0)
}

// spawn runs one worker and streams its results to sink. It returns the last started-but-unfinished config (if the
// worker died or hung) and whether the worker completed.
func spawn(tier string, gs map[int]*Graph, args []string, sink func(cfgResult), hangLimit time.Duration) (pending *cfgResult, completed bool, note string) {
	self, _ := os.Executable()
	pr, pw, err := os.Pipe()
	if err != nil {
		return nil, false, err.Error()
	}
	cmd := exec.Command(self, append([]string{"-child", "-tier", tier}, args...)...)
	cmd.ExtraFiles = []*os.File{pw}
	cmd.Stdout = nil
	gj, _ := json.Marshal(gs)
	cmd.Stdin = strings.NewReader(string(gj))
	var errb strings.Builder
	cmd.Stderr = &limitedWriter{b: &errb, max: 4000}
	procs := "2"
	if v := os.Getenv("C06_CHILD_PROCS"); v != "" { // development aid
		procs = v
	}
	cmd.Env = append(os.Environ(), "GOMAXPROCS="+procs, "GOGC=1600", "GOMEMLIMIT=2GiB")
	if err := cmd.Start(); err != nil {
		pw.Close()
		pr.Close()
		return nil, false, err.Error()
	}
	pw.Close()
	lines := make(chan cfgResult, 64)
	go func() {
		sc := bufio.NewScanner(pr)
		sc.Buffer(make([]byte, 1<<20), 1<<24)
		for sc.Scan() {
			var r cfgResult
			if json.Unmarshal(sc.Bytes(), &r) == nil {
				lines <- r
			}
		}
		close(lines)
	}()
	timer := time.NewTimer(hangLimit)
	defer timer.Stop()
loop:
	for {
		select {
		case r, ok := <-lines:
			if !ok {
				break loop
			}
			if !timer.Stop() {
				select {
				case <-timer.C:
				default:
				}
			}
			timer.Reset(hangLimit)
			switch {
			case r.Done:
				completed = true
			case r.Start:
				rr := r
				pending = &rr
			default:
				pending = nil
				sink(r)
			}
		case <-timer.C:
			cmd.Process.Kill()
			note = "hang"
			for range lines {
			}
			break loop
		}
	}
	err = cmd.Wait()
	pr.Close()
	if !completed && note == "" {
		note = fmt.Sprintf("worker died: %v: %s", err, lastLines(errb.String(), 12))
	}
	return
}

type limitedWriter struct {
	b   *strings.Builder
	max int
}

func (l *limitedWriter) Write(p []byte) (int, error) {
	// keep the head (panic message) of the stream
	if l.b.Len() < l.max {
		room := l.max - l.b.Len()
		if room > len(p) {
			room = len(p)
		}
		l.b.Write(p[:room])
	}
	return len(p), nil
}

func lastLines(s string, n int) string {
	ls := strings.Split(strings.TrimSpace(s), "\n")
	if len(ls) > n {
		ls = ls[:n]
	}
	return strings.Join(ls, " / ")
}

// ---- parent -------------------------------------------------------------------------------------------------------

type replayCase struct {
	Graph  *Graph `json:"graph"`
	Config Config `json:"config"`
	Input  []int  `json:"first_failing_input,omitempty"`
	Source string `json:"source"`
}

func main() {
	run := vlib.Start("C06", "exploration")
	b := boundsFor(run.Thorough())

	if run.Replay != "" {
		replay(run)
		return
	}
	if *fChild {
		childMain()
		return
	}
	graphs := enumerate(b)
	if *fBench > 0 {
		if pf := os.Getenv("C06_PROF"); pf != "" {
			f, _ := os.Create(pf)
			pprof.StartCPUProfile(f)
			defer pprof.StopCPUProfile()
		}
		restore := silence()
		t0 := time.Now()
		n, ev := 0, 0
		for gi := len(graphs) - 1; gi >= 0 && n < *fBench; gi -= 37 {
			for _, c := range graphs[gi].configs() {
				r, _ := runConfig(graphs[gi], c)
				n++
				ev += r.Evals
			}
		}
		restore()
		fmt.Printf("bench: %d configs %d evaluations in %v\n", n, ev, time.Since(t0))
		return
	}
	if *fCount {
		countUniverse(graphs)
		return
	}
	if *fProbe != "" {
		var gi, ci int
		fmt.Sscanf(*fProbe, "%d:%d", &gi, &ci)
		probe(graphs[gi], graphs[gi].configs()[ci], nil)
		return
	}
	explore(run, b, graphs)
}

func countUniverse(graphs []*Graph) {
	byN := map[int]int{}
	cfgN := map[int]int{}
	evN := map[int]int{}
	for _, g := range graphs {
		byN[g.N()]++
		nc := len(g.configs())
		cfgN[g.N()] += nc
		evN[g.N()] += nc * len(inputVectors(g.NExtIn))
	}
	for n := 1; n <= 6; n++ {
		if byN[n] > 0 {
			fmt.Printf("instances=%d graphs=%d configs=%d evaluations=%d\n", n, byN[n], cfgN[n], evN[n])
		}
	}
}

type failure struct {
	g, c int
	r    cfgResult
}

func explore(run *vlib.Run, b Bounds, graphs []*Graph) {
	startT := time.Now()
	deadline := 150 * time.Second
	if run.Thorough() {
		deadline = 18 * time.Minute
	}
	if v := os.Getenv("C06_DEADLINE_S"); v != "" { // development aid (loaded machine)
		var sec int
		fmt.Sscanf(v, "%d", &sec)
		deadline = time.Duration(sec) * time.Second
	}
	workers := *fWorker
	if workers <= 0 {
		workers = runtime.NumCPU() - 2
		if workers > 12 {
			workers = 12
		}
		if workers < 1 {
			workers = 1
		}
	}
	// chunks of graphs with a bounded number of VM launches (leaked goroutines) per worker process
	const maxVMsPerWorker = 2500
	type chunk struct{ lo, hi int }
	var chunks []chunk
	nCfg := make([]int, len(graphs))
	totalCfg, totalEval := 0, 0
	{
		lo, acc := 0, 0
		for i, g := range graphs {
			nCfg[i] = len(g.configs())
			cost := nCfg[i] * len(inputVectors(g.NExtIn))
			totalCfg += nCfg[i]
			totalEval += cost
			if acc > 0 && acc+cost > maxVMsPerWorker {
				chunks = append(chunks, chunk{lo, i})
				lo, acc = i, 0
			}
			acc += cost
		}
		if lo < len(graphs) {
			chunks = append(chunks, chunk{lo, len(graphs)})
		}
	}

	var mu sync.Mutex
	results := make([][]*cfgResult, len(graphs))
	for i := range results {
		results[i] = make([]*cfgResult, nCfg[i])
	}
	var aborted []failure // configs that killed / hung their worker
	var workerNotes []string
	const hangLimit = 240 * time.Second
	capHit := ""
	sink := func(r cfgResult) {
		mu.Lock()
		rr := r
		results[r.G][r.C] = &rr
		mu.Unlock()
	}
	stopProgress := make(chan bool)
	go func() {
		tk := time.NewTicker(30 * time.Second)
		defer tk.Stop()
		for {
			select {
			case <-stopProgress:
				return
			case <-tk.C:
				mu.Lock()
				d := 0
				for gi := range results {
					for _, r := range results[gi] {
						if r != nil {
							d++
						}
					}
				}
				mu.Unlock()
				fmt.Fprintf(os.Stderr, "C06 progress: %d/%d configurations after %.0fs\n", d, totalCfg, time.Since(startT).Seconds())
			}
		}
	}()
	next := 0
	var wg sync.WaitGroup
	for w := 0; w < workers; w++ {
		wg.Add(1)
		go func() {
			defer wg.Done()
			for {
				mu.Lock()
				if next >= len(chunks) || time.Since(startT) > deadline {
					if next < len(chunks) {
						capHit = "deadline"
					}
					mu.Unlock()
					return
				}
				ch := chunks[next]
				next++
				mu.Unlock()
				lo, cfrom := ch.lo, 0
				for {
					gs := map[int]*Graph{}
					for i := lo; i < ch.hi; i++ {
						gs[i] = graphs[i]
					}
					pending, completed, note := spawn(run.Tier, gs, []string{"-lo", fmt.Sprint(lo), "-hi", fmt.Sprint(ch.hi), "-cfrom", fmt.Sprint(cfrom)}, sink, hangLimit)
					if completed {
						break
					}
					if pending == nil {
						mu.Lock()
						capHit = "worker failed outside a config: " + note
						mu.Unlock()
						break
					}
					cls := "assembler-abort"
					if note == "hang" {
						cls = "hang"
					}
					mu.Lock()
					aborted = append(aborted, failure{pending.G, pending.C, cfgResult{G: pending.G, C: pending.C, Class: cls, Err: note}})
					mu.Unlock()
					// resume after the config that killed the worker
					lo, cfrom = pending.G, pending.C+1
					if cfrom >= nCfg[lo] {
						lo, cfrom = lo+1, 0
					}
					if lo >= ch.hi {
						break
					}
				}
			}
		}()
	}
	wg.Wait()
	close(stopProgress)

	// ---- aggregate -------------------------------------------------------------------------------------------
	evaluations, nontrivial, cfgDone, cfgPass := 0, 0, 0, 0
	classCount := map[string]int{}
	var fails []failure
	metaGroups, metaDisagree, metaUnexplained := 0, 0, 0
	graphsDone := 0
	perN := map[int]int{}
	for gi := range graphs {
		complete := true
		hashes := map[string]int{}
		allPass := true
		for ci, r := range results[gi] {
			if r == nil {
				complete = false
				continue
			}
			cfgDone++
			evaluations += r.Evals
			if r.Class == "" {
				cfgPass++
				if r.NonTrivial {
					nontrivial++
				}
			} else {
				allPass = false
				classCount[r.Class]++
				fails = append(fails, failure{gi, ci, *r})
			}
			if r.OutHash != "" && r.Class != "reject" && r.Class != "assembler-panic" {
				hashes[r.OutHash]++
			}
		}
		if complete {
			graphsDone++
			perN[graphs[gi].N()]++
		}
		if len(hashes) > 0 {
			metaGroups++
			if len(hashes) > 1 {
				metaDisagree++
				if allPass {
					metaUnexplained++
					// cannot happen unless the reference evaluation is not a function: harness self-check
					run.Report("C06|harness|metamorphic-disagreement-without-oracle1-failure", "partitions of one graph disagree although each equals the reference", graphs[gi])
				}
			}
		}
	}
	for _, a := range aborted {
		classCount[a.r.Class]++
	}

	// ---- confirm failures: failing configs are re-run in 5 further worker processes -------------------------------
	// (the first confirmCap failing configs in enumeration order, plus every case that would be the first of its
	// signature; a case whose outcome is not identical over all runs is classed "nondeterministic", not wrong-result)
	type key struct{ g, c int }
	variants := map[key]map[string]bool{}
	confirmed := map[key]bool{}
	sigOf := func(r cfgResult) string {
		return r.Class + "/" + r.Stage + "/" + r.OutHash + "/" + r.DumpHash + "/" + firstLine(r.Err)
	}
	for _, f := range fails {
		variants[key{f.g, f.c}] = map[string]bool{sigOf(f.r): true}
	}
	const reruns = 5
	confirmCap := 120
	if run.Thorough() {
		confirmCap = 1500
	}
	confirmComplete := true
	confirm := func(list []failure) {
		if len(list) == 0 {
			return
		}
		var only []string
		for _, f := range list {
			only = append(only, fmt.Sprintf("%d:%d", f.g, f.c))
		}
		per := (len(only) + workers - 1) / workers
		if per > 100 {
			per = 100
		}
		var batches [][]string
		for round := 0; round < reruns; round++ {
			for i := 0; i < len(only); i += per {
				j := i + per
				if j > len(only) {
					j = len(only)
				}
				batches = append(batches, only[i:j])
			}
		}
		nb := 0
		okRuns := map[key]int{}
		var wg2 sync.WaitGroup
		for w := 0; w < workers; w++ {
			wg2.Add(1)
			go func() {
				defer wg2.Done()
				for {
					mu.Lock()
					if nb >= len(batches) {
						mu.Unlock()
						return
					}
					bt := batches[nb]
					nb++
					mu.Unlock()
					gs := map[int]*Graph{}
					for _, p := range bt {
						var a, b int
						fmt.Sscanf(p, "%d:%d", &a, &b)
						gs[a] = graphs[a]
					}
					remaining := bt
					for attempt := 0; attempt < 3 && len(remaining) > 0; attempt++ {
						got := map[string]bool{}
						_, completed, note := spawn(run.Tier, gs, []string{"-only", strings.Join(remaining, ",")}, func(r cfgResult) {
							mu.Lock()
							variants[key{r.G, r.C}][sigOf(r)] = true
							okRuns[key{r.G, r.C}]++
							got[fmt.Sprintf("%d:%d", r.G, r.C)] = true
							mu.Unlock()
						}, hangLimit)
						if completed {
							break
						}
						mu.Lock()
						workerNotes = append(workerNotes, "confirmation worker: "+note)
						var rest []string
						for _, p := range remaining {
							if !got[p] {
								rest = append(rest, p)
							}
						}
						remaining = rest
						mu.Unlock()
					}
				}
			}()
		}
		wg2.Wait()
		for _, f := range list {
			if okRuns[key{f.g, f.c}] == reruns {
				confirmed[key{f.g, f.c}] = true
			} else {
				confirmComplete = false
			}
		}
	}
	if len(fails) > confirmCap {
		confirm(fails[:confirmCap])
	} else {
		confirm(fails)
	}

	// ---- classify + report -------------------------------------------------------------------------------------------
	// feature masks of every configuration that passed both oracles
	passing := map[uint32]bool{}
	for gi := range graphs {
		var cf []Config
		for ci, r := range results[gi] {
			if r != nil && r.Class == "" {
				if cf == nil {
					cf = graphs[gi].configs()
				}
				passing[graphs[gi].featureMask(cf[ci])] = true
			}
		}
	}
	type classified struct {
		f         failure
		sig, what string
	}
	classifyAll := func() (out []classified, firstUnconfirmed []failure) {
		finders := map[string]*conditionFinder{}
		finder := func(k string) *conditionFinder {
			if finders[k] == nil {
				finders[k] = newConditionFinder(passing)
			}
			return finders[k]
		}
		seen := map[string]bool{}
		for _, f := range fails { // enumeration order: smallest graph first
			g := graphs[f.g]
			c := g.configs()[f.c]
			mask := g.featureMask(c)
			var sig, what string
			if nv := len(variants[key{f.g, f.c}]); nv > 1 {
				sig = "C06|nondeterministic|" + finder("nondeterministic").condition(mask)
				what = fmt.Sprintf("the same graph+partition gives different results in different processes (%d distinct outcomes over %d runs); graph %s, partition %s", nv, reruns+1, g.Key(), c)
			} else {
				cond := finder(classKey(f.r)).condition(mask)
				sig, what = classify(g, c, f.r, cond, results[f.g])
			}
			if !seen[sig] {
				seen[sig] = true
				if !confirmed[key{f.g, f.c}] {
					firstUnconfirmed = append(firstUnconfirmed, f)
				}
			}
			out = append(out, classified{f, sig, what})
		}
		return
	}
	var cls []classified
	for iter := 0; iter < 4; iter++ {
		var todo []failure
		cls, todo = classifyAll()
		if len(todo) == 0 {
			break
		}
		confirm(todo)
		for _, f := range todo { // a case that cannot be confirmed (worker died) must not loop forever
			confirmed[key{f.g, f.c}] = true
		}
	}
	sigCount := map[string]int{}
	reported := map[string]bool{}
	nondet := 0
	for _, x := range cls {
		f := x.f
		g := graphs[f.g]
		c := g.configs()[f.c]
		if strings.HasPrefix(x.sig, "C06|nondeterministic|") {
			nondet++
		}
		sigCount[x.sig]++
		if !reported[x.sig] {
			reported[x.sig] = true
			w := x.what
			if !strings.HasPrefix(x.sig, "C06|nondeterministic|") {
				w += " [outcome identical in 5 further worker processes]"
			}
			run.Report(x.sig, w, replayCase{g, c, ints(f.r.BadIn), g.Source(c)})
		} else {
			run.Report(x.sig, "", nil)
		}
	}
	for _, a := range aborted {
		g := graphs[a.g]
		c := g.configs()[a.c]
		if a.r.Class == "hang" {
			// no wall-clock oracle: a hang is a cap, not an alarm
			capHit = "a worker made no progress for 240 s on one configuration (skipped)"
			continue
		}
		sig := "C06|assembler-abort|" + abortCondition(a.r.Err)
		sigCount[sig]++
		run.Report(sig, fmt.Sprintf("the process is terminated while assembling/simulating graph %s, partition %s: %s", g.Key(), c, a.r.Err), replayCase{g, c, nil, g.Source(c)})
	}

	exhaustive := capHit == "" && cfgDone == totalCfg && confirmComplete
	run.Set("exhaustive", exhaustive)
	if capHit != "" {
		run.Set("cap_hit", capHit)
	}
	if len(workerNotes) > 0 {
		if len(workerNotes) > 10 {
			workerNotes = workerNotes[:10]
		}
		run.Set("worker_notes", workerNotes)
	}
	run.Set("bounds", map[string]any{
		"max_instances": b.MaxInst, "fragment_kinds": kindNames(), "max_external_inputs": b.MaxExtIn, "max_external_outputs": b.MaxExtOut,
		"max_fanout_per_producer_port": b.MaxFanout, "input_values_per_external_input": []int{0, 1, 2, 127, 255}, "register_size": 8, "iomode": "async (composer default)",
		"partitions":                   "all set partitions of the instances (Bell(n)) x all topological orders inside each block",
		"graphs":                       "all DAGs (one representative per instance relabelling), every input port linked, every instance live, every external input used",
		"restriction_at_max_instances": restrictionText(b),
	})
	run.Set("graphs", len(graphs))
	run.Set("graphs_completed", graphsDone)
	run.Set("graphs_by_instances", perN)
	run.Set("configurations", totalCfg)
	run.Set("configurations_completed", cfgDone)
	run.Set("configurations_passing_both_oracles", cfgPass)
	run.Set("evaluations", evaluations)
	run.Set("evaluations_planned", totalEval)
	run.Set("distinct_nontrivial", nontrivial)
	run.Set("failure_classes", classCount)
	run.Set("failing_configurations_by_signature", sigCount)
	run.Set("failing_configurations", len(fails))
	run.Set("failing_configurations_rerun_5x_in_other_processes", len(confirmed))
	run.Set("failing_configurations_nondeterministic", nondet)
	run.Set("metamorphic_graph_groups_compared", metaGroups)
	run.Set("metamorphic_groups_disagreeing", metaDisagree)
	run.Set("metamorphic_disagreements_not_explained_by_oracle1", metaUnexplained)
	run.Set("worker_processes", workers)
	run.Set("rule", "for every graph G, partition/order P and input x: the BASM text (fragments, fidef, filinkdef/filinkatt, one cpdef fragcollapse list per block of P) is assembled by basm's public API, run on bondmachine.VM with x held on the external inputs for T = 2*Lmax*(n+1)+2n+8 ticks (Lmax = longest CP program, n = instances); outputs at tick T must stay unchanged for 2*Lmax+2 more ticks and equal eval(G)(x) mod 256; the output tables of all P of one G must be identical; an assembler error on a topologically valid P is a failure")
	run.Assume("only opcodes with a faithful Go simulation are used in fragments (inc, add, cpy, rset) plus what the composer inserts (i2r, r2o, cpy, j)")
	run.Assume("iomode async: external inputs are level signals held for the whole run; result = settled outputs")
	// samples: actual sources of passing cases (one fully collapsed, one mixed, one fully split) and of failing cases
	ns := 0
	for gi := len(graphs) - 1; gi >= 0 && ns < 3; gi -= 1 + len(graphs)/7 {
		g := graphs[gi]
		cf := g.configs()
		want := []int{0, len(cf) / 2, len(cf) - 1}[ns]
		for d := 0; d < len(cf); d++ {
			ci := (want + d) % len(cf)
			if r := results[gi][ci]; r != nil && r.Class == "" && r.NonTrivial {
				in := inputVectors(g.NExtIn)
				x := in[len(in)/2]
				run.Sample(map[string]any{"graph": g.Key(), "partition": cf[ci].String(), "source": g.Source(cf[ci]), "example_input": ints(x), "expected_and_observed_output": ints(g.Eval(x)), "verdict": "pass (all input vectors)"})
				ns++
				break
			}
		}
	}
	for i, f := range fails {
		if i >= 3 {
			break
		}
		g := graphs[f.g]
		c := g.configs()[f.c]
		run.Sample(map[string]any{"graph": g.Key(), "partition": c.String(), "source": g.Source(c), "class": f.r.Class, "input": ints(f.r.BadIn), "got": ints(f.r.Got), "want": ints(f.r.Want), "error": firstLine(f.r.Err)})
	}
	run.Finish()
}

func ints(b []uint8) []int {
	r := make([]int, len(b))
	for i, v := range b {
		r[i] = int(v)
	}
	return r
}

func firstLine(s string) string {
	if i := strings.IndexByte(s, '\n'); i >= 0 {
		return s[:i]
	}
	return s
}

func kindNames() []string {
	var r []string
	for _, k := range kinds {
		r = append(r, fmt.Sprintf("%s(resin:%s resout:%s: %s)", k.Name, strings.Join(k.ResIn, ":"), strings.Join(k.ResOut, ":"), strings.Join(k.Body, "; ")))
	}
	return r
}

func restrictionText(b Bounds) string {
	var p []string
	if b.RestrictTop {
		p = append(p, "at most one two-input and at most one two-output fragment")
	}
	if b.TopMaxOut > 0 {
		p = append(p, fmt.Sprintf("at most %d external output(s)", b.TopMaxOut))
	}
	if b.TopMaxIn > 0 {
		p = append(p, fmt.Sprintf("at most %d external input(s)", b.TopMaxIn))
	}
	if len(p) == 0 {
		return "none"
	}
	return fmt.Sprintf("graphs with exactly %d instances: %s (smaller graphs unrestricted)", b.MaxInst, strings.Join(p, ", "))
}

// ---- probe / replay -------------------------------------------------------------------------------------------------

func probe(g *Graph, c Config, only []uint8) bool {
	src := g.Source(c)
	fmt.Printf("graph: %s\npartition: %s   (topologically ordered: %v)\n--- source ---\n%s--- end source ---\n", g.Key(), c, g.isTopological(c), src)
	restore := silence()
	b, stage, errText, panicked := assemble(src)
	restore()
	if b == nil {
		fmt.Printf("assembler stage=%s panicked=%v: %s\n", stage, panicked, errText)
		return false
	}
	fmt.Printf("--- assembled machine ---\n%s", b.dump)
	ok := true
	ins := inputVectors(g.NExtIn)
	if only != nil {
		ins = [][]uint8{only}
	}
	for _, in := range ins {
		want := g.Eval(in)
		restore := silence()
		s := simulate(b, g.N(), in, len(g.Outs))
		restore()
		verdict := "ok"
		if s.WrongArty != "" || s.Err != "" || !s.Settled || fmt.Sprint(s.Out) != fmt.Sprint(want) {
			verdict = "MISMATCH"
			ok = false
		}
		fmt.Printf("input %v: simulated %v (settled=%v ticks=%d %s%s) reference %v  %s\n", in, s.Out, s.Settled, s.Ticks, s.WrongArty, firstLine(s.Err), want, verdict)
	}
	return ok
}

func replay(run *vlib.Run) {
	var rc replayCase
	sig, err := vlib.LoadReplay(run.Replay, &rc)
	if err != nil {
		fmt.Println("cannot load replay:", err)
		os.Exit(2)
	}
	fmt.Println("replaying", sig)
	done := make(chan bool, 1)
	go func() { done <- probe(rc.Graph, rc.Config, nil) }()
	select {
	case ok := <-done:
		if ok {
			fmt.Println("REPLAY: property holds on this case")
			os.Exit(0)
		}
		fmt.Println("REPLAY: failure reproduced")
		os.Exit(1)
	case <-time.After(120 * time.Second):
		fmt.Println("REPLAY: no answer after 120 s (hang)")
		os.Exit(1)
	}
}

var _ = sort.Strings
